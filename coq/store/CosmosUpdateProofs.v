(* Store group: a cosmosdb patch of the item (planID, id) is the specification's rewrite of the object
   with that id - given that ids are used once in the whole container (C16). *)
From Coq Require Import List Arith Lia Permutation Bool ZArith.
From Coercion.Base Require Import Plan.
From Coercion.Store Require Import Tree Rows Spec SqliteModel SqliteRep CosmosModel CosmosRep ListAux
     SqliteProofs SqliteFetchProofs SqliteUpdateProofs SqliteRefine CosmosProofs CosmosFetchProofs CosmosRefine.
Import ListNotations.

(* ---------- the object rewrites keep every id ---------- *)
Section TIds.
Variable fa : sact -> sact.
Variable fc : schk -> schk.
Variable fs : sseq -> sseq.
Variable fb : sblk -> sblk.
Variable fp : spln -> spln.
Hypothesis fa_id : forall a, sa_id (fa a) = sa_id a.
Hypothesis fc_id : forall c, sc_id (fc c) = sc_id c.
Hypothesis fs_id : forall s, sq_id (fs s) = sq_id s.
Hypothesis fb_id : forall b, sb_id (fb b) = sb_id b.
Hypothesis fc_acts : forall c, sc_acts (fc c) = sc_acts c.
Hypothesis fs_acts : forall s, sq_acts (fs s) = sq_acts s.
Hypothesis fb_parts : forall b, sb_byp (fb b) = sb_byp b /\ sb_pre (fb b) = sb_pre b /\ sb_post (fb b) = sb_post b
                                /\ sb_cont (fb b) = sb_cont b /\ sb_def (fb b) = sb_def b /\ sb_seqs (fb b) = sb_seqs b.
Hypothesis fp_parts : forall p, sp_id (fp p) = sp_id p /\ sp_byp (fp p) = sp_byp p /\ sp_pre (fp p) = sp_pre p
                                /\ sp_post (fp p) = sp_post p /\ sp_cont (fp p) = sp_cont p /\ sp_def (fp p) = sp_def p
                                /\ sp_blocks (fp p) = sp_blocks p.

Notation T_chk := (T_chk fa fc).
Notation T_seq := (T_seq fa fs).
Notation T_blk := (T_blk fa fc fs fb).
Notation T_pln := (T_pln fa fc fs fb fp).

Lemma map_fa_ids' l : map sa_id (map fa l) = map sa_id l.
Proof. rewrite map_map. apply map_ext. intros a. apply fa_id. Qed.

Lemma chk_ids_T c : chk_ids (T_chk c) = chk_ids c.
Proof. unfold chk_ids, SqliteUpdateProofs.T_chk. simpl. now rewrite fc_id, fc_acts, map_fa_ids'. Qed.
Lemma ochk_ids_T o : flat_map chk_ids (ochk_list (option_map T_chk o)) = flat_map chk_ids (ochk_list o).
Proof. destruct o as [c|]; cbn [option_map ochk_list flat_map]; [now rewrite chk_ids_T | reflexivity]. Qed.
Lemma seq_ids_T s : seq_ids (T_seq s) = seq_ids s.
Proof. unfold seq_ids, SqliteUpdateProofs.T_seq. simpl. now rewrite fs_id, fs_acts, map_fa_ids'. Qed.

Lemma blk_ids_T b : blk_ids (T_blk b) = blk_ids b.
Proof.
  destruct (fb_parts b) as (E1 & E2 & E3 & E4 & E5 & E6).
  unfold blk_ids, blk_groups, SqliteUpdateProofs.T_blk. simpl. rewrite E1, E2, E3, E4, E5, E6, fb_id.
  rewrite !flat_map_app', !ochk_ids_T. do 2 f_equal.
  clear E1 E2 E3 E4 E5 E6. induction (sb_seqs b) as [|s l IH]; [reflexivity|]. cbn [map flat_map]. now rewrite seq_ids_T, IH.
Qed.

Lemma pln_ids_T p : pln_ids (T_pln p) = pln_ids p.
Proof.
  destruct (fp_parts p) as (E0 & E1 & E2 & E3 & E4 & E5 & E6).
  unfold pln_ids, pln_groups, SqliteUpdateProofs.T_pln. simpl. rewrite E0, E1, E2, E3, E4, E5, E6.
  rewrite !flat_map_app', !ochk_ids_T. do 2 f_equal.
  clear E0 E1 E2 E3 E4 E5 E6. induction (sp_blocks p) as [|b l IH]; [reflexivity|]. cbn [map flat_map]. now rewrite blk_ids_T, IH.
Qed.

Lemma sp_id_T p : sp_id (T_pln p) = sp_id p.
Proof. unfold SqliteUpdateProofs.T_pln. simpl. apply fp_parts. Qed.
End TIds.

(* ---------- a row rewrite and the object rewrites it corresponds to (cosmosdb items) ---------- *)
Section CUpdate.
Variable enc_req : blob -> option code.
Variable enc_att : attempt -> option code.

Notation carow := (carow enc_req enc_att).
Notation crows_actions := (crows_actions enc_req enc_att).
Notation crows_checks := (crows_checks enc_req enc_att).
Notation crows_seq := (crows_seq enc_req enc_att).
Notation crows_seqs := (crows_seqs enc_req enc_att).
Notation crows_block := (crows_block enc_req enc_att).
Notation crows_blocks := (crows_blocks enc_req enc_att).
Notation crows_plan := (crows_plan enc_req enc_att).
Notation crows_of := (crows_of enc_req enc_att).

Variable u : row -> row.
Variable fa : sact -> sact.
Variable fc : schk -> schk.
Variable fs : sseq -> sseq.
Variable fb : sblk -> sblk.
Variable fp : spln -> spln.

Notation T_chk := (T_chk fa fc).
Notation T_seq := (T_seq fa fs).
Notation T_blk := (T_blk fa fc fs fb).
Notation T_pln := (T_pln fa fc fs fb fp).

Hypothesis Ua : forall pid pos a, u (RAction (carow pid pos a)) = RAction (carow pid pos (fa a)).
Hypothesis Uc' : forall pid c, u (crow_checks pid c) = crow_checks pid (fc c).
Hypothesis Us' : forall pid pos s, u (crow_seq pid pos s) = crow_seq pid pos (fs s).
Hypothesis Ub' : forall pid pos b, u (crow_block pid pos b) = crow_block pid pos (fb b).
Hypothesis Up' : forall p, u (crow_plan p) = crow_plan (fp p).
Hypothesis fa_id : forall a, sa_id (fa a) = sa_id a.
Hypothesis fc_id : forall c, sc_id (fc c) = sc_id c.
Hypothesis fs_id : forall s, sq_id (fs s) = sq_id s.
Hypothesis fb_id : forall b, sb_id (fb b) = sb_id b.
Hypothesis fc_acts : forall c, sc_acts (fc c) = sc_acts c.
Hypothesis fs_acts : forall s, sq_acts (fs s) = sq_acts s.
Hypothesis fb_parts : forall b, sb_byp (fb b) = sb_byp b /\ sb_pre (fb b) = sb_pre b /\ sb_post (fb b) = sb_post b
                                /\ sb_cont (fb b) = sb_cont b /\ sb_def (fb b) = sb_def b /\ sb_seqs (fb b) = sb_seqs b.
Hypothesis fp_parts : forall p, sp_id (fp p) = sp_id p /\ sp_byp (fp p) = sp_byp p /\ sp_pre (fp p) = sp_pre p
                                /\ sp_post (fp p) = sp_post p /\ sp_cont (fp p) = sp_cont p /\ sp_def (fp p) = sp_def p
                                /\ sp_blocks (fp p) = sp_blocks p.

Lemma cmap_fa_ids l : map sa_id (map fa l) = map sa_id l.
Proof. rewrite map_map. apply map_ext. intros a. apply fa_id. Qed.
Lemma cT_chk_id c : sc_id (T_chk c) = sc_id c. Proof. unfold SqliteUpdateProofs.T_chk; simpl. apply fc_id. Qed.
Lemma cT_seq_id s : sq_id (T_seq s) = sq_id s. Proof. unfold SqliteUpdateProofs.T_seq; simpl. apply fs_id. Qed.
Lemma cT_blk_id b : sb_id (T_blk b) = sb_id b. Proof. unfold SqliteUpdateProofs.T_blk; simpl. apply fb_id. Qed.
Lemma cochk_id_T o : ochk_id (option_map T_chk o) = ochk_id o.
Proof. destruct o; unfold ochk_id; cbn [option_map]; [now rewrite cT_chk_id | reflexivity]. Qed.

Lemma cUc pid c : u (crow_checks pid c) = crow_checks pid (T_chk c).
Proof. rewrite Uc'. unfold crow_checks, checksEntry, SqliteUpdateProofs.T_chk; simpl. now rewrite cmap_fa_ids. Qed.
Lemma cUs pid pos s : u (crow_seq pid pos s) = crow_seq pid pos (T_seq s).
Proof. rewrite Us'. unfold crow_seq, sequencesEntry, SqliteUpdateProofs.T_seq; simpl. now rewrite cmap_fa_ids. Qed.
Lemma cUb pid pos b : u (crow_block pid pos b) = crow_block pid pos (T_blk b).
Proof.
  rewrite Ub'. unfold crow_block, blocksEntry, SqliteUpdateProofs.T_blk; simpl. rewrite !cochk_id_T.
  rewrite map_map. rewrite (map_ext (fun x => sq_id (T_seq x)) sq_id cT_seq_id). reflexivity.
Qed.
Lemma cUp p : u (crow_plan p) = crow_plan (T_pln p).
Proof.
  rewrite Up'. unfold crow_plan, plansEntry, SqliteUpdateProofs.T_pln; simpl. rewrite !cochk_id_T.
  rewrite map_map. rewrite (map_ext (fun x => sb_id (T_blk x)) sb_id cT_blk_id). reflexivity.
Qed.

Lemma cupd_actions pid l : forall pos, map u (crows_actions pid pos l) = crows_actions pid pos (map fa l).
Proof.
  unfold CosmosRep.crows_actions. induction l as [|a l IH]; intros pos; simpl; [reflexivity|]. now rewrite Ua, IH.
Qed.
Lemma cupd_checks pid o : map u (crows_checks pid o) = crows_checks pid (option_map T_chk o).
Proof.
  destruct o as [c|]; unfold CosmosRep.crows_checks; cbn [option_map]; [|reflexivity].
  rewrite map_app. cbn [map]. rewrite cUc, cupd_actions. unfold SqliteUpdateProofs.T_chk at 1. simpl. now rewrite fc_acts.
Qed.
Lemma cupd_seq pid pos s : map u (crows_seq pid pos s) = crows_seq pid pos (T_seq s).
Proof.
  unfold CosmosRep.crows_seq. rewrite map_app. cbn [map]. rewrite cUs, cupd_actions.
  unfold SqliteUpdateProofs.T_seq at 1. simpl. now rewrite fs_acts.
Qed.
Lemma cupd_seqs pid l : forall pos, map u (crows_seqs pid pos l) = crows_seqs pid pos (map T_seq l).
Proof.
  induction l as [|s l IH]; intros pos; [reflexivity|].
  cbn [CosmosRep.crows_seqs map]. now rewrite map_app, cupd_seq, IH.
Qed.
Lemma cupd_block pid pos b : map u (crows_block pid pos b) = crows_block pid pos (T_blk b).
Proof.
  unfold CosmosRep.crows_block. rewrite !map_app. cbn [map]. rewrite !cupd_checks, cUb, cupd_seqs.
  destruct (fb_parts b) as (E1 & E2 & E3 & E4 & E5 & E6).
  unfold SqliteUpdateProofs.T_blk at 1 2 3 4 5 6. simpl. now rewrite E1, E2, E3, E4, E5, E6.
Qed.
Lemma cupd_blocks pid l : forall pos, map u (crows_blocks pid pos l) = crows_blocks pid pos (map T_blk l).
Proof.
  induction l as [|b l IH]; intros pos; [reflexivity|].
  cbn [CosmosRep.crows_blocks map]. now rewrite map_app, cupd_block, IH.
Qed.
Lemma cupd_plan p : map u (crows_plan p) = crows_plan (T_pln p).
Proof.
  unfold CosmosRep.crows_plan. rewrite !map_app. cbn [map]. rewrite !cupd_checks, cupd_blocks, cUp.
  destruct (fp_parts p) as (E0 & E1 & E2 & E3 & E4 & E5 & E6).
  unfold SqliteUpdateProofs.T_pln at 1 2 3 4 5 6 7 8 9 10 11 12. simpl. now rewrite E0, E1, E2, E3, E4, E5, E6.
Qed.
Lemma cupd_rows_of s : map u (crows_of s) = crows_of (map T_pln s).
Proof.
  unfold CosmosRep.crows_of. induction s as [|p s IH]; [reflexivity|]. cbn [flat_map map]. now rewrite map_app, cupd_plan, IH.
Qed.

End CUpdate.

(* ---------- kind-specific row rewrites (what a patch amounts to when ids are used once) ---------- *)
Definition cupd_plan_row (id : uid) (rs : reason) (st : state) (sub : Z) (r : row) : row :=
  match r with RPlan x => if uid_eqb (pr_id x) id then patch_plan rs st sub r else r | _ => r end.
Definition cupd_block_row (id : uid) (st : state) (r : row) : row :=
  match r with RBlock x => if uid_eqb (br_id x) id then patch_state st None r else r | _ => r end.
Definition cupd_checks_row (id : uid) (st : state) (r : row) : row :=
  match r with RChecks x => if uid_eqb (cr_id x) id then patch_state st None r else r | _ => r end.
Definition cupd_seq_row (id : uid) (st : state) (r : row) : row :=
  match r with RSeq x => if uid_eqb (sr_id x) id then patch_state st None r else r | _ => r end.
Definition cupd_action_row (id : uid) (st : state) (ats : list code) (r : row) : row :=
  match r with RAction x => if uid_eqb (ar_id x) id then patch_state st (Some ats) r else r | _ => r end.

(* the plan rewrite a cosmosdb UpdatePlan performs: also the submit time *)
Definition set_pln_sub (id : uid) (rs : reason) (st : state) (sub : Z) (p : spln) : spln :=
  if uid_eqb (sp_id p) id then
    {| sp_id := sp_id p; sp_group := sp_group p; sp_name := sp_name p; sp_descr := sp_descr p; sp_meta := sp_meta p;
       sp_byp := sp_byp p; sp_pre := sp_pre p; sp_cont := sp_cont p; sp_post := sp_post p; sp_def := sp_def p;
       sp_blocks := sp_blocks p; sp_st := st; sp_submit := sub; sp_reason := rs |}
  else p.

Lemma set_pln_sub_same id rs st p : set_pln_sub id rs st (sp_submit p) p = set_pln id rs st p.
Proof. unfold set_pln_sub, set_pln. destruct (uid_eqb (sp_id p) id); reflexivity. Qed.

Lemma T_set_pln_sub id rs st sub p : T_pln idf idf idf idf (set_pln_sub id rs st sub) p = set_pln_sub id rs st sub p.
Proof.
  unfold T_pln. apply map_pln_id; intros; unfold T_chk, T_blk, T_seq, idf.
  - apply map_chk_acts_id.
  - apply map_blk_id; intros; [apply map_chk_acts_id | apply map_seq_acts_id].
Qed.

Section CInstances.
Variable enc_req : blob -> option code.
Variable enc_att : attempt -> option code.
Notation crows_of := (crows_of enc_req enc_att).

Lemma cupdatePlan_rows id rs st sub s :
  map (cupd_plan_row id rs st sub) (crows_of s) = crows_of (map (set_pln_sub id rs st sub) s).
Proof.
  rewrite (cupd_rows_of enc_req enc_att (cupd_plan_row id rs st sub) idf idf idf idf (set_pln_sub id rs st sub));
    try (intros; repeat split; reflexivity).
  - f_equal. apply map_ext. intros p. apply T_set_pln_sub.
  - intros p. unfold set_pln_sub, cupd_plan_row, crow_plan, plansEntry. simpl. destruct (uid_eqb (sp_id p) id); reflexivity.
  - intros p. unfold set_pln_sub. destruct (uid_eqb (sp_id p) id); repeat split; reflexivity.
Qed.

Lemma cupdateBlock_rows id st s :
  map (cupd_block_row id st) (crows_of s) = crows_of (map (pln_set_blk id st) s).
Proof.
  rewrite (cupd_rows_of enc_req enc_att (cupd_block_row id st) idf idf idf (set_blk id st) idf);
    try (intros; repeat split; reflexivity).
  - f_equal. apply map_ext. intros p. apply T_set_blk.
  - intros pid pos b. unfold set_blk, cupd_block_row, crow_block, blocksEntry. simpl. destruct (uid_eqb (sb_id b) id); reflexivity.
  - intros b. unfold set_blk. destruct (uid_eqb (sb_id b) id); reflexivity.
  - intros b. unfold set_blk. destruct (uid_eqb (sb_id b) id); repeat split; reflexivity.
Qed.

Lemma cupdateChecks_rows id st s :
  map (cupd_checks_row id st) (crows_of s) = crows_of (map (pln_set_chk id st) s).
Proof.
  rewrite (cupd_rows_of enc_req enc_att (cupd_checks_row id st) idf (set_chk id st) idf idf idf);
    try (intros; repeat split; reflexivity).
  - f_equal. apply map_ext. intros p. apply T_set_chk.
  - intros pid c. unfold set_chk, cupd_checks_row, crow_checks, checksEntry. simpl. destruct (uid_eqb (sc_id c) id); reflexivity.
  - intros c. unfold set_chk. destruct (uid_eqb (sc_id c) id); reflexivity.
  - intros c. unfold set_chk. destruct (uid_eqb (sc_id c) id); reflexivity.
Qed.

Lemma cupdateSequence_rows id st s :
  map (cupd_seq_row id st) (crows_of s) = crows_of (map (pln_set_seq id st) s).
Proof.
  rewrite (cupd_rows_of enc_req enc_att (cupd_seq_row id st) idf idf (set_seq id st) idf idf);
    try (intros; repeat split; reflexivity).
  - f_equal. apply map_ext. intros p. apply T_set_seq.
  - intros pid pos q. unfold set_seq, cupd_seq_row, crow_seq, sequencesEntry. simpl. destruct (uid_eqb (sq_id q) id); reflexivity.
  - intros q. unfold set_seq. destruct (uid_eqb (sq_id q) id); reflexivity.
  - intros q. unfold set_seq. destruct (uid_eqb (sq_id q) id); reflexivity.
Qed.

Lemma cupdateAction_rows id st atts s :
  map (cupd_action_row id st (enc_atts_d enc_att atts)) (crows_of s) = crows_of (map (pln_set_act id st atts) s).
Proof.
  rewrite (cupd_rows_of enc_req enc_att (cupd_action_row id st (enc_atts_d enc_att atts)) (set_act id st atts) idf idf idf idf);
    try (intros; repeat split; reflexivity).
  - intros pid pos a. unfold set_act, cupd_action_row, carow, actionsEntry. simpl. destruct (uid_eqb (sa_id a) id); reflexivity.
  - intros a. unfold set_act. destruct (uid_eqb (sa_id a) id); reflexivity.
Qed.

End CInstances.
