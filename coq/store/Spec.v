(* Store group: the specification. A vault is a finite map id -> plan (an association list in
   creation order). It knows nothing about rows, tables, items, positions or codecs, except which
   values the codec can encode at all ([enc_req] / [enc_att] are consulted for definedness only).

   create   adds the plan unchanged, or fails and changes nothing: nil id, id already present,
            or some request / attempt of the tree cannot be encoded;
   update_* may change, of the object(s) carrying that id, the state triple - plus the reason (plan)
            and the attempts (action) - and nothing of the definition;
   read     returns the stored plan; of an id never created, or deleted: None (an error, never an
            empty plan);
   delete   removes exactly that plan, or fails (absent id) and changes nothing. *)
From Coercion.Base Require Import Plan.
From Coercion.Store Require Import Tree Rows.

Definition is_some {A} (o : option A) : bool := match o with Some _ => true | None => false end.

(* ---- rewriting objects by id, everywhere in a plan ---- *)
Definition map_chk_acts (f : sact -> sact) (c : schk) : schk :=
  {| sc_id := sc_id c; sc_key := sc_key c; sc_delay := sc_delay c; sc_acts := map f (sc_acts c); sc_st := sc_st c |}.
Definition map_seq_acts (f : sact -> sact) (s : sseq) : sseq :=
  {| sq_id := sq_id s; sq_key := sq_key s; sq_name := sq_name s; sq_descr := sq_descr s;
     sq_acts := map f (sq_acts s); sq_st := sq_st s |}.

(* apply [g] to every check group and [h] to every sequence of a block *)
Definition map_blk (g : schk -> schk) (h : sseq -> sseq) (b : sblk) : sblk :=
  {| sb_id := sb_id b; sb_key := sb_key b; sb_name := sb_name b; sb_descr := sb_descr b;
     sb_entr := sb_entr b; sb_exit := sb_exit b;
     sb_byp := option_map g (sb_byp b); sb_pre := option_map g (sb_pre b); sb_cont := option_map g (sb_cont b);
     sb_post := option_map g (sb_post b); sb_def := option_map g (sb_def b);
     sb_seqs := map h (sb_seqs b); sb_conc := sb_conc b; sb_tol := sb_tol b; sb_st := sb_st b |}.

(* apply [g] to every check group of the plan and [k] to every block *)
Definition map_pln (g : schk -> schk) (k : sblk -> sblk) (p : spln) : spln :=
  {| sp_id := sp_id p; sp_group := sp_group p; sp_name := sp_name p; sp_descr := sp_descr p; sp_meta := sp_meta p;
     sp_byp := option_map g (sp_byp p); sp_pre := option_map g (sp_pre p); sp_cont := option_map g (sp_cont p);
     sp_post := option_map g (sp_post p); sp_def := option_map g (sp_def p);
     sp_blocks := map k (sp_blocks p); sp_st := sp_st p; sp_submit := sp_submit p; sp_reason := sp_reason p |}.

Definition set_act (id : uid) (st : state) (atts : list attempt) (a : sact) : sact :=
  if uid_eqb (sa_id a) id then
    {| sa_id := sa_id a; sa_key := sa_key a; sa_name := sa_name a; sa_descr := sa_descr a; sa_plugin := sa_plugin a;
       sa_timeout := sa_timeout a; sa_retries := sa_retries a; sa_req := sa_req a; sa_atts := atts; sa_st := st |}
  else a.

Definition set_chk (id : uid) (st : state) (c : schk) : schk :=
  if uid_eqb (sc_id c) id then
    {| sc_id := sc_id c; sc_key := sc_key c; sc_delay := sc_delay c; sc_acts := sc_acts c; sc_st := st |}
  else c.

Definition set_seq (id : uid) (st : state) (s : sseq) : sseq :=
  if uid_eqb (sq_id s) id then
    {| sq_id := sq_id s; sq_key := sq_key s; sq_name := sq_name s; sq_descr := sq_descr s; sq_acts := sq_acts s; sq_st := st |}
  else s.

Definition set_blk (id : uid) (st : state) (b : sblk) : sblk :=
  if uid_eqb (sb_id b) id then
    {| sb_id := sb_id b; sb_key := sb_key b; sb_name := sb_name b; sb_descr := sb_descr b;
       sb_entr := sb_entr b; sb_exit := sb_exit b;
       sb_byp := sb_byp b; sb_pre := sb_pre b; sb_cont := sb_cont b; sb_post := sb_post b; sb_def := sb_def b;
       sb_seqs := sb_seqs b; sb_conc := sb_conc b; sb_tol := sb_tol b; sb_st := st |}
  else b.

Definition set_pln (id : uid) (rs : reason) (st : state) (p : spln) : spln :=
  if uid_eqb (sp_id p) id then
    {| sp_id := sp_id p; sp_group := sp_group p; sp_name := sp_name p; sp_descr := sp_descr p; sp_meta := sp_meta p;
       sp_byp := sp_byp p; sp_pre := sp_pre p; sp_cont := sp_cont p; sp_post := sp_post p; sp_def := sp_def p;
       sp_blocks := sp_blocks p; sp_st := st; sp_submit := sp_submit p; sp_reason := rs |}
  else p.

Definition pln_set_act (id : uid) (st : state) (atts : list attempt) : spln -> spln :=
  let f := set_act id st atts in
  map_pln (map_chk_acts f) (map_blk (map_chk_acts f) (map_seq_acts f)).
Definition pln_set_chk (id : uid) (st : state) : spln -> spln :=
  map_pln (set_chk id st) (map_blk (set_chk id st) (fun s => s)).
Definition pln_set_seq (id : uid) (st : state) : spln -> spln :=
  map_pln (fun c => c) (map_blk (fun c => c) (set_seq id st)).
Definition pln_set_blk (id : uid) (st : state) : spln -> spln :=
  map_pln (fun c => c) (set_blk id st).

Definition store := list spln.
Definition SM := store -> store * bool.

Section Spec.
Variable enc_req : blob -> option code.
Variable enc_att : attempt -> option code.

Definition atts_encode (l : list attempt) : bool := forallb (fun a => is_some (enc_att a)) l.
Definition act_encodes (a : sact) : bool := is_some (enc_req (sa_req a)) && atts_encode (sa_atts a).
Definition pln_encodes (p : spln) : bool := forallb act_encodes (pln_actions p).

Definition read (id : uid) (s : store) : option spln := find (fun p => uid_eqb (sp_id p) id) s.

Definition create (p : spln) : SM :=
  fun s => if uid_nil (sp_id p) then (s, false)
           else if is_some (read (sp_id p) s) then (s, false)
           else if pln_encodes p then (s ++ [p], true)
           else (s, false).

Definition update_plan (id : uid) (rs : reason) (st : state) : SM := fun s => (map (set_pln id rs st) s, true).
Definition update_block (id : uid) (st : state) : SM := fun s => (map (pln_set_blk id st) s, true).
Definition update_checks (id : uid) (st : state) : SM := fun s => (map (pln_set_chk id st) s, true).
Definition update_sequence (id : uid) (st : state) : SM := fun s => (map (pln_set_seq id st) s, true).
Definition update_action (id : uid) (st : state) (atts : list attempt) : SM :=
  fun s => if atts_encode atts then (map (pln_set_act id st atts) s, true) else (s, false).

Definition delete (id : uid) : SM :=
  fun s => if is_some (read id s) then (filter (fun p => negb (uid_eqb (sp_id p) id)) s, true) else (s, false).

Definition step (o : op) : SM :=
  match o with
  | OCreate p => create p
  | OUpdatePlan id rs st _ => update_plan id rs st
  | OUpdateBlock _ id st => update_block id st
  | OUpdateChecks _ id st => update_checks id st
  | OUpdateSequence _ id st => update_sequence id st
  | OUpdateAction _ id st atts => update_action id st atts
  | ODelete id => delete id
  end.

Fixpoint run (ops : list op) (s : store) : store :=
  match ops with [] => s | o :: r => run r (fst (step o s)) end.

Fixpoint results (ops : list op) (s : store) : list bool :=
  match ops with [] => [] | o :: r => snd (step o s) :: results r (fst (step o s)) end.

End Spec.
