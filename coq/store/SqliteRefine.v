(* Store group: the sqlite model refines the specification (C13), Create is atomic and unique,
   Delete is exact (C14). *)
From Coq Require Import List Arith Lia Permutation Sorted Bool ZArith.
From Coercion.Base Require Import Plan.
From Coercion.Store Require Import Tree Rows Spec SqliteModel SqliteRep ListAux SqliteProofs SqliteFetchProofs SqliteUpdateProofs.
Import ListNotations.

(* ---------- keys and ids ---------- *)
Lemma NoDup_map_weaken {A B C} (f : A -> B) (g : A -> C) (l : list A) :
  (forall x y, f x = f y -> g x = g y) -> NoDup (map g l) -> NoDup (map f l).
Proof.
  intros H. induction l as [|a l IH]; simpl; intros Hn; [constructor|].
  inversion Hn as [|? ? Hi Hd]; subst. constructor; [|auto].
  intros Hin. apply Hi. apply in_map_iff in Hin as (b & Hb & Hin). apply in_map_iff. exists b. split; [now apply H | exact Hin].
Qed.

Lemma NoDup_key_of_ids (l : list row) : NoDup (map row_id l) -> NoDup (map key l).
Proof. apply NoDup_map_weaken. unfold key. intros x y E. now injection E. Qed.

Lemma key_in_id (r : row) (l : list row) : In (key r) (map key l) -> In (row_id r) (map row_id l).
Proof.
  intros H. apply in_map_iff in H as (x & Hx & Hin). apply in_map_iff. exists x. split; [|exact Hin].
  unfold key in Hx. now injection Hx.
Qed.

Section Refine.
Variable enc_req : blob -> option code.
Variable dec_req : tok -> code -> option blob.
Variable enc_att : attempt -> option code.
Variable dec_att : tok -> code -> option attempt.
Variable req_ok : tok -> blob -> bool.
Variable att_ok : tok -> attempt -> bool.
Hypothesis dec_enc_req : forall t b c, req_ok t b = true -> enc_req b = Some c -> dec_req t c = Some b.
Hypothesis dec_enc_att : forall t a c, att_ok t a = true -> enc_att a = Some c -> dec_att t c = Some a.

Notation rows_actions := (rows_actions enc_req enc_att).
Notation rows_checks := (rows_checks enc_req enc_att).
Notation rows_seq := (rows_seq enc_req enc_att).
Notation rows_seqs := (rows_seqs enc_req enc_att).
Notation rows_block := (rows_block enc_req enc_att).
Notation rows_blocks := (rows_blocks enc_req enc_att).
Notation rows_plan := (rows_plan enc_req enc_att).
Notation rows_of := (rows_of enc_req enc_att).
Notation pln_encodes := (pln_encodes enc_req enc_att).
Notation pln_dom := (pln_dom req_ok att_ok).
Notation act_dom := (act_dom req_ok att_ok).
Notation op_ok := (op_ok req_ok att_ok).
Notation ops_ok := (ops_ok enc_req enc_att req_ok att_ok).
Notation sq_step := (SqliteModel.step enc_req dec_req enc_att dec_att).
Notation sq_run := (SqliteModel.run enc_req dec_req enc_att dec_att).
Notation sq_results := (SqliteModel.results enc_req dec_req enc_att dec_att).
Notation sq_read := (SqliteModel.read dec_req dec_att).
Notation sq_create := (SqliteModel.create enc_req enc_att).
Notation sq_delete := (SqliteModel.delete dec_req dec_att).
Notation sp_step := (Spec.step enc_req enc_att).
Notation sp_run := (Spec.run enc_req enc_att).
Notation sp_results := (Spec.results enc_req enc_att).
Notation sp_create := (Spec.create enc_req enc_att).

(* ---------- facts about the rows of a plan ---------- *)
Definition sub_row (pid : uid) (r : row) : Prop := row_plan r = pid /\ row_kind r <> KPlan.

Lemma sub_actions pid l : forall pos, Forall (sub_row pid) (rows_actions pid pos l).
Proof.
  unfold SqliteRep.rows_actions. induction l as [|a l IH]; intros pos; simpl; constructor; [|apply IH].
  split; [reflexivity | discriminate].
Qed.
Lemma sub_checks pid o : Forall (sub_row pid) (rows_checks pid o).
Proof.
  destruct o as [c|]; unfold SqliteRep.rows_checks; [|constructor].
  constructor; [split; [reflexivity | discriminate] | apply sub_actions].
Qed.
Lemma sub_seqs pid l : forall pos, Forall (sub_row pid) (rows_seqs pid pos l).
Proof.
  induction l as [|s l IH]; intros pos; cbn [SqliteRep.rows_seqs]; [constructor|].
  apply Forall_app. split; [|apply IH]. unfold SqliteRep.rows_seq.
  constructor; [split; [reflexivity | discriminate] | apply sub_actions].
Qed.
Lemma sub_block pid pos b : Forall (sub_row pid) (rows_block pid pos b).
Proof.
  unfold SqliteRep.rows_block. repeat (apply Forall_app; split; [apply sub_checks|]).
  constructor; [split; [reflexivity | discriminate] | apply sub_seqs].
Qed.
Lemma sub_blocks pid l : forall pos, Forall (sub_row pid) (rows_blocks pid pos l).
Proof.
  induction l as [|b l IH]; intros pos; cbn [SqliteRep.rows_blocks]; [constructor|].
  apply Forall_app. split; [apply sub_block | apply IH].
Qed.
Lemma rows_plan_tail p :
  exists t, rows_plan p = RPlan (plan_row_of p) :: t /\ Forall (sub_row (sp_id p)) t.
Proof.
  unfold SqliteRep.rows_plan. eexists. split; [reflexivity|].
  repeat (apply Forall_app; split; [apply sub_checks|]). apply sub_blocks.
Qed.

Lemma rows_plan_planid p r : In r (rows_plan p) -> row_plan r = sp_id p.
Proof.
  destruct (rows_plan_tail p) as (t & -> & Ht). intros [<-|H]; [reflexivity|].
  rewrite Forall_forall in Ht. now apply Ht.
Qed.
Lemma rows_plan_kplan p r : In r (rows_plan p) -> row_kind r = KPlan -> r = RPlan (plan_row_of p).
Proof.
  destruct (rows_plan_tail p) as (t & -> & Ht). intros [<-|H] Hk; [reflexivity|].
  rewrite Forall_forall in Ht. destruct (Ht r H) as [_ Hn]. contradiction.
Qed.
Lemma rows_plan_head p : In (RPlan (plan_row_of p)) (rows_plan p).
Proof. destruct (rows_plan_tail p) as (t & -> & _). now left. Qed.

(* the id column of the rows of a plan lists the ids of the plan *)
Lemma ids_actions pid l : forall pos, map row_id (rows_actions pid pos l) = map sa_id l.
Proof.
  unfold SqliteRep.rows_actions. induction l as [|a l IH]; intros pos; simpl; [reflexivity | now rewrite IH].
Qed.
Lemma ids_checks pid o : map row_id (rows_checks pid o) = flat_map chk_ids (ochk_list o).
Proof.
  destruct o as [c|]; unfold SqliteRep.rows_checks; simpl; [|reflexivity].
  unfold chk_ids. now rewrite ids_actions, app_nil_r.
Qed.
Lemma ids_seqs pid l : forall pos, map row_id (rows_seqs pid pos l) = flat_map seq_ids l.
Proof.
  induction l as [|s l IH]; intros pos; cbn [SqliteRep.rows_seqs flat_map]; [reflexivity|].
  rewrite map_app, IH. unfold SqliteRep.rows_seq, seq_ids. simpl. now rewrite ids_actions.
Qed.
Lemma ids_block pid pos b : map row_id (rows_block pid pos b) = blk_ids b.
Proof.
  unfold SqliteRep.rows_block, blk_ids, blk_groups. rewrite !map_app, !flat_map_app', !ids_checks. simpl.
  rewrite ids_seqs. now rewrite <- !app_assoc.
Qed.
Lemma ids_blocks pid l : forall pos, map row_id (rows_blocks pid pos l) = flat_map blk_ids l.
Proof.
  induction l as [|b l IH]; intros pos; cbn [SqliteRep.rows_blocks flat_map]; [reflexivity|].
  now rewrite map_app, IH, ids_block.
Qed.
Lemma ids_plan p : map row_id (rows_plan p) = pln_ids p.
Proof.
  unfold SqliteRep.rows_plan, pln_ids, pln_groups. simpl. rewrite !map_app, !flat_map_app', !ids_checks, ids_blocks.
  now rewrite <- !app_assoc.
Qed.

Lemma rows_of_in r s : In r (rows_of s) <-> exists p, In p s /\ In r (rows_plan p).
Proof. unfold SqliteRep.rows_of. apply in_flat_map. Qed.

Lemma rows_of_app s1 s2 : rows_of (s1 ++ s2) = rows_of s1 ++ rows_of s2.
Proof. apply flat_map_app'. Qed.

(* ---------- the invariant ---------- *)
Definition good (p : spln) : Prop := pln_dom p /\ pln_encodes p = true.
Definition Inv (s : store) : Prop := NoDup (map key (rows_of s)) /\ Forall good s.

Lemma Inv_nil : Inv []. Proof. split; constructor. Qed.

Lemma Inv_sub s p : Inv s -> In p s -> NoDup (map key (rows_plan p)) /\ incl (rows_plan p) (rows_of s) /\ good p.
Proof.
  intros [Hn Hg] Hp. rewrite Forall_forall in Hg. split; [|split; [|apply Hg; auto]].
  - clear Hg. induction s as [|q s IH]; [destruct Hp|].
    unfold SqliteRep.rows_of in Hn. cbn [flat_map] in Hn. apply NoDup_key_app in Hn as [H1 H2].
    destruct Hp as [->|Hp]; auto.
  - intros r Hr. apply rows_of_in. eauto.
Qed.

Lemma Inv_fetch s p : Inv s -> In p s -> sq_read (sp_id p) (rows_of s) = Some p.
Proof.
  intros HI Hp. destruct (Inv_sub s p HI Hp) as (H1 & H2 & [H3 H4]).
  unfold SqliteModel.read. eapply fetch_rows; eauto. exact (proj1 HI).
Qed.

Lemma plan_key_rows s r id : In r (rows_of s) -> key r = (KPlan, id) -> exists p, In p s /\ sp_id p = id.
Proof.
  intros Hr Hk. apply rows_of_in in Hr as (p & Hp & Hr). exists p. split; [exact Hp|].
  unfold key in Hk. injection Hk as Hk1 Hk2. rewrite (rows_plan_kplan p r Hr Hk1) in Hk2. exact Hk2.
Qed.

Lemma lookup_plan_none s id : (forall p, In p s -> sp_id p <> id) -> lookup KPlan id (rows_of s) = None.
Proof.
  intros H. apply lookup_none. intros r Hr Hk. destruct (plan_key_rows s r id Hr Hk) as (p & Hp & E). exact (H p Hp E).
Qed.

Lemma spec_read_some id s p : Spec.read id s = Some p -> In p s /\ sp_id p = id.
Proof. unfold Spec.read. intros H. apply find_some in H as [H1 H2]. apply uid_eqb_eq in H2. auto. Qed.
Lemma spec_read_none id s : Spec.read id s = None -> forall p, In p s -> sp_id p <> id.
Proof.
  unfold Spec.read. intros H p Hp E. rewrite find_none_iff in H. specialize (H p Hp).
  apply uid_eqb_neq in H. contradiction.
Qed.

Lemma Inv_plan_ids s : Inv s -> NoDup (map sp_id s).
Proof.
  intros [Hn _]. induction s as [|p s IH]; [constructor|].
  unfold SqliteRep.rows_of in Hn. cbn [flat_map] in Hn. rewrite map_app in Hn.
  apply NoDup_app_inv in Hn as (H1 & H2 & H3). simpl. constructor; [|auto].
  intros Hin. apply in_map_iff in Hin as (q & Hq & Hin).
  apply (H3 (KPlan, sp_id p)).
  - apply in_map_iff. exists (RPlan (plan_row_of p)). split; [reflexivity | apply rows_plan_head].
  - apply in_map_iff. exists (RPlan (plan_row_of q)). split; [unfold key; simpl; now rewrite Hq|].
    apply in_flat_map. exists q. split; [exact Hin | apply rows_plan_head].
Qed.

Lemma spec_read_in s p : Inv s -> In p s -> Spec.read (sp_id p) s = Some p.
Proof.
  intros HI Hp. unfold Spec.read.
  apply (find_some_unique sp_id); auto.
  - now apply Inv_plan_ids.
  - apply uid_eqb_refl.
  - intros y _ Hy. now apply uid_eqb_eq.
Qed.

(* C13, reading: the model's Read of the representing database is the specification's read *)
Lemma read_refines s id : Inv s -> sq_read id (rows_of s) = Spec.read id s.
Proof.
  intros HI. destruct (Spec.read id s) as [p|] eqn:E.
  - apply spec_read_some in E as [Hp <-]. now apply Inv_fetch.
  - unfold SqliteModel.read, SqliteModel.fetchPlan. now rewrite (lookup_plan_none s id (spec_read_none id s E)).
Qed.

Lemma exists_refines s id : Inv s -> exists_plan id (rows_of s) = is_some (Spec.read id s).
Proof.
  intros HI. unfold exists_plan. destruct (Spec.read id s) as [p|] eqn:E.
  - apply spec_read_some in E as [Hp <-].
    rewrite (lookup_in' (rows_of s) (RPlan (plan_row_of p)) KPlan (sp_id p)); auto; [exact (proj1 HI)|].
    apply rows_of_in. exists p. split; [exact Hp | apply rows_plan_head].
  - now rewrite (lookup_plan_none s id (spec_read_none id s E)).
Qed.

(* ---------- Create ---------- *)
Lemma step_create s p :
  Inv s -> op_ok s (OCreate p) ->
  sq_create p (rows_of s) = (rows_of (fst (sp_create p s)), snd (sp_create p s)) /\ Inv (fst (sp_create p s)).
Proof.
  intros HI [Hd Hf]. unfold Spec.create.
  destruct (uid_nil (sp_id p)) eqn:En.
  { simpl. split; [|exact HI]. unfold SqliteModel.create. now rewrite En. }
  destruct (is_some (Spec.read (sp_id p) s)) eqn:Er.
  { simpl. split; [|exact HI]. unfold SqliteModel.create. now rewrite En, (exists_refines s (sp_id p) HI), Er. }
  destruct (pln_encodes p) eqn:Ee; simpl.
  2:{ split; [|exact HI]. now apply create_unencodable. }
  assert (Hnone : Spec.read (sp_id p) s = None) by (destruct (Spec.read (sp_id p) s); [discriminate | reflexivity]).
  destruct Hf as [Hin | [Hnd Hdis]].
  { exfalso. apply in_map_iff in Hin as (q & Hq & Hin). exact (spec_read_none _ _ Hnone q Hin Hq). }
  assert (Hk : NoDup (map key (rows_of s ++ rows_plan p))).
  { rewrite map_app. apply NoDup_app_intro; [exact (proj1 HI) | apply NoDup_key_of_ids; now rewrite ids_plan |].
    intros k Hk1 Hk2. apply in_map_iff in Hk2 as (r2 & <- & Hr2). apply key_in_id in Hk1.
    apply in_map_iff in Hk1 as (r1 & Hid & Hr1). apply rows_of_in in Hr1 as (q & Hq & Hr1).
    apply (Hdis q (row_id r2) Hq).
    - rewrite <- ids_plan. now apply in_map.
    - rewrite <- Hid, <- ids_plan. now apply in_map. }
  rewrite rows_of_app. unfold SqliteRep.rows_of at 3. cbn [flat_map]. rewrite app_nil_r.
  split.
  - apply create_ok; auto. now rewrite (exists_refines s (sp_id p) HI), Er.
  - split; [rewrite rows_of_app; unfold SqliteRep.rows_of at 2; cbn [flat_map]; now rewrite app_nil_r|].
    apply Forall_app. split; [exact (proj2 HI) | constructor; [split; assumption | constructor]].
Qed.

(* ---------- Update* ---------- *)
Lemma Inv_map (u : row -> row) (f : spln -> spln) s :
  (forall r, key (u r) = key r) -> map u (rows_of s) = rows_of (map f s) ->
  (forall p, In p s -> good p -> good (f p)) -> Inv s -> Inv (map f s).
Proof.
  intros Hk Hu Hg [Hn Hgs]. split.
  - rewrite <- Hu, map_map. erewrite map_ext; [exact Hn | intros r; apply Hk].
  - apply Forall_forall. intros q Hq. apply in_map_iff in Hq as (p & <- & Hp).
    rewrite Forall_forall in Hgs. auto.
Qed.

Lemma key_upd_plan id rs st r : key (upd_plan_row id rs st r) = key r.
Proof. destruct r as [x| | | |]; simpl; try reflexivity. destruct (uid_eqb (pr_id x) id); reflexivity. Qed.
Lemma key_upd_block id st r : key (upd_block_row id st r) = key r.
Proof. destruct r as [|x| | |]; simpl; try reflexivity. destruct (uid_eqb (br_id x) id); reflexivity. Qed.
Lemma key_upd_checks id st r : key (upd_checks_row id st r) = key r.
Proof. destruct r as [| |x| |]; simpl; try reflexivity. destruct (uid_eqb (cr_id x) id); reflexivity. Qed.
Lemma key_upd_seq id st r : key (upd_seq_row id st r) = key r.
Proof. destruct r as [| | |x|]; simpl; try reflexivity. destruct (uid_eqb (sr_id x) id); reflexivity. Qed.
Lemma key_upd_action id st ats r : key (upd_action_row id st ats r) = key r.
Proof. destruct r as [| | | |x]; simpl; try reflexivity. destruct (uid_eqb (ar_id x) id); reflexivity. Qed.

Lemma idf_parts_b : forall b : sblk, sb_byp (idf b) = sb_byp b /\ sb_pre (idf b) = sb_pre b /\ sb_post (idf b) = sb_post b
                                /\ sb_cont (idf b) = sb_cont b /\ sb_def (idf b) = sb_def b /\ sb_seqs (idf b) = sb_seqs b.
Proof. intros; repeat split; reflexivity. Qed.
Lemma idf_parts_p : forall p : spln, sp_id (idf p) = sp_id p /\ sp_byp (idf p) = sp_byp p /\ sp_pre (idf p) = sp_pre p
                                /\ sp_post (idf p) = sp_post p /\ sp_cont (idf p) = sp_cont p /\ sp_def (idf p) = sp_def p
                                /\ sp_blocks (idf p) = sp_blocks p.
Proof. intros; repeat split; reflexivity. Qed.

(* rewrites that leave the actions alone keep a plan good *)
Lemma good_T_noact fc fs fb fp p :
  (forall c, sc_acts (fc c) = sc_acts c) -> (forall s, sq_acts (fs s) = sq_acts s) ->
  (forall b, sb_byp (fb b) = sb_byp b /\ sb_pre (fb b) = sb_pre b /\ sb_post (fb b) = sb_post b
             /\ sb_cont (fb b) = sb_cont b /\ sb_def (fb b) = sb_def b /\ sb_seqs (fb b) = sb_seqs b) ->
  (forall p, sp_id (fp p) = sp_id p /\ sp_byp (fp p) = sp_byp p /\ sp_pre (fp p) = sp_pre p
             /\ sp_post (fp p) = sp_post p /\ sp_cont (fp p) = sp_cont p /\ sp_def (fp p) = sp_def p
             /\ sp_blocks (fp p) = sp_blocks p) ->
  (forall c, st_dom (sc_st c) -> st_dom (sc_st (fc c))) ->
  (forall s, st_dom (sq_st s) -> st_dom (sq_st (fs s))) ->
  (forall b, st_dom (sb_st b) -> st_dom (sb_st (fb b))) ->
  (forall p, st_dom (sp_st p) -> st_dom (sp_st (fp p))) ->
  (forall p, (0 <= sp_submit p)%Z -> (0 <= sp_submit (fp p))%Z) ->
  good p -> good (T_pln idf fc fs fb fp p).
Proof.
  intros A1 A2 A3 A4 H1 H2 H3 H4 H5 [Hd He]. split.
  - apply (pln_dom_T req_ok att_ok idf fc fs fb fp A1 A2 A3 A4 (fun _ => True)); auto.
    apply Forall_forall. auto.
  - unfold Spec.pln_encodes. rewrite (pln_actions_T idf fc fs fb fp A1 A2 A3 A4). unfold idf at 1. now rewrite map_id.
Qed.

Lemma set_st_cases (b : bool) (s s' : state) : st_dom s -> st_dom s' -> st_dom (if b then s else s').
Proof. now destruct b. Qed.

Lemma step_update_plan s id rs st sub :
  Inv s -> st_dom st ->
  sq_step (OUpdatePlan id rs st sub) (rows_of s) = (rows_of (map (set_pln id rs st) s), true) /\ Inv (map (set_pln id rs st) s).
Proof.
  intros HI Hs. split; [simpl; unfold SqliteModel.updatePlan; now rewrite updatePlan_rows|].
  apply (Inv_map (upd_plan_row id rs st)); auto using key_upd_plan, updatePlan_rows.
  intros p _ Hg. rewrite <- T_set_pln. apply good_T_noact; auto using idf_parts_b.
  - intros q. unfold set_pln. destruct (uid_eqb (sp_id q) id); repeat split; reflexivity.
  - intros q Hq. unfold set_pln. destruct (uid_eqb (sp_id q) id); auto.
  - intros q Hq. unfold set_pln. destruct (uid_eqb (sp_id q) id); auto.
Qed.

Lemma step_update_block s pid id st :
  Inv s -> st_dom st ->
  sq_step (OUpdateBlock pid id st) (rows_of s) = (rows_of (map (pln_set_blk id st) s), true) /\ Inv (map (pln_set_blk id st) s).
Proof.
  intros HI Hs. split; [simpl; unfold SqliteModel.updateBlock; now rewrite updateBlock_rows|].
  apply (Inv_map (upd_block_row id st)); auto using key_upd_block, updateBlock_rows.
  intros p _ Hg. rewrite <- T_set_blk. apply good_T_noact; auto using idf_parts_p.
  - intros b. unfold set_blk. destruct (uid_eqb (sb_id b) id); repeat split; reflexivity.
  - intros b Hb. unfold set_blk. destruct (uid_eqb (sb_id b) id); auto.
Qed.

Lemma step_update_checks s pid id st :
  Inv s -> st_dom st ->
  sq_step (OUpdateChecks pid id st) (rows_of s) = (rows_of (map (pln_set_chk id st) s), true) /\ Inv (map (pln_set_chk id st) s).
Proof.
  intros HI Hs. split; [simpl; unfold SqliteModel.updateChecks; now rewrite updateChecks_rows|].
  apply (Inv_map (upd_checks_row id st)); auto using key_upd_checks, updateChecks_rows.
  intros p _ Hg. rewrite <- T_set_chk. apply good_T_noact; auto using idf_parts_p, idf_parts_b.
  - intros c. unfold set_chk. destruct (uid_eqb (sc_id c) id); reflexivity.
  - intros c Hc. unfold set_chk. destruct (uid_eqb (sc_id c) id); auto.
Qed.

Lemma step_update_seq s pid id st :
  Inv s -> st_dom st ->
  sq_step (OUpdateSequence pid id st) (rows_of s) = (rows_of (map (pln_set_seq id st) s), true) /\ Inv (map (pln_set_seq id st) s).
Proof.
  intros HI Hs. split; [simpl; unfold SqliteModel.updateSequence; now rewrite updateSequence_rows|].
  apply (Inv_map (upd_seq_row id st)); auto using key_upd_seq, updateSequence_rows.
  intros p _ Hg. rewrite <- T_set_seq. apply good_T_noact; auto using idf_parts_p, idf_parts_b.
  - intros q. unfold set_seq. destruct (uid_eqb (sq_id q) id); reflexivity.
  - intros q Hq. unfold set_seq. destruct (uid_eqb (sq_id q) id); auto.
Qed.

Lemma step_update_action s pid id st atts :
  Inv s -> op_ok s (OUpdateAction pid id st atts) ->
  sq_step (OUpdateAction pid id st atts) (rows_of s)
  = (rows_of (fst (Spec.update_action enc_att id st atts s)), snd (Spec.update_action enc_att id st atts s))
  /\ Inv (fst (Spec.update_action enc_att id st atts s)).
Proof.
  intros HI [Hs Ha]. unfold Spec.update_action. simpl. unfold SqliteModel.updateAction.
  destruct (atts_encode enc_att atts) eqn:Ee.
  2:{ rewrite (enc_atts_none enc_att atts Ee). simpl. auto. }
  rewrite (enc_atts_some enc_att atts Ee). simpl. split; [now rewrite updateAction_rows|].
  apply (Inv_map (upd_action_row id st (enc_atts_d enc_att atts))); auto using key_upd_action, updateAction_rows.
  intros p Hp [Hd Hen]. rewrite <- T_set_act. split.
  - apply (pln_dom_T req_ok att_ok (set_act id st atts) idf idf idf idf) with
        (P := fun a => sa_id a = id -> Forall (fun x => att_ok (sa_plugin a) x = true) atts);
      auto using idf_parts_p, idf_parts_b.
    + intros a HP (D1 & D2 & D3). unfold set_act. destruct (uid_eqb (sa_id a) id) eqn:E; [|exact (conj D1 (conj D2 D3))].
      apply uid_eqb_eq in E. exact (conj D1 (conj (HP E) Hs)).
    + apply Forall_forall. intros a Hin. exact (Ha p a Hp Hin).
  - unfold Spec.pln_encodes in *. rewrite (pln_actions_T (set_act id st atts) idf idf idf idf); auto using idf_parts_p, idf_parts_b.
    rewrite forallb_forall in *. intros a' Hin. apply in_map_iff in Hin as (a & <- & Hin). specialize (Hen a Hin).
    unfold set_act. destruct (uid_eqb (sa_id a) id); [|exact Hen].
    unfold Spec.act_encodes in *. simpl. apply andb_true_iff in Hen as [H1 _]. now rewrite H1, Ee.
Qed.

(* ---------- Delete ---------- *)
Definition keyin (r : row) (ks : list (kind * uid)) : bool := existsb (fun k => keyb (fst k) (snd k) r) ks.

Lemma keyin_In r ks : keyin r ks = true <-> In (key r) ks.
Proof.
  unfold keyin. rewrite existsb_exists. split.
  - intros (k & Hk & E). apply keyb_true in E. rewrite E. now destruct k.
  - intros H. exists (key r). split; [exact H|]. apply keyb_true. reflexivity.
Qed.
Lemma keyin_false r ks : keyin r ks = false <-> ~ In (key r) ks.
Proof.
  split.
  - intros H Hin. apply keyin_In in Hin. congruence.
  - intros H. destruct (keyin r ks) eqn:E; [|reflexivity]. apply keyin_In in E. contradiction.
Qed.

Definition Del (m : M) (ks : list (kind * uid)) : Prop :=
  forall d, m d = (filter (fun r => negb (keyin r ks)) d, true).

Lemma Del_ret : Del ret [].
Proof. intros d. unfold ret. f_equal. symmetry. apply filter_all. reflexivity. Qed.
Lemma Del_row k id : Del (delete_row k id) [(k, id)].
Proof.
  intros d. unfold delete_row. f_equal. apply filter_ext_in'. intros r _. unfold keyin. simpl.
  fold (keyb k id r). now rewrite orb_false_r.
Qed.
Lemma Del_bind m f a b : Del m a -> Del f b -> Del (bind m f) (a ++ b).
Proof.
  intros Hm Hf d. unfold bind. rewrite Hm, Hf, filter_filter. f_equal. apply filter_ext_in'. intros r _.
  unfold keyin. now rewrite existsb_app, negb_orb.
Qed.

Definition ks_actions (l : list sact) : list (kind * uid) := map (fun a => (KAction, sa_id a)) l.
Definition ks_checks (o : option schk) : list (kind * uid) :=
  match o with None => [] | Some c => ks_actions (sc_acts c) ++ [(KChecks, sc_id c)] end.
Definition ks_seqs (l : list sseq) : list (kind * uid) :=
  flat_map (fun s => ks_actions (sq_acts s)) l ++ map (fun s => (KSeq, sq_id s)) l.
Definition ks_blockparts (b : sblk) : list (kind * uid) :=
  ks_checks (sb_byp b) ++ ks_checks (sb_pre b) ++ ks_checks (sb_post b) ++ ks_checks (sb_cont b)
  ++ ks_checks (sb_def b) ++ ks_seqs (sb_seqs b).
Definition ks_blocks (l : list sblk) : list (kind * uid) :=
  flat_map ks_blockparts l ++ map (fun b => (KBlock, sb_id b)) l.
Definition ks_plan (p : spln) : list (kind * uid) :=
  ks_checks (sp_byp p) ++ ks_checks (sp_pre p) ++ ks_checks (sp_post p) ++ ks_checks (sp_cont p)
  ++ ks_checks (sp_def p) ++ ks_blocks (sp_blocks p) ++ [(KPlan, sp_id p)].

Lemma Del_actions l : Del (deleteActions l) (ks_actions l).
Proof.
  induction l as [|a l IH]; [apply Del_ret|]. simpl.
  change ((KAction, sa_id a) :: ks_actions l) with ([(KAction, sa_id a)] ++ ks_actions l).
  apply Del_bind; [apply Del_row | exact IH].
Qed.
Lemma Del_checks o : Del (deleteChecks o) (ks_checks o).
Proof.
  destruct o as [c|]; [|apply Del_ret]. simpl. apply Del_bind; [apply Del_actions | apply Del_row].
Qed.
Lemma Del_seqs l : Del (deletesSeqs l) (ks_seqs l).
Proof.
  unfold deletesSeqs, ks_seqs. apply Del_bind.
  - induction l as [|s l IH]; [apply Del_ret|]. simpl. apply Del_bind; [apply Del_actions | exact IH].
  - induction l as [|s l IH]; [apply Del_ret|]. simpl.
    change ((KSeq, sq_id s) :: map (fun s0 => (KSeq, sq_id s0)) l) with ([(KSeq, sq_id s)] ++ map (fun s0 => (KSeq, sq_id s0)) l).
    apply Del_bind; [apply Del_row | exact IH].
Qed.
Lemma Del_blockparts b : Del (deleteBlockParts b) (ks_blockparts b).
Proof.
  unfold deleteBlockParts, ks_blockparts. repeat (apply Del_bind; [apply Del_checks|]). apply Del_seqs.
Qed.
Lemma Del_blocks l : Del (deleteBlocks l) (ks_blocks l).
Proof.
  unfold deleteBlocks, ks_blocks. apply Del_bind.
  - induction l as [|b l IH]; [apply Del_ret|]. simpl. apply Del_bind; [apply Del_blockparts | exact IH].
  - induction l as [|b l IH]; [apply Del_ret|]. simpl.
    change ((KBlock, sb_id b) :: map (fun b0 => (KBlock, sb_id b0)) l) with ([(KBlock, sb_id b)] ++ map (fun b0 => (KBlock, sb_id b0)) l).
    apply Del_bind; [apply Del_row | exact IH].
Qed.
Lemma Del_plan p : Del (deletePlan p) (ks_plan p).
Proof.
  unfold deletePlan, ks_plan. repeat (apply Del_bind; [apply Del_checks|]).
  apply Del_bind; [apply Del_blocks | apply Del_row].
Qed.

Lemma in_cons_iff' {A} (k a : A) l : In k (a :: l) <-> a = k \/ In k l.
Proof. reflexivity. Qed.
Lemma in_nil_iff' {A} (k : A) : In k [] <-> False.
Proof. reflexivity. Qed.

(* the keys deleted are the keys of the plan's rows *)
Lemma ksr_actions pid pos l k : In k (ks_actions l) <-> In k (map key (rows_actions pid pos l)).
Proof. now rewrite (arows_keys enc_req enc_att). Qed.
Lemma ksr_checks pid o k : In k (ks_checks o) <-> In k (map key (rows_checks pid o)).
Proof.
  destruct o as [c|]; unfold ks_checks, SqliteRep.rows_checks; [|reflexivity].
  cbn [map]. rewrite in_app_iff. simpl. rewrite (ksr_actions pid 0). unfold key at 1. simpl. tauto.
Qed.
Lemma ksr_seqs pid l k : forall pos, In k (ks_seqs l) <-> In k (map key (rows_seqs pid pos l)).
Proof.
  unfold ks_seqs. induction l as [|s l IH]; intros pos; [simpl; tauto|].
  cbn [SqliteRep.rows_seqs flat_map map]. unfold SqliteRep.rows_seq. cbn [map app].
  rewrite map_app. specialize (IH (S pos)). rewrite in_app_iff in IH.
  rewrite !in_app_iff. simpl. rewrite in_app_iff, <- IH, (ksr_actions pid 0). unfold key at 1. simpl. tauto.
Qed.
Lemma ksr_blockparts pid pos b k :
  In k (ks_blockparts b ++ [(KBlock, sb_id b)]) <-> In k (map key (rows_block pid pos b)).
Proof.
  unfold ks_blockparts, SqliteRep.rows_block. rewrite !map_app. cbn [map]. rewrite !in_app_iff. simpl.
  rewrite <- !(ksr_checks pid), <- (ksr_seqs pid _ k 0). unfold key at 1. simpl. tauto.
Qed.
Lemma ksr_blocks pid l k : forall pos, In k (ks_blocks l) <-> In k (map key (rows_blocks pid pos l)).
Proof.
  unfold ks_blocks. induction l as [|b l IH]; intros pos; [simpl; tauto|].
  cbn [SqliteRep.rows_blocks flat_map map]. rewrite map_app. specialize (IH (S pos)). rewrite in_app_iff in IH.
  rewrite !in_app_iff. simpl. rewrite <- IH, <- (ksr_blockparts pid pos). rewrite in_app_iff. simpl. tauto.
Qed.
Lemma ksr_plan p k : In k (ks_plan p) <-> In k (map key (rows_plan p)).
Proof.
  unfold ks_plan, SqliteRep.rows_plan. rewrite map_cons, !map_app, in_cons_iff', !in_app_iff, in_cons_iff', in_nil_iff'.
  rewrite <- !(ksr_checks (sp_id p)), <- (ksr_blocks (sp_id p) _ k 0).
  change (key (RPlan (plan_row_of p))) with (KPlan, sp_id p). tauto.
Qed.

Lemma NoDup_key_filter (P : row -> bool) d : NoDup (map key d) -> NoDup (map key (filter P d)).
Proof.
  induction d as [|r d IH]; simpl; intros H; [constructor|]. inversion H as [|? ? Hn Hd]; subst.
  destruct (P r); simpl; [constructor; [|auto] | auto].
  intros Hin. apply Hn. apply in_map_iff in Hin as (x & Hx & Hin). apply filter_In in Hin as [Hin _].
  apply in_map_iff. eauto.
Qed.

(* rows of different plans of a store have different keys *)
Lemma rows_disjoint s p q k :
  NoDup (map key (rows_of s)) -> In p s -> In q s -> sp_id p <> sp_id q ->
  In k (map key (rows_plan p)) -> In k (map key (rows_plan q)) -> False.
Proof.
  induction s as [|x s IH]; intros Hn Hp Hq Hne Hkp Hkq; [destruct Hp|].
  unfold SqliteRep.rows_of in Hn. cbn [flat_map] in Hn. rewrite map_app in Hn.
  apply NoDup_app_inv in Hn as (H1 & H2 & H3).
  assert (Hin : forall y, In y s -> In k (map key (rows_plan y)) -> In k (map key (flat_map rows_plan s))).
  { intros y Hy Hk. apply in_map_iff in Hk as (r & <- & Hr). apply in_map. apply in_flat_map. eauto. }
  destruct Hp as [->|Hp], Hq as [->|Hq].
  - now apply Hne.
  - exact (H3 k Hkp (Hin q Hq Hkq)).
  - exact (H3 k Hkq (Hin p Hp Hkp)).
  - exact (IH H2 Hp Hq Hne Hkp Hkq).
Qed.

Lemma delete_rows s p :
  Inv s -> In p s ->
  filter (fun r => negb (keyin r (ks_plan p))) (rows_of s)
  = rows_of (filter (fun q => negb (uid_eqb (sp_id q) (sp_id p))) s).
Proof.
  intros HI Hp. unfold SqliteRep.rows_of at 1. rewrite filter_flat_map.
  assert (Hids := Inv_plan_ids s HI).
  assert (G : forall l, incl l s ->
              flat_map (fun x => filter (fun r => negb (keyin r (ks_plan p))) (rows_plan x)) l
              = rows_of (filter (fun q => negb (uid_eqb (sp_id q) (sp_id p))) l)).
  { induction l as [|q l IHl]; intros Hl; [reflexivity|].
    apply incl_cons_inv' in Hl as [Hq Hl]. cbn [flat_map filter]. rewrite (IHl Hl).
    destruct (uid_eqb (sp_id q) (sp_id p)) eqn:E; cbn [negb].
    - apply uid_eqb_eq in E. assert (q = p) as -> by (apply (NoDup_map_inj sp_id s); auto).
      rewrite filter_none; [reflexivity|]. intros r Hr. apply negb_false_iff. apply keyin_In.
      apply ksr_plan. now apply in_map.
    - apply uid_eqb_neq in E. unfold SqliteRep.rows_of. cbn [flat_map]. f_equal.
      apply filter_all. intros r Hr. apply negb_true_iff. apply keyin_false. intros Hk.
      apply ksr_plan in Hk. apply (rows_disjoint s q p (key r) (proj1 HI) Hq Hp E); [now apply in_map | exact Hk]. }
  apply G. apply incl_refl.
Qed.

Lemma step_delete s id :
  Inv s ->
  sq_delete id (rows_of s) = (rows_of (fst (Spec.delete id s)), snd (Spec.delete id s)) /\ Inv (fst (Spec.delete id s)).
Proof.
  intros HI. unfold SqliteModel.delete, Spec.delete. rewrite (read_refines s id HI).
  destruct (Spec.read id s) as [p|] eqn:E; simpl; [|auto].
  apply spec_read_some in E as [Hp <-].
  unfold txn. rewrite (Del_plan p (rows_of s)). rewrite (delete_rows s p HI Hp). split; [reflexivity|].
  split.
  - rewrite <- (delete_rows s p HI Hp). apply NoDup_key_filter. exact (proj1 HI).
  - destruct HI as [_ Hg]. rewrite Forall_forall in *. intros q Hq. apply filter_In in Hq as [Hq _]. auto.
Qed.

(* ---------- runs ---------- *)
Lemma step_refines s o :
  Inv s -> op_ok s o ->
  sq_step o (rows_of s) = (rows_of (fst (sp_step o s)), snd (sp_step o s)) /\ Inv (fst (sp_step o s)).
Proof.
  intros HI Hok. destruct o as [p|id rs st sub|pid id st|pid id st|pid id st|pid id st atts|id].
  - now apply step_create.
  - now apply step_update_plan.
  - now apply step_update_block.
  - now apply step_update_checks.
  - now apply step_update_seq.
  - now apply step_update_action.
  - now apply step_delete.
Qed.

Lemma run_refines ops : forall s,
  Inv s -> ops_ok s ops ->
  sq_run ops (rows_of s) = rows_of (sp_run ops s) /\ sq_results ops (rows_of s) = sp_results ops s /\ Inv (sp_run ops s).
Proof.
  induction ops as [|o ops IH]; intros s HI Hok; [simpl; auto|].
  destruct Hok as [Ho Hr]. destruct (step_refines s o HI Ho) as [E HI'].
  cbn [SqliteModel.run SqliteModel.results Spec.run Spec.results]. rewrite E. cbn [fst snd].
  destruct (IH _ HI' Hr) as (E1 & E2 & E3). rewrite E1, E2. auto.
Qed.

End Refine.
