(* Store group: a boolean version of ops_ok (the domain of the C13 / C14 theorems) and its soundness,
   so that membership of concrete operation lists in the domain is shown by computation. *)
From Coq Require Import List Bool ZArith Lia.
From Coercion.Base Require Import Plan.
From Coercion.Store Require Import Tree Rows Spec SqliteModel SqliteRep SqliteProofs.
Import ListNotations.

Fixpoint nodupb (l : list uid) : bool :=
  match l with [] => true | x :: r => negb (memb x r) && nodupb r end.

Lemma nodupb_sound l : nodupb l = true -> NoDup l.
Proof.
  induction l as [|x l IH]; simpl; intros H; [constructor|].
  apply andb_true_iff in H as [H1 H2]. constructor; [|auto].
  intros Hin. apply memb_In in Hin. now rewrite Hin in H1.
Qed.

Lemma forallb_Forall {A} (f : A -> bool) (P : A -> Prop) l :
  (forall x, f x = true -> P x) -> forallb f l = true -> Forall P l.
Proof.
  intros H. induction l as [|x l IH]; simpl; intros E; constructor; apply andb_true_iff in E as [E1 E2]; auto.
Qed.

Section Dec.
Variable enc_req : blob -> option code.
Variable enc_att : attempt -> option code.
Variable req_ok : tok -> blob -> bool.
Variable att_ok : tok -> attempt -> bool.

Definition st_domb (s : state) : bool := Z.leb 0 (s_start s) && Z.leb 0 (s_end s).
Definition act_domb (a : sact) : bool :=
  req_ok (sa_plugin a) (sa_req a) && forallb (att_ok (sa_plugin a)) (sa_atts a) && st_domb (sa_st a).
Definition chk_domb (c : schk) : bool := st_domb (sc_st c) && forallb act_domb (sc_acts c).
Definition ochk_domb (o : option schk) : bool := match o with None => true | Some c => chk_domb c end.
Definition seq_domb (s : sseq) : bool := st_domb (sq_st s) && forallb act_domb (sq_acts s).
Definition blk_domb (b : sblk) : bool :=
  st_domb (sb_st b) && ochk_domb (sb_byp b) && ochk_domb (sb_pre b) && ochk_domb (sb_cont b)
  && ochk_domb (sb_post b) && ochk_domb (sb_def b) && forallb seq_domb (sb_seqs b).
Definition pln_domb (p : spln) : bool :=
  st_domb (sp_st p) && Z.leb 0 (sp_submit p) && ochk_domb (sp_byp p) && ochk_domb (sp_pre p) && ochk_domb (sp_cont p)
  && ochk_domb (sp_post p) && ochk_domb (sp_def p) && forallb blk_domb (sp_blocks p).

Definition op_okb (s : store) (o : op) : bool :=
  match o with
  | OCreate p =>
    pln_domb p &&
    (memb (sp_id p) (map sp_id s)
     || (nodupb (pln_ids p) && forallb (fun q => forallb (fun i => negb (memb i (pln_ids q))) (pln_ids p)) s))
  | OUpdatePlan _ _ st _ | OUpdateBlock _ _ st | OUpdateChecks _ _ st | OUpdateSequence _ _ st => st_domb st
  | OUpdateAction _ id st atts =>
    st_domb st &&
    forallb (fun q => forallb (fun a => negb (uid_eqb (sa_id a) id) || forallb (att_ok (sa_plugin a)) atts) (pln_actions q)) s
  | ODelete _ => true
  end.

Fixpoint ops_okb (s : store) (ops : list op) : bool :=
  match ops with
  | [] => true
  | o :: r => op_okb s o && ops_okb (fst (Spec.step enc_req enc_att o s)) r
  end.

Lemma st_domb_sound s : st_domb s = true -> st_dom s.
Proof. unfold st_domb, st_dom. intros H. apply andb_true_iff in H as [H1 H2]. apply Z.leb_le in H1, H2. auto. Qed.

Lemma act_domb_sound a : act_domb a = true -> act_dom req_ok att_ok a.
Proof.
  unfold act_domb, act_dom. intros H. apply andb_true_iff in H as [H H3]. apply andb_true_iff in H as [H1 H2].
  repeat split; [exact H1 | | apply st_domb_sound in H3; apply H3 | apply st_domb_sound in H3; apply H3].
  eapply forallb_Forall; [|exact H2]. auto.
Qed.

Lemma ochk_domb_sound o : ochk_domb o = true -> ochk_dom req_ok att_ok o.
Proof.
  destruct o as [c|]; simpl; [|auto]. unfold chk_domb, chk_dom. intros H. apply andb_true_iff in H as [H1 H2].
  split; [now apply st_domb_sound | eapply forallb_Forall; [apply act_domb_sound | exact H2]].
Qed.

Lemma seq_domb_sound s : seq_domb s = true -> seq_dom req_ok att_ok s.
Proof.
  unfold seq_domb, seq_dom. intros H. apply andb_true_iff in H as [H1 H2].
  split; [now apply st_domb_sound | eapply forallb_Forall; [apply act_domb_sound | exact H2]].
Qed.

Lemma blk_domb_sound b : blk_domb b = true -> blk_dom req_ok att_ok b.
Proof.
  unfold blk_domb, blk_dom. intros H. do 6 (apply andb_true_iff in H as [H ?]).
  repeat match goal with |- _ /\ _ => split end; auto using st_domb_sound, ochk_domb_sound.
  eapply forallb_Forall; [apply seq_domb_sound | assumption].
Qed.

Lemma pln_domb_sound p : pln_domb p = true -> pln_dom req_ok att_ok p.
Proof.
  unfold pln_domb, pln_dom. intros H. do 7 (apply andb_true_iff in H as [H ?]).
  repeat match goal with |- _ /\ _ => split end; auto using st_domb_sound, ochk_domb_sound.
  - now apply Z.leb_le.
  - eapply forallb_Forall; [apply blk_domb_sound | assumption].
Qed.

Lemma op_okb_sound s o : op_okb s o = true -> op_ok req_ok att_ok s o.
Proof.
  destruct o as [p|id rs st sub|pid id st|pid id st|pid id st|pid id st atts|id]; cbn [op_okb op_ok]; intros H;
    auto using st_domb_sound.
  - apply andb_true_iff in H as [H1 H2]. split; [now apply pln_domb_sound|].
    apply orb_true_iff in H2 as [H2|H2]; [left; now apply memb_In|]. right.
    apply andb_true_iff in H2 as [H2 H3]. split; [now apply nodupb_sound|].
    intros q i Hq Hi Hin. rewrite forallb_forall in H3. specialize (H3 q Hq).
    rewrite forallb_forall in H3. specialize (H3 i Hi). apply memb_In in Hin. now rewrite Hin in H3.
  - apply andb_true_iff in H as [H1 H2]. split; [now apply st_domb_sound|].
    intros q a Hq Ha Hid. rewrite forallb_forall in H2. specialize (H2 q Hq).
    rewrite forallb_forall in H2. specialize (H2 a Ha). subst id. rewrite uid_eqb_refl in H2. cbn [negb orb] in H2.
    eapply forallb_Forall; [|exact H2]. auto.
Qed.

Lemma ops_okb_sound ops : forall s, ops_okb s ops = true -> ops_ok enc_req enc_att req_ok att_ok s ops.
Proof.
  induction ops as [|o r IH]; intros s H; simpl in *; [exact I|].
  apply andb_true_iff in H as [H1 H2]. split; [now apply op_okb_sound | now apply IH].
Qed.

End Dec.
