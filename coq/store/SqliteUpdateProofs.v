(* Store group: an UPDATE ... WHERE id = $id on the rows of a plan is the specification's rewrite of
   the object(s) with that id. One generic commutation lemma, instantiated for the five updaters. *)
From Coq Require Import List Arith Lia Bool ZArith.
From Coercion.Base Require Import Plan.
From Coercion.Store Require Import Tree Rows Spec SqliteModel SqliteRep ListAux SqliteProofs.
Import ListNotations.

Lemma option_map_id {A} (o : option A) : option_map (fun x => x) o = o.
Proof. now destruct o. Qed.
Lemma map_chk_acts_id c : map_chk_acts (fun a => a) c = c.
Proof. destruct c; unfold map_chk_acts; simpl. now rewrite map_id. Qed.
Lemma map_seq_acts_id s : map_seq_acts (fun a => a) s = s.
Proof. destruct s; unfold map_seq_acts; simpl. now rewrite map_id. Qed.
Lemma option_map_ext' {A B} (f g : A -> B) o : (forall x, f x = g x) -> option_map f o = option_map g o.
Proof. intros H. destruct o; simpl; [now rewrite H | reflexivity]. Qed.
Lemma map_blk_ext g g' h h' b : (forall c, g c = g' c) -> (forall s, h s = h' s) -> map_blk g h b = map_blk g' h' b.
Proof.
  intros Hg Hh. unfold map_blk. rewrite !(option_map_ext' g g' _ Hg). now rewrite (map_ext h h' Hh).
Qed.
Lemma map_pln_ext g g' k k' p : (forall c, g c = g' c) -> (forall b, k b = k' b) -> map_pln g k p = map_pln g' k' p.
Proof.
  intros Hg Hk. unfold map_pln. rewrite !(option_map_ext' g g' _ Hg). now rewrite (map_ext k k' Hk).
Qed.

Section Update.
Variable enc_req : blob -> option code.
Variable enc_att : attempt -> option code.

Notation arow := (arow enc_req enc_att).
Notation arows := (arows enc_req enc_att).
Notation rows_actions := (rows_actions enc_req enc_att).
Notation rows_checks := (rows_checks enc_req enc_att).
Notation rows_seq := (rows_seq enc_req enc_att).
Notation rows_seqs := (rows_seqs enc_req enc_att).
Notation rows_block := (rows_block enc_req enc_att).
Notation rows_blocks := (rows_blocks enc_req enc_att).
Notation rows_plan := (rows_plan enc_req enc_att).
Notation rows_of := (rows_of enc_req enc_att).

(* a row rewrite [u] and the object rewrites it corresponds to *)
Variable u : row -> row.
Variable fa : sact -> sact.
Variable fc : schk -> schk.
Variable fs : sseq -> sseq.
Variable fb : sblk -> sblk.
Variable fp : spln -> spln.

Definition T_chk (c : schk) : schk := map_chk_acts fa (fc c).
Definition T_seq (s : sseq) : sseq := map_seq_acts fa (fs s).
Definition T_blk (b : sblk) : sblk := map_blk T_chk T_seq (fb b).
Definition T_pln (p : spln) : spln := map_pln T_chk T_blk (fp p).

Hypothesis Ua : forall pid pos a, u (RAction (arow pid pos a)) = RAction (arow pid pos (fa a)).
Hypothesis Uc' : forall pid c, u (RChecks (checks_row_of pid c)) = RChecks (checks_row_of pid (fc c)).
Hypothesis Us' : forall pid pos s, u (RSeq (seq_row_of pid pos s)) = RSeq (seq_row_of pid pos (fs s)).
Hypothesis Ub' : forall pid pos b, u (RBlock (block_row_of pid pos b)) = RBlock (block_row_of pid pos (fb b)).
Hypothesis Up' : forall p, u (RPlan (plan_row_of p)) = RPlan (plan_row_of (fp p)).
Hypothesis fa_id : forall a, sa_id (fa a) = sa_id a.
Hypothesis fc_id : forall c, sc_id (fc c) = sc_id c.
Hypothesis fs_id : forall s, sq_id (fs s) = sq_id s.
Hypothesis fb_id : forall b, sb_id (fb b) = sb_id b.
Hypothesis fc_acts : forall c, sc_acts (fc c) = sc_acts c.
Hypothesis fs_acts : forall s, sq_acts (fs s) = sq_acts s.
Hypothesis fb_parts : forall b, sb_byp (fb b) = sb_byp b /\ sb_pre (fb b) = sb_pre b /\ sb_post (fb b) = sb_post b
                                /\ sb_cont (fb b) = sb_cont b /\ sb_def (fb b) = sb_def b /\ sb_seqs (fb b) = sb_seqs b.
Hypothesis fp_parts : forall p, sp_id (fp p) = sp_id p /\ sp_byp (fp p) = sp_byp p /\ sp_pre (fp p) = sp_pre p
                                /\ sp_post (fp p) = sp_post p /\ sp_cont (fp p) = sp_cont p /\ sp_def (fp p) = sp_def p
                                /\ sp_blocks (fp p) = sp_blocks p.

Lemma map_fa_ids l : map sa_id (map fa l) = map sa_id l.
Proof. rewrite map_map. apply map_ext. intros a. apply fa_id. Qed.
Lemma T_chk_id c : sc_id (T_chk c) = sc_id c. Proof. unfold T_chk; simpl. apply fc_id. Qed.
Lemma T_seq_id s : sq_id (T_seq s) = sq_id s. Proof. unfold T_seq; simpl. apply fs_id. Qed.
Lemma T_blk_id b : sb_id (T_blk b) = sb_id b. Proof. unfold T_blk; simpl. apply fb_id. Qed.
Lemma ochk_id_T o : ochk_id (option_map T_chk o) = ochk_id o.
Proof. destruct o; unfold ochk_id; cbn [option_map]; [now rewrite T_chk_id | reflexivity]. Qed.

Lemma Uc pid c : u (RChecks (checks_row_of pid c)) = RChecks (checks_row_of pid (T_chk c)).
Proof. rewrite Uc'. unfold checks_row_of, T_chk; simpl. now rewrite map_fa_ids. Qed.
Lemma Us pid pos s : u (RSeq (seq_row_of pid pos s)) = RSeq (seq_row_of pid pos (T_seq s)).
Proof. rewrite Us'. unfold seq_row_of, T_seq; simpl. now rewrite map_fa_ids. Qed.
Lemma Ub pid pos b : u (RBlock (block_row_of pid pos b)) = RBlock (block_row_of pid pos (T_blk b)).
Proof.
  rewrite Ub'. unfold block_row_of, T_blk; simpl. rewrite !ochk_id_T.
  rewrite map_map. rewrite (map_ext (fun x => sq_id (T_seq x)) sq_id T_seq_id). reflexivity.
Qed.
Lemma Up p : u (RPlan (plan_row_of p)) = RPlan (plan_row_of (T_pln p)).
Proof.
  rewrite Up'. unfold plan_row_of, T_pln; simpl. rewrite !ochk_id_T.
  rewrite map_map. rewrite (map_ext (fun x => sb_id (T_blk x)) sb_id T_blk_id). reflexivity.
Qed.

Lemma upd_actions pid l : forall pos, map u (rows_actions pid pos l) = rows_actions pid pos (map fa l).
Proof.
  unfold SqliteRep.rows_actions. induction l as [|a l IH]; intros pos; simpl; [reflexivity|]. now rewrite Ua, IH.
Qed.

Lemma upd_checks pid o : map u (rows_checks pid o) = rows_checks pid (option_map T_chk o).
Proof.
  destruct o as [c|]; unfold SqliteRep.rows_checks; simpl; [|reflexivity].
  rewrite Uc, upd_actions. unfold T_chk at 2. simpl. now rewrite fc_acts.
Qed.

Lemma upd_seq pid pos s : map u (rows_seq pid pos s) = rows_seq pid pos (T_seq s).
Proof.
  unfold SqliteRep.rows_seq. simpl. rewrite Us, upd_actions. unfold T_seq at 2. simpl. now rewrite fs_acts.
Qed.

Lemma upd_seqs pid l : forall pos, map u (rows_seqs pid pos l) = rows_seqs pid pos (map T_seq l).
Proof.
  induction l as [|s l IH]; intros pos; [reflexivity|].
  cbn [SqliteRep.rows_seqs map]. now rewrite map_app, upd_seq, IH.
Qed.

Lemma upd_block pid pos b : map u (rows_block pid pos b) = rows_block pid pos (T_blk b).
Proof.
  unfold SqliteRep.rows_block. rewrite !map_app. simpl map. rewrite !upd_checks, Ub, upd_seqs.
  destruct (fb_parts b) as (E1 & E2 & E3 & E4 & E5 & E6).
  unfold T_blk at 2 3 4 5 6 8. simpl. now rewrite E1, E2, E3, E4, E5, E6.
Qed.

Lemma upd_blocks pid l : forall pos, map u (rows_blocks pid pos l) = rows_blocks pid pos (map T_blk l).
Proof.
  induction l as [|b l IH]; intros pos; [reflexivity|].
  cbn [SqliteRep.rows_blocks map]. now rewrite map_app, upd_block, IH.
Qed.

Lemma upd_plan p : map u (rows_plan p) = rows_plan (T_pln p).
Proof.
  unfold SqliteRep.rows_plan. simpl map. rewrite !map_app, !upd_checks, upd_blocks, Up.
  destruct (fp_parts p) as (E0 & E1 & E2 & E3 & E4 & E5 & E6).
  unfold T_pln at 2 3 4 5 6 7 8 9 10 11 12 13. simpl. now rewrite E0, E1, E2, E3, E4, E5, E6.
Qed.

Lemma upd_rows_of s : map u (rows_of s) = rows_of (map T_pln s).
Proof.
  unfold SqliteRep.rows_of. induction s as [|p s IH]; [reflexivity|]. cbn [flat_map map]. now rewrite map_app, upd_plan, IH.
Qed.

End Update.

(* ---------- the five updaters ---------- *)
Lemma map_blk_id g h b : (forall c, g c = c) -> (forall s, h s = s) -> map_blk g h b = b.
Proof.
  intros Hg Hh. unfold map_blk. rewrite !(option_map_ext' g (fun c => c) _ Hg), !option_map_id.
  rewrite (map_ext h (fun s => s) Hh), map_id. now destruct b.
Qed.
Lemma map_pln_id g k p : (forall c, g c = c) -> (forall b, k b = b) -> map_pln g k p = p.
Proof.
  intros Hg Hk. unfold map_pln. rewrite !(option_map_ext' g (fun c => c) _ Hg), !option_map_id.
  rewrite (map_ext k (fun b => b) Hk), map_id. now destruct p.
Qed.

Section Instances.
Variable enc_req : blob -> option code.
Variable enc_att : attempt -> option code.
Notation rows_of := (rows_of enc_req enc_att).
Notation T_pln := (T_pln).

Definition idf {A} : A -> A := fun x => x.

Ltac parts := intros; repeat split; reflexivity.

Lemma updatePlan_rows id rs st s :
  map (upd_plan_row id rs st) (rows_of s) = rows_of (map (set_pln id rs st) s).
Proof.
  rewrite (upd_rows_of enc_req enc_att (upd_plan_row id rs st) idf idf idf idf (set_pln id rs st)); try (intros; repeat split; reflexivity).
  - f_equal. apply map_ext. intros p. unfold SqliteUpdateProofs.T_pln.
    apply map_pln_id; intros; unfold T_chk, T_blk, T_seq, idf.
    + apply map_chk_acts_id.
    + apply map_blk_id; intros; [apply map_chk_acts_id | apply map_seq_acts_id].
  - intros p. unfold set_pln, upd_plan_row, plan_row_of. simpl. destruct (uid_eqb (sp_id p) id); reflexivity.
  - intros p. unfold set_pln. destruct (uid_eqb (sp_id p) id); repeat split; reflexivity.
Qed.

Lemma updateBlock_rows id st s :
  map (upd_block_row id st) (rows_of s) = rows_of (map (pln_set_blk id st) s).
Proof.
  rewrite (upd_rows_of enc_req enc_att (upd_block_row id st) idf idf idf (set_blk id st) idf); try (intros; repeat split; reflexivity).
  - f_equal. apply map_ext. intros p. unfold SqliteUpdateProofs.T_pln, pln_set_blk, idf.
    apply map_pln_ext; intros; unfold T_chk, T_blk, T_seq.
    + apply map_chk_acts_id.
    + apply map_blk_id; intros; [apply map_chk_acts_id | apply map_seq_acts_id].
  - intros pid pos b. unfold set_blk, upd_block_row, block_row_of. simpl. destruct (uid_eqb (sb_id b) id); reflexivity.
  - intros b. unfold set_blk. destruct (uid_eqb (sb_id b) id); reflexivity.
  - intros b. unfold set_blk. destruct (uid_eqb (sb_id b) id); repeat split; reflexivity.
Qed.

Lemma updateChecks_rows id st s :
  map (upd_checks_row id st) (rows_of s) = rows_of (map (pln_set_chk id st) s).
Proof.
  rewrite (upd_rows_of enc_req enc_att (upd_checks_row id st) idf (set_chk id st) idf idf idf); try (intros; repeat split; reflexivity).
  - f_equal. apply map_ext. intros p. unfold SqliteUpdateProofs.T_pln, pln_set_chk, idf.
    apply map_pln_ext; intros; unfold T_chk, T_blk, T_seq.
    + apply map_chk_acts_id.
    + apply map_blk_ext; intros; [apply map_chk_acts_id | apply map_seq_acts_id].
  - intros pid c. unfold set_chk, upd_checks_row, checks_row_of. simpl. destruct (uid_eqb (sc_id c) id); reflexivity.
  - intros c. unfold set_chk. destruct (uid_eqb (sc_id c) id); reflexivity.
  - intros c. unfold set_chk. destruct (uid_eqb (sc_id c) id); reflexivity.
Qed.

Lemma updateSequence_rows id st s :
  map (upd_seq_row id st) (rows_of s) = rows_of (map (pln_set_seq id st) s).
Proof.
  rewrite (upd_rows_of enc_req enc_att (upd_seq_row id st) idf idf (set_seq id st) idf idf); try (intros; repeat split; reflexivity).
  - f_equal. apply map_ext. intros p. unfold SqliteUpdateProofs.T_pln, pln_set_seq, idf.
    apply map_pln_ext; intros; unfold T_chk, T_blk, T_seq.
    + apply map_chk_acts_id.
    + apply map_blk_ext; intros; [apply map_chk_acts_id | apply map_seq_acts_id].
  - intros pid pos q. unfold set_seq, upd_seq_row, seq_row_of. simpl. destruct (uid_eqb (sq_id q) id); reflexivity.
  - intros q. unfold set_seq. destruct (uid_eqb (sq_id q) id); reflexivity.
  - intros q. unfold set_seq. destruct (uid_eqb (sq_id q) id); reflexivity.
Qed.

Lemma updateAction_rows id st atts s :
  map (upd_action_row id st (enc_atts_d enc_att atts)) (rows_of s) = rows_of (map (pln_set_act id st atts) s).
Proof.
  rewrite (upd_rows_of enc_req enc_att (upd_action_row id st (enc_atts_d enc_att atts)) (set_act id st atts) idf idf idf idf); try (intros; repeat split; reflexivity).
  - intros pid pos a. unfold set_act, upd_action_row, arow, action_row_of. simpl. destruct (uid_eqb (sa_id a) id); reflexivity.
  - intros a. unfold set_act. destruct (uid_eqb (sa_id a) id); reflexivity.
Qed.

End Instances.

(* the generic rewrite, instantiated, is the specification's rewrite *)
Lemma T_set_pln id rs st p : T_pln idf idf idf idf (set_pln id rs st) p = set_pln id rs st p.
Proof.
  unfold T_pln. apply map_pln_id; intros; unfold T_chk, T_blk, T_seq, idf.
  - apply map_chk_acts_id.
  - apply map_blk_id; intros; [apply map_chk_acts_id | apply map_seq_acts_id].
Qed.
Lemma T_set_blk id st p : T_pln idf idf idf (set_blk id st) idf p = pln_set_blk id st p.
Proof.
  unfold T_pln, pln_set_blk, idf. apply map_pln_ext; intros; unfold T_chk, T_blk, T_seq.
  - apply map_chk_acts_id.
  - apply map_blk_id; intros; [apply map_chk_acts_id | apply map_seq_acts_id].
Qed.
Lemma T_set_chk id st p : T_pln idf (set_chk id st) idf idf idf p = pln_set_chk id st p.
Proof.
  unfold T_pln, pln_set_chk, idf. apply map_pln_ext; intros; unfold T_chk, T_blk, T_seq.
  - apply map_chk_acts_id.
  - apply map_blk_ext; intros; [apply map_chk_acts_id | apply map_seq_acts_id].
Qed.
Lemma T_set_seq id st p : T_pln idf idf (set_seq id st) idf idf p = pln_set_seq id st p.
Proof.
  unfold T_pln, pln_set_seq, idf. apply map_pln_ext; intros; unfold T_chk, T_blk, T_seq.
  - apply map_chk_acts_id.
  - apply map_blk_ext; intros; [apply map_chk_acts_id | apply map_seq_acts_id].
Qed.
Lemma T_set_act id st atts p : T_pln (set_act id st atts) idf idf idf idf p = pln_set_act id st atts p.
Proof. reflexivity. Qed.

(* ---------- what the object rewrites preserve ---------- *)
Section TProps.
Variable req_ok : tok -> blob -> bool.
Variable att_ok : tok -> attempt -> bool.
Variable fa : sact -> sact.
Variable fc : schk -> schk.
Variable fs : sseq -> sseq.
Variable fb : sblk -> sblk.
Variable fp : spln -> spln.
Hypothesis fc_acts : forall c, sc_acts (fc c) = sc_acts c.
Hypothesis fs_acts : forall s, sq_acts (fs s) = sq_acts s.
Hypothesis fb_parts : forall b, sb_byp (fb b) = sb_byp b /\ sb_pre (fb b) = sb_pre b /\ sb_post (fb b) = sb_post b
                                /\ sb_cont (fb b) = sb_cont b /\ sb_def (fb b) = sb_def b /\ sb_seqs (fb b) = sb_seqs b.
Hypothesis fp_parts : forall p, sp_id (fp p) = sp_id p /\ sp_byp (fp p) = sp_byp p /\ sp_pre (fp p) = sp_pre p
                                /\ sp_post (fp p) = sp_post p /\ sp_cont (fp p) = sp_cont p /\ sp_def (fp p) = sp_def p
                                /\ sp_blocks (fp p) = sp_blocks p.

Notation T_chk := (T_chk fa fc).
Notation T_seq := (T_seq fa fs).
Notation T_blk := (T_blk fa fc fs fb).
Notation T_pln := (T_pln fa fc fs fb fp).
Notation act_dom := (act_dom req_ok att_ok).
Notation chk_dom := (chk_dom req_ok att_ok).
Notation ochk_dom := (ochk_dom req_ok att_ok).
Notation seq_dom := (seq_dom req_ok att_ok).
Notation blk_dom := (blk_dom req_ok att_ok).
Notation pln_dom := (pln_dom req_ok att_ok).

Lemma ochk_acts_T o : flat_map sc_acts (ochk_list (option_map T_chk o)) = map fa (flat_map sc_acts (ochk_list o)).
Proof. destruct o as [c|]; simpl; [|reflexivity]. now rewrite !app_nil_r, fc_acts. Qed.

Lemma groups_acts_T a b c d e :
  flat_map sc_acts (ochk_list (option_map T_chk a) ++ ochk_list (option_map T_chk b) ++ ochk_list (option_map T_chk c)
                    ++ ochk_list (option_map T_chk d) ++ ochk_list (option_map T_chk e))
  = map fa (flat_map sc_acts (ochk_list a ++ ochk_list b ++ ochk_list c ++ ochk_list d ++ ochk_list e)).
Proof. rewrite !flat_map_app', !map_app, !ochk_acts_T. reflexivity. Qed.

Lemma blk_actions_T b : blk_actions (T_blk b) = map fa (blk_actions b).
Proof.
  destruct (fb_parts b) as (E1 & E2 & E3 & E4 & E5 & E6).
  unfold blk_actions, blk_groups, SqliteUpdateProofs.T_blk. simpl. rewrite E1, E2, E3, E4, E5, E6.
  rewrite groups_acts_T, map_app. f_equal.
  clear E1 E2 E3 E4 E5 E6. induction (sb_seqs b) as [|s l IH]; [reflexivity|]. simpl. now rewrite map_app, IH, fs_acts.
Qed.

Lemma pln_actions_T p : pln_actions (T_pln p) = map fa (pln_actions p).
Proof.
  destruct (fp_parts p) as (E0 & E1 & E2 & E3 & E4 & E5 & E6).
  unfold pln_actions, pln_groups, SqliteUpdateProofs.T_pln. simpl. rewrite E1, E2, E3, E4, E5, E6.
  rewrite groups_acts_T, map_app. f_equal.
  clear E0 E1 E2 E3 E4 E5 E6. induction (sp_blocks p) as [|b l IH]; [reflexivity|]. cbn [map flat_map]. now rewrite map_app, IH, blk_actions_T.
Qed.

(* domain *)
Variable P : sact -> Prop.     (* the actions the rewrite is applied to *)
Hypothesis Ha : forall a, P a -> act_dom a -> act_dom (fa a).
Hypothesis Hc : forall c, st_dom (sc_st c) -> st_dom (sc_st (fc c)).
Hypothesis Hs : forall s, st_dom (sq_st s) -> st_dom (sq_st (fs s)).
Hypothesis Hb : forall b, st_dom (sb_st b) -> st_dom (sb_st (fb b)).
Hypothesis Hp : forall p, st_dom (sp_st p) -> st_dom (sp_st (fp p)).
Hypothesis Hsub : forall p, (0 <= sp_submit p)%Z -> (0 <= sp_submit (fp p))%Z.

Lemma acts_dom_T l : Forall P l -> Forall act_dom l -> Forall act_dom (map fa l).
Proof.
  induction l as [|a l IH]; intros HP Hd; simpl; constructor; inversion HP; inversion Hd; subst; auto.
Qed.

Lemma ochk_dom_T o : Forall P (flat_map sc_acts (ochk_list o)) -> ochk_dom o -> ochk_dom (option_map T_chk o).
Proof.
  destruct o as [c|]; simpl; [|auto]. rewrite app_nil_r. intros HP [H1 H2].
  unfold SqliteRep.chk_dom, SqliteUpdateProofs.T_chk; simpl. split; [now apply Hc|]. rewrite fc_acts. now apply acts_dom_T.
Qed.

Lemma Forall_app_l {A} (Q : A -> Prop) l1 l2 : Forall Q (l1 ++ l2) -> Forall Q l1.
Proof. intros H. apply Forall_app in H. tauto. Qed.
Lemma Forall_app_r {A} (Q : A -> Prop) l1 l2 : Forall Q (l1 ++ l2) -> Forall Q l2.
Proof. intros H. apply Forall_app in H. tauto. Qed.

Lemma blk_dom_T b : Forall P (blk_actions b) -> blk_dom b -> blk_dom (T_blk b).
Proof.
  destruct (fb_parts b) as (E1 & E2 & E3 & E4 & E5 & E6).
  unfold blk_actions, blk_groups. rewrite !flat_map_app'. intros HP (D0 & D1 & D2 & D3 & D4 & D5 & D6).
  unfold SqliteRep.blk_dom, SqliteUpdateProofs.T_blk. simpl. rewrite E1, E2, E3, E4, E5, E6.
  assert (HP1 := Forall_app_l _ _ _ HP). assert (HPr := Forall_app_r _ _ _ HP). clear HP.
  assert (HPg1 := Forall_app_l _ _ _ HP1). assert (HP2 := Forall_app_r _ _ _ HP1). clear HP1.
  assert (HPg2 := Forall_app_l _ _ _ HP2). assert (HP3 := Forall_app_r _ _ _ HP2). clear HP2.
  assert (HPg3 := Forall_app_l _ _ _ HP3). assert (HP4 := Forall_app_r _ _ _ HP3). clear HP3.
  assert (HPg4 := Forall_app_l _ _ _ HP4). assert (HPg5 := Forall_app_r _ _ _ HP4). clear HP4.
  refine (conj (Hb _ D0) (conj (ochk_dom_T _ HPg1 D1) (conj (ochk_dom_T _ HPg2 D2) (conj (ochk_dom_T _ _ D3) (conj (ochk_dom_T _ _ D4)
          (conj (ochk_dom_T _ HPg5 D5) _)))))); [exact HPg4 | exact HPg3 |].
  clear E1 E2 E3 E4 E5 E6. revert HPr D6. induction (sb_seqs b) as [|s l IH]; simpl; intros HPr D6; constructor.
  - inversion D6 as [|? ? [S1 S2] ?]; subst. unfold SqliteRep.seq_dom, SqliteUpdateProofs.T_seq; simpl.
    split; [now apply Hs|]. rewrite fs_acts. apply acts_dom_T; [exact (Forall_app_l _ _ _ HPr) | exact S2].
  - inversion D6; subst. apply IH; [exact (Forall_app_r _ _ _ HPr) | assumption].
Qed.

Lemma pln_dom_T p : Forall P (pln_actions p) -> pln_dom p -> pln_dom (T_pln p).
Proof.
  destruct (fp_parts p) as (E0 & E1 & E2 & E3 & E4 & E5 & E6).
  unfold pln_actions, pln_groups. rewrite !flat_map_app'. intros HP (D0 & Dsub & D1 & D2 & D3 & D4 & D5 & D6).
  unfold SqliteRep.pln_dom, SqliteUpdateProofs.T_pln. simpl. rewrite E1, E2, E3, E4, E5, E6.
  assert (HP1 := Forall_app_l _ _ _ HP). assert (HPr := Forall_app_r _ _ _ HP). clear HP.
  assert (HPg1 := Forall_app_l _ _ _ HP1). assert (HP2 := Forall_app_r _ _ _ HP1). clear HP1.
  assert (HPg2 := Forall_app_l _ _ _ HP2). assert (HP3 := Forall_app_r _ _ _ HP2). clear HP2.
  assert (HPg3 := Forall_app_l _ _ _ HP3). assert (HP4 := Forall_app_r _ _ _ HP3). clear HP3.
  assert (HPg4 := Forall_app_l _ _ _ HP4). assert (HPg5 := Forall_app_r _ _ _ HP4). clear HP4.
  refine (conj (Hp _ D0) (conj (Hsub _ Dsub) (conj (ochk_dom_T _ HPg1 D1) (conj (ochk_dom_T _ HPg2 D2) (conj (ochk_dom_T _ _ D3)
          (conj (ochk_dom_T _ _ D4) (conj (ochk_dom_T _ HPg5 D5) _))))))); [exact HPg4 | exact HPg3 |].
  clear E0 E1 E2 E3 E4 E5 E6. revert HPr D6. induction (sp_blocks p) as [|b l IH]; simpl; intros HPr D6; constructor.
  - inversion D6; subst. apply blk_dom_T; [exact (Forall_app_l _ _ _ HPr) | assumption].
  - inversion D6; subst. apply IH; [exact (Forall_app_r _ _ _ HPr) | assumption].
Qed.

End TProps.
