From Coercion.Store Require Import Tree.
Theorem c14_placeholder : True. Proof. exact I. Qed.
Print Assumptions c14_placeholder.
