(* C14 - Create is all-or-nothing and unique; Delete removes exactly one plan (sqlite model).

   [create] = creator.Create + commitPlan: nil-id check, Exists, then every nested commit* inside one
   transaction ([txn]: SQLite rolls back on error - trusted, stated in Rows.v). What carries the weight
   is error propagation: commitPlan_body succeeds only if every nested INSERT and every encoding
   succeeded (SqliteProofs.commitPlan_body_inv), so a failure anywhere reaches [txn]. *)
From Coercion.Base Require Import Plan.
From Coercion.Store Require Import Tree Rows Spec SqliteModel SqliteRep SqliteRefine SqliteTheorems
     CosmosModel CosmosRep CosmosTheorems.

(* On any database with distinct primary keys, Create either fails and leaves the database as it was,
   or succeeds, and then: the plan is read back whole; the database is the old one plus rows that all
   carry the new plan's id (every other plan's rows are untouched); everything was encodable and the
   id was new and not nil. *)
Theorem c14_create_atomic :
  forall (enc_req : blob -> option code) (dec_req : tok -> code -> option blob)
         (enc_att : attempt -> option code) (dec_att : tok -> code -> option attempt)
         (req_ok : tok -> blob -> bool) (att_ok : tok -> attempt -> bool),
    (forall t b c, req_ok t b = true -> enc_req b = Some c -> dec_req t c = Some b) ->
    (forall t a c, att_ok t a = true -> enc_att a = Some c -> dec_att t c = Some a) ->
    forall (p : spln) (d d' : db) (ok : bool),
      NoDup (map key d) -> SqliteModel.create enc_req enc_att p d = (d', ok) ->
      (ok = false -> d' = d)
      /\ (ok = true ->
          (pln_dom req_ok att_ok p -> SqliteModel.read dec_req dec_att (sp_id p) d' = Some p)
          /\ (exists rs, d' = d ++ rs /\ forall r, In r rs -> row_plan r = sp_id p)
          /\ pln_encodes enc_req enc_att p = true /\ SqliteModel.exists_plan (sp_id p) d = false /\ uid_nil (sp_id p) = false).
Proof. exact c14_create_atomic_lemma. Qed.
Print Assumptions c14_create_atomic.

(* a request or an attempt that cannot be encoded, at ANY position of the tree, makes Create fail
   with the database unchanged *)
Theorem c14_create_unencodable :
  forall (enc_req : blob -> option code) (enc_att : attempt -> option code) (p : spln) (d : db) (a : sact),
    In a (pln_actions p) ->
    (enc_req (sa_req a) = None \/ exists x, In x (sa_atts a) /\ enc_att x = None) ->
    SqliteModel.create enc_req enc_att p d = (d, false).
Proof. exact c14_create_unencodable_lemma. Qed.
Print Assumptions c14_create_unencodable.

(* creating an id that can be read fails without altering anything *)
Theorem c14_create_unique :
  forall (enc_req : blob -> option code) (dec_req : tok -> code -> option blob)
         (enc_att : attempt -> option code) (dec_att : tok -> code -> option attempt) (p : spln) (d : db) (q : spln),
    SqliteModel.read dec_req dec_att (sp_id p) d = Some q -> SqliteModel.create enc_req enc_att p d = (d, false).
Proof. exact c14_create_unique_lemma. Qed.
Print Assumptions c14_create_unique.

(* On every database reachable by operations of the domain: Delete either fails (the id is not stored)
   and changes nothing, or succeeds, and then no row of any table carries that plan id, the rows of
   every other plan id are the same as before, the id reads as an error and every other id reads as
   before. *)
Theorem c14_delete_exact :
  forall (enc_req : blob -> option code) (dec_req : tok -> code -> option blob)
         (enc_att : attempt -> option code) (dec_att : tok -> code -> option attempt)
         (req_ok : tok -> blob -> bool) (att_ok : tok -> attempt -> bool),
    (forall t b c, req_ok t b = true -> enc_req b = Some c -> dec_req t c = Some b) ->
    (forall t a c, att_ok t a = true -> enc_att a = Some c -> dec_att t c = Some a) ->
    forall (ops : list op) (id : uid) (d' : db) (ok : bool),
      ops_ok enc_req enc_att req_ok att_ok [] ops ->
      SqliteModel.delete dec_req dec_att id (SqliteModel.run enc_req dec_req enc_att dec_att ops []) = (d', ok) ->
      (ok = false -> d' = SqliteModel.run enc_req dec_req enc_att dec_att ops []
                     /\ SqliteModel.read dec_req dec_att id (SqliteModel.run enc_req dec_req enc_att dec_att ops []) = None)
      /\ (ok = true ->
          (forall r, In r d' -> row_plan r <> id)
          /\ (forall pid, pid <> id -> plan_rows pid d' = plan_rows pid (SqliteModel.run enc_req dec_req enc_att dec_att ops []))
          /\ SqliteModel.read dec_req dec_att id d' = None
          /\ (forall id', id' <> id -> SqliteModel.read dec_req dec_att id' d'
                                       = SqliteModel.read dec_req dec_att id' (SqliteModel.run enc_req dec_req enc_att dec_att ops []))).
Proof. exact c14_delete_exact_lemma. Qed.
Print Assumptions c14_delete_exact.

(* The COMMIT as one more fault position (Rows.txn_f: a failed commit = an error, the database before):
   whatever the fault, a Delete that returns nil has left no row of the plan and the id reads as an error;
   a Create / Delete whose commit failed returns an error and has changed nothing. *)
Theorem c14_delete_nil_implies_gone :
  forall (enc_req : blob -> option code) (dec_req : tok -> code -> option blob)
         (enc_att : attempt -> option code) (dec_att : tok -> code -> option attempt)
         (req_ok : tok -> blob -> bool) (att_ok : tok -> attempt -> bool),
    (forall t b c, req_ok t b = true -> enc_req b = Some c -> dec_req t c = Some b) ->
    (forall t a c, att_ok t a = true -> enc_att a = Some c -> dec_att t c = Some a) ->
    forall (commit_fails : bool) (ops : list op) (id : uid) (d' : db),
      ops_ok enc_req enc_att req_ok att_ok [] ops ->
      SqliteModel.delete_f dec_req dec_att commit_fails id (SqliteModel.run enc_req dec_req enc_att dec_att ops []) = (d', true) ->
      (forall r, In r d' -> row_plan r <> id) /\ SqliteModel.read dec_req dec_att id d' = None.
Proof. exact c14_delete_nil_implies_gone_lemma. Qed.
Theorem c14_commit_failure_changes_nothing :
  forall (enc_req : blob -> option code) (dec_req : tok -> code -> option blob)
         (enc_att : attempt -> option code) (dec_att : tok -> code -> option attempt) (p : spln) (id : uid) (d : db),
    SqliteModel.create_f enc_req enc_att true p d = (d, false)
    /\ SqliteModel.delete_f dec_req dec_att true id d = (d, false).
Proof. exact c14_commit_failure_changes_nothing_lemma. Qed.
Print Assumptions c14_delete_nil_implies_gone.
Print Assumptions c14_commit_failure_changes_nothing.

(* ---- cosmosdb ----
   Create = Exists, planToItems (nothing is written if anything cannot be encoded), ONE transactional
   batch on the plan partition, a re-read, then a second batch on the search partition. On every
   reachable container and for every plan of the domain: Create fails and changes nothing, or succeeds
   and then the plan is read back whole, has its search entry, the items of every other partition are
   untouched and every other id reads as before. *)
Theorem c14_create_atomic_cosmos :
  forall (enc_req : blob -> option code) (dec_req : tok -> code -> option blob)
         (enc_att : attempt -> option code) (dec_att : tok -> code -> option attempt)
         (req_ok : tok -> blob -> bool) (att_ok : tok -> attempt -> bool),
    (forall t b c, req_ok t b = true -> enc_req b = Some c -> dec_req t c = Some b) ->
    (forall t a c, att_ok t a = true -> enc_att a = Some c -> dec_att t c = Some a) ->
    forall (ops : list op) (p : spln) (c' : cdb) (ok : bool),
      cops_ok enc_req enc_att req_ok att_ok [] ops ->
      cop_ok req_ok att_ok (Spec.run enc_req enc_att ops []) (OCreate p) ->
      CosmosModel.create enc_req dec_req enc_att dec_att p (CosmosModel.run enc_req dec_req enc_att dec_att ops cempty) = (c', ok) ->
      (ok = false -> c' = CosmosModel.run enc_req dec_req enc_att dec_att ops cempty)
      /\ (ok = true ->
          CosmosModel.read dec_req dec_att (sp_id p) c' = Some p
          /\ In (sp_id p) (snd c')
          /\ (forall pid, pid <> sp_id p ->
                plan_rows pid (fst c') = plan_rows pid (fst (CosmosModel.run enc_req dec_req enc_att dec_att ops cempty)))
          /\ (forall id, id <> sp_id p ->
                CosmosModel.read dec_req dec_att id c'
                = CosmosModel.read dec_req dec_att id (CosmosModel.run enc_req dec_req enc_att dec_att ops cempty))).
Proof. exact c14_create_cosmos_lemma. Qed.
Print Assumptions c14_create_atomic_cosmos.

(* a request or an attempt that cannot be encoded, at ANY position of the tree, makes the cosmosdb
   Create fail on ANY container with nothing written (planToItems fails before the first batch) *)
Theorem c14_create_unencodable_cosmos :
  forall (enc_req : blob -> option code) (dec_req : tok -> code -> option blob)
         (enc_att : attempt -> option code) (dec_att : tok -> code -> option attempt)
         (stage : nat) (p : spln) (c : cdb) (a : sact),
    In a (pln_actions p) ->
    (enc_req (sa_req a) = None \/ exists x, In x (sa_atts a) /\ enc_att x = None) ->
    CosmosModel.create_stage enc_req dec_req enc_att dec_att stage p c = (c, false).
Proof. exact c14_create_unencodable_cosmos_lemma. Qed.
Print Assumptions c14_create_unencodable_cosmos.

(* creating an id that can be read fails without altering anything (any container, any fault stage);
   and when the Exists pre-check itself fails - ReadItem answers an error that is not a 404 - Create
   returns that error and nothing has been written (create_readerr: it fails closed) *)
Theorem c14_create_unique_cosmos :
  forall (enc_req : blob -> option code) (dec_req : tok -> code -> option blob)
         (enc_att : attempt -> option code) (dec_att : tok -> code -> option attempt)
         (stage : nat) (p : spln) (c : cdb) (q : spln),
    CosmosModel.read dec_req dec_att (sp_id p) c = Some q ->
    CosmosModel.create_stage enc_req dec_req enc_att dec_att stage p c = (c, false).
Proof. exact c14_create_unique_cosmos_lemma. Qed.
Theorem c14_create_precheck_error_cosmos :
  forall (p : spln) (c : cdb), CosmosModel.create_readerr p c = (c, false).
Proof. exact c14_create_precheck_error_cosmos_lemma. Qed.
Print Assumptions c14_create_unique_cosmos.
Print Assumptions c14_create_precheck_error_cosmos.

(* The limit of that atomicity, stated and proved rather than hidden: the two batches are not atomic
   together. If the search batch fails (create_stage 1) although the plan could be created, Create
   returns an error while the plan is completely stored: it can be read, and it has no search entry
   (so Search / List do not find it). C14 holds for cosmosdb for the plan partition only. *)
Theorem c14_cosmos_two_batch_gap :
  forall (enc_req : blob -> option code) (dec_req : tok -> code -> option blob)
         (enc_att : attempt -> option code) (dec_att : tok -> code -> option attempt)
         (req_ok : tok -> blob -> bool) (att_ok : tok -> attempt -> bool),
    (forall t b c, req_ok t b = true -> enc_req b = Some c -> dec_req t c = Some b) ->
    (forall t a c, att_ok t a = true -> enc_att a = Some c -> dec_att t c = Some a) ->
    forall (ops : list op) (p : spln) (s' : store),
      cops_ok enc_req enc_att req_ok att_ok [] ops ->
      cop_ok req_ok att_ok (Spec.run enc_req enc_att ops []) (OCreate p) ->
      Spec.create enc_req enc_att p (Spec.run enc_req enc_att ops []) = (s', true) ->
      exists c', CosmosModel.create_stage enc_req dec_req enc_att dec_att 1 p (CosmosModel.run enc_req dec_req enc_att dec_att ops cempty) = (c', false)
                 /\ CosmosModel.read dec_req dec_att (sp_id p) c' = Some p
                 /\ ~ In (sp_id p) (snd c')
                 /\ fst c' = crows_of enc_req enc_att s'
                 /\ snd c' = snd (CosmosModel.run enc_req dec_req enc_att dec_att ops cempty).
Proof. exact c14_cosmos_create_gap_lemma. Qed.
Print Assumptions c14_cosmos_two_batch_gap.

(* Delete is plan batch, then search batch: the same gap. If the search batch fails, Delete returns an
   ERROR although the plan's items are gone and its search entry is still there ... *)
Theorem c14_cosmos_delete_two_batch_gap :
  forall (enc_req : blob -> option code) (dec_req : tok -> code -> option blob)
         (enc_att : attempt -> option code) (dec_att : tok -> code -> option attempt)
         (req_ok : tok -> blob -> bool) (att_ok : tok -> attempt -> bool),
    (forall t b c, req_ok t b = true -> enc_req b = Some c -> dec_req t c = Some b) ->
    (forall t a c, att_ok t a = true -> enc_att a = Some c -> dec_att t c = Some a) ->
    forall (ops : list op) (id : uid) (p : spln),
      cops_ok enc_req enc_att req_ok att_ok [] ops ->
      Spec.read id (Spec.run enc_req enc_att ops []) = Some p ->
      exists c', CosmosModel.delete_stage dec_req dec_att 1 id (CosmosModel.run enc_req dec_req enc_att dec_att ops cempty) = (c', false)
                 /\ (forall r, In r (fst c') -> row_plan r <> id)
                 /\ CosmosModel.read dec_req dec_att id c' = None
                 /\ In id (snd c').
Proof. exact c14_cosmos_delete_gap_lemma. Qed.
Print Assumptions c14_cosmos_delete_two_batch_gap.

(* ... and what the property needs: at NO fault stage does Delete report success while a trace of the plan
   remains (no item with that plan id, no search entry, the id reads as an error). *)
Theorem c14_delete_success_no_trace_cosmos :
  forall (enc_req : blob -> option code) (dec_req : tok -> code -> option blob)
         (enc_att : attempt -> option code) (dec_att : tok -> code -> option attempt)
         (req_ok : tok -> blob -> bool) (att_ok : tok -> attempt -> bool),
    (forall t b c, req_ok t b = true -> enc_req b = Some c -> dec_req t c = Some b) ->
    (forall t a c, att_ok t a = true -> enc_att a = Some c -> dec_att t c = Some a) ->
    forall (ops : list op) (stage : nat) (id : uid) (c' : cdb),
      cops_ok enc_req enc_att req_ok att_ok [] ops ->
      CosmosModel.delete_stage dec_req dec_att stage id (CosmosModel.run enc_req dec_req enc_att dec_att ops cempty) = (c', true) ->
      (forall r, In r (fst c') -> row_plan r <> id) /\ ~ In id (snd c') /\ CosmosModel.read dec_req dec_att id c' = None.
Proof. exact c14_delete_success_no_trace_cosmos_lemma. Qed.
Print Assumptions c14_delete_success_no_trace_cosmos.

Theorem c14_delete_exact_cosmos :
  forall (enc_req : blob -> option code) (dec_req : tok -> code -> option blob)
         (enc_att : attempt -> option code) (dec_att : tok -> code -> option attempt)
         (req_ok : tok -> blob -> bool) (att_ok : tok -> attempt -> bool),
    (forall t b c, req_ok t b = true -> enc_req b = Some c -> dec_req t c = Some b) ->
    (forall t a c, att_ok t a = true -> enc_att a = Some c -> dec_att t c = Some a) ->
    forall (ops : list op) (id : uid) (c' : cdb) (ok : bool),
      cops_ok enc_req enc_att req_ok att_ok [] ops ->
      CosmosModel.delete dec_req dec_att id (CosmosModel.run enc_req dec_req enc_att dec_att ops cempty) = (c', ok) ->
      (ok = false -> c' = CosmosModel.run enc_req dec_req enc_att dec_att ops cempty
                     /\ CosmosModel.read dec_req dec_att id (CosmosModel.run enc_req dec_req enc_att dec_att ops cempty) = None)
      /\ (ok = true ->
          (forall r, In r (fst c') -> row_plan r <> id)
          /\ ~ In id (snd c')
          /\ (forall pid, pid <> id ->
                plan_rows pid (fst c') = plan_rows pid (fst (CosmosModel.run enc_req dec_req enc_att dec_att ops cempty)))
          /\ CosmosModel.read dec_req dec_att id c' = None
          /\ (forall id', id' <> id ->
                CosmosModel.read dec_req dec_att id' c'
                = CosmosModel.read dec_req dec_att id' (CosmosModel.run enc_req dec_req enc_att dec_att ops cempty))).
Proof. exact c14_delete_cosmos_lemma. Qed.
Print Assumptions c14_delete_exact_cosmos.
