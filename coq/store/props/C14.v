(* C14 - Create is all-or-nothing and unique; Delete removes exactly one plan (sqlite model).

   [create] = creator.Create + commitPlan: nil-id check, Exists, then every nested commit* inside one
   transaction ([txn]: SQLite rolls back on error - trusted, stated in Rows.v). What carries the weight
   is error propagation: commitPlan_body succeeds only if every nested INSERT and every encoding
   succeeded (SqliteProofs.commitPlan_body_inv), so a failure anywhere reaches [txn]. *)
From Coercion.Base Require Import Plan.
From Coercion.Store Require Import Tree Rows Spec SqliteModel SqliteRep SqliteRefine SqliteTheorems.

(* On any database with distinct primary keys, Create either fails and leaves the database as it was,
   or succeeds, and then: the plan is read back whole; the database is the old one plus rows that all
   carry the new plan's id (every other plan's rows are untouched); everything was encodable and the
   id was new and not nil. *)
Theorem c14_create_atomic :
  forall (enc_req : blob -> option code) (dec_req : tok -> code -> option blob)
         (enc_att : attempt -> option code) (dec_att : tok -> code -> option attempt)
         (req_ok : tok -> blob -> bool) (att_ok : tok -> attempt -> bool),
    (forall t b c, req_ok t b = true -> enc_req b = Some c -> dec_req t c = Some b) ->
    (forall t a c, att_ok t a = true -> enc_att a = Some c -> dec_att t c = Some a) ->
    forall (p : spln) (d d' : db) (ok : bool),
      NoDup (map key d) -> SqliteModel.create enc_req enc_att p d = (d', ok) ->
      (ok = false -> d' = d)
      /\ (ok = true ->
          (pln_dom req_ok att_ok p -> SqliteModel.read dec_req dec_att (sp_id p) d' = Some p)
          /\ (exists rs, d' = d ++ rs /\ forall r, In r rs -> row_plan r = sp_id p)
          /\ pln_encodes enc_req enc_att p = true /\ exists_plan (sp_id p) d = false /\ uid_nil (sp_id p) = false).
Proof. exact c14_create_atomic_lemma. Qed.
Print Assumptions c14_create_atomic.

(* a request or an attempt that cannot be encoded, at ANY position of the tree, makes Create fail
   with the database unchanged *)
Theorem c14_create_unencodable :
  forall (enc_req : blob -> option code) (enc_att : attempt -> option code) (p : spln) (d : db) (a : sact),
    In a (pln_actions p) ->
    (enc_req (sa_req a) = None \/ exists x, In x (sa_atts a) /\ enc_att x = None) ->
    SqliteModel.create enc_req enc_att p d = (d, false).
Proof. exact c14_create_unencodable_lemma. Qed.
Print Assumptions c14_create_unencodable.

(* creating an id that can be read fails without altering anything *)
Theorem c14_create_unique :
  forall (enc_req : blob -> option code) (dec_req : tok -> code -> option blob)
         (enc_att : attempt -> option code) (dec_att : tok -> code -> option attempt) (p : spln) (d : db) (q : spln),
    SqliteModel.read dec_req dec_att (sp_id p) d = Some q -> SqliteModel.create enc_req enc_att p d = (d, false).
Proof. exact c14_create_unique_lemma. Qed.
Print Assumptions c14_create_unique.

(* On every database reachable by operations of the domain: Delete either fails (the id is not stored)
   and changes nothing, or succeeds, and then no row of any table carries that plan id, the rows of
   every other plan id are the same as before, the id reads as an error and every other id reads as
   before. *)
Theorem c14_delete_exact :
  forall (enc_req : blob -> option code) (dec_req : tok -> code -> option blob)
         (enc_att : attempt -> option code) (dec_att : tok -> code -> option attempt)
         (req_ok : tok -> blob -> bool) (att_ok : tok -> attempt -> bool),
    (forall t b c, req_ok t b = true -> enc_req b = Some c -> dec_req t c = Some b) ->
    (forall t a c, att_ok t a = true -> enc_att a = Some c -> dec_att t c = Some a) ->
    forall (ops : list op) (id : uid) (d' : db) (ok : bool),
      ops_ok enc_req enc_att req_ok att_ok [] ops ->
      SqliteModel.delete dec_req dec_att id (SqliteModel.run enc_req dec_req enc_att dec_att ops []) = (d', ok) ->
      (ok = false -> d' = SqliteModel.run enc_req dec_req enc_att dec_att ops []
                     /\ SqliteModel.read dec_req dec_att id (SqliteModel.run enc_req dec_req enc_att dec_att ops []) = None)
      /\ (ok = true ->
          (forall r, In r d' -> row_plan r <> id)
          /\ (forall pid, pid <> id -> plan_rows pid d' = plan_rows pid (SqliteModel.run enc_req dec_req enc_att dec_att ops []))
          /\ SqliteModel.read dec_req dec_att id d' = None
          /\ (forall id', id' <> id -> SqliteModel.read dec_req dec_att id' d'
                                       = SqliteModel.read dec_req dec_att id' (SqliteModel.run enc_req dec_req enc_att dec_att ops []))).
Proof. exact c14_delete_exact_lemma. Qed.
Print Assumptions c14_delete_exact.
