From Coercion.Store Require Import Tree.
Theorem c13_placeholder : True. Proof. exact I. Qed.
Print Assumptions c13_placeholder.
