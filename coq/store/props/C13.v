(* C13 - storage round trip: Read returns exactly what was last written.

   The store is specified by Spec.v: an association list id -> plan; Create adds the plan unchanged or
   fails without effect; Update* rewrites the state triple (plan: + reason; action: + attempts) of the
   object carrying the id and nothing of the definition; Delete removes the plan; read of an id never
   created, or deleted, is None - an error, never an empty plan (spec_read_empty / spec_read_deleted /
   spec_read_created below).

   The theorems say: for every list of operations, the model of the sqlite vault (SqliteModel.v: the
   five tables as rows, the INSERT / SELECT / UPDATE / DELETE statements of the Go code, transactions)
   answers every Read, and every operation's result class, exactly as the specification does.

   Premises (they are what the quantifier of C13 ranges over, not assumptions about the code):
   - the JSON codec brings back what it encoded, for requests the plugin's ValidateReq accepts (req_ok)
     and attempts whose response has the plugin's response type (att_ok);
   - ops_ok (SqliteRep.v): every created plan is in the domain (pln_dom: such requests and attempts;
     instants zero or not before 1970) and its ids are pairwise distinct and not used by any stored
     plan - what Submit guarantees (C16) - or its id is already stored (then it is rejected); every
     Update* carries a state in the domain, UpdateAction attempts fitting the action's plugin.
   Whether a value can be encoded at all is not a premise: an unencodable request or response makes
   the operation fail and change nothing, in the model as in the specification. *)
From Coercion.Base Require Import Plan.
From Coercion.Store Require Import Tree Rows Spec SqliteModel SqliteRep SqliteRefine SqliteTheorems
     CosmosModel CosmosRep CosmosTheorems SqliteStatic.

Theorem c13_roundtrip_sqlite :
  forall (enc_req : blob -> option code) (dec_req : tok -> code -> option blob)
         (enc_att : attempt -> option code) (dec_att : tok -> code -> option attempt)
         (req_ok : tok -> blob -> bool) (att_ok : tok -> attempt -> bool),
    (forall t b c, req_ok t b = true -> enc_req b = Some c -> dec_req t c = Some b) ->
    (forall t a c, att_ok t a = true -> enc_att a = Some c -> dec_att t c = Some a) ->
    forall (ops : list op) (id : uid),
      ops_ok enc_req enc_att req_ok att_ok [] ops ->
      SqliteModel.read dec_req dec_att id (SqliteModel.run enc_req dec_req enc_att dec_att ops [])
      = Spec.read id (Spec.run enc_req enc_att ops [])
      /\ SqliteModel.results enc_req dec_req enc_att dec_att ops [] = Spec.results enc_req enc_att ops [].
Proof. exact c13_roundtrip_sqlite_lemma. Qed.
Print Assumptions c13_roundtrip_sqlite.

(* The same with the domain stated on the operation list alone (SqliteStatic.v): every created plan
   is in the domain and has pairwise distinct ids, two created plans either have the same plan id
   (a duplicate create or a re-create) or share no id at all, every Update* carries a state in the
   domain, UpdateAction attempts fitting the plugin of the created action(s) with that id. *)
Theorem c13_roundtrip_sqlite_distinct_ids :
  forall (enc_req : blob -> option code) (dec_req : tok -> code -> option blob)
         (enc_att : attempt -> option code) (dec_att : tok -> code -> option attempt)
         (req_ok : tok -> blob -> bool) (att_ok : tok -> attempt -> bool),
    (forall t b c, req_ok t b = true -> enc_req b = Some c -> dec_req t c = Some b) ->
    (forall t a c, att_ok t a = true -> enc_att a = Some c -> dec_att t c = Some a) ->
    forall (ops : list op) (id : uid),
      Forall (op_static req_ok att_ok (created ops)) ops ->
      ForallOrdPairs (fun p q => sp_id p = sp_id q \/ ids_disjoint q p) (created ops) ->
      SqliteModel.read dec_req dec_att id (SqliteModel.run enc_req dec_req enc_att dec_att ops [])
      = Spec.read id (Spec.run enc_req enc_att ops [])
      /\ SqliteModel.results enc_req dec_req enc_att dec_att ops [] = Spec.results enc_req enc_att ops [].
Proof.
  intros enc_req dec_req enc_att dec_att req_ok att_ok H1 H2 ops id Hs Hp.
  exact (c13_roundtrip_sqlite_static_lemma enc_req dec_req enc_att dec_att req_ok att_ok H1 H2 ops id (conj Hs Hp)).
Qed.
Print Assumptions c13_roundtrip_sqlite_distinct_ids.

(* the core lemma: on any database whose primary keys are distinct, what a successful Create
   committed is read back whole - every definition field, the order of blocks, sequences and actions,
   state triples, reason, submit time, attempts *)
Theorem c13_fetch_commit :
  forall (enc_req : blob -> option code) (dec_req : tok -> code -> option blob)
         (enc_att : attempt -> option code) (dec_att : tok -> code -> option attempt)
         (req_ok : tok -> blob -> bool) (att_ok : tok -> attempt -> bool),
    (forall t b c, req_ok t b = true -> enc_req b = Some c -> dec_req t c = Some b) ->
    (forall t a c, att_ok t a = true -> enc_att a = Some c -> dec_att t c = Some a) ->
    forall (p : spln) (d d' : db),
      NoDup (map key d) -> pln_dom req_ok att_ok p ->
      SqliteModel.create enc_req enc_att p d = (d', true) ->
      SqliteModel.read dec_req dec_att (sp_id p) d' = Some p.
Proof. exact fetch_commit_lemma. Qed.
Print Assumptions c13_fetch_commit.

(* the specification's read: never created -> None; created -> the plan; deleted -> None *)
Theorem c13_spec_read_never_created : forall id, Spec.read id [] = None.
Proof. exact spec_read_empty. Qed.
Theorem c13_spec_read_created :
  forall enc_req enc_att p s s', Spec.create enc_req enc_att p s = (s', true) -> Spec.read (sp_id p) s' = Some p.
Proof. exact spec_read_created. Qed.
Theorem c13_spec_read_deleted : forall id s, Spec.read id (fst (Spec.delete id s)) = None.
Proof. exact spec_read_deleted. Qed.
Print Assumptions c13_spec_read_created.
Print Assumptions c13_spec_read_deleted.

(* ---- cosmosdb ----
   The same statement for the model of the cosmosdb vault (CosmosModel.v: items per partition,
   planToItems, docTo*, patch-by-path updates, the plan batch and the search batch as two steps).
   Its domain (cops_ok, CosmosRep.v): created plans as for sqlite plus non-nil ids (objsToIDs rejects
   nil ids), no restriction on instants; every Update* addresses an object of a stored plan by that
   plan's id - the partition key - and its own id, and UpdatePlan carries the stored SubmitTime
   (cosmosdb patches /submitTime). The semantics of the Cosmos service is trusted as stated in
   CosmosModel.v (atomic batches per partition, ORDER BY honoured, exact JSON). *)
Theorem c13_roundtrip_cosmos :
  forall (enc_req : blob -> option code) (dec_req : tok -> code -> option blob)
         (enc_att : attempt -> option code) (dec_att : tok -> code -> option attempt)
         (req_ok : tok -> blob -> bool) (att_ok : tok -> attempt -> bool),
    (forall t b c, req_ok t b = true -> enc_req b = Some c -> dec_req t c = Some b) ->
    (forall t a c, att_ok t a = true -> enc_att a = Some c -> dec_att t c = Some a) ->
    forall (ops : list op) (id : uid),
      cops_ok enc_req enc_att req_ok att_ok [] ops ->
      CosmosModel.read dec_req dec_att id (CosmosModel.run enc_req dec_req enc_att dec_att ops cempty)
      = Spec.read id (Spec.run enc_req enc_att ops [])
      /\ CosmosModel.results enc_req dec_req enc_att dec_att ops cempty = Spec.results enc_req enc_att ops [].
Proof. exact c13_roundtrip_cosmos_lemma. Qed.
Print Assumptions c13_roundtrip_cosmos.
