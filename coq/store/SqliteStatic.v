(* Store group: the domain of c13_roundtrip_sqlite, stated on the operation list alone.
   [ops_ok] (SqliteRep.v) looks at the store each operation meets. Here the same is derived from a
   condition on the list itself: the created plans are in the domain and have pairwise distinct ids
   across their whole trees (two creates of the same plan id may repeat ids: the second is a duplicate
   or a re-create), which is what Submit guarantees (C16). *)
From Coq Require Import List Arith Lia Bool ZArith.
From Coercion.Base Require Import Plan.
From Coercion.Store Require Import Tree Rows Spec SqliteModel SqliteRep ListAux SqliteProofs SqliteUpdateProofs SqliteRefine
     CosmosUpdateProofs.
Import ListNotations.

Definition created (ops : list op) : list spln :=
  flat_map (fun o => match o with OCreate p => [p] | _ => [] end) ops.

Definition ids_disjoint (p q : spln) : Prop := forall i, In i (pln_ids p) -> ~ In i (pln_ids q).

Section Static.
Variable enc_req : blob -> option code.
Variable enc_att : attempt -> option code.
Variable req_ok : tok -> blob -> bool.
Variable att_ok : tok -> attempt -> bool.

Notation pln_dom := (pln_dom req_ok att_ok).
Notation op_ok := (op_ok req_ok att_ok).
Notation ops_ok := (ops_ok enc_req enc_att req_ok att_ok).
Notation sp_step := (Spec.step enc_req enc_att).

(* one operation, against ALL plans the list creates *)
Definition op_static (all : list spln) (o : op) : Prop :=
  match o with
  | OCreate p => pln_dom p /\ NoDup (pln_ids p)
  | OUpdatePlan _ _ st _ | OUpdateBlock _ _ st | OUpdateChecks _ _ st | OUpdateSequence _ _ st => st_dom st
  | OUpdateAction _ id st atts =>
    st_dom st /\ forall p a, In p all -> In a (pln_actions p) -> sa_id a = id ->
                            Forall (fun x => att_ok (sa_plugin a) x = true) atts
  | ODelete _ => True
  end.

Definition ops_static (ops : list op) : Prop :=
  Forall (op_static (created ops)) ops
  /\ ForallOrdPairs (fun p q => sp_id p = sp_id q \/ ids_disjoint q p) (created ops).

(* a stored plan keeps the ids and the (id, plugin) of every action of the plan it was created as *)
Definition sig (a : sact) : uid * tok := (sa_id a, sa_plugin a).
Definition shadow (q p : spln) : Prop :=
  sp_id q = sp_id p /\ pln_ids q = pln_ids p /\ map sig (pln_actions q) = map sig (pln_actions p).

Lemma shadow_refl p : shadow p p. Proof. repeat split. Qed.

Lemma shadow_T fa fc fs fb fp q p :
  (forall a, sig (fa a) = sig a) -> (forall c, sc_id (fc c) = sc_id c) -> (forall s, sq_id (fs s) = sq_id s) ->
  (forall b, sb_id (fb b) = sb_id b) ->
  (forall c, sc_acts (fc c) = sc_acts c) -> (forall s, sq_acts (fs s) = sq_acts s) ->
  (forall b, sb_byp (fb b) = sb_byp b /\ sb_pre (fb b) = sb_pre b /\ sb_post (fb b) = sb_post b
             /\ sb_cont (fb b) = sb_cont b /\ sb_def (fb b) = sb_def b /\ sb_seqs (fb b) = sb_seqs b) ->
  (forall p, sp_id (fp p) = sp_id p /\ sp_byp (fp p) = sp_byp p /\ sp_pre (fp p) = sp_pre p
             /\ sp_post (fp p) = sp_post p /\ sp_cont (fp p) = sp_cont p /\ sp_def (fp p) = sp_def p
             /\ sp_blocks (fp p) = sp_blocks p) ->
  shadow q p -> shadow (T_pln fa fc fs fb fp q) p.
Proof.
  intros Hsig I2 I3 I4 A1 A2 A3 A4 (S1 & S2 & S3).
  assert (I1 : forall a, sa_id (fa a) = sa_id a) by (intros a; specialize (Hsig a); unfold sig in Hsig; congruence).
  repeat split.
  - rewrite (sp_id_T fa fc fs fb fp A4). exact S1.
  - rewrite (pln_ids_T fa fc fs fb fp I1 I2 I3 I4 A1 A2 A3 A4). exact S2.
  - rewrite (pln_actions_T fa fc fs fb fp A1 A2 A3 A4), map_map, <- S3. apply map_ext. exact Hsig.
Qed.

Ltac parts := intros; repeat split; reflexivity.

Lemma shadow_step o s hist :
  (forall q, In q s -> exists p, In p hist /\ shadow q p) ->
  forall q, In q (fst (sp_step o s)) ->
            exists p, In p (hist ++ match o with OCreate p => [p] | _ => [] end) /\ shadow q p.
Proof.
  intros H q Hq.
  assert (Keep : forall f, (forall x p, shadow x p -> shadow (f x) p) -> In q (map f s) ->
                           exists p, In p (hist ++ []) /\ shadow q p).
  { intros f Hf Hin. apply in_map_iff in Hin as (x & <- & Hx). destruct (H x Hx) as (p & Hp & Hs).
    exists p. rewrite app_nil_r. auto. }
  destruct o as [p|id rs st sub|pid id st|pid id st|pid id st|pid id st atts|id]; cbn [Spec.step] in Hq.
  - unfold Spec.create in Hq. destruct (uid_nil (sp_id p)); [|destruct (is_some (Spec.read (sp_id p) s)); [|destruct (pln_encodes enc_req enc_att p)]];
      cbn [fst] in Hq; try (destruct (H q Hq) as (p0 & Hp0 & Hs); exists p0; split; [apply in_or_app; now left | exact Hs]).
    apply in_app_or in Hq as [Hq|[<-|[]]].
    + destruct (H q Hq) as (p0 & Hp0 & Hs). exists p0. split; [apply in_or_app; now left | exact Hs].
    + exists p. split; [apply in_or_app; right; now left | apply shadow_refl].
  - apply (Keep (set_pln id rs st)); [|exact Hq]. intros x p0 Hs. rewrite <- T_set_pln.
    apply shadow_T; auto; try parts. intros y. unfold set_pln. destruct (uid_eqb (sp_id y) id); repeat split; reflexivity.
  - apply (Keep (pln_set_blk id st)); [|exact Hq]. intros x p0 Hs. rewrite <- T_set_blk.
    apply shadow_T; auto; try parts.
    + intros y. unfold set_blk. destruct (uid_eqb (sb_id y) id); reflexivity.
    + intros y. unfold set_blk. destruct (uid_eqb (sb_id y) id); repeat split; reflexivity.
  - apply (Keep (pln_set_chk id st)); [|exact Hq]. intros x p0 Hs. rewrite <- T_set_chk.
    apply shadow_T; auto; try parts.
    + intros y. unfold set_chk. destruct (uid_eqb (sc_id y) id); reflexivity.
    + intros y. unfold set_chk. destruct (uid_eqb (sc_id y) id); reflexivity.
  - apply (Keep (pln_set_seq id st)); [|exact Hq]. intros x p0 Hs. rewrite <- T_set_seq.
    apply shadow_T; auto; try parts.
    + intros y. unfold set_seq. destruct (uid_eqb (sq_id y) id); reflexivity.
    + intros y. unfold set_seq. destruct (uid_eqb (sq_id y) id); reflexivity.
  - unfold Spec.update_action in Hq. destruct (atts_encode enc_att atts); cbn [fst] in Hq.
    + apply (Keep (pln_set_act id st atts)); [|exact Hq]. intros x p0 Hs. rewrite <- T_set_act.
      apply shadow_T; auto; try parts. intros y. unfold set_act, sig. destruct (uid_eqb (sa_id y) id); reflexivity.
    + destruct (H q Hq) as (p0 & Hp0 & Hs). exists p0. rewrite app_nil_r. auto.
  - unfold Spec.delete in Hq. destruct (is_some (Spec.read id s)); cbn [fst] in Hq.
    + apply filter_In in Hq as [Hq _]. destruct (H q Hq) as (p0 & Hp0 & Hs). exists p0. rewrite app_nil_r. auto.
    + destruct (H q Hq) as (p0 & Hp0 & Hs). exists p0. rewrite app_nil_r. auto.
Qed.

Lemma created_cons o ops : created (o :: ops) = match o with OCreate p => [p] | _ => [] end ++ created ops.
Proof. reflexivity. Qed.

Lemma static_dynamic_gen all ops : forall hist s,
  (forall q, In q s -> exists p, In p hist /\ shadow q p) ->
  incl hist all -> incl (created ops) all ->
  Forall (op_static all) ops ->
  (forall p q, In p hist -> In q (created ops) -> sp_id p = sp_id q \/ ids_disjoint q p) ->
  ForallOrdPairs (fun p q => sp_id p = sp_id q \/ ids_disjoint q p) (created ops) ->
  ops_ok s ops.
Proof.
  induction ops as [|o ops IH]; intros hist s Hsh Hinc Hinc2 Hst Hcross Hpairs; [exact I|].
  inversion Hst as [|? ? Ho Hst']; subst. cbn [SqliteRep.ops_ok]. split.
  - (* the operation is in the dynamic domain *)
    destruct o as [p|id rs st sub|pid id st|pid id st|pid id st|pid id st atts|id]; cbn [op_static SqliteRep.op_ok] in *; auto.
    + destruct Ho as [Hd Hnd]. split; [exact Hd|].
      destruct (memb (sp_id p) (map sp_id s)) eqn:Em; [left; now apply memb_In|]. right. split; [exact Hnd|].
      intros q i Hq Hi Hiq. destruct (Hsh q Hq) as (p0 & Hp0 & (S1 & S2 & _)).
      destruct (Hcross p0 p Hp0 (or_introl eq_refl)) as [E|D].
      * assert (In (sp_id p) (map sp_id s)) by (rewrite <- E, <- S1; now apply in_map).
        apply memb_In in H. congruence.
      * apply (D i Hi). now rewrite <- S2.
    + destruct Ho as [Hs Ha]. split; [exact Hs|]. intros q a Hq Hin Hid.
      destruct (Hsh q Hq) as (p0 & Hp0 & (_ & _ & S3)).
      assert (Hsig : In (sig a) (map sig (pln_actions p0))) by (rewrite <- S3; now apply in_map).
      apply in_map_iff in Hsig as (a' & Hs' & Hin'). unfold sig in Hs'. injection Hs' as Hid' Hpl'.
      rewrite <- Hpl'. apply (Ha p0 a' (Hinc p0 Hp0) Hin'). congruence.
  - (* and so is the rest, from the store it produces *)
    apply (IH (hist ++ match o with OCreate p => [p] | _ => [] end)).
    + now apply shadow_step.
    + intros x Hx. apply in_app_or in Hx as [Hx|Hx]; [now apply Hinc|].
      destruct o as [p0| | | | | |]; cbn in Hx; try contradiction. destruct Hx as [<-|[]].
      apply Hinc2. rewrite created_cons. now left.
    + intros x Hx. apply Hinc2. rewrite created_cons. apply in_or_app. now right.
    + exact Hst'.
    + intros p q Hp Hq. apply in_app_or in Hp as [Hp|Hp].
      * apply Hcross; [exact Hp|]. rewrite created_cons. apply in_or_app. now right.
      * destruct o as [p0| | | | | |]; cbn in Hp; try contradiction. destruct Hp as [<-|[]]. rewrite created_cons in Hpairs. cbn [app] in Hpairs.
        inversion Hpairs as [|? ? Hf _]; subst. rewrite Forall_forall in Hf. exact (Hf q Hq).
    + rewrite created_cons in Hpairs. destruct o; cbn [app] in Hpairs; try exact Hpairs. now inversion Hpairs.
Qed.

(* operation lists whose created plans have pairwise distinct ids are in the domain of the theorems *)
Lemma static_dynamic ops : ops_static ops -> ops_ok [] ops.
Proof.
  intros [Hst Hpairs]. apply (static_dynamic_gen (created ops) ops [] []); auto.
  - intros q [].
  - intros x [].
  - apply incl_refl.
  - intros p q [].
Qed.

End Static.

From Coercion.Store Require Import SqliteTheorems.

Lemma c13_roundtrip_sqlite_static_lemma
      (enc_req : blob -> option code) (dec_req : tok -> code -> option blob)
      (enc_att : attempt -> option code) (dec_att : tok -> code -> option attempt)
      (req_ok : tok -> blob -> bool) (att_ok : tok -> attempt -> bool) :
  (forall t b c, req_ok t b = true -> enc_req b = Some c -> dec_req t c = Some b) ->
  (forall t a c, att_ok t a = true -> enc_att a = Some c -> dec_att t c = Some a) ->
  forall (ops : list op) (id : uid),
    ops_static req_ok att_ok ops ->
    SqliteModel.read dec_req dec_att id (SqliteModel.run enc_req dec_req enc_att dec_att ops [])
    = Spec.read id (Spec.run enc_req enc_att ops [])
    /\ SqliteModel.results enc_req dec_req enc_att dec_att ops [] = Spec.results enc_req enc_att ops [].
Proof.
  intros H1 H2 ops id Hs. apply (c13_roundtrip_sqlite_lemma enc_req dec_req enc_att dec_att req_ok att_ok H1 H2).
  now apply static_dynamic.
Qed.
