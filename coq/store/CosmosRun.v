(* Store group: the Update* operations and whole runs of the cosmosdb model refine the specification. *)
From Coq Require Import List Arith Lia Permutation Bool ZArith.
From Coercion.Base Require Import Plan.
From Coercion.Store Require Import Tree Rows Spec SqliteModel SqliteRep CosmosModel CosmosRep ListAux
     SqliteProofs SqliteFetchProofs SqliteUpdateProofs SqliteRefine CosmosProofs CosmosFetchProofs CosmosRefine CosmosUpdateProofs.
Import ListNotations.

(* PatchItem on an item that is there *)
Lemma patchItem_eq pid id f d r0 :
  In r0 d -> ckey r0 = (pid, id) ->
  patchItem pid id f d = (map (fun r => if ckeyb pid id r then f r else r) d, true).
Proof.
  intros Hr Hk. unfold patchItem. destruct (readItem pid id d) eqn:E; [reflexivity|].
  rewrite readItem_none in E. exfalso. exact (E r0 Hr Hk).
Qed.

Section CRun.
Variable enc_req : blob -> option code.
Variable dec_req : tok -> code -> option blob.
Variable enc_att : attempt -> option code.
Variable dec_att : tok -> code -> option attempt.
Variable req_ok : tok -> blob -> bool.
Variable att_ok : tok -> attempt -> bool.
Hypothesis dec_enc_req : forall t b c, req_ok t b = true -> enc_req b = Some c -> dec_req t c = Some b.
Hypothesis dec_enc_att : forall t a c, att_ok t a = true -> enc_att a = Some c -> dec_att t c = Some a.

Notation carow := (carow enc_req enc_att).
Notation crows_actions := (crows_actions enc_req enc_att).
Notation crows_checks := (crows_checks enc_req enc_att).
Notation crows_seq := (crows_seq enc_req enc_att).
Notation crows_seqs := (crows_seqs enc_req enc_att).
Notation crows_block := (crows_block enc_req enc_att).
Notation crows_blocks := (crows_blocks enc_req enc_att).
Notation crows_plan := (crows_plan enc_req enc_att).
Notation crows_of := (crows_of enc_req enc_att).
Notation crep := (crep enc_req enc_att).
Notation pln_encodes := (pln_encodes enc_req enc_att).
Notation cpln_dom := (cpln_dom req_ok att_ok).
Notation cact_dom := (cact_dom req_ok att_ok).
Notation cop_ok := (cop_ok req_ok att_ok).
Notation cops_ok := (cops_ok enc_req enc_att req_ok att_ok).
Notation CInv := (CInv enc_req enc_att req_ok att_ok).
Notation cgood := (cgood enc_req enc_att req_ok att_ok).
Notation cz_step := (CosmosModel.step enc_req dec_req enc_att dec_att).
Notation cz_run := (CosmosModel.run enc_req dec_req enc_att dec_att).
Notation cz_results := (CosmosModel.results enc_req dec_req enc_att dec_att).
Notation sp_step := (Spec.step enc_req enc_att).
Notation sp_run := (Spec.run enc_req enc_att).
Notation sp_results := (Spec.results enc_req enc_att).

(* ---------- where the item of an object is ---------- *)
Lemma in_crows_actions pid l a : In a l -> forall pos, exists k, In (RAction (carow pid k a)) (crows_actions pid pos l).
Proof.
  unfold CosmosRep.crows_actions. induction l as [|x l IH]; intros Hin pos; [destruct Hin|].
  destruct Hin as [->|Hin]; [exists pos; now left|]. destruct (IH Hin (S pos)) as (k & Hk). exists k. now right.
Qed.

Lemma in_crows_checks pid o c : In c (ochk_list o) -> In (crow_checks pid c) (crows_checks pid o).
Proof. destruct o as [x|]; simpl; [|tauto]. intros [->|[]]. apply in_or_app. right. now left. Qed.
Lemma in_crows_checks_act pid o c a :
  In c (ochk_list o) -> In a (sc_acts c) -> exists k, In (RAction (carow pid k a)) (crows_checks pid o).
Proof.
  destruct o as [x|]; simpl; [|tauto]. intros [->|[]] Ha. destruct (in_crows_actions pid _ a Ha 0) as (k & Hk).
  exists k. apply in_or_app. now left.
Qed.

Lemma in_groups5 (a b c d e : option schk) x :
  In x (ochk_list a ++ ochk_list b ++ ochk_list c ++ ochk_list d ++ ochk_list e) ->
  In x (ochk_list a) \/ In x (ochk_list b) \/ In x (ochk_list c) \/ In x (ochk_list d) \/ In x (ochk_list e).
Proof. rewrite !in_app_iff. tauto. Qed.

Lemma in_crows_seqs pid l s : In s l -> forall pos, exists k, In (crow_seq pid k s) (crows_seqs pid pos l).
Proof.
  induction l as [|x l IH]; intros Hin pos; [destruct Hin|]. cbn [CosmosRep.crows_seqs].
  destruct Hin as [->|Hin].
  - exists pos. apply in_or_app. left. unfold CosmosRep.crows_seq. apply in_or_app. right. now left.
  - destruct (IH Hin (S pos)) as (k & Hk). exists k. apply in_or_app. now right.
Qed.
Lemma in_crows_seqs_act pid l s a : In s l -> In a (sq_acts s) -> forall pos, exists k, In (RAction (carow pid k a)) (crows_seqs pid pos l).
Proof.
  induction l as [|x l IH]; intros Hin Ha pos; [destruct Hin|]. cbn [CosmosRep.crows_seqs].
  destruct Hin as [->|Hin].
  - destruct (in_crows_actions pid _ a Ha 0) as (k & Hk). exists k. apply in_or_app. left.
    unfold CosmosRep.crows_seq. apply in_or_app. now left.
  - destruct (IH Hin Ha (S pos)) as (k & Hk). exists k. apply in_or_app. now right.
Qed.

(* a row of kind k with id i sits in the block's items *)
Definition has_row (k : kind) (pid i : uid) (l : list row) : Prop :=
  exists r, In r l /\ row_kind r = k /\ row_id r = i /\ row_plan r = pid.

Lemma has_row_incl k pid i l l' : incl l l' -> has_row k pid i l -> has_row k pid i l'.
Proof. intros Hi (r & Hr & H). exists r. split; [now apply Hi | exact H]. Qed.

Lemma has_checks pid o c : In c (ochk_list o) -> has_row KChecks pid (sc_id c) (crows_checks pid o).
Proof. intros H. exists (crow_checks pid c). split; [now apply in_crows_checks | repeat split]. Qed.
Lemma has_checks_act pid o c a : In c (ochk_list o) -> In a (sc_acts c) -> has_row KAction pid (sa_id a) (crows_checks pid o).
Proof.
  intros H Ha. destruct (in_crows_checks_act pid o c a H Ha) as (k & Hk). exists (RAction (carow pid k a)). split; [exact Hk | repeat split].
Qed.

Lemma block_groups_incl pid pos b o :
  In o [sb_byp b; sb_pre b; sb_post b; sb_cont b; sb_def b] -> incl (crows_checks pid o) (crows_block pid pos b).
Proof.
  unfold CosmosRep.crows_block. intros H r Hr. simpl in H.
  repeat (destruct H as [<-|H]; [rewrite !in_app_iff; tauto|]). destruct H.
Qed.
Lemma plan_groups_incl p o :
  In o [sp_byp p; sp_pre p; sp_post p; sp_cont p; sp_def p] -> incl (crows_checks (sp_id p) o) (crows_plan p).
Proof.
  unfold CosmosRep.crows_plan. intros H r Hr. simpl in H.
  repeat (destruct H as [<-|H]; [rewrite !in_app_iff; tauto|]). destruct H.
Qed.
Lemma block_seqs_incl pid pos b : incl (crows_seqs pid 0 (sb_seqs b)) (crows_block pid pos b).
Proof. unfold CosmosRep.crows_block. intros r Hr. rewrite !in_app_iff. tauto. Qed.
Lemma blocks_block_incl pid l b : In b l -> forall pos, exists k, incl (crows_block pid k b) (crows_blocks pid pos l).
Proof.
  induction l as [|x l IH]; intros Hin pos; [destruct Hin|]. cbn [CosmosRep.crows_blocks].
  destruct Hin as [->|Hin].
  - exists pos. intros r Hr. apply in_or_app. now left.
  - destruct (IH Hin (S pos)) as (k & Hk). exists k. intros r Hr. apply in_or_app. right. now apply Hk.
Qed.
Lemma plan_blocks_incl p : incl (crows_blocks (sp_id p) 0 (sp_blocks p)) (crows_plan p).
Proof. unfold CosmosRep.crows_plan. intros r Hr. rewrite !in_app_iff. tauto. Qed.

Lemma groups_cases (a b c d e : option schk) x :
  In x (ochk_list a ++ ochk_list b ++ ochk_list c ++ ochk_list d ++ ochk_list e) ->
  exists o, In o [a; b; c; d; e] /\ In x (ochk_list o).
Proof.
  intros H. apply in_groups5 in H as [H|[H|[H|[H|H]]]]; eexists; (split; [|exact H]); simpl; tauto.
Qed.

Lemma has_block p b : In b (sp_blocks p) -> has_row KBlock (sp_id p) (sb_id b) (crows_plan p).
Proof.
  intros Hb. destruct (blocks_block_incl (sp_id p) _ b Hb 0) as (k & Hk).
  exists (crow_block (sp_id p) k b). split; [|repeat split].
  apply plan_blocks_incl, Hk. unfold CosmosRep.crows_block. rewrite !in_app_iff. simpl. tauto.
Qed.

Lemma has_chk p c : In c (pln_chks p) -> has_row KChecks (sp_id p) (sc_id c) (crows_plan p).
Proof.
  unfold pln_chks, pln_groups. intros H. apply in_app_or in H as [H|H].
  - apply groups_cases in H as (o & Ho & Hc). eapply has_row_incl; [apply (plan_groups_incl p o Ho) | now apply has_checks].
  - apply in_flat_map in H as (b & Hb & H). unfold blk_groups in H. apply groups_cases in H as (o & Ho & Hc).
    destruct (blocks_block_incl (sp_id p) _ b Hb 0) as (k & Hk).
    eapply has_row_incl; [|apply (has_checks (sp_id p) o c Hc)].
    intros r Hr. apply plan_blocks_incl, Hk. exact (block_groups_incl (sp_id p) k b o Ho r Hr).
Qed.

Lemma has_seq p s : In s (pln_seqs p) -> has_row KSeq (sp_id p) (sq_id s) (crows_plan p).
Proof.
  unfold pln_seqs. intros H. apply in_flat_map in H as (b & Hb & H).
  destruct (blocks_block_incl (sp_id p) _ b Hb 0) as (k & Hk).
  destruct (in_crows_seqs (sp_id p) _ s H 0) as (j & Hj).
  exists (crow_seq (sp_id p) j s). split; [|repeat split].
  apply plan_blocks_incl, Hk, block_seqs_incl. exact Hj.
Qed.

Lemma has_act p a : In a (pln_actions p) -> has_row KAction (sp_id p) (sa_id a) (crows_plan p).
Proof.
  unfold pln_actions, pln_groups. intros H. apply in_app_or in H as [H|H].
  - apply in_flat_map in H as (c & Hc & Ha). apply groups_cases in Hc as (o & Ho & Hc).
    eapply has_row_incl; [apply (plan_groups_incl p o Ho) | now apply (has_checks_act (sp_id p) o c a)].
  - apply in_flat_map in H as (b & Hb & H). destruct (blocks_block_incl (sp_id p) _ b Hb 0) as (k & Hk).
    unfold blk_actions, blk_groups in H. apply in_app_or in H as [H|H].
    + apply in_flat_map in H as (c & Hc & Ha). apply groups_cases in Hc as (o & Ho & Hc).
      eapply has_row_incl; [|apply (has_checks_act (sp_id p) o c a Hc Ha)].
      intros r Hr. apply plan_blocks_incl, Hk. exact (block_groups_incl (sp_id p) k b o Ho r Hr).
    + apply in_flat_map in H as (s & Hs & Ha). destruct (in_crows_seqs_act (sp_id p) _ s a Hs Ha 0) as (j & Hj).
      exists (RAction (carow (sp_id p) j a)). split; [|repeat split].
      apply plan_blocks_incl, Hk, block_seqs_incl. exact Hj.
Qed.

(* ---------- a patch at (planID, id) is the kind-specific rewrite, when ids are used once ---------- *)
Lemma patch_agree s pid id k (f u : row -> row) :
  CInv s -> has_row k pid id (crows_of s) ->
  (forall r, row_kind r = k -> row_id r = id -> u r = f r) ->
  (forall r, row_id r <> id -> u r = r) ->
  patchItem pid id f (crows_of s) = (map u (crows_of s), true).
Proof.
  intros HI (r0 & Hr0 & Hk0 & Hid0 & Hp0) Hsame Hother.
  rewrite (patchItem_eq pid id f (crows_of s) r0 Hr0); [|unfold ckey; now rewrite Hp0, Hid0].
  f_equal. apply map_ext_in. intros r Hr.
  destruct (uid_eqb (row_id r) id) eqn:E.
  - apply uid_eqb_eq in E. assert (r = r0) as -> by (apply (NoDup_map_inj row_id (crows_of s)); [exact (proj1 HI) | | | congruence]; assumption).
    unfold ckeyb. rewrite Hp0, Hid0, !uid_eqb_refl. simpl. symmetry. now apply Hsame.
  - unfold ckeyb. rewrite E, andb_false_r. symmetry. apply Hother. now apply uid_eqb_neq.
Qed.

Lemma crows_of_has s q k i : In q s -> has_row k (sp_id q) i (crows_plan q) -> has_row k (sp_id q) i (crows_of s).
Proof. intros Hq. apply has_row_incl. intros r Hr. apply (crows_of_in enc_req enc_att). eauto. Qed.

(* ---------- the invariant under the rewrites ---------- *)
Lemma CInv_map (u : row -> row) (f : spln -> spln) s :
  (forall r, row_id (u r) = row_id r) -> map u (crows_of s) = crows_of (map f s) ->
  (forall p, In p s -> cgood p -> cgood (f p)) -> CInv s -> CInv (map f s).
Proof.
  intros Hk Hu Hg [Hn Hgs]. split.
  - rewrite <- Hu, map_map. erewrite map_ext; [exact Hn | intros r; apply Hk].
  - apply Forall_forall. intros q Hq. apply in_map_iff in Hq as (p & <- & Hp).
    rewrite Forall_forall in Hgs. auto.
Qed.

Lemma cgood_T fa fc fs fb fp p :
  (forall a, sa_id (fa a) = sa_id a) -> (forall c, sc_id (fc c) = sc_id c) -> (forall s, sq_id (fs s) = sq_id s) ->
  (forall b, sb_id (fb b) = sb_id b) ->
  (forall c, sc_acts (fc c) = sc_acts c) -> (forall s, sq_acts (fs s) = sq_acts s) ->
  (forall b, sb_byp (fb b) = sb_byp b /\ sb_pre (fb b) = sb_pre b /\ sb_post (fb b) = sb_post b
             /\ sb_cont (fb b) = sb_cont b /\ sb_def (fb b) = sb_def b /\ sb_seqs (fb b) = sb_seqs b) ->
  (forall p, sp_id (fp p) = sp_id p /\ sp_byp (fp p) = sp_byp p /\ sp_pre (fp p) = sp_pre p
             /\ sp_post (fp p) = sp_post p /\ sp_cont (fp p) = sp_cont p /\ sp_def (fp p) = sp_def p
             /\ sp_blocks (fp p) = sp_blocks p) ->
  (forall a, In a (pln_actions p) -> cact_dom a -> act_encodes enc_req enc_att a = true ->
             cact_dom (fa a) /\ act_encodes enc_req enc_att (fa a) = true) ->
  cgood p -> cgood (T_pln fa fc fs fb fp p).
Proof.
  intros I1 I2 I3 I4 A1 A2 A3 A4 Ha (Hd & He & Hn). unfold CosmosRefine.cgood, CosmosRep.cpln_dom, Spec.pln_encodes in *.
  rewrite (pln_actions_T fa fc fs fb fp A1 A2 A3 A4), (pln_ids_T fa fc fs fb fp I1 I2 I3 I4 A1 A2 A3 A4).
  rewrite forallb_forall in He. rewrite Forall_forall in Hd.
  repeat split; [| |exact Hn].
  - apply Forall_forall. intros x Hx. apply in_map_iff in Hx as (a & <- & Hin). now apply (Ha a Hin (Hd a Hin) (He a Hin)).
  - apply forallb_forall. intros x Hx. apply in_map_iff in Hx as (a & <- & Hin). now apply (Ha a Hin (Hd a Hin) (He a Hin)).
Qed.

Lemma cgood_noact fc fs fb fp p :
  (forall c, sc_id (fc c) = sc_id c) -> (forall s, sq_id (fs s) = sq_id s) -> (forall b, sb_id (fb b) = sb_id b) ->
  (forall c, sc_acts (fc c) = sc_acts c) -> (forall s, sq_acts (fs s) = sq_acts s) ->
  (forall b, sb_byp (fb b) = sb_byp b /\ sb_pre (fb b) = sb_pre b /\ sb_post (fb b) = sb_post b
             /\ sb_cont (fb b) = sb_cont b /\ sb_def (fb b) = sb_def b /\ sb_seqs (fb b) = sb_seqs b) ->
  (forall p, sp_id (fp p) = sp_id p /\ sp_byp (fp p) = sp_byp p /\ sp_pre (fp p) = sp_pre p
             /\ sp_post (fp p) = sp_post p /\ sp_cont (fp p) = sp_cont p /\ sp_def (fp p) = sp_def p
             /\ sp_blocks (fp p) = sp_blocks p) ->
  cgood p -> cgood (T_pln idf fc fs fb fp p).
Proof. intros. apply cgood_T; auto. Qed.

Lemma row_id_cupd_plan id rs st sub r : row_id (cupd_plan_row id rs st sub r) = row_id r.
Proof. destruct r as [x| | | |]; simpl; try reflexivity. destruct (uid_eqb (pr_id x) id); reflexivity. Qed.
Lemma row_id_cupd_block id st r : row_id (cupd_block_row id st r) = row_id r.
Proof. destruct r as [|x| | |]; simpl; try reflexivity. destruct (uid_eqb (br_id x) id); reflexivity. Qed.
Lemma row_id_cupd_checks id st r : row_id (cupd_checks_row id st r) = row_id r.
Proof. destruct r as [| |x| |]; simpl; try reflexivity. destruct (uid_eqb (cr_id x) id); reflexivity. Qed.
Lemma row_id_cupd_seq id st r : row_id (cupd_seq_row id st r) = row_id r.
Proof. destruct r as [| | |x|]; simpl; try reflexivity. destruct (uid_eqb (sr_id x) id); reflexivity. Qed.
Lemma row_id_cupd_action id st ats r : row_id (cupd_action_row id st ats r) = row_id r.
Proof. destruct r as [| | | |x]; simpl; try reflexivity. destruct (uid_eqb (ar_id x) id); reflexivity. Qed.

(* ---------- the five Update* ---------- *)
Lemma cstep_update_block s pid id st :
  CInv s -> cop_ok s (OUpdateBlock pid id st) ->
  cz_step (OUpdateBlock pid id st) (crep s) = (crep (map (pln_set_blk id st) s), true) /\ CInv (map (pln_set_blk id st) s).
Proof.
  intros HI (q & Hq & <- & Hin). apply in_map_iff in Hin as (b & <- & Hb).
  assert (Hrow := crows_of_has s q KBlock (sb_id b) Hq (has_block q b Hb)).
  split.
  - cbn [CosmosModel.step]. unfold updateObject, lift, CosmosRep.crep. cbn [fst snd].
    rewrite (patch_agree s (sp_id q) (sb_id b) KBlock (patch_state st None) (cupd_block_row (sb_id b) st) HI Hrow).
    + rewrite cupdateBlock_rows, map_map. reflexivity.
    + intros r Hk Hid. destruct r; try discriminate. simpl in *. now rewrite Hid, uid_eqb_refl.
    + intros r Hne. destruct r as [|x| | |]; try reflexivity. simpl in *. apply uid_eqb_neq in Hne. now rewrite Hne.
  - apply (CInv_map (cupd_block_row (sb_id b) st)); auto using row_id_cupd_block, cupdateBlock_rows.
    intros p _ Hg. rewrite <- T_set_blk. apply cgood_noact; auto; try (intros; repeat split; reflexivity).
    + intros x. unfold set_blk. destruct (uid_eqb (sb_id x) (sb_id b)); reflexivity.
    + intros x. unfold set_blk. destruct (uid_eqb (sb_id x) (sb_id b)); repeat split; reflexivity.
Qed.

Lemma cstep_update_checks s pid id st :
  CInv s -> cop_ok s (OUpdateChecks pid id st) ->
  cz_step (OUpdateChecks pid id st) (crep s) = (crep (map (pln_set_chk id st) s), true) /\ CInv (map (pln_set_chk id st) s).
Proof.
  intros HI (q & Hq & <- & Hin). apply in_map_iff in Hin as (c & <- & Hc).
  assert (Hrow := crows_of_has s q KChecks (sc_id c) Hq (has_chk q c Hc)).
  split.
  - cbn [CosmosModel.step]. unfold updateObject, lift, CosmosRep.crep. cbn [fst snd].
    rewrite (patch_agree s (sp_id q) (sc_id c) KChecks (patch_state st None) (cupd_checks_row (sc_id c) st) HI Hrow).
    + rewrite cupdateChecks_rows, map_map. reflexivity.
    + intros r Hk Hid. destruct r; try discriminate. simpl in *. now rewrite Hid, uid_eqb_refl.
    + intros r Hne. destruct r as [| |x| |]; try reflexivity. simpl in *. apply uid_eqb_neq in Hne. now rewrite Hne.
  - apply (CInv_map (cupd_checks_row (sc_id c) st)); auto using row_id_cupd_checks, cupdateChecks_rows.
    intros p _ Hg. rewrite <- T_set_chk. apply cgood_noact; auto; try (intros; repeat split; reflexivity).
    + intros x. unfold set_chk. destruct (uid_eqb (sc_id x) (sc_id c)); reflexivity.
    + intros x. unfold set_chk. destruct (uid_eqb (sc_id x) (sc_id c)); reflexivity.
Qed.

Lemma cstep_update_seq s pid id st :
  CInv s -> cop_ok s (OUpdateSequence pid id st) ->
  cz_step (OUpdateSequence pid id st) (crep s) = (crep (map (pln_set_seq id st) s), true) /\ CInv (map (pln_set_seq id st) s).
Proof.
  intros HI (q & Hq & <- & Hin). apply in_map_iff in Hin as (x0 & <- & Hx).
  assert (Hrow := crows_of_has s q KSeq (sq_id x0) Hq (has_seq q x0 Hx)).
  split.
  - cbn [CosmosModel.step]. unfold updateObject, lift, CosmosRep.crep. cbn [fst snd].
    rewrite (patch_agree s (sp_id q) (sq_id x0) KSeq (patch_state st None) (cupd_seq_row (sq_id x0) st) HI Hrow).
    + rewrite cupdateSequence_rows, map_map. reflexivity.
    + intros r Hk Hid. destruct r; try discriminate. simpl in *. now rewrite Hid, uid_eqb_refl.
    + intros r Hne. destruct r as [| | |x|]; try reflexivity. simpl in *. apply uid_eqb_neq in Hne. now rewrite Hne.
  - apply (CInv_map (cupd_seq_row (sq_id x0) st)); auto using row_id_cupd_seq, cupdateSequence_rows.
    intros p _ Hg. rewrite <- T_set_seq. apply cgood_noact; auto; try (intros; repeat split; reflexivity).
    + intros x. unfold set_seq. destruct (uid_eqb (sq_id x) (sq_id x0)); reflexivity.
    + intros x. unfold set_seq. destruct (uid_eqb (sq_id x) (sq_id x0)); reflexivity.
Qed.

Lemma cstep_update_action s pid id st atts :
  CInv s -> cop_ok s (OUpdateAction pid id st atts) ->
  cz_step (OUpdateAction pid id st atts) (crep s)
  = (crep (fst (Spec.update_action enc_att id st atts s)), snd (Spec.update_action enc_att id st atts s))
  /\ CInv (fst (Spec.update_action enc_att id st atts s)).
Proof.
  intros HI [(q & a & Hq & <- & Ha & <-) Hatt].
  cbn [CosmosModel.step]. unfold CosmosModel.updateAction, Spec.update_action.
  destruct (atts_encode enc_att atts) eqn:Ee.
  2:{ rewrite (enc_atts_none enc_att atts Ee). simpl. auto. }
  rewrite (enc_atts_some enc_att atts Ee). cbn [fst snd].
  assert (Hrow := crows_of_has s q KAction (sa_id a) Hq (has_act q a Ha)).
  split.
  - unfold lift, CosmosRep.crep. cbn [fst snd].
    rewrite (patch_agree s (sp_id q) (sa_id a) KAction (patch_state st (Some (enc_atts_d enc_att atts)))
                         (cupd_action_row (sa_id a) st (enc_atts_d enc_att atts)) HI Hrow).
    + rewrite cupdateAction_rows, map_map. reflexivity.
    + intros r Hk Hid. destruct r; try discriminate. simpl in *. now rewrite Hid, uid_eqb_refl.
    + intros r Hne. destruct r as [| | | |x]; try reflexivity. simpl in *. apply uid_eqb_neq in Hne. now rewrite Hne.
  - apply (CInv_map (cupd_action_row (sa_id a) st (enc_atts_d enc_att atts))); auto using row_id_cupd_action, cupdateAction_rows.
    intros p Hp Hg. rewrite <- T_set_act. apply cgood_T; auto; try (intros; repeat split; reflexivity).
    + intros x. unfold set_act. destruct (uid_eqb (sa_id x) (sa_id a)); reflexivity.
    + intros x Hx (D1 & D2) Hen. unfold set_act. destruct (uid_eqb (sa_id x) (sa_id a)) eqn:E; [|split; [split; assumption | assumption]].
      apply uid_eqb_eq in E. unfold Spec.act_encodes in *. simpl. apply andb_true_iff in Hen as [H1 _]. rewrite H1, Ee.
      split; [split; [exact D1 | exact (Hatt p x Hp Hx E)] | reflexivity].
Qed.

Lemma spec_read_in_c s p : CInv s -> In p s -> Spec.read (sp_id p) s = Some p.
Proof.
  intros HI Hp. unfold Spec.read.
  apply (find_some_unique sp_id); auto.
  - eapply CInv_plan_ids; exact HI.
  - apply uid_eqb_refl.
  - intros y _ Hy. now apply uid_eqb_eq.
Qed.

Lemma cstep_update_plan s id rs st sub :
  CInv s -> cop_ok s (OUpdatePlan id rs st sub) ->
  cz_step (OUpdatePlan id rs st sub) (crep s) = (crep (map (set_pln id rs st) s), true) /\ CInv (map (set_pln id rs st) s).
Proof.
  intros HI (q & Hq & <- & <-).
  assert (Hrow : has_row KPlan (sp_id q) (sp_id q) (crows_of s)).
  { apply (crows_of_has s q KPlan (sp_id q) Hq). exists (crow_plan q). split; [apply cplan_head | repeat split]. }
  assert (Hsame : map (set_pln_sub (sp_id q) rs st (sp_submit q)) s = map (set_pln (sp_id q) rs st) s).
  { apply map_ext_in. intros p Hp. destruct (uid_eqb (sp_id p) (sp_id q)) eqn:E.
    - apply uid_eqb_eq in E. assert (p = q) as -> by (apply (NoDup_map_inj sp_id s); auto; eapply CInv_plan_ids; exact HI).
      apply set_pln_sub_same.
    - unfold set_pln_sub, set_pln. now rewrite E. }
  split.
  - cbn [CosmosModel.step]. unfold CosmosModel.updatePlan, CosmosModel.updatePlan_stage, CosmosRep.crep. cbn [fst snd].
    rewrite (patch_agree s (sp_id q) (sp_id q) KPlan (patch_plan rs st (sp_submit q)) (cupd_plan_row (sp_id q) rs st (sp_submit q)) HI Hrow).
    + cbn [negb]. rewrite cupdatePlan_rows, Hsame, memb_ids_read, (spec_read_in_c s q HI Hq). simpl. f_equal. f_equal.
      rewrite map_map. apply map_ext. intros p. unfold set_pln. destruct (uid_eqb (sp_id p) (sp_id q)); reflexivity.
    + intros r Hk Hid. destruct r; try discriminate. simpl in *. now rewrite Hid, uid_eqb_refl.
    + intros r Hne. destruct r as [x| | | |]; try reflexivity. simpl in *. apply uid_eqb_neq in Hne. now rewrite Hne.
  - rewrite <- Hsame. apply (CInv_map (cupd_plan_row (sp_id q) rs st (sp_submit q))); auto using row_id_cupd_plan, cupdatePlan_rows.
    intros p _ Hg. rewrite <- T_set_pln_sub. apply cgood_noact; auto; try (intros; repeat split; reflexivity).
    intros x. unfold set_pln_sub. destruct (uid_eqb (sp_id x) (sp_id q)); repeat split; reflexivity.
Qed.

(* ---------- runs ---------- *)
Lemma cstep_refines s o :
  CInv s -> cop_ok s o ->
  cz_step o (crep s) = (crep (fst (sp_step o s)), snd (sp_step o s)) /\ CInv (fst (sp_step o s)).
Proof.
  intros HI Hok. destruct o as [p|id rs st sub|pid id st|pid id st|pid id st|pid id st atts|id].
  - eapply cstep_create; eauto.
  - now apply cstep_update_plan.
  - now apply cstep_update_block.
  - now apply cstep_update_checks.
  - now apply cstep_update_seq.
  - now apply cstep_update_action.
  - eapply cstep_delete; eauto.
Qed.

Lemma crun_refines ops : forall s,
  CInv s -> cops_ok s ops ->
  cz_run ops (crep s) = crep (sp_run ops s) /\ cz_results ops (crep s) = sp_results ops s /\ CInv (sp_run ops s).
Proof.
  induction ops as [|o ops IH]; intros s HI Hok; [simpl; auto|].
  destruct Hok as [Ho Hr]. destruct (cstep_refines s o HI Ho) as [E HI'].
  cbn [CosmosModel.run CosmosModel.results Spec.run Spec.results]. rewrite E. cbn [fst snd].
  destruct (IH _ HI' Hr) as (E1 & E2 & E3). rewrite E1, E2. auto.
Qed.

End CRun.
