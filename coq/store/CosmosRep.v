(* Store group: the representation function of the cosmosdb model - the items a stored plan occupies,
   in the order planToItems emits them - and the domain of the cosmosdb theorems. Definitions only. *)
From Coercion.Base Require Import Plan.
From Coercion.Store Require Import Tree Rows Spec SqliteModel SqliteRep CosmosModel.

(* an item is addressed by partition key (its planID) and id *)
Definition ckey (r : row) : uid * uid := (row_plan r, row_id r).

Section CRep.
Variable enc_req : blob -> option code.
Variable enc_att : attempt -> option code.

Definition carow (planID : uid) (pos : nat) (a : sact) : action_row :=
  actionsEntry planID pos a (enc_req_d enc_req (sa_req a)) (enc_atts_d enc_att (sa_atts a)).

Fixpoint carows (planID : uid) (pos : nat) (l : list sact) : list action_row :=
  match l with [] => [] | a :: r => carow planID pos a :: carows planID (S pos) r end.

Definition crows_actions (planID : uid) (pos : nat) (l : list sact) : list row := map RAction (carows planID pos l).

Definition crow_checks (planID : uid) (c : schk) : row := RChecks (checksEntry planID c (map sa_id (sc_acts c))).
Definition crow_seq (planID : uid) (pos : nat) (s : sseq) : row := RSeq (sequencesEntry planID pos s (map sa_id (sq_acts s))).
Definition crow_block (planID : uid) (pos : nat) (b : sblk) : row := RBlock (blocksEntry planID pos b (map sq_id (sb_seqs b))).
Definition crow_plan (p : spln) : row := RPlan (plansEntry p (map sb_id (sp_blocks p))).

Definition crows_checks (planID : uid) (c : option schk) : list row :=
  match c with
  | None => []
  | Some c => crows_actions planID 0 (sc_acts c) ++ [crow_checks planID c]
  end.

Definition crows_seq (planID : uid) (pos : nat) (s : sseq) : list row :=
  crows_actions planID 0 (sq_acts s) ++ [crow_seq planID pos s].

Fixpoint crows_seqs (planID : uid) (pos : nat) (l : list sseq) : list row :=
  match l with [] => [] | s :: r => crows_seq planID pos s ++ crows_seqs planID (S pos) r end.

Definition crows_block (planID : uid) (pos : nat) (b : sblk) : list row :=
  crows_checks planID (sb_byp b) ++ crows_checks planID (sb_pre b) ++ crows_checks planID (sb_post b)
  ++ crows_checks planID (sb_cont b) ++ crows_checks planID (sb_def b)
  ++ crows_seqs planID 0 (sb_seqs b) ++ [crow_block planID pos b].

Fixpoint crows_blocks (planID : uid) (pos : nat) (l : list sblk) : list row :=
  match l with [] => [] | b :: r => crows_block planID pos b ++ crows_blocks planID (S pos) r end.

Definition crows_plan (p : spln) : list row :=
  crows_checks (sp_id p) (sp_byp p) ++ crows_checks (sp_id p) (sp_pre p) ++ crows_checks (sp_id p) (sp_post p)
  ++ crows_checks (sp_id p) (sp_cont p) ++ crows_checks (sp_id p) (sp_def p)
  ++ crows_blocks (sp_id p) 0 (sp_blocks p) ++ [crow_plan p].

(* the container that represents a specification store: the items, and one search entry per plan *)
Definition crows_of (s : store) : db := flat_map crows_plan s.
Definition crep (s : store) : cdb := (crows_of s, map sp_id s).

End CRep.

(* ---- the domain of the cosmosdb theorems ----
   Requests / attempts as for sqlite (req_ok, att_ok); no restriction on instants (RFC 3339 is exact).
   Every Create brings pairwise distinct, non-nil ids used by no stored plan (C16), or a stored id.
   Every Update* addresses an object of a stored plan by that plan's id (the cosmosdb partition key the
   engine's objects carry) and its own id; UpdatePlan carries the stored SubmitTime (cosmosdb patches
   /submitTime too; the engine hands over the live plan, whose SubmitTime never changes after Submit). *)
Section CDom.
Variable req_ok : tok -> blob -> bool.
Variable att_ok : tok -> attempt -> bool.

Definition cact_dom (a : sact) : Prop :=
  req_ok (sa_plugin a) (sa_req a) = true /\ Forall (fun x => att_ok (sa_plugin a) x = true) (sa_atts a).
Definition cpln_dom (p : spln) : Prop := Forall cact_dom (pln_actions p).

Definition blk_chks (b : sblk) : list schk := blk_groups b.
Definition pln_chks (p : spln) : list schk := pln_groups p ++ flat_map blk_groups (sp_blocks p).
Definition pln_seqs (p : spln) : list sseq := flat_map sb_seqs (sp_blocks p).

Definition cop_ok (s : store) (o : op) : Prop :=
  match o with
  | OCreate p =>
    cpln_dom p /\
    (In (sp_id p) (map sp_id s)
     \/ (NoDup (pln_ids p) /\ Forall (fun i => uid_nil i = false) (pln_ids p)
         /\ forall q i, In q s -> In i (pln_ids p) -> ~ In i (pln_ids q)))
  | OUpdatePlan id _ _ sub => exists q, In q s /\ sp_id q = id /\ sp_submit q = sub
  | OUpdateBlock pid id _ => exists q, In q s /\ sp_id q = pid /\ In id (map sb_id (sp_blocks q))
  | OUpdateChecks pid id _ => exists q, In q s /\ sp_id q = pid /\ In id (map sc_id (pln_chks q))
  | OUpdateSequence pid id _ => exists q, In q s /\ sp_id q = pid /\ In id (map sq_id (pln_seqs q))
  | OUpdateAction pid id _ atts =>
    (exists q a, In q s /\ sp_id q = pid /\ In a (pln_actions q) /\ sa_id a = id)
    /\ (forall q a, In q s -> In a (pln_actions q) -> sa_id a = id -> Forall (fun x => att_ok (sa_plugin a) x = true) atts)
  | ODelete _ => True
  end.
End CDom.

Section COpsOk.
Variable enc_req : blob -> option code.
Variable enc_att : attempt -> option code.
Variable req_ok : tok -> blob -> bool.
Variable att_ok : tok -> attempt -> bool.

Fixpoint cops_ok (s : store) (ops : list op) : Prop :=
  match ops with
  | [] => True
  | o :: r => cop_ok req_ok att_ok s o /\ cops_ok (fst (Spec.step enc_req enc_att o s)) r
  end.
End COpsOk.
