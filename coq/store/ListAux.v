(* Store group: list lemmas used by the proofs (find / filter / flat_map / NoDup / sorting). *)
From Coq Require Import List Arith Lia Permutation Sorted Bool.
Import ListNotations.

Section Generic.
Context {A B : Type}.

Lemma flat_map_app' (f : A -> list B) (l1 l2 : list A) :
  flat_map f (l1 ++ l2) = flat_map f l1 ++ flat_map f l2.
Proof. induction l1 as [|x l1 IH]; simpl; [reflexivity|]. now rewrite IH, app_assoc. Qed.

Lemma map_flat_map' {C} (g : B -> C) (f : A -> list B) (l : list A) :
  map g (flat_map f l) = flat_map (fun x => map g (f x)) l.
Proof. induction l as [|x l IH]; simpl; [reflexivity|]. now rewrite map_app, IH. Qed.

Lemma filter_flat_map (p : B -> bool) (f : A -> list B) (l : list A) :
  filter p (flat_map f l) = flat_map (fun x => filter p (f x)) l.
Proof. induction l as [|x l IH]; simpl; [reflexivity|]. now rewrite filter_app, IH. Qed.

Lemma flat_map_ext_in (f g : A -> list B) (l : list A) :
  (forall x, In x l -> f x = g x) -> flat_map f l = flat_map g l.
Proof.
  induction l as [|x l IH]; simpl; intros H; [reflexivity|].
  rewrite (H x (or_introl eq_refl)), IH; [reflexivity|]. intros y Hy. apply H. now right.
Qed.

Lemma filter_all (p : B -> bool) (l : list B) : (forall x, In x l -> p x = true) -> filter p l = l.
Proof.
  induction l as [|x l IH]; simpl; intros H; [reflexivity|].
  rewrite (H x (or_introl eq_refl)), IH; [reflexivity|]. intros y Hy. apply H. now right.
Qed.

Lemma filter_none (p : B -> bool) (l : list B) : (forall x, In x l -> p x = false) -> filter p l = [].
Proof.
  induction l as [|x l IH]; simpl; intros H; [reflexivity|].
  rewrite (H x (or_introl eq_refl)), IH; [reflexivity|]. intros y Hy. apply H. now right.
Qed.

Lemma filter_filter (p q : B -> bool) (l : list B) :
  filter q (filter p l) = filter (fun x => p x && q x) l.
Proof.
  induction l as [|x l IH]; simpl; [reflexivity|].
  destruct (p x); simpl; [destruct (q x); now rewrite IH | exact IH].
Qed.

Lemma filter_ext_in' (p q : B -> bool) (l : list B) :
  (forall x, In x l -> p x = q x) -> filter p l = filter q l.
Proof.
  induction l as [|x l IH]; simpl; intros H; [reflexivity|].
  rewrite (H x (or_introl eq_refl)), IH; [reflexivity|]. intros y Hy. apply H. now right.
Qed.

Lemma NoDup_app_inv (l1 l2 : list B) :
  NoDup (l1 ++ l2) -> NoDup l1 /\ NoDup l2 /\ (forall x, In x l1 -> In x l2 -> False).
Proof.
  induction l1 as [|x l1 IH]; simpl; intros H.
  - repeat split; [constructor | exact H | intros ? []].
  - inversion H as [|? ? Hn Hd]; subst. destruct (IH Hd) as (H1 & H2 & H3).
    repeat split.
    + constructor; [|exact H1]. intros Hx. apply Hn. apply in_or_app. now left.
    + exact H2.
    + intros y [->|Hy] Hy2; [apply Hn; apply in_or_app; now right | exact (H3 y Hy Hy2)].
Qed.

Lemma NoDup_app_intro (l1 l2 : list B) :
  NoDup l1 -> NoDup l2 -> (forall x, In x l1 -> In x l2 -> False) -> NoDup (l1 ++ l2).
Proof.
  induction l1 as [|x l1 IH]; simpl; intros H1 H2 H3; [exact H2|].
  inversion H1 as [|? ? Hn Hd]; subst. constructor.
  - intros Hx. apply in_app_or in Hx as [Hx|Hx]; [exact (Hn Hx) | exact (H3 x (or_introl eq_refl) Hx)].
  - apply IH; [exact Hd | exact H2 |]. intros y Hy Hy2. exact (H3 y (or_intror Hy) Hy2).
Qed.

Lemma NoDup_map_inv' (f : A -> B) (l : list A) : NoDup (map f l) -> NoDup l.
Proof.
  induction l as [|x l IH]; simpl; intros H; [constructor|].
  inversion H as [|? ? Hn Hd]; subst. constructor; [|exact (IH Hd)].
  intros Hx. apply Hn. now apply in_map.
Qed.

(* two elements of a list with pairwise different images coincide when their images do *)
Lemma NoDup_map_inj (f : A -> B) (l : list A) (x y : A) :
  NoDup (map f l) -> In x l -> In y l -> f x = f y -> x = y.
Proof.
  induction l as [|z l IH]; simpl; intros H Hx Hy E; [destruct Hx|].
  inversion H as [|? ? Hn Hd]; subst.
  destruct Hx as [->|Hx], Hy as [->|Hy].
  - reflexivity.
  - exfalso. apply Hn. rewrite E. now apply in_map.
  - exfalso. apply Hn. rewrite <- E. now apply in_map.
  - exact (IH Hd Hx Hy E).
Qed.

Lemma find_some_unique (f : A -> B) (p : A -> bool) (l : list A) (x : A) :
  NoDup (map f l) -> In x l -> p x = true ->
  (forall y, In y l -> p y = true -> f y = f x) ->
  find p l = Some x.
Proof.
  induction l as [|z l IH]; simpl; intros H Hx Hp Hu; [destruct Hx|].
  destruct (p z) eqn:Ez.
  - f_equal. apply (NoDup_map_inj f (z :: l)); simpl; auto.
  - destruct Hx as [->|Hx]; [congruence|].
    inversion H; subst. apply IH; auto.
Qed.

Lemma find_none_iff (p : A -> bool) (l : list A) :
  find p l = None <-> (forall x, In x l -> p x = false).
Proof.
  induction l as [|z l IH]; simpl.
  - split; [intros _ ? [] | reflexivity].
  - destruct (p z) eqn:Ez; split.
    + discriminate.
    + intros H. specialize (H z (or_introl eq_refl)). congruence.
    + intros H x [->|Hx]; [exact Ez | now apply IH].
    + intros H. apply IH. intros x Hx. apply H. now right.
Qed.

End Generic.

(* ---- sorting by a nat key ---- *)
Section SortKey.
Context {A : Type} (key : A -> nat).

Fixpoint insert_key (a : A) (l : list A) : list A :=
  match l with
  | [] => [a]
  | b :: r => if Nat.leb (key a) (key b) then a :: l else b :: insert_key a r
  end.
Fixpoint sort_key (l : list A) : list A :=
  match l with [] => [] | a :: r => insert_key a (sort_key r) end.

Definition kle (a b : A) := key a <= key b.
Definition klt (a b : A) := key a < key b.

Lemma insert_key_perm a l : Permutation (a :: l) (insert_key a l).
Proof.
  induction l as [|b l IH]; simpl; [reflexivity|].
  destruct (Nat.leb (key a) (key b)); [reflexivity|].
  rewrite perm_swap. now apply perm_skip.
Qed.

Lemma sort_key_perm l : Permutation l (sort_key l).
Proof.
  induction l as [|a l IH]; simpl; [reflexivity|].
  rewrite <- insert_key_perm. now apply perm_skip.
Qed.

Lemma insert_key_sorted a l : StronglySorted kle l -> StronglySorted kle (insert_key a l).
Proof.
  induction l as [|b l IH]; simpl; intros H.
  - constructor; [constructor | constructor].
  - inversion H as [|? ? Hs Hf]; subst.
    destruct (Nat.leb (key a) (key b)) eqn:E.
    + apply Nat.leb_le in E. constructor; [exact H|].
      constructor; [exact E|]. eapply Forall_impl; [|exact Hf]. unfold kle. intros; lia.
    + apply Nat.leb_gt in E. constructor; [exact (IH Hs)|].
      assert (Hp := insert_key_perm a l).
      apply (Permutation_Forall Hp). constructor; [unfold kle; lia | exact Hf].
Qed.

Lemma sort_key_sorted l : StronglySorted kle (sort_key l).
Proof. induction l as [|a l IH]; simpl; [constructor | now apply insert_key_sorted]. Qed.

(* a weakly sorted permutation of a strictly sorted list is that list *)
Lemma sorted_perm_eq (l1 l2 : list A) :
  StronglySorted kle l1 -> StronglySorted klt l2 -> Permutation l1 l2 -> l1 = l2.
Proof.
  revert l1. induction l2 as [|x l2 IH]; intros l1 H1 H2 P.
  - apply Permutation_sym in P. now apply Permutation_nil in P.
  - destruct l1 as [|y l1]; [apply Permutation_nil in P; discriminate|].
    inversion H1 as [|? ? Hs1 Hf1]; subst. inversion H2 as [|? ? Hs2 Hf2]; subst.
    assert (y = x) as ->.
    { assert (Hy : In y (x :: l2)) by (eapply Permutation_in; [exact P | now left]).
      assert (Hx : In x (y :: l1)) by (eapply Permutation_in; [apply Permutation_sym; exact P | now left]).
      destruct Hy as [Hy|Hy]; [now symmetry|]. destruct Hx as [Hx|Hx]; [exact Hx|].
      rewrite Forall_forall in Hf1, Hf2. specialize (Hf1 x Hx). specialize (Hf2 y Hy).
      unfold kle, klt in *. lia. }
    f_equal. apply IH; auto. now apply Permutation_cons_inv in P.
Qed.

Lemma sort_key_perm_sorted (l s : list A) :
  Permutation l s -> StronglySorted klt s -> sort_key l = s.
Proof.
  intros P Hs. apply sorted_perm_eq; [apply sort_key_sorted | exact Hs |].
  rewrite <- sort_key_perm. exact P.
Qed.

End SortKey.

