(* Store group: rows. One record per table of workflow/storage/sqlite/schema.go, holding the columns the
   INSERT / SELECT / UPDATE statements name. The cosmosdb entries (schema.go there) carry the same
   fields (plus partitionKey = planID, swarm and type), so both back ends share these records.

   Column encodings that are the identity on the abstract values are not modelled separately:
   ids as canonical text (uuid.String / uuid.Parse), child id lists as a JSON array of such strings,
   statuses and reasons as their integer codes, durations and ints as INTEGER.
   Modelled: absent check groups as NULL (option), [pos], the time columns (SqliteModel.store_time /
   load_time), the request / attempt blobs ([code], produced and consumed only by the abstract
   codec), the attempts column being absent when there is no attempt (empty list). *)
From Coercion.Base Require Import Plan.
From Coercion.Store Require Import Tree.

(* What json.Marshal produced for a request or for one attempt. The models never look inside:
   they only hand it to the decoder (a Section variable). *)
Inductive code := CReq (b : blob) | CAtt (a : attempt).

Record plan_row := {
  pr_id : uid; pr_group : uid; pr_name : tok; pr_descr : tok; pr_meta : blob;
  pr_byp : option uid; pr_pre : option uid; pr_post : option uid; pr_cont : option uid; pr_def : option uid;
  pr_blocks : list uid;
  pr_status : status; pr_start : Z; pr_end : Z; pr_submit : Z; pr_reason : reason }.

Record block_row := {
  br_id : uid; br_key : uid; br_plan : uid; br_name : tok; br_descr : tok; br_pos : nat;
  br_entr : Z; br_exit : Z;
  br_byp : option uid; br_pre : option uid; br_post : option uid; br_cont : option uid; br_def : option uid;
  br_seqs : list uid; br_conc : Z; br_tol : Z;
  br_status : status; br_start : Z; br_end : Z }.

Record checks_row := {
  cr_id : uid; cr_key : uid; cr_plan : uid; cr_actions : list uid; cr_delay : Z;
  cr_status : status; cr_start : Z; cr_end : Z }.

Record seq_row := {
  sr_id : uid; sr_key : uid; sr_plan : uid; sr_name : tok; sr_descr : tok; sr_pos : nat;
  sr_actions : list uid;
  sr_status : status; sr_start : Z; sr_end : Z }.

Record action_row := {
  ar_id : uid; ar_key : uid; ar_plan : uid; ar_name : tok; ar_descr : tok; ar_pos : nat;
  ar_plugin : tok; ar_timeout : Z; ar_retries : Z;
  ar_req : code; ar_atts : list code;       (* [] = NULL / empty blob: no attempts *)
  ar_status : status; ar_start : Z; ar_end : Z }.

Inductive row :=
| RPlan (r : plan_row) | RBlock (r : block_row) | RChecks (r : checks_row)
| RSeq (r : seq_row) | RAction (r : action_row).

Inductive kind := KPlan | KBlock | KChecks | KSeq | KAction.

Definition kind_eqb (a b : kind) : bool :=
  match a, b with
  | KPlan, KPlan | KBlock, KBlock | KChecks, KChecks | KSeq, KSeq | KAction, KAction => true
  | _, _ => false
  end.

Definition row_kind (r : row) : kind :=
  match r with RPlan _ => KPlan | RBlock _ => KBlock | RChecks _ => KChecks | RSeq _ => KSeq | RAction _ => KAction end.
Definition row_id (r : row) : uid :=
  match r with RPlan x => pr_id x | RBlock x => br_id x | RChecks x => cr_id x | RSeq x => sr_id x | RAction x => ar_id x end.
(* the plan_id column (for the plans table: the id itself) *)
Definition row_plan (r : row) : uid :=
  match r with RPlan x => pr_id x | RBlock x => br_plan x | RChecks x => cr_plan x | RSeq x => sr_plan x | RAction x => ar_plan x end.

(* A database: all rows of all tables, in insertion order. Table k = the rows of kind k. *)
Definition db := list row.

Definition table (k : kind) (d : db) : list row := filter (fun r => kind_eqb (row_kind r) k) d.

(* rows of table k whose plan_id column is pid: what `SELECT count( * ) FROM k WHERE plan_id = pid` counts *)
Definition count_rows (k : kind) (pid : uid) (d : db) : nat :=
  length (filter (fun r => kind_eqb (row_kind r) k && uid_eqb (row_plan r) pid) d).

(* ---- a storage action: runs on the connection, leaves it changed, reports success ---- *)
Definition M := db -> db * bool.
Definition ret : M := fun d => (d, true).
Definition fail : M := fun d => (d, false).
Definition bind (m : M) (f : M) : M :=
  fun d => let (d1, ok) := m d in if ok then f d1 else (d1, false).

(* sqlitex.Transaction / a Cosmos transactional batch: on error every change made inside is undone.
   This is the trusted semantics of SQLite (and of the Cosmos service), stated here once. *)
Definition txn (m : M) : M :=
  fun d => let (d1, ok) := m d in if ok then (d1, true) else (d, false).

(* The same with one more fault position: the COMMIT itself may fail (the connection was interrupted because
   the caller's context was cancelled, the disk is full, ...). sqlitex.Transaction then rolls back and reports
   the error: the result is an error and the database is the one before. [txn] = [txn_f false]. *)
Definition txn_f (commit_fails : bool) (m : M) : M :=
  fun d => let (d1, ok) := m d in if ok && negb commit_fails then (d1, true) else (d, false).
