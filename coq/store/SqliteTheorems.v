(* Store group: the C13 / C14 theorems for the sqlite model, in closed form (the codec is universally
   quantified; its round-trip property is a premise). props/C13.v and props/C14.v restate them. *)
From Coq Require Import List Arith Lia Permutation Sorted Bool ZArith.
From Coercion.Base Require Import Plan.
From Coercion.Store Require Import Tree Rows Spec SqliteModel SqliteRep ListAux SqliteProofs SqliteFetchProofs SqliteUpdateProofs SqliteRefine.
Import ListNotations.

Section Thm.
Variable enc_req : blob -> option code.
Variable dec_req : tok -> code -> option blob.
Variable enc_att : attempt -> option code.
Variable dec_att : tok -> code -> option attempt.
Variable req_ok : tok -> blob -> bool.
Variable att_ok : tok -> attempt -> bool.
Hypothesis dec_enc_req : forall t b c, req_ok t b = true -> enc_req b = Some c -> dec_req t c = Some b.
Hypothesis dec_enc_att : forall t a c, att_ok t a = true -> enc_att a = Some c -> dec_att t c = Some a.

Notation sq_run := (SqliteModel.run enc_req dec_req enc_att dec_att).
Notation sq_results := (SqliteModel.results enc_req dec_req enc_att dec_att).
Notation sq_read := (SqliteModel.read dec_req dec_att).
Notation sq_create := (SqliteModel.create enc_req enc_att).
Notation sq_delete := (SqliteModel.delete dec_req dec_att).
Notation sp_run := (Spec.run enc_req enc_att).
Notation sp_results := (Spec.results enc_req enc_att).
Notation ops_ok := (ops_ok enc_req enc_att req_ok att_ok).
Notation pln_dom := (pln_dom req_ok att_ok).
Notation pln_encodes := (pln_encodes enc_req enc_att).
Notation rows_plan := (rows_plan enc_req enc_att).
Notation rows_of := (rows_of enc_req enc_att).
Notation Inv := (Inv enc_req enc_att req_ok att_ok).

(* the database reached by a run represents the store the specification reaches *)
Lemma run_rep ops :
  ops_ok [] ops ->
  sq_run ops [] = rows_of (sp_run ops []) /\ sq_results ops [] = sp_results ops [] /\ Inv (sp_run ops []).
Proof.
  intros H. exact (run_refines enc_req dec_req enc_att dec_att req_ok att_ok dec_enc_req dec_enc_att ops [] (Inv_nil _ _ _ _) H).
Qed.

(* ---------------- C13 ---------------- *)
Lemma c13_roundtrip_sqlite_lemma ops id :
  ops_ok [] ops ->
  sq_read id (sq_run ops []) = Spec.read id (sp_run ops [])
  /\ sq_results ops [] = sp_results ops [].
Proof.
  intros H. destruct (run_rep ops H) as (E1 & E2 & HI). rewrite E1. split; [|exact E2].
  now apply (read_refines enc_req dec_req enc_att dec_att req_ok att_ok dec_enc_req dec_enc_att).
Qed.

(* the core: what Create committed is read back whole *)
Lemma fetch_commit_lemma p d d' :
  NoDup (map key d) -> pln_dom p -> sq_create p d = (d', true) -> sq_read (sp_id p) d' = Some p.
Proof.
  intros Hn Hd Hc. apply create_true_inv in Hc as (_ & _ & He & [-> Hk]).
  specialize (Hk Hn). unfold SqliteModel.read.
  apply (fetch_rows enc_req dec_req enc_att dec_att req_ok att_ok dec_enc_req dec_enc_att p); auto.
  - intros r Hr. apply in_or_app. now right.
  - now apply NoDup_key_app in Hk as [_ Hk].
Qed.

(* ---------------- C14 ---------------- *)
Lemma c14_create_atomic_lemma p d d' ok :
  NoDup (map key d) -> sq_create p d = (d', ok) ->
  (ok = false -> d' = d)
  /\ (ok = true ->
      (pln_dom p -> sq_read (sp_id p) d' = Some p)
      /\ (exists rs, d' = d ++ rs /\ forall r, In r rs -> row_plan r = sp_id p)
      /\ pln_encodes p = true /\ exists_plan (sp_id p) d = false /\ uid_nil (sp_id p) = false).
Proof.
  intros Hn Hc. split; intros ->.
  - now apply create_false in Hc.
  - split; [intros Hd; now apply (fetch_commit_lemma p d d')|].
    apply create_true_inv in Hc as (H1 & H2 & H3 & [-> _]).
    split; [|auto]. exists (rows_plan p). split; [reflexivity|]. intros r Hr.
    now apply (rows_plan_planid enc_req enc_att).
Qed.

Lemma c14_create_unencodable_lemma p d a :
  In a (pln_actions p) ->
  (enc_req (sa_req a) = None \/ exists x, In x (sa_atts a) /\ enc_att x = None) ->
  sq_create p d = (d, false).
Proof.
  intros Ha Hbad. apply create_unencodable. unfold Spec.pln_encodes.
  destruct (forallb (act_encodes enc_req enc_att) (pln_actions p)) eqn:E; [|reflexivity]. exfalso.
  rewrite forallb_forall in E. specialize (E a Ha). unfold Spec.act_encodes in E.
  apply andb_true_iff in E as [E1 E2]. destruct Hbad as [Hb | (x & Hx & Hb)].
  - now rewrite Hb in E1.
  - unfold Spec.atts_encode in E2. rewrite forallb_forall in E2. specialize (E2 x Hx). now rewrite Hb in E2.
Qed.

Lemma c14_create_unique_lemma p d q :
  sq_read (sp_id p) d = Some q -> sq_create p d = (d, false).
Proof.
  unfold SqliteModel.read, SqliteModel.fetchPlan, SqliteModel.create, exists_plan.
  destruct (uid_nil (sp_id p)); [reflexivity|].
  destruct (lookup KPlan (sp_id p) d); [reflexivity | discriminate].
Qed.

Definition plan_rows (pid : uid) (d : db) : list row := filter (fun r => uid_eqb (row_plan r) pid) d.

Lemma plan_rows_rows_of pid s :
  plan_rows pid (rows_of s) = rows_of (filter (fun q => uid_eqb (sp_id q) pid) s).
Proof.
  unfold plan_rows, SqliteRep.rows_of. rewrite filter_flat_map.
  induction s as [|q s IH]; [reflexivity|]. cbn [flat_map filter]. rewrite IH.
  destruct (uid_eqb (sp_id q) pid) eqn:E.
  - cbn [flat_map]. f_equal. apply filter_all. intros r Hr. now rewrite (rows_plan_planid enc_req enc_att q r Hr).
  - rewrite filter_none; [reflexivity|]. intros r Hr. now rewrite (rows_plan_planid enc_req enc_att q r Hr).
Qed.

Lemma spec_read_filter_other id id' (s : store) :
  id' <> id ->
  Spec.read id' (filter (fun p => negb (uid_eqb (sp_id p) id)) s) = Spec.read id' s.
Proof.
  intros Hne. unfold Spec.read. induction s as [|q s IH]; [reflexivity|]. cbn [filter find].
  destruct (uid_eqb (sp_id q) id) eqn:E2; cbn [negb find].
  - apply uid_eqb_eq in E2. assert (uid_eqb (sp_id q) id' = false) as -> by (apply uid_eqb_neq; congruence). exact IH.
  - destruct (uid_eqb (sp_id q) id'); [reflexivity | exact IH].
Qed.

Lemma c14_delete_exact_lemma ops id d' ok :
  ops_ok [] ops ->
  sq_delete id (sq_run ops []) = (d', ok) ->
  (ok = false -> d' = sq_run ops [] /\ sq_read id (sq_run ops []) = None)
  /\ (ok = true ->
      (forall r, In r d' -> row_plan r <> id)
      /\ (forall pid, pid <> id -> plan_rows pid d' = plan_rows pid (sq_run ops []))
      /\ sq_read id d' = None
      /\ (forall id', id' <> id -> sq_read id' d' = sq_read id' (sq_run ops []))).
Proof.
  intros Hok Hdel. destruct (run_rep ops Hok) as (E1 & _ & HI). rewrite E1 in *.
  destruct (step_delete enc_req dec_req enc_att dec_att req_ok att_ok dec_enc_req dec_enc_att _ id HI) as [E HI'].
  rewrite E in Hdel. injection Hdel as <- <-. unfold Spec.delete in *.
  pose proof (read_refines enc_req dec_req enc_att dec_att req_ok att_ok dec_enc_req dec_enc_att) as RR.
  destruct (Spec.read id (sp_run ops [])) as [p|] eqn:Er; simpl in *.
  - split; [discriminate|]. intros _. repeat split.
    + intros r Hr Hid. apply (rows_of_in enc_req enc_att) in Hr as (q & Hq & Hr). apply filter_In in Hq as [_ Hq].
      apply negb_true_iff, uid_eqb_neq in Hq. apply Hq. now rewrite <- (rows_plan_planid enc_req enc_att q r Hr).
    + intros pid Hne. rewrite !plan_rows_rows_of. f_equal. rewrite filter_filter. apply filter_ext_in'.
      intros q _. destruct (uid_eqb (sp_id q) pid) eqn:E2; [|now rewrite andb_false_r].
      apply uid_eqb_eq in E2. rewrite andb_true_r. apply negb_true_iff, uid_eqb_neq. congruence.
    + rewrite (RR _ id HI'). unfold Spec.read. apply find_none_iff. intros q Hq. apply filter_In in Hq as [_ Hq].
      apply negb_true_iff in Hq. exact Hq.
    + intros id' Hne. rewrite (RR _ id' HI'), (RR _ id' HI). now apply spec_read_filter_other.
  - split; [|discriminate]. intros _. split; [reflexivity|]. now rewrite (RR _ id HI), Er.
Qed.

(* with the COMMIT as one more fault position: a Delete that returns nil has removed every row of the plan,
   whatever happened to the commit; a Delete / Create whose commit failed changed nothing *)
Lemma txn_f_false m d : txn_f false m d = txn m d.
Proof. unfold txn_f, txn. destruct (m d) as [d1 [|]]; reflexivity. Qed.
Lemma txn_f_true m d : txn_f true m d = (d, false).
Proof. unfold txn_f. destruct (m d) as [d1 [|]]; reflexivity. Qed.

Lemma c14_delete_nil_implies_gone_lemma cf ops id d' :
  ops_ok [] ops ->
  SqliteModel.delete_f dec_req dec_att cf id (sq_run ops []) = (d', true) ->
  (forall r, In r d' -> row_plan r <> id) /\ sq_read id d' = None.
Proof.
  intros Hok Hd.
  assert (H : sq_delete id (sq_run ops []) = (d', true)).
  { revert Hd. unfold SqliteModel.delete_f, SqliteModel.delete. destruct (sq_read id (sq_run ops [])); [|exact (fun H => H)].
    destruct cf; [rewrite txn_f_true; discriminate | now rewrite txn_f_false]. }
  destruct (c14_delete_exact_lemma ops id d' true Hok H) as [_ G]. destruct (G eq_refl) as (A & _ & B & _). auto.
Qed.

Lemma c14_commit_failure_changes_nothing_lemma p id d :
  SqliteModel.create_f enc_req enc_att true p d = (d, false)
  /\ SqliteModel.delete_f dec_req dec_att true id d = (d, false).
Proof.
  unfold SqliteModel.create_f, SqliteModel.delete_f. split.
  - destruct (uid_nil (sp_id p)); [reflexivity|]. destruct (exists_plan (sp_id p) d); [reflexivity | apply txn_f_true].
  - destruct (sq_read id d); [apply txn_f_true | reflexivity].
Qed.

End Thm.

(* ---------------- what the specification's read means ---------------- *)
Section SpecFacts.
Variable enc_req : blob -> option code.
Variable enc_att : attempt -> option code.

Lemma spec_read_empty id : Spec.read id [] = None.
Proof. reflexivity. Qed.

Lemma spec_read_created p s s' :
  Spec.create enc_req enc_att p s = (s', true) -> Spec.read (sp_id p) s' = Some p.
Proof.
  unfold Spec.create. destruct (uid_nil (sp_id p)); [discriminate|].
  destruct (Spec.read (sp_id p) s) eqn:E; simpl; [discriminate|].
  destruct (pln_encodes enc_req enc_att p); [|discriminate]. intros H. injection H as <-.
  unfold Spec.read in *. induction s as [|q s IH]; simpl in *; [now rewrite uid_eqb_refl|].
  destruct (uid_eqb (sp_id q) (sp_id p)); [discriminate | now apply IH].
Qed.

Lemma spec_read_deleted id s : Spec.read id (fst (Spec.delete id s)) = None.
Proof.
  unfold Spec.delete. destruct (Spec.read id s) eqn:E; simpl; [|exact E].
  unfold Spec.read. apply find_none_iff. intros q Hq. apply filter_In in Hq as [_ Hq]. now apply negb_true_iff in Hq.
Qed.

Lemma spec_create_failed_unchanged p s s' : Spec.create enc_req enc_att p s = (s', false) -> s' = s.
Proof.
  unfold Spec.create. destruct (uid_nil (sp_id p)); [intros H; now injection H|].
  destruct (is_some (Spec.read (sp_id p) s)); [intros H; now injection H|].
  destruct (pln_encodes enc_req enc_att p); [discriminate | intros H; now injection H].
Qed.
End SpecFacts.
