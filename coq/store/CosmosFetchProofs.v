(* Store group: the readers of the cosmosdb model rebuild a plan from its items. *)
From Coq Require Import List Arith Lia Permutation Sorted Bool ZArith.
From Coercion.Base Require Import Plan.
From Coercion.Store Require Import Tree Rows Spec SqliteModel SqliteRep CosmosModel CosmosRep ListAux SqliteProofs SqliteFetchProofs CosmosProofs.
Import ListNotations.

(* ---------- the action query of a partition ---------- *)
Lemma query_In x pid ids d :
  In x (query_actions pid ids d) <-> In (RAction x) d /\ ar_plan x = pid /\ memb (ar_id x) ids = true.
Proof.
  induction d as [|r d IH]; simpl; [tauto|].
  destruct r as [r|r|r|r|a]; try (rewrite IH; split; [intros (H1 & H2); auto | intros [[H|H] H2]; [discriminate | auto]]).
  destruct (uid_eqb (ar_plan a) pid && memb (ar_id a) ids) eqn:E; simpl; rewrite IH; split.
  - intros [->|(H1 & H2)]; [|auto]. apply andb_true_iff in E as [E1 E2]. apply uid_eqb_eq in E1. auto.
  - intros [[H|H] H2]; [injection H as ->; auto | auto].
  - intros (H1 & H2); auto.
  - intros [[H|H] (H2 & H3)]; [|auto]. injection H as ->. exfalso.
    apply andb_false_iff in E as [E|E]; [apply uid_eqb_neq in E; contradiction | congruence].
Qed.

Lemma query_NoDup pid ids d : NoDup (map ckey d) -> NoDup (map ar_id (query_actions pid ids d)).
Proof.
  induction d as [|r d IH]; simpl; intros Hn; [constructor|].
  inversion Hn as [|? ? Hk Hd]; subst.
  destruct r as [r|r|r|r|a]; auto.
  destruct (uid_eqb (ar_plan a) pid && memb (ar_id a) ids) eqn:E; auto. simpl. constructor; auto.
  apply andb_true_iff in E as [E _]. apply uid_eqb_eq in E.
  intros Hin. apply in_map_iff in Hin as (x & Hx & Hs). apply query_In in Hs as (Hs & Hp & _).
  apply Hk. apply in_map_iff. exists (RAction x). split; [unfold ckey; simpl; now rewrite Hx, Hp, E | exact Hs].
Qed.

Lemma NoDup_ckey_app (a b : list row) : NoDup (map ckey (a ++ b)) -> NoDup (map ckey a) /\ NoDup (map ckey b).
Proof. rewrite map_app. intros H. apply NoDup_app_inv in H as (H1 & H2 & _). auto. Qed.

Ltac csplit :=
  repeat match goal with
         | H : incl (_ ++ _) _ |- _ => apply incl_app_inv' in H as [? H]
         | H : incl (_ :: _) _ |- _ => apply incl_cons_inv' in H as [? H]
         | H : NoDup (map ckey (_ ++ _)) |- _ => apply NoDup_ckey_app in H as [? H]
         end.

Section CFetch.
Variable enc_req : blob -> option code.
Variable dec_req : tok -> code -> option blob.
Variable enc_att : attempt -> option code.
Variable dec_att : tok -> code -> option attempt.
Variable req_ok : tok -> blob -> bool.
Variable att_ok : tok -> attempt -> bool.
Hypothesis dec_enc_req : forall t b c, req_ok t b = true -> enc_req b = Some c -> dec_req t c = Some b.
Hypothesis dec_enc_att : forall t a c, att_ok t a = true -> enc_att a = Some c -> dec_att t c = Some a.

Notation carow := (carow enc_req enc_att).
Notation carows := (carows enc_req enc_att).
Notation crows_actions := (crows_actions enc_req enc_att).
Notation crows_checks := (crows_checks enc_req enc_att).
Notation crows_seq := (crows_seq enc_req enc_att).
Notation crows_seqs := (crows_seqs enc_req enc_att).
Notation crows_block := (crows_block enc_req enc_att).
Notation crows_blocks := (crows_blocks enc_req enc_att).
Notation crows_plan := (crows_plan enc_req enc_att).
Notation act_encodes := (act_encodes enc_req enc_att).
Notation acts_encode := (acts_encode enc_req enc_att).
Notation ochk_encodes := (ochk_encodes enc_req enc_att).
Notation seqs_encode := (seqs_encode enc_req enc_att).
Notation blk_encodes := (blk_encodes enc_req enc_att).
Notation blks_encode := (blks_encode enc_req enc_att).
Notation pln_encodes := (pln_encodes enc_req enc_att).
Notation cact_dom := (cact_dom req_ok att_ok).
Notation docToAction := (docToAction dec_req dec_att).
Notation fetchActionsByIDs := (CosmosModel.fetchActionsByIDs dec_req dec_att).
Notation fetchChecksByID := (CosmosModel.fetchChecksByID dec_req dec_att).
Notation idToCheck := (idToCheck dec_req dec_att).
Notation fetchSequenceByID := (CosmosModel.fetchSequenceByID dec_req dec_att).
Notation fetchBlockByID := (CosmosModel.fetchBlockByID dec_req dec_att).
Notation fetchPlan := (CosmosModel.fetchPlan dec_req dec_att).

Lemma doc_to_action pid pos a : cact_dom a -> act_encodes a = true -> docToAction (carow pid pos a) = Some a.
Proof.
  intros (Hr & Ha) He. unfold Spec.act_encodes in He. apply andb_true_iff in He as [He1 He2].
  unfold CosmosModel.docToAction, CosmosRep.carow, actionsEntry, enc_req_d; simpl.
  destruct (enc_req (sa_req a)) eqn:E; [|discriminate].
  rewrite (dec_enc_req _ _ _ Hr E), (dec_enc_atts enc_att dec_att att_ok dec_enc_att _ _ Ha He2).
  destruct a as [? ? ? ? ? ? ? ? ? [? ? ?]]. reflexivity.
Qed.

Lemma docs_to_actions pid l : forall pos,
  Forall cact_dom l -> acts_encode l = true -> mapM docToAction (carows pid pos l) = Some l.
Proof.
  induction l as [|a l IH]; intros pos Hd He; [reflexivity|].
  inversion Hd; subst. simpl in He. apply andb_true_iff in He as [He1 He2].
  simpl. now rewrite doc_to_action, IH.
Qed.

Lemma carows_ids pid l : forall pos, map ar_id (carows pid pos l) = map sa_id l.
Proof. induction l as [|a l IH]; intros pos; simpl; [reflexivity | now rewrite IH]. Qed.
Lemma carows_plan pid l : forall pos x, In x (carows pid pos l) -> ar_plan x = pid.
Proof. induction l as [|a l IH]; intros pos x; simpl; [intros [] | intros [<-|H]; [reflexivity | eauto]]. Qed.
Lemma carows_pos_ge pid l : forall pos x, In x (carows pid pos l) -> pos <= ar_pos x.
Proof.
  induction l as [|a l IH]; intros pos x; simpl; [intros []|].
  intros [<-|H]; [simpl; lia | apply IH in H; lia].
Qed.
Lemma carows_sorted pid l : forall pos, StronglySorted (klt ar_pos) (carows pid pos l).
Proof.
  induction l as [|a l IH]; intros pos; simpl; constructor; [apply IH|].
  apply Forall_forall. intros x Hx. apply carows_pos_ge in Hx. unfold klt; simpl. lia.
Qed.
Lemma cactions_ckeys pid l pos : map ckey (crows_actions pid pos l) = map (fun a => (pid, sa_id a)) l.
Proof.
  unfold CosmosRep.crows_actions. revert pos. induction l as [|a l IH]; intros pos; simpl; [reflexivity | now rewrite IH].
Qed.

Lemma cfetch_actions pid l d :
  NoDup (map ckey d) -> incl (crows_actions pid 0 l) d -> NoDup (map ckey (crows_actions pid 0 l)) ->
  Forall cact_dom l -> acts_encode l = true ->
  fetchActionsByIDs pid (map sa_id l) d = Some l.
Proof.
  intros Hn Hi Hk Hd He.
  assert (Hsel : sort_pos (query_actions pid (map sa_id l) d) = carows pid 0 l).
  { rewrite sort_pos_sort_key. apply sort_key_perm_sorted; [|apply carows_sorted].
    rewrite cactions_ckeys in Hk. apply NoDup_pair_snd in Hk.
    apply NoDup_Permutation.
    - eapply NoDup_map_inv'. apply query_NoDup. exact Hn.
    - eapply NoDup_map_inv'. rewrite carows_ids. exact Hk.
    - intros x. rewrite query_In. split.
      + intros (Hx & Hp & Hm). apply memb_In in Hm. rewrite <- (carows_ids pid l 0) in Hm.
        apply in_map_iff in Hm as (y & Hy & Hyin).
        assert (Hyd : In (RAction y) d) by (apply Hi; unfold CosmosRep.crows_actions; now apply in_map).
        assert (RAction x = RAction y) as E.
        { apply (NoDup_map_inj ckey d); auto. unfold ckey; simpl. now rewrite Hy, Hp, (carows_plan pid l 0 y Hyin). }
        injection E as ->. exact Hyin.
      + intros Hx. split; [apply Hi; unfold CosmosRep.crows_actions; now apply in_map|].
        split; [exact (carows_plan pid l 0 x Hx)|].
        apply memb_In. rewrite <- (carows_ids pid l 0). now apply in_map. }
  unfold CosmosModel.fetchActionsByIDs. destruct l as [|a0 l0]; [reflexivity|].
  change (map sa_id (a0 :: l0)) with (sa_id a0 :: map sa_id l0) in *. cbv iota.
  rewrite Hsel. now apply docs_to_actions.
Qed.

Lemma raw_state_eta s : raw_state (s_status s) (s_start s) (s_end s) = s.
Proof. now destruct s. Qed.

Lemma cfetch_checks pid c d :
  NoDup (map ckey d) -> incl (crows_checks pid (Some c)) d -> NoDup (map ckey (crows_checks pid (Some c))) ->
  Forall cact_dom (sc_acts c) -> acts_encode (sc_acts c) = true ->
  fetchChecksByID pid (sc_id c) d = Some c.
Proof.
  unfold CosmosRep.crows_checks. intros Hn Hi Hk Ha He. csplit.
  unfold CosmosModel.fetchChecksByID.
  match goal with Hin : In (crow_checks pid c) d |- _ => rewrite (readItem_in' d _ pid (sc_id c) Hn Hin eq_refl eq_refl) end.
  unfold CosmosRep.crow_checks. cbn [cr_id cr_key cr_plan cr_actions cr_delay cr_status cr_start cr_end checksEntry].
  match goal with Hi' : incl (crows_actions pid 0 _) d, Hk' : NoDup (map ckey (crows_actions pid 0 _)) |- _ =>
    rewrite (cfetch_actions pid _ d Hn Hi' Hk' Ha He) end.
  rewrite raw_state_eta. now destruct c.
Qed.

Lemma id_to_check pid o d :
  NoDup (map ckey d) -> incl (crows_checks pid o) d -> NoDup (map ckey (crows_checks pid o)) ->
  Forall cact_dom (flat_map sc_acts (ochk_list o)) -> ochk_encodes o = true ->
  Forall nn (flat_map chk_ids (ochk_list o)) ->
  idToCheck pid (ochk_id o) d = Some o.
Proof.
  destruct o as [c|]; [|reflexivity]. simpl. rewrite !app_nil_r. intros Hn Hi Hk Hd He Hnn.
  inversion Hnn as [|? ? Hid _]; subst. unfold nn in Hid. rewrite Hid.
  now rewrite (cfetch_checks pid c d Hn Hi Hk Hd He).
Qed.

Lemma cfetch_seq pid pos s d :
  NoDup (map ckey d) -> incl (crows_seq pid pos s) d -> NoDup (map ckey (crows_seq pid pos s)) ->
  Forall cact_dom (sq_acts s) -> acts_encode (sq_acts s) = true ->
  fetchSequenceByID pid (sq_id s) d = Some s.
Proof.
  unfold CosmosRep.crows_seq. intros Hn Hi Hk Ha He. csplit.
  unfold CosmosModel.fetchSequenceByID.
  match goal with Hin : In (crow_seq pid pos s) d |- _ => rewrite (readItem_in' d _ pid (sq_id s) Hn Hin eq_refl eq_refl) end.
  unfold CosmosRep.crow_seq. cbn [sr_id sr_key sr_plan sr_name sr_descr sr_pos sr_actions sr_status sr_start sr_end sequencesEntry].
  match goal with Hi' : incl (crows_actions pid 0 _) d, Hk' : NoDup (map ckey (crows_actions pid 0 _)) |- _ =>
    rewrite (cfetch_actions pid _ d Hn Hi' Hk' Ha He) end.
  rewrite raw_state_eta. now destruct s.
Qed.

Lemma cfetch_seqs pid d l : forall pos,
  NoDup (map ckey d) -> incl (crows_seqs pid pos l) d -> NoDup (map ckey (crows_seqs pid pos l)) ->
  Forall cact_dom (flat_map sq_acts l) -> seqs_encode l = true ->
  mapM (fun id => fetchSequenceByID pid id d) (map sq_id l) = Some l.
Proof.
  induction l as [|s l IH]; intros pos Hn Hi Hk Hd He; [reflexivity|].
  cbn [CosmosRep.crows_seqs SqliteProofs.seqs_encode forallb flat_map] in *.
  apply andb_true_iff in He as [He1 He2]. csplit. simpl.
  match goal with Hi' : incl (crows_seq pid pos s) d, Hk' : NoDup (map ckey (crows_seq pid pos s)) |- _ =>
    rewrite (cfetch_seq pid pos s d Hn Hi' Hk' (Forall_app_l' _ _ _ Hd) He1) end.
  rewrite (IH (S pos) Hn Hi Hk (Forall_app_r' _ _ _ Hd) He2). reflexivity.
Qed.

Lemma cfetch_block pid pos b d :
  NoDup (map ckey d) -> incl (crows_block pid pos b) d -> NoDup (map ckey (crows_block pid pos b)) ->
  Forall cact_dom (blk_actions b) -> blk_encodes b = true -> Forall nn (blk_ids b) ->
  fetchBlockByID pid (sb_id b) d = Some b.
Proof.
  unfold CosmosRep.crows_block, SqliteProofs.blk_encodes, blk_actions, blk_ids, blk_groups.
  rewrite !flat_map_app'. intros Hn Hi Hk Hd He Hnn.
  repeat (apply andb_true_iff in He as [He ?]). csplit.
  assert (D1 := Forall_app_l' _ _ _ Hd). assert (Dseq := Forall_app_r' _ _ _ Hd). clear Hd.
  assert (Da := Forall_app_l' _ _ _ D1). assert (D2 := Forall_app_r' _ _ _ D1). clear D1.
  assert (Db := Forall_app_l' _ _ _ D2). assert (D3 := Forall_app_r' _ _ _ D2). clear D2.
  assert (Dc := Forall_app_l' _ _ _ D3). assert (D4 := Forall_app_r' _ _ _ D3). clear D3.
  assert (Dd := Forall_app_l' _ _ _ D4). assert (De := Forall_app_r' _ _ _ D4). clear D4.
  assert (N1 := Forall_app_l' _ _ _ Hnn). clear Hnn.
  assert (Na := Forall_app_l' _ _ _ N1). assert (N2 := Forall_app_r' _ _ _ N1). clear N1.
  assert (Nb := Forall_app_l' _ _ _ N2). assert (N3 := Forall_app_r' _ _ _ N2). clear N2.
  assert (Nc := Forall_app_l' _ _ _ N3). assert (N4 := Forall_app_r' _ _ _ N3). clear N3.
  assert (Nd := Forall_app_l' _ _ _ N4). assert (Ne := Forall_app_r' _ _ _ N4). clear N4.
  unfold CosmosModel.fetchBlockByID.
  match goal with Hin : In (crow_block pid pos b) d |- _ => rewrite (readItem_in' d _ pid (sb_id b) Hn Hin eq_refl eq_refl) end.
  unfold CosmosRep.crow_block.
  cbn [br_id br_key br_plan br_name br_descr br_pos br_entr br_exit br_byp br_pre br_cont br_post br_def br_seqs br_conc br_tol br_status br_start br_end blocksEntry].
  rewrite (id_to_check pid (sb_byp b) d), (id_to_check pid (sb_pre b) d), (id_to_check pid (sb_cont b) d),
          (id_to_check pid (sb_post b) d), (id_to_check pid (sb_def b) d); auto.
  rewrite (cfetch_seqs pid d (sb_seqs b) 0); auto.
  rewrite raw_state_eta. now destruct b.
Qed.

Lemma cfetch_blocks pid d l : forall pos,
  NoDup (map ckey d) -> incl (crows_blocks pid pos l) d -> NoDup (map ckey (crows_blocks pid pos l)) ->
  Forall cact_dom (flat_map blk_actions l) -> blks_encode l = true -> Forall nn (flat_map blk_ids l) ->
  mapM (fun id => fetchBlockByID pid id d) (map sb_id l) = Some l.
Proof.
  induction l as [|b l IH]; intros pos Hn Hi Hk Hd He Hnn; [reflexivity|].
  cbn [CosmosRep.crows_blocks SqliteProofs.blks_encode forallb flat_map] in *.
  apply andb_true_iff in He as [He1 He2]. csplit. simpl.
  match goal with Hi' : incl (crows_block pid pos b) d, Hk' : NoDup (map ckey (crows_block pid pos b)) |- _ =>
    rewrite (cfetch_block pid pos b d Hn Hi' Hk' (Forall_app_l' _ _ _ Hd) He1 (Forall_app_l' _ _ _ Hnn)) end.
  rewrite (IH (S pos) Hn Hi Hk (Forall_app_r' _ _ _ Hd) He2 (Forall_app_r' _ _ _ Hnn)). reflexivity.
Qed.

(* reading back the items of a plan gives the plan *)
Lemma cfetch_rows p d :
  NoDup (map ckey d) -> incl (crows_plan p) d -> NoDup (map ckey (crows_plan p)) ->
  cpln_dom req_ok att_ok p -> pln_encodes p = true -> Forall nn (pln_ids p) ->
  fetchPlan (sp_id p) d = Some p.
Proof.
  rewrite pln_encodes_eq.
  unfold CosmosRep.crows_plan, SqliteProofs.pln_encodes', cpln_dom, pln_actions, pln_ids, pln_groups.
  rewrite !flat_map_app'. intros Hn Hi Hk Hd He Hnn.
  repeat (apply andb_true_iff in He as [He ?]). csplit.
  assert (D1 := Forall_app_l' _ _ _ Hd). assert (Dblk := Forall_app_r' _ _ _ Hd). clear Hd.
  assert (Da := Forall_app_l' _ _ _ D1). assert (D2 := Forall_app_r' _ _ _ D1). clear D1.
  assert (Db := Forall_app_l' _ _ _ D2). assert (D3 := Forall_app_r' _ _ _ D2). clear D2.
  assert (Dc := Forall_app_l' _ _ _ D3). assert (D4 := Forall_app_r' _ _ _ D3). clear D3.
  assert (Dd := Forall_app_l' _ _ _ D4). assert (De := Forall_app_r' _ _ _ D4). clear D4.
  inversion Hnn as [|? ? _ Hnn']; subst. clear Hnn.
  assert (N1 := Forall_app_l' _ _ _ Hnn'). assert (Nblk := Forall_app_r' _ _ _ Hnn'). clear Hnn'.
  assert (Na := Forall_app_l' _ _ _ N1). assert (N2 := Forall_app_r' _ _ _ N1). clear N1.
  assert (Nb := Forall_app_l' _ _ _ N2). assert (N3 := Forall_app_r' _ _ _ N2). clear N2.
  assert (Nc := Forall_app_l' _ _ _ N3). assert (N4 := Forall_app_r' _ _ _ N3). clear N3.
  assert (Nd := Forall_app_l' _ _ _ N4). assert (Ne := Forall_app_r' _ _ _ N4). clear N4.
  unfold CosmosModel.fetchPlan.
  match goal with Hin : In (crow_plan p) d |- _ => rewrite (readItem_in' d _ (sp_id p) (sp_id p) Hn Hin eq_refl eq_refl) end.
  unfold CosmosRep.crow_plan.
  cbn [pr_id pr_group pr_name pr_descr pr_meta pr_byp pr_pre pr_cont pr_post pr_def pr_blocks pr_status pr_start pr_end pr_submit pr_reason plansEntry].
  rewrite (id_to_check (sp_id p) (sp_byp p) d), (id_to_check (sp_id p) (sp_pre p) d), (id_to_check (sp_id p) (sp_cont p) d),
          (id_to_check (sp_id p) (sp_post p) d), (id_to_check (sp_id p) (sp_def p) d); auto.
  rewrite (cfetch_blocks (sp_id p) d (sp_blocks p) 0); auto.
  rewrite raw_state_eta. now destruct p.
Qed.

End CFetch.
