(* Store group: the C13 / C14 theorems for the cosmosdb model, in closed form. *)
From Coq Require Import List Arith Lia Permutation Bool ZArith.
From Coercion.Base Require Import Plan.
From Coercion.Store Require Import Tree Rows Spec SqliteModel SqliteRep CosmosModel CosmosRep ListAux
     SqliteProofs SqliteFetchProofs SqliteUpdateProofs SqliteRefine SqliteTheorems
     CosmosProofs CosmosFetchProofs CosmosRefine CosmosUpdateProofs CosmosRun.
Import ListNotations.

Section CThm.
Variable enc_req : blob -> option code.
Variable dec_req : tok -> code -> option blob.
Variable enc_att : attempt -> option code.
Variable dec_att : tok -> code -> option attempt.
Variable req_ok : tok -> blob -> bool.
Variable att_ok : tok -> attempt -> bool.
Hypothesis dec_enc_req : forall t b c, req_ok t b = true -> enc_req b = Some c -> dec_req t c = Some b.
Hypothesis dec_enc_att : forall t a c, att_ok t a = true -> enc_att a = Some c -> dec_att t c = Some a.

Notation cz_run := (CosmosModel.run enc_req dec_req enc_att dec_att).
Notation cz_results := (CosmosModel.results enc_req dec_req enc_att dec_att).
Notation cz_read := (CosmosModel.read dec_req dec_att).
Notation cz_create := (CosmosModel.create enc_req dec_req enc_att dec_att).
Notation cz_create_stage := (CosmosModel.create_stage enc_req dec_req enc_att dec_att).
Notation cz_delete := (CosmosModel.delete dec_req dec_att).
Notation sp_run := (Spec.run enc_req enc_att).
Notation sp_results := (Spec.results enc_req enc_att).
Notation sp_create := (Spec.create enc_req enc_att).
Notation cops_ok := (cops_ok enc_req enc_att req_ok att_ok).
Notation cop_ok := (cop_ok req_ok att_ok).
Notation crows_plan := (crows_plan enc_req enc_att).
Notation crows_of := (crows_of enc_req enc_att).
Notation crep := (crep enc_req enc_att).
Notation CInv := (CInv enc_req enc_att req_ok att_ok).

Definition cempty : cdb := ([], []).

Lemma crun_rep ops :
  cops_ok [] ops ->
  cz_run ops cempty = crep (sp_run ops []) /\ cz_results ops cempty = sp_results ops [] /\ CInv (sp_run ops []).
Proof.
  intros H.
  exact (crun_refines enc_req dec_req enc_att dec_att req_ok att_ok dec_enc_req dec_enc_att ops [] (CInv_nil _ _ _ _) H).
Qed.

Lemma cread_rep s id : CInv s -> cz_read id (crep s) = Spec.read id s.
Proof. intros HI. unfold CosmosModel.read, CosmosRep.crep. cbn [fst]. eapply cread_refines; eauto. Qed.

(* ---------------- C13 ---------------- *)
Lemma c13_roundtrip_cosmos_lemma ops id :
  cops_ok [] ops ->
  cz_read id (cz_run ops cempty) = Spec.read id (sp_run ops [])
  /\ cz_results ops cempty = sp_results ops [].
Proof.
  intros H. destruct (crun_rep ops H) as (E1 & E2 & HI). rewrite E1. split; [now apply cread_rep | exact E2].
Qed.

(* ---------------- C14 ---------------- *)
Lemma cplan_rows_rows_of pid s :
  plan_rows pid (crows_of s) = crows_of (filter (fun q => uid_eqb (sp_id q) pid) s).
Proof.
  unfold plan_rows, CosmosRep.crows_of. rewrite filter_flat_map.
  induction s as [|q s IH]; [reflexivity|]. cbn [flat_map filter]. rewrite IH.
  destruct (uid_eqb (sp_id q) pid) eqn:E.
  - cbn [flat_map]. f_equal. apply filter_all. intros r Hr. now rewrite (cplanid_plan enc_req enc_att q r Hr).
  - rewrite filter_none; [reflexivity|]. intros r Hr. now rewrite (cplanid_plan enc_req enc_att q r Hr).
Qed.

Lemma find_app' {A} (f : A -> bool) l1 l2 :
  find f (l1 ++ l2) = match find f l1 with Some x => Some x | None => find f l2 end.
Proof. induction l1 as [|x l1 IH]; simpl; [reflexivity|]. destruct (f x); [reflexivity | exact IH]. Qed.

Lemma filter_app_single {A} (f : A -> bool) l x : f x = false -> filter f (l ++ [x]) = filter f l.
Proof. intros H. rewrite filter_app. simpl. rewrite H. apply app_nil_r. Qed.

(* Create on a reachable container, for a plan of the domain: fails and changes nothing, or succeeds
   and then the plan is read back whole, it has its search entry, the items of every other partition
   are untouched and every other id reads as before. *)
Lemma c14_create_cosmos_lemma ops p c' ok :
  cops_ok [] ops -> cop_ok (sp_run ops []) (OCreate p) ->
  cz_create p (cz_run ops cempty) = (c', ok) ->
  (ok = false -> c' = cz_run ops cempty)
  /\ (ok = true ->
      cz_read (sp_id p) c' = Some p
      /\ In (sp_id p) (snd c')
      /\ (forall pid, pid <> sp_id p -> plan_rows pid (fst c') = plan_rows pid (fst (cz_run ops cempty)))
      /\ (forall id, id <> sp_id p -> cz_read id c' = cz_read id (cz_run ops cempty))).
Proof.
  intros Hok Hp Hc. destruct (crun_rep ops Hok) as (E1 & _ & HI). rewrite E1 in *.
  destruct (cstep_create enc_req dec_req enc_att dec_att req_ok att_ok dec_enc_req dec_enc_att _ p HI Hp) as [E HI'].
  rewrite E in Hc. injection Hc as <- <-.
  destruct (sp_create p (sp_run ops [])) as [s' b] eqn:Es. cbn [fst snd] in *.
  split; intros ->.
  - now rewrite (spec_create_failed_unchanged enc_req enc_att p _ _ Es).
  - assert (Hs' : s' = sp_run ops [] ++ [p]).
    { revert Es. unfold Spec.create. destruct (uid_nil (sp_id p)); [discriminate|].
      destruct (is_some (Spec.read (sp_id p) (sp_run ops []))); [discriminate|].
      destruct (pln_encodes enc_req enc_att p); [|discriminate]. intros H. now injection H. }
    repeat split.
    + rewrite (cread_rep s' _ HI'). exact (spec_read_created enc_req enc_att p _ _ Es).
    + unfold CosmosRep.crep. cbn [snd]. rewrite Hs', map_app. apply in_or_app. right. now left.
    + intros pid Hne. unfold CosmosRep.crep. cbn [fst]. rewrite !cplan_rows_rows_of, Hs'. f_equal.
      apply filter_app_single. apply uid_eqb_neq. congruence.
    + intros id Hne. rewrite (cread_rep s' id HI'), (cread_rep _ id HI), Hs'. unfold Spec.read.
      rewrite find_app'. destruct (find _ (sp_run ops [])); [reflexivity|]. simpl.
      assert (uid_eqb (sp_id p) id = false) as -> by (apply uid_eqb_neq; congruence). reflexivity.
Qed.

(* A request or an attempt that cannot be encoded, at ANY position of the tree, makes Create fail on
   ANY container, with nothing written - at every fault stage. *)
Lemma c14_create_unencodable_cosmos_lemma stage p (c : cdb) a :
  In a (pln_actions p) ->
  (enc_req (sa_req a) = None \/ exists x, In x (sa_atts a) /\ enc_att x = None) ->
  cz_create_stage stage p c = (c, false).
Proof.
  intros Ha Hbad. unfold CosmosModel.create_stage. destruct c as [d s].
  destruct (uid_nil (sp_id p)); [reflexivity|]. destruct (CosmosModel.exists_plan (sp_id p) d); [reflexivity|].
  destruct (planToItems enc_req enc_att p) as [items|] eqn:E; [|reflexivity]. exfalso.
  apply planToItems_some in E. unfold Spec.pln_encodes in E. rewrite forallb_forall in E. specialize (E a Ha).
  unfold Spec.act_encodes in E. apply andb_true_iff in E as [E1 E2]. destruct Hbad as [Hb | (x & Hx & Hb)].
  - now rewrite Hb in E1.
  - unfold Spec.atts_encode in E2. rewrite forallb_forall in E2. specialize (E2 x Hx). now rewrite Hb in E2.
Qed.

(* creating an id that can be read fails without altering anything, on any container, at any fault stage *)
Lemma c14_create_unique_cosmos_lemma stage p (c : cdb) q :
  cz_read (sp_id p) c = Some q -> cz_create_stage stage p c = (c, false).
Proof.
  unfold CosmosModel.read, CosmosModel.fetchPlan, CosmosModel.create_stage, CosmosModel.exists_plan. destruct c as [d s]. cbn [fst].
  destruct (uid_nil (sp_id p)); [reflexivity|].
  destruct (readItem (sp_id p) (sp_id p) d); [reflexivity | discriminate].
Qed.

(* if the Exists pre-check itself fails (ReadItem answers an error that is not a 404), nothing is written *)
Lemma c14_create_precheck_error_cosmos_lemma p (c : cdb) : CosmosModel.create_readerr p c = (c, false).
Proof. unfold CosmosModel.create_readerr. now destruct (uid_nil (sp_id p)). Qed.

(* The plan batch and the search batch are not atomic together: if the search batch fails, Create
   returns an error although the plan is completely stored - readable, with no search entry.
   (cosmosdb's Create is all-or-nothing for the plan partition only.) *)
Lemma c14_cosmos_create_gap_lemma ops p s' :
  cops_ok [] ops -> cop_ok (sp_run ops []) (OCreate p) ->
  sp_create p (sp_run ops []) = (s', true) ->
  exists c', cz_create_stage 1 p (cz_run ops cempty) = (c', false)
             /\ cz_read (sp_id p) c' = Some p
             /\ ~ In (sp_id p) (snd c')
             /\ fst c' = crows_of s' /\ snd c' = snd (cz_run ops cempty).
Proof.
  intros Hok Hp Es. destruct (crun_rep ops Hok) as (E1 & _ & HI). rewrite E1.
  destruct (cstep_create enc_req dec_req enc_att dec_att req_ok att_ok dec_enc_req dec_enc_att _ p HI Hp) as [E HI'].
  rewrite Es in E, HI'. cbn [fst snd] in *.
  (* the full create and the faulty one run the same plan batch and the same re-read *)
  unfold CosmosModel.create, CosmosModel.create_stage, CosmosRep.crep in *.
  destruct (uid_nil (sp_id p)); [discriminate|].
  destruct (CosmosModel.exists_plan (sp_id p) (crows_of (sp_run ops []))); [discriminate|].
  destruct (planToItems enc_req enc_att p) as [items|]; [|discriminate].
  destruct (txn (createItems items) (crows_of (sp_run ops []))) as [d1 [|]]; cbn [negb] in *; [|discriminate].
  destruct (CosmosModel.fetchPlan dec_req dec_att (sp_id p) d1) as [x|] eqn:Ef; [|discriminate].
  destruct (memb (sp_id p) (map sp_id (sp_run ops []))) eqn:Em; [discriminate|].
  injection E as Ed _. subst d1.
  exists (crows_of s', map sp_id (sp_run ops [])). repeat split.
  - unfold CosmosModel.read. cbn [fst]. rewrite (cread_refines enc_req dec_req enc_att dec_att req_ok att_ok dec_enc_req dec_enc_att s' _ HI').
    exact (spec_read_created enc_req enc_att p _ _ Es).
  - cbn [snd]. intros Hin. apply memb_In in Hin. congruence.
Qed.

(* Delete on a reachable container *)
Lemma c14_delete_cosmos_lemma ops id c' ok :
  cops_ok [] ops ->
  cz_delete id (cz_run ops cempty) = (c', ok) ->
  (ok = false -> c' = cz_run ops cempty /\ cz_read id (cz_run ops cempty) = None)
  /\ (ok = true ->
      (forall r, In r (fst c') -> row_plan r <> id)
      /\ ~ In id (snd c')
      /\ (forall pid, pid <> id -> plan_rows pid (fst c') = plan_rows pid (fst (cz_run ops cempty)))
      /\ cz_read id c' = None
      /\ (forall id', id' <> id -> cz_read id' c' = cz_read id' (cz_run ops cempty))).
Proof.
  intros Hok Hdel. destruct (crun_rep ops Hok) as (E1 & _ & HI). rewrite E1 in *.
  destruct (cstep_delete enc_req dec_req enc_att dec_att req_ok att_ok dec_enc_req dec_enc_att _ id HI) as [E HI'].
  rewrite E in Hdel. injection Hdel as <- <-. unfold Spec.delete in *.
  destruct (Spec.read id (sp_run ops [])) as [p|] eqn:Er; cbn [fst snd is_some] in *.
  - split; [discriminate|]. intros _. repeat split.
    + intros r Hr Hid. unfold CosmosRep.crep in Hr. cbn [fst] in Hr.
      apply (crows_of_in enc_req enc_att) in Hr as (q & Hq & Hr). apply filter_In in Hq as [_ Hq].
      apply negb_true_iff, uid_eqb_neq in Hq. apply Hq. now rewrite <- (cplanid_plan enc_req enc_att q r Hr).
    + unfold CosmosRep.crep. cbn [snd]. intros Hin. apply in_map_iff in Hin as (q & Hq & Hin).
      apply filter_In in Hin as [_ Hin]. apply negb_true_iff, uid_eqb_neq in Hin. contradiction.
    + intros pid Hne. unfold CosmosRep.crep. cbn [fst]. rewrite !cplan_rows_rows_of. f_equal. rewrite filter_filter.
      apply filter_ext_in'. intros q _. destruct (uid_eqb (sp_id q) pid) eqn:E2; [|now rewrite andb_false_r].
      apply uid_eqb_eq in E2. rewrite andb_true_r. apply negb_true_iff, uid_eqb_neq. congruence.
    + rewrite (cread_rep _ id HI'). unfold Spec.read. apply find_none_iff. intros q Hq. apply filter_In in Hq as [_ Hq].
      now apply negb_true_iff in Hq.
    + intros id' Hne. rewrite (cread_rep _ id' HI'), (cread_rep _ id' HI). now apply spec_read_filter_other.
  - split; [|discriminate]. intros _. split; [reflexivity|]. now rewrite (cread_rep _ id HI), Er.
Qed.

(* Delete has the same two-batch structure. If the search batch fails (delete_stage 1), Delete returns an
   error although the plan's items are gone; the search entry - a trace of the plan - is still there. *)
Lemma c14_cosmos_delete_gap_lemma ops id p :
  cops_ok [] ops -> Spec.read id (sp_run ops []) = Some p ->
  exists c', CosmosModel.delete_stage dec_req dec_att 1 id (cz_run ops cempty) = (c', false)
             /\ (forall r, In r (fst c') -> row_plan r <> id)
             /\ cz_read id c' = None
             /\ In id (snd c').
Proof.
  intros Hok Hr. destruct (crun_rep ops Hok) as (E1 & _ & HI). rewrite E1.
  destruct (cstep_delete enc_req dec_req enc_att dec_att req_ok att_ok dec_enc_req dec_enc_att _ id HI) as [E HI'].
  unfold CosmosModel.delete, CosmosModel.delete_stage, Spec.delete, CosmosRep.crep in *.
  rewrite Hr in E, HI'. cbn [is_some fst snd] in *.
  destruct (CosmosModel.fetchPlan dec_req dec_att id (crows_of (sp_run ops []))) as [q|]; [|discriminate].
  destruct (txn (CosmosModel.deletePlan q) (crows_of (sp_run ops []))) as [d1 [|]]; cbn [negb] in *; [|discriminate].
  destruct (memb id (map sp_id (sp_run ops []))) eqn:Em; [|discriminate].
  injection E as Ed _. subst d1. eexists. split; [reflexivity|]. cbn [fst snd]. repeat split.
  - intros r Hr' Hid. apply (crows_of_in enc_req enc_att) in Hr' as (x & Hx & Hr'). apply filter_In in Hx as [_ Hx].
    apply negb_true_iff, uid_eqb_neq in Hx. apply Hx. now rewrite <- (cplanid_plan enc_req enc_att x r Hr').
  - unfold CosmosModel.read. cbn [fst].
    rewrite (cread_refines enc_req dec_req enc_att dec_att req_ok att_ok dec_enc_req dec_enc_att _ id HI').
    unfold Spec.read. apply find_none_iff. intros x Hx. apply filter_In in Hx as [_ Hx]. now apply negb_true_iff in Hx.
  - now apply memb_In.
Qed.

(* What matters for the property: at no fault stage does Delete report success while a trace remains. *)
Lemma c14_delete_success_no_trace_cosmos_lemma ops stage id c' :
  cops_ok [] ops ->
  CosmosModel.delete_stage dec_req dec_att stage id (cz_run ops cempty) = (c', true) ->
  (forall r, In r (fst c') -> row_plan r <> id) /\ ~ In id (snd c') /\ cz_read id c' = None.
Proof.
  intros Hok Hd.
  assert (H2 : cz_delete id (cz_run ops cempty) = (c', true)).
  { unfold CosmosModel.delete. revert Hd. unfold CosmosModel.delete_stage. destruct (cz_run ops cempty) as [d s].
    destruct (CosmosModel.fetchPlan dec_req dec_att id d); [|discriminate].
    destruct stage as [|[|n]]; [discriminate | | exact (fun H => H)].
    destruct (txn (CosmosModel.deletePlan s0) d) as [d1 [|]]; cbn [negb]; discriminate. }
  destruct (c14_delete_cosmos_lemma ops id c' true Hok H2) as [_ H]. destruct (H eq_refl) as (A & B & _ & C & _). auto.
Qed.

(* UpdatePlan has it too: if the search batch fails the error is returned, and the plan item is already patched *)
Lemma c13_cosmos_update_plan_gap_lemma id rs st sub (c : cdb) r0 :
  In r0 (fst c) -> ckey r0 = (id, id) ->
  CosmosModel.updatePlan_stage 1 id rs st sub c
  = ((map (fun r => if ckeyb id id r then patch_plan rs st sub r else r) (fst c), snd c), false).
Proof.
  intros Hr Hk. unfold CosmosModel.updatePlan_stage. now rewrite (patchItem_eq id id _ (fst c) r0 Hr Hk).
Qed.

End CThm.
