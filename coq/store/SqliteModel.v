(* Store group: model of workflow/storage/sqlite (creator.go, creator_plan.go, reader_*.go,
   updater_*.go, deleter.go). Transcription, no proofs. Function names follow the Go names.

   External behaviour = Section variables: the JSON codec of requests and attempts
   (github.com/go-json-experiment/json through plugin.Request() / plugin.Response()).
     enc_req b        json.Marshal(action.Req)            None = marshal error
     dec_req plug c   registry lookup of [plug], then json.Unmarshal into plug.Request()
                      None = plugin not registered, or unmarshal error
     enc_att a        json.Marshal(attempt)
     dec_att plug c   json.Unmarshal into &Attempt{Resp: plug.Response()} *)
From Coercion.Base Require Import Plan.
From Coercion.Store Require Import Tree Rows.

(* ---- time columns ---- *)
(* time.Time{}.UnixNano(): the zero time is outside the int64 nanosecond range; Go returns this value. *)
Definition zero_unixnano : Z := (-6795364578871345152)%Z.
(* t.UnixNano() where 0 stands for the zero time and any other z for the instant z ns after the epoch *)
Definition store_time (z : Z) : Z := if Z.eqb z 0 then zero_unixnano else z.
(* commitPlan: if p.SubmitTime.Before(zeroTime) { 0 } else { UnixNano } with zeroTime = time.Unix(0,0) *)
Definition store_submit (z : Z) : Z := if Z.leb z 0 then 0%Z else z.
(* timeFromField: 0 -> time.Time{}; before 1970 -> time.Time{} *)
Definition load_time (v : Z) : Z := if Z.eqb v 0 then 0%Z else if Z.ltb v 0 then 0%Z else v.

Definition load_state (s : status) (a b : Z) : state :=
  {| s_status := s; s_start := load_time a; s_end := load_time b |}.

(* ---- statements ---- *)
(* INSERT: fails on a duplicate primary key (id TEXT PRIMARY KEY, per table) *)
Definition insert (r : row) : M :=
  fun d => if existsb (fun x => kind_eqb (row_kind x) (row_kind r) && uid_eqb (row_id x) (row_id r)) d
           then (d, false) else (d ++ [r], true).

(* SELECT ... FROM k WHERE id = $id *)
Definition lookup (k : kind) (id : uid) (d : db) : option row :=
  find (fun r => kind_eqb (row_kind r) k && uid_eqb (row_id r) id) d.

(* DELETE FROM k WHERE id = $id *)
Definition delete_row (k : kind) (id : uid) : M :=
  fun d => (filter (fun r => negb (kind_eqb (row_kind r) k && uid_eqb (row_id r) id)) d, true).

(* ORDER BY pos ASC *)
Fixpoint insert_pos (a : action_row) (l : list action_row) : list action_row :=
  match l with
  | [] => [a]
  | b :: r => if Nat.leb (ar_pos a) (ar_pos b) then a :: l else b :: insert_pos a r
  end.
Fixpoint sort_pos (l : list action_row) : list action_row :=
  match l with [] => [] | a :: r => insert_pos a (sort_pos r) end.

(* SELECT ... FROM actions WHERE id IN $ids (before ordering) *)
Fixpoint select_actions (ids : list uid) (d : db) : list action_row :=
  match d with
  | [] => []
  | RAction a :: r => if memb (ar_id a) ids then a :: select_actions ids r else select_actions ids r
  | _ :: r => select_actions ids r
  end.

Section Sqlite.
Variable enc_req : blob -> option code.
Variable dec_req : tok -> code -> option blob.
Variable enc_att : attempt -> option code.
Variable dec_att : tok -> code -> option attempt.

(* encodeAttempts *)
Definition enc_atts (l : list attempt) : option (list code) := mapM enc_att l.

(* ================= creator_plan.go ================= *)
Definition action_row_of (planID : uid) (pos : nat) (a : sact) (rq : code) (ats : list code) : action_row :=
  {| ar_id := sa_id a; ar_key := sa_key a; ar_plan := planID; ar_name := sa_name a; ar_descr := sa_descr a;
     ar_pos := pos; ar_plugin := sa_plugin a; ar_timeout := sa_timeout a; ar_retries := sa_retries a;
     ar_req := rq; ar_atts := ats;
     ar_status := s_status (sa_st a); ar_start := store_time (s_start (sa_st a)); ar_end := store_time (s_end (sa_st a)) |}.

Definition commitAction (planID : uid) (pos : nat) (a : sact) : M :=
  match enc_req (sa_req a) with
  | None => fail
  | Some rq =>
    match enc_atts (sa_atts a) with
    | None => fail
    | Some ats => insert (RAction (action_row_of planID pos a rq ats))
    end
  end.

Fixpoint commitActions (planID : uid) (pos : nat) (l : list sact) : M :=
  match l with
  | [] => ret
  | a :: r => bind (commitAction planID pos a) (commitActions planID (S pos) r)
  end.

Definition checks_row_of (planID : uid) (c : schk) : checks_row :=
  {| cr_id := sc_id c; cr_key := sc_key c; cr_plan := planID; cr_actions := map sa_id (sc_acts c);
     cr_delay := sc_delay c;
     cr_status := s_status (sc_st c); cr_start := store_time (s_start (sc_st c)); cr_end := store_time (s_end (sc_st c)) |}.

Definition commitChecks (planID : uid) (c : option schk) : M :=
  match c with
  | None => ret
  | Some c => bind (insert (RChecks (checks_row_of planID c))) (commitActions planID 0 (sc_acts c))
  end.

Definition seq_row_of (planID : uid) (pos : nat) (s : sseq) : seq_row :=
  {| sr_id := sq_id s; sr_key := sq_key s; sr_plan := planID; sr_name := sq_name s; sr_descr := sq_descr s;
     sr_pos := pos; sr_actions := map sa_id (sq_acts s);
     sr_status := s_status (sq_st s); sr_start := store_time (s_start (sq_st s)); sr_end := store_time (s_end (sq_st s)) |}.

Definition commitSequence (planID : uid) (pos : nat) (s : sseq) : M :=
  bind (insert (RSeq (seq_row_of planID pos s))) (commitActions planID 0 (sq_acts s)).

Fixpoint commitSequences (planID : uid) (pos : nat) (l : list sseq) : M :=
  match l with
  | [] => ret
  | s :: r => bind (commitSequence planID pos s) (commitSequences planID (S pos) r)
  end.

Definition ochk_id (o : option schk) : option uid := option_map sc_id o.

Definition block_row_of (planID : uid) (pos : nat) (b : sblk) : block_row :=
  {| br_id := sb_id b; br_key := sb_key b; br_plan := planID; br_name := sb_name b; br_descr := sb_descr b;
     br_pos := pos; br_entr := sb_entr b; br_exit := sb_exit b;
     br_byp := ochk_id (sb_byp b); br_pre := ochk_id (sb_pre b); br_post := ochk_id (sb_post b);
     br_cont := ochk_id (sb_cont b); br_def := ochk_id (sb_def b);
     br_seqs := map sq_id (sb_seqs b); br_conc := sb_conc b; br_tol := sb_tol b;
     br_status := s_status (sb_st b); br_start := store_time (s_start (sb_st b)); br_end := store_time (s_end (sb_st b)) |}.

(* the five groups first (bypass, pre, post, cont, deferred), then the block row, then the sequences *)
Definition commitBlock (planID : uid) (pos : nat) (b : sblk) : M :=
  bind (commitChecks planID (sb_byp b))
 (bind (commitChecks planID (sb_pre b))
 (bind (commitChecks planID (sb_post b))
 (bind (commitChecks planID (sb_cont b))
 (bind (commitChecks planID (sb_def b))
 (bind (insert (RBlock (block_row_of planID pos b)))
       (commitSequences planID 0 (sb_seqs b))))))).

Fixpoint commitBlocks (planID : uid) (pos : nat) (l : list sblk) : M :=
  match l with
  | [] => ret
  | b :: r => bind (commitBlock planID pos b) (commitBlocks planID (S pos) r)
  end.

Definition plan_row_of (p : spln) : plan_row :=
  {| pr_id := sp_id p; pr_group := sp_group p; pr_name := sp_name p; pr_descr := sp_descr p; pr_meta := sp_meta p;
     pr_byp := ochk_id (sp_byp p); pr_pre := ochk_id (sp_pre p); pr_post := ochk_id (sp_post p);
     pr_cont := ochk_id (sp_cont p); pr_def := ochk_id (sp_def p);
     pr_blocks := map sb_id (sp_blocks p);
     pr_status := s_status (sp_st p); pr_start := store_time (s_start (sp_st p)); pr_end := store_time (s_end (sp_st p));
     pr_submit := store_submit (sp_submit p); pr_reason := sp_reason p |}.

(* commitPlan without its transaction: the plan row, the five groups, the blocks in order *)
Definition commitPlan_body (p : spln) : M :=
  bind (insert (RPlan (plan_row_of p)))
 (bind (commitChecks (sp_id p) (sp_byp p))
 (bind (commitChecks (sp_id p) (sp_pre p))
 (bind (commitChecks (sp_id p) (sp_post p))
 (bind (commitChecks (sp_id p) (sp_cont p))
 (bind (commitChecks (sp_id p) (sp_def p))
       (commitBlocks (sp_id p) 0 (sp_blocks p))))))).

(* defer sqlitex.Transaction(conn)(&err) *)
Definition commitPlan (p : spln) : M := txn (commitPlan_body p).

(* reader.Exists: SELECT COUNT( * ) FROM plans WHERE id = ? *)
Definition exists_plan (id : uid) (d : db) : bool :=
  match lookup KPlan id d with Some _ => true | None => false end.

(* creator.Create *)
Definition create (p : spln) : M :=
  fun d => if uid_nil (sp_id p) then (d, false)
           else if exists_plan (sp_id p) d then (d, false)
           else commitPlan p d.

(* ================= reader_*.go ================= *)
(* decodeAttempts *)
Definition dec_atts (plug : tok) (l : list code) : option (list attempt) := mapM (dec_att plug) l.

(* actionRowToAction *)
Definition actionRowToAction (r : action_row) : option sact :=
  match dec_req (ar_plugin r) (ar_req r) with
  | None => None
  | Some rq =>
    match dec_atts (ar_plugin r) (ar_atts r) with
    | None => None
    | Some ats =>
      Some {| sa_id := ar_id r; sa_key := ar_key r; sa_name := ar_name r; sa_descr := ar_descr r;
              sa_plugin := ar_plugin r; sa_timeout := ar_timeout r; sa_retries := ar_retries r;
              sa_req := rq; sa_atts := ats;
              sa_st := load_state (ar_status r) (ar_start r) (ar_end r) |}
    end
  end.

(* fetchActionsByIDs: nothing for no ids; otherwise WHERE id IN ids ORDER BY pos ASC *)
Definition fetchActionsByIDs (ids : list uid) (d : db) : option (list sact) :=
  match ids with
  | [] => Some []
  | _ => mapM actionRowToAction (sort_pos (select_actions ids d))
  end.

(* fetchChecksByID: a missing row is an error *)
Definition fetchChecksByID (id : uid) (d : db) : option schk :=
  match lookup KChecks id d with
  | Some (RChecks r) =>
    match fetchActionsByIDs (cr_actions r) d with
    | None => None
    | Some acts =>
      Some {| sc_id := cr_id r; sc_key := cr_key r; sc_delay := cr_delay r; sc_acts := acts;
              sc_st := load_state (cr_status r) (cr_start r) (cr_end r) |}
    end
  | _ => None
  end.

(* fieldToCheck: NULL column = no group *)
Definition fieldToCheck (o : option uid) (d : db) : option (option schk) :=
  match o with
  | None => Some None
  | Some id => match fetchChecksByID id d with Some c => Some (Some c) | None => None end
  end.

(* fetchSequenceByID. (The Go code answers a missing row with an empty Sequence and no error; no
   reachable database has a sequence id in a block row without its row - both are written and deleted
   inside one transaction - so the model answers None there.) *)
Definition fetchSequenceByID (id : uid) (d : db) : option sseq :=
  match lookup KSeq id d with
  | Some (RSeq r) =>
    match fetchActionsByIDs (sr_actions r) d with
    | None => None
    | Some acts =>
      Some {| sq_id := sr_id r; sq_key := sr_key r; sq_name := sr_name r; sq_descr := sr_descr r;
              sq_acts := acts; sq_st := load_state (sr_status r) (sr_start r) (sr_end r) |}
    end
  | _ => None
  end.

(* fetchBlockByID (same remark as for sequences) *)
Definition fetchBlockByID (id : uid) (d : db) : option sblk :=
  match lookup KBlock id d with
  | Some (RBlock r) =>
    match fieldToCheck (br_byp r) d, fieldToCheck (br_pre r) d, fieldToCheck (br_cont r) d,
          fieldToCheck (br_post r) d, fieldToCheck (br_def r) d,
          mapM (fun id => fetchSequenceByID id d) (br_seqs r) with
    | Some byp, Some pre, Some cont, Some post, Some def, Some seqs =>
      Some {| sb_id := br_id r; sb_key := br_key r; sb_name := br_name r; sb_descr := br_descr r;
              sb_entr := br_entr r; sb_exit := br_exit r;
              sb_byp := byp; sb_pre := pre; sb_cont := cont; sb_post := post; sb_def := def;
              sb_seqs := seqs; sb_conc := br_conc r; sb_tol := br_tol r;
              sb_st := load_state (br_status r) (br_start r) (br_end r) |}
    | _, _, _, _, _, _ => None
    end
  | _ => None
  end.

(* fetchPlan: no row = error ("plan not found") *)
Definition fetchPlan (id : uid) (d : db) : option spln :=
  match lookup KPlan id d with
  | Some (RPlan r) =>
    match fieldToCheck (pr_byp r) d, fieldToCheck (pr_pre r) d, fieldToCheck (pr_cont r) d,
          fieldToCheck (pr_post r) d, fieldToCheck (pr_def r) d,
          mapM (fun id => fetchBlockByID id d) (pr_blocks r) with
    | Some byp, Some pre, Some cont, Some post, Some def, Some blocks =>
      Some {| sp_id := pr_id r; sp_group := pr_group r; sp_name := pr_name r; sp_descr := pr_descr r;
              sp_meta := pr_meta r;
              sp_byp := byp; sp_pre := pre; sp_cont := cont; sp_post := post; sp_def := def;
              sp_blocks := blocks;
              sp_st := load_state (pr_status r) (pr_start r) (pr_end r);
              sp_submit := load_time (pr_submit r); sp_reason := pr_reason r |}
    | _, _, _, _, _, _ => None
    end
  | _ => None
  end.

(* reader.Read *)
Definition read (id : uid) (d : db) : option spln := fetchPlan id d.

(* ================= updater_*.go: UPDATE ... WHERE id = $id ================= *)
Definition upd_plan_row (id : uid) (rs : reason) (st : state) (r : row) : row :=
  match r with
  | RPlan x =>
    if uid_eqb (pr_id x) id then
      RPlan {| pr_id := pr_id x; pr_group := pr_group x; pr_name := pr_name x; pr_descr := pr_descr x;
               pr_meta := pr_meta x; pr_byp := pr_byp x; pr_pre := pr_pre x; pr_post := pr_post x;
               pr_cont := pr_cont x; pr_def := pr_def x; pr_blocks := pr_blocks x;
               pr_status := s_status st; pr_start := store_time (s_start st); pr_end := store_time (s_end st);
               pr_submit := pr_submit x; pr_reason := rs |}
    else r
  | _ => r
  end.

Definition upd_block_row (id : uid) (st : state) (r : row) : row :=
  match r with
  | RBlock x =>
    if uid_eqb (br_id x) id then
      RBlock {| br_id := br_id x; br_key := br_key x; br_plan := br_plan x; br_name := br_name x;
                br_descr := br_descr x; br_pos := br_pos x; br_entr := br_entr x; br_exit := br_exit x;
                br_byp := br_byp x; br_pre := br_pre x; br_post := br_post x; br_cont := br_cont x;
                br_def := br_def x; br_seqs := br_seqs x; br_conc := br_conc x; br_tol := br_tol x;
                br_status := s_status st; br_start := store_time (s_start st); br_end := store_time (s_end st) |}
    else r
  | _ => r
  end.

Definition upd_checks_row (id : uid) (st : state) (r : row) : row :=
  match r with
  | RChecks x =>
    if uid_eqb (cr_id x) id then
      RChecks {| cr_id := cr_id x; cr_key := cr_key x; cr_plan := cr_plan x; cr_actions := cr_actions x;
                 cr_delay := cr_delay x;
                 cr_status := s_status st; cr_start := store_time (s_start st); cr_end := store_time (s_end st) |}
    else r
  | _ => r
  end.

Definition upd_seq_row (id : uid) (st : state) (r : row) : row :=
  match r with
  | RSeq x =>
    if uid_eqb (sr_id x) id then
      RSeq {| sr_id := sr_id x; sr_key := sr_key x; sr_plan := sr_plan x; sr_name := sr_name x;
              sr_descr := sr_descr x; sr_pos := sr_pos x; sr_actions := sr_actions x;
              sr_status := s_status st; sr_start := store_time (s_start st); sr_end := store_time (s_end st) |}
    else r
  | _ => r
  end.

Definition upd_action_row (id : uid) (st : state) (ats : list code) (r : row) : row :=
  match r with
  | RAction x =>
    if uid_eqb (ar_id x) id then
      RAction {| ar_id := ar_id x; ar_key := ar_key x; ar_plan := ar_plan x; ar_name := ar_name x;
                 ar_descr := ar_descr x; ar_pos := ar_pos x; ar_plugin := ar_plugin x;
                 ar_timeout := ar_timeout x; ar_retries := ar_retries x; ar_req := ar_req x;
                 ar_atts := ats;
                 ar_status := s_status st; ar_start := store_time (s_start st); ar_end := store_time (s_end st) |}
    else r
  | _ => r
  end.

Definition updatePlan (id : uid) (rs : reason) (st : state) : M := fun d => (map (upd_plan_row id rs st) d, true).
Definition updateBlock (id : uid) (st : state) : M := fun d => (map (upd_block_row id st) d, true).
Definition updateChecks (id : uid) (st : state) : M := fun d => (map (upd_checks_row id st) d, true).
Definition updateSequence (id : uid) (st : state) : M := fun d => (map (upd_seq_row id st) d, true).
(* UpdateAction: encodeAttempts first; on error nothing is executed *)
Definition updateAction (id : uid) (st : state) (atts : list attempt) : M :=
  fun d => match enc_atts atts with
           | None => (d, false)
           | Some ats => (map (upd_action_row id st ats) d, true)
           end.

(* ================= deleter.go ================= *)
Fixpoint deleteActions (l : list sact) : M :=
  match l with [] => ret | a :: r => bind (delete_row KAction (sa_id a)) (deleteActions r) end.

Definition deleteChecks (c : option schk) : M :=
  match c with
  | None => ret
  | Some c => bind (deleteActions (sc_acts c)) (delete_row KChecks (sc_id c))
  end.

Fixpoint deleteSeqActions (l : list sseq) : M :=
  match l with [] => ret | s :: r => bind (deleteActions (sq_acts s)) (deleteSeqActions r) end.
Fixpoint deleteSeqRows (l : list sseq) : M :=
  match l with [] => ret | s :: r => bind (delete_row KSeq (sq_id s)) (deleteSeqRows r) end.
Definition deletesSeqs (l : list sseq) : M := bind (deleteSeqActions l) (deleteSeqRows l).

Definition deleteBlockParts (b : sblk) : M :=
  bind (deleteChecks (sb_byp b))
 (bind (deleteChecks (sb_pre b))
 (bind (deleteChecks (sb_post b))
 (bind (deleteChecks (sb_cont b))
 (bind (deleteChecks (sb_def b))
       (deletesSeqs (sb_seqs b)))))).
Fixpoint deleteBlocksParts (l : list sblk) : M :=
  match l with [] => ret | b :: r => bind (deleteBlockParts b) (deleteBlocksParts r) end.
Fixpoint deleteBlockRows (l : list sblk) : M :=
  match l with [] => ret | b :: r => bind (delete_row KBlock (sb_id b)) (deleteBlockRows r) end.
Definition deleteBlocks (l : list sblk) : M := bind (deleteBlocksParts l) (deleteBlockRows l).

Definition deletePlan (p : spln) : M :=
  bind (deleteChecks (sp_byp p))
 (bind (deleteChecks (sp_pre p))
 (bind (deleteChecks (sp_post p))
 (bind (deleteChecks (sp_cont p))
 (bind (deleteChecks (sp_def p))
 (bind (deleteBlocks (sp_blocks p))
       (delete_row KPlan (sp_id p))))))).

(* deleter.Delete: read the plan (error if absent), then delete its objects in one transaction *)
Definition delete (id : uid) : M :=
  fun d => match read id d with
           | None => (d, false)
           | Some p => txn (deletePlan p) d
           end.

(* Create / Delete when the COMMIT may fail (txn_f): the error of the commit is the result of the call *)
Definition create_f (commit_fails : bool) (p : spln) : M :=
  fun d => if uid_nil (sp_id p) then (d, false)
           else if exists_plan (sp_id p) d then (d, false)
           else txn_f commit_fails (commitPlan_body p) d.
Definition delete_f (commit_fails : bool) (id : uid) : M :=
  fun d => match read id d with
           | None => (d, false)
           | Some p => txn_f commit_fails (deletePlan p) d
           end.

(* ================= operations and runs ================= *)
Definition step (o : op) : M :=
  match o with
  | OCreate p => create p
  | OUpdatePlan id rs st _ => updatePlan id rs st
  | OUpdateBlock _ id st => updateBlock id st
  | OUpdateChecks _ id st => updateChecks id st
  | OUpdateSequence _ id st => updateSequence id st
  | OUpdateAction _ id st atts => updateAction id st atts
  | ODelete id => delete id
  end.

Fixpoint run (ops : list op) (d : db) : db :=
  match ops with [] => d | o :: r => run r (fst (step o d)) end.

(* the result class (true = nil error) of every operation of a run *)
Fixpoint results (ops : list op) (d : db) : list bool :=
  match ops with [] => [] | o :: r => snd (step o d) :: results r (fst (step o d)) end.

End Sqlite.
