(* Store group: the readers of the sqlite model rebuild a plan from its rows (fetch_commit). *)
From Coq Require Import List Arith Lia Permutation Sorted Bool ZArith.
From Coercion.Base Require Import Plan.
From Coercion.Store Require Import Tree Rows Spec SqliteModel SqliteRep ListAux SqliteProofs.
Import ListNotations.

(* ---------- time columns ---------- *)
Lemma load_store_time z : (0 <= z)%Z -> load_time (store_time z) = z.
Proof.
  intros H. unfold store_time, load_time.
  destruct (Z.eqb_spec z 0) as [->|Hz]; [reflexivity|].
  destruct (Z.eqb_spec z 0); [contradiction|]. destruct (Z.ltb_spec z 0); [lia | reflexivity].
Qed.
Lemma load_store_submit z : (0 <= z)%Z -> load_time (store_submit z) = z.
Proof.
  intros H. unfold store_submit, load_time.
  destruct (Z.leb_spec z 0); [assert (z = 0%Z) as -> by lia; reflexivity|].
  destruct (Z.eqb_spec z 0); [lia|]. destruct (Z.ltb_spec z 0); [lia | reflexivity].
Qed.
Lemma load_state_store s : st_dom s -> load_state (s_status s) (store_time (s_start s)) (store_time (s_end s)) = s.
Proof. destruct s as [st a b]. intros [H1 H2]. unfold load_state; simpl in *. now rewrite !load_store_time. Qed.

(* ---------- SELECT by primary key ---------- *)
Lemma lookup_in d r : NoDup (map key d) -> In r d -> lookup (row_kind r) (row_id r) d = Some r.
Proof.
  intros Hn Hr. unfold lookup.
  apply (find_some_unique key (fun x => kind_eqb (row_kind x) (row_kind r) && uid_eqb (row_id x) (row_id r))); auto.
  - apply (keyb_key r r). reflexivity.
  - intros y _ Hy. now apply (keyb_key r y).
Qed.

Lemma lookup_in' d r k id : NoDup (map key d) -> In r d -> row_kind r = k -> row_id r = id -> lookup k id d = Some r.
Proof. intros Hn Hr <- <-. now apply lookup_in. Qed.

Lemma lookup_some k id d r : lookup k id d = Some r -> In r d /\ row_kind r = k /\ row_id r = id.
Proof.
  unfold lookup. intros H. apply find_some in H as [H1 H2].
  apply andb_true_iff in H2 as [H2 H3]. apply kind_eqb_eq in H2. apply uid_eqb_eq in H3. auto.
Qed.

Lemma lookup_none k id d : lookup k id d = None <-> (forall r, In r d -> key r <> (k, id)).
Proof.
  unfold lookup. rewrite find_none_iff. split; intros H r Hr.
  - intros E. specialize (H r Hr). apply keyb_true in E. unfold keyb in E. congruence.
  - specialize (H r Hr). destruct (kind_eqb (row_kind r) k && uid_eqb (row_id r) id) eqn:E; [|reflexivity].
    exfalso. apply H. now apply keyb_true.
Qed.

(* ---------- ORDER BY pos ---------- *)
Lemma sort_pos_sort_key l : sort_pos l = sort_key ar_pos l.
Proof.
  induction l as [|a l IH]; simpl; [reflexivity|]. rewrite IH. generalize (sort_key ar_pos l). intros s.
  induction s as [|b s IHs]; simpl; [reflexivity|]. now rewrite IHs.
Qed.

(* ---------- WHERE id IN ids ---------- *)
Lemma select_In x ids d : In x (select_actions ids d) <-> In (RAction x) d /\ memb (ar_id x) ids = true.
Proof.
  induction d as [|r d IH]; simpl; [tauto|].
  destruct r as [r|r|r|r|a]; try (rewrite IH; split; [intros [H1 H2]; auto | intros [[H|H] H2]; [discriminate | auto]]).
  destruct (memb (ar_id a) ids) eqn:E; simpl; rewrite IH; split.
  - intros [->|[H1 H2]]; auto.
  - intros [[H|H] H2]; [injection H as ->; auto | auto].
  - intros [H1 H2]; auto.
  - intros [[H|H] H2]; [injection H as ->; congruence | auto].
Qed.

Lemma select_NoDup ids d : NoDup (map key d) -> NoDup (map ar_id (select_actions ids d)).
Proof.
  induction d as [|r d IH]; simpl; intros Hn; [constructor|].
  inversion Hn as [|? ? Hk Hd]; subst.
  destruct r as [r|r|r|r|a]; auto.
  destruct (memb (ar_id a) ids); auto. simpl. constructor; auto.
  intros Hin. apply in_map_iff in Hin as (x & Hx & Hs). apply select_In in Hs as [Hs _].
  apply Hk. apply in_map_iff. exists (RAction x). split; [unfold key; simpl; now rewrite Hx | exact Hs].
Qed.

Section Fetch.
Variable enc_req : blob -> option code.
Variable dec_req : tok -> code -> option blob.
Variable enc_att : attempt -> option code.
Variable dec_att : tok -> code -> option attempt.
Variable req_ok : tok -> blob -> bool.
Variable att_ok : tok -> attempt -> bool.
Hypothesis dec_enc_req : forall t b c, req_ok t b = true -> enc_req b = Some c -> dec_req t c = Some b.
Hypothesis dec_enc_att : forall t a c, att_ok t a = true -> enc_att a = Some c -> dec_att t c = Some a.

Notation arow := (arow enc_req enc_att).
Notation arows := (arows enc_req enc_att).
Notation rows_actions := (rows_actions enc_req enc_att).
Notation rows_checks := (rows_checks enc_req enc_att).
Notation rows_seq := (rows_seq enc_req enc_att).
Notation rows_seqs := (rows_seqs enc_req enc_att).
Notation rows_block := (rows_block enc_req enc_att).
Notation rows_blocks := (rows_blocks enc_req enc_att).
Notation rows_plan := (rows_plan enc_req enc_att).
Notation act_encodes := (act_encodes enc_req enc_att).
Notation acts_encode := (acts_encode enc_req enc_att).
Notation ochk_encodes := (ochk_encodes enc_req enc_att).
Notation seqs_encode := (seqs_encode enc_req enc_att).
Notation blk_encodes := (blk_encodes enc_req enc_att).
Notation blks_encode := (blks_encode enc_req enc_att).
Notation pln_encodes := (pln_encodes enc_req enc_att).
Notation act_dom := (act_dom req_ok att_ok).
Notation chk_dom := (chk_dom req_ok att_ok).
Notation ochk_dom := (ochk_dom req_ok att_ok).
Notation seq_dom := (seq_dom req_ok att_ok).
Notation blk_dom := (blk_dom req_ok att_ok).
Notation pln_dom := (pln_dom req_ok att_ok).
Notation actionRowToAction := (actionRowToAction dec_req dec_att).
Notation fetchActionsByIDs := (fetchActionsByIDs dec_req dec_att).
Notation fetchChecksByID := (fetchChecksByID dec_req dec_att).
Notation fieldToCheck := (fieldToCheck dec_req dec_att).
Notation fetchSequenceByID := (fetchSequenceByID dec_req dec_att).
Notation fetchBlockByID := (fetchBlockByID dec_req dec_att).
Notation fetchPlan := (fetchPlan dec_req dec_att).

(* ---------- decoding what was encoded ---------- *)
Lemma dec_enc_atts t l :
  Forall (fun x => att_ok t x = true) l -> atts_encode enc_att l = true ->
  dec_atts dec_att t (enc_atts_d enc_att l) = Some l.
Proof.
  unfold enc_atts_d, SqliteModel.enc_atts, dec_atts, Spec.atts_encode.
  induction l as [|a l IH]; intros Hf He; [reflexivity|].
  inversion Hf as [|? ? Ha Hl]; subst. simpl in *.
  destruct (enc_att a) eqn:E; [|discriminate]. simpl in He.
  specialize (IH Hl He). destruct (mapM enc_att l) eqn:El.
  - simpl. rewrite (dec_enc_att _ _ _ Ha E), IH. reflexivity.
  - exfalso. clear IH. revert He El. clear. induction l as [|b l IH]; simpl; [discriminate|].
    destruct (enc_att b); simpl; [|discriminate]. destruct (mapM enc_att l); [discriminate|]. intros H _. now apply IH.
Qed.

Lemma row_to_action pid pos a : act_dom a -> act_encodes a = true -> actionRowToAction (arow pid pos a) = Some a.
Proof.
  intros (Hr & Ha & Hs) He. unfold Spec.act_encodes in He. apply andb_true_iff in He as [He1 He2].
  unfold SqliteModel.actionRowToAction, SqliteRep.arow, action_row_of, enc_req_d; simpl.
  destruct (enc_req (sa_req a)) eqn:E; [|discriminate].
  rewrite (dec_enc_req _ _ _ Hr E), (dec_enc_atts _ _ Ha He2), (load_state_store _ Hs). now destruct a.
Qed.

Lemma rows_to_actions pid l : forall pos,
  Forall act_dom l -> acts_encode l = true -> mapM actionRowToAction (arows pid pos l) = Some l.
Proof.
  induction l as [|a l IH]; intros pos Hd He; [reflexivity|].
  inversion Hd; subst. simpl in He. apply andb_true_iff in He as [He1 He2].
  simpl. now rewrite row_to_action, IH.
Qed.

(* ---------- the rows of an action list ---------- *)
Lemma arows_ids pid l : forall pos, map ar_id (arows pid pos l) = map sa_id l.
Proof. induction l as [|a l IH]; intros pos; simpl; [reflexivity | now rewrite IH]. Qed.

Lemma arows_keys pid l pos : map key (rows_actions pid pos l) = map (fun a => (KAction, sa_id a)) l.
Proof.
  unfold SqliteRep.rows_actions. revert pos. induction l as [|a l IH]; intros pos; simpl; [reflexivity | now rewrite IH].
Qed.

Lemma arows_pos_ge pid l : forall pos x, In x (arows pid pos l) -> pos <= ar_pos x.
Proof.
  induction l as [|a l IH]; intros pos x; simpl; [intros []|].
  intros [<-|H]; [simpl; lia | apply IH in H; lia].
Qed.

Lemma arows_sorted pid l : forall pos, StronglySorted (klt ar_pos) (arows pid pos l).
Proof.
  induction l as [|a l IH]; intros pos; simpl; constructor; [apply IH|].
  apply Forall_forall. intros x Hx. apply arows_pos_ge in Hx. unfold klt; simpl. lia.
Qed.

Lemma NoDup_pair_snd {A B} (k : A) (f : B -> uid) (l : list B) :
  NoDup (map (fun a => (k, f a)) l) -> NoDup (map f l).
Proof.
  induction l as [|a l IH]; simpl; intros H; [constructor|].
  inversion H as [|? ? Hn Hd]; subst. constructor; [|auto].
  intros Hin. apply Hn. apply in_map_iff in Hin as (b & Hb & Hin). apply in_map_iff. exists b. now rewrite Hb.
Qed.

Lemma fetch_actions pid l d :
  NoDup (map key d) -> incl (rows_actions pid 0 l) d -> NoDup (map key (rows_actions pid 0 l)) ->
  Forall act_dom l -> acts_encode l = true ->
  fetchActionsByIDs (map sa_id l) d = Some l.
Proof.
  intros Hn Hi Hk Hd He.
  assert (Hsel : sort_pos (select_actions (map sa_id l) d) = arows pid 0 l).
  { rewrite sort_pos_sort_key. apply sort_key_perm_sorted; [|apply arows_sorted].
    rewrite arows_keys in Hk. apply NoDup_pair_snd in Hk.
    apply NoDup_Permutation.
    - eapply NoDup_map_inv'. apply select_NoDup. exact Hn.
    - eapply NoDup_map_inv'. rewrite arows_ids. exact Hk.
    - intros x. rewrite select_In. split.
      + intros [Hx Hm]. apply memb_In in Hm. rewrite <- (arows_ids pid l 0) in Hm.
        apply in_map_iff in Hm as (y & Hy & Hyin).
        assert (Hyd : In (RAction y) d) by (apply Hi; unfold SqliteRep.rows_actions; now apply in_map).
        assert (RAction x = RAction y) as E.
        { apply (NoDup_map_inj key d); auto. unfold key; simpl. now rewrite Hy. }
        injection E as ->. exact Hyin.
      + intros Hx. split; [apply Hi; unfold SqliteRep.rows_actions; now apply in_map|].
        apply memb_In. rewrite <- (arows_ids pid l 0). now apply in_map. }
  unfold SqliteModel.fetchActionsByIDs. destruct l as [|a0 l0]; [reflexivity|].
  change (map sa_id (a0 :: l0)) with (sa_id a0 :: map sa_id l0) in *. cbv iota.
  rewrite Hsel. now apply rows_to_actions.
Qed.

(* ---------- splitting facts about the rows of a plan ---------- *)
Lemma NoDup_key_app (a b : list row) : NoDup (map key (a ++ b)) -> NoDup (map key a) /\ NoDup (map key b).
Proof. rewrite map_app. intros H. apply NoDup_app_inv in H as (H1 & H2 & _). auto. Qed.
Lemma NoDup_key_cons (r : row) (b : list row) : NoDup (map key (r :: b)) -> NoDup (map key b).
Proof. simpl. intros H. now inversion H. Qed.
Lemma incl_cons_inv' {A} (x : A) l m : incl (x :: l) m -> In x m /\ incl l m.
Proof. intros H. split; [apply H; now left | intros y Hy; apply H; now right]. Qed.
Lemma incl_app_inv' {A} (l1 l2 m : list A) : incl (l1 ++ l2) m -> incl l1 m /\ incl l2 m.
Proof. intros H. split; intros y Hy; apply H; apply in_or_app; auto. Qed.

Ltac split_rows :=
  repeat match goal with
         | H : incl (_ ++ _) _ |- _ => apply incl_app_inv' in H as [? H]
         | H : incl (_ :: _) _ |- _ => apply incl_cons_inv' in H as [? H]
         | H : NoDup (map key (_ ++ _)) |- _ => apply NoDup_key_app in H as [? H]
         | H : NoDup (map key (_ :: _)) |- _ => apply NoDup_key_cons in H
         end.

(* ---------- check groups ---------- *)
Lemma fetch_checks pid c d :
  NoDup (map key d) -> incl (rows_checks pid (Some c)) d -> NoDup (map key (rows_checks pid (Some c))) ->
  chk_dom c -> acts_encode (sc_acts c) = true ->
  fetchChecksByID (sc_id c) d = Some c.
Proof.
  unfold SqliteRep.rows_checks. intros Hn Hi Hk [Hs Ha] He. split_rows.
  unfold SqliteModel.fetchChecksByID.
  rewrite (lookup_in' d (RChecks (checks_row_of pid c)) KChecks (sc_id c) Hn H eq_refl eq_refl). cbn [cr_id cr_key cr_plan cr_actions cr_delay cr_status cr_start cr_end checks_row_of].
  rewrite (fetch_actions pid (sc_acts c) d Hn Hi Hk Ha He), (load_state_store _ Hs). now destruct c.
Qed.

Lemma field_to_check pid o d :
  NoDup (map key d) -> incl (rows_checks pid o) d -> NoDup (map key (rows_checks pid o)) ->
  ochk_dom o -> ochk_encodes o = true ->
  fieldToCheck (ochk_id o) d = Some o.
Proof.
  destruct o as [c|]; [|reflexivity]. intros Hn Hi Hk Hd He. simpl.
  now rewrite (fetch_checks pid c d Hn Hi Hk Hd He).
Qed.

(* ---------- sequences ---------- *)
Lemma fetch_seq pid pos s d :
  NoDup (map key d) -> incl (rows_seq pid pos s) d -> NoDup (map key (rows_seq pid pos s)) ->
  seq_dom s -> acts_encode (sq_acts s) = true ->
  fetchSequenceByID (sq_id s) d = Some s.
Proof.
  unfold SqliteRep.rows_seq. intros Hn Hi Hk [Hs Ha] He. split_rows.
  unfold SqliteModel.fetchSequenceByID.
  rewrite (lookup_in' d (RSeq (seq_row_of pid pos s)) KSeq (sq_id s) Hn H eq_refl eq_refl). cbn [sr_id sr_key sr_plan sr_name sr_descr sr_pos sr_actions sr_status sr_start sr_end seq_row_of].
  rewrite (fetch_actions pid (sq_acts s) d Hn Hi Hk Ha He), (load_state_store _ Hs). now destruct s.
Qed.

Lemma fetch_seqs pid d l : forall pos,
  NoDup (map key d) -> incl (rows_seqs pid pos l) d -> NoDup (map key (rows_seqs pid pos l)) ->
  Forall seq_dom l -> seqs_encode l = true ->
  mapM (fun id => fetchSequenceByID id d) (map sq_id l) = Some l.
Proof.
  induction l as [|s l IH]; intros pos Hn Hi Hk Hd He; [reflexivity|].
  cbn [SqliteRep.rows_seqs SqliteProofs.seqs_encode forallb] in *. inversion Hd; subst.
  apply andb_true_iff in He as [He1 He2]. split_rows. simpl.
  rewrite (fetch_seq pid pos s d Hn H H0 H1 He1), (IH (S pos) Hn Hi Hk H2 He2). reflexivity.
Qed.

(* ---------- blocks ---------- *)
Lemma fetch_block pid pos b d :
  NoDup (map key d) -> incl (rows_block pid pos b) d -> NoDup (map key (rows_block pid pos b)) ->
  blk_dom b -> blk_encodes b = true ->
  fetchBlockByID (sb_id b) d = Some b.
Proof.
  unfold SqliteRep.rows_block, SqliteProofs.blk_encodes.
  intros Hn Hi Hk (Hs & D1 & D2 & D3 & D4 & D5 & D6) He.
  repeat (apply andb_true_iff in He as [He ?]). split_rows.
  unfold SqliteModel.fetchBlockByID.
  match goal with Hin : In (RBlock _) d |- _ => rewrite (lookup_in' d _ KBlock (sb_id b) Hn Hin eq_refl eq_refl) end. cbn [br_id br_key br_plan br_name br_descr br_pos br_entr br_exit br_byp br_pre br_cont br_post br_def br_seqs br_conc br_tol br_status br_start br_end block_row_of].
  rewrite (field_to_check pid (sb_byp b) d), (field_to_check pid (sb_pre b) d), (field_to_check pid (sb_cont b) d),
          (field_to_check pid (sb_post b) d), (field_to_check pid (sb_def b) d); auto.
  rewrite (fetch_seqs pid d (sb_seqs b) 0); auto.
  rewrite (load_state_store _ Hs). now destruct b.
Qed.

Lemma fetch_blocks pid d l : forall pos,
  NoDup (map key d) -> incl (rows_blocks pid pos l) d -> NoDup (map key (rows_blocks pid pos l)) ->
  Forall blk_dom l -> blks_encode l = true ->
  mapM (fun id => fetchBlockByID id d) (map sb_id l) = Some l.
Proof.
  induction l as [|b l IH]; intros pos Hn Hi Hk Hd He; [reflexivity|].
  cbn [SqliteRep.rows_blocks SqliteProofs.blks_encode forallb] in *. inversion Hd; subst.
  apply andb_true_iff in He as [He1 He2]. split_rows. simpl.
  rewrite (fetch_block pid pos b d Hn H H0 H1 He1), (IH (S pos) Hn Hi Hk H2 He2). reflexivity.
Qed.

(* ---------- fetch_commit: reading back the rows of a plan gives the plan ---------- *)
Lemma fetch_rows p d :
  NoDup (map key d) -> incl (rows_plan p) d -> NoDup (map key (rows_plan p)) ->
  pln_dom p -> pln_encodes p = true ->
  fetchPlan (sp_id p) d = Some p.
Proof.
  rewrite pln_encodes_eq. unfold SqliteRep.rows_plan, SqliteProofs.pln_encodes'.
  intros Hn Hi Hk (Hs & Hsub & D1 & D2 & D3 & D4 & D5 & D6) He.
  repeat (apply andb_true_iff in He as [He ?]). split_rows.
  unfold SqliteModel.fetchPlan.
  match goal with Hin : In (RPlan _) d |- _ => rewrite (lookup_in' d _ KPlan (sp_id p) Hn Hin eq_refl eq_refl) end. cbn [pr_id pr_group pr_name pr_descr pr_meta pr_byp pr_pre pr_cont pr_post pr_def pr_blocks pr_status pr_start pr_end pr_submit pr_reason plan_row_of].
  rewrite (field_to_check (sp_id p) (sp_byp p) d), (field_to_check (sp_id p) (sp_pre p) d),
          (field_to_check (sp_id p) (sp_cont p) d), (field_to_check (sp_id p) (sp_post p) d),
          (field_to_check (sp_id p) (sp_def p) d); auto.
  rewrite (fetch_blocks (sp_id p) d (sp_blocks p) 0); auto.
  rewrite (load_state_store _ Hs), (load_store_submit _ Hsub). now destruct p.
Qed.

End Fetch.
