(* Store group: model of workflow/storage/cosmosdb (creator.go, creator_plan.go, reader_*.go,
   updater_*.go, deleter.go). Transcription, no proofs.

   The container: items of the plan partitions (an item = one of the five entry types of schema.go =
   a [row]; its partition key is its planID, [row_plan]) plus the ids of the entries of the separate
   search partition ("planSearch"; its content belongs to C15).

   Trusted semantics of the Cosmos service, stated here:
   - ReadItem(partition, id) finds the item with that partition key and id, or answers 404;
   - a transactional batch (one partition) is atomic: CreateItem of an id present in the partition,
     ReplaceItem / DeleteItem / PatchItem of an absent one make it fail, and then nothing is changed;
   - the query `type = action AND ARRAY_CONTAINS(@ids, id) ORDER BY pos ASC` is answered in that order;
   - instants, ints and uuids survive JSON exactly (time.Time as RFC 3339 with nanoseconds).
   Two batches (plan partition, search partition) are NOT atomic together: every operation that uses
   both is written as two steps, with the re-read between them, and the ways it can stop in between
   are exposed ([create_stage], [delete_stage]). *)
From Coercion.Base Require Import Plan.
From Coercion.Store Require Import Tree Rows SqliteModel.

Definition cdb := (db * list uid)%type.
Definition CM := cdb -> cdb * bool.

(* ReadItem(key(pid), id) *)
Definition readItem (pid id : uid) (d : db) : option row :=
  find (fun r => uid_eqb (row_plan r) pid && uid_eqb (row_id r) id) d.

(* one CreateItem of a batch on partition [row_plan r] *)
Definition createItem (r : row) : M :=
  fun d => match readItem (row_plan r) (row_id r) d with
           | Some _ => (d, false)
           | None => (d ++ [r], true)
           end.

Fixpoint createItems (l : list row) : M :=
  match l with [] => ret | r :: l' => bind (createItem r) (createItems l') end.

(* one DeleteItem of a batch on partition pid *)
Definition deleteItem (pid id : uid) : M :=
  fun d => match readItem pid id d with
           | None => (d, false)
           | Some _ => (filter (fun r => negb (uid_eqb (row_plan r) pid && uid_eqb (row_id r) id)) d, true)
           end.

(* the action query of one partition (before ordering) *)
Fixpoint query_actions (pid : uid) (ids : list uid) (d : db) : list action_row :=
  match d with
  | [] => []
  | RAction a :: r =>
    if uid_eqb (ar_plan a) pid && memb (ar_id a) ids then a :: query_actions pid ids r else query_actions pid ids r
  | _ :: r => query_actions pid ids r
  end.

Section Cosmos.
Variable enc_req : blob -> option code.
Variable dec_req : tok -> code -> option blob.
Variable enc_att : attempt -> option code.
Variable dec_att : tok -> code -> option attempt.

(* ================= creator_plan.go: planToItems ================= *)
(* objsToIDs: a nil id is an error *)
Definition objsToIDs (ids : list uid) : option (list uid) :=
  if existsb uid_nil ids then None else Some ids.

(* the entries of schema.go (times are stored as they are: RFC 3339 is exact) *)
Definition actionsEntry (planID : uid) (pos : nat) (a : sact) (rq : code) (ats : list code) : action_row :=
  {| ar_id := sa_id a; ar_key := sa_key a; ar_plan := planID; ar_name := sa_name a;
     ar_descr := sa_descr a; ar_pos := pos; ar_plugin := sa_plugin a;
     ar_timeout := sa_timeout a; ar_retries := sa_retries a; ar_req := rq; ar_atts := ats;
     ar_status := s_status (sa_st a); ar_start := s_start (sa_st a); ar_end := s_end (sa_st a) |}.

Definition checksEntry (planID : uid) (c : schk) (ids : list uid) : checks_row :=
  {| cr_id := sc_id c; cr_key := sc_key c; cr_plan := planID; cr_actions := ids;
     cr_delay := sc_delay c; cr_status := s_status (sc_st c);
     cr_start := s_start (sc_st c); cr_end := s_end (sc_st c) |}.

Definition sequencesEntry (planID : uid) (pos : nat) (s : sseq) (ids : list uid) : seq_row :=
  {| sr_id := sq_id s; sr_key := sq_key s; sr_plan := planID; sr_name := sq_name s;
     sr_descr := sq_descr s; sr_pos := pos; sr_actions := ids;
     sr_status := s_status (sq_st s); sr_start := s_start (sq_st s); sr_end := s_end (sq_st s) |}.

Definition blocksEntry (planID : uid) (pos : nat) (b : sblk) (seqs : list uid) : block_row :=
  {| br_id := sb_id b; br_key := sb_key b; br_plan := planID; br_name := sb_name b;
     br_descr := sb_descr b; br_pos := pos; br_entr := sb_entr b; br_exit := sb_exit b;
     br_byp := ochk_id (sb_byp b); br_pre := ochk_id (sb_pre b); br_post := ochk_id (sb_post b);
     br_cont := ochk_id (sb_cont b); br_def := ochk_id (sb_def b);
     br_seqs := seqs; br_conc := sb_conc b; br_tol := sb_tol b;
     br_status := s_status (sb_st b); br_start := s_start (sb_st b); br_end := s_end (sb_st b) |}.

Definition plansEntry (p : spln) (blocks : list uid) : plan_row :=
  {| pr_id := sp_id p; pr_group := sp_group p; pr_name := sp_name p; pr_descr := sp_descr p;
     pr_meta := sp_meta p;
     pr_byp := ochk_id (sp_byp p); pr_pre := ochk_id (sp_pre p); pr_post := ochk_id (sp_post p);
     pr_cont := ochk_id (sp_cont p); pr_def := ochk_id (sp_def p);
     pr_blocks := blocks;
     pr_status := s_status (sp_st p); pr_start := s_start (sp_st p); pr_end := s_end (sp_st p);
     pr_submit := sp_submit p; pr_reason := sp_reason p |}.

Definition actionToEntry (planID : uid) (pos : nat) (a : sact) : option row :=
  match enc_req (sa_req a) with
  | None => None
  | Some rq =>
    match enc_atts enc_att (sa_atts a) with
    | None => None
    | Some ats => Some (RAction (actionsEntry planID pos a rq ats))
    end
  end.

Fixpoint actionsToItems (planID : uid) (pos : nat) (l : list sact) : option (list row) :=
  match l with
  | [] => Some []
  | a :: r =>
    match actionToEntry planID pos a, actionsToItems planID (S pos) r with
    | Some x, Some xs => Some (x :: xs)
    | _, _ => None
    end
  end.

(* checksToItems: the actions' items, then the group's own item *)
Definition checksToItems (planID : uid) (c : option schk) : option (list row) :=
  match c with
  | None => Some []
  | Some c =>
    match objsToIDs (map sa_id (sc_acts c)), actionsToItems planID 0 (sc_acts c) with
    | Some ids, Some items => Some (items ++ [RChecks (checksEntry planID c ids)])
    | _, _ => None
    end
  end.

Definition seqToItems (planID : uid) (pos : nat) (s : sseq) : option (list row) :=
  match objsToIDs (map sa_id (sq_acts s)), actionsToItems planID 0 (sq_acts s) with
  | Some ids, Some items => Some (items ++ [RSeq (sequencesEntry planID pos s ids)])
  | _, _ => None
  end.

Fixpoint seqsToItems (planID : uid) (pos : nat) (l : list sseq) : option (list row) :=
  match l with
  | [] => Some []
  | s :: r =>
    match seqToItems planID pos s, seqsToItems planID (S pos) r with
    | Some x, Some xs => Some (x ++ xs)
    | _, _ => None
    end
  end.

Definition oapp (a b : option (list row)) : option (list row) :=
  match a, b with Some x, Some y => Some (x ++ y) | _, _ => None end.

(* blockToItem: the five groups (bypass, pre, post, cont, deferred), the sequences, then the block's item *)
Definition blockToItem (planID : uid) (pos : nat) (b : sblk) : option (list row) :=
  match objsToIDs (map sq_id (sb_seqs b)) with
  | None => None
  | Some seqs =>
    oapp (checksToItems planID (sb_byp b))
   (oapp (checksToItems planID (sb_pre b))
   (oapp (checksToItems planID (sb_post b))
   (oapp (checksToItems planID (sb_cont b))
   (oapp (checksToItems planID (sb_def b))
   (oapp (seqsToItems planID 0 (sb_seqs b))
         (Some [RBlock (blocksEntry planID pos b seqs)]))))))
  end.

Fixpoint blocksToItems (planID : uid) (pos : nat) (l : list sblk) : option (list row) :=
  match l with
  | [] => Some []
  | b :: r =>
    match blockToItem planID pos b, blocksToItems planID (S pos) r with
    | Some x, Some xs => Some (x ++ xs)
    | _, _ => None
    end
  end.

(* planToItems: groups, blocks, the plan's own item last *)
Definition planToItems (p : spln) : option (list row) :=
  if uid_nil (sp_id p) then None else
  match objsToIDs (map sb_id (sp_blocks p)) with
  | None => None
  | Some blocks =>
    oapp (checksToItems (sp_id p) (sp_byp p))
   (oapp (checksToItems (sp_id p) (sp_pre p))
   (oapp (checksToItems (sp_id p) (sp_post p))
   (oapp (checksToItems (sp_id p) (sp_cont p))
   (oapp (checksToItems (sp_id p) (sp_def p))
   (oapp (blocksToItems (sp_id p) 0 (sp_blocks p))
         (Some [RPlan (plansEntry p blocks)]))))))
  end.

(* ================= reader_*.go ================= *)
Definition raw_state (s : status) (a b : Z) : state := {| s_status := s; s_start := a; s_end := b |}.

(* docToAction *)
Definition docToAction (r : action_row) : option sact :=
  match dec_req (ar_plugin r) (ar_req r) with
  | None => None
  | Some rq =>
    match dec_atts dec_att (ar_plugin r) (ar_atts r) with
    | None => None
    | Some ats =>
      Some {| sa_id := ar_id r; sa_key := ar_key r; sa_name := ar_name r; sa_descr := ar_descr r;
              sa_plugin := ar_plugin r; sa_timeout := ar_timeout r; sa_retries := ar_retries r;
              sa_req := rq; sa_atts := ats; sa_st := raw_state (ar_status r) (ar_start r) (ar_end r) |}
    end
  end.

(* fetchActionsByIDs *)
Definition fetchActionsByIDs (pid : uid) (ids : list uid) (d : db) : option (list sact) :=
  match ids with
  | [] => Some []
  | _ => mapM docToAction (sort_pos (query_actions pid ids d))
  end.

(* fetchChecksByID + docToChecks. An item of another entry type under that id cannot be decoded into
   the expected entry in any useful way; the model answers None (unreachable when ids are distinct). *)
Definition fetchChecksByID (pid id : uid) (d : db) : option schk :=
  match readItem pid id d with
  | Some (RChecks r) =>
    match fetchActionsByIDs pid (cr_actions r) d with
    | None => None
    | Some acts =>
      Some {| sc_id := cr_id r; sc_key := cr_key r; sc_delay := cr_delay r; sc_acts := acts;
              sc_st := raw_state (cr_status r) (cr_start r) (cr_end r) |}
    end
  | _ => None
  end.

(* idToCheck: the entry field is a uuid; uuid.Nil = no group *)
Definition idToCheck (pid : uid) (o : option uid) (d : db) : option (option schk) :=
  match o with
  | None => Some None
  | Some id =>
    if uid_nil id then Some None
    else match fetchChecksByID pid id d with Some c => Some (Some c) | None => None end
  end.

Definition fetchSequenceByID (pid id : uid) (d : db) : option sseq :=
  match readItem pid id d with
  | Some (RSeq r) =>
    match fetchActionsByIDs pid (sr_actions r) d with
    | None => None
    | Some acts =>
      Some {| sq_id := sr_id r; sq_key := sr_key r; sq_name := sr_name r; sq_descr := sr_descr r;
              sq_acts := acts; sq_st := raw_state (sr_status r) (sr_start r) (sr_end r) |}
    end
  | _ => None
  end.

Definition fetchBlockByID (pid id : uid) (d : db) : option sblk :=
  match readItem pid id d with
  | Some (RBlock r) =>
    match idToCheck pid (br_byp r) d, idToCheck pid (br_pre r) d, idToCheck pid (br_cont r) d,
          idToCheck pid (br_post r) d, idToCheck pid (br_def r) d,
          mapM (fun id => fetchSequenceByID pid id d) (br_seqs r) with
    | Some byp, Some pre, Some cont, Some post, Some def, Some seqs =>
      Some {| sb_id := br_id r; sb_key := br_key r; sb_name := br_name r; sb_descr := br_descr r;
              sb_entr := br_entr r; sb_exit := br_exit r;
              sb_byp := byp; sb_pre := pre; sb_cont := cont; sb_post := post; sb_def := def;
              sb_seqs := seqs; sb_conc := br_conc r; sb_tol := br_tol r;
              sb_st := raw_state (br_status r) (br_start r) (br_end r) |}
    | _, _, _, _, _, _ => None
    end
  | _ => None
  end.

(* fetchPlan + docToPlan *)
Definition fetchPlan (id : uid) (d : db) : option spln :=
  match readItem id id d with
  | Some (RPlan r) =>
    match idToCheck id (pr_byp r) d, idToCheck id (pr_pre r) d, idToCheck id (pr_cont r) d,
          idToCheck id (pr_post r) d, idToCheck id (pr_def r) d,
          mapM (fun b => fetchBlockByID id b d) (pr_blocks r) with
    | Some byp, Some pre, Some cont, Some post, Some def, Some blocks =>
      Some {| sp_id := pr_id r; sp_group := pr_group r; sp_name := pr_name r; sp_descr := pr_descr r;
              sp_meta := pr_meta r;
              sp_byp := byp; sp_pre := pre; sp_cont := cont; sp_post := post; sp_def := def;
              sp_blocks := blocks;
              sp_st := raw_state (pr_status r) (pr_start r) (pr_end r);
              sp_submit := pr_submit r; sp_reason := pr_reason r |}
    | _, _, _, _, _, _ => None
    end
  | _ => None
  end.

Definition read (id : uid) (c : cdb) : option spln := fetchPlan id (fst c).

(* reader.Exists: ReadItem(key(id), id) *)
Definition exists_plan (id : uid) (d : db) : bool :=
  match readItem id id d with Some _ => true | None => false end.

(* ================= creator.go / commitPlan ================= *)
(* How far a Create gets. 2 = both batches (no fault); 1 = the search batch fails; 0 = the plan batch fails.
   (0 and 1 are the injected faults of the fake client's createItemErr toggle.) *)
Definition create_stage (stage : nat) (p : spln) : CM :=
  fun c =>
    let (d, s) := c in
    if uid_nil (sp_id p) then (c, false)
    else if exists_plan (sp_id p) d then (c, false)
    else match planToItems p with
         | None => (c, false)
         | Some items =>
           match stage with
           | 0 => (c, false)
           | _ =>
             (* batch 1: the plan partition *)
             let (d1, ok) := txn (createItems items) d in
             if negb ok then (c, false)
             else
               (* re-read (for the ETags) *)
               match fetchPlan (sp_id p) d1 with
               | None => ((d1, s), false)
               | Some _ =>
                 (* batch 2: the search partition *)
                 match stage with
                 | 1 => ((d1, s), false)
                 | _ => if memb (sp_id p) s then ((d1, s), false) else ((d1, s ++ [sp_id p]), true)
                 end
               end
           end
         end.

Definition create : spln -> CM := create_stage 2.

(* planToItems marshals every entry with go-json-experiment, which refuses a Go string that is not valid
   UTF-8: a plan with such a name, description or plugin name is refused before anything is written (the
   sqlite vault binds the same strings as TEXT and stores them byte for byte). [str_ok] says which strings
   the encoder accepts. The theorems are about [create_stage], i.e. about plans whose strings it accepts. *)
Definition create_checked (str_ok : tok -> bool) (stage : nat) (p : spln) : CM :=
  fun c => if forallb str_ok (pln_strs p) then create_stage stage p c else (c, false).

(* Create while ReadItem answers an error that is not a 404 (throttling, an unreachable container):
   the Exists pre-check returns that error and Create returns it at once - it fails closed, before
   planToItems and before any batch. (Fault "stage 3" of the correspondence check: readItemErr.) *)
Definition create_readerr (p : spln) : CM :=
  fun c => if uid_nil (sp_id p) then (c, false) else (c, false).

(* ================= updater_*.go: PatchItem(key(planID), id, ops) ================= *)
Definition patchItem (pid id : uid) (f : row -> row) : M :=
  fun d => match readItem pid id d with
           | None => (d, false)
           | Some _ => (map (fun r => if uid_eqb (row_plan r) pid && uid_eqb (row_id r) id then f r else r) d, true)
           end.

Definition patch_plan (rs : reason) (st : state) (sub : Z) (r : row) : row :=
  match r with
  | RPlan x =>
    RPlan {| pr_id := pr_id x; pr_group := pr_group x; pr_name := pr_name x; pr_descr := pr_descr x;
             pr_meta := pr_meta x; pr_byp := pr_byp x; pr_pre := pr_pre x; pr_post := pr_post x;
             pr_cont := pr_cont x; pr_def := pr_def x; pr_blocks := pr_blocks x;
             pr_status := s_status st; pr_start := s_start st; pr_end := s_end st;
             pr_submit := sub; pr_reason := rs |}
  | _ => r
  end.

(* /stateStatus /stateStart /stateEnd of any entry type; /attempts where given *)
Definition patch_state (st : state) (ats : option (list code)) (r : row) : row :=
  match r with
  | RPlan _ => r
  | RBlock x =>
    RBlock {| br_id := br_id x; br_key := br_key x; br_plan := br_plan x; br_name := br_name x;
              br_descr := br_descr x; br_pos := br_pos x; br_entr := br_entr x; br_exit := br_exit x;
              br_byp := br_byp x; br_pre := br_pre x; br_post := br_post x; br_cont := br_cont x;
              br_def := br_def x; br_seqs := br_seqs x; br_conc := br_conc x; br_tol := br_tol x;
              br_status := s_status st; br_start := s_start st; br_end := s_end st |}
  | RChecks x =>
    RChecks {| cr_id := cr_id x; cr_key := cr_key x; cr_plan := cr_plan x; cr_actions := cr_actions x;
               cr_delay := cr_delay x; cr_status := s_status st; cr_start := s_start st; cr_end := s_end st |}
  | RSeq x =>
    RSeq {| sr_id := sr_id x; sr_key := sr_key x; sr_plan := sr_plan x; sr_name := sr_name x;
            sr_descr := sr_descr x; sr_pos := sr_pos x; sr_actions := sr_actions x;
            sr_status := s_status st; sr_start := s_start st; sr_end := s_end st |}
  | RAction x =>
    RAction {| ar_id := ar_id x; ar_key := ar_key x; ar_plan := ar_plan x; ar_name := ar_name x;
               ar_descr := ar_descr x; ar_pos := ar_pos x; ar_plugin := ar_plugin x;
               ar_timeout := ar_timeout x; ar_retries := ar_retries x; ar_req := ar_req x;
               ar_atts := match ats with Some l => l | None => ar_atts x end;
               ar_status := s_status st; ar_start := s_start st; ar_end := s_end st |}
  end.

Definition lift (m : M) : CM := fun c => let (d1, ok) := m (fst c) in ((d1, snd c), ok).

(* UpdatePlan: patch the plan item, then replaceSearch (a ReplaceItem batch on the search partition).
   stage: 2 = no fault, 1 = the search batch is refused: the error is returned, the plan item is
   already patched (the search entry is stale). *)
Definition updatePlan_stage (stage : nat) (id : uid) (rs : reason) (st : state) (sub : Z) : CM :=
  fun c =>
    let (d1, ok) := patchItem id id (patch_plan rs st sub) (fst c) in
    if negb ok then (c, false)
    else match stage with
         | 1 => ((d1, snd c), false)
         | _ => if memb id (snd c) then ((d1, snd c), true) else ((d1, snd c), false)
         end.

Definition updatePlan : uid -> reason -> state -> Z -> CM := updatePlan_stage 2.

Definition updateObject (pid id : uid) (st : state) : CM := lift (patchItem pid id (patch_state st None)).

Definition updateAction (pid id : uid) (st : state) (atts : list attempt) : CM :=
  fun c => match enc_atts enc_att atts with
           | None => (c, false)
           | Some ats => lift (patchItem pid id (patch_state st (Some ats))) c
           end.

(* ================= deleter.go ================= *)
Fixpoint deleteActions (pid : uid) (l : list sact) : M :=
  match l with [] => ret | a :: r => bind (deleteItem pid (sa_id a)) (deleteActions pid r) end.

Definition deleteChecks (pid : uid) (c : option schk) : M :=
  match c with
  | None => ret
  | Some c => bind (deleteActions pid (sc_acts c)) (deleteItem pid (sc_id c))
  end.

Fixpoint deleteSeqActions (pid : uid) (l : list sseq) : M :=
  match l with [] => ret | s :: r => bind (deleteActions pid (sq_acts s)) (deleteSeqActions pid r) end.
Fixpoint deleteSeqItems (pid : uid) (l : list sseq) : M :=
  match l with [] => ret | s :: r => bind (deleteItem pid (sq_id s)) (deleteSeqItems pid r) end.
Definition deleteSeqs (pid : uid) (l : list sseq) : M := bind (deleteSeqActions pid l) (deleteSeqItems pid l).

Definition deleteBlockParts (pid : uid) (b : sblk) : M :=
  bind (deleteChecks pid (sb_byp b))
 (bind (deleteChecks pid (sb_pre b))
 (bind (deleteChecks pid (sb_post b))
 (bind (deleteChecks pid (sb_cont b))
 (bind (deleteChecks pid (sb_def b))
       (deleteSeqs pid (sb_seqs b)))))).
Fixpoint deleteBlocksParts (pid : uid) (l : list sblk) : M :=
  match l with [] => ret | b :: r => bind (deleteBlockParts pid b) (deleteBlocksParts pid r) end.
Fixpoint deleteBlockItems (pid : uid) (l : list sblk) : M :=
  match l with [] => ret | b :: r => bind (deleteItem pid (sb_id b)) (deleteBlockItems pid r) end.
Definition deleteBlocks (pid : uid) (l : list sblk) : M := bind (deleteBlocksParts pid l) (deleteBlockItems pid l).

Definition deletePlan (p : spln) : M :=
  let pid := sp_id p in
  bind (deleteChecks pid (sp_byp p))
 (bind (deleteChecks pid (sp_pre p))
 (bind (deleteChecks pid (sp_post p))
 (bind (deleteChecks pid (sp_cont p))
 (bind (deleteChecks pid (sp_def p))
 (bind (deleteBlocks pid (sp_blocks p))
       (deleteItem pid pid)))))).

(* Delete: read; batch 1 deletes the items of the plan read; batch 2 deletes the search entry.
   stage: 2 = no fault, 1 = the search batch fails, 0 = the plan batch fails (deleteItemErr). *)
Definition delete_stage (stage : nat) (id : uid) : CM :=
  fun c =>
    let (d, s) := c in
    match fetchPlan id d with
    | None => (c, false)
    | Some p =>
      match stage with
      | 0 => (c, false)
      | _ =>
        let (d1, ok) := txn (deletePlan p) d in
        if negb ok then (c, false)
        else match stage with
             | 1 => ((d1, s), false)
             | _ => if memb id s then ((d1, filter (fun x => negb (uid_eqb x id)) s), true) else ((d1, s), false)
             end
      end
    end.

Definition delete : uid -> CM := delete_stage 2.

(* ================= operations and runs ================= *)
Definition step (o : op) : CM :=
  match o with
  | OCreate p => create p
  | OUpdatePlan id rs st sub => updatePlan id rs st sub
  | OUpdateBlock pid id st => updateObject pid id st
  | OUpdateChecks pid id st => updateObject pid id st
  | OUpdateSequence pid id st => updateObject pid id st
  | OUpdateAction pid id st atts => updateAction pid id st atts
  | ODelete id => delete id
  end.

Fixpoint run (ops : list op) (c : cdb) : cdb :=
  match ops with [] => c | o :: r => run r (fst (step o c)) end.

Fixpoint results (ops : list op) (c : cdb) : list bool :=
  match ops with [] => [] | o :: r => snd (step o c) :: results r (fst (step o c)) end.

End Cosmos.
