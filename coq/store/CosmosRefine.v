(* Store group: the cosmosdb model refines the specification. *)
From Coq Require Import List Arith Lia Permutation Sorted Bool ZArith.
From Coercion.Base Require Import Plan.
From Coercion.Store Require Import Tree Rows Spec SqliteModel SqliteRep CosmosModel CosmosRep ListAux
     SqliteProofs SqliteFetchProofs SqliteRefine CosmosProofs CosmosFetchProofs.
Import ListNotations.

Lemma NoDup_ckey_of_ids (l : list row) : NoDup (map row_id l) -> NoDup (map ckey l).
Proof. apply NoDup_map_weaken. unfold ckey. intros x y E. now injection E. Qed.

Section CRefine.
Variable enc_req : blob -> option code.
Variable dec_req : tok -> code -> option blob.
Variable enc_att : attempt -> option code.
Variable dec_att : tok -> code -> option attempt.
Variable req_ok : tok -> blob -> bool.
Variable att_ok : tok -> attempt -> bool.
Hypothesis dec_enc_req : forall t b c, req_ok t b = true -> enc_req b = Some c -> dec_req t c = Some b.
Hypothesis dec_enc_att : forall t a c, att_ok t a = true -> enc_att a = Some c -> dec_att t c = Some a.

Notation crows_actions := (crows_actions enc_req enc_att).
Notation crows_checks := (crows_checks enc_req enc_att).
Notation crows_seq := (crows_seq enc_req enc_att).
Notation crows_seqs := (crows_seqs enc_req enc_att).
Notation crows_block := (crows_block enc_req enc_att).
Notation crows_blocks := (crows_blocks enc_req enc_att).
Notation crows_plan := (crows_plan enc_req enc_att).
Notation crows_of := (crows_of enc_req enc_att).
Notation crep := (crep enc_req enc_att).
Notation pln_encodes := (pln_encodes enc_req enc_att).
Notation cpln_dom := (cpln_dom req_ok att_ok).
Notation cop_ok := (cop_ok req_ok att_ok).
Notation cz_read := (CosmosModel.read dec_req dec_att).
Notation cz_create := (CosmosModel.create enc_req dec_req enc_att dec_att).
Notation cz_delete := (CosmosModel.delete dec_req dec_att).
Notation cz_fetch := (CosmosModel.fetchPlan dec_req dec_att).
Notation sp_create := (Spec.create enc_req enc_att).

(* ---------- facts about the items of a plan ---------- *)
Lemma cplanid_actions pid l : forall pos r, In r (crows_actions pid pos l) -> row_plan r = pid.
Proof.
  unfold CosmosRep.crows_actions. induction l as [|a l IH]; intros pos r; simpl; [intros []|].
  intros [<-|H]; [reflexivity | eauto].
Qed.
Lemma cplanid_checks pid o r : In r (crows_checks pid o) -> row_plan r = pid.
Proof.
  destruct o as [c|]; unfold CosmosRep.crows_checks; [|intros []]. intros H. apply in_app_or in H as [H|[<-|[]]].
  - exact (cplanid_actions pid _ 0 r H).
  - reflexivity.
Qed.
Lemma cplanid_seqs pid l : forall pos r, In r (crows_seqs pid pos l) -> row_plan r = pid.
Proof.
  induction l as [|s l IH]; intros pos r; cbn [CosmosRep.crows_seqs]; [intros []|].
  intros H. apply in_app_or in H as [H|H]; [|eauto]. unfold CosmosRep.crows_seq in H.
  apply in_app_or in H as [H|[<-|[]]]; [exact (cplanid_actions pid _ 0 r H) | reflexivity].
Qed.
Lemma cplanid_block pid pos b r : In r (crows_block pid pos b) -> row_plan r = pid.
Proof.
  unfold CosmosRep.crows_block. intros H.
  repeat (apply in_app_or in H as [H|H]; [exact (cplanid_checks pid _ r H)|]).
  apply in_app_or in H as [H|[<-|[]]]; [exact (cplanid_seqs pid _ 0 r H) | reflexivity].
Qed.
Lemma cplanid_blocks pid l : forall pos r, In r (crows_blocks pid pos l) -> row_plan r = pid.
Proof.
  induction l as [|b l IH]; intros pos r; cbn [CosmosRep.crows_blocks]; [intros []|].
  intros H. apply in_app_or in H as [H|H]; [exact (cplanid_block pid pos b r H) | eauto].
Qed.
Lemma cplanid_plan p r : In r (crows_plan p) -> row_plan r = sp_id p.
Proof.
  unfold CosmosRep.crows_plan. intros H.
  repeat (apply in_app_or in H as [H|H]; [exact (cplanid_checks (sp_id p) _ r H)|]).
  apply in_app_or in H as [H|[<-|[]]]; [exact (cplanid_blocks (sp_id p) _ 0 r H) | reflexivity].
Qed.
Lemma cplan_head p : In (crow_plan p) (crows_plan p).
Proof. unfold CosmosRep.crows_plan. repeat (apply in_or_app; right). now left. Qed.

(* the id column of the items of a plan is a permutation of the ids of the plan *)
Lemma cids_actions pid l : forall pos, map row_id (crows_actions pid pos l) = map sa_id l.
Proof.
  unfold CosmosRep.crows_actions. induction l as [|a l IH]; intros pos; simpl; [reflexivity | now rewrite IH].
Qed.
Lemma cids_checks pid o : Permutation (map row_id (crows_checks pid o)) (flat_map chk_ids (ochk_list o)).
Proof.
  destruct o as [c|]; unfold CosmosRep.crows_checks; simpl; [|reflexivity].
  rewrite map_app, cids_actions, app_nil_r. simpl. unfold chk_ids. symmetry. apply Permutation_cons_append.
Qed.
Lemma cids_seqs pid l : forall pos, Permutation (map row_id (crows_seqs pid pos l)) (flat_map seq_ids l).
Proof.
  induction l as [|s l IH]; intros pos; cbn [CosmosRep.crows_seqs flat_map]; [reflexivity|].
  rewrite map_app. apply Permutation_app; [|apply IH].
  unfold CosmosRep.crows_seq, seq_ids. rewrite map_app, cids_actions. simpl. symmetry. apply Permutation_cons_append.
Qed.
Lemma cids_block pid pos b : Permutation (map row_id (crows_block pid pos b)) (blk_ids b).
Proof.
  unfold CosmosRep.crows_block, blk_ids, blk_groups. rewrite !map_app, !flat_map_app'. simpl.
  rewrite <- !app_assoc.
  repeat (apply Permutation_app; [apply cids_checks|]).
  rewrite (cids_seqs pid (sb_seqs b) 0). symmetry. apply Permutation_cons_append.
Qed.
Lemma cids_blocks pid l : forall pos, Permutation (map row_id (crows_blocks pid pos l)) (flat_map blk_ids l).
Proof.
  induction l as [|b l IH]; intros pos; cbn [CosmosRep.crows_blocks flat_map]; [reflexivity|].
  rewrite map_app. apply Permutation_app; [apply cids_block | apply IH].
Qed.
Lemma cids_plan p : Permutation (map row_id (crows_plan p)) (pln_ids p).
Proof.
  unfold CosmosRep.crows_plan, pln_ids, pln_groups. rewrite !map_app, !flat_map_app'. simpl.
  rewrite !app_assoc. etransitivity; [|symmetry; apply Permutation_cons_append].
  apply Permutation_app; [|reflexivity]. rewrite <- !app_assoc.
  repeat (apply Permutation_app; [apply cids_checks|]). apply cids_blocks.
Qed.

Lemma crows_of_in r s : In r (crows_of s) <-> exists p, In p s /\ In r (crows_plan p).
Proof. unfold CosmosRep.crows_of. apply in_flat_map. Qed.
Lemma crows_of_app s1 s2 : crows_of (s1 ++ s2) = crows_of s1 ++ crows_of s2.
Proof. apply flat_map_app'. Qed.

(* ---------- the invariant ---------- *)
Definition cgood (p : spln) : Prop := cpln_dom p /\ pln_encodes p = true /\ Forall nn (pln_ids p).
(* every id of every stored object is used once in the whole container *)
Definition CInv (s : store) : Prop := NoDup (map row_id (crows_of s)) /\ Forall cgood s.

Lemma CInv_nil : CInv []. Proof. split; constructor. Qed.

Lemma CInv_keys s : CInv s -> NoDup (map ckey (crows_of s)).
Proof. intros [H _]. now apply NoDup_ckey_of_ids. Qed.

Lemma NoDup_id_app (a b : list row) : NoDup (map row_id (a ++ b)) -> NoDup (map row_id a) /\ NoDup (map row_id b).
Proof. rewrite map_app. intros H. apply NoDup_app_inv in H as (H1 & H2 & _). auto. Qed.

Lemma CInv_sub s p : CInv s -> In p s -> NoDup (map row_id (crows_plan p)) /\ incl (crows_plan p) (crows_of s) /\ cgood p.
Proof.
  intros [Hn Hg] Hp. rewrite Forall_forall in Hg. split; [|split; [|apply Hg; auto]].
  - clear Hg. induction s as [|q s IH]; [destruct Hp|].
    unfold CosmosRep.crows_of in Hn. cbn [flat_map] in Hn. apply NoDup_id_app in Hn as [H1 H2].
    destruct Hp as [->|Hp]; auto.
  - intros r Hr. apply crows_of_in. eauto.
Qed.

Lemma CInv_fetch s p : CInv s -> In p s -> cz_fetch (sp_id p) (crows_of s) = Some p.
Proof.
  intros HI Hp. destruct (CInv_sub s p HI Hp) as (H1 & H2 & (H3 & H4 & H5)).
  eapply cfetch_rows; eauto; [now apply CInv_keys | now apply NoDup_ckey_of_ids].
Qed.

Lemma readItem_plan_none s id : (forall p, In p s -> sp_id p <> id) -> readItem id id (crows_of s) = None.
Proof.
  intros H. apply readItem_none. intros r Hr Hk. apply crows_of_in in Hr as (p & Hp & Hr).
  unfold ckey in Hk. injection Hk as Hk1 _. rewrite (cplanid_plan p r Hr) in Hk1. exact (H p Hp Hk1).
Qed.

Lemma CInv_plan_ids s : CInv s -> NoDup (map sp_id s).
Proof.
  intros [Hn _]. induction s as [|p s IH]; [constructor|].
  unfold CosmosRep.crows_of in Hn. cbn [flat_map] in Hn. rewrite map_app in Hn.
  apply NoDup_app_inv in Hn as (H1 & H2 & H3). simpl. constructor; [|auto].
  intros Hin. apply in_map_iff in Hin as (q & Hq & Hin).
  apply (H3 (sp_id p)).
  - apply in_map_iff. exists (crow_plan p). split; [reflexivity | apply cplan_head].
  - apply in_map_iff. exists (crow_plan q). split; [simpl; exact Hq|].
    apply in_flat_map. exists q. split; [exact Hin | apply cplan_head].
Qed.

Lemma cread_refines s id : CInv s -> cz_fetch id (crows_of s) = Spec.read id s.
Proof.
  intros HI. destruct (Spec.read id s) as [p|] eqn:E.
  - apply spec_read_some in E as [Hp <-]. now apply CInv_fetch.
  - unfold CosmosModel.fetchPlan. now rewrite (readItem_plan_none s id (spec_read_none id s E)).
Qed.

Lemma cexists_refines s id : CInv s -> CosmosModel.exists_plan id (crows_of s) = is_some (Spec.read id s).
Proof.
  intros HI. unfold CosmosModel.exists_plan. destruct (Spec.read id s) as [p|] eqn:E.
  - apply spec_read_some in E as [Hp <-].
    rewrite (readItem_in' (crows_of s) (crow_plan p) (sp_id p) (sp_id p)); auto; [now apply CInv_keys|].
    apply crows_of_in. exists p. split; [exact Hp | apply cplan_head].
  - now rewrite (readItem_plan_none s id (spec_read_none id s E)).
Qed.

Lemma memb_ids_read s id : memb id (map sp_id s) = is_some (Spec.read id s).
Proof.
  unfold Spec.read. induction s as [|q s IH]; [reflexivity|]. simpl. rewrite (uid_eqb_sym id (sp_id q)).
  destruct (uid_eqb (sp_id q) id); [reflexivity | exact IH].
Qed.

(* ---------- Create ---------- *)
Lemma cstep_create s p :
  CInv s -> cop_ok s (OCreate p) ->
  cz_create p (crep s) = (crep (fst (sp_create p s)), snd (sp_create p s)) /\ CInv (fst (sp_create p s)).
Proof.
  intros HI [Hd Hf]. unfold Spec.create, CosmosModel.create, CosmosModel.create_stage, CosmosRep.crep.
  destruct (uid_nil (sp_id p)) eqn:En; [simpl; auto|].
  rewrite (cexists_refines s (sp_id p) HI).
  destruct (is_some (Spec.read (sp_id p) s)) eqn:Er; [simpl; auto|].
  assert (Hnone : Spec.read (sp_id p) s = None) by (destruct (Spec.read (sp_id p) s); [discriminate | reflexivity]).
  destruct Hf as [Hin | (Hnd & Hnn & Hdis)].
  { exfalso. apply in_map_iff in Hin as (q & Hq & Hin). exact (spec_read_none _ _ Hnone q Hin Hq). }
  rewrite (planToItems_eq enc_req enc_att p Hnn).
  destruct (pln_encodes p) eqn:Ee; simpl; [|auto].
  assert (Hk : NoDup (map row_id (crows_of s ++ crows_plan p))).
  { rewrite map_app. apply NoDup_app_intro; [exact (proj1 HI) | now rewrite (cids_plan p) |].
    intros i Hi1 Hi2. apply in_map_iff in Hi1 as (r1 & Hid & Hr1). apply crows_of_in in Hr1 as (q & Hq & Hr1).
    apply (Hdis q i Hq).
    - now rewrite <- (cids_plan p).
    - rewrite <- (cids_plan q), <- Hid. now apply in_map. }
  unfold txn. rewrite (createItems_ok (crows_plan p) (crows_of s) (NoDup_ckey_of_ids _ Hk)).
  cbn [negb].
  assert (HI' : CInv (s ++ [p])).
  { split; [rewrite crows_of_app; unfold CosmosRep.crows_of at 2; cbn [flat_map]; now rewrite app_nil_r|].
    apply Forall_app. split; [exact (proj2 HI) | constructor; [repeat split; assumption | constructor]]. }
  assert (E : crows_of s ++ crows_plan p = crows_of (s ++ [p])).
  { rewrite crows_of_app. unfold CosmosRep.crows_of at 3. cbn [flat_map]. now rewrite app_nil_r. }
  rewrite E, (CInv_fetch (s ++ [p]) p HI'); [|apply in_or_app; right; now left].
  rewrite memb_ids_read, Er. rewrite map_app. simpl. auto.
Qed.

(* ---------- Delete ---------- *)
Definition ckeyin (r : row) (ks : list (uid * uid)) : bool := existsb (fun k => ckeyb (fst k) (snd k) r) ks.

Lemma ckeyin_In r ks : ckeyin r ks = true <-> In (ckey r) ks.
Proof.
  unfold ckeyin. rewrite existsb_exists. split.
  - intros (k & Hk & E). apply ckeyb_true in E. rewrite E. now destruct k.
  - intros H. exists (ckey r). split; [exact H|]. apply ckeyb_true. reflexivity.
Qed.
Lemma ckeyin_false r ks : ckeyin r ks = false <-> ~ In (ckey r) ks.
Proof.
  split.
  - intros H Hin. apply ckeyin_In in Hin. congruence.
  - intros H. destruct (ckeyin r ks) eqn:E; [|reflexivity]. apply ckeyin_In in E. contradiction.
Qed.

(* a batch of DeleteItem: every item must be there (a missing one fails the batch) *)
Definition CDel (m : M) (ks : list (uid * uid)) : Prop :=
  forall d, NoDup ks -> (forall k, In k ks -> In k (map ckey d)) ->
            m d = (filter (fun r => negb (ckeyin r ks)) d, true).

Lemma CDel_ret : CDel ret [].
Proof. intros d _ _. unfold ret. f_equal. symmetry. apply filter_all. reflexivity. Qed.

Lemma CDel_item pid id : CDel (deleteItem pid id) [(pid, id)].
Proof.
  intros d _ Hp. unfold deleteItem.
  destruct (readItem pid id d) as [x|] eqn:E.
  - f_equal. apply filter_ext_in'. intros r _. unfold ckeyin. simpl. fold (ckeyb pid id r). now rewrite orb_false_r.
  - exfalso. specialize (Hp (pid, id) (or_introl eq_refl)). apply in_map_iff in Hp as (r & Hk & Hr).
    rewrite readItem_none in E. exact (E r Hr Hk).
Qed.

Lemma CDel_bind m f a b : CDel m a -> CDel f b -> CDel (bind m f) (a ++ b).
Proof.
  intros Hm Hf d Hnd Hp. apply NoDup_app_inv in Hnd as (Ha & Hb & Hdis).
  unfold bind. rewrite (Hm d Ha); [|intros k Hk; apply Hp; apply in_or_app; now left].
  rewrite (Hf _ Hb).
  - rewrite filter_filter. f_equal. apply filter_ext_in'. intros r _. unfold ckeyin. now rewrite existsb_app, negb_orb.
  - intros k Hk. assert (Hin := Hp k (in_or_app _ _ _ (or_intror Hk))).
    apply in_map_iff in Hin as (x & Hx & Hin). apply in_map_iff. exists x. split; [exact Hx|].
    apply filter_In. split; [exact Hin|]. apply negb_true_iff. apply ckeyin_false. rewrite Hx. intros Hka. exact (Hdis k Hka Hk).
Qed.

Definition cks_actions (pid : uid) (l : list sact) : list (uid * uid) := map (fun a => (pid, sa_id a)) l.
Definition cks_checks (pid : uid) (o : option schk) : list (uid * uid) :=
  match o with None => [] | Some c => cks_actions pid (sc_acts c) ++ [(pid, sc_id c)] end.
Definition cks_seqs (pid : uid) (l : list sseq) : list (uid * uid) :=
  flat_map (fun s => cks_actions pid (sq_acts s)) l ++ map (fun s => (pid, sq_id s)) l.
Definition cks_blockparts (pid : uid) (b : sblk) : list (uid * uid) :=
  cks_checks pid (sb_byp b) ++ cks_checks pid (sb_pre b) ++ cks_checks pid (sb_post b) ++ cks_checks pid (sb_cont b)
  ++ cks_checks pid (sb_def b) ++ cks_seqs pid (sb_seqs b).
Definition cks_blocks (pid : uid) (l : list sblk) : list (uid * uid) :=
  flat_map (cks_blockparts pid) l ++ map (fun b => (pid, sb_id b)) l.
Definition cks_plan (p : spln) : list (uid * uid) :=
  cks_checks (sp_id p) (sp_byp p) ++ cks_checks (sp_id p) (sp_pre p) ++ cks_checks (sp_id p) (sp_post p)
  ++ cks_checks (sp_id p) (sp_cont p) ++ cks_checks (sp_id p) (sp_def p) ++ cks_blocks (sp_id p) (sp_blocks p)
  ++ [(sp_id p, sp_id p)].

Lemma CDel_actions pid l : CDel (CosmosModel.deleteActions pid l) (cks_actions pid l).
Proof.
  induction l as [|a l IH]; [apply CDel_ret|]. simpl.
  change ((pid, sa_id a) :: cks_actions pid l) with ([(pid, sa_id a)] ++ cks_actions pid l).
  apply CDel_bind; [apply CDel_item | exact IH].
Qed.
Lemma CDel_checks pid o : CDel (CosmosModel.deleteChecks pid o) (cks_checks pid o).
Proof. destruct o as [c|]; [|apply CDel_ret]. simpl. apply CDel_bind; [apply CDel_actions | apply CDel_item]. Qed.
Lemma CDel_seqs pid l : CDel (deleteSeqs pid l) (cks_seqs pid l).
Proof.
  unfold deleteSeqs, cks_seqs. apply CDel_bind.
  - induction l as [|s l IH]; [apply CDel_ret|]. simpl. apply CDel_bind; [apply CDel_actions | exact IH].
  - induction l as [|s l IH]; [apply CDel_ret|]. simpl.
    change ((pid, sq_id s) :: map (fun s0 => (pid, sq_id s0)) l) with ([(pid, sq_id s)] ++ map (fun s0 => (pid, sq_id s0)) l).
    apply CDel_bind; [apply CDel_item | exact IH].
Qed.
Lemma CDel_blockparts pid b : CDel (CosmosModel.deleteBlockParts pid b) (cks_blockparts pid b).
Proof.
  unfold CosmosModel.deleteBlockParts, cks_blockparts. repeat (apply CDel_bind; [apply CDel_checks|]). apply CDel_seqs.
Qed.
Lemma CDel_blocks pid l : CDel (CosmosModel.deleteBlocks pid l) (cks_blocks pid l).
Proof.
  unfold CosmosModel.deleteBlocks, cks_blocks. apply CDel_bind.
  - induction l as [|b l IH]; [apply CDel_ret|]. simpl. apply CDel_bind; [apply CDel_blockparts | exact IH].
  - induction l as [|b l IH]; [apply CDel_ret|]. simpl.
    change ((pid, sb_id b) :: map (fun b0 => (pid, sb_id b0)) l) with ([(pid, sb_id b)] ++ map (fun b0 => (pid, sb_id b0)) l).
    apply CDel_bind; [apply CDel_item | exact IH].
Qed.
Lemma CDel_plan p : CDel (CosmosModel.deletePlan p) (cks_plan p).
Proof.
  unfold CosmosModel.deletePlan, cks_plan. repeat (apply CDel_bind; [apply CDel_checks|]).
  apply CDel_bind; [apply CDel_blocks | apply CDel_item].
Qed.

(* the keys deleted are, up to order, the keys of the plan's items *)
Lemma cksr_checks pid o : cks_checks pid o = map ckey (crows_checks pid o).
Proof.
  destruct o as [c|]; unfold cks_checks, CosmosRep.crows_checks; [|reflexivity].
  now rewrite map_app, (cactions_ckeys enc_req enc_att).
Qed.
Lemma cksr_seqs pid l : forall pos, Permutation (cks_seqs pid l) (map ckey (crows_seqs pid pos l)).
Proof.
  unfold cks_seqs. induction l as [|s l IH]; intros pos; [reflexivity|].
  cbn [CosmosRep.crows_seqs flat_map map]. unfold CosmosRep.crows_seq.
  rewrite !map_app, (cactions_ckeys enc_req enc_att). cbn [map].
  rewrite <- !app_assoc. apply Permutation_app_head.
  etransitivity; [symmetry; apply Permutation_middle|]. cbn [app]. apply perm_skip. apply IH.
Qed.
Lemma cksr_block pid pos b : Permutation (cks_blockparts pid b ++ [(pid, sb_id b)]) (map ckey (crows_block pid pos b)).
Proof.
  unfold cks_blockparts, CosmosRep.crows_block. rewrite !map_app, !cksr_checks, <- !app_assoc.
  repeat apply Permutation_app_head. apply Permutation_app; [apply cksr_seqs | reflexivity].
Qed.
Lemma cksr_blocks pid l : forall pos, Permutation (cks_blocks pid l) (map ckey (crows_blocks pid pos l)).
Proof.
  unfold cks_blocks. induction l as [|b l IH]; intros pos; [reflexivity|].
  cbn [CosmosRep.crows_blocks flat_map map]. rewrite map_app, <- (cksr_block pid pos b), <- !app_assoc.
  apply Permutation_app_head. etransitivity; [symmetry; apply Permutation_middle|]. cbn [app].
  apply perm_skip. apply IH.
Qed.
Lemma cksr_plan p : Permutation (cks_plan p) (map ckey (crows_plan p)).
Proof.
  unfold cks_plan, CosmosRep.crows_plan. rewrite !map_app, !cksr_checks.
  repeat apply Permutation_app_head. apply Permutation_app; [apply cksr_blocks | reflexivity].
Qed.

Lemma NoDup_ckey_filter (P : row -> bool) d : NoDup (map row_id d) -> NoDup (map row_id (filter P d)).
Proof.
  induction d as [|r d IH]; simpl; intros H; [constructor|]. inversion H as [|? ? Hn Hd]; subst.
  destruct (P r); simpl; [constructor; [|auto] | auto].
  intros Hin. apply Hn. apply in_map_iff in Hin as (x & Hx & Hin). apply filter_In in Hin as [Hin _].
  apply in_map_iff. eauto.
Qed.

Lemma cdelete_rows s p :
  CInv s -> In p s ->
  filter (fun r => negb (ckeyin r (cks_plan p))) (crows_of s)
  = crows_of (filter (fun q => negb (uid_eqb (sp_id q) (sp_id p))) s).
Proof.
  intros HI Hp. unfold CosmosRep.crows_of at 1. rewrite filter_flat_map.
  assert (Hids := CInv_plan_ids s HI).
  assert (G : forall l, incl l s ->
              flat_map (fun x => filter (fun r => negb (ckeyin r (cks_plan p))) (crows_plan x)) l
              = crows_of (filter (fun q => negb (uid_eqb (sp_id q) (sp_id p))) l)).
  { induction l as [|q l IHl]; intros Hl; [reflexivity|].
    apply incl_cons_inv' in Hl as [Hq Hl]. cbn [flat_map filter]. rewrite (IHl Hl).
    destruct (uid_eqb (sp_id q) (sp_id p)) eqn:E; cbn [negb].
    - apply uid_eqb_eq in E. assert (q = p) as -> by (apply (NoDup_map_inj sp_id s); auto).
      rewrite filter_none; [reflexivity|]. intros r Hr. apply negb_false_iff. apply ckeyin_In.
      apply (Permutation_in _ (Permutation_sym (cksr_plan p))). now apply in_map.
    - apply uid_eqb_neq in E. unfold CosmosRep.crows_of. cbn [flat_map]. f_equal.
      apply filter_all. intros r Hr. apply negb_true_iff. apply ckeyin_false. intros Hk.
      apply (Permutation_in _ (cksr_plan p)) in Hk. apply in_map_iff in Hk as (r' & Hk & Hr').
      unfold ckey in Hk. injection Hk as Hk1 _. rewrite (cplanid_plan p r' Hr'), (cplanid_plan q r Hr) in Hk1. congruence. }
  apply G. apply incl_refl.
Qed.

Lemma filter_ids s id :
  filter (fun x => negb (uid_eqb x id)) (map sp_id s) = map sp_id (filter (fun q => negb (uid_eqb (sp_id q) id)) s).
Proof.
  induction s as [|q s IH]; [reflexivity|]. simpl. destruct (uid_eqb (sp_id q) id); simpl; now rewrite IH.
Qed.

Lemma cstep_delete s id :
  CInv s ->
  cz_delete id (crep s) = (crep (fst (Spec.delete id s)), snd (Spec.delete id s)) /\ CInv (fst (Spec.delete id s)).
Proof.
  intros HI. unfold CosmosModel.delete, CosmosModel.delete_stage, Spec.delete, CosmosRep.crep.
  rewrite (cread_refines s id HI).
  destruct (Spec.read id s) as [p|] eqn:E; simpl; [|auto].
  assert (E' := E). apply spec_read_some in E as [Hp <-].
  destruct (CInv_sub s p HI Hp) as (Hnp & Hincl & _).
  unfold txn. rewrite (CDel_plan p (crows_of s)).
  2:{ apply (Permutation_NoDup (Permutation_sym (cksr_plan p))). now apply NoDup_ckey_of_ids. }
  2:{ intros k Hk. apply (Permutation_in _ (cksr_plan p)) in Hk. apply in_map_iff in Hk as (r & <- & Hr).
      apply in_map. now apply Hincl. }
  cbn [negb]. rewrite (cdelete_rows s p HI Hp), memb_ids_read, E'. simpl. rewrite filter_ids. split; [reflexivity|].
  split.
  - rewrite <- (cdelete_rows s p HI Hp). apply NoDup_ckey_filter. exact (proj1 HI).
  - destruct HI as [_ Hg]. rewrite Forall_forall in *. intros q Hq. apply filter_In in Hq as [Hq _]. auto.
Qed.

End CRefine.
