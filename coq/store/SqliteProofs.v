(* Store group: proofs about the sqlite model (C13, C14). *)
From Coq Require Import List Arith Lia Permutation Sorted Bool ZArith.
From Coercion.Base Require Import Plan.
From Coercion.Store Require Import Tree Rows Spec SqliteModel SqliteRep ListAux.
Import ListNotations.

(* ---------- reflection of the boolean equalities ---------- *)
Lemma uid_eqb_eq a b : uid_eqb a b = true <-> a = b.
Proof.
  destruct a as [i v], b as [j w]. unfold uid_eqb; simpl. split.
  - intros H. apply andb_true_iff in H as [H1 H2]. apply N.eqb_eq in H1. apply eqb_prop in H2. now subst.
  - intros H. injection H as -> ->. now rewrite N.eqb_refl, eqb_reflx.
Qed.
Lemma uid_eqb_refl a : uid_eqb a a = true. Proof. now apply uid_eqb_eq. Qed.
Lemma uid_eqb_neq a b : uid_eqb a b = false <-> a <> b.
Proof.
  split.
  - intros H E. apply uid_eqb_eq in E. congruence.
  - intros H. destruct (uid_eqb a b) eqn:E; [|reflexivity]. apply uid_eqb_eq in E. contradiction.
Qed.
Lemma uid_eqb_sym a b : uid_eqb a b = uid_eqb b a.
Proof.
  destruct (uid_eqb a b) eqn:E.
  - apply uid_eqb_eq in E. subst. symmetry. apply uid_eqb_refl.
  - symmetry. apply uid_eqb_neq. apply uid_eqb_neq in E. congruence.
Qed.
Lemma kind_eqb_eq a b : kind_eqb a b = true <-> a = b.
Proof. destruct a, b; simpl; split; intros H; try reflexivity; discriminate H. Qed.
Lemma kind_eqb_refl a : kind_eqb a a = true. Proof. now destruct a. Qed.

Lemma memb_In u l : memb u l = true <-> In u l.
Proof.
  induction l as [|x l IH]; simpl; [split; [discriminate | intros []]|].
  rewrite orb_true_iff, IH, uid_eqb_eq. split; intros [H|H]; auto.
Qed.

Definition keyb (k : kind) (id : uid) (r : row) : bool := kind_eqb (row_kind r) k && uid_eqb (row_id r) id.
Lemma keyb_true k id r : keyb k id r = true <-> key r = (k, id).
Proof.
  unfold keyb, key. rewrite andb_true_iff, kind_eqb_eq, uid_eqb_eq. split.
  - intros [-> ->]. reflexivity.
  - intros H. injection H as -> ->. auto.
Qed.
Lemma keyb_key r r' : keyb (row_kind r) (row_id r) r' = true <-> key r' = key r.
Proof. apply keyb_true. Qed.

(* ---------- the storage monad ---------- *)
Lemma bind_ok m f d d1 : m d = (d1, true) -> bind m f d = f d1.
Proof. unfold bind. now intros ->. Qed.
Lemma bind_fail m f d d1 : m d = (d1, false) -> bind m f d = (d1, false).
Proof. unfold bind. now intros ->. Qed.
Lemma bind_true_inv m f d d2 : bind m f d = (d2, true) -> exists d1, m d = (d1, true) /\ f d1 = (d2, true).
Proof.
  unfold bind. destruct (m d) as [d1 [|]]; intros H; [exists d1; auto | discriminate].
Qed.
Lemma ret_eq d : ret d = (d, true). Proof. reflexivity. Qed.

(* ---------- INSERT ---------- *)
Lemma insert_fresh r d : ~ In (key r) (map key d) -> insert r d = (d ++ [r], true).
Proof.
  intros H. unfold insert.
  destruct (existsb _ d) eqn:E; [|reflexivity].
  exfalso. apply existsb_exists in E as (x & Hx & Hk). apply H.
  fold (keyb (row_kind r) (row_id r) x) in Hk. apply keyb_key in Hk. rewrite <- Hk. now apply in_map.
Qed.
Lemma insert_true_inv r d d' : insert r d = (d', true) -> d' = d ++ [r] /\ ~ In (key r) (map key d).
Proof.
  unfold insert. destruct (existsb _ d) eqn:E; [discriminate|]. intros H. injection H as <-. split; [reflexivity|].
  intros Hin. apply in_map_iff in Hin as (x & Hk & Hx).
  assert (existsb (fun x0 => kind_eqb (row_kind x0) (row_kind r) && uid_eqb (row_id x0) (row_id r)) d = true).
  { apply existsb_exists. exists x. split; [exact Hx|]. now apply (keyb_key r x). }
  congruence.
Qed.
Lemma insert_false r d d' : insert r d = (d', false) -> d' = d.
Proof. unfold insert. destruct (existsb _ d); intros H; [now injection H | discriminate]. Qed.

Lemma NoDup_key_snoc d r : NoDup (map key d) -> ~ In (key r) (map key d) -> NoDup (map key (d ++ [r])).
Proof.
  intros H Hn. rewrite map_app. apply NoDup_app_intro; [exact H | simpl; constructor; [intros []|constructor] |].
  intros x Hx [<-|[]]. exact (Hn Hx).
Qed.

Arguments SqliteRep.rows_seq : simpl never.
Arguments SqliteRep.rows_block : simpl never.
Arguments SqliteRep.rows_checks : simpl never.
Arguments SqliteRep.rows_plan : simpl never.
Arguments SqliteModel.commitSequence : simpl never.
Arguments SqliteModel.commitBlock : simpl never.
Arguments SqliteModel.commitChecks : simpl never.

Section Proofs.
Variable enc_req : blob -> option code.
Variable dec_req : tok -> code -> option blob.
Variable enc_att : attempt -> option code.
Variable dec_att : tok -> code -> option attempt.

Notation commitAction := (commitAction enc_req enc_att).
Notation commitActions := (commitActions enc_req enc_att).
Notation commitChecks := (commitChecks enc_req enc_att).
Notation commitSequence := (commitSequence enc_req enc_att).
Notation commitSequences := (commitSequences enc_req enc_att).
Notation commitBlock := (commitBlock enc_req enc_att).
Notation commitBlocks := (commitBlocks enc_req enc_att).
Notation commitPlan_body := (commitPlan_body enc_req enc_att).
Notation commitPlan := (commitPlan enc_req enc_att).
Notation create := (SqliteModel.create enc_req enc_att).
Notation arow := (arow enc_req enc_att).
Notation arows := (arows enc_req enc_att).
Notation rows_actions := (rows_actions enc_req enc_att).
Notation rows_checks := (rows_checks enc_req enc_att).
Notation rows_seq := (rows_seq enc_req enc_att).
Notation rows_seqs := (rows_seqs enc_req enc_att).
Notation rows_block := (rows_block enc_req enc_att).
Notation rows_blocks := (rows_blocks enc_req enc_att).
Notation rows_plan := (rows_plan enc_req enc_att).
Notation rows_of := (rows_of enc_req enc_att).
Notation act_encodes := (act_encodes enc_req enc_att).
Notation atts_encode := (atts_encode enc_att).
Notation pln_encodes := (pln_encodes enc_req enc_att).
Notation enc_atts := (enc_atts enc_att).

Definition acts_encode (l : list sact) : bool := forallb act_encodes l.
Definition ochk_encodes (o : option schk) : bool := match o with None => true | Some c => acts_encode (sc_acts c) end.
Definition seqs_encode (l : list sseq) : bool := forallb (fun s => acts_encode (sq_acts s)) l.
Definition blk_encodes (b : sblk) : bool :=
  ochk_encodes (sb_byp b) && ochk_encodes (sb_pre b) && ochk_encodes (sb_post b) && ochk_encodes (sb_cont b)
  && ochk_encodes (sb_def b) && seqs_encode (sb_seqs b).
Definition blks_encode (l : list sblk) : bool := forallb blk_encodes l.
Definition pln_encodes' (p : spln) : bool :=
  ochk_encodes (sp_byp p) && ochk_encodes (sp_pre p) && ochk_encodes (sp_post p) && ochk_encodes (sp_cont p)
  && ochk_encodes (sp_def p) && blks_encode (sp_blocks p).

Lemma forallb_flat_map {A B} (f : B -> bool) (g : A -> list B) l :
  forallb f (flat_map g l) = forallb (fun x => forallb f (g x)) l.
Proof. induction l as [|x l IH]; simpl; [reflexivity|]. now rewrite forallb_app, IH. Qed.

Lemma forallb_ext' {A} (f g : A -> bool) l : (forall x, f x = g x) -> forallb f l = forallb g l.
Proof. intros H. induction l as [|x l IH]; simpl; [reflexivity|]. now rewrite H, IH. Qed.

Lemma ochk_encodes_list o : forallb act_encodes (flat_map sc_acts (ochk_list o)) = ochk_encodes o.
Proof. destruct o; simpl; [now rewrite app_nil_r | reflexivity]. Qed.

Lemma groups_encode a b c d e :
  forallb act_encodes (flat_map sc_acts (ochk_list a ++ ochk_list b ++ ochk_list c ++ ochk_list d ++ ochk_list e))
  = ochk_encodes a && ochk_encodes b && ochk_encodes c && ochk_encodes d && ochk_encodes e.
Proof.
  rewrite !flat_map_app', !forallb_app, !ochk_encodes_list. now rewrite !andb_assoc.
Qed.

Lemma blk_encodes_eq b : forallb act_encodes (blk_actions b) = blk_encodes b.
Proof.
  unfold blk_actions, blk_groups, blk_encodes, seqs_encode. rewrite forallb_app, groups_encode, forallb_flat_map. reflexivity.
Qed.

Lemma pln_encodes_eq p : pln_encodes p = pln_encodes' p.
Proof.
  unfold Spec.pln_encodes, pln_actions, pln_groups, pln_encodes', blks_encode.
  rewrite forallb_app, groups_encode, forallb_flat_map. f_equal.
  apply forallb_ext'. intros b. apply blk_encodes_eq.
Qed.

Lemma enc_atts_some l : atts_encode l = true -> enc_atts l = Some (enc_atts_d enc_att l).
Proof.
  unfold enc_atts_d. intros H. destruct (enc_atts l) eqn:E; [reflexivity|]. exfalso.
  revert H E. unfold SqliteModel.enc_atts, Spec.atts_encode.
  induction l as [|a l IH]; simpl; [discriminate|].
  destruct (enc_att a); simpl; [|discriminate]. intros H.
  destruct (mapM enc_att l); [discriminate | intros _; now apply IH].
Qed.
Lemma enc_atts_none l : atts_encode l = false -> enc_atts l = None.
Proof.
  unfold SqliteModel.enc_atts, Spec.atts_encode.
  induction l as [|a l IH]; simpl; [discriminate|].
  destruct (enc_att a); simpl; [|reflexivity]. intros H. now rewrite (IH H).
Qed.
Lemma enc_atts_is_some l c : enc_atts l = Some c -> atts_encode l = true /\ c = enc_atts_d enc_att l.
Proof.
  intros H. destruct (atts_encode l) eqn:E.
  - split; [reflexivity|]. rewrite (enc_atts_some l E) in H. now injection H.
  - rewrite (enc_atts_none l E) in H. discriminate.
Qed.

(* ---------- commit: success ---------- *)
Lemma commitAction_ok pid pos a d :
  act_encodes a = true -> ~ In (key (RAction (arow pid pos a))) (map key d) ->
  commitAction pid pos a d = (d ++ [RAction (arow pid pos a)], true).
Proof.
  unfold Spec.act_encodes, SqliteModel.commitAction, SqliteRep.arow, enc_req_d. intros H Hf.
  apply andb_true_iff in H as [H1 H2].
  destruct (enc_req (sa_req a)) eqn:E1; [|discriminate].
  rewrite (enc_atts_some _ H2). now apply insert_fresh.
Qed.

Lemma NoDup_key_prefix (d r1 r2 : list row) : NoDup (map key (d ++ r1 ++ r2)) -> NoDup (map key (d ++ r1)).
Proof.
  rewrite app_assoc, map_app. intros H. now apply NoDup_app_inv in H as (H & _).
Qed.
Lemma NoDup_key_head (d : list row) r rs : NoDup (map key (d ++ r :: rs)) -> ~ In (key r) (map key d).
Proof.
  rewrite map_app. intros H. apply NoDup_app_inv in H as (_ & _ & Hd). intros Hin. apply (Hd _ Hin). now left.
Qed.
Lemma app_cons_assoc {A} (d : list A) r rs : d ++ r :: rs = (d ++ [r]) ++ rs.
Proof. now rewrite <- app_assoc. Qed.

Lemma commitActions_ok pid l : forall pos d,
  acts_encode l = true -> NoDup (map key (d ++ rows_actions pid pos l)) ->
  commitActions pid pos l d = (d ++ rows_actions pid pos l, true).
Proof.
  induction l as [|a l IH]; intros pos d He Hn; simpl.
  - now rewrite app_nil_r.
  - simpl in He. apply andb_true_iff in He as [He1 He2].
    unfold SqliteRep.rows_actions in *. simpl in *.
    rewrite (bind_ok _ _ _ _ (commitAction_ok pid pos a d He1 (NoDup_key_head _ _ _ Hn))).
    match type of Hn with NoDup (map key (?d ++ ?r :: ?rs)) =>
      rewrite (app_cons_assoc d r rs) in Hn; rewrite (app_cons_assoc d r rs) end.
    now apply IH.
Qed.

(* an INSERT followed by the rest of a commit *)
Ltac snoc_step :=
  match goal with
  | Hn : NoDup (map key (?d ++ ?r :: ?rs)) |- _ =>
    rewrite (bind_ok _ _ _ _ (insert_fresh _ _ (NoDup_key_head _ _ _ Hn)));
    rewrite (app_cons_assoc d r rs) in Hn; rewrite (app_cons_assoc d r rs)
  end.

Lemma commitChecks_ok pid o d :
  ochk_encodes o = true -> NoDup (map key (d ++ rows_checks pid o)) ->
  commitChecks pid o d = (d ++ rows_checks pid o, true).
Proof.
  destruct o as [c|]; unfold SqliteModel.commitChecks, SqliteRep.rows_checks; intros He Hn; [|now rewrite app_nil_r].
  simpl in He. snoc_step. now apply commitActions_ok.
Qed.

Lemma commitSequence_ok pid pos s d :
  acts_encode (sq_acts s) = true -> NoDup (map key (d ++ rows_seq pid pos s)) ->
  commitSequence pid pos s d = (d ++ rows_seq pid pos s, true).
Proof.
  unfold SqliteModel.commitSequence, SqliteRep.rows_seq. intros He Hn.
  snoc_step. now apply commitActions_ok.
Qed.

Lemma commitSequences_ok pid l : forall pos d,
  seqs_encode l = true -> NoDup (map key (d ++ rows_seqs pid pos l)) ->
  commitSequences pid pos l d = (d ++ rows_seqs pid pos l, true).
Proof.
  induction l as [|s l IH]; intros pos d He Hn.
  - simpl. now rewrite app_nil_r.
  - cbn [SqliteModel.commitSequences SqliteRep.rows_seqs seqs_encode forallb] in *.
    apply andb_true_iff in He as [He1 He2].
    rewrite (bind_ok _ _ _ _ (commitSequence_ok pid pos s d He1 (NoDup_key_prefix _ _ _ Hn))).
    rewrite app_assoc in Hn. rewrite app_assoc. now apply IH.
Qed.

(* one step of a chain of commits: run the first, re-associate the rest *)
Ltac chain_step L :=
  match goal with
  | Hn : NoDup (map key (?d ++ ?r1 ++ ?rest)) |- bind ?m ?f ?d = _ =>
    rewrite (bind_ok _ _ _ _ (L d (NoDup_key_prefix _ _ _ Hn))); rewrite (app_assoc d r1 rest) in Hn; rewrite (app_assoc d r1 rest)
  end.

Lemma commitBlock_ok pid pos b d :
  blk_encodes b = true -> NoDup (map key (d ++ rows_block pid pos b)) ->
  commitBlock pid pos b d = (d ++ rows_block pid pos b, true).
Proof.
  unfold blk_encodes, SqliteModel.commitBlock, SqliteRep.rows_block. intros He Hn.
  repeat (apply andb_true_iff in He as [He ?]).
  chain_step (fun d0 => commitChecks_ok pid (sb_byp b) d0 He).
  chain_step (fun d0 => commitChecks_ok pid (sb_pre b) d0 H3).
  chain_step (fun d0 => commitChecks_ok pid (sb_post b) d0 H2).
  chain_step (fun d0 => commitChecks_ok pid (sb_cont b) d0 H1).
  chain_step (fun d0 => commitChecks_ok pid (sb_def b) d0 H0).
  snoc_step. now apply commitSequences_ok.
Qed.

Lemma commitBlocks_ok pid l : forall pos d,
  blks_encode l = true -> NoDup (map key (d ++ rows_blocks pid pos l)) ->
  commitBlocks pid pos l d = (d ++ rows_blocks pid pos l, true).
Proof.
  induction l as [|b l IH]; intros pos d He Hn.
  - simpl. now rewrite app_nil_r.
  - cbn [SqliteModel.commitBlocks SqliteRep.rows_blocks blks_encode forallb] in *.
    apply andb_true_iff in He as [He1 He2].
    rewrite (bind_ok _ _ _ _ (commitBlock_ok pid pos b d He1 (NoDup_key_prefix _ _ _ Hn))).
    rewrite app_assoc in Hn. rewrite app_assoc. now apply IH.
Qed.

Lemma commitPlan_body_ok p d :
  pln_encodes p = true -> NoDup (map key (d ++ rows_plan p)) ->
  commitPlan_body p d = (d ++ rows_plan p, true).
Proof.
  rewrite pln_encodes_eq. unfold pln_encodes', SqliteModel.commitPlan_body, SqliteRep.rows_plan. intros He Hn.
  repeat (apply andb_true_iff in He as [He ?]).
  snoc_step.
  chain_step (fun d0 => commitChecks_ok (sp_id p) (sp_byp p) d0 He).
  chain_step (fun d0 => commitChecks_ok (sp_id p) (sp_pre p) d0 H3).
  chain_step (fun d0 => commitChecks_ok (sp_id p) (sp_post p) d0 H2).
  chain_step (fun d0 => commitChecks_ok (sp_id p) (sp_cont p) d0 H1).
  chain_step (fun d0 => commitChecks_ok (sp_id p) (sp_def p) d0 H0).
  now apply commitBlocks_ok.
Qed.

(* ---------- commit: what a successful commit did (error propagation) ---------- *)
Definition ext (d d' : db) (rs : list row) : Prop :=
  d' = d ++ rs /\ (NoDup (map key d) -> NoDup (map key d')).

Lemma ext_nil d : ext d d []. Proof. split; [now rewrite app_nil_r | auto]. Qed.
Lemma ext_app d d1 d2 r1 r2 : ext d d1 r1 -> ext d1 d2 r2 -> ext d d2 (r1 ++ r2).
Proof. intros [-> H1] [-> H2]. split; [now rewrite app_assoc | auto]. Qed.
Lemma ext_cons d d1 d2 r rs : ext d d1 [r] -> ext d1 d2 rs -> ext d d2 (r :: rs).
Proof. intros H1 H2. exact (ext_app _ _ _ _ _ H1 H2). Qed.
Lemma insert_ext r d d' : insert r d = (d', true) -> ext d d' [r].
Proof.
  intros H. apply insert_true_inv in H as [-> Hn]. split; [reflexivity|]. intros Hd. now apply NoDup_key_snoc.
Qed.

Ltac binds :=
  repeat match goal with
         | H : bind _ _ _ = (_, true) |- _ => let d1 := fresh "d" in let H1 := fresh "Hb" in
                                              apply bind_true_inv in H as (d1 & H1 & H)
         end.

Lemma commitAction_inv pid pos a d d' :
  commitAction pid pos a d = (d', true) -> act_encodes a = true /\ ext d d' [RAction (arow pid pos a)].
Proof.
  unfold SqliteModel.commitAction, Spec.act_encodes, SqliteRep.arow, enc_req_d.
  destruct (enc_req (sa_req a)) eqn:E1; [|discriminate].
  destruct (enc_atts (sa_atts a)) eqn:E2; [|discriminate].
  apply enc_atts_is_some in E2 as [E2 ->]. intros H. split; [now rewrite E2 | now apply insert_ext].
Qed.

Lemma commitActions_inv pid l : forall pos d d',
  commitActions pid pos l d = (d', true) -> acts_encode l = true /\ ext d d' (rows_actions pid pos l).
Proof.
  induction l as [|a l IH]; intros pos d d' H.
  - injection H as <-. split; [reflexivity | apply ext_nil].
  - cbn [SqliteModel.commitActions] in H. binds.
    apply commitAction_inv in Hb as [E1 X1]. apply IH in H as [E2 X2].
    split; [simpl; now rewrite E1, E2 | exact (ext_cons _ _ _ _ _ X1 X2)].
Qed.

Lemma commitChecks_inv pid o d d' :
  commitChecks pid o d = (d', true) -> ochk_encodes o = true /\ ext d d' (rows_checks pid o).
Proof.
  destruct o as [c|]; unfold SqliteModel.commitChecks, SqliteRep.rows_checks; intros H.
  - binds. apply insert_ext in Hb. apply commitActions_inv in H as [E X].
    split; [exact E | exact (ext_cons _ _ _ _ _ Hb X)].
  - injection H as <-. split; [reflexivity | apply ext_nil].
Qed.

Lemma commitSequence_inv pid pos s d d' :
  commitSequence pid pos s d = (d', true) -> acts_encode (sq_acts s) = true /\ ext d d' (rows_seq pid pos s).
Proof.
  unfold SqliteModel.commitSequence, SqliteRep.rows_seq. intros H. binds.
  apply insert_ext in Hb. apply commitActions_inv in H as [E X].
  split; [exact E | exact (ext_cons _ _ _ _ _ Hb X)].
Qed.

Lemma commitSequences_inv pid l : forall pos d d',
  commitSequences pid pos l d = (d', true) -> seqs_encode l = true /\ ext d d' (rows_seqs pid pos l).
Proof.
  induction l as [|s l IH]; intros pos d d' H.
  - injection H as <-. split; [reflexivity | apply ext_nil].
  - cbn [SqliteModel.commitSequences SqliteRep.rows_seqs] in *. binds.
    apply commitSequence_inv in Hb as [E1 X1]. apply IH in H as [E2 X2].
    split; [simpl; now rewrite E1, E2 | exact (ext_app _ _ _ _ _ X1 X2)].
Qed.

Lemma commitBlock_inv pid pos b d d' :
  commitBlock pid pos b d = (d', true) -> blk_encodes b = true /\ ext d d' (rows_block pid pos b).
Proof.
  unfold SqliteModel.commitBlock, SqliteRep.rows_block, blk_encodes. intros H. binds.
  apply commitChecks_inv in Hb as [E1 X1]. apply commitChecks_inv in Hb0 as [E2 X2].
  apply commitChecks_inv in Hb1 as [E3 X3]. apply commitChecks_inv in Hb2 as [E4 X4].
  apply commitChecks_inv in Hb3 as [E5 X5]. apply insert_ext in Hb4.
  apply commitSequences_inv in H as [E6 X6].
  split; [now rewrite E1, E2, E3, E4, E5, E6|].
  repeat (eapply ext_app; [eassumption|]). exact (ext_cons _ _ _ _ _ Hb4 X6).
Qed.

Lemma commitBlocks_inv pid l : forall pos d d',
  commitBlocks pid pos l d = (d', true) -> blks_encode l = true /\ ext d d' (rows_blocks pid pos l).
Proof.
  induction l as [|b l IH]; intros pos d d' H.
  - injection H as <-. split; [reflexivity | apply ext_nil].
  - cbn [SqliteModel.commitBlocks SqliteRep.rows_blocks] in *. binds.
    apply commitBlock_inv in Hb as [E1 X1]. apply IH in H as [E2 X2].
    split; [simpl; now rewrite E1, E2 | exact (ext_app _ _ _ _ _ X1 X2)].
Qed.

Lemma commitPlan_body_inv p d d' :
  commitPlan_body p d = (d', true) -> pln_encodes p = true /\ ext d d' (rows_plan p).
Proof.
  rewrite pln_encodes_eq. unfold SqliteModel.commitPlan_body, SqliteRep.rows_plan, pln_encodes'. intros H. binds.
  apply insert_ext in Hb.
  apply commitChecks_inv in Hb0 as [E1 X1]. apply commitChecks_inv in Hb1 as [E2 X2].
  apply commitChecks_inv in Hb2 as [E3 X3]. apply commitChecks_inv in Hb3 as [E4 X4].
  apply commitChecks_inv in Hb4 as [E5 X5]. apply commitBlocks_inv in H as [E6 X6].
  split; [now rewrite E1, E2, E3, E4, E5, E6|].
  eapply ext_cons; [eassumption|]. repeat (eapply ext_app; [eassumption|]). exact X6.
Qed.

(* ---------- Create ---------- *)
Lemma txn_true m d d' : txn m d = (d', true) <-> m d = (d', true).
Proof.
  unfold txn. destruct (m d) as [d1 [|]]; split; intros H; try discriminate; now injection H as <-.
Qed.
Lemma txn_false m d d' : txn m d = (d', false) -> d' = d.
Proof. unfold txn. destruct (m d) as [d1 [|]]; intros H; [discriminate | now injection H]. Qed.
Lemma txn_fail m d : snd (m d) = false -> txn m d = (d, false).
Proof. unfold txn. destruct (m d) as [d1 [|]]; simpl; [discriminate | reflexivity]. Qed.

Lemma create_false p d d' : create p d = (d', false) -> d' = d.
Proof.
  unfold SqliteModel.create. destruct (uid_nil (sp_id p)); [intros H; now injection H|].
  destruct (exists_plan (sp_id p) d); [intros H; now injection H|]. unfold SqliteModel.commitPlan. apply txn_false.
Qed.

Lemma create_true_inv p d d' :
  create p d = (d', true) ->
  uid_nil (sp_id p) = false /\ exists_plan (sp_id p) d = false /\ pln_encodes p = true /\ ext d d' (rows_plan p).
Proof.
  unfold SqliteModel.create. destruct (uid_nil (sp_id p)); [discriminate|].
  destruct (exists_plan (sp_id p) d); [discriminate|]. intros H. unfold SqliteModel.commitPlan in H.
  apply -> txn_true in H. apply commitPlan_body_inv in H as [E X]. auto.
Qed.

Lemma create_ok p d :
  uid_nil (sp_id p) = false -> exists_plan (sp_id p) d = false -> pln_encodes p = true ->
  NoDup (map key (d ++ rows_plan p)) -> create p d = (d ++ rows_plan p, true).
Proof.
  intros H1 H2 H3 H4. unfold SqliteModel.create, SqliteModel.commitPlan. rewrite H1, H2.
  apply <- txn_true. now apply commitPlan_body_ok.
Qed.

Lemma create_unencodable p d : pln_encodes p = false -> create p d = (d, false).
Proof.
  intros H. destruct (create p d) as [d' [|]] eqn:E.
  - apply create_true_inv in E as (_ & _ & E & _). congruence.
  - now rewrite (create_false _ _ _ E).
Qed.

End Proofs.
