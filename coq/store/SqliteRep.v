(* Store group: the representation function of the sqlite model - the rows a stored plan occupies, in
   the order commitPlan inserts them - and the domain predicates of the theorems. Definitions only. *)
From Coercion.Base Require Import Plan.
From Coercion.Store Require Import Tree Rows Spec SqliteModel.

Definition key (r : row) : kind * uid := (row_kind r, row_id r).

Section Rep.
Variable enc_req : blob -> option code.
Variable enc_att : attempt -> option code.

(* total versions of the encoders; only used on values that encode *)
Definition enc_req_d (b : blob) : code := match enc_req b with Some c => c | None => CReq b end.
Definition enc_atts_d (l : list attempt) : list code := match enc_atts enc_att l with Some c => c | None => [] end.

Definition arow (planID : uid) (pos : nat) (a : sact) : action_row :=
  action_row_of planID pos a (enc_req_d (sa_req a)) (enc_atts_d (sa_atts a)).

Fixpoint arows (planID : uid) (pos : nat) (l : list sact) : list action_row :=
  match l with [] => [] | a :: r => arow planID pos a :: arows planID (S pos) r end.

Definition rows_actions (planID : uid) (pos : nat) (l : list sact) : list row := map RAction (arows planID pos l).

Definition rows_checks (planID : uid) (c : option schk) : list row :=
  match c with
  | None => []
  | Some c => RChecks (checks_row_of planID c) :: rows_actions planID 0 (sc_acts c)
  end.

Definition rows_seq (planID : uid) (pos : nat) (s : sseq) : list row :=
  RSeq (seq_row_of planID pos s) :: rows_actions planID 0 (sq_acts s).

Fixpoint rows_seqs (planID : uid) (pos : nat) (l : list sseq) : list row :=
  match l with [] => [] | s :: r => rows_seq planID pos s ++ rows_seqs planID (S pos) r end.

Definition rows_block (planID : uid) (pos : nat) (b : sblk) : list row :=
  rows_checks planID (sb_byp b) ++ rows_checks planID (sb_pre b) ++ rows_checks planID (sb_post b)
  ++ rows_checks planID (sb_cont b) ++ rows_checks planID (sb_def b)
  ++ RBlock (block_row_of planID pos b) :: rows_seqs planID 0 (sb_seqs b).

Fixpoint rows_blocks (planID : uid) (pos : nat) (l : list sblk) : list row :=
  match l with [] => [] | b :: r => rows_block planID pos b ++ rows_blocks planID (S pos) r end.

Definition rows_plan (p : spln) : list row :=
  RPlan (plan_row_of p)
  :: rows_checks (sp_id p) (sp_byp p) ++ rows_checks (sp_id p) (sp_pre p) ++ rows_checks (sp_id p) (sp_post p)
  ++ rows_checks (sp_id p) (sp_cont p) ++ rows_checks (sp_id p) (sp_def p)
  ++ rows_blocks (sp_id p) 0 (sp_blocks p).

(* the database that represents a specification store *)
Definition rows_of (s : store) : db := flat_map rows_plan s.

End Rep.

(* ---- the domain of the round-trip theorems ----
   req_ok plug b : a plugin is registered under [plug] and its ValidateReq accepts b
                   (so b has the type of plug.Request()); what C16 guarantees for submitted plans
   att_ok plug a : the attempt's response is nil or has the type of plug.Response()
   times         : instants are the zero time or not before 1970 (sqlite maps earlier ones to zero) *)
Section Dom.
Variable req_ok : tok -> blob -> bool.
Variable att_ok : tok -> attempt -> bool.

Definition st_dom (s : state) : Prop := (0 <= s_start s)%Z /\ (0 <= s_end s)%Z.

Definition act_dom (a : sact) : Prop :=
  req_ok (sa_plugin a) (sa_req a) = true
  /\ Forall (fun x => att_ok (sa_plugin a) x = true) (sa_atts a)
  /\ st_dom (sa_st a).

Definition chk_dom (c : schk) : Prop := st_dom (sc_st c) /\ Forall act_dom (sc_acts c).
Definition ochk_dom (o : option schk) : Prop := match o with None => True | Some c => chk_dom c end.
Definition seq_dom (s : sseq) : Prop := st_dom (sq_st s) /\ Forall act_dom (sq_acts s).
Definition blk_dom (b : sblk) : Prop :=
  st_dom (sb_st b) /\ ochk_dom (sb_byp b) /\ ochk_dom (sb_pre b) /\ ochk_dom (sb_cont b)
  /\ ochk_dom (sb_post b) /\ ochk_dom (sb_def b) /\ Forall seq_dom (sb_seqs b).
Definition pln_dom (p : spln) : Prop :=
  st_dom (sp_st p) /\ (0 <= sp_submit p)%Z /\ ochk_dom (sp_byp p) /\ ochk_dom (sp_pre p) /\ ochk_dom (sp_cont p)
  /\ ochk_dom (sp_post p) /\ ochk_dom (sp_def p) /\ Forall blk_dom (sp_blocks p).

(* Each Create brings a plan of the domain whose ids are pairwise distinct and used by no stored plan
   (C16; or its id is already stored, and it is then rejected). Each Update* brings a state of the
   domain, UpdateAction attempts fitting the plugin of the action(s) carrying that id. *)
Definition op_ok (s : store) (o : op) : Prop :=
  match o with
  | OCreate p =>
    pln_dom p /\
    (In (sp_id p) (map sp_id s)
     \/ (NoDup (pln_ids p) /\ forall q i, In q s -> In i (pln_ids p) -> ~ In i (pln_ids q)))
  | OUpdatePlan _ _ st _ | OUpdateBlock _ _ st | OUpdateChecks _ _ st | OUpdateSequence _ _ st => st_dom st
  | OUpdateAction _ id st atts =>
    st_dom st /\
    forall q a, In q s -> In a (pln_actions q) -> sa_id a = id -> Forall (fun x => att_ok (sa_plugin a) x = true) atts
  | ODelete _ => True
  end.

End Dom.

Section OpsOk.
Variable enc_req : blob -> option code.
Variable enc_att : attempt -> option code.
Variable req_ok : tok -> blob -> bool.
Variable att_ok : tok -> attempt -> bool.

(* every operation of the list is in the domain at the moment it is performed *)
Fixpoint ops_ok (s : store) (ops : list op) : Prop :=
  match ops with
  | [] => True
  | o :: r => op_ok req_ok att_ok s o /\ ops_ok (fst (Spec.step enc_req enc_att o s)) r
  end.
End OpsOk.
