(* Store group: proofs about the cosmosdb model: planToItems emits the representing items, a
   transactional batch appends them, the readers rebuild the plan from them. *)
From Coq Require Import List Arith Lia Permutation Sorted Bool ZArith.
From Coercion.Base Require Import Plan.
From Coercion.Store Require Import Tree Rows Spec SqliteModel SqliteRep CosmosModel CosmosRep ListAux SqliteProofs SqliteFetchProofs.
Import ListNotations.

Definition nn (i : uid) : Prop := uid_nil i = false.

Definition ckeyb (pid id : uid) (r : row) : bool := uid_eqb (row_plan r) pid && uid_eqb (row_id r) id.
Lemma ckeyb_true pid id r : ckeyb pid id r = true <-> ckey r = (pid, id).
Proof.
  unfold ckeyb, ckey. rewrite andb_true_iff, !uid_eqb_eq. split.
  - intros [-> ->]. reflexivity.
  - intros H. injection H as -> ->. auto.
Qed.

(* ---------- ReadItem ---------- *)
Lemma readItem_in d r : NoDup (map ckey d) -> In r d -> readItem (row_plan r) (row_id r) d = Some r.
Proof.
  intros Hn Hr. unfold readItem.
  apply (find_some_unique ckey (ckeyb (row_plan r) (row_id r))); auto.
  - apply ckeyb_true. reflexivity.
  - intros y _ Hy. now apply ckeyb_true.
Qed.
Lemma readItem_in' d r pid id : NoDup (map ckey d) -> In r d -> row_plan r = pid -> row_id r = id -> readItem pid id d = Some r.
Proof. intros Hn Hr <- <-. now apply readItem_in. Qed.
Lemma readItem_none pid id d : readItem pid id d = None <-> (forall r, In r d -> ckey r <> (pid, id)).
Proof.
  unfold readItem. rewrite find_none_iff. split; intros H r Hr.
  - intros E. specialize (H r Hr). apply ckeyb_true in E. unfold ckeyb in E. congruence.
  - specialize (H r Hr). fold (ckeyb pid id r). destruct (ckeyb pid id r) eqn:E; [|reflexivity].
    exfalso. apply H. now apply ckeyb_true.
Qed.
Lemma readItem_some pid id d r : readItem pid id d = Some r -> In r d /\ ckey r = (pid, id).
Proof.
  unfold readItem. intros H. apply find_some in H as [H1 H2]. split; [exact H1|]. now apply ckeyb_true.
Qed.

(* ---------- a transactional batch of CreateItem ---------- *)
Lemma createItem_fresh r d : ~ In (ckey r) (map ckey d) -> createItem r d = (d ++ [r], true).
Proof.
  intros H. unfold createItem. destruct (readItem (row_plan r) (row_id r) d) as [x|] eqn:E; [|reflexivity].
  exfalso. apply readItem_some in E as [Hx Hk]. apply H. apply in_map_iff. exists x. auto.
Qed.
Lemma createItem_true_inv r d d' : createItem r d = (d', true) -> d' = d ++ [r] /\ ~ In (ckey r) (map ckey d).
Proof.
  unfold createItem. destruct (readItem (row_plan r) (row_id r) d) eqn:E; [discriminate|].
  intros H. injection H as <-. split; [reflexivity|]. intros Hin. apply in_map_iff in Hin as (x & Hk & Hx).
  rewrite readItem_none in E. exact (E x Hx Hk).
Qed.

Lemma createItems_ok rs : forall d, NoDup (map ckey (d ++ rs)) -> createItems rs d = (d ++ rs, true).
Proof.
  induction rs as [|r rs IH]; intros d Hn; simpl; [now rewrite app_nil_r|].
  assert (Hf : ~ In (ckey r) (map ckey d)).
  { rewrite map_app in Hn. apply NoDup_app_inv in Hn as (_ & _ & Hd). intros Hin. apply (Hd _ Hin). now left. }
  rewrite (bind_ok _ _ _ _ (createItem_fresh r d Hf)).
  rewrite (app_cons_assoc d r rs) in Hn. rewrite (app_cons_assoc d r rs). now apply IH.
Qed.

Lemma createItems_true_inv rs : forall d d',
  createItems rs d = (d', true) -> d' = d ++ rs /\ (NoDup (map ckey d) -> NoDup (map ckey d')).
Proof.
  induction rs as [|r rs IH]; intros d d' H; simpl in H.
  - injection H as <-. now rewrite app_nil_r.
  - apply bind_true_inv in H as (d1 & H1 & H2). apply createItem_true_inv in H1 as [-> Hf].
    apply IH in H2 as [-> Hk]. split; [now rewrite <- app_assoc|].
    intros Hn. apply Hk. rewrite map_app. apply NoDup_app_intro; [exact Hn | simpl; constructor; [intros []|constructor] |].
    intros x Hx [<-|[]]. exact (Hf Hx).
Qed.

Section CProofs.
Variable enc_req : blob -> option code.
Variable dec_req : tok -> code -> option blob.
Variable enc_att : attempt -> option code.
Variable dec_att : tok -> code -> option attempt.

Notation carow := (carow enc_req enc_att).
Notation carows := (carows enc_req enc_att).
Notation crows_actions := (crows_actions enc_req enc_att).
Notation crows_checks := (crows_checks enc_req enc_att).
Notation crows_seq := (crows_seq enc_req enc_att).
Notation crows_seqs := (crows_seqs enc_req enc_att).
Notation crows_block := (crows_block enc_req enc_att).
Notation crows_blocks := (crows_blocks enc_req enc_att).
Notation crows_plan := (crows_plan enc_req enc_att).
Notation crows_of := (crows_of enc_req enc_att).
Notation act_encodes := (act_encodes enc_req enc_att).
Notation acts_encode := (acts_encode enc_req enc_att).
Notation ochk_encodes := (ochk_encodes enc_req enc_att).
Notation seqs_encode := (seqs_encode enc_req enc_att).
Notation blk_encodes := (blk_encodes enc_req enc_att).
Notation blks_encode := (blks_encode enc_req enc_att).
Notation pln_encodes := (pln_encodes enc_req enc_att).
Notation actionToEntry := (actionToEntry enc_req enc_att).
Notation actionsToItems := (actionsToItems enc_req enc_att).
Notation checksToItems := (checksToItems enc_req enc_att).
Notation seqToItems := (seqToItems enc_req enc_att).
Notation seqsToItems := (seqsToItems enc_req enc_att).
Notation blockToItem := (blockToItem enc_req enc_att).
Notation blocksToItems := (blocksToItems enc_req enc_att).
Notation planToItems := (planToItems enc_req enc_att).

(* ---------- planToItems ---------- *)
Definition oif (b : bool) (x : list row) : option (list row) := if b then Some x else None.

Lemma oapp_oif a b x y : oapp (oif a x) (oif b y) = oif (a && b) (x ++ y).
Proof. now destruct a, b. Qed.

Lemma objsToIDs_nn ids : Forall nn ids -> objsToIDs ids = Some ids.
Proof.
  intros H. unfold objsToIDs. destruct (existsb uid_nil ids) eqn:E; [|reflexivity].
  apply existsb_exists in E as (x & Hx & Hn). rewrite Forall_forall in H. specialize (H x Hx). unfold nn in H. congruence.
Qed.

Lemma actionToEntry_eq pid pos a : actionToEntry pid pos a = if act_encodes a then Some (RAction (carow pid pos a)) else None.
Proof.
  unfold CosmosModel.actionToEntry, Spec.act_encodes, CosmosRep.carow, enc_req_d.
  destruct (enc_req (sa_req a)) eqn:E1; simpl; [|reflexivity].
  destruct (atts_encode enc_att (sa_atts a)) eqn:E2.
  - now rewrite (enc_atts_some enc_att _ E2).
  - now rewrite (enc_atts_none enc_att _ E2).
Qed.

Lemma actionsToItems_eq pid l : forall pos, actionsToItems pid pos l = oif (acts_encode l) (crows_actions pid pos l).
Proof.
  unfold CosmosRep.crows_actions. induction l as [|a l IH]; intros pos; [reflexivity|].
  cbn [CosmosModel.actionsToItems SqliteProofs.acts_encode forallb CosmosRep.carows map].
  rewrite actionToEntry_eq, IH. destruct (act_encodes a); [|reflexivity].
  unfold SqliteProofs.acts_encode. destruct (forallb act_encodes l); reflexivity.
Qed.

Lemma checksToItems_eq pid o :
  Forall nn (flat_map chk_ids (ochk_list o)) -> checksToItems pid o = oif (ochk_encodes o) (crows_checks pid o).
Proof.
  destruct o as [c|]; [|reflexivity]. simpl. rewrite app_nil_r. intros Hn. inversion Hn as [|? ? _ Hn']; subst.
  unfold CosmosModel.checksToItems. rewrite (objsToIDs_nn _ Hn'), actionsToItems_eq.
  unfold CosmosRep.crows_checks, CosmosRep.crow_checks. now destruct (acts_encode (sc_acts c)).
Qed.

Lemma seqToItems_eq pid pos s :
  Forall nn (seq_ids s) -> seqToItems pid pos s = oif (acts_encode (sq_acts s)) (crows_seq pid pos s).
Proof.
  unfold seq_ids. intros Hn. inversion Hn as [|? ? _ Hn']; subst.
  unfold CosmosModel.seqToItems. rewrite (objsToIDs_nn _ Hn'), actionsToItems_eq.
  unfold CosmosRep.crows_seq, CosmosRep.crow_seq. now destruct (acts_encode (sq_acts s)).
Qed.

Lemma Forall_app_l' {A} (Q : A -> Prop) l1 l2 : Forall Q (l1 ++ l2) -> Forall Q l1.
Proof. intros H. apply Forall_app in H. tauto. Qed.
Lemma Forall_app_r' {A} (Q : A -> Prop) l1 l2 : Forall Q (l1 ++ l2) -> Forall Q l2.
Proof. intros H. apply Forall_app in H. tauto. Qed.

Lemma seqsToItems_eq pid l : forall pos,
  Forall nn (flat_map seq_ids l) -> seqsToItems pid pos l = oif (seqs_encode l) (crows_seqs pid pos l).
Proof.
  induction l as [|s l IH]; intros pos Hn; [reflexivity|].
  cbn [CosmosModel.seqsToItems SqliteProofs.seqs_encode forallb CosmosRep.crows_seqs flat_map] in *.
  rewrite (seqToItems_eq pid pos s (Forall_app_l' _ _ _ Hn)), (IH (S pos) (Forall_app_r' _ _ _ Hn)).
  destruct (acts_encode (sq_acts s)); [|reflexivity].
  unfold SqliteProofs.seqs_encode. destruct (forallb (fun s0 => acts_encode (sq_acts s0)) l); reflexivity.
Qed.

Lemma nn_map_of_flat {A} (f : A -> uid) (g : A -> list uid) l :
  (forall x, exists t, g x = f x :: t) -> Forall nn (flat_map g l) -> Forall nn (map f l).
Proof.
  intros Hg. induction l as [|x l IH]; simpl; intros H; [constructor|].
  destruct (Hg x) as (t & E). rewrite E in H. inversion H; subst. constructor; [assumption|].
  apply IH. now apply Forall_app_r' in H3.
Qed.

Lemma blockToItem_eq pid pos b :
  Forall nn (blk_ids b) -> blockToItem pid pos b = oif (blk_encodes b) (crows_block pid pos b).
Proof.
  unfold blk_ids, blk_groups. rewrite !flat_map_app'. intros Hn.
  assert (H1 := Forall_app_l' _ _ _ Hn). assert (Hr := Forall_app_r' _ _ _ Hn). clear Hn.
  inversion Hr as [|? ? _ Hseq]; subst. clear Hr.
  assert (G1 := Forall_app_l' _ _ _ H1). assert (H2 := Forall_app_r' _ _ _ H1). clear H1.
  assert (G2 := Forall_app_l' _ _ _ H2). assert (H3 := Forall_app_r' _ _ _ H2). clear H2.
  assert (G3 := Forall_app_l' _ _ _ H3). assert (H4 := Forall_app_r' _ _ _ H3). clear H3.
  assert (G4 := Forall_app_l' _ _ _ H4). assert (G5 := Forall_app_r' _ _ _ H4). clear H4.
  unfold CosmosModel.blockToItem.
  rewrite (objsToIDs_nn (map sq_id (sb_seqs b))).
  2:{ apply (nn_map_of_flat sq_id seq_ids); [|exact Hseq]. intros s. unfold seq_ids. eauto. }
  rewrite !checksToItems_eq, seqsToItems_eq; auto.
  change (Some [RBlock (blocksEntry pid pos b (map sq_id (sb_seqs b)))]) with (oif true [crow_block pid pos b]).
  rewrite !oapp_oif. unfold SqliteProofs.blk_encodes, CosmosRep.crows_block. rewrite andb_true_r.
  now rewrite !andb_assoc.
Qed.

Lemma blocksToItems_eq pid l : forall pos,
  Forall nn (flat_map blk_ids l) -> blocksToItems pid pos l = oif (blks_encode l) (crows_blocks pid pos l).
Proof.
  induction l as [|b l IH]; intros pos Hn; [reflexivity|].
  cbn [CosmosModel.blocksToItems SqliteProofs.blks_encode forallb CosmosRep.crows_blocks flat_map] in *.
  rewrite (blockToItem_eq pid pos b (Forall_app_l' _ _ _ Hn)), (IH (S pos) (Forall_app_r' _ _ _ Hn)).
  destruct (blk_encodes b); [|reflexivity].
  unfold SqliteProofs.blks_encode. destruct (forallb blk_encodes l); reflexivity.
Qed.

Lemma blk_ids_has_id b : In (sb_id b) (blk_ids b).
Proof. unfold blk_ids. apply in_or_app. right. now left. Qed.

Lemma planToItems_eq p :
  Forall nn (pln_ids p) -> planToItems p = oif (pln_encodes p) (crows_plan p).
Proof.
  rewrite pln_encodes_eq. unfold pln_ids, pln_groups. rewrite !flat_map_app'. intros Hn.
  inversion Hn as [|? ? Hid Hn']; subst. clear Hn.
  assert (H1 := Forall_app_l' _ _ _ Hn'). assert (Hblk := Forall_app_r' _ _ _ Hn'). clear Hn'.
  assert (G1 := Forall_app_l' _ _ _ H1). assert (H2 := Forall_app_r' _ _ _ H1). clear H1.
  assert (G2 := Forall_app_l' _ _ _ H2). assert (H3 := Forall_app_r' _ _ _ H2). clear H2.
  assert (G3 := Forall_app_l' _ _ _ H3). assert (H4 := Forall_app_r' _ _ _ H3). clear H3.
  assert (G4 := Forall_app_l' _ _ _ H4). assert (G5 := Forall_app_r' _ _ _ H4). clear H4.
  unfold CosmosModel.planToItems. unfold nn in Hid. rewrite Hid.
  rewrite (objsToIDs_nn (map sb_id (sp_blocks p))).
  2:{ apply Forall_forall. intros i Hi. apply in_map_iff in Hi as (b & <- & Hb).
      rewrite Forall_forall in Hblk. apply Hblk. apply in_flat_map. exists b. split; [exact Hb | apply blk_ids_has_id]. }
  rewrite !checksToItems_eq, blocksToItems_eq; auto.
  change (Some [RPlan (plansEntry p (map sb_id (sp_blocks p)))]) with (oif true [crow_plan p]).
  rewrite !oapp_oif. unfold SqliteProofs.pln_encodes', CosmosRep.crows_plan. rewrite andb_true_r.
  now rewrite !andb_assoc.
Qed.

(* ---------- planToItems succeeds only if everything could be encoded (no premise on ids) ---------- *)
Lemma oapp_some a b x : oapp a b = Some x -> exists y z, a = Some y /\ b = Some z.
Proof. destruct a, b; simpl; intros H; try discriminate. eauto. Qed.

Lemma actionsToItems_some pid l pos x : actionsToItems pid pos l = Some x -> acts_encode l = true.
Proof. rewrite actionsToItems_eq. unfold oif. destruct (acts_encode l); [reflexivity | discriminate]. Qed.

Lemma checksToItems_some pid o x : checksToItems pid o = Some x -> ochk_encodes o = true.
Proof.
  destruct o as [c|]; [|reflexivity]. unfold CosmosModel.checksToItems. simpl.
  destruct (objsToIDs (map sa_id (sc_acts c))); [|discriminate].
  destruct (actionsToItems pid 0 (sc_acts c)) eqn:E; [|discriminate]. intros _. exact (actionsToItems_some _ _ _ _ E).
Qed.

Lemma seqsToItems_some pid l : forall pos x, seqsToItems pid pos l = Some x -> seqs_encode l = true.
Proof.
  induction l as [|s l IH]; intros pos x; [reflexivity|].
  cbn [CosmosModel.seqsToItems SqliteProofs.seqs_encode forallb].
  destruct (seqToItems pid pos s) eqn:E1; [|discriminate]. destruct (seqsToItems pid (S pos) l) eqn:E2; [|discriminate].
  intros _. unfold CosmosModel.seqToItems in E1.
  destruct (objsToIDs (map sa_id (sq_acts s))); [|discriminate].
  destruct (actionsToItems pid 0 (sq_acts s)) eqn:E3; [|discriminate].
  rewrite (actionsToItems_some _ _ _ _ E3). exact (IH _ _ E2).
Qed.

Lemma blockToItem_some pid pos b x : blockToItem pid pos b = Some x -> blk_encodes b = true.
Proof.
  unfold CosmosModel.blockToItem, SqliteProofs.blk_encodes. destruct (objsToIDs (map sq_id (sb_seqs b))); [|discriminate].
  intros H.
  apply oapp_some in H as (y1 & z1 & H1 & H). apply oapp_some in H as (y2 & z2 & H2 & H).
  apply oapp_some in H as (y3 & z3 & H3 & H). apply oapp_some in H as (y4 & z4 & H4 & H).
  apply oapp_some in H as (y5 & z5 & H5 & H). apply oapp_some in H as (y6 & z6 & H6 & _).
  now rewrite (checksToItems_some _ _ _ H1), (checksToItems_some _ _ _ H2), (checksToItems_some _ _ _ H3),
              (checksToItems_some _ _ _ H4), (checksToItems_some _ _ _ H5), (seqsToItems_some _ _ _ _ H6).
Qed.

Lemma blocksToItems_some pid l : forall pos x, blocksToItems pid pos l = Some x -> blks_encode l = true.
Proof.
  induction l as [|b l IH]; intros pos x; [reflexivity|].
  cbn [CosmosModel.blocksToItems SqliteProofs.blks_encode forallb].
  destruct (blockToItem pid pos b) eqn:E1; [|discriminate]. destruct (blocksToItems pid (S pos) l) eqn:E2; [|discriminate].
  intros _. rewrite (blockToItem_some _ _ _ _ E1). exact (IH _ _ E2).
Qed.

Lemma planToItems_some p x : planToItems p = Some x -> pln_encodes p = true.
Proof.
  rewrite pln_encodes_eq. unfold CosmosModel.planToItems, SqliteProofs.pln_encodes'.
  destruct (uid_nil (sp_id p)); [discriminate|]. destruct (objsToIDs (map sb_id (sp_blocks p))); [|discriminate].
  intros H.
  apply oapp_some in H as (y1 & z1 & H1 & H). apply oapp_some in H as (y2 & z2 & H2 & H).
  apply oapp_some in H as (y3 & z3 & H3 & H). apply oapp_some in H as (y4 & z4 & H4 & H).
  apply oapp_some in H as (y5 & z5 & H5 & H). apply oapp_some in H as (y6 & z6 & H6 & _).
  now rewrite (checksToItems_some _ _ _ H1), (checksToItems_some _ _ _ H2), (checksToItems_some _ _ _ H3),
              (checksToItems_some _ _ _ H4), (checksToItems_some _ _ _ H5), (blocksToItems_some _ _ _ _ H6).
Qed.

End CProofs.
