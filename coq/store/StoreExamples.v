(* Store group: the premises of the C13 / C14 theorems are satisfiable on concrete, non-trivial inputs
   (nothing is vacuous), and the defects the properties exclude really are excluded: each "dev" variant
   of the model below (the behaviour of the repository before the fix commits) violates a theorem. *)
From Coq Require Import List Bool ZArith.
From Coercion.Base Require Import Plan.
From Coercion.Store Require Import Tree Rows Spec SqliteModel SqliteRep SqliteRepDec SqliteProofs SqliteRefine SqliteTheorems
     CosmosModel CosmosRep CosmosTheorems SqliteStatic StoreCheck.
Import ListNotations.

(* the perfect codec of the correspondence check satisfies the round-trip premises *)
Definition req_ok0 (_ : tok) (_ : blob) : bool := true.
Definition att_ok0 (_ : tok) (_ : attempt) : bool := true.

Lemma codec0_req : forall t b c, req_ok0 t b = true -> enc_req0 b = Some c -> dec_req0 t c = Some b.
Proof. intros t b c _. unfold enc_req0. destruct (bl_enc b); [|discriminate]. intros H. now injection H as <-. Qed.
Lemma codec0_att : forall t a c, att_ok0 t a = true -> enc_att0 a = Some c -> dec_att0 t c = Some a.
Proof. intros t a c _. unfold enc_att0. destruct (bl_enc (at_resp a)); [|discriminate]. intros H. now injection H as <-. Qed.

Definition u (n : N) : uid := {| u_ix := n; u_v7 := true |}.
Definition t (n : N) : tok := {| t_blank := false; t_empty := false; t_ix := n |}.
Definition v (ty n : N) : blob := {| bl_nil := false; bl_enc := true; bl_ty := ty; bl_ix := n |}.
Definition unenc : blob := {| bl_nil := false; bl_enc := false; bl_ty := 9; bl_ix := 0 |}.
Definition st0 : state := {| s_status := NotStarted; s_start := 0; s_end := 0 |}.
Definition st1 : state := {| s_status := Completed; s_start := 1700000000000000001; s_end := 1700000000000000002 |}.
Definition att1 : attempt :=
  {| at_resp := v 2 7; at_err := Some (PErr 3 1 true (Some (PErr 4 2 false None))); at_start := 5; at_end := 0 |}.

Definition act (id : N) (plug : N) (req : blob) : sact :=
  {| sa_id := u id; sa_key := u 0; sa_name := t id; sa_descr := t 50; sa_plugin := t plug;
     sa_timeout := 30; sa_retries := 2; sa_req := req; sa_atts := []; sa_st := st0 |}.

Definition ex_plan (base : N) (req : blob) : spln :=
  {| sp_id := u (base + 1); sp_group := u 0; sp_name := t 1; sp_descr := t 2; sp_meta := v 0 1;
     sp_byp := None;
     sp_pre := Some {| sc_id := u (base + 2); sc_key := u 0; sc_delay := 5; sc_acts := [act (base + 3) 60 (v 1 1)]; sc_st := st0 |};
     sp_cont := None; sp_post := None; sp_def := None;
     sp_blocks := [ {| sb_id := u (base + 4); sb_key := u 0; sb_name := t 3; sb_descr := t 4; sb_entr := 0; sb_exit := 0;
                       sb_byp := None; sb_pre := None; sb_cont := None; sb_post := None; sb_def := None;
                       sb_seqs := [ {| sq_id := u (base + 5); sq_key := u 0; sq_name := t 5; sq_descr := t 6;
                                       sq_acts := [act (base + 6) 61 (v 1 2); act (base + 7) 61 req]; sq_st := st0 |} ];
                       sb_conc := 1; sb_tol := (-1); sb_st := st0 |} ];
     sp_st := st0; sp_submit := 1700000000000000000; sp_reason := FRUnknown |}.

Definition p1 := ex_plan 10 (v 1 3).
Definition p2 := ex_plan 20 (v 1 4).
Definition p_bad := ex_plan 30 unenc.           (* the last sequence action's request cannot be encoded *)

Definition ex_ops : list op :=
  [ OCreate p1; OCreate p2; OUpdateAction (u 11) (u 17) st1 [att1]; OUpdatePlan (u 11) FRBlock st1 0;
    OUpdateChecks (u 21) (u 22) st1; OCreate p1; OCreate p_bad; ODelete (u 21); ODelete (u 21); OCreate p2 ].

(* ops_ok holds for this list: creates of fresh plans, a duplicate create, a create that cannot be
   encoded, updates of three kinds, a delete, a second delete of the same id, a re-create *)
Example ex_ops_ok : ops_ok enc_req0 enc_att0 req_ok0 att_ok0 [] ex_ops.
Proof. apply ops_okb_sound. vm_compute. reflexivity. Qed.

(* ... so c13_roundtrip_sqlite applies to it; and this is what it computes to *)
Example ex_results :
  SqliteModel.results enc_req0 dec_req0 enc_att0 dec_att0 ex_ops []
  = [true; true; true; true; true; false; false; true; false; true].
Proof. vm_compute. reflexivity. Qed.

Example ex_read_updated :
  option_map (fun p => (sp_reason p, s_status (sp_st p),
                        map (fun a => length (sa_atts a)) (pln_actions p)))
             (SqliteModel.read dec_req0 dec_att0 (u 11) (SqliteModel.run enc_req0 dec_req0 enc_att0 dec_att0 ex_ops []))
  = Some (FRBlock, Completed, [0; 0; 1]).
Proof. vm_compute. reflexivity. Qed.

Example ex_read_never_created :
  SqliteModel.read dec_req0 dec_att0 (u 99) (SqliteModel.run enc_req0 dec_req0 enc_att0 dec_att0 ex_ops []) = None.
Proof. vm_compute. reflexivity. Qed.

Example ex_read_failed_create :
  SqliteModel.read dec_req0 dec_att0 (u 31) (SqliteModel.run enc_req0 dec_req0 enc_att0 dec_att0 ex_ops []) = None.
Proof. vm_compute. reflexivity. Qed.

Example ex_agrees_with_spec :
  map (fun id => SqliteModel.read dec_req0 dec_att0 id (SqliteModel.run enc_req0 dec_req0 enc_att0 dec_att0 ex_ops []))
      [u 11; u 21; u 31; u 99]
  = map (fun id => Spec.read id (Spec.run enc_req0 enc_att0 ex_ops [])) [u 11; u 21; u 31; u 99].
Proof. vm_compute. reflexivity. Qed.

(* row counts per table for plan 11 after the run, and none left for the deleted-then-recreated 21 but its own *)
Example ex_counts :
  map (fun k => count_rows k (u 11) (SqliteModel.run enc_req0 dec_req0 enc_att0 dec_att0 ex_ops [])) kinds = [1; 1; 1; 1; 3]
  /\ map (fun k => count_rows k (u 31) (SqliteModel.run enc_req0 dec_req0 enc_att0 dec_att0 ex_ops [])) kinds = [0; 0; 0; 0; 0].
Proof. vm_compute. split; reflexivity. Qed.

(* ---- the defect S6 (fixed by 976f1a4) as a model variant: commitChecks drops the error of its
   actions. The variant violates c14_create_atomic: Create succeeds although a check action's request
   cannot be encoded, and the plan read back lacks that action. ---- *)
Definition commitChecks_S6 (planID : uid) (c : option schk) : M :=
  match c with
  | None => ret
  | Some c =>
    bind (insert (RChecks (checks_row_of planID c)))
         (fun d => (fst (commitActions enc_req0 enc_att0 planID 0 (sc_acts c) d), true))   (* error dropped *)
  end.

Definition create_S6 (p : spln) : M :=
  txn (bind (insert (RPlan (plan_row_of p)))
      (bind (commitChecks_S6 (sp_id p) (sp_pre p))
            (commitBlocks enc_req0 enc_att0 (sp_id p) 0 (sp_blocks p)))).

Definition p_s6 : spln :=
  let p := ex_plan 40 (v 1 5) in
  {| sp_id := sp_id p; sp_group := sp_group p; sp_name := sp_name p; sp_descr := sp_descr p; sp_meta := sp_meta p;
     sp_byp := None;
     sp_pre := Some {| sc_id := u 42; sc_key := u 0; sc_delay := 5; sc_acts := [act 43 60 unenc]; sc_st := st0 |};
     sp_cont := None; sp_post := None; sp_def := None; sp_blocks := sp_blocks p;
     sp_st := sp_st p; sp_submit := sp_submit p; sp_reason := sp_reason p |}.

Example dev_S6_refutes_C14 :
  pln_encodes enc_req0 enc_att0 p_s6 = false
  /\ snd (create_S6 p_s6 []) = true
  /\ snd (SqliteModel.create enc_req0 enc_att0 p_s6 []) = false
  /\ length (pln_actions p_s6) = 3
  /\ option_map (fun q => length (pln_actions q)) (SqliteModel.read dec_req0 dec_att0 (sp_id p_s6) (fst (create_S6 p_s6 []))) = Some 2.
Proof. vm_compute. repeat split; reflexivity. Qed.

(* ---- cosmosdb: the domain of the cosmosdb theorems is inhabited by a non-trivial list ---- *)
Definition ex_cops : list op :=
  [ OCreate p1; OCreate p2; OUpdateBlock (u 11) (u 14) st1; OUpdateAction (u 11) (u 17) st1 [att1];
    OUpdatePlan (u 11) FRBlock st1 1700000000000000000; OCreate p1; OCreate p_bad; ODelete (u 21); ODelete (u 21) ].

Lemma fresh_by_computation (p : spln) (s : store) :
  nodupb (pln_ids p) = true ->
  forallb (fun i => negb (uid_nil i)) (pln_ids p) = true ->
  forallb (fun q => forallb (fun i => negb (memb i (pln_ids q))) (pln_ids p)) s = true ->
  NoDup (pln_ids p) /\ Forall (fun i => uid_nil i = false) (pln_ids p)
  /\ (forall q i, In q s -> In i (pln_ids p) -> ~ In i (pln_ids q)).
Proof.
  intros H1 H2 H3. split; [now apply nodupb_sound|]. split.
  - eapply forallb_Forall; [|exact H2]. intros x Hx. now apply negb_true_iff in Hx.
  - intros q i Hq Hi Hin. rewrite forallb_forall in H3. specialize (H3 q Hq).
    rewrite forallb_forall in H3. specialize (H3 i Hi). apply memb_In in Hin. now rewrite Hin in H3.
Qed.

Example ex_cops_ok : cops_ok enc_req0 enc_att0 req_ok0 att_ok0 [] ex_cops.
Proof.
  unfold ex_cops. cbn [cops_ok]. repeat split.
  - (* create p1 *) vm_compute. repeat constructor.
  - right. apply fresh_by_computation; vm_compute; reflexivity.
  - (* create p2 *) vm_compute. repeat constructor.
  - right. apply fresh_by_computation; vm_compute; reflexivity.
  - (* update block 14 of plan 11 *) vm_compute. eexists. split; [left; reflexivity|]. split; [reflexivity|]. simpl. tauto.
  - (* update action 17 *) vm_compute. eexists. eexists. split; [left; reflexivity|]. split; [reflexivity|]. split; [vm_compute; right; right; left; reflexivity | reflexivity].
  - intros q a Hq Ha Hid. repeat constructor.
  - (* update plan 11, carrying its stored submit time *) vm_compute. eexists. split; [left; reflexivity|]. split; reflexivity.
  - (* duplicate create *) vm_compute. repeat constructor.
  - left. vm_compute. tauto.
  - (* unencodable create *) vm_compute. repeat constructor.
  - right. apply fresh_by_computation; vm_compute; reflexivity.
Qed.

Example ex_cosmos_results :
  CosmosModel.results enc_req0 dec_req0 enc_att0 dec_att0 ex_cops cempty
  = [true; true; true; true; true; false; false; true; false].
Proof. vm_compute. reflexivity. Qed.

Example ex_cosmos_agrees_with_spec :
  map (fun id => CosmosModel.read dec_req0 dec_att0 id (CosmosModel.run enc_req0 dec_req0 enc_att0 dec_att0 ex_cops cempty))
      [u 11; u 21; u 31; u 99]
  = map (fun id => Spec.read id (Spec.run enc_req0 enc_att0 ex_cops [])) [u 11; u 21; u 31; u 99].
Proof. vm_compute. reflexivity. Qed.

(* the two-batch gap, concretely: stage 1 = the search batch fails *)
Example ex_cosmos_gap :
  let '(c, ok) := CosmosModel.create_stage enc_req0 dec_req0 enc_att0 dec_att0 1 p1 cempty in
  ok = false /\ option_map sp_id (CosmosModel.read dec_req0 dec_att0 (u 11) c) = Some (u 11) /\ snd c = [].
Proof. vm_compute. repeat split; reflexivity. Qed.

(* ---- the list-only form of the sqlite domain (c13_roundtrip_sqlite_distinct_ids) is inhabited ---- *)
Lemma disjoint_by_computation p q :
  forallb (fun i => negb (memb i (pln_ids p))) (pln_ids q) = true -> ids_disjoint q p.
Proof.
  intros H i Hi Hin. rewrite forallb_forall in H. specialize (H i Hi). apply memb_In in Hin. now rewrite Hin in H.
Qed.

Example ex_static :
  ops_static req_ok0 att_ok0 [OCreate p1; OCreate p2; OUpdateAction (u 11) (u 17) st1 [att1]; OCreate p1; ODelete (u 11); OCreate p1].
Proof.
  split.
  - repeat constructor; try (apply (pln_domb_sound req_ok0 att_ok0); vm_compute; reflexivity);
      try (apply nodupb_sound; vm_compute; reflexivity); try (vm_compute; intuition discriminate).
  - cbn [created flat_map app].
    repeat match goal with
           | |- ForallOrdPairs _ _ => constructor
           | |- Forall _ _ => constructor
           end;
      first [left; reflexivity | right; apply disjoint_by_computation; vm_compute; reflexivity].
Qed.
