#!/usr/bin/env python3
"""Rewrite the `assumed` list of one shape file from the probe's output for the given repository (default /repo):
   python3 coq/apishape/regen_assumed.py [repo] [api|readers|attempts]      (default set: api -> ApiShape.v)
Only for deliberate re-transcription after a reviewed change of Start/runPlan/Wait; the order lemmas below the
list are NOT regenerated and must still check (make)."""
import json, os, re, subprocess, sys, tempfile
here = os.path.dirname(os.path.abspath(__file__))
root = os.path.dirname(os.path.dirname(here))
repo = sys.argv[1] if len(sys.argv) > 1 else "/repo"
setname = sys.argv[2] if len(sys.argv) > 2 else "api"
fname = dict(api="ApiShape.v", readers="ReaderShape.v", attempts="RunShape.v")[setname]
env = dict(os.environ, GOFLAGS="-mod=mod", GOPROXY="off", GOSUMDB="off", GOTOOLCHAIN="local")
out = tempfile.mktemp(suffix=".json")
subprocess.check_call(["go1.26", "run", "./cmd/limiterprobe", "-set", setname, "-repo", repo, "-out", out],
                      cwd=os.path.join(root, "harness"), env=env)
d = json.load(open(out))
p = os.path.join(here, fname)
src = open(p).read()
i = src.index("Definition assumed")
j = src.index("(* ------", i)
notes = {}
for line in src[i:j].split("\n"):
    m = re.match(r'^\s{4}("(?:[^"]|"")*");?\s*(\(\*.*\*\))', line)
    if m:
        notes[m.group(1)] = m.group(2)
q = lambda s: '"' + s.replace('"', '""') + '"'
o = ["Definition assumed : list (string * list string) := ["]
fns = d["functions"]
for a, f in enumerate(fns):
    o.append(" (%s, [" % q(f["name"]))
    for b, t in enumerate(f["tokens"]):
        line = "    %s%s" % (q(t["t"]), ";" if b + 1 < len(f["tokens"]) else "")
        if q(t["t"]) in notes:
            line = line.ljust(96) + " " + notes[q(t["t"])]
        o.append(line)
    o.append(" ])" + (";" if a + 1 < len(fns) else ""))
o.append("].\n")
open(p, "w").write(src[:i] + "\n".join(o) + src[j:])
print("rewrote", p, "from", d["file"])
