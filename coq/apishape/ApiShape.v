(* Statement shape of Plans.Start, Plans.runPlan and Plans.Wait (/repo/internal/execute/execute.go) that the
   C12 model (coq/api: "register the waiter, then spawn" is the order of its Launch step) assumes.
   Same probe and rules as coq/limiter/SourceShape.v (harness/cmd/limiterprobe -set api): one token per simple
   statement / control header / brace in source order, string literals normalised to STR, unknown syntax printed
   as UNKNOWN:... (never equal to this list).  lib/props/apishape.py regenerates the list from the repository
   under test on every C12 run and proves `observed = assumed` inside Coq by vm_compute.  This project is
   deliberately independent of coq/limiter (a change in sm.go must not make C12 alarm). *)
From Coq Require Import List String Bool Arith.
Import ListNotations.
Open Scope string_scope.

Definition assumed : list (string * list string) := [
 ("Start", [
    "func (e *Plans) Start(ctx context.Context, id uuid.UUID) (error)";
    "{";
    "e.startMu.Lock()";                                                                          (* only one Start at a time (fix of A1) *)
    "defer e.startMu.Unlock()";                                                                  (* released when Start returns, i.e. after runPlan registered the waiter *)
    "if _, ok := e.waiters.Get(id); ok";                                                         (* already running -> error (ApiModel: Start rejected) *)
    "{";
    "return errors.E(ctx, errors.CatUser, errors.TypeParameter, fmt.Errorf(STR, id))";
    "}";
    "plan, err := e.store.Read(ctx, id)";
    "if err != nil";
    "{";
    "return err";
    "}";
    "if err := e.validateStartState(ctx, plan); err != nil";
    "{";
    "return errors.E(ctx, errors.CatInternal, errors.TypeBug, err)";
    "}";
    "e.runPlan(ctx, plan)";                                                                      (* ApiModel Launch step *)
    "return nil";
    "}"
 ]);
 ("runPlan", [
    "func (e *Plans) runPlan(ctx context.Context, plan *workflow.Plan)";
    "{";
    "runCtx, cancel := context.WithCancel(context.WithoutCancel(ctx))";
    "e.stoppers.Set(plan.ID, cancel)";                                                           (* register the stopper BEFORE the spawn *)
    "e.waiters.Set(plan.ID, make(chan struct{}))";                                               (* register the waiter BEFORE the spawn *)
    "context.Pool(ctx).Submit(context.WithoutCancel(ctx), func#0)";
    "func#0()";
    "{";
    "defer func#0()";
    "func#0()";
    "{";
    "cancel()";
    "e.stoppers.Del(plan.ID)";
    "waiter, _ := e.waiters.Get(plan.ID)";
    "close(waiter)";                                                                             (* clean-up: close(nil) panics if the waiter was not registered yet *)
    "e.waiters.Del(plan.ID)";
    "}";
    "next := e.states.Start";
    "if plan.State.Status == workflow.Running";
    "{";
    "next = e.states.Recovery";
    "}";
    "req := statemachine.Request[sm.Data]{Ctx: runCtx, Data: sm.Data{Plan: plan}, Next: next}";
    "e.runner(plan.Name, req)";                                                                  (* the state machine runs *)
    "}";
    "}"
 ]);
 ("Wait", [
    "func (e *Plans) Wait(ctx context.Context, id uuid.UUID) (error)";
    "{";
    "waiter, ok := e.waiters.Get(id)";
    "if !ok";
    "{";
    "return ErrNotFound";
    "}";
    "select";
    "{";
    "case <-ctx.Done():";
    "{";
    "return context.Canceled";
    "}";
    "case <-waiter:";                                                                            (* released by close(waiter) *)
    "{";
    "return nil";
    "}";
    "}";
    "}"
 ])
].
(* ------------------------------------------------------------------ comparison (used by the generated scratch file) *)
Fixpoint list_eqb {A} (eqb : A -> A -> bool) (l1 l2 : list A) : bool :=
  match l1, l2 with
  | [], [] => true
  | x :: r1, y :: r2 => eqb x y && list_eqb eqb r1 r2
  | _, _ => false
  end.

Definition fn_eqb (a b : string * list string) : bool :=
  String.eqb (fst a) (fst b) && list_eqb String.eqb (snd a) (snd b).
Definition shape_eqb (a b : list (string * list string)) : bool := list_eqb fn_eqb a b.

(* index of the first differing token of two token lists (None = equal) *)
Fixpoint first_diff (k : nat) (l1 l2 : list string) : option nat :=
  match l1, l2 with
  | [], [] => None
  | x :: r1, y :: r2 => if String.eqb x y then first_diff (S k) r1 r2 else Some k
  | _, _ => Some k
  end.

(* per function of [b] (by position): 0 = same name and tokens; S k = first difference at token k
   (a function missing or renamed counts as a difference at token 0) *)
Fixpoint shape_diff (a b : list (string * list string)) : list nat :=
  match a with
  | [] => map (fun _ => 1) b
  | x :: ra =>
      match b with
      | [] => 1 :: map (fun _ => 1) ra
      | y :: rb =>
          (if String.eqb (fst x) (fst y)
           then match first_diff 0 (snd x) (snd y) with None => 0 | Some k => S k end
           else 1) :: shape_diff ra rb
      end
  end.

Definition has_unknown (t : string) : bool := String.prefix "UNKNOWN" t.
Definition no_unknown (a : list (string * list string)) : bool :=
  forallb (fun f => forallb (fun t => negb (has_unknown t)) (snd f)) a.

(* ------------------------------------------------------------------ order facts the models rely on *)
Definition toks (f : string) : list string :=
  match find (fun p => String.eqb (fst p) f) assumed with Some p => snd p | None => [] end.

Fixpoint drop_until (t : string) (l : list string) : list string :=
  match l with [] => [] | x :: r => if String.eqb x t then r else drop_until t r end.

(* [ordered pat l]: the tokens of [pat] occur in [l] in this order (as a subsequence) *)
Fixpoint ordered (pat l : list string) {struct l} : bool :=
  match pat with
  | [] => true
  | p :: rest => match l with
                 | [] => false
                 | x :: r => if String.eqb x p then ordered rest r else ordered pat r
                 end
  end.

Definition count (t : string) (l : list string) : nat := List.length (filter (String.eqb t) l).

Lemma assumed_no_unknown : no_unknown assumed = true.
Proof. vm_compute. reflexivity. Qed.

Lemma shape_diff_self : forallb (Nat.eqb 0) (shape_diff assumed assumed) = true.
Proof. vm_compute. reflexivity. Qed.

(* runPlan: the stopper and the waiter are registered BEFORE the engine goroutine is handed to the pool, each
   exactly once; the goroutine's deferred clean-up closes the registered waiter (so close never sees nil) *)
Lemma runPlan_registers_before_submit :
  ordered ["runCtx, cancel := context.WithCancel(context.WithoutCancel(ctx))";
           "e.stoppers.Set(plan.ID, cancel)"; "e.waiters.Set(plan.ID, make(chan struct{}))";
           "context.Pool(ctx).Submit(context.WithoutCancel(ctx), func#0)";
           "defer func#0()"; "waiter, _ := e.waiters.Get(plan.ID)"; "close(waiter)"; "e.waiters.Del(plan.ID)";
           "e.runner(plan.Name, req)"] (toks "runPlan") = true /\
  count "e.stoppers.Set(plan.ID, cancel)" (toks "runPlan") = 1 /\
  count "e.waiters.Set(plan.ID, make(chan struct{}))" (toks "runPlan") = 1 /\
  count "context.Pool(ctx).Submit(context.WithoutCancel(ctx), func#0)" (toks "runPlan") = 1 /\
  (* nothing but the two registrations stands between the context creation and the Submit *)
  firstn 3 (drop_until "runCtx, cancel := context.WithCancel(context.WithoutCancel(ctx))" (toks "runPlan"))
    = ["e.stoppers.Set(plan.ID, cancel)"; "e.waiters.Set(plan.ID, make(chan struct{}))";
       "context.Pool(ctx).Submit(context.WithoutCancel(ctx), func#0)"] /\
  (* and nothing follows the Submit call in runPlan itself: the last tokens are the literal's and the function's braces *)
  ordered ["e.stoppers.Set(plan.ID, cancel)"] (drop_until "context.Pool(ctx).Submit(context.WithoutCancel(ctx), func#0)" (toks "runPlan")) = false /\
  ordered ["e.waiters.Set(plan.ID, make(chan struct{}))"] (drop_until "context.Pool(ctx).Submit(context.WithoutCancel(ctx), func#0)" (toks "runPlan")) = false.
Proof. vm_compute. repeat split; reflexivity. Qed.

(* runPlan: the run is submitted with a context the caller cannot cancel (fix 5e33fe2: with the bare `ctx`, a
   Context cancelled between Read and Submit made the pool drop the run while Start returned nil and the waiter
   stayed registered); no Submit with the bare ctx as first argument exists *)
Lemma runPlan_submit_ctx_not_cancellable :
  count "context.Pool(ctx).Submit(context.WithoutCancel(ctx), func#0)" (toks "runPlan") = 1 /\
  count "context.Pool(ctx).Submit(ctx, func#0)" (toks "runPlan") = 0 /\
  List.length (filter (String.prefix "context.Pool(ctx).Submit(") (toks "runPlan")) = 1.
Proof. vm_compute. repeat split; reflexivity. Qed.

(* Start: the lock is taken first and released by defer; under it: waiters lookup, Read, validation, runPlan *)
Lemma start_holds_lock_across_lookup_read_launch :
  firstn 2 (drop_until "{" (toks "Start")) = ["e.startMu.Lock()"; "defer e.startMu.Unlock()"] /\
  ordered ["e.startMu.Lock()"; "defer e.startMu.Unlock()"; "if _, ok := e.waiters.Get(id); ok";
           "plan, err := e.store.Read(ctx, id)"; "if err := e.validateStartState(ctx, plan); err != nil";
           "e.runPlan(ctx, plan)"; "return nil"] (toks "Start") = true /\
  count "e.startMu.Lock()" (toks "Start") = 1 /\ count "defer e.startMu.Unlock()" (toks "Start") = 1 /\
  count "e.startMu.Unlock()" (toks "Start") = 0 /\ count "e.runPlan(ctx, plan)" (toks "Start") = 1.
Proof. vm_compute. repeat split; reflexivity. Qed.

(* Wait: looks the waiter up once and blocks on it (or on the caller's context) *)
Lemma wait_blocks_on_registered_waiter :
  ordered ["waiter, ok := e.waiters.Get(id)"; "if !ok"; "return ErrNotFound"; "select";
           "case <-ctx.Done():"; "case <-waiter:"; "return nil"] (toks "Wait") = true.
Proof. vm_compute. repeat split; reflexivity. Qed.
