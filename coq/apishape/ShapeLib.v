(* Helpers shared by the shape files of this project (same definitions as in ApiShape.v / coq/limiter/SourceShape.v,
   with the token list as an explicit argument). *)
From Coq Require Import List String Bool Arith.
Import ListNotations.
Open Scope string_scope.

(* ------------------------------------------------------------------ comparison (used by the generated scratch file) *)
Fixpoint list_eqb {A} (eqb : A -> A -> bool) (l1 l2 : list A) : bool :=
  match l1, l2 with
  | [], [] => true
  | x :: r1, y :: r2 => eqb x y && list_eqb eqb r1 r2
  | _, _ => false
  end.

Definition fn_eqb (a b : string * list string) : bool :=
  String.eqb (fst a) (fst b) && list_eqb String.eqb (snd a) (snd b).
Definition shape_eqb (a b : list (string * list string)) : bool := list_eqb fn_eqb a b.

(* index of the first differing token of two token lists (None = equal) *)
Fixpoint first_diff (k : nat) (l1 l2 : list string) : option nat :=
  match l1, l2 with
  | [], [] => None
  | x :: r1, y :: r2 => if String.eqb x y then first_diff (S k) r1 r2 else Some k
  | _, _ => Some k
  end.

(* per function of [b] (by position): 0 = same name and tokens; S k = first difference at token k
   (a function missing or renamed counts as a difference at token 0) *)
Fixpoint shape_diff (a b : list (string * list string)) : list nat :=
  match a with
  | [] => map (fun _ => 1) b
  | x :: ra =>
      match b with
      | [] => 1 :: map (fun _ => 1) ra
      | y :: rb =>
          (if String.eqb (fst x) (fst y)
           then match first_diff 0 (snd x) (snd y) with None => 0 | Some k => S k end
           else 1) :: shape_diff ra rb
      end
  end.

Definition has_unknown (t : string) : bool := String.prefix "UNKNOWN" t.
Definition no_unknown (a : list (string * list string)) : bool :=
  forallb (fun f => forallb (fun t => negb (has_unknown t)) (snd f)) a.

(* ------------------------------------------------------------------ order facts the models rely on *)
Definition toks_of (a : list (string * list string)) (f : string) : list string :=
  match find (fun p => String.eqb (fst p) f) a with Some p => snd p | None => [] end.

Fixpoint drop_until (t : string) (l : list string) : list string :=
  match l with [] => [] | x :: r => if String.eqb x t then r else drop_until t r end.

(* [ordered pat l]: the tokens of [pat] occur in [l] in this order (as a subsequence) *)
Fixpoint ordered (pat l : list string) {struct l} : bool :=
  match pat with
  | [] => true
  | p :: rest => match l with
                 | [] => false
                 | x :: r => if String.eqb x p then ordered rest r else ordered pat r
                 end
  end.

Definition count (t : string) (l : list string) : nat := List.length (filter (String.eqb t) l).

(* the tokens before the first occurrence of [t] (all of [l] if there is none) *)
Fixpoint take_until (t : string) (l : list string) : list string :=
  match l with [] => [] | x :: r => if String.eqb x t then [] else x :: take_until t r end.
(* the suffix starting AT the first occurrence of [t] *)
Fixpoint from_first (t : string) (l : list string) : list string :=
  match l with [] => [] | x :: r => if String.eqb x t then l else from_first t r end.
Definition count_prefix (pre : string) (l : list string) : nat := List.length (filter (String.prefix pre) l).
