(* PlanInv - the plan level of the resumed automaton.
     W   (state only) the plan's check groups run only in their phase windows (C04's p_windows): kept by the engine's
         handlers and epsilon-moves and by the resumed automaton's own moves; hence at End no plan group has a run open
         and none may open one;
     PL  once the plan is durably terminal the state chain is at End (or released) and the in-memory plan status is
         finalStates (Final.final) of the in-memory statuses - which no later write changes.
   Proofs only. *)
From Coq Require Import Lia.
From Coercion.Base Require Import Plan.
From Coercion.Engine Require Import Shape Event Action ChecksRun Seq Block Final PlanSM Auto Accept AutoLemmas.
From Coercion.C04 Require Import InvGlobal.
From Coercion.C06 Require Import Groups Steps.
From Coercion.Resume Require Import Resume ResumeLemmas ReleaseProofs Frame NoReexec.
From Coercion.Chain Require Import ResumedInv.
From Coercion.C10x Require Import Cells GroupInv MemInv.

Notation W := p_windows.

(* an operation leaves a run open only if one was open, or one may start *)
Lemma g_apply_open ors may dst d g op x owed :
  g_apply ors may dst d g op = Some (x, owed) -> g_is_idle x = false -> g_is_idle g = false \/ may = true.
Proof.
  intros H Hx. destruct op; cbn [g_apply] in H.
  - destruct ors as [rs|]; [|discriminate]. apply option_map_some in H as (y & H & E). injection E as <- _. unfold g_mark in H.
    destruct (g_act g i) as [a|] eqn:Ea.
    + left. destruct g; [discriminate|reflexivity].
    + destruct g as [runs l|]; [|discriminate]. destruct may; [now right|discriminate].
  - apply option_map_some in H as (y & H & E). unfold g_start in H. destruct g; [discriminate|now left].
  - apply option_map_some in H as (y & H & E). unfold g_end in H. destruct g; [discriminate|now left].
  - destruct ors as [rs|]; [|discriminate]. unfold g_attempt in H. destruct g; [discriminate|now left].
  - apply option_map_some in H as (y & H & E). unfold g_final in H. destruct g; [discriminate|now left].
  - apply option_map_some in H as (y & H & E). injection E as <- _. unfold g_verdict in H.
    destruct (g_close_spec _ _ _ H) as (runs & acts & _ & _ & _ & ->). discriminate.
Qed.

Lemma idle_dec g : g_is_idle g = true \/ g_is_idle g = false.
Proof. destruct (g_is_idle g); auto. Qed.

Lemma pphase_eqb_true a b : pphase_eqb a b = true -> a = b.
Proof. destruct a, b; simpl; intro H; try discriminate; reflexivity. Qed.

(* the window of group g is open in s *)
Definition wopen (s : st) (g : grp) : Prop :=
  match g with
  | GBypass => s_ph s = PBypass
  | GPre => s_ph s = PPre
  | GCont => s_ph s = PPre \/ thr_live (s_thr s) = true
  | GPost => s_ph s = PPost /\ thr_live (s_thr s) = false
  | GDeferred => s_ph s = PDeferred /\ thr_live (s_thr s) = false
  end.

Lemma W_alt s :
  W s <-> ((forall g, g_is_idle (tget (s_g s) g) = true \/ wopen s g)
           /\ (thr_live (s_thr s) = true -> s_ph s = PBlocks \/ s_ph s = PPost \/ s_ph s = PDeferred)).
Proof.
  unfold p_windows, wopen. split.
  - intros (A & B & C & D & E & F). split; [|exact F]. intros []; assumption.
  - intros [H F]. pose proof (H GBypass). pose proof (H GPre). pose proof (H GCont). pose proof (H GPost). pose proof (H GDeferred).
    repeat split; assumption.
Qed.

Lemma may_start_open s g : p_may_start s g = true -> wopen s g.
Proof.
  unfold p_may_start, wopen. destruct g; intro H.
  - apply andb_true_iff in H as [H _]. now apply pphase_eqb_true.
  - apply andb_true_iff in H as [H _]. now apply pphase_eqb_true.
  - apply orb_true_iff in H as [H|H].
    + apply andb_true_iff in H as [H _]. left. now apply pphase_eqb_true.
    + apply andb_true_iff in H as [H _]. apply andb_true_iff in H as [H _]. now right.
  - apply andb_true_iff in H as [H _]. apply andb_true_iff in H as [H1 H2]. split; [now apply pphase_eqb_true|].
    now apply negb_true_iff.
  - apply andb_true_iff in H as [H _]. apply andb_true_iff in H as [H1 H2]. split; [now apply pphase_eqb_true|].
    now apply negb_true_iff.
Qed.

Lemma tget_tset_same t g x : tget (tset t g x) g = x.
Proof. destruct g; reflexivity. Qed.
Lemma tget_tset_other t g g' x : g <> g' -> tget (tset t g x) g' = tget t g'.
Proof. destruct g, g'; try reflexivity; intro H; now elim H. Qed.

Lemma grp_dec (g g' : grp) : {g = g'} + {g <> g'}.
Proof. decide equality. Qed.

(* ------------------------------------------------------------------ the engine's handlers *)
Lemma W_handle sh s e s' : W s -> handle sh s e = Some s' -> W s'.
Proof.
  intros Hw H. apply W_alt in Hw as [Hg Ht]. apply W_alt.
  assert (Same : s_g s' = s_g s -> s_ph s' = s_ph s -> s_thr s' = s_thr s ->
                 (forall g, g_is_idle (tget (s_g s') g) = true \/ wopen s' g)
                 /\ (thr_live (s_thr s') = true -> s_ph s' = PBlocks \/ s_ph s' = PPost \/ s_ph s' = PDeferred)).
  { intros E1 E2 E3. unfold wopen. rewrite E1, E2, E3. split; assumption. }
  destruct (handle_cases _ _ _ _ H) as
    [g op x owed _ Ha _ Hu _ | b bs g op x owed _ _ Ha _ Hu _ | b bs q sq sq' owed _ _ _ Hu _ | b bs stt r _ _ _ Hu _
    | stt r _ _ Hu _ | a l _ _ _ E2 E3 E4 _ _ _ _ _ | snap _ E | fin _ Hpe _ _ _ E2 E3 E4 _ _ _ _].
  - split.
    + intro g'. unfold wopen. rewrite (us_g _ _ _ _ _ _ Hu), (us_ph _ _ _ _ _ _ Hu), (us_thr _ _ _ _ _ _ Hu).
      destruct (grp_dec g g') as [<- |Hne]; [|rewrite tget_tset_other by exact Hne; apply Hg].
      rewrite tget_tset_same. destruct (idle_dec x) as [Hi|Hi]; [now left|].
      destruct (g_apply_open _ _ _ _ _ _ _ _ Ha Hi) as [Ho|Hm].
      * destruct (Hg g) as [Q|Q]; [congruence|right; exact Q].
      * right. apply (may_start_open s g Hm).
    + rewrite (us_ph _ _ _ _ _ _ Hu), (us_thr _ _ _ _ _ _ Hu). exact Ht.
  - apply Same; [exact (us_g _ _ _ _ _ _ Hu)|exact (us_ph _ _ _ _ _ _ Hu)|exact (us_thr _ _ _ _ _ _ Hu)].
  - apply Same; [exact (us_g _ _ _ _ _ _ Hu)|exact (us_ph _ _ _ _ _ _ Hu)|exact (us_thr _ _ _ _ _ _ Hu)].
  - apply Same; [exact (us_g _ _ _ _ _ _ Hu)|exact (us_ph _ _ _ _ _ _ Hu)|exact (us_thr _ _ _ _ _ _ Hu)].
  - apply Same; [exact (us_g _ _ _ _ _ _ Hu)|exact (us_ph _ _ _ _ _ _ Hu)|exact (us_thr _ _ _ _ _ _ Hu)].
  - apply Same; assumption.
  - subst s'. split; assumption.
  - (* release: at End every window is closed *)
    assert (Hnl : thr_live (s_thr s) = false).
    { destruct (thr_live (s_thr s)) eqn:L; [|reflexivity]. destruct (Ht eq_refl) as [Q|[Q|Q]]; congruence. }
    split.
    + intro g. left. rewrite E3. destruct (Hg g) as [Q|Q]; [exact Q|]. unfold wopen in Q.
      destruct g; try congruence; destruct Q; congruence.
    + rewrite E4, Hnl. discriminate.
Qed.

(* a group the plan does not have never runs *)
Definition absent_idle (sh : shape) (s : st) : Prop :=
  forall g, grp_get (sh_groups sh) g = None -> g_is_idle (tget (s_g s) g) = true.

Lemma g_apply_absent may dst d g op x owed : g_apply None may dst d g op = Some (x, owed) -> g_is_idle g = true -> False.
Proof.
  intros H Hi. destruct g as [r l|]; [|discriminate]. destruct op; cbn [g_apply] in H; try discriminate;
    apply option_map_some in H as (y & H & _); discriminate.
Qed.

Lemma A_handle sh s e s' : absent_idle sh s -> handle sh s e = Some s' -> absent_idle sh s'.
Proof.
  intros Ha H.
  destruct (handle_cases _ _ _ _ H) as
    [g op x owed _ Hap _ Hu _ | b bs g op x owed _ _ _ _ Hu _ | b bs q sq sq' owed _ _ _ Hu _ | b bs stt r _ _ _ Hu _
    | stt r _ _ Hu _ | a l _ _ _ _ E3 _ _ _ _ _ _ | snap _ E | fin _ _ _ _ _ _ E3 _ _ _ _ _];
    try (intros g' Hn; rewrite (us_g _ _ _ _ _ _ Hu); now apply Ha); try (intros g' Hn; rewrite E3; now apply Ha).
  - intros g' Hn. rewrite (us_g _ _ _ _ _ _ Hu). destruct (grp_dec g g') as [<- |Hne]; [|rewrite tget_tset_other by exact Hne; now apply Ha].
    exfalso. rewrite Hn in Hap. eapply g_apply_absent; [exact Hap|now apply Ha].
  - subst s'. exact Ha.
Qed.

Definition WA (sh : shape) (s : st) : Prop := W s /\ absent_idle sh s.

Lemma once_done_idle present g dst x v : once_done present g dst = Some (x, v) -> (present = false -> g_is_idle g = true) -> g_is_idle x = true.
Proof.
  unfold once_done. destruct present.
  - destruct (g_settle g dst) as [[[|r] [v0|]|]|]; try discriminate. intro H. injection H as <- _. reflexivity.
  - intro H. injection H as <- _. auto.
Qed.

Lemma g_settle_idle g dst x : g_settle g dst = Some x -> g_is_idle x = true.
Proof.
  unfold g_settle. destruct g as [r l|r acts]; [intro H; injection H as <-; reflexivity|].
  intro H. destruct (g_close_spec _ _ _ H) as (runs & acts' & _ & _ & _ & ->). reflexivity.
Qed.

Lemma present_none o : present o = false -> o = None.
Proof. destruct o; [discriminate|reflexivity]. Qed.

Lemma WA_p_eps sh s s' : WA sh s -> p_eps sh s = Some s' -> WA sh s'.
Proof.
  intros [Hw Ha] H. apply W_alt in Hw as [Hg Ht].
  assert (Hidle : forall g, ~ wopen s g -> g_is_idle (tget (s_g s) g) = true) by (intros g Hn; destruct (Hg g); [assumption|contradiction]).
  assert (Mk : forall s1, (forall g, g_is_idle (tget (s_g s1) g) = true \/ wopen s1 g) ->
                          (thr_live (s_thr s1) = true -> s_ph s1 = PBlocks \/ s_ph s1 = PPost \/ s_ph s1 = PDeferred) ->
                          (forall g, grp_get (sh_groups sh) g = None -> g_is_idle (tget (s_g s1) g) = true) -> WA sh s1).
  { intros s1 A B C. split; [apply W_alt; split; assumption|exact C]. }
  unfold p_eps in H. destruct (s_ph s) eqn:Ep.
  - (* PStart *)
    destruct (status_eqb _ Running); [|discriminate]. injection H as <-.
    assert (Hnl : thr_live (s_thr s) = false) by (destruct (thr_live (s_thr s)) eqn:L; [destruct (Ht eq_refl) as [Q|[Q|Q]]; congruence|reflexivity]).
    apply Mk; cbn.
    + intro g. left. apply Hidle. unfold wopen. rewrite Ep, Hnl. destruct g; intuition congruence.
    + rewrite Hnl. discriminate.
    + exact Ha.
  - (* PBypass *)
    assert (Hnl : thr_live (s_thr s) = false) by (destruct (thr_live (s_thr s)) eqn:L; [destruct (Ht eq_refl) as [Q|[Q|Q]]; congruence|reflexivity]).
    assert (Hoth : forall g, g <> GBypass -> g_is_idle (tget (s_g s) g) = true).
    { intros g Hne. apply Hidle. unfold wopen. rewrite Ep, Hnl. destruct g; intuition congruence. }
    destruct (g_bypass (sh_groups sh)) eqn:Eg.
    + destruct (once_done true (t_bypass (s_g s)) _) as [[x v]|] eqn:E; [|discriminate].
      pose proof (once_done_idle _ _ _ _ _ E ltac:(discriminate)) as Hx.
      assert (All : forall g, g_is_idle (tget (tset (s_g s) GBypass x) g) = true).
      { intro g. destruct (grp_dec GBypass g) as [<- |Hne]; [rewrite tget_tset_same; exact Hx|rewrite tget_tset_other by exact Hne; apply Hoth; congruence]. }
      destruct v; injection H as <-; apply Mk; cbn; try (intro g; left; apply All); try (rewrite Hnl; discriminate);
        intros g _; apply All.
    + injection H as <-. apply Mk; cbn.
      * intro g. left. destruct (grp_dec g GBypass) as [-> |Hne]; [apply Ha; exact Eg|now apply Hoth].
      * rewrite Hnl. discriminate.
      * exact Ha.
  - (* PPre *)
    assert (Hnl : thr_live (s_thr s) = false) by (destruct (thr_live (s_thr s)) eqn:L; [destruct (Ht eq_refl) as [Q|[Q|Q]]; congruence|reflexivity]).
    assert (Hoth : forall g, g <> GPre -> g <> GCont -> g_is_idle (tget (s_g s) g) = true).
    { intros g H1 H2. apply Hidle. unfold wopen. rewrite Ep, Hnl. destruct g; intuition congruence. }
    destruct (once_done _ (t_pre (s_g s)) _) as [[x v1]|] eqn:E1; [|discriminate].
    destruct (once_done _ (t_cont (s_g s)) _) as [[y v2]|] eqn:E2; [|discriminate].
    assert (Hx : g_is_idle x = true).
    { eapply once_done_idle; [exact E1|]. intro P. apply present_none in P. exact (Ha GPre P). }
    assert (Hy : g_is_idle y = true).
    { eapply once_done_idle; [exact E2|]. intro P. apply present_none in P. exact (Ha GCont P). }
    assert (All : forall g, g_is_idle (tget (tset (tset (s_g s) GPre x) GCont y) g) = true).
    { intro g. destruct (grp_dec GCont g) as [<- |Hne]; [rewrite tget_tset_same; exact Hy|rewrite tget_tset_other by exact Hne].
      destruct (grp_dec GPre g) as [<- |Hne2]; [rewrite tget_tset_same; exact Hx|rewrite tget_tset_other by exact Hne2].
      apply Hoth; congruence. }
    destruct (v1 && v2); injection H as <-.
    + apply Mk.
      * intro g. left. unfold enter_block. destruct (block_of sh 0); cbn; apply All.
      * intros _. left. unfold enter_block. destruct (block_of sh 0); reflexivity.
      * intros g _. unfold enter_block. destruct (block_of sh 0); cbn; apply All.
    + apply Mk; cbn; [intro g; left; apply All|rewrite Hnl; discriminate|intros g _; apply All].
  - (* PBlocks *)
    assert (Keep : forall s1, s_g s1 = s_g s -> s_thr s1 = s_thr s -> (s_ph s1 = PBlocks \/ s_ph s1 = PPost \/ s_ph s1 = PDeferred) -> WA sh s1).
    { intros s1 E1 E2 E3. apply Mk.
      - intro g. rewrite E1. destruct (Hg g) as [Q|Q]; [now left|]. unfold wopen in *. rewrite E2.
        destruct g.
        + congruence.
        + congruence.
        + destruct Q as [Q|Q]; [congruence|]. right. now right.
        + destruct Q as [Q _]. congruence.
        + destruct Q as [Q _]. congruence.
      - intros _. exact E3.
      - intros g Hn. rewrite E1. now apply Ha. }
    destruct (block_of sh (s_cb s)) as [bs|].
    + destruct (b_eps bs (s_img s) (s_cb s) (p_visible s) (s_b s)) as [[b'|[|]]|]; try discriminate; injection H as <-.
      * apply Keep; cbn; auto.
      * apply Keep; cbn; auto.
      * unfold enter_block. destruct (block_of sh (S (s_cb s))); apply Keep; cbn; auto.
    + injection H as <-. apply Keep; cbn; auto.
  - (* PPost *)
    assert (Hoth : forall g, g <> GCont -> g <> GPost -> g_is_idle (tget (s_g s) g) = true).
    { intros g H1 H2. apply Hidle. unfold wopen. rewrite Ep. destruct g; intuition congruence. }
    destruct (thr_live (s_thr s)) eqn:L.
    + destruct (g_settle _ _) as [x|] eqn:E; [|discriminate]. injection H as <-.
      pose proof (g_settle_idle _ _ _ E) as Hx.
      assert (Hpost : g_is_idle (tget (s_g s) GPost) = true).
      { apply Hidle. unfold wopen. rewrite L. intros [_ Q]. discriminate. }
      assert (All : forall g, g_is_idle (tget (tset (s_g s) GCont x) g) = true).
      { intro g. destruct (grp_dec GCont g) as [<- |Hne]; [rewrite tget_tset_same; exact Hx|rewrite tget_tset_other by exact Hne].
        destruct (grp_dec g GPost) as [-> |Hne2]; [exact Hpost|apply Hoth; congruence]. }
      destruct (g_dead x); apply Mk; cbn; try (intro g; left; apply All); try discriminate; intros g _; apply All.
    + destruct (once_done _ (t_post (s_g s)) _) as [[x v]|] eqn:E; [|discriminate]. injection H as <-.
      assert (Hx : g_is_idle x = true).
      { eapply once_done_idle; [exact E|]. intro P. apply present_none in P. exact (Ha GPost P). }
      assert (Hcont : g_is_idle (tget (s_g s) GCont) = true).
      { apply Hidle. unfold wopen. rewrite Ep, L. intros [Q|Q]; discriminate. }
      assert (All : forall g, g_is_idle (tget (tset (s_g s) GPost x) g) = true).
      { intro g. destruct (grp_dec GPost g) as [<- |Hne]; [rewrite tget_tset_same; exact Hx|rewrite tget_tset_other by exact Hne].
        destruct (grp_dec g GCont) as [-> |Hne2]; [exact Hcont|apply Hoth; congruence]. }
      apply Mk; cbn; [intro g; left; apply All|rewrite L; discriminate|intros g _; apply All].
  - (* PDeferred *)
    assert (Hoth : forall g, g <> GCont -> g <> GDeferred -> g_is_idle (tget (s_g s) g) = true).
    { intros g H1 H2. apply Hidle. unfold wopen. rewrite Ep. destruct g; intuition congruence. }
    destruct (thr_live (s_thr s)) eqn:L.
    + destruct (g_settle _ _) as [x|] eqn:E; [|discriminate]. injection H as <-.
      pose proof (g_settle_idle _ _ _ E) as Hx.
      assert (Hdef : g_is_idle (tget (s_g s) GDeferred) = true).
      { apply Hidle. unfold wopen. rewrite L. intros [_ Q]. discriminate. }
      assert (All : forall g, g_is_idle (tget (tset (s_g s) GCont x) g) = true).
      { intro g. destruct (grp_dec GCont g) as [<- |Hne]; [rewrite tget_tset_same; exact Hx|rewrite tget_tset_other by exact Hne].
        destruct (grp_dec g GDeferred) as [-> |Hne2]; [exact Hdef|apply Hoth; congruence]. }
      apply Mk; cbn; [intro g; left; apply All|discriminate|intros g _; apply All].
    + destruct (once_done _ (t_deferred (s_g s)) _) as [[x v]|] eqn:E; [|discriminate]. injection H as <-.
      assert (Hx : g_is_idle x = true).
      { eapply once_done_idle; [exact E|]. intro P. apply present_none in P. exact (Ha GDeferred P). }
      assert (Hcont : g_is_idle (tget (s_g s) GCont) = true).
      { apply Hidle. unfold wopen. rewrite Ep, L. intros [Q|Q]; discriminate. }
      assert (All : forall g, g_is_idle (tget (tset (s_g s) GDeferred x) g) = true).
      { intro g. destruct (grp_dec GDeferred g) as [<- |Hne]; [rewrite tget_tset_same; exact Hx|rewrite tget_tset_other by exact Hne].
        destruct (grp_dec g GCont) as [-> |Hne2]; [exact Hcont|apply Hoth; congruence]. }
      apply Mk; cbn; [intro g; left; apply All|rewrite L; discriminate|intros g _; apply All].
  - discriminate.
  - discriminate.
Qed.

(* ------------------------------------------------------------------ the resumed automaton keeps the windows *)
Lemma WA_handle sh s e s' : WA sh s -> handle sh s e = Some s' -> WA sh s'.
Proof. intros [A B] H. split; [eapply W_handle; eauto|eapply A_handle; eauto]. Qed.

Lemma WA_same sh s s' : s_g s' = s_g s -> s_ph s' = s_ph s -> s_thr s' = s_thr s -> WA sh s -> WA sh s'.
Proof.
  intros E1 E2 E3 [Hw Ha]. split.
  - unfold p_windows in *. rewrite E1, E2, E3. exact Hw.
  - intros g Hn. rewrite E1. now apply Ha.
Qed.

Lemma WA_idle sh s : (forall g, g_is_idle (tget (s_g s) g) = true) -> thr_live (s_thr s) = false -> WA sh s.
Proof.
  intros Hi Hl. split; [|intros g _; apply Hi]. apply W_alt. split; [intro g; left; apply Hi|rewrite Hl; discriminate].
Qed.

Definition WAR (sh : shape) (r : rst) : Prop := r_ph r = RIdle \/ WA sh (r_s r).

Lemma plan_gtab_idle sh m g : g_is_idle (tget (plan_gtab sh m) g) = true.
Proof.
  unfold plan_gtab. destruct g; cbn [tget t_bypass t_pre t_cont t_post t_deferred]; try reflexivity;
    destruct (is_terminal _); reflexivity.
Qed.

Lemma WAR_start_recover sh r todo : WAR sh (start_recover sh r todo).
Proof.
  right. unfold start_recover, take_entry. destruct todo as [|[b qs] rest]; cbn [r_s]; apply WA_idle; cbn [s_g s_thr]; try reflexivity.
  - apply plan_gtab_idle.
  - intros []; reflexivity.
Qed.

Lemma WAR_reps sh r r1 : WAR sh r -> reps sh r = Some r1 -> WAR sh r1.
Proof.
  intros Hg H. unfold reps in H. destruct (r_ph r) as [| [|[b qs] todo] |] eqn:Ep; try discriminate.
  - destruct (forallb s_done (b_seqs (s_b (r_s r)))); [|discriminate]. injection H as <-. apply WAR_start_recover.
  - destruct Hg as [Hg|Hg]; [congruence|].
    apply option_map_some in H as (s2 & H & ->). unfold rp_eps in H.
    destruct (p_eps sh (r_s r)) as [s'|] eqn:Ee; [|discriminate]. injection H as <-.
    pose proof (WA_p_eps _ _ _ Hg Ee) as G'. right. cbn [r_s with_s].
    destruct (entered (r_s r) s'); [|exact G'].
    destruct (r_enter_spec sh (mget r) s' (s_cb s')) as (cb' & -> & _). eapply WA_same; [| | |exact G']; reflexivity.
Qed.

Lemma WAR_rhandle d sh r e r' : WAR sh r -> rhandle d sh r e = Some r' -> WAR sh r'.
Proof.
  intros [Hg|Hg] H; [left; rewrite (rhandle_ph _ _ _ _ _ H); exact Hg|]. unfold rhandle in H.
  assert (Hs : forall x, option_map (with_s r) x = Some r' -> (forall s', x = Some s' -> WA sh s') -> WAR sh r').
  { intros x Hx Hy. apply option_map_some in Hx as (s' & E & ->). right. cbn. auto. }
  assert (Hrel : forall fin, r_release d sh r fin = Some r' -> WAR sh r').
  { intros fin Hr. unfold r_release in Hr. destruct (r_ph r) eqn:Ep; try discriminate.
    - destruct (negb (released (r_s r)) && _); [|discriminate]. injection Hr as <-. left. exact Ep.
    - destruct (all_flushed sh r && _); [|discriminate]. eapply Hs; [exact Hr|]. intros s' E. eapply (WA_handle sh _ (EvRelease fin)); eauto. }
  assert (Hwr : forall o stt n ok rs, r_write sh r o stt n ok rs = Some r' -> WAR sh r').
  { intros o stt n ok rs Hw.
    assert (Hrl : released (r_s r) = false).
    { unfold r_write in Hw. destruct (released (r_s r)); [discriminate|reflexivity]. }
    destruct (r_write_cases _ _ _ _ _ _ _ _ Hw) as [_ [(s' & Hh & ->)|[(b & q & b1 & qs & rest & -> & -> & _ & _ & Hu & ->)|[-> ->]]]].
    - right. cbn. eapply (WA_handle sh _ (EvWrite o stt n ok rs)); [exact Hg|]. cbn [handle]. now rewrite Hrl.
    - right. exact Hg.
    - right. exact Hg. }
  destruct (r_ph r); destruct e; try discriminate; eauto.
  - eapply Hs; [exact H|]. intros s' E. eapply (WA_handle sh _ (EvRead snap)); eauto.
  - eapply Hs; [exact H|]. intros s' E. eapply WA_handle; eauto.
  - eapply Hs; [exact H|]. intros s' E. eapply WA_handle; eauto.
  - eapply Hs; [exact H|]. intros s' E. eapply WA_handle; eauto.
  - eapply Hs; [exact H|]. intros s' E. eapply WA_handle; eauto.
  - eapply Hs; [exact H|]. intros s' E. eapply WA_handle; eauto.
  - eapply Hs; [exact H|]. intros s' E. eapply WA_handle; eauto.
Qed.

Lemma WAR_flush sh r e r' : WAR sh r -> flush sh r e = Some r' -> WAR sh r'.
Proof.
  intros [Hg|Hg] H; [left; rewrite (flush_ph _ _ _ _ H); exact Hg|]. unfold flush in H. destruct (r_ph r); [discriminate| |];
    (destruct e; try discriminate; destruct o; try discriminate;
     match type of H with (if ?c then _ else _) = _ => destruct c; [|discriminate] end; injection H as <-; right; exact Hg).
Qed.

Lemma WAR_rinit sh im rs r0 : rinit sh im rs = Some r0 -> WAR sh r0.
Proof.
  unfold rinit. destruct (negb (status_eqb (ist im OPlan) Running)).
  - intro H. injection H as <-. left. reflexivity.
  - destruct (negb (resumable_ok (pln_of sh im))); [discriminate|]. intro H. injection H as <-. apply WAR_start_recover.
Qed.

Lemma WAR_run d sh tr r r' : WAR sh r -> rrun d sh r tr = Some r' -> WAR sh r'.
Proof.
  apply rrun_inv. apply rstep_inv.
  - apply WAR_reps.
  - intros r0 e r1. apply WAR_rhandle.
  - intros r0 e r1. apply WAR_flush.
Qed.

(* ------------------------------------------------------------------ finalStates reads plan groups and blocks only *)
Lemma existsb_ext_in {A} (f g : A -> bool) l : (forall x, In x l -> f x = g x) -> existsb f l = existsb g l.
Proof.
  induction l as [|x l IH]; intro H; simpl; [reflexivity|].
  rewrite (H x (or_introl eq_refl)), IH; [reflexivity|]. intros y Hy. apply H. now right.
Qed.
Lemma forallb_ext_in' {A} (f g : A -> bool) l : (forall x, In x l -> f x = g x) -> forallb f l = forallb g l.
Proof.
  induction l as [|x l IH]; intro H; simpl; [reflexivity|].
  rewrite (H x (or_introl eq_refl)), IH; [reflexivity|]. intros y Hy. apply H. now right.
Qed.

Lemma final_ext sh (st st' : obj -> status) :
  (forall g, st' (OChecks SPlan g) = st (OChecks SPlan g)) -> (forall b, st' (OBlock b) = st (OBlock b)) ->
  final sh st' = final sh st.
Proof.
  intros Hg Hb. unfold final, examine_bypass, final_blocks, any_block_failed, all_blocks_completed.
  assert (Ex : forall gs, examine sh st' gs = examine sh st gs).
  { induction gs as [|g gs IH]; simpl; [reflexivity|]. now rewrite Hg, IH. }
  rewrite !Ex, Hg.
  rewrite (existsb_ext_in (fun b => status_eqb (st' (OBlock b)) Failed) (fun b => status_eqb (st (OBlock b)) Failed)) by (intros b _; now rewrite Hb).
  rewrite (forallb_ext_in' (fun b => status_eqb (st' (OBlock b)) Completed) (fun b => status_eqb (st (OBlock b)) Completed)) by (intros b _; now rewrite Hb).
  reflexivity.
Qed.

(* ------------------------------------------------------------------ at End nothing the verdict depends on is written *)
Lemma W_end_idle s : W s -> s_ph s = PEnd -> forall g, g_is_idle (tget (s_g s) g) = true.
Proof.
  intros Hw Hp g. apply W_alt in Hw as [Hg Ht].
  assert (Hnl : thr_live (s_thr s) = false) by (destruct (thr_live (s_thr s)) eqn:L; [destruct (Ht eq_refl) as [Q|[Q|Q]]; congruence|reflexivity]).
  destruct (Hg g) as [Q|Q]; [exact Q|]. unfold wopen in Q. rewrite Hp, Hnl in Q. destruct g; intuition congruence.
Qed.

Lemma end_write_inputs sh s o stt n ok r s' :
  h_write sh s o stt n ok r = Some s' -> s_ph s = PEnd -> (forall g, g_is_idle (tget (s_g s) g) = true) ->
  (forall g, o <> OChecks SPlan g) /\ (forall b, o <> OBlock b).
Proof.
  intros H Hp Hi. unfold h_write in H. destruct (negb (obj_in_shape sh o)); [discriminate|]. split.
  - intros g ->. destruct n; [|discriminate]. destruct ok; [discriminate|].
    apply option_map_some in H as (s1 & H & _). cbn [h_write_obj] in H.
    assert (Hno : g_verdict (tget (s_g s) g) stt = None).
    { specialize (Hi g). unfold g_verdict, g_close. destruct (tget (s_g s) g); [reflexivity|discriminate]. }
    destruct stt; try discriminate; unfold p_chk_verdict in H; rewrite Hno in H; discriminate.
  - intros b ->. destruct n; [|discriminate]. destruct ok; [discriminate|].
    apply option_map_some in H as (s1 & H & _). cbn [h_write_obj] in H.
    unfold cur_block in H. rewrite Hp in H. simpl in H. discriminate.
Qed.

(* ------------------------------------------------------------------ PL *)
Definition PL (sh : shape) (r : rst) : Prop :=
  is_terminal (ist (s_img (r_s r)) OPlan) = true ->
  (s_ph (r_s r) = PEnd \/ s_ph (r_s r) = PReleased) /\ mst (mget r) OPlan = fst (final sh (mst (mget r))).

Lemma mst_upd m o c o' : mst (mupd m o c) o' = if obj_eqb o o' then c_st c else mst m o'.
Proof. unfold mst, mupd. destruct (obj_eqb o o'); reflexivity. Qed.

Lemma final_mupd sh m o c :
  (forall g, o <> OChecks SPlan g) -> (forall b, o <> OBlock b) -> final sh (mst (mupd m o c)) = final sh (mst m).
Proof.
  intros H1 H2. apply final_ext.
  - intro g. unfold mst. rewrite mupd_other; [reflexivity|apply H1].
  - intro b. unfold mst. rewrite mupd_other; [reflexivity|apply H2].
Qed.

Lemma mget_ext_final sh r r' : (forall o, mget r' o = mget r o) -> final sh (mst (mget r')) = final sh (mst (mget r)).
Proof. intro H. apply final_ext; intros; unfold mst; now rewrite H. Qed.

Lemma PL_rhandle d sh I r e r' : Inv sh I r -> WAR sh r -> PL sh r -> rhandle d sh r e = Some r' -> PL sh r'.
Proof.
  intros Hi Hwa HP H. pose proof (i_live _ _ _ Hi) as Hl. destruct Hwa as [Hwa|[Hw _]]; [contradiction|]. unfold rhandle in H.
  assert (Hs : forall s', s_img s' = s_img (r_s r) -> s_ph s' = s_ph (r_s r) -> PL sh (with_s r s')).
  { intros s' E1 E2. unfold PL. cbn [r_s with_s]. rewrite E1, E2. exact HP. }
  destruct e as [a|a o|o stt n ok rs|snap|fin].
  - assert (H' : option_map (with_s r) (handle sh (r_s r) (EvStart a)) = Some r') by (destruct (r_ph r); [contradiction|exact H..]).
    apply option_map_some in H' as (s' & H' & ->). simpl in H'. destruct (released (r_s r)); [discriminate|].
    destruct (h_start_spec _ _ _ _ H') as [Ei Hs']. apply Hs; [exact Ei|].
    destruct a as [[|b] g i|b q i]; [apply Hs'|apply Hs'|destruct Hs' as [_ (k & Hm)]; apply Hm].
  - assert (H' : option_map (with_s r) (handle sh (r_s r) (EvEnd a o)) = Some r') by (destruct (r_ph r); [contradiction|exact H..]).
    apply option_map_some in H' as (s' & H' & ->). simpl in H'.
    destruct (h_end_spec _ _ _ _ _ H') as [Ei [Hk|(b & q & i & k & _ & _ & Hm)]]; (apply Hs; [exact Ei|]); [apply Hk|apply Hm].
  - assert (H' : r_write sh r o stt n ok rs = Some r') by (destruct (r_ph r); [contradiction|exact H..]). clear H.
    assert (Hrl : released (r_s r) = false) by (unfold r_write in H'; destruct (released (r_s r)); [discriminate|reflexivity]).
    assert (Hfin : forall o0 c r2, (forall o', mget r2 o' = mupd (mget r) o0 c o') ->
                   (forall g, o0 <> OChecks SPlan g) -> (forall b, o0 <> OBlock b) ->
                   final sh (mst (mget r2)) = final sh (mst (mget r))).
    { intros o0 c r2 Em N1 N2. rewrite (final_ext sh (mst (mupd (mget r) o0 c)) _) by (intros; unfold mst; now rewrite Em).
      now apply final_mupd. }
    destruct (obj_eqb o OPlan) eqn:Eo.
    + (* the plan *)
      apply obj_eqb_eq in Eo. subst o. unfold r_write in H'. rewrite Hrl in H'. cbn [obj_in_shape negb orb] in H'.
      assert (Hno : forall n0 ok0, (n0, ok0) <> (0, false) -> h_write sh (r_s r) OPlan stt n0 ok0 rs = None).
      { intros n0 ok0 Hne. unfold h_write. cbn [obj_in_shape negb]. destruct n0; [destruct ok0; [reflexivity|now elim Hne]|reflexivity]. }
      destruct n as [|n]; [destruct ok|]; try (rewrite Hno in H' by discriminate; discriminate).
      destruct (in_plan_end r) eqn:Epe.
      * apply option_map_some in H' as (r1 & E & ->). unfold r_plan_final in E.
        destruct (pphase_eqb (s_ph (r_s r)) PEnd && is_terminal stt && negb (is_terminal (ist (s_img (r_s r)) OPlan))
                  && status_eqb stt (fst (final sh (mst (mget r)))) && reason_eqb rs (snd (final sh (mst (mget r))))) eqn:G; [|discriminate].
        injection E as <-.
        apply andb_true_iff in G as [G _]. apply andb_true_iff in G as [G G4]. apply andb_true_iff in G as [G _].
        apply andb_true_iff in G as [G1 _]. apply pphase_eqb_true in G1. apply status_eqb_eq in G4.
        rewrite commit_eq. unfold PL. cbn [r_s with_mem with_s]. intros _. split; [left; exact G1|].
        rewrite (Hfin OPlan (wcell stt 0 false) _ (fun o' => mget_write _ _ _ _ o')) by discriminate.
        unfold mst at 1. rewrite mget_write, mupd_same. exact G4.
      * apply option_map_some in H' as (s' & Hw' & ->).
        destruct (h_write_spec _ _ _ _ _ _ _ _ Hw') as (_ & Ei & _).
        destruct (h_write_plan _ _ _ _ _ _ _ Hw') as [[Hps ->]|[Hpe _]].
        -- unfold PL. cbn [r_s with_mem with_s]. rewrite Ei. intro Ht. unfold ist in Ht. rewrite iget_iset_same in Ht. discriminate.
        -- unfold in_plan_end in Epe. rewrite Hpe in Epe. discriminate.
    + assert (Hne : o <> OPlan) by (intro E; subst o; rewrite (proj2 (obj_eqb_eq _ _) eq_refl) in Eo; discriminate).
      destruct (r_write_cases _ _ _ _ _ _ _ _ H') as [Hshape [(s' & Hw' & ->)|[(b & q & b1 & qs & rest & -> & -> & Hph & Hq & Hu & ->)|[-> _]]]];
        [| |now elim Hne].
      * (* a write the engine's handlers take *)
        destruct (h_write_spec _ _ _ _ _ _ _ _ Hw') as (_ & Ei & He). pose proof (write_effect_ctl _ _ _ _ _ He) as (Ep & _).
        unfold PL. cbn [r_s with_mem with_s]. rewrite Ei, Ep. intro Ht.
        unfold ist in Ht. rewrite iget_iset_other in Ht by (intro E; now apply Hne). destruct (HP Ht) as [Hph Heq].
        split; [exact Hph|]. destruct Hph as [Hpe|Hpr]; [|unfold released in Hrl; rewrite Hpr in Hrl; discriminate].
        destruct (end_write_inputs _ _ _ _ _ _ _ _ Hw' Hpe (W_end_idle _ Hw Hpe)) as [N1 N2].
        rewrite (Hfin o (wcell stt n ok) _ (fun o' => mget_write _ _ _ _ o') N1 N2).
        unfold mst at 1. rewrite mget_write, mupd_other by exact Hne. exact Heq.
      * (* execSeq of a resumed sequence *)
        rewrite commit_eq. unfold PL. cbn [r_s with_mem with_s]. intro Ht. unfold ist, put in Ht. cbn in Ht.
        destruct (HP Ht) as [Hph' Heq]. split; [exact Hph'|].
        rewrite (Hfin (OSeq b q) (wcell Running n ok) _ (fun o' => mget_write _ _ _ _ o')) by discriminate.
        unfold mst at 1. rewrite mget_write, mupd_other by discriminate. exact Heq.
  - assert (H' : option_map (with_s r) (h_read sh (r_s r) snap) = Some r') by (destruct (r_ph r); [contradiction|exact H..]).
    apply option_map_some in H' as (s' & H' & ->). unfold h_read in H'.
    assert (s' = r_s r) as -> by (destruct (s_fin (r_s r)); [destruct (images_agree _ _ _); [|discriminate]|]; now injection H' as <-).
    now apply Hs.
  - assert (H' : r_release d sh r fin = Some r') by (destruct (r_ph r); [contradiction|exact H..]). clear H.
    unfold r_release in H'. destruct (r_ph r) eqn:Ep; [contradiction|discriminate|].
    destruct (all_flushed sh r && quiet d sh (r_I r) (mget r)); [|discriminate].
    apply option_map_some in H' as (s' & H & ->). unfold h_release in H.
    match type of H with (if ?c then _ else _) = _ => destruct c; [|discriminate] end. injection H as <-.
    unfold PL. cbn. intro Ht. destruct (HP Ht) as [_ Heq]. split; [now right|exact Heq].
Qed.

Lemma PL_flush sh r e r' : PL sh r -> flush sh r e = Some r' -> PL sh r'.
Proof.
  intros HP H. unfold flush in H. destruct (r_ph r); [discriminate| |];
    (destruct e; try discriminate; destruct o; try discriminate;
     match type of H with (if ?c then _ else _) = _ => destruct c; [|discriminate] end; injection H as <-;
     unfold PL; cbn; exact HP).
Qed.

Lemma PL_reps sh I r r1 : Inv sh I r -> PL sh r -> reps sh r = Some r1 -> PL sh r1.
Proof.
  intros Hi HP H. unfold reps in H. destruct (r_ph r) as [| [|[b qs] todo] |] eqn:Ep; try discriminate.
  - destruct (forallb s_done (b_seqs (s_b (r_s r)))); [|discriminate]. injection H as <-.
    destruct (i_rec _ _ _ Hi _ Ep) as ((b0 & qs0 & rest & _ & [Hpb _] & _) & _).
    assert (Hnt : is_terminal (ist (s_img (r_s r)) OPlan) = false).
    { destruct (is_terminal (ist (s_img (r_s r)) OPlan)) eqn:T; [|reflexivity]. destruct (HP T) as [[Q|Q] _]; congruence. }
    unfold PL, start_recover, take_entry. destruct todo as [|[b1 qs1] rest1]; cbn [r_s s_img]; rewrite Hnt; discriminate.
  - apply option_map_some in H as (s2 & H & ->). unfold rp_eps in H.
    destruct (p_eps sh (r_s r)) as [s'|] eqn:Ee; [|discriminate]. injection H as <-.
    destruct (p_eps_not_ended _ _ _ Ee) as [N1 N2].
    assert (Hnt : is_terminal (ist (s_img (r_s r)) OPlan) = false).
    { destruct (is_terminal (ist (s_img (r_s r)) OPlan)) eqn:T; [|reflexivity]. destruct (HP T) as [[Q|Q] _]; contradiction. }
    destruct (p_eps_spec _ _ _ Ee) as [Ei _].
    unfold PL. cbn [r_s with_s]. destruct (entered (r_s r) s').
    + destruct (r_enter_spec sh (mget r) s' (s_cb s')) as (cb' & -> & _). cbn [s_img with_block]. rewrite Ei, Hnt. discriminate.
    + rewrite Ei, Hnt. discriminate.
Qed.

Lemma PL_rinit sh im rs r0 : ist im OPlan = Running -> rinit sh im rs = Some r0 -> PL sh r0.
Proof.
  intros Hp H. unfold rinit in H. rewrite Hp in H. simpl in H.
  destruct (negb (resumable_ok (pln_of sh im))); [discriminate|]. injection H as <-.
  unfold PL, start_recover, take_entry. destruct (group_by_block _) as [|[b qs] rest]; cbn [r_s s_img]; rewrite Hp; discriminate.
Qed.

(* ------------------------------------------------------------------ every run *)
Record K2 (sh : shape) (I : dimg) (r : rst) : Prop := { k2_k : K sh I r; k2_w : WAR sh r; k2_pl : PL sh r }.

Theorem K2_run sh I d rs r0 tr r :
  mem_sound sh I -> repair_sound sh I -> ist I OPlan = Running -> rinit sh I rs = Some r0 -> rrun d sh r0 tr = Some r -> K2 sh I r.
Proof.
  intros MS RS Hp Hi. apply rrun_inv.
  - apply rstep_inv.
    + intros r1 r2 [[A B C] D E] H. constructor; [constructor; [eapply reps_inv; eauto|eapply M_reps; eauto|eapply GR_reps; eauto]|eapply WAR_reps; eauto|eapply PL_reps; eauto].
    + intros r1 e r2 [[A B C] D E] H. constructor; [constructor; [exact (proj1 (handle_inv sh I RS d _ _ _ A H))|eapply M_rhandle; eauto|eapply GR_rhandle; eauto]|eapply WAR_rhandle; eauto|eapply PL_rhandle; eauto].
    + intros r1 e r2 [[A B C] D E] H. constructor; [constructor; [exact (proj1 (flush_inv sh I _ _ _ A H))|eapply M_flush; eauto|eapply GR_flush; eauto]|eapply WAR_flush; eauto|eapply PL_flush; eauto].
  - constructor; [constructor; [eapply rinit_inv; eauto|eapply M_rinit; eauto|eapply GR_rinit; eauto]|eapply WAR_rinit; eauto|eapply PL_rinit; eauto].
Qed.

Lemma K2_reps sh I : mem_sound sh I -> repair_sound sh I -> forall r r1, K2 sh I r -> reps sh r = Some r1 -> K2 sh I r1.
Proof.
  intros MS RS r r1 [[A B C] D E] H.
  constructor; [constructor; [eapply reps_inv; eauto|eapply M_reps; eauto|eapply GR_reps; eauto]|eapply WAR_reps; eauto|eapply PL_reps; eauto].
Qed.
