(* FixCons - fixAction / fixSeq (coq/recover/Fix.v, the transcription of recovery.go) keep the consistency rules of
   Cells.v: a sequence whose actions are [finished ... finished, one in progress, untouched ... untouched] is turned
   by the repair into a Completed / Failed / NotStarted sequence that obeys clause 7, or stays Running in the same
   shape with no action Running.  Level of Fix.v (no shape, no image).  Proofs only. *)
From Coq Require Import Lia.
From Coercion.Base Require Import Plan.
From Coercion.Engine Require Import Shape Event.
From Coercion.Recover Require Fix FixSpec FixProofs.
From Coercion.Resume Require Import Resume.
From Coercion.Resume Require FixFacts.
From Coercion.C10x Require Import Cells.
Module FP := Coercion.Recover.FixProofs.
Module FF := Coercion.Resume.FixFacts.

(* the cells of a list of actions of Fix.v *)
Definition acf (l : list F.act) : nat -> cell :=
  fun i => match nth_error l i with Some a => act_cell a | None => cell0 end.

Record fcons (s : F.seq) : Prop := {
  fc_act : forall i, i < length (F.sq_acts s) -> act_ok (acf (F.sq_acts s) i);
  fc_seq : sconsf (acf (F.sq_acts s)) (F.sq_st s) (length (F.sq_acts s));
  fc_run : F.sq_st s = Running -> run_shapef (acf (F.sq_acts s)) (length (F.sq_acts s));
  fc_nostop : F.sq_st s <> Stopped }.

Lemma acf_nth l i a : nth_error l i = Some a -> acf l i = act_cell a.
Proof. unfold acf. now intros ->. Qed.

Lemma acf_lt l i : i < length l -> exists a, nth_error l i = Some a /\ acf l i = act_cell a.
Proof.
  intro H. destruct (nth_error l i) as [a|] eqn:E; [|apply nth_error_None in E; lia].
  exists a. split; [reflexivity|now apply acf_nth].
Qed.

Lemma act_ok_not_stopped c : act_ok c -> c_st c <> Stopped.
Proof.
  intros [H|[H|[H|H]]]; [congruence|subst c; discriminate|destruct H as [H _]; congruence|destruct H as [H _]; congruence].
Qed.

(* ---- fixAction, on the cell of the action ---- *)
Lemma fix_action_cell a :
  (F.ac_st a <> Running /\ F.fix_action a = a)
  \/ (F.ac_st a = Running
      /\ (act_cell (F.fix_action a) = cell0 \/ done (act_cell (F.fix_action a)) \/ failedc (act_cell (F.fix_action a)))).
Proof.
  destruct (status_eqb (F.ac_st a) Running) eqn:E.
  - apply status_eqb_eq in E. right. split; [exact E|].
    destruct (FP.atts_cases (F.ac_atts a)) as [Ho|(kept & x & dropped & Ha & Hx & Hd)].
    + left. rewrite (FP.fix_action_reset a E Ho). reflexivity.
    + right. rewrite (FP.fix_action_done a kept x dropped E Ha Hx Hd). unfold act_cell, done, failedc. cbn [F.ac_st F.ac_atts c_st c_n c_ok].
      rewrite rev_app_distr, app_length. cbn [rev app length]. destruct (F.x_err x); [right|left]; (split; [reflexivity|split; [lia|reflexivity]]).
  - left. apply FP.status_eqb_false in E. split; [exact E|now apply FP.fix_action_other].
Qed.

Lemma acf_fix l i :
  i < length l ->
  (c_st (acf l i) <> Running -> acf (map F.fix_action l) i = acf l i)
  /\ (c_st (acf l i) = Running ->
      acf (map F.fix_action l) i = cell0 \/ done (acf (map F.fix_action l) i) \/ failedc (acf (map F.fix_action l) i)).
Proof.
  intro Hi. destruct (acf_lt l i Hi) as (a & Hn & ->).
  assert (Hm : acf (map F.fix_action l) i = act_cell (F.fix_action a)).
  { apply acf_nth. now rewrite nth_error_map, Hn. }
  rewrite Hm. change (c_st (act_cell a)) with (F.ac_st a).
  destruct (fix_action_cell a) as [[H1 H2]|[H1 H2]]; split; intro H.
  - now rewrite H2.
  - contradiction.
  - contradiction.
  - exact H2.
Qed.

(* ---- counting ---- *)
Lemma count_le {A} (st : A -> status) t l : F.count_st st t l <= length l.
Proof. unfold F.count_st. induction l as [|x l IH]; simpl; [lia|]. destruct (status_eqb (st x) t); simpl; lia. Qed.

Lemma count_all {A} (st : A -> status) t l : F.count_st st t l = length l -> Forall (fun x => st x = t) l.
Proof.
  induction l as [|x l IH]; intro H; [constructor|].
  pose proof (count_le st t l) as Hle. unfold F.count_st in *. simpl in H.
  destruct (status_eqb (st x) t) eqn:E; simpl in H.
  - constructor; [now apply status_eqb_eq|]. apply IH. lia.
  - lia.
Qed.

Lemma forall_nth_st (P : F.act -> Prop) l : Forall P l -> forall i a, nth_error l i = Some a -> P a.
Proof. intros H i a Hn. rewrite Forall_forall in H. apply H. eapply nth_error_In; eauto. Qed.

Lemma forall_of_nth {A} (P : A -> Prop) l : (forall k x, nth_error l k = Some x -> P x) -> Forall P l.
Proof. intro H. apply Forall_forall. intros x Hx. apply In_nth_error in Hx as [k Hk]. eauto. Qed.

(* ---- fixSeq ---- *)
Lemma nth_lt {A} (l : list A) k x : nth_error l k = Some x -> k < length l.
Proof. intro H. apply nth_error_Some. rewrite H. discriminate. Qed.

Lemma fcons_no_stopped s : fcons s -> Forall (fun a => F.ac_st a <> Stopped) (F.sq_acts s).
Proof.
  intro Hc. apply forall_of_nth. intros k a Hk. change (F.ac_st a) with (c_st (act_cell a)).
  rewrite <- (acf_nth _ _ _ Hk). apply act_ok_not_stopped. apply (fc_act s Hc). eapply nth_lt; eauto.
Qed.

Lemma fix_seq_fcons s : fcons s -> fcons (F.fix_seq s).
Proof.
  intro Hc. destruct (FP.fix_seq_status s) as [Er|E]; [|now rewrite E].
  pose proof (fcons_no_stopped s Hc) as Hns.
  destruct (fc_run s Hc Er) as (j & Hj & Hpre & Hsuf).
  set (l := F.sq_acts s) in *. set (n := length l) in *. set (acts := map F.fix_action l).
  assert (Hlen : length acts = n) by (unfold acts; now rewrite map_length).
  assert (C1 : forall i, i < j -> done (acf acts i)).
  { intros i Hi. assert (Hin : i < n) by lia. pose proof (Hpre i Hi) as Hd.
    destruct (acf_fix l i Hin) as [H1 _]. unfold acts. rewrite H1; [exact Hd|]. destruct Hd as [-> _]. discriminate. }
  assert (C2 : forall i, j < i -> i < n -> acf acts i = cell0).
  { intros i Hi Hin. pose proof (Hsuf i Hi Hin) as Hd.
    destruct (acf_fix l i Hin) as [H1 _]. unfold acts. rewrite H1; [exact Hd|]. rewrite Hd. discriminate. }
  assert (C3 : j < n -> acf acts j = cell0 \/ done (acf acts j) \/ failedc (acf acts j)).
  { intro Hin. destruct (acf_fix l j Hin) as [H1 H2]. unfold acts.
    destruct (fc_act s Hc j Hin) as [H|[H|[H|H]]]; fold l in H.
    - now apply H2.
    - left. rewrite H1; [exact H|]. rewrite H. discriminate.
    - right. left. rewrite H1; [exact H|]. destruct H as [-> _]. discriminate.
    - right. right. rewrite H1; [exact H|]. destruct H as [-> _]. discriminate. }
  assert (Cok : forall i, i < n -> act_ok (acf acts i)).
  { intros i Hi. destruct (lt_eq_lt_dec i j) as [[L| ->]|L].
    - right. right. left. now apply C1.
    - destruct (C3 Hi) as [H|[H|H]]; [right; left; exact H|right; right; left; exact H|right; right; right; exact H].
    - right. left. now apply C2. }
  assert (Cst : forall k x, nth_error acts k = Some x -> F.ac_st x = c_st (acf acts k)).
  { intros k x Hk. now rewrite (acf_nth _ _ _ Hk). }
  assert (H0 : F.count_st F.ac_st Stopped acts = 0).
  { apply FF.count_zero_of_forall. unfold acts. apply Forall_map. eapply Forall_impl; [|exact Hns]. intro a. apply FP.fix_action_not_stopped. }
  unfold F.fix_seq. rewrite Er. simpl. fold l. rewrite (FF.count_zero_of_forall _ _ _ Hns). simpl. fold acts. rewrite H0. simpl.
  destruct (Nat.ltb 0 (F.count_st F.ac_st Failed acts)) eqn:Ef; simpl.
  - (* a Failed action: it is the one that was in progress *)
    assert (Hne : F.count_st F.ac_st Failed acts <> 0) by (apply Nat.ltb_lt in Ef; lia).
    destruct (FF.count_pos_exists _ _ _ Hne) as (x & Hx & Ex). apply In_nth_error in Hx as [k Hk].
    pose proof (nth_lt _ _ _ Hk) as Hkn. rewrite Hlen in Hkn. pose proof (Cst _ _ Hk) as Hst. rewrite Ex in Hst.
    assert (k = j).
    { destruct (lt_eq_lt_dec k j) as [[L|E]|L]; [|exact E|].
      - destruct (C1 k L) as [Q _]. congruence.
      - rewrite (C2 k L Hkn) in Hst. discriminate. }
    subst k. assert (Hf : failedc (acf acts j)).
    { destruct (C3 Hkn) as [H|[H|H]]; [rewrite H in Hst; discriminate|destruct H as [Q _]; congruence|exact H]. }
    constructor; cbn [F.sq_acts F.sq_st]; rewrite ?Hlen.
    + exact Cok.
    + exists j. split; [exact Hkn|]. split; [exact C1|]. split; [exact Hf|exact C2].
    + discriminate.
    + discriminate.
  - pose proof (FP.count_st_zero _ _ _ (FP.ltb0_false _ Ef)) as Hnf.
    assert (Cnf : forall i, i < n -> ~ failedc (acf acts i)).
    { intros i Hi [Q _]. rewrite <- Hlen in Hi. destruct (acf_lt acts i Hi) as (a & Ha & Ea). rewrite Ea in Q.
      exact (forall_nth_st _ _ Hnf _ _ Ha Q). }
    destruct (Nat.eqb (F.count_st F.ac_st Completed acts) 0 && Nat.eqb (F.count_st F.ac_st Running acts) 0) eqn:Ec; simpl.
    + (* nothing Completed: every action is untouched *)
      apply andb_true_iff in Ec as [Ec _]. apply Nat.eqb_eq in Ec. pose proof (FP.count_st_zero _ _ _ Ec) as Hnc.
      assert (Cnd : forall i, i < n -> ~ done (acf acts i)).
      { intros i Hi [Q _]. rewrite <- Hlen in Hi. destruct (acf_lt acts i Hi) as (a & Ha & Ea). rewrite Ea in Q.
        exact (forall_nth_st _ _ Hnc _ _ Ha Q). }
      constructor; cbn [F.sq_acts F.sq_st]; rewrite ?Hlen.
      * exact Cok.
      * intros i Hi. destruct (lt_eq_lt_dec i j) as [[L| ->]|L].
        -- exfalso. exact (Cnd i Hi (C1 i L)).
        -- destruct (C3 Hi) as [H|[H|H]]; [exact H|exfalso; exact (Cnd _ Hi H)|exfalso; exact (Cnf _ Hi H)].
        -- now apply C2.
      * discriminate.
      * discriminate.
    + destruct (Nat.eqb (F.count_st F.ac_st Completed acts) (length acts)) eqn:El; simpl.
      * (* every action Completed *)
        apply Nat.eqb_eq in El. pose proof (count_all _ _ _ El) as Hall.
        constructor; cbn [F.sq_acts F.sq_st]; rewrite ?Hlen.
        -- exact Cok.
        -- intros i Hi. apply act_ok_completed; [now apply Cok|]. rewrite <- Hlen in Hi.
           destruct (acf_lt acts i Hi) as (a & Ha & ->). exact (forall_nth_st _ _ Hall _ _ Ha).
        -- discriminate.
        -- discriminate.
      * (* still Running: same shape, no action in progress *)
        constructor; cbn [F.sq_acts F.sq_st]; rewrite ?Hlen.
        -- exact Cok.
        -- exact I.
        -- intros _. destruct (Nat.eq_dec j n) as [-> |Hne].
           ++ exists n. split; [lia|]. split; [exact C1|]. intros i H1 H2. lia.
           ++ assert (Hjn : j < n) by lia. destruct (C3 Hjn) as [H|[H|H]].
              ** exists j. split; [lia|]. split; [exact C1|exact C2].
              ** exists (S j). split; [lia|]. split.
                 --- intros i Hi. destruct (Nat.eq_dec i j) as [-> |Hd]; [exact H|]. apply C1. lia.
                 --- intros i Hi Hn'. apply C2; lia.
              ** exfalso. exact (Cnf _ Hjn H).
        -- discriminate.
Qed.
