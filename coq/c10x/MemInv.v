(* MemInv - the invariant [M] of the RESUMED automaton (coq/resume/Resume.v) that keeps the IN-MEMORY image consistent
   (Cells.v: clauses 7 and 8 of C04) from the crash repair to the release, next to NoReexec.Inv:
     m_act   every action of the shape is Running, untouched, or finished with the right verdict;
     m_seq   a NotStarted / Completed / Failed sequence has untouched / Completed / [Completed.. Failed untouched..] actions;
     m_cur   the sequence sub-automata of the current block against memory (SRun i: Running, actions < i finished,
             actions > i untouched; SPend: the final pattern is already there; SIdle in the state chain: NotStarted);
     m_wait  a sequence fixBlock still has to resume is Running with finished actions up to its first open one and
             untouched ones from there on;
     m_next  in a block the state chain may still enter, every sequence is NotStarted, Completed or Failed.
   What it needs to know about the repair is the record [mem_sound] (MemInit.v derives it).  This file: definitions,
   extensionality, and the moves that do not write a sequence-level object.  Proofs only. *)
From Coq Require Import Lia.
From Coercion.Base Require Import Plan.
From Coercion.Engine Require Import Shape Event Action ChecksRun Seq Block Final PlanSM Auto Accept AutoLemmas.
From Coercion.Resume Require Import Resume ResumeLemmas ReleaseProofs Frame NoReexec.
From Coercion.Chain Require Import FixMem.
From Coercion.C10x Require Import Cells GroupInv.

(* a resumed sequence before execSeq takes it: fo = its first open action *)
Definition res_shape (m : obj -> cell) (b q n fo : nat) : Prop :=
  sstat m b q = Running /\ fo < n /\ (forall i, i < fo -> done (acell m b q i))
  /\ (forall i, fo <= i -> i < n -> acell m b q i = cell0).

Definition apend_pos (a : ast) : Prop := forall v k, a = APend v k -> 0 < k.

(* the sub-automaton x of sequence (b,q) (n actions) against memory m; run = "the state chain is executing" *)
Definition cur_okm (m : obj -> cell) (run : Prop) (b q n : nat) (x : sst) : Prop :=
  match x with
  | SIdle => run -> sstat m b q = NotStarted
  | SRun i a => sstat m b q = Running /\ (forall j, j < i -> done (acell m b q j))
                /\ (forall j, i < j -> j < n -> acell m b q j = cell0) /\ apend_pos a /\ i <= n
  | SPend true => sstat m b q = Running /\ all_donef (acell m b q) n
  | SPend false => sstat m b q = Running /\ fail_patf (acell m b q) n
  | SDone _ => True
  end.

(* the two images agree on sequence (b,q) and its n actions *)
Definition msame (m m' : obj -> cell) (b q n : nat) : Prop :=
  m' (OSeq b q) = m (OSeq b q) /\ forall i, i < n -> m' (OAct (ASeq b q i)) = m (OAct (ASeq b q i)).

Lemma msame_refl m b q n : msame m m b q n.
Proof. split; auto. Qed.

Lemma msame_scons m m' b q n : msame m m' b q n -> scons m b q n -> scons m' b q n.
Proof. intros [H1 H2]. now apply scons_ext. Qed.

Lemma msame_res m m' b q n fo : msame m m' b q n -> res_shape m b q n fo -> res_shape m' b q n fo.
Proof.
  intros [H1 H2] (A & B & C & D). unfold res_shape, sstat, acell in *. rewrite H1. split; [exact A|]. split; [exact B|]. split.
  - intros i Hi. rewrite H2 by lia. now apply C.
  - intros i Hi Hn. rewrite H2 by exact Hn. now apply D.
Qed.

Lemma msame_cur m m' run b q n x :
  msame m m' b q n -> cur_okm m run b q n x -> cur_okm m' run b q n x.
Proof.
  intros [H1 H2]. unfold cur_okm, sstat. rewrite H1. destruct x as [|i a|[|]|v]; auto.
  - intros (A & B & C & D & Hle). split; [exact A|]. split; [|split; [|split; [exact D|exact Hle]]]; unfold acell in *.
    + intros j Hj. rewrite H2 by lia. now apply B.
    + intros j Hj Hn. rewrite H2 by exact Hn. now apply C.
  - intros [A B]. split; [exact A|]. intros i Hi. unfold acell. rewrite H2 by exact Hi. now apply B.
  - intros [A (j & Hj & B & C & D)]. split; [exact A|]. exists j. unfold acell in *. split; [exact Hj|]. split; [|split].
    + intros i Hi. rewrite H2 by lia. now apply B.
    + rewrite H2 by exact Hj. exact C.
    + intros i Hi Hn. rewrite H2 by exact Hn. now apply D.
Qed.

(* memory with one cell replaced *)
Definition mupd (m : obj -> cell) (o : obj) (c : cell) : obj -> cell := fun o' => if obj_eqb o o' then c else m o'.

Lemma mupd_same m o c : mupd m o c o = c.
Proof. unfold mupd. now rewrite (proj2 (obj_eqb_eq o o) eq_refl). Qed.

Lemma mupd_other m o c o' : o <> o' -> mupd m o c o' = m o'.
Proof. intro H. unfold mupd. destruct (obj_eqb o o') eqn:E; [apply obj_eqb_eq in E; contradiction|reflexivity]. Qed.

Lemma mupd_msame m o c b q n :
  o <> OSeq b q -> (forall i, o <> OAct (ASeq b q i)) -> msame m (mupd m o c) b q n.
Proof. intros H1 H2. split; [now apply mupd_other|]. intros i _. now apply mupd_other. Qed.

Lemma mget_write r s' o c o' : mget (with_mem (with_s r s') (iset (r_mem r) o c)) o' = mupd (mget r) o c o'.
Proof.
  unfold mget, mupd, over, iset. simpl. destruct (obj_eqb o o'); reflexivity.
Qed.

(* ------------------------------------------------------------------ a handled write of a sequence action, exactly *)
Lemma after_attempt_pend r k o v m : after_attempt r k o = APend v m -> m = S k.
Proof.
  unfold after_attempt. destruct o; try (intro H; injection H as _ <-; reflexivity);
    (destruct (S k <=? r); [discriminate|intro H; injection H as _ <-; reflexivity]).
Qed.

Lemma a_attempt_pend r a n ok a' ow : a_attempt r a n ok = Some (a', ow) -> apend_pos a'.
Proof.
  intros H v k E. subst a'. unfold a_attempt in H. destruct a as [|k0|k0|k0 o|v0 n0|v0 n0]; try discriminate.
  - destruct (Nat.eqb n (S k0) && negb ok); [|discriminate].
    assert (E : after_attempt r k0 OOverrun = APend v k) by congruence. apply after_attempt_pend in E. lia.
  - destruct (Nat.eqb n (S k0) && Bool.eqb ok (outcome_ok o)); [|discriminate].
    assert (E : after_attempt r k0 o = APend v k) by congruence. apply after_attempt_pend in E. lia.
Qed.

Lemma seq_act_write sh s b q i stt n ok r s' :
  h_write sh s (OAct (ASeq b q i)) stt n ok r = Some s' ->
  exists bs rs a y,
    cur_block sh s b = Some bs /\ seq_of sh b q = Some rs /\ i < length rs /\ moves s s' q (SRun i a) y /\
    ((stt = Running /\ exists a', y = SRun i a' /\ apend_pos a')
     \/ (exists k, a = APend true k /\ stt = Completed /\ n = k /\ ok = true
                   /\ ((y = SRun (S i) AIdle /\ S i < length rs) \/ (y = SPend true /\ length rs <= S i)))
     \/ (exists k, a = APend false k /\ stt = Failed /\ n = k /\ ok = false /\ y = SPend false)).
Proof.
  unfold h_write. destruct (obj_in_shape sh (OAct (ASeq b q i))) eqn:Eo; [|discriminate]. simpl negb. cbv iota.
  intro H. apply option_map_some in H as (s1 & H & ->). cbn [h_write_obj] in H.
  assert (Hsh : exists rs, seq_of sh b q = Some rs /\ i < length rs).
  { cbn in Eo. destruct (seq_of sh b q) as [rs|]; [|discriminate]. exists rs. split; [reflexivity|].
    destruct (nth_error rs i) eqn:E; [|discriminate]. eapply nth_error_some_lt; eauto. }
  destruct Hsh as (rs & Hrs & Hi).
  assert (Hmv : forall b' x y, nth_error (b_seqs (s_b s)) q = Some x -> b' = b_with_seqs (s_b s) (upd (b_seqs (s_b s)) q y) ->
                               moves s (put (with_b s b') (OAct (ASeq b q i)) stt n ok) q x y).
  { intros b' x y Hx ->. apply moves_put. split; [unfold same_ctl; simpl; auto|]. split; [exact Hx|reflexivity]. }
  unfold h_write_act in H. destruct stt; try discriminate.
  - (* Running *)
    destruct n as [|n].
    + destruct ok; [discriminate|]. destruct (cur_block sh s b) as [bs|] eqn:Ec; [|discriminate].
      apply option_map_some in H as (b' & E & ->). unfold b_act_mark in E.
      destruct (b_seq_upd_spec _ _ _ _ E) as (x & y & Hx & Hf & Hb).
      unfold s_mark in Hf. destruct x as [|j a|v|v]; try discriminate.
      destruct (Nat.eqb i j) eqn:Eij; [|discriminate]. apply Nat.eqb_eq in Eij. subst j.
      apply option_map_some in Hf as (a' & Ha & ->).
      exists bs, rs, a, (SRun i a'). split; [reflexivity|]. split; [exact Hrs|]. split; [exact Hi|]. split; [eapply Hmv; eauto|].
      left. split; [reflexivity|]. exists a'. split; [reflexivity|]. intros v k Ea. subst a'.
      destruct a; try discriminate.
    + destruct (cur_block sh s b) as [bs|] eqn:Ec; [|discriminate].
      destruct (b_act_attempt bs (s_b s) q i (S n) ok) as [[b' owed]|] eqn:E; [|discriminate]. injection H as <-.
      unfold b_act_attempt in E. destruct (nth_error (b_seqs (s_b s)) q) as [x|] eqn:Hx; [|discriminate].
      destruct (nth_error (bs_seqs bs) q) as [rs'|]; [|discriminate].
      destruct (s_attempt rs' x i (S n) ok) as [[y ow]|] eqn:Hf; [|discriminate]. injection E as <- <-.
      unfold s_attempt in Hf. destruct x as [|j a|v|v]; try discriminate. destruct (nth_error rs' i) as [rt|]; [|discriminate].
      destruct (Nat.eqb i j) eqn:Eij; [|discriminate]. apply Nat.eqb_eq in Eij. subst j.
      destruct (a_attempt rt a (S n) ok) as [[a' ow']|] eqn:Ea; [|discriminate]. injection Hf as <- <-.
      exists bs, rs, a, (SRun i a'). split; [reflexivity|]. split; [exact Hrs|]. split; [exact Hi|]. split.
      * assert (Hm : moves s (put (with_b s (b_with_seqs (s_b s) (upd (b_seqs (s_b s)) q (SRun i a')))) (OAct (ASeq b q i)) Running (S n) ok)
                           q (SRun i a) (SRun i a')) by (eapply Hmv; eauto).
        unfold owe. destruct ow'; [|exact Hm]. destruct Hm as (Hc & Hn & Hs). split; [exact Hc|]. split; [exact Hn|exact Hs].
      * left. split; [reflexivity|]. exists a'. split; [reflexivity|]. eapply a_attempt_pend; eauto.
  - (* Completed *)
    destruct (cur_block sh s b) as [bs|] eqn:Ec; [|discriminate].
    apply option_map_some in H as (b' & E & ->). unfold b_act_final in E.
    destruct (nth_error (bs_seqs bs) q) as [rs'|] eqn:Hrs'; [|discriminate].
    assert (rs' = rs).
    { destruct (cur_block_some _ _ _ _ Ec) as (_ & _ & Hb). unfold seq_of in Hrs. rewrite Hb, Hrs' in Hrs. now injection Hrs. }
    subst rs'. destruct (b_seq_upd_spec _ _ _ _ E) as (x & y & Hx & Hf & Hb).
    unfold s_final in Hf. destruct x as [|j a|v|v]; try discriminate.
    destruct (Nat.eqb i j) eqn:Eij; [|discriminate]. apply Nat.eqb_eq in Eij. subst j.
    exists bs, rs, a, y. split; [reflexivity|]. split; [exact Hrs|]. split; [exact Hi|]. split; [eapply Hmv; eauto|].
    right. left. unfold a_final in Hf. destruct a as [| | | |v m|]; try discriminate.
    destruct (Nat.eqb m n && status_eqb Completed (if v then Completed else Failed) && Bool.eqb ok v) eqn:G; [|discriminate].
    apply andb_true_iff in G as [G G3]. apply andb_true_iff in G as [G1 G2]. apply Nat.eqb_eq in G1. apply Bool.eqb_prop in G3.
    destruct v; [|discriminate]. exists m. split; [reflexivity|]. split; [reflexivity|]. split; [now symmetry|]. split; [exact G3|].
    destruct (S i <? length rs) eqn:L; injection Hf as <-.
    + left. split; [reflexivity|]. now apply Nat.ltb_lt.
    + right. split; [reflexivity|]. now apply Nat.ltb_ge.
  - (* Failed *)
    destruct (cur_block sh s b) as [bs|] eqn:Ec; [|discriminate].
    apply option_map_some in H as (b' & E & ->). unfold b_act_final in E.
    destruct (nth_error (bs_seqs bs) q) as [rs'|] eqn:Hrs'; [|discriminate].
    destruct (b_seq_upd_spec _ _ _ _ E) as (x & y & Hx & Hf & Hb).
    unfold s_final in Hf. destruct x as [|j a|v|v]; try discriminate.
    destruct (Nat.eqb i j) eqn:Eij; [|discriminate]. apply Nat.eqb_eq in Eij. subst j.
    exists bs, rs, a, y. split; [reflexivity|]. split; [exact Hrs|]. split; [exact Hi|]. split; [eapply Hmv; eauto|].
    right. right. unfold a_final in Hf. destruct a as [| | | |v m|]; try discriminate.
    destruct (Nat.eqb m n && status_eqb Failed (if v then Completed else Failed) && Bool.eqb ok v) eqn:G; [|discriminate].
    apply andb_true_iff in G as [G G3]. apply andb_true_iff in G as [G1 G2]. apply Nat.eqb_eq in G1. apply Bool.eqb_prop in G3.
    destruct v; [discriminate|]. exists m. split; [reflexivity|]. split; [reflexivity|]. split; [now symmetry|]. split; [exact G3|].
    now injection Hf as <-.
Qed.

(* ------------------------------------------------------------------ phase moves of the engine: where they lead *)
Definition pre_blocks (p : pphase) : Prop := p = PStart \/ p = PBypass \/ p = PPre.

(* a move that ends outside the blocks does not go back before them; one that enters a block comes from before the
   blocks (block 0) or from the block before *)
Lemma p_eps_phase sh s s' :
  p_eps sh s = Some s' ->
  (s_ph s' <> PBlocks -> pre_blocks (s_ph s') -> pre_blocks (s_ph s))
  /\ (s_ph s' = PBlocks -> pre_blocks (s_ph s) \/ (s_ph s = PBlocks /\ (s_cb s' = s_cb s \/ s_cb s' = S (s_cb s)))).
Proof.
  unfold p_eps, pre_blocks. intro H.
  destruct (s_ph s) eqn:Ep.
  - destruct (status_eqb _ Running); [|discriminate]. injection H as <-. cbn. split; [auto|discriminate].
  - destruct (g_bypass (sh_groups sh)).
    + destruct (once_done true _ _) as [[x [|]]|]; try discriminate; injection H as <-; cbn; (split; [auto|discriminate]).
    + injection H as <-. cbn. split; [auto|discriminate].
  - destruct (once_done _ (t_pre (s_g s)) _) as [[x v1]|]; [|discriminate].
    destruct (once_done _ (t_cont (s_g s)) _) as [[y v2]|]; [|discriminate].
    destruct (v1 && v2); injection H as <-; cbn; split; auto; discriminate.
  - destruct (block_of sh (s_cb s)) as [bs|].
    + destruct (b_eps bs (s_img s) (s_cb s) (p_visible s) (s_b s)) as [[b'|[|]]|]; try discriminate; injection H as <-.
      * cbn. rewrite Ep. split; [intro Q; now elim Q|]. intros _. right. auto.
      * cbn. split; [intros _ [Q|[Q|Q]]; discriminate|discriminate].
      * unfold enter_block. destruct (block_of sh (S (s_cb s))); cbn; rewrite Ep; (split; [intro Q; now elim Q|]); intros _; right; auto.
    + injection H as <-. cbn. split; [intros _ [Q|[Q|Q]]; discriminate|discriminate].
  - destruct (thr_live (s_thr s)).
    + destruct (g_settle _ _) as [x|]; [|discriminate]. injection H as <-.
      destruct (g_dead x); cbn; rewrite ?Ep; (split; [intros _ [Q|[Q|Q]]; discriminate|discriminate]).
    + destruct (once_done _ (t_post (s_g s)) _) as [[x v]|]; [|discriminate]. injection H as <-. cbn.
      split; [intros _ [Q|[Q|Q]]; discriminate|discriminate].
  - destruct (thr_live (s_thr s)).
    + destruct (g_settle _ _) as [x|]; [|discriminate]. injection H as <-. cbn. rewrite Ep.
      split; [intros _ [Q|[Q|Q]]; discriminate|discriminate].
    + destruct (once_done _ (t_deferred (s_g s)) _) as [[x v]|]; [|discriminate]. injection H as <-. cbn.
      split; [intros _ [Q|[Q|Q]]; discriminate|discriminate].
  - discriminate.
  - discriminate.
Qed.

(* ExecuteBlock pops finished blocks: the block it lands on is not before the one it started from *)
Lemma r_enter_ge sh m s cb :
  exists cb', cb <= cb'
    /\ r_enter sh m s cb = with_block s cb' (match block_of sh cb' with Some bs => rb_init bs m cb' | None => b_none end)
    /\ (block_of sh cb' <> None -> is_terminal (mst m (OBlock cb')) = false).
Proof.
  unfold r_enter. remember (skipn cb (sh_blocks sh)) as bl eqn:E. revert cb E.
  induction bl as [|bs bl IH]; intros cb E; simpl.
  - exists cb. split; [lia|]. symmetry in E. apply skipn_nil_nth in E. unfold block_of. rewrite E. split; [reflexivity|]. intro H. contradiction.
  - symmetry in E. destruct (skipn_nth _ _ _ _ E) as [Hn Hs].
    destruct (is_terminal (mst m (OBlock cb))) eqn:Et.
    + destruct (IH (S cb)) as (cb' & Hle & H1 & H2); [symmetry; exact Hs|]. exists cb'. split; [lia|]. split; assumption.
    + exists cb. split; [lia|]. unfold block_of. rewrite Hn. split; [reflexivity|]. intros _. exact Et.
Qed.

Section MemInv.
Variable sh : shape.
Variable I : dimg.
Let pl := pln_of sh I.

(* what the invariant needs to know about the memory the crash repair leaves (FixMem.m0) *)
Record mem_sound : Prop := {
  ms_act : forall a, obj_in_shape sh (OAct a) = true -> act_ok (FixMem.m0 sh I (OAct a));
  ms_seq : forall b q rs, seq_of sh b q = Some rs -> scons (FixMem.m0 sh I) b q (length rs);
  ms_res : forall b q rs, seq_of sh b q = Some rs -> In (b, q) (resumed sh I) ->
             res_shape (FixMem.m0 sh I) b q (length rs) (first_open pl b q);
  ms_rs2 : forall fl b q, is_terminal (pln_st sh I fl) = false -> seq_of sh b q <> None ->
             is_terminal (blk_st sh I fl b) = false -> ~ In (b, q) (resumed sh I) ->
             seq_st0 sh I b q = NotStarted \/ cf (seq_st0 sh I b q);
  ms_todo : NoDup (map fst (group_by_block (resumed sh I))) }.

(* a sequence fixBlock still has to resume *)
Definition waiting (r : rst) (b q : nat) : Prop :=
  match r_ph r with
  | RRecover ((b0, qs0) :: rest) =>
      (b = b0 /\ In q qs0 /\ nth_error (seqs_of (r_s r)) q = Some SIdle) \/ exists qs', In (b, qs') rest /\ In q qs'
  | _ => False
  end.

(* a block the state chain may still enter *)
Definition upcoming (r : rst) (b : nat) : Prop :=
  match s_ph (r_s r) with
  | PStart | PBypass | PPre => True
  | PBlocks => s_cb (r_s r) < b
  | _ => False
  end.

Definition cur_ok (r : rst) (b q n : nat) (x : sst) : Prop := cur_okm (mget r) (r_ph r = RRun) b q n x.

Record M (r : rst) : Prop := {
  m_act : forall a, obj_in_shape sh (OAct a) = true -> act_ok (mget r (OAct a));
  m_seq : forall b q rs, seq_of sh b q = Some rs -> scons (mget r) b q (length rs);
  m_cur : forall b q rs x, in_blocks sh r b -> seq_of sh b q = Some rs -> nth_error (seqs_of (r_s r)) q = Some x ->
            cur_ok r b q (length rs) x;
  m_wait : forall b q rs, seq_of sh b q = Some rs -> waiting r b q ->
             res_shape (mget r) b q (length rs) (first_open (r_pl r) b q);
  m_next : r_ph r = RRun -> ~ ended r -> forall b q, upcoming r b -> seq_of sh b q <> None ->
             is_terminal (mst (mget r) (OBlock b)) = false ->
             sstat (mget r) b q = NotStarted \/ cf (sstat (mget r) b q);
  m_todo : forall todo, r_ph r = RRecover todo -> NoDup (map fst todo) }.

(* ---- a move that writes no sequence-level object of memory and leaves the sequences of the state alone ---- *)
Lemma M_view r r' :
  (forall b q rs, seq_of sh b q = Some rs -> msame (mget r) (mget r') b q (length rs)) ->
  (forall a, obj_in_shape sh (OAct a) = true -> act_ok (mget r (OAct a)) -> act_ok (mget r' (OAct a))) ->
  (forall b, upcoming r b -> mst (mget r') (OBlock b) = mst (mget r) (OBlock b)) ->
  r_ph r' = r_ph r -> r_pl r' = r_pl r -> s_ph (r_s r') = s_ph (r_s r) -> s_cb (r_s r') = s_cb (r_s r) ->
  seqs_of (r_s r') = seqs_of (r_s r) -> M r -> M r'.
Proof.
  intros Hsame Hact Hblk Hph Hpl Hsp Hcb Hsq [Ma Ms Mc Mw Mn Mt].
  assert (Hin : forall b, in_blocks sh r' b -> in_blocks sh r b).
  { intros b [[H1 H2] H3]. split; [split; congruence|exact H3]. }
  constructor.
  - intros a Ha. apply Hact; auto.
  - intros b q rs Hq. eapply msame_scons; [apply Hsame; eauto|eauto].
  - intros b q rs x Hi Hq Hx. unfold cur_ok. rewrite Hph. rewrite Hsq in Hx.
    eapply msame_cur; [apply Hsame; eauto|]. exact (Mc b q rs x (Hin _ Hi) Hq Hx).
  - intros b q rs Hq Hw. rewrite Hpl. eapply msame_res; [apply Hsame; eauto|]. apply Mw; [exact Hq|].
    unfold waiting in *. rewrite Hph, Hsq in Hw. exact Hw.
  - intros Hrun Hne b q Hup Hq Ht. rewrite Hph in Hrun.
    assert (Hup' : upcoming r b) by (unfold upcoming in *; rewrite Hsp, Hcb in Hup; exact Hup).
    rewrite Hblk in Ht by exact Hup'.
    assert (Hne' : ~ ended r) by (unfold ended in *; rewrite Hsp in Hne; exact Hne).
    destruct (seq_of sh b q) as [rs|] eqn:Eq; [|contradiction].
    destruct (Hsame b q rs Eq) as [E _]. unfold sstat. rewrite E. apply Mn; auto. rewrite Eq. discriminate.
  - intros todo Ht. apply Mt. congruence.
Qed.

(* the engine state moves inside the part the invariant does not read; memory untouched *)
Lemma M_keep r s' : M r -> keeps_seqs (r_s r) s' -> M (with_s r s').
Proof.
  intros HM ((H1 & H2 & _) & H5). eapply M_view; [| | | | | | | |exact HM]; simpl; auto.
  intros b q rs _. apply msame_refl.
Qed.

(* ---- a move of ONE sequence sub-automaton of the current block (q: x -> y, y not idle), with whatever it writes into
        the cells of that sequence ---- *)
Lemma M_update_gen r r' b q x y :
  Inv sh I r -> M r -> in_blocks sh r b ->
  (forall b' q' rs', seq_of sh b' q' = Some rs' -> (b', q') <> (b, q) -> msame (mget r) (mget r') b' q' (length rs')) ->
  (forall a, obj_in_shape sh (OAct a) = true -> act_ok (mget r' (OAct a))) ->
  (forall rs, seq_of sh b q = Some rs -> scons (mget r') b q (length rs)) ->
  (forall b', mst (mget r') (OBlock b') = mst (mget r) (OBlock b')) ->
  r_ph r' = r_ph r -> r_pl r' = r_pl r -> same_ctl (r_s r) (r_s r') ->
  nth_error (seqs_of (r_s r)) q = Some x -> seqs_of (r_s r') = upd (seqs_of (r_s r)) q y -> y <> SIdle ->
  (forall rs, seq_of sh b q = Some rs -> cur_ok r' b q (length rs) y) ->
  M r'.
Proof.
  intros Hi HM Hin Hsame Hact Hsc Hblk Hph Hpl (Hsp & Hcb & _) Hx Hsq Hy Hcur.
  pose proof HM as [Ma Ms Mc Mw Mn Mt].
  assert (Hb : b = s_cb (r_s r)) by (destruct Hin as [[_ E] _]; now symmetry).
  assert (Hin' : forall b0, in_blocks sh r' b0 -> in_blocks sh r b0).
  { intros b0 [[H1 H2] H3]. split; [split; congruence|exact H3]. }
  assert (Hnth : forall q', nth_error (seqs_of (r_s r')) q' = if Nat.eqb q q' then Some y else nth_error (seqs_of (r_s r)) q').
  { intro q'. rewrite Hsq. eapply nth_upd. exact Hx. }
  constructor.
  - exact Hact.
  - intros b' q' rs' Hq'. destruct (pair_dec (b', q') (b, q)) as [E|Hne].
    + injection E as -> ->. now apply Hsc.
    + eapply msame_scons; [apply Hsame; eauto|eauto].
  - intros b0 q' rs' x' Hi0 Hq' Hx'. pose proof (Hin' _ Hi0) as Hi1.
    assert (b0 = b) by (destruct Hi1 as [[_ E] _]; congruence). subst b0.
    rewrite Hnth in Hx'. destruct (Nat.eqb q q') eqn:Eq.
    + apply Nat.eqb_eq in Eq. subst q'. injection Hx' as <-. now apply Hcur.
    + apply Nat.eqb_neq in Eq. unfold cur_ok. rewrite Hph. eapply msame_cur; [apply Hsame; [exact Hq'|]|].
      * intro E. injection E as E. apply Eq. now symmetry.
      * exact (Mc b q' rs' x' Hi1 Hq' Hx').
  - intros b0 q0 rs0 Hq0 Hw. rewrite Hpl.
    assert (Hw0 : waiting r b0 q0 /\ (b0, q0) <> (b, q)).
    { unfold waiting in *. rewrite Hph in Hw. destruct (r_ph r) as [|[|[bb qs0] rest]|] eqn:Ep; try contradiction.
      destruct Hw as [(-> & Hq1 & Hx1)|Hr].
      - rewrite Hnth in Hx1. destruct (Nat.eqb q q0) eqn:Eq; [injection Hx1 as ->; contradiction|].
        apply Nat.eqb_neq in Eq. split; [left; auto|]. intro E. injection E as _ E. apply Eq. now symmetry.
      - split; [right; exact Hr|]. destruct Hr as (qs' & Hin0 & _).
        pose proof (Mt _ eq_refl) as Hnd. cbn [map fst] in Hnd. inversion Hnd as [|? ? Hni _]; subst.
        destruct (i_rec _ _ _ Hi _ Ep) as ((b1 & qs1 & rest1 & E1 & Ha & _) & _). injection E1 as <- <- <-.
        intro E. injection E as -> ->. apply Hni. destruct Ha as [_ Ha]. rewrite <- Ha.
        change (s_cb (r_s r)) with (fst (s_cb (r_s r), qs')). now apply in_map. }
    destruct Hw0 as [Hw0 Hne]. eapply msame_res; [apply Hsame; eauto|]. now apply Mw.
  - intros Hrun Hne b0 q0 Hup Hq0 Ht. rewrite Hph in Hrun.
    assert (Hup' : upcoming r b0) by (unfold upcoming in *; rewrite Hsp, Hcb in Hup; exact Hup).
    assert (Hne' : ~ ended r) by (unfold ended in *; rewrite Hsp in Hne; exact Hne).
    rewrite Hblk in Ht. destruct (seq_of sh b0 q0) as [rs0|] eqn:Eq0; [|contradiction].
    assert (Hd : (b0, q0) <> (b, q)).
    { intro E. injection E as -> ->. unfold upcoming in Hup'. destruct Hin as [[Hp Hc] _]. rewrite Hp, Hc in Hup'. lia. }
    destruct (Hsame b0 q0 rs0 Eq0 Hd) as [E _]. unfold sstat. rewrite E. apply Mn; auto. rewrite Eq0. discriminate.
  - intros todo Ht. apply Mt. congruence.
Qed.


Lemma M_update r r' b q rs x y :
  Inv sh I r -> M r -> in_blocks sh r b -> seq_of sh b q = Some rs ->
  (forall b' q' rs', seq_of sh b' q' = Some rs' -> (b', q') <> (b, q) -> msame (mget r) (mget r') b' q' (length rs')) ->
  (forall a, obj_in_shape sh (OAct a) = true -> act_ok (mget r' (OAct a))) ->
  scons (mget r') b q (length rs) ->
  (forall b', mst (mget r') (OBlock b') = mst (mget r) (OBlock b')) ->
  r_ph r' = r_ph r -> r_pl r' = r_pl r -> same_ctl (r_s r) (r_s r') ->
  nth_error (seqs_of (r_s r)) q = Some x -> seqs_of (r_s r') = upd (seqs_of (r_s r)) q y -> y <> SIdle ->
  cur_ok r' b q (length rs) y ->
  M r'.
Proof.
  intros Hi HM Hin Hq Hsame Hact Hsc Hblk Hph Hpl Hctl Hx Hsq Hy Hcur.
  apply (M_update_gen r r' b q x y); auto.
  - intros rs1 E. rewrite Hq in E. injection E as <-. exact Hsc.
  - intros rs1 E. rewrite Hq in E. injection E as <-. exact Hcur.
Qed.

(* ------------------------------------------------------------------ a write one of the engine's handlers takes *)
Lemma sconsf_running cf n : sconsf cf Running n.
Proof. exact Logic.I. Qed.

Lemma M_hwrite r o stt n ok rs s' :
  Inv sh I r -> M r -> GR r -> h_write sh (r_s r) o stt n ok rs = Some s' ->
  M (with_mem (with_s r s') (iset (r_mem r) o (wcell stt n ok))).
Proof.
  intros Hi HM Hg Hw. destruct (h_write_spec _ _ _ _ _ _ _ _ Hw) as (Hsh & _ & He).
  set (r' := with_mem (with_s r s') (iset (r_mem r) o (wcell stt n ok))).
  assert (Hmg : forall o', mget r' o' = mupd (mget r) o (wcell stt n ok) o') by (intro; apply mget_write).
  assert (Hview : keeps_seqs (r_s r) s' -> (forall b q, o <> OSeq b q) -> (forall b q i, o <> OAct (ASeq b q i)) ->
                  (forall b', upcoming r b' -> o <> OBlock b') -> (forall a, o = OAct a -> act_ok (wcell stt n ok)) -> M r').
  { intros ((H1 & H2 & _) & H5) Hn1 Hn2 Hn3 Hav.
    apply (M_view r r'); [| | |reflexivity|reflexivity|exact H1|exact H2|exact H5|exact HM].
    - intros b q rs0 _. split; [rewrite Hmg; apply mupd_other; apply Hn1|intros i _; rewrite Hmg; apply mupd_other; apply Hn2].
    - intros a Ha Hok. rewrite Hmg. unfold mupd. destruct (obj_eqb o (OAct a)) eqn:E; [apply obj_eqb_eq in E; eapply Hav; eauto|exact Hok].
    - intros b' Hup. unfold mst. rewrite Hmg. rewrite mupd_other; [reflexivity|now apply Hn3]. }
  unfold write_effect in He. destruct o as [|[|b] g|b|b q|[[|b] g i|b q i]].
  - apply Hview; [exact He|discriminate|discriminate|discriminate|intros a E; discriminate E].
  - apply Hview; [exact He|discriminate|discriminate|discriminate|intros a E; discriminate E].
  - apply Hview; [apply He|discriminate|discriminate|discriminate|intros a E; discriminate E].
  - (* OBlock *)
    destruct He as ((bs & Hc) & Hk & _). destruct (cur_in_blocks _ _ _ _ Hc) as [[[Hp Hcb] _] _].
    apply Hview; [exact Hk|discriminate|discriminate| |intros a E; discriminate E].
    intros b' Hup E. injection E as <-. unfold upcoming in Hup. rewrite Hp, Hcb in Hup. lia.
  - (* OSeq *)
    destruct He as ((bs & Hc) & He). destruct (cur_in_blocks _ _ _ _ Hc) as [Hin _].
    assert (Hq : exists rs0, seq_of sh b q = Some rs0) by (cbn in Hsh; destruct (seq_of sh b q) as [rs0|]; [eauto|discriminate]).
    destruct Hq as (rs0 & Hq).
    assert (Hoth : forall b' q' rs', seq_of sh b' q' = Some rs' -> (b', q') <> (b, q) -> msame (mget r) (mget r') b' q' (length rs')).
    { intros b' q' rs' _ Hne. split; [rewrite Hmg; apply mupd_other; intro E; injection E as <- <-; now apply Hne|].
      intros i _. rewrite Hmg. apply mupd_other. discriminate. }
    assert (Hacts : forall j, acell (mget r') b q j = acell (mget r) b q j).
    { intro j. unfold acell. rewrite Hmg. apply mupd_other. discriminate. }
    assert (Hst : sstat (mget r') b q = stt) by (unfold sstat; rewrite Hmg, mupd_same; reflexivity).
    assert (Hact : forall a, obj_in_shape sh (OAct a) = true -> act_ok (mget r' (OAct a))).
    { intros a Ha. rewrite Hmg, mupd_other by discriminate. now apply (m_act r HM). }
    assert (Hblk : forall b', mst (mget r') (OBlock b') = mst (mget r) (OBlock b')).
    { intro b'. unfold mst. rewrite Hmg, mupd_other by discriminate. reflexivity. }
    destruct stt; try contradiction.
    + (* the launch *)
      destruct He as [Hbs Hm]. pose proof Hm as (Hctl & Hx & Hsq).
      assert (Hrun : r_ph r = RRun).
      { destruct (r_ph r) as [|todo|] eqn:Ep; [exfalso; exact (i_live _ _ _ Hi Ep)| |reflexivity].
        destruct (i_rec _ _ _ Hi _ Ep) as ((b0 & qs & rest & _ & _ & Hbe & _) & _). congruence. }
      pose proof (m_cur r HM b q rs0 SIdle Hin Hq Hx) as Hold. unfold cur_ok, cur_okm in Hold. specialize (Hold Hrun).
      pose proof (m_seq r HM b q rs0 Hq) as Hsc. unfold scons in Hsc. rewrite Hold in Hsc.
      apply (M_update r r' b q rs0 SIdle (SRun 0 AIdle)); auto; try reflexivity; try discriminate.
      * unfold scons. rewrite Hst. apply sconsf_running.
      * unfold cur_ok, cur_okm. split; [exact Hst|]. split; [intros j Hj; lia|]. split.
        -- intros j _ Hn. rewrite Hacts. now apply Hsc.
        -- split; [intros v k E; discriminate|lia].
    + (* Completed *)
      pose proof He as (Hctl & Hx & Hsq).
      pose proof (m_cur r HM b q rs0 (SPend true) Hin Hq Hx) as [_ Hold].
      apply (M_update r r' b q rs0 (SPend true) (SDone true)); auto; try reflexivity; try discriminate.
      unfold scons. rewrite Hst. intros j Hj. rewrite Hacts. now apply Hold.
    + (* Failed *)
      pose proof He as (Hctl & Hx & Hsq).
      pose proof (m_cur r HM b q rs0 (SPend false) Hin Hq Hx) as [_ Hold].
      apply (M_update r r' b q rs0 (SPend false) (SDone false)); auto; try reflexivity; try discriminate.
      unfold scons. rewrite Hst. apply (sconsf_ext (acell (mget r) b q)); [intros j _; apply Hacts|exact Hold].
  - apply Hview; [exact He|discriminate|discriminate|discriminate|].
    intros a E. injection E as <-. eapply chk_write_value; eauto.
  - apply Hview; [apply He|discriminate|discriminate|discriminate|].
    intros a E. injection E as <-. eapply chk_write_value; eauto.
  - (* a sequence action *)
    clear He. destruct (seq_act_write _ _ _ _ _ _ _ _ _ _ Hw) as (bs & rs0 & a & y & Hc & Hq & Hi0 & Hm & Hcase).
    destruct (cur_in_blocks _ _ _ _ Hc) as [Hin _]. pose proof Hm as (Hctl & Hx & Hsq).
    pose proof (m_cur r HM b q rs0 (SRun i a) Hin Hq Hx) as (Ost & Opre & Osuf & Oap & Ole).
    assert (Hoth : forall b' q' rs', seq_of sh b' q' = Some rs' -> (b', q') <> (b, q) -> msame (mget r) (mget r') b' q' (length rs')).
    { intros b' q' rs' _ Hne. split; [rewrite Hmg; apply mupd_other; discriminate|].
      intros j _. rewrite Hmg. apply mupd_other. intro E. injection E as <- <- _. now apply Hne. }
    assert (Hacts : forall j, j <> i -> acell (mget r') b q j = acell (mget r) b q j).
    { intros j Hj. unfold acell. rewrite Hmg. apply mupd_other. intro E. injection E as E. now apply Hj. }
    assert (Hnew : acell (mget r') b q i = wcell stt n ok) by (unfold acell; rewrite Hmg; apply mupd_same).
    assert (Hst : sstat (mget r') b q = Running) by (unfold sstat; rewrite Hmg, mupd_other by discriminate; exact Ost).
    assert (Hblk : forall b', mst (mget r') (OBlock b') = mst (mget r) (OBlock b')).
    { intro b'. unfold mst. rewrite Hmg, mupd_other by discriminate. reflexivity. }
    assert (Hval : act_ok (wcell stt n ok)).
    { destruct Hcase as [[-> _]|[(k & -> & -> & -> & -> & _)|(k & -> & -> & -> & -> & _)]].
      - left. reflexivity.
      - right. right. left. repeat split; auto. exact (Oap _ _ eq_refl).
      - right. right. right. repeat split; auto. exact (Oap _ _ eq_refl). }
    assert (Hact : forall a0, obj_in_shape sh (OAct a0) = true -> act_ok (mget r' (OAct a0))).
    { intros a0 Ha. rewrite Hmg. unfold mupd. destruct (obj_eqb (OAct (ASeq b q i)) (OAct a0)); [exact Hval|now apply (m_act r HM)]. }
    assert (Hsc : scons (mget r') b q (length rs0)) by (unfold scons; rewrite Hst; apply sconsf_running).
    assert (Hpre' : forall j, j < i -> done (acell (mget r') b q j)) by (intros j Hj; rewrite Hacts by lia; now apply Opre).
    assert (Hsuf' : forall j, i < j -> j < length rs0 -> acell (mget r') b q j = cell0) by (intros j Hj Hn; rewrite Hacts by lia; now apply Osuf).
    destruct Hcase as [[-> (a' & -> & Hap)]|[(k & -> & -> & -> & -> & Hy)|(k & -> & -> & -> & -> & ->)]].
    + apply (M_update r r' b q rs0 (SRun i a) (SRun i a')); auto; try reflexivity; try discriminate.
      unfold cur_ok, cur_okm. split; [exact Hst|]. split; [exact Hpre'|]. split; [exact Hsuf'|]. split; [exact Hap|lia].
    + assert (Hd : done (acell (mget r') b q i)) by (rewrite Hnew; repeat split; auto; exact (Oap _ _ eq_refl)).
      destruct Hy as [[-> Hlt]|[-> Hge]].
      * apply (M_update r r' b q rs0 (SRun i (APend true k)) (SRun (S i) AIdle)); auto; try reflexivity; try discriminate.
        unfold cur_ok, cur_okm. split; [exact Hst|]. split; [|split; [|split; [intros v k' E; discriminate|lia]]].
        -- intros j Hj. destruct (Nat.eq_dec j i) as [-> |Hne]; [exact Hd|apply Hpre'; lia].
        -- intros j Hj Hn. apply Hsuf'; lia.
      * apply (M_update r r' b q rs0 (SRun i (APend true k)) (SPend true)); auto; try reflexivity; try discriminate.
        unfold cur_ok, cur_okm. split; [exact Hst|]. intros j Hj.
        destruct (Nat.eq_dec j i) as [-> |Hne]; [exact Hd|apply Hpre'; lia].
    + assert (Hf : failedc (acell (mget r') b q i)) by (rewrite Hnew; repeat split; auto; exact (Oap _ _ eq_refl)).
      apply (M_update r r' b q rs0 (SRun i (APend false k)) (SPend false)); auto; try reflexivity; try discriminate.
      unfold cur_ok, cur_okm. split; [exact Hst|]. exists i. split; [exact Hi0|]. split; [exact Hpre'|]. split; [exact Hf|exact Hsuf'].
Qed.

(* ------------------------------------------------------------------ plugin events *)
Lemma M_inner r s' q i a a' :
  Inv sh I r -> M r -> (exists b bs, cur_block sh (r_s r) b = Some bs) ->
  moves (r_s r) s' q (SRun i a) (SRun i a') -> apend_pos a' -> M (with_s r s').
Proof.
  intros Hi HM (b & bs & Hc) Hm Hap. destruct (cur_in_blocks _ _ _ _ Hc) as [Hin _]. pose proof Hm as (Hctl & Hx & Hsq).
  apply (M_update_gen r (with_s r s') b q (SRun i a) (SRun i a')); auto; try reflexivity; try discriminate.
  - intros b' q' rs' _ _. apply msame_refl.
  - apply (m_act r HM).
  - intros rs Hq. exact (m_seq r HM b q rs Hq).
  - intros rs Hq. pose proof (m_cur r HM b q rs _ Hin Hq Hx) as (A & B & C & _ & E).
    unfold cur_ok, cur_okm. cbn [with_s r_ph]. change (mget (with_s r s')) with (mget r). auto.
Qed.

Lemma M_plugin r e r' :
  Inv sh I r -> M r -> (forall o stt n ok rs, e <> EvWrite o stt n ok rs) -> (forall fin, e <> EvRelease fin) ->
  option_map (with_s r) (handle sh (r_s r) e) = Some r' -> M r'.
Proof.
  intros Hi HM Hnw Hnr H. apply option_map_some in H as (s' & H & ->). destruct e as [a|a o|o stt n ok rs|snap|fin].
  - simpl in H. destruct (released (r_s r)); [discriminate|]. destruct (h_start_spec _ _ _ _ H) as [_ Hs].
    destruct a as [[|b] g i|b q i].
    + now apply M_keep.
    + now apply M_keep.
    + destruct Hs as [(bs & Hc) (k & Hm)]. eapply M_inner; eauto. intros v k' E. discriminate.
  - simpl in H. destruct (h_end_spec _ _ _ _ _ H) as [_ [Hk|(b & q & i & k & -> & (bs & Hc) & Hm)]].
    + now apply M_keep.
    + eapply M_inner; eauto. intros v k' E. discriminate.
  - exfalso. eapply Hnw; eauto.
  - simpl in H. unfold h_read in H.
    assert (s' = r_s r) as ->.
    { destruct (s_fin (r_s r)); [destruct (images_agree _ _ _); [|discriminate]|]; now injection H as <-. }
    apply M_keep; [exact HM|]. split; [apply same_ctl_refl|reflexivity].
  - exfalso. eapply Hnr; eauto.
Qed.

(* ------------------------------------------------------------------ the state chain changes phase outside the blocks *)
Lemma M_phase r s' :
  M r -> r_ph r = RRun -> s_ph s' <> PBlocks ->
  (pre_blocks (s_ph s') -> pre_blocks (s_ph (r_s r))) -> (~ ended (with_s r s') -> ~ ended r) -> M (with_s r s').
Proof.
  intros [Ma Ms Mc Mw Mn Mt] Hrun Hout Hpre Hend. constructor; cbn [with_s r_ph r_s r_pl]; change (mget (with_s r s')) with (mget r).
  - exact Ma.
  - exact Ms.
  - intros b q rs x [[H _] _]. cbn in H. contradiction.
  - intros b q rs _ Hw. unfold waiting in Hw. cbn in Hw. rewrite Hrun in Hw. contradiction.
  - intros _ Hne b q Hup. apply Mn; auto. unfold upcoming in *. cbn in Hup.
    assert (Hp : pre_blocks (s_ph s')) by (unfold pre_blocks; destruct (s_ph s'); auto; contradiction).
    destruct (Hpre Hp) as [E|[E|E]]; rewrite E; exact Logic.I.
  - intros todo Ht. congruence.
Qed.

(* ... stays in the current block *)
Lemma M_stay r s' :
  M r -> s_ph s' = PBlocks -> s_ph (r_s r) = PBlocks -> s_cb s' = s_cb (r_s r) -> seqs_of s' = seqs_of (r_s r) -> M (with_s r s').
Proof.
  intros HM Hp' Hp Hcb Hsq. apply (M_view r (with_s r s')); auto; try reflexivity.
  - intros b q rs _. apply msame_refl.
  - cbn. congruence.
Qed.

(* ... enters block cb' *)
Lemma M_enter r s' cb' :
  M r -> r_ph r = RRun -> ~ ended r -> s_ph s' = PBlocks -> upcoming r cb' ->
  (pre_blocks (s_ph (r_s r)) \/ s_ph (r_s r) = PBlocks) ->
  (block_of sh cb' <> None -> is_terminal (mst (mget r) (OBlock cb')) = false) ->
  M (with_s r (with_block s' cb' (match block_of sh cb' with Some bs => rb_init bs (mget r) cb' | None => b_none end))).
Proof.
  intros [Ma Ms Mc Mw Mn Mt] Hrun Hnend Hp' Hup Hold Hnt.
  set (r' := with_s r (with_block s' cb' (match block_of sh cb' with Some bs => rb_init bs (mget r) cb' | None => b_none end))).
  constructor; change (mget r') with (mget r).
  - exact Ma.
  - exact Ms.
  - intros b q rs x [[_ H5] H6] Hq Hx. cbn in H5. subst b. specialize (Hnt H6).
    unfold seqs_of in Hx. cbn in Hx. destruct (block_of sh cb') as [bs|] eqn:Eb; [|contradiction].
    cbn in Hx. apply seq_init_nth in Hx as [-> Hlt]. unfold cur_ok, cur_okm, seq_init.
    destruct (mst (mget r) (OSeq cb' q)) eqn:Est; try exact Logic.I; intros _;
      (destruct (Mn Hrun Hnend cb' q Hup) as [E|[E|E]]; [rewrite Hq; discriminate|exact Hnt|exact E| |]);
      unfold sstat in E; unfold mst in Est; congruence.
  - intros b q rs _ Hw. unfold waiting in Hw. cbn in Hw. rewrite Hrun in Hw. contradiction.
  - intros _ _ b q Hup'. apply Mn; auto. unfold upcoming in *. cbn in Hup'. rewrite Hp' in Hup'.
    destruct Hold as [[E|[E|E]]|E]; rewrite E in *; try exact Logic.I. lia.
  - intros todo Ht. cbn in Ht. congruence.
Qed.

(* ------------------------------------------------------------------ the writes the resumed automaton takes itself *)
(* execSeq of a resumed sequence: W seq Running, the sub-automaton starts at the first open action *)
Lemma M_launch r b q qs rest n ok :
  Inv sh I r -> M r -> r_ph r = RRecover ((b, qs) :: rest) -> In q qs ->
  nth_error (seqs_of (r_s r)) q = Some SIdle -> obj_in_shape sh (OSeq b q) = true ->
  M (commit (with_s r (with_b (r_s r) (b_with_seqs (s_b (r_s r)) (upd (b_seqs (s_b (r_s r))) q (SRun (first_open (r_pl r) b q) AIdle)))))
            (OSeq b q) Running n ok).
Proof.
  intros Hi HM Hph Hq Hx Hsh. rewrite commit_eq.
  set (s1 := with_b (r_s r) (b_with_seqs (s_b (r_s r)) (upd (b_seqs (s_b (r_s r))) q (SRun (first_open (r_pl r) b q) AIdle)))).
  set (r' := with_mem (with_s r (put s1 (OSeq b q) Running n ok)) (iset (r_mem r) (OSeq b q) (wcell Running n ok))).
  assert (Hmg : forall o', mget r' o' = mupd (mget r) (OSeq b q) (wcell Running n ok) o') by (intro; apply mget_write).
  destruct (i_rec _ _ _ Hi _ Hph) as ((b0 & qs0 & rest0 & E & Ha & _) & _). injection E as <- <- <-.
  assert (Hin : in_blocks sh r b).
  { split; [exact Ha|]. eapply in_shape_seq_block; eauto. }
  assert (Hqs : exists rs0, seq_of sh b q = Some rs0) by (cbn in Hsh; destruct (seq_of sh b q) as [rs0|]; [eauto|discriminate]).
  destruct Hqs as (rs0 & Hqs).
  assert (Hw : waiting r b q) by (unfold waiting; rewrite Hph; left; auto).
  destruct (m_wait r HM b q rs0 Hqs Hw) as (_ & Hfo & Hpre & Hsuf).
  assert (Hacts : forall j, acell (mget r') b q j = acell (mget r) b q j).
  { intro j. unfold acell. rewrite Hmg. apply mupd_other. discriminate. }
  assert (Hst : sstat (mget r') b q = Running) by (unfold sstat; rewrite Hmg, mupd_same; reflexivity).
  assert (H1 : forall b' q' rs', seq_of sh b' q' = Some rs' -> (b', q') <> (b, q) -> msame (mget r) (mget r') b' q' (length rs')).
  { intros b' q' rs' _ Hne. split; [rewrite Hmg; apply mupd_other; intro E; injection E as <- <-; now apply Hne|].
    intros i _. rewrite Hmg. apply mupd_other. discriminate. }
  assert (H2 : forall a, obj_in_shape sh (OAct a) = true -> act_ok (mget r' (OAct a))).
  { intros a Ha0. rewrite Hmg, mupd_other by discriminate. now apply (m_act r HM). }
  assert (H3 : scons (mget r') b q (length rs0)) by (unfold scons; rewrite Hst; apply sconsf_running).
  assert (H4 : forall b', mst (mget r') (OBlock b') = mst (mget r) (OBlock b')).
  { intro b'. unfold mst. rewrite Hmg, mupd_other by discriminate. reflexivity. }
  assert (H5 : same_ctl (r_s r) (r_s r')) by (unfold same_ctl; cbn; auto).
  assert (H6 : SRun (first_open (r_pl r) b q) AIdle <> SIdle) by discriminate.
  assert (H7 : cur_ok r' b q (length rs0) (SRun (first_open (r_pl r) b q) AIdle)).
  { unfold cur_ok, cur_okm. split; [exact Hst|]. split; [|split; [|split; [intros v k E; discriminate|lia]]].
    - intros j Hj. rewrite Hacts. now apply Hpre.
    - intros j Hj Hn. rewrite Hacts. apply Hsuf; lia. }
  exact (M_update r r' b q rs0 SIdle _ Hi HM Hin Hqs H1 H2 H3 H4 eq_refl eq_refl H5 Hx eq_refl H6 H7).
Qed.

(* the terminal plan write *)
Lemma M_plan_write r stt n ok rs :
  M r -> M (commit (with_s r (with_reason (r_s r) rs)) OPlan stt n ok).
Proof.
  intro HM. rewrite commit_eq.
  set (r' := with_mem (with_s r (put (with_reason (r_s r) rs) OPlan stt n ok)) (iset (r_mem r) OPlan (wcell stt n ok))).
  assert (H1 : forall b q rs0, seq_of sh b q = Some rs0 -> msame (mget r) (mget r') b q (length rs0)).
  { intros b q rs0 _. split; [unfold r'; rewrite mget_write; apply mupd_other; discriminate|].
    intros i _. unfold r'. rewrite mget_write. apply mupd_other. discriminate. }
  assert (H2 : forall a, obj_in_shape sh (OAct a) = true -> act_ok (mget r (OAct a)) -> act_ok (mget r' (OAct a))).
  { intros a _ Hok. unfold r'. rewrite mget_write, mupd_other by discriminate. exact Hok. }
  assert (H3 : forall b, upcoming r b -> mst (mget r') (OBlock b) = mst (mget r) (OBlock b)).
  { intros b _. unfold mst, r'. rewrite mget_write, mupd_other by discriminate. reflexivity. }
  exact (M_view r r' H1 H2 H3 eq_refl eq_refl eq_refl eq_refl eq_refl HM).
Qed.

(* ------------------------------------------------------------------ every handler *)
Lemma M_rhandle d r e r' : Inv sh I r -> M r -> GR r -> rhandle d sh r e = Some r' -> M r'.
Proof.
  intros Hi HM Hg H. pose proof (i_live _ _ _ Hi) as Hl. unfold rhandle in H.
  destruct e as [a|a o|o stt n ok rs|snap|fin].
  - apply (M_plugin r (EvStart a) r' Hi HM); [discriminate|discriminate|]. destruct (r_ph r); [contradiction|exact H..].
  - apply (M_plugin r (EvEnd a o) r' Hi HM); [discriminate|discriminate|]. destruct (r_ph r); [contradiction|exact H..].
  - assert (H' : r_write sh r o stt n ok rs = Some r') by (destruct (r_ph r); [contradiction|exact H..]). clear H.
    destruct (r_write_cases _ _ _ _ _ _ _ _ H') as [Hshape [(s' & Hw & ->)|[(b & q & b1 & qs & rest & -> & -> & Hph & Hq & Hu & ->)|[-> ->]]]].
    + eapply M_hwrite; eauto.
    + destruct (b_seq_upd_spec _ _ _ _ Hu) as (x & y & Hx & Hf & ->). destruct x; try discriminate. injection Hf as <-.
      eapply M_launch; eauto.
    + now apply M_plan_write.
  - assert (H' : option_map (with_s r) (h_read sh (r_s r) snap) = Some r') by (destruct (r_ph r); [contradiction|exact H..]).
    apply (M_plugin r (EvRead snap) r' Hi HM); [discriminate|discriminate|exact H'].
  - assert (H' : r_release d sh r fin = Some r') by (destruct (r_ph r); [contradiction|exact H..]). clear H.
    unfold r_release in H'. destruct (r_ph r) eqn:Ep; [contradiction|discriminate|].
    destruct (all_flushed sh r && quiet d sh (r_I r) (mget r)); [|discriminate].
    apply option_map_some in H' as (s' & H & ->). unfold h_release in H.
    match type of H with (if ?c then _ else _) = _ => destruct c; [|discriminate] end. injection H as <-.
    apply M_phase; auto.
    + cbn. discriminate.
    + cbn. intros [Q|[Q|Q]]; discriminate.
    + intro Hne. exfalso. apply Hne. right. reflexivity.
Qed.

Lemma M_flush r e r' : M r -> flush sh r e = Some r' -> M r'.
Proof.
  intros HM H. unfold flush in H. destruct (r_ph r); [discriminate| |];
    (destruct e; try discriminate; destruct o; try discriminate;
     match type of H with (if ?c then _ else _) = _ => destruct c; [|discriminate] end; injection H as <-;
     (apply M_keep; [exact HM|split; [unfold same_ctl; cbn; auto|reflexivity]])).
Qed.

(* ------------------------------------------------------------------ fixBlock's resumption: next block / Recovery's switch *)
Lemma finished_act r a : finished_mem sh r (OAct a) = mget r (OAct a).
Proof.
  unfold finished_mem, finish_mem, mget, over. simpl.
  rewrite ifind_app, ifind_blocks_seq; [reflexivity|]. intros b' E. discriminate.
Qed.

Lemma group_nil l : group_by_block l = [] -> l = [].
Proof.
  destruct l as [|[b q] l]; [reflexivity|]. simpl. destruct (group_by_block l) as [|[b' qs] r]; [discriminate|].
  destruct (Nat.eqb b b'); discriminate.
Qed.

Hypothesis MS : mem_sound.

Lemma M_start_recover r todo :
  (forall a, obj_in_shape sh (OAct a) = true -> act_ok (mget r (OAct a))) ->
  (forall b q rs, seq_of sh b q = Some rs -> scons (mget r) b q (length rs)) ->
  (forall b qs q rs, In (b, qs) todo -> In q qs -> seq_of sh b q = Some rs ->
     res_shape (mget r) b q (length rs) (first_open (r_pl r) b q)) ->
  NoDup (map fst todo) -> r_pl r = pl ->
  (forall b q, ~ In (b, q) (resumed sh I) -> mem_st r (OSeq b q) = seq_st0 sh I b q) ->
  (todo = [] -> forall b q, In (b, q) (resumed sh I) -> cf (mem_st r (OSeq b q))) ->
  M (start_recover sh r todo).
Proof.
  intros Ha Hs Hw Hnd Hpl Hnon Hres. destruct todo as [|[b qs] rest].
  - (* Recovery's switch *)
    simpl. unfold take_entry. set (m := finished_mem sh r).
    set (r' := {| r_s := _; r_base := r_base r; r_mem := finish_mem sh (r_pl r) (r_fails r) (r_mem r); r_ph := RRun;
                  r_I := r_I r; r_pl := r_pl r; r_fails := r_fails r |}).
    assert (Hm : forall o, mget r' o = m o) by reflexivity.
    assert (Hma : forall a, m (OAct a) = mget r (OAct a)) by (intro a; apply finished_act).
    assert (Hmq : forall b q, m (OSeq b q) = mget r (OSeq b q)) by (intros b q; apply finished_seq).
    assert (Hmb : forall b, block_of sh b <> None -> mst m (OBlock b) = blk_st sh I (r_fails r) b).
    { intros b Hb. unfold m, mst, blk_st. rewrite finished_block by exact Hb. now rewrite Hpl. }
    assert (Hsame : forall b q n, msame (mget r) (mget r') b q n).
    { intros b q n. split; [rewrite Hm; apply Hmq|intros i _; rewrite Hm; apply Hma]. }
    constructor.
    + intros a Hin. rewrite Hm, Hma. now apply Ha.
    + intros b q rs Hq. eapply msame_scons; [apply Hsame|]. now apply Hs.
    + intros b q rs x [[H _] _]. simpl in H. exfalso. eapply plan_phase_not_blocks; eauto.
    + intros b q rs _ Hwt. unfold waiting in Hwt. simpl in Hwt. contradiction.
    + intros _ Hend b q _ Hsq Ht.
      assert (Hpt : is_terminal (pln_st sh I (r_fails r)) = false).
      { unfold ended in Hend. simpl in Hend.
        assert (Hmp : mst m OPlan = pln_st sh I (r_fails r)).
        { unfold m, mst, pln_st, finished_mem, finish_mem. rewrite over_cons_same. now rewrite Hpl. }
        fold m in Hend. rewrite Hmp in Hend.
        destruct (pln_st sh I (r_fails r)); try reflexivity; exfalso; apply Hend; left; reflexivity. }
      assert (Hb : block_of sh b <> None) by (unfold seq_of in Hsq; destruct (block_of sh b); [discriminate|contradiction]).
      unfold mst in Ht. rewrite Hm in Ht. fold (mst m (OBlock b)) in Ht. rewrite Hmb in Ht by exact Hb.
      unfold sstat. rewrite Hm, Hmq. fold (mst (mget r) (OSeq b q)). fold (mem_st r (OSeq b q)).
      destruct (in_dec pair_dec (b, q) (resumed sh I)) as [Hin|Hnin].
      * right. now apply Hres.
      * rewrite Hnon by exact Hnin. eapply (ms_rs2 MS); eauto.
    + intros todo Ht. discriminate.
  - (* the next block *)
    simpl.
    set (r' := {| r_s := _; r_base := r_base r; r_mem := r_mem r; r_ph := RRecover ((b, qs) :: rest);
                  r_I := r_I r; r_pl := r_pl r; r_fails := r_fails r |}).
    constructor; change (mget r') with (mget r).
    + exact Ha.
    + exact Hs.
    + intros b0 q rs x _ _ Hx. unfold seqs_of in Hx. simpl in Hx.
      destruct (rec_block_nth _ _ _ _ _ Hx) as [[_ ->]|[_ ->]]; unfold cur_ok, cur_okm; [discriminate|exact Logic.I].
    + intros b0 q rs Hq Hwt. unfold waiting in Hwt. cbn [r_ph r'] in Hwt. cbn [r_pl r'].
      destruct Hwt as [(-> & Hin & _)|(qs' & Hin & Hq')].
      * eapply Hw; eauto. left. reflexivity.
      * eapply Hw; eauto. right. exact Hin.
    + intro H. discriminate.
    + intros todo Ht. injection Ht as <-. exact Hnd.
Qed.

(* ------------------------------------------------------------------ epsilon-moves *)
Lemma M_reps r r1 : Inv sh I r -> M r -> reps sh r = Some r1 -> M r1.
Proof.
  intros Hi HM H. unfold reps in H. destruct (r_ph r) as [| [|[b qs] todo] |] eqn:Ep; try discriminate.
  - (* fixBlock's g.Wait returned for this block *)
    destruct (forallb s_done (b_seqs (s_b (r_s r)))) eqn:Ed; [|discriminate]. injection H as <-.
    destruct (i_const _ _ _ Hi) as [HI Hpl].
    destruct (i_rec _ _ _ Hi _ Ep) as ((b0 & qs0 & rest & E & Ha & Hbe & Hd & Hm) & H2 & Hne & H3 & H4).
    injection E as <- <- <-.
    pose proof (m_todo r HM _ Ep) as Hnd. cbn [map fst] in Hnd. inversion Hnd as [|? ? Hni Hnd']; subst.
    apply M_start_recover; cbn [r_pl]; auto.
    + apply (m_act r HM).
    + apply (m_seq r HM).
    + intros b' qs' q rs Hin Hq Hsq. apply (m_wait r HM b' q rs Hsq). unfold waiting. rewrite Ep. right. eauto.
    + intros -> b' q Hin. destruct (H4 _ _ Hin) as [Hp|Hcf]; [|exact Hcf].
      unfold pending in Hp. rewrite Ep in Hp. destruct Hp as [(_ & _ & (x & Hx & Hnd0))|(qs' & [] & _)].
      destruct (forallb_nth_done _ _ _ Ed Hx) as (v & ->). exfalso. eapply Hnd0; eauto.
  - (* a phase move of the state chain *)
    apply option_map_some in H as (s2 & H & ->). unfold rp_eps in H.
    destruct (p_eps sh (r_s r)) as [s'|] eqn:Ee; [|discriminate]. injection H as <-.
    assert (Hnend : ~ ended r) by (destruct (p_eps_not_ended _ _ _ Ee) as [A B]; intros [E|E]; contradiction).
    destruct (p_eps_phase _ _ _ Ee) as [Hout Hinb].
    destruct (p_eps_spec _ _ _ Ee) as [_ [Hent|[Hent Hst]]].
    + change (entered (r_s r) s') with (entered_new (r_s r) s'). rewrite Hent.
      destruct (r_enter_ge sh (mget r) s' (s_cb s')) as (cb' & Hle & -> & Hnt).
      assert (Hp' : s_ph s' = PBlocks).
      { unfold entered_new in Hent. apply andb_true_iff in Hent as [Hent _]. destruct (s_ph s'); try discriminate. reflexivity. }
      unfold entered_new in Hent. apply andb_true_iff in Hent as [_ Hent].
      destruct (Hinb Hp') as [Hpre|[Hpb Hcb]].
      * apply M_enter; auto. unfold upcoming. destruct Hpre as [E|[E|E]]; rewrite E; exact Logic.I.
      * assert (Hs : s_cb s' = S (s_cb (r_s r))).
        { destruct Hcb as [E|E]; [|exact E]. rewrite Hpb, E in Hent. simpl in Hent. rewrite Nat.eqb_refl in Hent. discriminate. }
        apply M_enter; auto. unfold upcoming. rewrite Hpb. lia.
    + change (entered (r_s r) s') with (entered_new (r_s r) s'). rewrite Hent.
      destruct (pphase_eqb (s_ph s') PBlocks) eqn:Epb.
      * assert (Hp' : s_ph s' = PBlocks) by (destruct (s_ph s'); try discriminate; reflexivity).
        destruct (Hst Hp') as (Hp & Hcb & Hsq & Hbe). apply M_stay; auto.
      * assert (Hp' : s_ph s' <> PBlocks) by (intro Q; rewrite Q in Epb; discriminate).
        apply M_phase; auto.
Qed.

(* ------------------------------------------------------------------ the initial state *)
Lemma M_rinit rs r0 : ist I OPlan = Running -> rinit sh I rs = Some r0 -> M r0.
Proof.
  intros Hp H. unfold rinit in H. rewrite Hp in H. simpl in H.
  destruct (negb (resumable_ok (pln_of sh I))); [discriminate|]. injection H as <-.
  apply M_start_recover; cbn [r_pl]; auto.
  - apply (ms_act MS).
  - apply (ms_seq MS).
  - intros b qs q rs0 Hin Hq Hsq. apply (ms_res MS); [exact Hsq|]. eapply group_in; eauto.
  - apply (ms_todo MS).
  - intros b q Hn. unfold mem_st, mst, mget, over. simpl. rewrite (mem0_nonresumed sh I b q Hn). reflexivity.
  - intros E b q Hin. apply group_nil in E. unfold resumed in Hin. unfold pl in E. rewrite E in Hin. contradiction.
Qed.

(* ------------------------------------------------------------------ every run *)
Hypothesis RS : repair_sound sh I.

Record K (r : rst) : Prop := { k_inv : Inv sh I r; k_m : M r; k_g : GR r }.

Theorem K_run d rs r0 tr r :
  ist I OPlan = Running -> rinit sh I rs = Some r0 -> rrun d sh r0 tr = Some r -> K r.
Proof.
  intros Hp Hi. apply rrun_inv.
  - apply rstep_inv.
    + intros r1 r2 [A B C] H. constructor; [eapply reps_inv; eauto|eapply M_reps; eauto|eapply GR_reps; eauto].
    + intros r1 e r2 [A B C] H. constructor; [exact (proj1 (handle_inv sh I RS d _ _ _ A H))|eapply M_rhandle; eauto|eapply GR_rhandle; eauto].
    + intros r1 e r2 [A B C] H. constructor; [exact (proj1 (flush_inv sh I _ _ _ A H))|eapply M_flush; eauto|eapply GR_flush; eauto].
  - constructor; [eapply rinit_inv; eauto|eapply M_rinit; eauto|eapply GR_rinit; eauto].
Qed.
End MemInv.
