(* GroupInv - a state-only invariant of the engine's handlers and epsilon-moves, kept by the resumed automaton too:
   every action sub-automaton of every check group (plan level, current block) that is waiting for its terminal write
   or has had it (APend / ADone) has at least one recorded attempt.  It is what makes "a Completed check action has
   attempts" (clause 8) a fact about every handled terminal write of a check action.  Proofs only. *)
From Coq Require Import Lia.
From Coercion.Base Require Import Plan.
From Coercion.Engine Require Import Shape Event Action ChecksRun Seq Block Final PlanSM Auto Accept AutoLemmas.
From Coercion.C06 Require Import Groups Steps.
From Coercion.Resume Require Import Resume ResumeLemmas Frame.
From Coercion.C10x Require Import Cells.

Definition ast_ok (a : ast) : Prop := match a with APend _ k | ADone _ k => 0 < k | _ => True end.
Definition gok (g : gst) : Prop := match g with GRun _ acts => Forall ast_ok acts | GIdle _ _ => True end.
Definition tok (t : gtab) : Prop := forall g, gok (tget t g).
Definition G (s : st) : Prop := tok (s_g s) /\ tok (b_g (s_b s)).

Lemma Forall_upd {A} (P : A -> Prop) l i x : Forall P l -> P x -> Forall P (upd l i x).
Proof.
  intros H Hx. revert i. induction H as [|y l Hy Hl IH]; intro i.
  - destruct i; constructor.
  - destruct i; simpl; constructor; auto.
Qed.

Lemma Forall_repeat {A} (P : A -> Prop) x n : P x -> Forall P (repeat x n).
Proof. intro H. induction n; simpl; constructor; auto. Qed.

Lemma gok_act g i a : gok g -> g_act g i = Some a -> ast_ok a.
Proof.
  destruct g as [r l|r acts]; simpl; [discriminate|]. intros H Hn. rewrite Forall_forall in H. apply H.
  eapply nth_error_In; eauto.
Qed.

Lemma gok_set g i a : gok g -> ast_ok a -> gok (g_set g i a).
Proof. destruct g as [r l|r acts]; simpl; [auto|]. intros. now apply Forall_upd. Qed.

Lemma tok_tset t g x : tok t -> gok x -> tok (tset t g x).
Proof.
  intros Ht Hx g'. pose proof (Ht g') as H. destruct g, g'; simpl in *; auto.
Qed.

Lemma tok_gtab0 : tok gtab0.
Proof. intros []; exact I. Qed.

Lemma after_attempt_ok r k o : ast_ok (after_attempt r k o).
Proof.
  unfold after_attempt. destruct o; try (cbn [ast_ok]; apply Nat.lt_0_succ);
    (destruct (S k <=? r); cbn [ast_ok]; [exact I|apply Nat.lt_0_succ]).
Qed.

Lemma a_attempt_ok r a n ok a' ow : a_attempt r a n ok = Some (a', ow) -> ast_ok a'.
Proof.
  unfold a_attempt. destruct a as [|k0|k0|k0 o|v0 n0|v0 n0]; try discriminate.
  - destruct (Nat.eqb n (S k0) && negb ok); [|discriminate]. intro H.
    assert (E : a' = after_attempt r k0 OOverrun) by congruence. subst a'. apply after_attempt_ok.
  - destruct (Nat.eqb n (S k0) && Bool.eqb ok (outcome_ok o)); [|discriminate]. intro H.
    assert (E : a' = after_attempt r k0 o) by congruence. subst a'. apply after_attempt_ok.
Qed.

(* the terminal write of an action: the value written *)
Lemma a_final_value a st n ok a' :
  ast_ok a -> a_final a st n ok = Some a' ->
  ast_ok a' /\ 0 < n /\ ((st = Completed /\ ok = true) \/ (st = Failed /\ ok = false)).
Proof.
  unfold a_final. destruct a as [| | | |v m|]; try discriminate. simpl. intro Hm.
  destruct (Nat.eqb m n && status_eqb st (if v then Completed else Failed) && Bool.eqb ok v) eqn:E; [|discriminate].
  apply andb_true_iff in E as [E E3]. apply andb_true_iff in E as [E1 E2].
  apply Nat.eqb_eq in E1. apply status_eqb_eq in E2. apply Bool.eqb_prop in E3. subst m.
  intro H. injection H as <-. split; [exact Hm|]. split; [exact Hm|]. destruct v; subst; auto.
Qed.

(* one operation on one group *)
Lemma gok_apply ors may dst d g op x owed :
  gok g -> g_apply ors may dst d g op = Some (x, owed) -> gok x.
Proof.
  intros Hg H. destruct op; cbn [g_apply] in H.
  - (* mark *)
    destruct ors as [rs|]; [|discriminate]. apply option_map_some in H as (y & H & E). injection E as <- _.
    unfold g_mark in H.
    assert (Hnew : forall runs, gok (GRun runs (upd (repeat AIdle (length rs)) i (ARun 0)))).
    { intro runs. simpl. apply Forall_upd; [apply Forall_repeat|]; exact I. }
    destruct (g_act g i) as [a|] eqn:Ea.
    + destruct (a_mark a) as [a'|] eqn:Em.
      * injection H as <-. apply gok_set; [exact Hg|]. destruct a; try discriminate. injection Em as <-. exact I.
      * destruct (g_settle g dst) as [[runs l|]|]; try discriminate.
        destruct (may && (i <? length rs)); [|discriminate]. injection H as <-. apply Hnew.
    + destruct g as [runs l|]; [|discriminate]. destruct (may && (i <? length rs)); [|discriminate].
      injection H as <-. apply Hnew.
  - (* start *)
    apply option_map_some in H as (y & H & E). injection E as <- _. unfold g_start in H.
    destruct g as [|r acts]; [discriminate|]. destruct (nth_error acts i) as [a|]; [|discriminate].
    destruct (a_start a d) as [a'|] eqn:Es; [|discriminate]. destruct (acts_marked acts); [|discriminate].
    injection H as <-. simpl. apply Forall_upd; [exact Hg|]. destruct a; try discriminate. simpl in Es.
    destruct (status_eqb (c_st d) Running && Nat.eqb (c_n d) k); [|discriminate]. injection Es as <-. exact I.
  - (* end *)
    apply option_map_some in H as (y & H & E). injection E as <- _. unfold g_end in H.
    destruct (g_act g i) as [a|]; [|discriminate]. destruct (a_end a o) as [a'|] eqn:Ee; [|discriminate].
    injection H as <-. apply gok_set; [exact Hg|]. destruct a; try discriminate. injection Ee as <-. exact I.
  - (* attempt *)
    destruct ors as [rs|]; [|discriminate]. unfold g_attempt in H.
    destruct (g_act g i) as [a|]; [|discriminate]. destruct (nth_error rs i) as [rt|]; [|discriminate].
    destruct (a_attempt rt a n lastok) as [[a' ow]|] eqn:Ea; [|discriminate]. injection H as <- _.
    apply gok_set; [exact Hg|]. eapply a_attempt_ok; eauto.
  - (* final *)
    apply option_map_some in H as (y & H & E). injection E as <- _. unfold g_final in H.
    destruct (g_act g i) as [a|] eqn:Ea; [|discriminate]. destruct (a_final a st n lastok) as [a'|] eqn:Ef; [|discriminate].
    injection H as <-. apply gok_set; [exact Hg|]. exact (proj1 (a_final_value _ _ _ _ _ (gok_act _ _ _ Hg Ea) Ef)).
  - (* verdict *)
    apply option_map_some in H as (y & H & E). injection E as <- _. unfold g_verdict in H.
    destruct (g_close_spec _ _ _ H) as (runs & acts & _ & _ & _ & ->). exact I.
Qed.

Lemma g_final_value g i st n ok x :
  gok g -> g_final g i st n ok = Some x -> 0 < n /\ ((st = Completed /\ ok = true) \/ (st = Failed /\ ok = false)).
Proof.
  intros Hg H. unfold g_final in H. destruct (g_act g i) as [a|] eqn:Ea; [|discriminate].
  destruct (a_final a st n ok) as [a'|] eqn:Ef; [|discriminate].
  exact (proj2 (a_final_value _ _ _ _ _ (gok_act _ _ _ Hg Ea) Ef)).
Qed.

(* ------------------------------------------------------------------ the engine's handlers *)
Lemma G_handle sh s e s' : G s -> handle sh s e = Some s' -> G s'.
Proof.
  intros [Gp Gb] H.
  destruct (handle_cases _ _ _ _ H) as
    [g op x owed _ Ha _ Hu _ | b bs g op x owed _ _ Ha _ Hu _ | b bs q sq sq' owed _ _ _ Hu _ | b bs stt r _ _ _ Hu _
    | stt r _ _ Hu _ | a l _ _ _ _ E3 _ _ E6 _ _ _ | snap _ E | fin _ _ _ _ _ _ E3 _ _ E6 _ _].
  - split; [rewrite (us_g _ _ _ _ _ _ Hu)|rewrite (us_b _ _ _ _ _ _ Hu); exact Gb].
    apply tok_tset; [exact Gp|]. eapply gok_apply; [apply Gp|exact Ha].
  - split; [rewrite (us_g _ _ _ _ _ _ Hu); exact Gp|rewrite (us_b _ _ _ _ _ _ Hu)]. cbn [b_g b_with_g].
    apply tok_tset; [exact Gb|]. eapply gok_apply; [apply Gb|exact Ha].
  - split; [rewrite (us_g _ _ _ _ _ _ Hu); exact Gp|rewrite (us_b _ _ _ _ _ _ Hu); exact Gb].
  - split; [rewrite (us_g _ _ _ _ _ _ Hu); exact Gp|rewrite (us_b _ _ _ _ _ _ Hu); exact Gb].
  - split; [rewrite (us_g _ _ _ _ _ _ Hu); exact Gp|rewrite (us_b _ _ _ _ _ _ Hu); exact Gb].
  - split; [rewrite E3; exact Gp|rewrite E6; exact Gb].
  - subst s'. split; assumption.
  - split; [rewrite E3; exact Gp|rewrite E6; exact Gb].
Qed.

(* ------------------------------------------------------------------ epsilon-moves *)
Lemma g_settle_gok g dst x : g_settle g dst = Some x -> gok g -> gok x.
Proof.
  unfold g_settle. destruct g as [r l|r acts]; [intro H; now injection H as <-|].
  intros H _. destruct (g_close_spec _ _ _ H) as (runs & acts' & _ & _ & _ & ->). exact I.
Qed.

Lemma once_done_gok present g dst x v : once_done present g dst = Some (x, v) -> gok g -> gok x.
Proof.
  unfold once_done. destruct present; [|intro H; now injection H as <- _].
  destruct (g_settle g dst) as [[[|r] [v0|]|]|]; try discriminate. intro H. injection H as <- _. intros _. exact I.
Qed.

Lemma tok_once t g present dst x v : tok t -> once_done present (tget t g) dst = Some (x, v) -> tok (tset t g x).
Proof. intros Ht H. apply tok_tset; [exact Ht|]. eapply once_done_gok; eauto. Qed.

Lemma tok_settle t g dst x : tok t -> g_settle (tget t g) dst = Some x -> tok (tset t g x).
Proof. intros Ht H. apply tok_tset; [exact Ht|]. eapply g_settle_gok; eauto. Qed.

Lemma b_eps_tok bs im bi pvis b b' : b_eps bs im bi pvis b = Some (BStay b') -> tok (b_g b) -> tok (b_g b').
Proof.
  unfold b_eps. intros H Gb.
  destruct (b_ph b).
  - destruct (status_eqb (ist im (OBlock bi)) Running); [|discriminate]. injection H as <-. exact Gb.
  - destruct (g_bypass (bs_groups bs)).
    + destruct (once_done true (t_bypass (b_g b)) _) as [[x [|]]|] eqn:E; try discriminate; injection H as <-;
        exact (tok_once (b_g b) GBypass _ _ _ _ Gb E).
    + injection H as <-. exact Gb.
  - destruct (once_done _ (t_pre (b_g b)) _) as [[x v1]|] eqn:E1; [|discriminate].
    destruct (once_done _ (t_cont (b_g b)) _) as [[y v2]|] eqn:E2; [|discriminate].
    assert (T : tok (tset (tset (b_g b) GPre x) GCont y)).
    { eapply (tok_once (tset (b_g b) GPre x) GCont); [exact (tok_once (b_g b) GPre _ _ _ _ Gb E1)|exact E2]. }
    destruct (v1 && v2); injection H as <-; exact T.
  - destruct (negb (Nat.eqb (inflight b) 0)); [discriminate|].
    destruct (exceeded bs b); [injection H as <-; exact Gb|].
    destruct (all_started b); [injection H as <-; exact Gb|].
    destruct (pvis || _); [|discriminate]. injection H as <-. exact Gb.
  - destruct (once_done _ (t_post (b_g b)) _) as [[x v]|] eqn:E; [|discriminate]. injection H as <-.
    exact (tok_once (b_g b) GPost _ _ _ _ Gb E).
  - destruct (once_done _ (t_deferred (b_g b)) _) as [[x v]|] eqn:E; [|discriminate]. injection H as <-.
    exact (tok_once (b_g b) GDeferred _ _ _ _ Gb E).
  - destruct (thr_live (b_thr b)).
    + destruct (g_settle _ _) as [x|] eqn:E; [|discriminate]. injection H as <-.
      exact (tok_settle (b_g b) GCont _ _ Gb E).
    + destruct (status_eqb _ _); discriminate.
Qed.

Lemma enter_block_G sh s cb : tok (s_g s) -> G (enter_block sh s cb).
Proof.
  intro Gp. unfold enter_block. destruct (block_of sh cb); split; cbn; try exact Gp; apply tok_gtab0.
Qed.

Lemma G_p_eps sh s s' : G s -> p_eps sh s = Some s' -> G s'.
Proof.
  intros [Gp Gb] H. unfold p_eps in H.
  destruct (s_ph s).
  - destruct (status_eqb _ Running); [|discriminate]. injection H as <-. split; assumption.
  - destruct (g_bypass (sh_groups sh)).
    + destruct (once_done true _ _) as [[x [|]]|] eqn:E; try discriminate; injection H as <-; (split; [|exact Gb]);
        exact (tok_once (s_g s) GBypass _ _ _ _ Gp E).
    + injection H as <-. split; assumption.
  - destruct (once_done _ (t_pre (s_g s)) _) as [[x v1]|] eqn:E1; [|discriminate].
    destruct (once_done _ (t_cont (s_g s)) _) as [[y v2]|] eqn:E2; [|discriminate].
    assert (T : tok (tset (tset (s_g s) GPre x) GCont y)).
    { eapply (tok_once (tset (s_g s) GPre x) GCont); [exact (tok_once (s_g s) GPre _ _ _ _ Gp E1)|exact E2]. }
    destruct (v1 && v2); injection H as <-.
    + destruct (enter_block_G sh (with_thr (with_g s (tset (tset (s_g s) GPre x) GCont y)) (if present (g_cont (sh_groups sh)) then TLive else TNone)) 0 T) as [A B].
      split; assumption.
    + split; [exact T|exact Gb].
  - destruct (block_of sh (s_cb s)) as [bs|].
    + destruct (b_eps bs (s_img s) (s_cb s) (p_visible s) (s_b s)) as [[b'|[|]]|] eqn:Ee; try discriminate; injection H as <-.
      * split; [exact Gp|]. exact (b_eps_tok _ _ _ _ _ _ Ee Gb).
      * split; assumption.
      * apply enter_block_G. exact Gp.
    + injection H as <-. split; assumption.
  - destruct (thr_live (s_thr s)).
    + destruct (g_settle _ _) as [x|] eqn:E; [|discriminate]. injection H as <-.
      pose proof (tok_settle (s_g s) GCont _ _ Gp E) as T.
      destruct (g_dead x); split; assumption.
    + destruct (once_done _ (t_post (s_g s)) _) as [[x v]|] eqn:E; [|discriminate]. injection H as <-. split; [|exact Gb].
      exact (tok_once (s_g s) GPost _ _ _ _ Gp E).
  - destruct (thr_live (s_thr s)).
    + destruct (g_settle _ _) as [x|] eqn:E; [|discriminate]. injection H as <-. split; [|exact Gb].
      exact (tok_settle (s_g s) GCont _ _ Gp E).
    + destruct (once_done _ (t_deferred (s_g s)) _) as [[x v]|] eqn:E; [|discriminate]. injection H as <-. split; [|exact Gb].
      exact (tok_once (s_g s) GDeferred _ _ _ _ Gp E).
  - discriminate.
  - discriminate.
Qed.

(* ------------------------------------------------------------------ the resumed automaton *)
From Coercion.Resume Require Import NoReexec.

Definition GR (r : rst) : Prop := G (r_s r).

Lemma plan_gtab_tok sh m : tok (plan_gtab sh m).
Proof.
  intro g. unfold plan_gtab. destruct g; cbn [tget t_bypass t_pre t_cont t_post t_deferred]; try exact I.
  - destruct (is_terminal _); exact I.
  - destruct (is_terminal _); exact I.
Qed.

Lemma block_gtab_tok bs m b : tok (block_gtab bs m b).
Proof.
  intro g. unfold block_gtab. destruct g; cbn [tget t_bypass t_pre t_cont t_post t_deferred];
    match goal with |- gok (if ?c then _ else _) => destruct c end; exact I.
Qed.

Lemma GR_start_recover sh r todo : GR (start_recover sh r todo).
Proof.
  unfold GR, start_recover, take_entry. destruct todo as [|[b qs] rest]; cbn [r_s]; split; cbn [s_g s_b b_g b_none rec_block];
    try apply tok_gtab0. apply plan_gtab_tok.
Qed.

Lemma r_enter_G sh m s cb : tok (s_g s) -> G (r_enter sh m s cb).
Proof.
  intro Gp. destruct (r_enter_spec sh m s cb) as (cb' & -> & _). split; cbn; [exact Gp|].
  destruct (block_of sh cb'); cbn; [apply block_gtab_tok|apply tok_gtab0].
Qed.

Lemma GR_reps sh r r1 : GR r -> reps sh r = Some r1 -> GR r1.
Proof.
  intros Hg H. unfold reps in H. destruct (r_ph r) as [| [|[b qs] todo] |]; try discriminate.
  - destruct (forallb s_done (b_seqs (s_b (r_s r)))); [|discriminate]. injection H as <-. apply GR_start_recover.
  - apply option_map_some in H as (s2 & H & ->). unfold rp_eps in H.
    destruct (p_eps sh (r_s r)) as [s'|] eqn:Ee; [|discriminate]. injection H as <-.
    pose proof (G_p_eps _ _ _ Hg Ee) as G'. unfold GR. cbn [r_s with_s].
    destruct (entered (r_s r) s'); [apply r_enter_G; apply G'|exact G'].
Qed.

Lemma GR_rhandle d sh r e r' : GR r -> rhandle d sh r e = Some r' -> GR r'.
Proof.
  intros Hg H. unfold rhandle in H.
  assert (Hs : forall x, option_map (with_s r) x = Some r' -> (forall s', x = Some s' -> G s') -> GR r').
  { intros x Hx Hy. apply option_map_some in Hx as (s' & E & ->). unfold GR. cbn. auto. }
  assert (Hrel : forall fin, r_release d sh r fin = Some r' -> GR r').
  { intros fin Hr. unfold r_release in Hr. destruct (r_ph r); try discriminate.
    - destruct (negb (released (r_s r)) && _); [|discriminate]. injection Hr as <-. exact Hg.
    - destruct (all_flushed sh r && _); [|discriminate]. eapply Hs; [exact Hr|]. intros s' E. eapply (G_handle sh _ (EvRelease fin)); eauto. }
  assert (Hwr : forall o stt n ok rs, r_write sh r o stt n ok rs = Some r' -> GR r').
  { intros o stt n ok rs Hw.
    assert (Hrl : released (r_s r) = false).
    { unfold r_write in Hw. destruct (released (r_s r)); [discriminate|reflexivity]. }
    destruct (r_write_cases _ _ _ _ _ _ _ _ Hw) as [_ [(s' & Hh & ->)|[(b & q & b1 & qs & rest & -> & -> & _ & _ & Hu & ->)|[-> ->]]]].
    - unfold GR. cbn. eapply (G_handle sh _ (EvWrite o stt n ok rs)); [exact Hg|]. cbn [handle]. now rewrite Hrl.
    - destruct (b_seq_upd_spec _ _ _ _ Hu) as (x & y & _ & _ & ->). exact Hg.
    - exact Hg. }
  destruct (r_ph r); destruct e; try discriminate; eauto.
  - eapply Hs; [exact H|]. intros s' E. eapply (G_handle sh _ (EvRead snap)); eauto.
  - eapply Hs; [exact H|]. intros s' E. eapply G_handle; eauto.
  - eapply Hs; [exact H|]. intros s' E. eapply G_handle; eauto.
  - eapply Hs; [exact H|]. intros s' E. eapply G_handle; eauto.
  - eapply Hs; [exact H|]. intros s' E. eapply G_handle; eauto.
  - eapply Hs; [exact H|]. intros s' E. eapply G_handle; eauto.
  - eapply Hs; [exact H|]. intros s' E. eapply G_handle; eauto.
Qed.

Lemma GR_flush sh r e r' : GR r -> flush sh r e = Some r' -> GR r'.
Proof.
  intros Hg H. unfold flush in H. destruct (r_ph r); [discriminate| |];
    (destruct e; try discriminate; destruct o; try discriminate;
     match type of H with (if ?c then _ else _) = _ => destruct c; [|discriminate] end; injection H as <-; exact Hg).
Qed.

Lemma GR_rinit sh im rs r0 : rinit sh im rs = Some r0 -> GR r0.
Proof.
  unfold rinit. destruct (negb (status_eqb (ist im OPlan) Running)).
  - intro H. injection H as <-. split; apply tok_gtab0.
  - destruct (negb (resumable_ok (pln_of sh im))); [discriminate|]. intro H. injection H as <-. apply GR_start_recover.
Qed.

Lemma GR_run d sh tr r r' : GR r -> rrun d sh r tr = Some r' -> GR r'.
Proof.
  apply rrun_inv. apply rstep_inv.
  - apply GR_reps.
  - intros r0 e r1. apply GR_rhandle.
  - intros r0 e r1. apply GR_flush.
Qed.

(* the value of a handled write of a check action obeys clause 8 *)
Lemma chk_write_value sh s sc g i stt n ok r s' :
  G s -> h_write sh s (OAct (AChk sc g i)) stt n ok r = Some s' -> act_ok (wcell stt n ok).
Proof.
  intros [Gp Gb] H. unfold h_write in H. destruct (negb (obj_in_shape sh (OAct (AChk sc g i)))); [discriminate|].
  apply option_map_some in H as (s1 & H & _). cbn [h_write_obj] in H. unfold h_write_act in H.
  assert (Hv : forall gg x, gok gg -> g_final gg i stt n ok = Some x -> act_ok (wcell stt n ok)).
  { intros gg x Hg Hf. destruct (g_final_value _ _ _ _ _ _ Hg Hf) as [Hn [[-> ->]|[-> ->]]].
    - right. right. left. repeat split; auto.
    - right. right. right. repeat split; auto. }
  destruct stt; try discriminate.
  - left. reflexivity.
  - destruct sc as [|b].
    + unfold p_chk_final in H. destruct (g_final (tget (s_g s) g) i Completed n ok) eqn:E; [|discriminate]. exact (Hv _ _ (Gp g) E).
    + destruct (cur_block sh s b); [|discriminate]. apply option_map_some in H as (b' & H & _). unfold b_chk_final in H.
      destruct (g_final (tget (b_g (s_b s)) g) i Completed n ok) eqn:E; [|discriminate]. exact (Hv _ _ (Gb g) E).
  - destruct sc as [|b].
    + unfold p_chk_final in H. destruct (g_final (tget (s_g s) g) i Failed n ok) eqn:E; [|discriminate]. exact (Hv _ _ (Gp g) E).
    + destruct (cur_block sh s b); [|discriminate]. apply option_map_some in H as (b' & H & _). unfold b_chk_final in H.
      destruct (g_final (tget (b_g (s_b s)) g) i Failed n ok) eqn:E; [|discriminate]. exact (Hv _ _ (Gb g) E).
Qed.
