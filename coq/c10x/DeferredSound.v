(* DeferredSound - what DeferredInv.v needs to know about the crash repair, from the transcription Fix.v:
     Hm0     memory right after the repair shows, for every plan check group that is not durably Running, its durable status;
     Hentry  when no failure recorded in the crash image sends Recovery straight to End (short_d false), a plan that the
             repair leaves terminal was bypassed, or has no deferred group, or its deferred group is terminal.
   Then clause (ii) of C10 for the plan scope, at crash images of accepted engine traces.  Proofs only. *)
From Coq Require Import Lia.
From Coercion.Base Require Import Plan.
From Coercion.Engine Require Import Shape Event Action ChecksRun Seq Block Final PlanSM Auto Accept AutoLemmas.
From Coercion.Recover Require Fix FixSpec FixProofs.
From Coercion.Resume Require Import Resume MonRecover ResumeLemmas ReleaseProofs Frame NoReexec ImgWf RepairSound.
From Coercion.Resume Require FixFacts.
From Coercion.Chain Require Import FixMem.
From Coercion.C10x Require Import Cells FixCons MemInit MemInv PlanInv DeferredInv.

(* MonRecover.short_circuits on the durable image *)
Definition short_d (sh : shape) (J : dimg) : bool :=
  existsb (fun b => status_eqb (ist J (OBlock b)) Failed
                    || (status_eqb (ist J (OBlock b)) Running
                        && existsb (fun g => grp_present sh (SBlock b) g && status_eqb (ist J (OChecks (SBlock b) g)) Failed)
                                   [GPre; GCont; GPost]))
          (seq 0 (length (sh_blocks sh)))
  || existsb (fun g => grp_present sh SPlan g && status_eqb (ist J (OChecks SPlan g)) Failed) [GPre; GCont; GPost]
  || (grp_present sh SPlan GBypass && status_eqb (ist J (OChecks SPlan GBypass)) Completed).

Lemma short_d_image sh I : short_circuits sh I = short_d sh (dimg_of_image I).
Proof.
  unfold short_circuits, short_d. cbn [existsb]. rewrite !ist_dimg_of_image.
  match goal with |- existsb ?f ?l || _ || _ = existsb ?g ?l || _ || _ =>
    assert (E : existsb f l = existsb g l) by (apply existsb_ext_in; intros b _; rewrite !ist_dimg_of_image; reflexivity);
    rewrite E end.
  reflexivity.
Qed.

(* fixPlan, when it neither returns early nor finds a Failed / Stopped block: a terminal result is Completed, with a
   Completed (or absent) deferred group *)
Lemma fix_plan_terminal_deferred rs p :
  F.pl_st p = Running -> F.chk_is Completed (F.fix_checks_opt (F.pl_bypass p)) = false ->
  F.checks_failed (F.pl_pre p) = false -> F.checks_failed (F.pl_post p) = false -> F.checks_failed (F.pl_cont p) = false ->
  snd (F.fix_blocks rs 0 (F.pl_blocks p)) = false ->
  F.count_st F.bk_st Failed (fst (fst (F.fix_blocks rs 0 (F.pl_blocks p)))) = 0 ->
  is_terminal (F.pl_st (F.fp_pln (F.fix_plan rs p))) = true ->
  F.checks_completed (F.fix_checks_opt (F.pl_deferred p)) = true.
Proof.
  intros Hr H1 H2 H3 H4 H5 H6. unfold F.fix_plan. rewrite Hr. simpl. rewrite H1, H2, H3, H4.
  destruct (F.fix_blocks rs 0 (F.pl_blocks p)) as [[bs res] stop]. simpl in H5, H6. subst stop. rewrite H6. simpl.
  destruct (Nat.eqb (F.count_st F.bk_st Completed bs) 0 && Nat.eqb (F.count_st F.bk_st Running bs) 0 && true); simpl; [discriminate|].
  destruct (Nat.eqb (F.count_st F.bk_st Completed bs) (length bs) && F.checks_completed (F.fix_checks_opt (F.pl_post p))
            && F.checks_completed (F.fix_checks_opt (F.pl_deferred p))) eqn:E.
  - intros _. apply andb_true_iff in E as [_ E]. exact E.
  - simpl. discriminate.
Qed.

Section Sound.
Variable sh : shape.
Variable J : dimg.
Hypothesis Hwf : img_wf0 sh J = true.
Hypothesis Hrun : ist J OPlan = Running.
Let p := pln_of sh J.

Lemma pl_grp_of g : FS.pl_grp g p = ochk_of J SPlan (sh_groups sh) g.
Proof. destruct g; reflexivity. Qed.

Lemma ochk_status g : gpresent sh g = true -> c_st (ochk_cell (ochk_of J SPlan (sh_groups sh) g)) = ist J (pchk g).
Proof.
  unfold gpresent, ochk_of. destruct (grp_get (sh_groups sh) g); [reflexivity|discriminate].
Qed.

Lemma mem0_no_pchk g : ifind (mem0 p) (pchk g) = None.
Proof.
  destruct (ifind (mem0 p) (pchk g)) as [c|] eqn:E; [|reflexivity].
  apply ifind_in, mem0_in in E as (b' & q' & s0 & _ & Hin).
  destruct (seq_objs_in _ _ _ _ _ Hin) as [[Eo _]|(i' & a' & Eo & _)]; discriminate.
Qed.

Lemma m0_pchk g :
  gpresent sh g = true -> ist J (pchk g) <> Running -> mst (FixMem.m0 sh J) (pchk g) = ist J (pchk g).
Proof.
  intros Hp Hnr. unfold mst, FixMem.m0, over. fold p. rewrite mem0_no_pchk. unfold base0, pl_cell. cbn [pchk].
  destruct (FP.fix_plan_grp (oracle []) p g) as [E|E]; unfold fixed; rewrite E, pl_grp_of.
  - now apply ochk_status.
  - unfold ochk_of in *. unfold gpresent in Hp. destruct (grp_get (sh_groups sh) g) as [rs|]; [|discriminate]. cbn [option_map F.fix_checks_opt].
    rewrite FP.fix_checks_other; [reflexivity|]. exact Hnr.
Qed.

(* no block comes back Stopped: fixPlan's loop goes through all the blocks *)
Lemma fix_blocks_no_stop rs bs : forall i0,
  (forall i b, nth_error bs i = Some b -> F.bk_st (F.fb_blk (F.fix_block rs b)) <> Stopped) ->
  snd (F.fix_blocks rs i0 bs) = false.
Proof.
  induction bs as [|b bs IH]; intros i0 H; [reflexivity|]. simpl.
  assert (H0 : F.bk_st (F.fb_blk (F.fix_block rs b)) <> Stopped) by (apply (H 0); reflexivity).
  rewrite (FP.status_eqb_neq _ _ H0). specialize (IH (S i0)). destruct (F.fix_blocks rs (S i0) bs) as [[r' res'] st]. simpl in *.
  apply IH. intros i b' Hn. apply (H (S i)). exact Hn.
Qed.

Lemma chk_is_block t b bs g :
  F.chk_is t (ochk_of J (SBlock b) (bs_groups bs) g)
  = match grp_get (bs_groups bs) g with Some _ => status_eqb (ist J (OChecks (SBlock b) g)) t | None => false end.
Proof. unfold ochk_of. destruct (grp_get (bs_groups bs) g); reflexivity. Qed.

Hypothesis Hshort : short_d sh J = false.

Lemma short_parts :
  (forall b, b < length (sh_blocks sh) -> ist J (OBlock b) <> Failed
     /\ (ist J (OBlock b) = Running -> forall g, In g [GPre; GCont; GPost] ->
           grp_present sh (SBlock b) g && status_eqb (ist J (OChecks (SBlock b) g)) Failed = false))
  /\ (forall g, In g [GPre; GCont; GPost] -> grp_present sh SPlan g && status_eqb (ist J (OChecks SPlan g)) Failed = false)
  /\ grp_present sh SPlan GBypass && status_eqb (ist J (OChecks SPlan GBypass)) Completed = false.
Proof.
  unfold short_d in Hshort. apply orb_false_iff in Hshort as [H H3]. apply orb_false_iff in H as [H1 H2].
  split; [|split; [|exact H3]].
  - intros b Hb. assert (Hin : In b (seq 0 (length (sh_blocks sh)))) by (apply in_seq; lia).
    assert (Hf : forall l, existsb (fun b0 => status_eqb (ist J (OBlock b0)) Failed
                    || (status_eqb (ist J (OBlock b0)) Running
                        && existsb (fun g => grp_present sh (SBlock b0) g && status_eqb (ist J (OChecks (SBlock b0) g)) Failed) [GPre; GCont; GPost])) l = false ->
              In b l -> status_eqb (ist J (OBlock b)) Failed
                    || (status_eqb (ist J (OBlock b)) Running
                        && existsb (fun g => grp_present sh (SBlock b) g && status_eqb (ist J (OChecks (SBlock b) g)) Failed) [GPre; GCont; GPost]) = false).
    { induction l as [|x l IH]; [contradiction|]. simpl. intros E [->|Hl]; apply orb_false_iff in E as [E1 E2]; auto. }
    specialize (Hf _ H1 Hin). apply orb_false_iff in Hf as [F1 F2]. split.
    + intro E. rewrite E in F1. discriminate.
    + intros Er g Hg. rewrite Er in F2. simpl in F2. cbn [existsb] in F2.
      apply orb_false_iff in F2 as [G1 G2]. apply orb_false_iff in G2 as [G2 G3]. apply orb_false_iff in G3 as [G3 _].
      destruct Hg as [<-|[<-|[<-|[]]]]; assumption.
  - intros g Hg. cbn [existsb] in H2. apply orb_false_iff in H2 as [G1 G2]. apply orb_false_iff in G2 as [G2 G3].
    apply orb_false_iff in G3 as [G3 _]. destruct Hg as [<-|[<-|[<-|[]]]]; assumption.
Qed.

Lemma p_block_nth i b0 : nth_error (F.pl_blocks p) i = Some b0 -> exists bs, block_of sh i = Some bs /\ b0 = blk_of sh J i bs.
Proof.
  intro H. change (nth_error (F.pl_blocks p) i) with (FS.get_blk p i) in H. unfold p in H. rewrite get_blk_of in H.
  destruct (block_of sh i) as [bs|]; [|discriminate]. injection H as <-. eauto.
Qed.

Lemma grp_present_block i bs g : block_of sh i = Some bs ->
  grp_present sh (SBlock i) g = match grp_get (bs_groups bs) g with Some _ => true | None => false end.
Proof. intro Hb. unfold grp_present, group_of, scope_groups. now rewrite Hb. Qed.

(* under the premise no block is Failed after fixBlock, whatever the resumed sequences did *)
Lemma fixed_block_not_failed rs i bs : block_of sh i = Some bs ->
  F.bk_st (blk_of sh J i bs) <> Failed /\ F.bk_st (F.fb_blk (F.fix_block rs (blk_of sh J i bs))) <> Failed.
Proof.
  intro Hb. destruct short_parts as (Hblk & _ & _).
  assert (Hi : i < length (sh_blocks sh)) by (unfold block_of in Hb; apply nth_error_Some; rewrite Hb; discriminate).
  destruct (Hblk i Hi) as [Hnf Hgr]. split; [exact Hnf|].
  set (b0 := blk_of sh J i bs).
  assert (Hst : F.bk_st b0 = ist J (OBlock i)) by reflexivity.
  assert (Hno : forall g, In g [GPre; GCont; GPost] -> ist J (OBlock i) = Running -> F.chk_is Failed (ochk_of J (SBlock i) (bs_groups bs) g) = false).
  { intros g Hg Er. rewrite chk_is_block. specialize (Hgr Er g Hg). rewrite (grp_present_block _ _ _ Hb) in Hgr.
    destruct (grp_get (bs_groups bs) g); [exact Hgr|reflexivity]. }
  unfold F.fix_block. destruct (status_eqb (F.bk_st b0) Running) eqn:Er; cbn [negb].
  - apply status_eqb_eq in Er. rewrite Hst in Er.
    destruct (F.chk_is Completed (F.fix_checks_opt (F.bk_bypass b0))); [cbn; discriminate|].
    change (F.bk_pre b0) with (ochk_of J (SBlock i) (bs_groups bs) GPre). rewrite (Hno GPre) by (simpl; auto).
    change (F.bk_cont b0) with (ochk_of J (SBlock i) (bs_groups bs) GCont). rewrite (Hno GCont) by (simpl; auto).
    change (F.bk_post b0) with (ochk_of J (SBlock i) (bs_groups bs) GPost). rewrite (Hno GPost) by (simpl; auto).
    repeat match goal with |- context [if ?c then _ else _] => destruct c end; cbn; try discriminate; exact Hnf.
  - cbn. exact Hnf.
Qed.

Lemma entry_pd fl : is_terminal (pln_st sh J fl) = true -> pd_ok sh (mst (FixMem.m0 sh J)).
Proof.
  destruct short_parts as (Hblk & Hplan & Hbyp). intro Ht.
  unfold pln_st, pl_cell, fixed in Ht. fold p in Ht. cbn [c_st st_cell] in Ht.
  assert (Hr : F.pl_st p = Running) by exact Hrun.
  assert (Hnb : F.chk_is Completed (F.fix_checks_opt (F.pl_bypass p)) = false).
  { rewrite FP.chk_is_fix by discriminate. change (F.pl_bypass p) with (ochk_of J SPlan (sh_groups sh) GBypass). rewrite chk_is_ochk. exact Hbyp. }
  assert (Hnf : forall g, In g [GPre; GCont; GPost] -> F.chk_is Failed (ochk_of J SPlan (sh_groups sh) g) = false).
  { intros g Hg. rewrite chk_is_ochk. now apply Hplan. }
  assert (Hstop : snd (F.fix_blocks (oracle fl) 0 (F.pl_blocks p)) = false).
  { apply fix_blocks_no_stop. intros i b0 Hn. destruct (p_block_nth _ _ Hn) as (bs & Hb & ->). now apply img_block_not_stopped. }
  assert (Hfail : F.count_st F.bk_st Failed (fst (fst (F.fix_blocks (oracle fl) 0 (F.pl_blocks p)))) = 0).
  { apply FF.count_zero_of_forall. apply forall_of_nth. intros k b' Hk.
    assert (Hlt : k < length (F.pl_blocks p)) by (rewrite <- (FP.fix_blocks_length (oracle fl) (F.pl_blocks p) 0); eapply nth_lt; eauto).
    destruct (nth_error (F.pl_blocks p) k) as [b0|] eqn:E0; [|apply nth_error_None in E0; lia].
    destruct (p_block_nth _ _ E0) as (bs & Hb & ->). destruct (fixed_block_not_failed (oracle fl) k bs Hb) as [N1 N2].
    destruct (FP.fix_blocks_nth (oracle fl) (F.pl_blocks p) 0 k _ E0) as [Q|Q]; rewrite Hk in Q; injection Q as ->; assumption. }
  assert (Ed : F.checks_completed (F.fix_checks_opt (F.pl_deferred p)) = true).
  { apply (fix_plan_terminal_deferred (oracle fl) p Hr Hnb); auto.
    - exact (Hnf GPre ltac:(simpl; auto)).
    - exact (Hnf GPost ltac:(simpl; auto)).
    - exact (Hnf GCont ltac:(simpl; auto)). }
  rewrite FP.checks_completed_fix in Ed.
  change (F.pl_deferred p) with (ochk_of J SPlan (sh_groups sh) GDeferred) in Ed. unfold ochk_of, F.checks_completed in Ed.
  destruct (grp_get (sh_groups sh) GDeferred) as [rs|] eqn:Eg.
  - right. right. cbn in Ed. apply status_eqb_eq in Ed.
    assert (Hp : gpresent sh GDeferred = true) by (unfold gpresent; now rewrite Eg).
    rewrite (m0_pchk GDeferred Hp); [unfold pchk; now rewrite Ed|unfold pchk; rewrite Ed; discriminate].
  - right. left. unfold gpresent. now rewrite Eg.
Qed.
End Sound.

(* ------------------------------------------------------------------ every run, and the release *)
From Coercion.C04 Require AllObjs.
From Coercion.ImgWf Require Import CrashImage FullProofs.
From Coercion.C10x Require Import EngineImg GroupInv Sound Release.

Section Runs.
Variable sh : shape.
Variable J : dimg.
Hypothesis MS : mem_sound sh J.
Hypothesis RS : repair_sound sh J.
Hypothesis Hwf : img_wf0 sh J = true.
Hypothesis Hrun : ist J OPlan = Running.
Hypothesis Hshort : short_d sh J = false.

Record K3 (r : rst) : Prop := { k3_k : K2 sh J r; k3_d : DI sh J r }.

Lemma K2_rhandle d r e r' : K2 sh J r -> rhandle d sh r e = Some r' -> K2 sh J r'.
Proof.
  intros [[A B C] D E] H.
  constructor; [constructor; [exact (proj1 (handle_inv sh J RS d _ _ _ A H))|eapply M_rhandle; eauto|eapply GR_rhandle; eauto]|eapply WAR_rhandle; eauto|eapply PL_rhandle; eauto].
Qed.

Lemma K2_flush r e r' : K2 sh J r -> flush sh r e = Some r' -> K2 sh J r'.
Proof.
  intros [[A B C] D E] H.
  constructor; [constructor; [exact (proj1 (flush_inv sh J _ _ _ A H))|eapply M_flush; eauto|eapply GR_flush; eauto]|eapply WAR_flush; eauto|eapply PL_flush; eauto].
Qed.

Lemma K3_reps r r1 : K3 r -> reps sh r = Some r1 -> K3 r1.
Proof.
  intros [A B] H. constructor; [eapply K2_reps; eauto|].
  eapply (DI_reps sh J (entry_pd sh J Hwf Hrun Hshort)); eauto. exact (k_inv _ _ _ (k2_k _ _ _ A)).
Qed.

Lemma K3_rhandle d r e r' : K3 r -> rhandle d sh r e = Some r' -> K3 r'.
Proof.
  intros [A B] H. constructor; [eapply K2_rhandle; eauto|].
  eapply DI_rhandle; eauto; [exact (k_inv _ _ _ (k2_k _ _ _ A))|exact (k2_w _ _ _ A)].
Qed.

Lemma K3_flush r e r' : K3 r -> flush sh r e = Some r' -> K3 r'.
Proof. intros [A B] H. constructor; [eapply K2_flush; eauto|eapply DI_flush; eauto]. Qed.

Theorem K3_run d rs r0 tr r : rinit sh J rs = Some r0 -> rrun d sh r0 tr = Some r -> K3 r.
Proof.
  intro Hi. apply rrun_inv.
  - apply rstep_inv; [apply K3_reps|intros r1 e r2; apply K3_rhandle|intros r1 e r2; apply K3_flush].
  - constructor; [eapply (K2_run sh J d rs r0 [] r0); eauto|].
    eapply (DI_rinit sh J (entry_pd sh J Hwf Hrun Hshort) (m0_pchk sh J)); eauto.
Qed.

Lemma release_phase d r fin r' : r_ph r = RRun -> r_release d sh r fin = Some r' -> s_ph (r_s r) = PEnd.
Proof.
  unfold r_release. intros -> H. destruct (all_flushed sh r && quiet d sh (r_I r) (mget r)); [|discriminate].
  apply option_map_some in H as (s' & H & _). unfold h_release in H.
  destruct (pphase_eqb (s_ph (r_s r)) PEnd) eqn:E; [|discriminate]. now apply pphase_eqb_true.
Qed.

(* clause (ii), plan scope *)
Theorem plan_deferred_ran d rs tr fin r0 r :
  rinit sh J rs = Some r0 -> rrun d sh r0 (tr ++ [EvRelease fin]) = Some r ->
  grp_present sh SPlan GDeferred = true -> scope_entered sh fin SPlan = true ->
  finished fin (OChecks SPlan GDeferred) = true.
Proof.
  intros Hi H Hdef Hent. rewrite rrun_app in H. destruct (rrun d sh r0 tr) as [r1|] eqn:E1; [|discriminate].
  simpl in H. destruct (rstep d sh r1 (EvRelease fin)) as [r2|] eqn:E2; [|discriminate]. injection H as <-.
  pose proof (K3_run d rs r0 tr r1 Hi E1) as K1.
  destruct (rstep_release _ _ _ _ _ E2) as (r1' & Hs & Hr).
  pose proof (reps_star_inv K3 sh K3_reps _ _ Hs K1) as [K2' D'].
  assert (Hrun' : r_ph r1' = RRun).
  { eapply live_release_run; [|exact Hr]. exact (i_live _ _ _ (k_inv _ _ _ (k2_k _ _ _ K2'))). }
  pose proof (release_phase _ _ _ _ Hrun' Hr) as Hpe.
  assert (Hread : forall o, In o (all_objs sh) -> exists c, im_lookup fin o = Some c /\ ocell_cell c = mget r1' o).
  { intros o Ho. eapply released_mem; eauto. }
  assert (Hst : forall o, obj_in_shape sh o = true -> cst fin o = mst (mget r1') o).
  { intros o Ho. apply (read_st sh fin (mget r1') Hread). now apply AllObjs.all_objs_spec. }
  destruct (di_pd _ _ _ D' (or_introl Hpe)) as [[Hb Hc]|[Hn|Ht]].
  - exfalso. unfold scope_entered in Hent. apply andb_true_iff in Hent as [Hent _]. apply negb_true_iff in Hent.
    assert (Hgb : grp_present sh SPlan GBypass = true) by exact Hb.
    rewrite Hgb in Hent. rewrite Hst in Hent by exact Hgb. unfold pchk in Hc. rewrite Hc in Hent. discriminate.
  - exfalso. assert (Hgd : gpresent sh GDeferred = true) by exact Hdef. congruence.
  - unfold finished. rewrite Hst by exact Hdef. exact Ht.
Qed.
End Runs.

(* ------------------------------------------------------------------ at crash images of accepted engine traces *)
Section Crash3.
  Variables (sh : shape) (tr1 : list event) (s1 : st) (k : nat).
  Hypothesis Hrun : run sh init tr1 = Some s1.
  Variable I : image.
  Hypothesis Hag : image_agrees (all_objs sh) (fst (crash_image sh tr1 k)) (snd (crash_image sh tr1 k)) I = true.
  Hypothesis Hpl : cst I OPlan = Running.
  Hypothesis Hshort : short_circuits sh I = false.

  Theorem crash_plan_deferred_ran d tr fin r0 r :
    rinit sh (dimg_of_image I) (im_reason I) = Some r0 ->
    rrun d sh r0 (tr ++ [EvRelease fin]) = Some r ->
    grp_present sh SPlan GDeferred = true -> scope_entered sh fin SPlan = true ->
    finished fin (OChecks SPlan GDeferred) = true.
  Proof.
    intros Hi H. destruct (crash_sound sh tr1 s1 k Hrun I Hag Hpl r0 Hi) as [MS RS].
    apply (plan_deferred_ran sh (dimg_of_image I) MS RS (crash_read_wf0 sh tr1 s1 k Hrun I Hag) (crash_plan_running I Hpl)
             ltac:(rewrite <- short_d_image; exact Hshort) d (im_reason I) tr fin r0 r Hi H).
  Qed.
End Crash3.
