(* DeferredInv - towards clause (ii) of C10 for the PLAN scope: when the crash repair does not send Recovery straight to
   End (MonRecover.short_circuits false), the plan Wait returns after the recovery was bypassed as a whole or its
   deferred group (if it has one) has a completed run: it is Completed or Failed.
     E   memory and the durable image agree on the status of every plan check group that is not durably Running;
     L   a plan group whose last run is closed (really, silently, or by the pseudo-run of a group that does not run
         again) is terminal in memory, Completed if the verdict was ok;
     F0  while fixBlock resumes sequences the plan's groups are as the repair left them;
     PD  at End: bypass Completed, or no deferred group, or the deferred group is terminal.
   Proofs only. *)
From Coq Require Import Lia.
From Coercion.Base Require Import Plan.
From Coercion.Engine Require Import Shape Event Action ChecksRun Seq Block Final PlanSM Auto Accept AutoLemmas.
From Coercion.C06 Require Import Groups Steps.
From Coercion.Resume Require Import Resume MonRecover ResumeLemmas ReleaseProofs Frame NoReexec.
From Coercion.ImgWf Require Import CrashImage.
From Coercion.Chain Require Import FixMem ResumedInv.
From Coercion.C10x Require Import Cells GroupInv MemInv PlanInv.

Definition pchk (g : grp) : obj := OChecks SPlan g.

Definition pd_ok (sh : shape) (st : obj -> status) : Prop :=
  (gpresent sh GBypass = true /\ st (pchk GBypass) = Completed)
  \/ gpresent sh GDeferred = false \/ is_terminal (st (pchk GDeferred)) = true.

Record DI (sh : shape) (I : dimg) (r : rst) : Prop := {
  di_e : forall g, gpresent sh g = true -> ist (s_img (r_s r)) (pchk g) <> Running ->
           mst (mget r) (pchk g) = ist (s_img (r_s r)) (pchk g);
  di_l : forall g n v, gpresent sh g = true -> tget (s_g (r_s r)) g = GIdle (S n) (Some v) ->
           is_terminal (mst (mget r) (pchk g)) = true /\ (v = true -> mst (mget r) (pchk g) = Completed);
  di_f : forall todo, r_ph r = RRecover todo -> forall g, mget r (pchk g) = FixMem.m0 sh I (pchk g);
  di_rec : forall todo, r_ph r = RRecover todo ->
             (forall g, g_is_idle (tget (s_g (r_s r)) g) = true) /\ thr_live (s_thr (r_s r)) = false /\ s_ph (r_s r) = PBlocks;
  di_pd : s_ph (r_s r) = PEnd \/ s_ph (r_s r) = PReleased -> pd_ok sh (mst (mget r)) }.

(* an operation that leaves the group with its last run closed is the verdict write *)
Lemma g_apply_closed ors may dst d g op x owed n v :
  g_apply ors may dst d g op = Some (x, owed) -> x = GIdle (S n) (Some v) -> op = OpVerdict (verdict_status v).
Proof.
  intros H E0. subst x. destruct op; cbn [g_apply] in H.
  - destruct ors as [rs|]; [|discriminate]. apply option_map_some in H as (y & H & E). injection E as <- _. unfold g_mark in H.
    destruct (g_act g i) as [a|] eqn:Ea.
    + destruct (a_mark a); [injection H as H; destruct g; [discriminate Ea|discriminate H]|].
      destruct (g_settle g dst) as [[runs l|]|]; try discriminate. destruct (may && _); discriminate.
    + destruct g; [|discriminate]. destruct (may && _); discriminate.
  - apply option_map_some in H as (y & H & E). injection E as <- _. unfold g_start in H.
    destruct g; [discriminate|]. destruct (nth_error acts i); [|discriminate]. destruct (a_start a d); [|discriminate].
    destruct (acts_marked acts); discriminate.
  - apply option_map_some in H as (y & H & E). injection E as <- _. unfold g_end in H.
    destruct (g_act g i) eqn:Ea; [|discriminate]. destruct (a_end a o); [|discriminate]. injection H as H.
    destruct g; [discriminate Ea|discriminate H].
  - destruct ors as [rs|]; [|discriminate]. unfold g_attempt in H.
    destruct (g_act g i) eqn:Ea; [|discriminate]. destruct (nth_error rs i); [|discriminate].
    destruct (a_attempt n1 a n0 lastok) as [[a' ow]|]; [|discriminate]. injection H as H _.
    destruct g; [discriminate Ea|discriminate H].
  - apply option_map_some in H as (y & H & E). injection E as <- _. unfold g_final in H.
    destruct (g_act g i) eqn:Ea; [|discriminate]. destruct (a_final a st n0 lastok); [|discriminate]. injection H as H.
    destruct g; [discriminate Ea|discriminate H].
  - apply option_map_some in H as (y & H & E). injection E as <- _. unfold g_verdict in H.
    destruct (g_close_spec _ _ _ H) as (runs & acts & _ & _ & -> & E). injection E as _ <-. reflexivity.
Qed.

(* a silent closure: the durable status is the verdict *)
Lemma g_settle_closed g dst x n v :
  g_settle g dst = Some x -> x = GIdle (S n) (Some v) -> g = x \/ dst = verdict_status v.
Proof.
  unfold g_settle. destruct g as [r l|r acts]; [intros H _; injection H as <-; now left|].
  intros H E0. subst x. destruct (g_close_spec _ _ _ H) as (runs & acts' & _ & _ & -> & E). injection E as _ <-. now right.
Qed.

Lemma vs_terminal v : is_terminal (verdict_status v) = true /\ (v = true -> verdict_status v = Completed) /\ verdict_status v <> Running.
Proof. destruct v; simpl; repeat split; auto; discriminate. Qed.

Lemma g_apply_idle_nomay ors dst d g op : g_is_idle g = true -> g_apply ors false dst d g op = None.
Proof.
  intro Hi. destruct g as [r l|]; [|discriminate]. destruct op; cbn [g_apply]; try reflexivity.
  - destruct ors; reflexivity.
  - destruct ors as [rs|]; [|reflexivity]. unfold g_attempt. reflexivity.
Qed.

Lemma chk_op_write o stt n ok r sc g op :
  chk_op (EvWrite o stt n ok r) = Some (sc, g, op) ->
  (o = OChecks sc g /\ op = OpVerdict stt) \/ (exists i, o = OAct (AChk sc g i) /\ forall st, op <> OpVerdict st).
Proof.
  unfold chk_op. destruct o as [|sc' g'|b|b q|[sc' g' i|b q i]]; try discriminate.
  - destruct stt; try discriminate; destruct n; try discriminate; destruct ok; try discriminate;
      intro H; injection H as <- <- <-; left; auto.
  - destruct stt; try discriminate.
    + destruct n; [destruct ok; [discriminate|]|]; intro H; injection H as <- <- <-; right; exists i; split; auto; discriminate.
    + intro H; injection H as <- <- <-; right; exists i; split; auto; discriminate.
    + intro H; injection H as <- <- <-; right; exists i; split; auto; discriminate.
Qed.

(* what a handled write does to the plan's groups: nothing, or one operation on one group *)
Lemma hwrite_plan_groups sh s o stt n ok rs s' :
  handle sh s (EvWrite o stt n ok rs) = Some s' ->
  s_ph s' = s_ph s /\ s_thr s' = s_thr s /\
  ((s_g s' = s_g s /\ forall g, o <> pchk g)
   \/ exists g0 op x owed,
        g_apply (grp_get (sh_groups sh) g0) (p_may_start s g0) (ist (s_img s) (pchk g0)) cell0 (tget (s_g s) g0) op = Some (x, owed)
        /\ s_g s' = tset (s_g s) g0 x
        /\ ((o = pchk g0 /\ op = OpVerdict stt) \/ ((forall g, o <> pchk g) /\ forall st, op <> OpVerdict st))).
Proof.
  intro H.
  destruct (handle_cases _ _ _ _ H) as
    [g op x owed Hop Ha _ Hu _ | b bs g op x owed Hop _ _ _ Hu _ | b bs q sq sq' owed _ _ Hst Hu _ | b bs stt' r E _ _ Hu _
    | stt' r E _ Hu _ | a l E | snap E | fin E]; try discriminate E.
  - split; [exact (us_ph _ _ _ _ _ _ Hu)|]. split; [exact (us_thr _ _ _ _ _ _ Hu)|]. right. exists g, op, x, owed.
    split; [exact Ha|]. split; [exact (us_g _ _ _ _ _ _ Hu)|].
    destruct (chk_op_write _ _ _ _ _ _ _ _ Hop) as [[-> ->]|(i & -> & Hnv)]; [left; auto|right]. split; [discriminate|exact Hnv].
  - split; [exact (us_ph _ _ _ _ _ _ Hu)|]. split; [exact (us_thr _ _ _ _ _ _ Hu)|]. left. split; [exact (us_g _ _ _ _ _ _ Hu)|].
    destruct (chk_op_write _ _ _ _ _ _ _ _ Hop) as [[-> _]|(i & -> & _)]; discriminate.
  - split; [exact (us_ph _ _ _ _ _ _ Hu)|]. split; [exact (us_thr _ _ _ _ _ _ Hu)|]. left. split; [exact (us_g _ _ _ _ _ _ Hu)|].
    inversion Hst as [r0 E _ _|st0 r0 v E _|j a x0 i E _ _]; subst.
    + injection E as -> _ _ _ _. discriminate.
    + injection E as -> _ _ _ _. discriminate.
    + cbn in E. destruct o; discriminate.
  - injection E as -> _ _ _ _. split; [exact (us_ph _ _ _ _ _ _ Hu)|]. split; [exact (us_thr _ _ _ _ _ _ Hu)|]. left.
    split; [exact (us_g _ _ _ _ _ _ Hu)|discriminate].
  - injection E as -> _ _ _ _. split; [exact (us_ph _ _ _ _ _ _ Hu)|]. split; [exact (us_thr _ _ _ _ _ _ Hu)|]. left.
    split; [exact (us_g _ _ _ _ _ _ Hu)|discriminate].
Qed.

Lemma pd_ok_ext sh st st' :
  st' (pchk GBypass) = st (pchk GBypass) -> st' (pchk GDeferred) = st (pchk GDeferred) -> pd_ok sh st -> pd_ok sh st'.
Proof. unfold pd_ok. intros -> ->. auto. Qed.

Lemma no_may_in_blocks s g : s_ph s = PBlocks -> thr_live (s_thr s) = false -> p_may_start s g = false.
Proof. intros Hp Hl. unfold p_may_start. rewrite Hp, Hl. destruct g; reflexivity. Qed.

Lemma no_may_at_end s g : W s -> s_ph s = PEnd -> p_may_start s g = false.
Proof.
  intros Hw Hp. destruct (p_may_start s g) eqn:E; [|reflexivity]. apply may_start_open in E.
  apply W_alt in Hw as [_ Ht].
  assert (Hnl : thr_live (s_thr s) = false) by (destruct (thr_live (s_thr s)) eqn:L; [destruct (Ht eq_refl) as [Q|[Q|Q]]; congruence|reflexivity]).
  unfold wopen in E. rewrite Hp, Hnl in E. destruct g; intuition congruence.
Qed.

(* ------------------------------------------------------------------ a write one of the engine's handlers takes *)
Lemma DI_hwrite sh I r o stt n ok rs s' :
  WA sh (r_s r) -> DI sh I r -> released (r_s r) = false -> h_write sh (r_s r) o stt n ok rs = Some s' ->
  DI sh I (with_mem (with_s r s') (iset (r_mem r) o (wcell stt n ok))).
Proof.
  intros [Hw Hab] [De Dl Df Dr Dp] Hrl Hh.
  destruct (h_write_spec _ _ _ _ _ _ _ _ Hh) as (_ & Himg & _).
  assert (Hhd : handle sh (r_s r) (EvWrite o stt n ok rs) = Some s') by (cbn [handle]; now rewrite Hrl).
  set (r' := with_mem (with_s r s') (iset (r_mem r) o (wcell stt n ok))).
  assert (Hmg : forall o', mget r' o' = mupd (mget r) o (wcell stt n ok) o') by (intro; apply mget_write).
  assert (Hdu : forall o', o <> o' -> ist (s_img s') o' = ist (s_img (r_s r)) o').
  { intros o' Hne. rewrite Himg. unfold ist. now rewrite iget_iset_other. }
  assert (Hmo : forall o', o <> o' -> mst (mget r') o' = mst (mget r) o').
  { intros o' Hne. unfold mst. rewrite Hmg. now rewrite mupd_other. }
  subst r'.
  destruct (hwrite_plan_groups _ _ _ _ _ _ _ _ Hhd) as (Eph & Ethr & [[Eg Hno]|(g0 & op & x & owed & Ha & Eg & Hcase)]).
  - (* the plan's groups are not concerned *)
    constructor; cbn [r_s r_ph with_mem with_s].
    + intros g Hg Hnr. rewrite Hdu in * by apply Hno. rewrite Hmo by apply Hno. now apply De.
    + intros g n0 v Hg Ht. rewrite Eg in Ht. rewrite Hmo by apply Hno. eapply Dl; eauto.
    + intros todo Ht g. rewrite Hmg, mupd_other by apply Hno. eapply Df; eauto.
    + intros todo Ht. rewrite Eg, Ethr, Eph. eapply Dr; eauto.
    + rewrite Eph. intro Hp. apply (pd_ok_ext sh (mst (mget r))); [apply Hmo, Hno|apply Hmo, Hno|now apply Dp].
  - (* one operation on plan group g0: not while fixBlock resumes sequences, not at End *)
    assert (Hnrec : forall todo, r_ph r <> RRecover todo).
    { intros todo Ht. destruct (Dr _ Ht) as (Hi & Hl & Hp). rewrite (no_may_in_blocks _ g0 Hp Hl) in Ha.
      rewrite (g_apply_idle_nomay _ _ _ _ op (Hi g0)) in Ha. discriminate. }
    assert (Hnend : s_ph (r_s r) <> PEnd /\ s_ph (r_s r) <> PReleased).
    { split; intro Hp.
      - rewrite (no_may_at_end _ g0 Hw Hp) in Ha. rewrite (g_apply_idle_nomay _ _ _ _ op (W_end_idle _ Hw Hp g0)) in Ha. discriminate.
      - unfold released in Hrl. rewrite Hp in Hrl. discriminate. }
    constructor; cbn [r_s r_ph with_mem with_s].
    + intros g Hg Hnr. destruct Hcase as [[-> ->]|[Hno _]].
      * destruct (grp_dec g0 g) as [<- |Hne].
        -- unfold mst. rewrite Hmg, mupd_same. rewrite Himg. unfold ist. rewrite iget_iset_same. reflexivity.
        -- assert (Hd : pchk g0 <> pchk g) by (intro E; injection E as E; contradiction).
           rewrite Hdu in * by exact Hd. rewrite Hmo by exact Hd. now apply De.
      * rewrite Hdu in * by apply Hno. rewrite Hmo by apply Hno. now apply De.
    + intros g n0 v Hg Ht. rewrite Eg in Ht. destruct (grp_dec g0 g) as [<- |Hne].
      * rewrite tget_tset_same in Ht. pose proof (g_apply_closed _ _ _ _ _ _ _ _ _ _ Ha Ht) as Hop.
        destruct Hcase as [[-> Eop]|[_ Hnv]]; [|exfalso; eapply Hnv; eauto].
        rewrite Hop in Eop. injection Eop as <-. unfold mst. rewrite Hmg, mupd_same. cbn [c_st wcell].
        destruct (vs_terminal v) as (T1 & T2 & _). auto.
      * rewrite tget_tset_other in Ht by exact Hne.
        assert (Hd : o <> pchk g).
        { destruct Hcase as [[-> _]|[Hno _]]; [intro E; injection E as E; contradiction|apply Hno]. }
        rewrite Hmo by exact Hd. eapply Dl; eauto.
    + intros todo Ht. exfalso. eapply Hnrec; eauto.
    + intros todo Ht. exfalso. eapply Hnrec; eauto.
    + rewrite Eph. intros [Hp|Hp]; exfalso; [apply (proj1 Hnend Hp)|apply (proj2 Hnend Hp)].
Qed.

(* ------------------------------------------------------------------ moves that touch no plan check group in memory *)
Lemma DI_frame sh I r r' :
  (forall g, ist (s_img (r_s r')) (pchk g) = ist (s_img (r_s r)) (pchk g)) ->
  (forall g, mget r' (pchk g) = mget r (pchk g)) ->
  (forall g n v, tget (s_g (r_s r')) g = GIdle (S n) (Some v) -> tget (s_g (r_s r)) g = GIdle (S n) (Some v)) ->
  (forall todo, r_ph r' = RRecover todo ->
     r_ph r = RRecover todo /\ ((forall g, g_is_idle (tget (s_g (r_s r)) g) = true) -> forall g, g_is_idle (tget (s_g (r_s r')) g) = true)
     /\ s_thr (r_s r') = s_thr (r_s r) /\ s_ph (r_s r') = s_ph (r_s r)) ->
  (s_ph (r_s r') = PEnd \/ s_ph (r_s r') = PReleased -> s_ph (r_s r) = PEnd \/ s_ph (r_s r) = PReleased) ->
  DI sh I r -> DI sh I r'.
Proof.
  intros Hd Hm Hg Hrec Hph [De Dl Df Dr Dp]. constructor.
  - intros g Hp Hnr. rewrite Hd in *. unfold mst. rewrite Hm. now apply De.
  - intros g n v Hp Ht. unfold mst. rewrite Hm. eapply Dl; eauto.
  - intros todo Ht g. rewrite Hm. destruct (Hrec _ Ht) as (Ht' & _). eapply Df; eauto.
  - intros todo Ht. destruct (Hrec _ Ht) as (Ht' & Hi & E1 & E2). destruct (Dr _ Ht') as (A & B & C).
    rewrite E1, E2. auto.
  - intro Hp. apply (pd_ok_ext sh (mst (mget r))); [unfold mst; now rewrite Hm|unfold mst; now rewrite Hm|]. apply Dp. now apply Hph.
Qed.

(* plugin events, reads, the release *)
Lemma DI_event sh I r e s' :
  WA sh (r_s r) -> DI sh I r -> (forall o stt n ok rs, e <> EvWrite o stt n ok rs) -> handle sh (r_s r) e = Some s' ->
  DI sh I (with_s r s').
Proof.
  intros [Hw Hab] HD Hnw H. pose proof HD as [De Dl Df Dr Dp].
  destruct (handle_cases _ _ _ _ H) as
    [g op x owed Hop Ha _ Hu _ | b bs g op x owed _ _ _ _ Hu _ | b bs q sq sq' owed _ _ _ Hu _ | b bs stt r0 E _ _ Hu _
    | stt r0 E _ Hu _ | a l E _ E1 E2 E3 E4 _ _ _ _ _ | snap _ E | fin E Hpe _ _ E1 E2 E3 E4 _ _ _ _];
    try (exfalso; eapply Hnw; eauto; fail).
  - (* a Start / End of a plan check action *)
    assert (Himg : s_img s' = s_img (r_s r)).
    { rewrite (us_img _ _ _ _ _ _ Hu). destruct e; try reflexivity. exfalso. eapply Hnw; eauto. }
    assert (Hnv : forall st, op <> OpVerdict st).
    { intros st ->. destruct e as [a|a o|o stt n ok rs|snap|fin]; try discriminate Hop.
      - cbn in Hop. destruct a; discriminate.
      - cbn in Hop. destruct a; discriminate.
      - exfalso. eapply Hnw; eauto. }
    assert (Hnrec : forall todo, r_ph r <> RRecover todo).
    { intros todo Ht. destruct (Dr _ Ht) as (Hi & Hl & Hp). rewrite (no_may_in_blocks _ g Hp Hl) in Ha.
      rewrite (g_apply_idle_nomay _ _ _ _ op (Hi g)) in Ha. discriminate. }
    apply (DI_frame sh I r (with_s r s')); cbn [r_s r_ph with_s mget r_mem r_base]; auto.
    + intro g'. now rewrite Himg.
    + intros g' n v Ht. rewrite (us_g _ _ _ _ _ _ Hu) in Ht. destruct (grp_dec g g') as [<- |Hne].
      * rewrite tget_tset_same in Ht. exfalso. eapply Hnv. eapply g_apply_closed; eauto.
      * now rewrite tget_tset_other in Ht.
    + intros todo Ht. exfalso. eapply Hnrec; eauto.
    + rewrite (us_ph _ _ _ _ _ _ Hu). auto.
  - apply (DI_frame sh I r (with_s r s')); cbn [r_s r_ph with_s mget r_mem r_base]; auto.
    + intro g'. rewrite (us_img _ _ _ _ _ _ Hu). destruct e; try reflexivity. exfalso. eapply Hnw; eauto.
    + intros g' n v. now rewrite (us_g _ _ _ _ _ _ Hu).
    + intros todo Ht. rewrite (us_g _ _ _ _ _ _ Hu), (us_thr _ _ _ _ _ _ Hu), (us_ph _ _ _ _ _ _ Hu). auto.
    + rewrite (us_ph _ _ _ _ _ _ Hu). auto.
  - apply (DI_frame sh I r (with_s r s')); cbn [r_s r_ph with_s mget r_mem r_base]; auto.
    + intro g'. rewrite (us_img _ _ _ _ _ _ Hu). destruct e; try reflexivity. exfalso. eapply Hnw; eauto.
    + intros g' n v. now rewrite (us_g _ _ _ _ _ _ Hu).
    + intros todo Ht. rewrite (us_g _ _ _ _ _ _ Hu), (us_thr _ _ _ _ _ _ Hu), (us_ph _ _ _ _ _ _ Hu). auto.
    + rewrite (us_ph _ _ _ _ _ _ Hu). auto.
  - apply (DI_frame sh I r (with_s r s')); cbn [r_s r_ph with_s mget r_mem r_base]; auto.
    + intro g'. now rewrite E1.
    + intros g' n v. now rewrite E3.
    + intros todo Ht. rewrite E3, E4, E2. auto.
    + rewrite E2. auto.
  - subst s'. apply (DI_frame sh I r (with_s r (r_s r))); cbn [r_s r_ph with_s mget r_mem r_base]; auto.
  - apply (DI_frame sh I r (with_s r s')); cbn [r_s r_ph with_s mget r_mem r_base]; auto.
    + intro g'. now rewrite E1.
    + intros g' n v. now rewrite E3.
    + intros todo Ht. destruct (Dr _ Ht) as (_ & _ & Hp). congruence.
Qed.

(* ------------------------------------------------------------------ phase moves and the plan's groups *)
Lemma p_eps_groups sh s s' :
  p_eps sh s = Some s' ->
  forall g, tget (s_g s') g = tget (s_g s) g \/ g_settle (tget (s_g s) g) (ist (s_img s) (pchk g)) = Some (tget (s_g s') g).
Proof.
  unfold p_eps. intro H.
  assert (OD : forall t g0 present x v, once_done present (tget t g0) (ist (s_img s) (pchk g0)) = Some (x, v) ->
               forall g, tget (tset t g0 x) g = tget t g \/ g_settle (tget t g) (ist (s_img s) (pchk g)) = Some (tget (tset t g0 x) g)).
  { intros t g0 present x v E g. destruct (grp_dec g0 g) as [<- |Hne]; [|left; now apply tget_tset_other].
    rewrite tget_tset_same. unfold once_done in E. destruct present; [|injection E as <- _; now left].
    destruct (g_settle (tget t g0) _) as [[[|r] [v0|]|]|] eqn:Es; try discriminate. injection E as <- _. now right. }
  assert (ST : forall t g0 x, g_settle (tget t g0) (ist (s_img s) (pchk g0)) = Some x ->
               forall g, tget (tset t g0 x) g = tget t g \/ g_settle (tget t g) (ist (s_img s) (pchk g)) = Some (tget (tset t g0 x) g)).
  { intros t g0 x E g. destruct (grp_dec g0 g) as [<- |Hne]; [|left; now apply tget_tset_other].
    rewrite tget_tset_same. now right. }
  destruct (s_ph s).
  - destruct (status_eqb _ Running); [|discriminate]. injection H as <-. intro g. now left.
  - destruct (g_bypass (sh_groups sh)).
    + destruct (once_done true (t_bypass (s_g s)) _) as [[x [|]]|] eqn:E; try discriminate; injection H as <-; exact (OD (s_g s) GBypass _ _ _ E).
    + injection H as <-. intro g. now left.
  - destruct (once_done _ (t_pre (s_g s)) _) as [[x v1]|] eqn:E1; [|discriminate].
    destruct (once_done _ (t_cont (s_g s)) _) as [[y v2]|] eqn:E2; [|discriminate].
    assert (T : forall g, tget (tset (tset (s_g s) GPre x) GCont y) g = tget (s_g s) g
                          \/ g_settle (tget (s_g s) g) (ist (s_img s) (pchk g)) = Some (tget (tset (tset (s_g s) GPre x) GCont y) g)).
    { intro g. destruct (grp_dec GCont g) as [<- |Hne].
      - exact (OD (tset (s_g s) GPre x) GCont _ _ _ E2 GCont).
      - rewrite tget_tset_other by exact Hne. exact (OD (s_g s) GPre _ _ _ E1 g). }
    destruct (v1 && v2); injection H as <-; [|exact T].
    intro g. unfold enter_block. destruct (block_of sh 0); exact (T g).
  - destruct (block_of sh (s_cb s)) as [bs|].
    + destruct (b_eps bs (s_img s) (s_cb s) (p_visible s) (s_b s)) as [[b'|[|]]|]; try discriminate; injection H as <-; intro g; try (now left).
      unfold enter_block. destruct (block_of sh (S (s_cb s))); now left.
    + injection H as <-. intro g. now left.
  - destruct (thr_live (s_thr s)).
    + destruct (g_settle _ _) as [x|] eqn:E; [|discriminate]. injection H as <-.
      destruct (g_dead x); exact (ST (s_g s) GCont _ E).
    + destruct (once_done _ (t_post (s_g s)) _) as [[x v]|] eqn:E; [|discriminate]. injection H as <-. exact (OD (s_g s) GPost _ _ _ E).
  - destruct (thr_live (s_thr s)).
    + destruct (g_settle _ _) as [x|] eqn:E; [|discriminate]. injection H as <-. exact (ST (s_g s) GCont _ E).
    + destruct (once_done _ (t_deferred (s_g s)) _) as [[x v]|] eqn:E; [|discriminate]. injection H as <-. exact (OD (s_g s) GDeferred _ _ _ E).
  - discriminate.
  - discriminate.
Qed.

Lemma once_done_present g dst x v : once_done true g dst = Some (x, v) -> exists n, x = GIdle (S n) (Some v).
Proof.
  unfold once_done. destruct (g_settle g dst) as [[[|r] [v0|]|]|]; try discriminate. intro H. injection H as <- <-. eauto.
Qed.

(* how the state chain reaches End by a phase move *)
Lemma p_eps_to_end sh s s' :
  p_eps sh s = Some s' -> s_ph s' = PEnd \/ s_ph s' = PReleased ->
  (gpresent sh GBypass = true /\ exists n, tget (s_g s') GBypass = GIdle (S n) (Some true))
  \/ gpresent sh GDeferred = false \/ exists n v, tget (s_g s') GDeferred = GIdle (S n) (Some v).
Proof.
  unfold p_eps. intros H Hp. destruct (s_ph s) eqn:Ep.
  - destruct (status_eqb _ Running); [|discriminate]. injection H as <-. cbn in Hp. destruct Hp; discriminate.
  - destruct (g_bypass (sh_groups sh)) eqn:Eg.
    + destruct (once_done true (t_bypass (s_g s)) _) as [[x [|]]|] eqn:E; try discriminate; injection H as <-.
      * left. split; [unfold gpresent; cbn; now rewrite Eg|]. destruct (once_done_present _ _ _ _ E) as (n & ->). exists n. reflexivity.
      * cbn in Hp. destruct Hp; discriminate.
    + injection H as <-. cbn in Hp. destruct Hp; discriminate.
  - destruct (once_done _ (t_pre (s_g s)) _) as [[x v1]|]; [|discriminate].
    destruct (once_done _ (t_cont (s_g s)) _) as [[y v2]|]; [|discriminate].
    destruct (v1 && v2); injection H as <-; cbn in Hp; destruct Hp; discriminate.
  - destruct (block_of sh (s_cb s)) as [bs|].
    + destruct (b_eps bs (s_img s) (s_cb s) (p_visible s) (s_b s)) as [[b'|[|]]|]; try discriminate; injection H as <-.
      * cbn in Hp. rewrite Ep in Hp. destruct Hp; discriminate.
      * cbn in Hp. destruct Hp; discriminate.
      * unfold enter_block in Hp. destruct (block_of sh (S (s_cb s))); cbn in Hp; rewrite Ep in Hp; destruct Hp; discriminate.
    + injection H as <-. cbn in Hp. destruct Hp; discriminate.
  - destruct (thr_live (s_thr s)).
    + destruct (g_settle _ _) as [x|]; [|discriminate]. injection H as <-.
      destruct (g_dead x); cbn in Hp; rewrite ?Ep in Hp; destruct Hp; discriminate.
    + destruct (once_done _ (t_post (s_g s)) _) as [[x v]|]; [|discriminate]. injection H as <-. cbn in Hp. destruct Hp; discriminate.
  - destruct (thr_live (s_thr s)).
    + destruct (g_settle _ _) as [x|]; [|discriminate]. injection H as <-. cbn in Hp. rewrite Ep in Hp. destruct Hp; discriminate.
    + destruct (once_done _ (t_deferred (s_g s)) _) as [[x v]|] eqn:E; [|discriminate]. injection H as <-.
      destruct (g_deferred (sh_groups sh)) eqn:Eg.
      * right. right. cbn [present] in E. destruct (once_done_present _ _ _ _ E) as (n & ->). exists n, v. reflexivity.
      * right. left. unfold gpresent. cbn. now rewrite Eg.
  - discriminate.
  - discriminate.
Qed.

(* ------------------------------------------------------------------ the resumed automaton *)
Lemma finished_chk sh r sc g : finished_mem sh r (OChecks sc g) = mget r (OChecks sc g).
Proof.
  unfold finished_mem, finish_mem, mget, over. simpl.
  rewrite ifind_app, ifind_blocks_seq; [reflexivity|]. intros b' E. discriminate.
Qed.

Section Resumed.
Variable sh : shape.
Variable I : dimg.
(* what the section needs to know about the crash repair (discharged in DeferredSound.v) *)
Hypothesis Hentry : forall fl, is_terminal (pln_st sh I fl) = true -> pd_ok sh (mst (FixMem.m0 sh I)).
Hypothesis Hm0 : forall g, gpresent sh g = true -> ist I (pchk g) <> Running -> mst (FixMem.m0 sh I) (pchk g) = ist I (pchk g).

Lemma DI_rhandle d r e r' : Inv sh I r -> WAR sh r -> DI sh I r -> rhandle d sh r e = Some r' -> DI sh I r'.
Proof.
  intros Hi Hwa HD H. pose proof (i_live _ _ _ Hi) as Hl. destruct Hwa as [Hwa|Hwa]; [contradiction|]. unfold rhandle in H.
  assert (Hev : forall e0 s', (forall o stt n ok rs, e0 <> EvWrite o stt n ok rs) -> handle sh (r_s r) e0 = Some s' -> DI sh I (with_s r s'))
    by (intros; eapply DI_event; eauto).
  destruct e as [a|a o|o stt n ok rs|snap|fin].
  - assert (H' : option_map (with_s r) (handle sh (r_s r) (EvStart a)) = Some r') by (destruct (r_ph r); [contradiction|exact H..]).
    apply option_map_some in H' as (s' & H' & ->). eapply Hev; [|exact H']. discriminate.
  - assert (H' : option_map (with_s r) (handle sh (r_s r) (EvEnd a o)) = Some r') by (destruct (r_ph r); [contradiction|exact H..]).
    apply option_map_some in H' as (s' & H' & ->). eapply Hev; [|exact H']. discriminate.
  - assert (H' : r_write sh r o stt n ok rs = Some r') by (destruct (r_ph r); [contradiction|exact H..]). clear H.
    assert (Hrl : released (r_s r) = false) by (unfold r_write in H'; destruct (released (r_s r)); [discriminate|reflexivity]).
    destruct (r_write_cases _ _ _ _ _ _ _ _ H') as [Hshape [(s' & Hw' & ->)|[(b & q & b1 & qs & rest & -> & -> & Hph & Hq & Hu & ->)|[-> ->]]]].
    + eapply DI_hwrite; eauto.
    + rewrite commit_eq. destruct (b_seq_upd_spec _ _ _ _ Hu) as (x & y & _ & _ & ->).
      eapply DI_frame; [| | | | |exact HD]; cbn [r_s r_ph with_mem with_s]; auto;
        try (intro g; unfold ist, put; cbn; reflexivity); intro g; rewrite mget_write; apply mupd_other; discriminate.
    + rewrite commit_eq. eapply DI_frame; [| | | | |exact HD]; cbn [r_s r_ph with_mem with_s]; auto;
        try (intro g; unfold ist, put; cbn; reflexivity); intro g; rewrite mget_write; apply mupd_other; discriminate.
  - assert (H' : option_map (with_s r) (h_read sh (r_s r) snap) = Some r') by (destruct (r_ph r); [contradiction|exact H..]).
    apply option_map_some in H' as (s' & H' & ->). eapply (Hev (EvRead snap)); [discriminate|exact H'].
  - assert (H' : r_release d sh r fin = Some r') by (destruct (r_ph r); [contradiction|exact H..]). clear H.
    unfold r_release in H'. destruct (r_ph r) eqn:Ep; [contradiction|discriminate|].
    destruct (all_flushed sh r && quiet d sh (r_I r) (mget r)); [|discriminate].
    apply option_map_some in H' as (s' & H & ->). eapply (Hev (EvRelease fin)); [discriminate|exact H].
Qed.

Lemma DI_flush r e r' : DI sh I r -> flush sh r e = Some r' -> DI sh I r'.
Proof.
  intros [De Dl Df Dr Dp] H. unfold flush in H.
  assert (G : forall o stt n ok, cell_eqb (mget r o) (wcell stt n ok) = true -> DI sh I (with_s r (put (r_s r) o stt n ok))).
  { intros o stt n ok Hc. apply cell_eqb_eq in Hc. constructor; cbn [r_s r_ph with_s s_g s_ph s_thr put with_img]; auto.
    intros g Hp Hnr. change (mget (with_s r (put (r_s r) o stt n ok))) with (mget r). unfold ist, put, with_img in *. cbn [s_img] in *.
    destruct (obj_eqb o (pchk g)) eqn:E.
    - apply obj_eqb_eq in E. subst o. rewrite iget_iset_same. unfold mst. now rewrite Hc.
    - assert (Hne : o <> pchk g) by (intro Q; subst o; rewrite (proj2 (obj_eqb_eq _ _) eq_refl) in E; discriminate).
      rewrite iget_iset_other in * by exact Hne. now apply De. }
  destruct (r_ph r); [discriminate| |];
    (destruct e; try discriminate; destruct o; try discriminate;
     match type of H with (if ?c then _ else _) = _ => destruct c eqn:Ec; [|discriminate] end; injection H as <-;
     apply G; apply andb_true_iff in Ec as [Ec _]; apply andb_true_iff in Ec as [_ Ec]; exact Ec).
Qed.

Lemma plan_gtab_closed m g n v :
  tget (plan_gtab sh m) g = GIdle (S n) (Some v) ->
  is_terminal (mst m (pchk g)) = true /\ (v = true -> mst m (pchk g) = Completed).
Proof.
  unfold plan_gtab. destruct g; cbn [tget t_bypass t_pre t_cont t_post t_deferred]; try discriminate.
  - destruct (is_terminal (mst m (OChecks SPlan GPost))) eqn:T; [|discriminate]. unfold skipped. intro H. injection H as _ <-.
    split; [exact T|]. intro Q. now apply status_eqb_eq.
  - destruct (is_terminal (mst m (OChecks SPlan GDeferred))) eqn:T; [|discriminate]. unfold skipped. intro H. injection H as _ <-.
    split; [exact T|]. intro Q. now apply status_eqb_eq.
Qed.

Lemma DI_start_recover r todo :
  r_pl r = pln_of sh I ->
  (forall g, gpresent sh g = true -> ist (s_img (r_s r)) (pchk g) <> Running -> mst (mget r) (pchk g) = ist (s_img (r_s r)) (pchk g)) ->
  (forall g, mget r (pchk g) = FixMem.m0 sh I (pchk g)) ->
  DI sh I (start_recover sh r todo).
Proof.
  intros Hpl He Hf. destruct todo as [|[b qs] rest].
  - simpl. unfold take_entry. set (m := finished_mem sh r).
    assert (Hm : forall g, m (pchk g) = mget r (pchk g)) by (intro g; apply finished_chk).
    constructor; cbn [r_s r_ph s_img s_g s_ph s_thr].
    + intros g Hp Hnr. change (mget _) with m. unfold mst. rewrite Hm. now apply He.
    + intros g n v Hp Ht. change (mget _) with m. exact (plan_gtab_closed m g n v Ht).
    + intros todo Ht. discriminate.
    + intros todo Ht. discriminate.
    + intro Hp. change (mget _) with m.
      assert (Hmp : mst m OPlan = pln_st sh I (r_fails r)).
      { unfold m, mst, pln_st, finished_mem, finish_mem. rewrite over_cons_same. now rewrite Hpl. }
      assert (Ht : is_terminal (pln_st sh I (r_fails r)) = true).
      { rewrite <- Hmp. destruct (mst m OPlan); simpl in Hp; destruct Hp; try discriminate; reflexivity. }
      apply (pd_ok_ext sh (mst (FixMem.m0 sh I))); [unfold mst; now rewrite Hm, Hf|unfold mst; now rewrite Hm, Hf|].
      eapply Hentry; eauto.
  - simpl. constructor; cbn [r_s r_ph s_img s_g s_ph s_thr]; auto.
    + intros g n v _ Ht. destruct g; discriminate.
    + intros todo Ht. split; [intros []; reflexivity|]. auto.
    + intros [Q|Q]; discriminate.
Qed.

Lemma DI_reps r r1 : Inv sh I r -> DI sh I r -> reps sh r = Some r1 -> DI sh I r1.
Proof.
  intros Hi HD H. pose proof HD as [De Dl Df Dr Dp]. unfold reps in H. destruct (r_ph r) as [| [|[b qs] todo] |] eqn:Ep; try discriminate.
  - destruct (forallb s_done (b_seqs (s_b (r_s r)))); [|discriminate]. injection H as <-.
    destruct (i_const _ _ _ Hi) as [_ Hpl]. apply DI_start_recover; cbn [r_pl r_s]; auto.
    intro g. change (mget _) with (mget r). eapply Df; eauto.
  - apply option_map_some in H as (s2 & H & ->). unfold rp_eps in H.
    destruct (p_eps sh (r_s r)) as [s'|] eqn:Ee; [|discriminate]. injection H as <-.
    destruct (p_eps_spec _ _ _ Ee) as [Ei _].
    set (s2 := if entered (r_s r) s' then r_enter sh (mget r) s' (s_cb s') else s').
    assert (E2 : s_img s2 = s_img (r_s r) /\ s_g s2 = s_g s' /\ s_ph s2 = s_ph s' /\ s_thr s2 = s_thr s').
    { unfold s2. destruct (entered (r_s r) s'); [|auto].
      destruct (r_enter_spec sh (mget r) s' (s_cb s')) as (cb' & -> & _). cbn. auto. }
    destruct E2 as (E1 & E2 & E3 & E4).
    assert (Lnew : forall g n v, gpresent sh g = true -> tget (s_g s') g = GIdle (S n) (Some v) ->
                   is_terminal (mst (mget r) (pchk g)) = true /\ (v = true -> mst (mget r) (pchk g) = Completed)).
    { intros g n v Hp Ht. destruct (p_eps_groups _ _ _ Ee g) as [Q|Q].
      - rewrite Q in Ht. exact (Dl g n v Hp Ht).
      - destruct (g_settle_closed _ _ _ _ _ Q Ht) as [Q2|Q2].
        + rewrite <- Q2 in Ht. exact (Dl g n v Hp Ht).
        + destruct (vs_terminal v) as (T1 & T2 & T3). rewrite De; [rewrite Q2; auto|exact Hp|rewrite Q2; exact T3]. }
    constructor; cbn [r_s r_ph with_s]; change (mget (with_s r s2)) with (mget r).
    + intros g Hp Hnr. rewrite E1 in *. now apply De.
    + intros g n v Hp Ht. rewrite E2 in Ht. exact (Lnew g n v Hp Ht).
    + intros todo Ht. congruence.
    + intros todo Ht. congruence.
    + rewrite E3. intro Hp. destruct (p_eps_to_end _ _ _ Ee Hp) as [[Hb (n & Hn)]|[Hd|(n & v & Hn)]].
      * left. split; [exact Hb|]. exact (proj2 (Lnew _ _ _ Hb Hn) eq_refl).
      * right. left. exact Hd.
      * destruct (gpresent sh GDeferred) eqn:Hd; [|right; left; exact Hd]. right. right. exact (proj1 (Lnew _ _ _ Hd Hn)).
Qed.

Lemma DI_rinit rs r0 : ist I OPlan = Running -> rinit sh I rs = Some r0 -> DI sh I r0.
Proof.
  intros Hp H. unfold rinit in H. rewrite Hp in H. simpl in H.
  destruct (negb (resumable_ok (pln_of sh I))); [discriminate|]. injection H as <-.
  apply DI_start_recover; cbn [r_pl r_s s_img]; auto.
Qed.
End Resumed.
