(* Sound - the record MemInv.mem_sound (what the invariant M needs to know about the crash repair) holds of every
   image that obeys the consistency rules (Cells.icons), is well-formed (ImgWf.img_wf0), has a Running plan and passes
   the model's start guard (resumable_ok).  Proofs only. *)
From Coq Require Import Lia.
From Coercion.Base Require Import Plan.
From Coercion.Engine Require Import Shape Event Action ChecksRun Seq Block Final PlanSM Auto Accept AutoLemmas.
From Coercion.Resume Require Import Resume ResumeLemmas Frame NoReexec ImgWf RepairSound.
From Coercion.Chain Require Import FixMem.
From Coercion.C10x Require Import Cells FixCons MemInit MemInv.

Theorem mem_sound_holds sh I :
  icons sh (iget I) -> img_wf0 sh I = true -> ist I OPlan = Running -> resumable_ok (pln_of sh I) = true ->
  mem_sound sh I.
Proof.
  intros Hic Hwf Hrun Hres.
  assert (Hparts : forall b q rs, seq_of sh b q = Some rs -> exists bs, block_of sh b = Some bs /\ nth_error (bs_seqs bs) q = Some rs).
  { intros b q rs H. unfold seq_of in H. destruct (block_of sh b) as [bs|]; [|discriminate]. eauto. }
  constructor.
  - intros [sc g i|b q i] Ha.
    + now apply m0_chk_act.
    + assert (Hq : exists rs, seq_of sh b q = Some rs /\ i < length rs).
      { cbn in Ha. destruct (seq_of sh b q) as [rs|]; [|discriminate]. exists rs. split; [reflexivity|].
        destruct (nth_error rs i) eqn:E; [|discriminate]. eapply nth_error_some_lt; eauto. }
      destruct Hq as (rs & Hq & Hi). destruct (Hparts _ _ _ Hq) as (bs & Hb & Hn).
      exact (proj2 (proj2 (m0_seq_cons sh I Hic Hwf Hrun b q bs rs Hb Hn)) i Hi).
  - intros b q rs Hq. destruct (Hparts _ _ _ Hq) as (bs & Hb & Hn).
    exact (proj1 (m0_seq_cons sh I Hic Hwf Hrun b q bs rs Hb Hn)).
  - intros b q rs Hq Hin. destruct (Hparts _ _ _ Hq) as (bs & Hb & Hn).
    exact (m0_resumed sh I Hic Hwf Hrun b q bs rs Hb Hn Hres Hin).
  - intros fl b q. now apply rs2_holds.
  - apply todo_nodup.
Qed.
