(* C10 - Recovery converges to the same consistent terminal outcome: the CONSISTENCY clause (i) of the full statement
   (coq/resume/props/C10.v keeps it visible), proved for the resumed automaton of coq/resume started from the repair of
   ANY crash image of ANY trace the engine automaton accepts.

   Setting (as coq/imgwf/props/C09.v): tr1 any accepted trace of the uninterrupted-run automaton (no release needed);
   k any number of its writes; I any full read of the store that shows, on every object of the plan, the cell the first
   k writes leave (image_agrees); the plan is durably Running in I (otherwise nothing is resumed: C11); tr any trace the
   resumed automaton accepts from the repair of I UNDER ANY DEVIATION FLAGS d, ending in Wait's return EvRelease fin.

   Model: Coercion.Resume.Resume.  Monitor clauses: MonRecover.seq_consistent / action_consistent (the sequence and
   action parts of MonRecover.consistent, i.e. C04's clauses 7 and 8).  Tie to the code: ./check C10 (harness/cmd/recover
   evaluates MonRecover.mon_converges, which contains these clauses, on every real recovery). *)
From Coercion.Base Require Import Plan.
From Coercion.Engine Require Import Shape Event PlanSM Auto Accept.
From Coercion.Resume Require Import Resume MonRecover.
From Coercion.C10x Require Import Cells EngineImg Release.

(* every durable image the engine automaton reaches, and every crash image, obeys the consistency rules with "in
   progress" allowed (Cells.icons): an action is Running, untouched, or finished with attempts and the verdict of the
   last one; a NotStarted / Completed / Failed sequence has untouched / Completed / [Completed.. Failed untouched..]
   actions; a Running sequence has [Completed.. one-in-progress untouched..] actions; no sequence is Stopped *)
Theorem c10_crash_images_consistent :
  forall (sh : shape) (tr : list event) (s : st) (k : nat),
    run sh init tr = Some s -> icons sh (iget (fst (crash_image sh tr k))).
Proof. exact crash_image_icons. Qed.
Print Assumptions c10_crash_images_consistent.

(* (i), sequences and actions: in the plan Wait returns after the recovery, every Completed sequence has only
   Completed actions, every Failed sequence has Completed actions, then exactly one Failed action, then untouched ones
   (NotStarted, no attempt), and every action that is not Running is Completed exactly when it has attempts and the
   last one has no error.  For EVERY deviation flag set d: none of the known defects R2, R3, R5, R6 breaks these
   clauses (what they break is "nothing is left Running"). *)
Theorem c10_released_sequences_and_actions_consistent :
  forall (d : devs) (sh : shape) (tr1 : list event) (s1 : st) (k : nat),
    run sh init tr1 = Some s1 ->
  forall (I : image) (tr : list event) (fin : image) (r0 r : rst),
    image_agrees (all_objs sh) (fst (crash_image sh tr1 k)) (snd (crash_image sh tr1 k)) I = true ->
    cst I OPlan = Running ->
    rinit sh (dimg_of_image I) (im_reason I) = Some r0 ->
    rrun d sh r0 (tr ++ [EvRelease fin]) = Some r ->
    forallb (fun bb => forallb (fun qr => seq_consistent fin (fst bb) (fst qr) (snd qr)) (indexed (bs_seqs (snd bb))))
            (indexed (sh_blocks sh)) = true
    /\ forallb (action_consistent fin) (all_objs sh) = true.
Proof. intros d sh tr1 s1 k H I tr fin r0 r Ha Hp. exact (crash_released_consistent sh tr1 s1 k H I Ha Hp d tr fin r0 r). Qed.
Print Assumptions c10_released_sequences_and_actions_consistent.

(* (i), the plan rule: a plan Wait returns as Completed after the recovery was bypassed as a whole (its bypass group is
   Completed) or has only Completed blocks and every pre / continuous / post / deferred group it has is Completed.
   (The terminal plan write of a recovery is finalStates of the in-memory statuses, and nothing finalStates reads is
   written after it: PlanInv.PL over the phase windows PlanInv.W.)  Again for every deviation flag set. *)
Theorem c10_released_plan_consistent :
  forall (d : devs) (sh : shape) (tr1 : list event) (s1 : st) (k : nat),
    run sh init tr1 = Some s1 ->
  forall (I : image) (tr : list event) (fin : image) (r0 r : rst),
    image_agrees (all_objs sh) (fst (crash_image sh tr1 k)) (snd (crash_image sh tr1 k)) I = true ->
    cst I OPlan = Running ->
    rinit sh (dimg_of_image I) (im_reason I) = Some r0 ->
    rrun d sh r0 (tr ++ [EvRelease fin]) = Some r ->
    plan_consistent sh fin = true.
Proof. intros d sh tr1 s1 k H I tr fin r0 r Ha Hp. exact (crash_released_plan_consistent sh tr1 s1 k H I Ha Hp d tr fin r0 r). Qed.
Print Assumptions c10_released_plan_consistent.

(* the hypotheses above are satisfiable on a REAL run, crash point and recovery of /repo (VERIF_SEED=1, plan 5004, crash
   after write 20: a sequence durably Running whose action has a durable successful attempt) *)
From Coercion.C10x Require Import Examples.
Theorem c10_hypotheses_satisfiable : hyps_hold real_run real_rec 20 = true.
Proof. exact hypotheses_satisfiable_on_a_real_recovery. Qed.
Print Assumptions c10_hypotheses_satisfiable.

(* WHAT IS NOT PROVED, kept visible.
   (i) is complete for the FIRST crash up to the time flags (MonRecover.times_ordered: start <= end; the automaton has no
   clock, the clause is evaluated on real recoveries only).  For the images left by a crashed RECOVERY (second and
   later crashes) the premise "the crash image obeys Cells.icons" is not proved of the resumed automaton's durable images
   (coq/chain proves img_wf0 of them, not icons): there (i) stays monitored.
   (ii) "for every scope sc of the plan with a deferred group: if sc was entered - its bypass group is not Completed in
   fin and (sc a block) the block is not NotStarted in fin - then the deferred group of sc is Completed or Failed in fin"
   is FALSE for the automaton without deviation flags, on crash images the engine reaches, and the code does it: when
   the repair sends Recovery straight to End (a block, or a pre / continuous / post group, durably Failed in the crash
   image; BlockPreChecks / BlockPostChecks write the block Failed BEFORE BlockDeferredChecks runs) no deferred group
   runs any more, and nothing is left Running, so the release needs no flag.  Listed as the second half of known finding
   R2; MonRecover.deferred_skip_excused excuses it under dev_R2 when MonRecover.short_circuits sh I holds.  A proof of
   (ii) needs the premise short_circuits sh I = false and, for block scopes, an engine invariant that is not available
   (a durably Completed block was bypassed or has a Completed deferred group): (ii) stays monitored (code 14 of
   mon_converges, on every real recovery).  The two refutations: *)
Theorem c10_deferred_clause_refuted_without_flags_real : deferred_false_without_flags real_deferred_skipped = true.
Proof. exact clause_ii_false_without_flags_real. Qed.
Print Assumptions c10_deferred_clause_refuted_without_flags_real.

(* ... from an engine trace the uninterrupted-run automaton accepts (tr1, 7 writes), recovery [W plan Failed; Release] *)
Theorem c10_deferred_clause_refuted_without_flags_model :
  (match Accept.run sh1 init tr1 with Some _ => true | None => false end)
  && raccepts dev_none sh1 I1 tr2
  && match converges_codes dev_none sh1 I1 tr2 Failed true with [14] => true | _ => false end = true.
Proof. exact clause_ii_false_without_flags_model. Qed.
Print Assumptions c10_deferred_clause_refuted_without_flags_model.

(* (ii), PARTIAL: the plan scope, when no failure recorded in the crash image sends Recovery straight to End
   (MonRecover.short_circuits sh I = false - exactly the condition under which the monitor excuses a skipped deferred
   group by R2).  If the plan has a deferred group and the plan Wait returns was not bypassed as a whole, that group is
   Completed or Failed in it: it had a completed run, durably before the crash or in the recovery.  Every flag set.
   (DeferredInv.DI: memory = durable image on the plan's group statuses; a closed run - real, silent, or the pseudo-run
   of a group that does not run again - leaves the group terminal in memory; End is reached through
   PlanDeferredChecks, through a passed bypass, or from a repair that found the deferred group Completed.)
   NOT proved: the block scopes (they need an engine invariant about durably Completed blocks), so clause 14 of
   mon_converges stays monitored. *)
From Coercion.C10x Require Import DeferredSound.
Theorem c10_plan_deferred_group_ran_partial :
  forall (d : devs) (sh : shape) (tr1 : list event) (s1 : st) (k : nat),
    run sh init tr1 = Some s1 ->
  forall (I : image) (tr : list event) (fin : image) (r0 r : rst),
    image_agrees (all_objs sh) (fst (crash_image sh tr1 k)) (snd (crash_image sh tr1 k)) I = true ->
    cst I OPlan = Running ->
    short_circuits sh I = false ->
    rinit sh (dimg_of_image I) (im_reason I) = Some r0 ->
    rrun d sh r0 (tr ++ [EvRelease fin]) = Some r ->
    grp_present sh SPlan GDeferred = true -> scope_entered sh fin SPlan = true ->
    finished fin (OChecks SPlan GDeferred) = true.
Proof. intros d sh tr1 s1 k H I tr fin r0 r Ha Hp Hs. exact (crash_plan_deferred_ran sh tr1 s1 k H I Ha Hp Hs d tr fin r0 r). Qed.
Print Assumptions c10_plan_deferred_group_ran_partial.

(* ... whose hypotheses hold of a real recovery (VERIF_SEED=1, plan 5009, crash after write 6: the plan's pre group is
   running, nothing failed durably yet; the recovery re-runs it, it fails, PlanDeferredChecks runs the deferred group) *)
Theorem c10_partial_ii_hypotheses_satisfiable : hyps_hold real_run2 real_rec2 6 && deferred_hyps_hold real_rec2 = true.
Proof. exact partial_ii_hypotheses_satisfiable_on_a_real_recovery. Qed.
Print Assumptions c10_partial_ii_hypotheses_satisfiable.
