(* Release - what Wait returns after a recovery.  The released plan equals the in-memory image on every object of the
   shape (all_flushed + image_agrees), so the invariant M (MemInv.v) read at the release gives the sequence and action
   clauses of MonRecover.consistent (C04's clauses 7 and 8) - for every deviation flag set: the flags only enter the
   release guard.  Then the whole is instantiated at crash images of accepted engine traces.  Proofs only. *)
From Coq Require Import Lia.
From Coercion.Base Require Import Plan.
From Coercion.Engine Require Import Shape Event Action ChecksRun Seq Block Final PlanSM Auto Accept AutoLemmas.
From Coercion.C04 Require AllObjs.
From Coercion.Resume Require Import Resume MonRecover ResumeLemmas ReleaseProofs Frame NoReexec ImgWf RepairSound.
From Coercion.ImgWf Require Import CrashImage FullProofs.
From Coercion.C10x Require Import Cells EngineImg GroupInv MemInv Sound.

(* ------------------------------------------------------------------ the released plan is the in-memory image *)
Lemma released_mem d sh r fin r' o :
  r_ph r = RRun -> r_release d sh r fin = Some r' -> In o (all_objs sh) ->
  exists c, im_lookup fin o = Some c /\ ocell_cell c = mget r o.
Proof.
  intros Hp H Hin. destruct (release_facts _ _ _ _ _ Hp H) as (Hfl & _ & Hag & _).
  destruct (image_agrees_obj _ _ _ _ _ Hag Hin) as (c & Hc & Heq). exists c. split; [exact Hc|].
  unfold all_flushed in Hfl. pose proof (forallb_In _ _ _ Hfl Hin) as Hf. simpl in Hf.
  apply cell_eqb_eq in Heq. apply cell_eqb_eq in Hf. congruence.
Qed.

Section Read.
Variables (sh : shape) (fin : image) (m : obj -> cell).
Hypothesis Hread : forall o, In o (all_objs sh) -> exists c, im_lookup fin o = Some c /\ ocell_cell c = m o.

Lemma read_st o : In o (all_objs sh) -> cst fin o = c_st (m o).
Proof. intro H. destruct (Hread o H) as (c & Hc & E). unfold cst. rewrite Hc, <- E. reflexivity. Qed.
Lemma read_n o : In o (all_objs sh) -> cn fin o = c_n (m o).
Proof. intro H. destruct (Hread o H) as (c & Hc & E). unfold cn. rewrite Hc, <- E. reflexivity. Qed.
Lemma read_ok o : In o (all_objs sh) -> cok fin o = c_ok (m o).
Proof. intro H. destruct (Hread o H) as (c & Hc & E). unfold cok. rewrite Hc, <- E. reflexivity. Qed.

(* clause 8 *)
Lemma action_consistent_of o : In o (all_objs sh) -> (forall a, o = OAct a -> act_ok (m o)) -> action_consistent fin o = true.
Proof.
  intros Hin Hok. unfold action_consistent. destruct o as [| | | |a]; try reflexivity. cbn [is_action].
  unfold succeeded. rewrite (read_st _ Hin), (read_n _ Hin), (read_ok _ Hin).
  destruct (Hok a eq_refl) as [H|[H|[(H1 & H2 & H3)|(H1 & H2 & H3)]]].
  - rewrite H. reflexivity.
  - rewrite H. reflexivity.
  - rewrite H1, H3. apply Nat.ltb_lt in H2. rewrite H2. reflexivity.
  - rewrite H1, H3. rewrite andb_false_r. reflexivity.
Qed.

(* clause 7 *)
Lemma failed_shape_of b q : forall m0 k j,
  (forall i, k <= i -> i < k + m0 -> In (OAct (ASeq b q i)) (all_objs sh)) ->
  k <= j -> j < k + m0 ->
  (forall i, k <= i -> i < j -> done (acell m b q i)) -> failedc (acell m b q j) ->
  (forall i, j < i -> i < k + m0 -> acell m b q i = cell0) ->
  failed_seq_shape fin b q (seq k m0) = true.
Proof.
  unfold acell. induction m0 as [|m0 IH]; intros k j Hin Hk Hj Hpre Hf Hsuf; [lia|]. cbn [seq failed_seq_shape].
  assert (Hink : In (OAct (ASeq b q k)) (all_objs sh)) by (apply Hin; lia).
  rewrite (read_st _ Hink). destruct (Nat.eq_dec k j) as [->|Hne].
  - destruct Hf as (-> & _ & _). apply forallb_forall. intros i Hi. apply in_seq in Hi.
    assert (Hini : In (OAct (ASeq b q i)) (all_objs sh)) by (apply Hin; lia).
    rewrite (read_st _ Hini), (read_n _ Hini). rewrite Hsuf by lia. reflexivity.
  - destruct (Hpre k) as (-> & _ & _); [lia|lia|]. apply (IH (S k) j).
    + intros i H1 H2. apply Hin; lia.
    + lia.
    + lia.
    + intros i H1 H2. apply Hpre; lia.
    + exact Hf.
    + intros i H1 H2. apply Hsuf; lia.
Qed.

Lemma seq_consistent_of b q rs :
  In (OSeq b q) (all_objs sh) -> (forall i, i < length rs -> In (OAct (ASeq b q i)) (all_objs sh)) ->
  scons m b q (length rs) -> seq_consistent fin b q rs = true.
Proof.
  intros Hs Ha Hc. unfold seq_consistent. rewrite (read_st _ Hs). unfold scons, sstat in Hc.
  destruct (c_st (m (OSeq b q))); try reflexivity.
  - apply forallb_forall. intros i Hi. apply in_seq in Hi. rewrite (read_st _ (Ha i ltac:(lia))).
    destruct (Hc i ltac:(lia)) as (E & _). unfold acell in E. rewrite E. reflexivity.
  - destruct Hc as (j & Hj & Hpre & Hf & Hsuf). apply (failed_shape_of b q (length rs) 0 j); auto; try lia.
Qed.
End Read.

(* ------------------------------------------------------------------ the state in which Wait returns *)
Lemma K_reps sh J : mem_sound sh J -> repair_sound sh J -> forall r r1, K sh J r -> reps sh r = Some r1 -> K sh J r1.
Proof.
  intros MS RS r r1 [A B C] H. constructor; [eapply reps_inv; eauto|eapply M_reps; eauto|eapply GR_reps; eauto].
Qed.

Lemma release_state d sh J rs tr fin r0 r :
  mem_sound sh J -> repair_sound sh J -> ist J OPlan = Running -> rinit sh J rs = Some r0 ->
  rrun d sh r0 (tr ++ [EvRelease fin]) = Some r ->
  exists r1, K sh J r1 /\ r_ph r1 = RRun /\ r_release d sh r1 fin = Some r.
Proof.
  intros MS RS Hp Hi H. rewrite rrun_app in H. destruct (rrun d sh r0 tr) as [r1|] eqn:E1; [|discriminate].
  simpl in H. destruct (rstep d sh r1 (EvRelease fin)) as [r2|] eqn:E2; [|discriminate]. injection H as <-.
  pose proof (K_run sh J MS RS d rs r0 tr r1 Hp Hi E1) as K1.
  destruct (rstep_release _ _ _ _ _ E2) as (r1' & Hs & Hr).
  pose proof (reps_star_inv (K sh J) sh (K_reps sh J MS RS) _ _ Hs K1) as K1'.
  exists r1'. split; [exact K1'|]. split; [|exact Hr].
  eapply live_release_run; [|exact Hr]. exact (i_live _ _ _ (k_inv _ _ _ K1')).
Qed.

Definition seqs_consistent (sh : shape) (fin : image) : bool :=
  forallb (fun bb => forallb (fun qr => seq_consistent fin (fst bb) (fst qr) (snd qr)) (indexed (bs_seqs (snd bb))))
          (indexed (sh_blocks sh)).

Lemma in_indexed_nth' {A} (l : list A) i x : In (i, x) (indexed l) -> nth_error l i = Some x.
Proof.
  intro H. apply In_nth_error in H as [n Hn]. rewrite nth_indexed in Hn.
  destruct (nth_error l n) eqn:E; [|discriminate]. simpl in Hn. injection Hn as <- <-. exact E.
Qed.

Theorem released_consistent d sh J rs tr fin r0 r :
  mem_sound sh J -> repair_sound sh J -> ist J OPlan = Running -> rinit sh J rs = Some r0 ->
  rrun d sh r0 (tr ++ [EvRelease fin]) = Some r ->
  seqs_consistent sh fin = true /\ forallb (action_consistent fin) (all_objs sh) = true.
Proof.
  intros MS RS Hp Hi H. destruct (release_state _ _ _ _ _ _ _ _ MS RS Hp Hi H) as (r1 & [_ HM _] & Hrun & Hrel).
  assert (Hread : forall o, In o (all_objs sh) -> exists c, im_lookup fin o = Some c /\ ocell_cell c = mget r1 o).
  { intros o Ho. eapply released_mem; eauto. }
  split.
  - unfold seqs_consistent. apply forallb_forall. intros [b bs] Hb. apply in_indexed_nth' in Hb. cbn [fst snd].
    apply forallb_forall. intros [q rs0] Hq. apply in_indexed_nth' in Hq. cbn [fst snd].
    assert (Hsq : seq_of sh b q = Some rs0) by (unfold seq_of, block_of; now rewrite Hb).
    apply (seq_consistent_of sh fin (mget r1) Hread).
    + apply AllObjs.all_objs_spec. eapply in_shape_seq; eauto.
    + intros i Hi0. apply AllObjs.all_objs_spec. eapply in_shape_seq_act; eauto.
    + exact (m_seq sh r1 HM b q rs0 Hsq).
  - apply forallb_forall. intros o Ho. apply (action_consistent_of sh fin (mget r1) Hread o Ho).
    intros a ->. apply (m_act sh r1 HM). now apply AllObjs.all_objs_spec.
Qed.

(* ------------------------------------------------------------------ at the crash images of accepted engine traces *)
Lemma rinit_resumable sh J rs r0 : ist J OPlan = Running -> rinit sh J rs = Some r0 -> resumable_ok (pln_of sh J) = true.
Proof.
  intros Hp H. unfold rinit in H. rewrite Hp in H. simpl in H.
  destruct (resumable_ok (pln_of sh J)); [reflexivity|discriminate].
Qed.

Section Crash.
  Variables (sh : shape) (tr1 : list event) (s1 : st) (k : nat).
  Hypothesis Hrun : run sh init tr1 = Some s1.
  Variable I : image.
  Hypothesis Hag : image_agrees (all_objs sh) (fst (crash_image sh tr1 k)) (snd (crash_image sh tr1 k)) I = true.
  Hypothesis Hpl : cst I OPlan = Running.

  Lemma crash_same : same_on sh (dimg_of_image I) (fst (crash_image sh tr1 k)).
  Proof. eapply agrees_same_on; eauto. Qed.

  Lemma crash_read_icons : icons sh (iget (dimg_of_image I)).
  Proof.
    apply (icons_ext sh (iget (fst (crash_image sh tr1 k)))); [|eapply crash_image_icons; eauto].
    intros o Ho. apply crash_same. exact Ho.
  Qed.

  Lemma crash_read_wf0 : img_wf0 sh (dimg_of_image I) = true.
  Proof.
    pose proof (read_wf sh tr1 s1 k Hrun I crash_same) as H. unfold img_wf in H. apply andb_true_iff in H as [H _]. exact H.
  Qed.

  Lemma crash_plan_running : ist (dimg_of_image I) OPlan = Running.
  Proof. now rewrite ist_dimg_of_image. Qed.

  Lemma crash_sound r0 :
    rinit sh (dimg_of_image I) (im_reason I) = Some r0 -> mem_sound sh (dimg_of_image I) /\ repair_sound sh (dimg_of_image I).
  Proof.
    intro Hi. pose proof (rinit_resumable _ _ _ _ crash_plan_running Hi) as Hres. split.
    - apply mem_sound_holds; [exact crash_read_icons|exact crash_read_wf0|exact crash_plan_running|exact Hres].
    - apply repair_sound_holds; [exact crash_read_wf0|exact crash_plan_running|exact Hres].
  Qed.

  Theorem crash_released_consistent d tr fin r0 r :
    rinit sh (dimg_of_image I) (im_reason I) = Some r0 ->
    rrun d sh r0 (tr ++ [EvRelease fin]) = Some r ->
    seqs_consistent sh fin = true /\ forallb (action_consistent fin) (all_objs sh) = true.
  Proof.
    intros Hi H. destruct (crash_sound r0 Hi) as [MS RS].
    eapply released_consistent; eauto. exact crash_plan_running.
  Qed.
End Crash.

(* ------------------------------------------------------------------ the plan rule (clause 6) *)
From Coercion.C10x Require Import PlanInv.

Lemma failed_not_all_completed (st : obj -> status) l :
  existsb (fun b => status_eqb (st (OBlock b)) Failed) l = true -> forallb (fun b => status_eqb (st (OBlock b)) Completed) l = true -> False.
Proof.
  induction l as [|b l IH]; simpl; [discriminate|]. intros H1 H2. apply andb_true_iff in H2 as [H2 H3].
  apply orb_true_iff in H1 as [H1|H1]; [|auto]. apply status_eqb_eq in H1, H2. congruence.
Qed.

Lemma final_completed sh st :
  fst (final sh st) = Completed ->
  examine_bypass sh st = true
  \/ (all_blocks_completed sh st = true /\ examine sh st [GPre; GCont] = None /\ examine sh st [GPost; GDeferred] = None).
Proof.
  unfold final, final_blocks. destruct (examine_bypass sh st); [now left|]. right.
  destruct (examine sh st [GPre; GCont]) as [r|]; [simpl in H; discriminate|].
  destruct (any_block_failed sh st) eqn:Ef.
  - destruct (all_blocks_completed sh st) eqn:Ec; [|simpl in H; discriminate]. exfalso.
    unfold any_block_failed in Ef. unfold all_blocks_completed in Ec. eapply failed_not_all_completed; eauto.
  - destruct (examine sh st [GPost; GDeferred]) as [r|]; [simpl in H; discriminate|].
    destruct (all_blocks_completed sh st); [auto|simpl in H; discriminate].
Qed.

Lemma examine_none sh st gs g :
  examine sh st gs = None -> In g gs -> gpresent sh g = false \/ st (OChecks SPlan g) = Completed.
Proof.
  induction gs as [|g0 gs IH]; [contradiction|]. simpl.
  destruct (gpresent sh g0 && negb (status_eqb (st (OChecks SPlan g0)) Completed)) eqn:E; [discriminate|].
  intros H [->|Hin]; [|auto]. apply andb_false_iff in E as [E|E]; [now left|right].
  apply negb_false_iff in E. now apply status_eqb_eq.
Qed.

Lemma release_state2 d sh J rs tr fin r0 r :
  mem_sound sh J -> repair_sound sh J -> ist J OPlan = Running -> rinit sh J rs = Some r0 ->
  rrun d sh r0 (tr ++ [EvRelease fin]) = Some r ->
  exists r1, K2 sh J r1 /\ r_ph r1 = RRun /\ r_release d sh r1 fin = Some r.
Proof.
  intros MS RS Hp Hi H. rewrite rrun_app in H. destruct (rrun d sh r0 tr) as [r1|] eqn:E1; [|discriminate].
  simpl in H. destruct (rstep d sh r1 (EvRelease fin)) as [r2|] eqn:E2; [|discriminate]. injection H as <-.
  pose proof (K2_run sh J d rs r0 tr r1 MS RS Hp Hi E1) as K1.
  destruct (rstep_release _ _ _ _ _ E2) as (r1' & Hs & Hr).
  pose proof (reps_star_inv (K2 sh J) sh (K2_reps sh J MS RS) _ _ Hs K1) as K1'.
  exists r1'. split; [exact K1'|]. split; [|exact Hr].
  eapply live_release_run; [|exact Hr]. exact (i_live _ _ _ (k_inv _ _ _ (k2_k _ _ _ K1'))).
Qed.

Theorem released_plan_consistent d sh J rs tr fin r0 r :
  mem_sound sh J -> repair_sound sh J -> ist J OPlan = Running -> rinit sh J rs = Some r0 ->
  rrun d sh r0 (tr ++ [EvRelease fin]) = Some r -> plan_consistent sh fin = true.
Proof.
  intros MS RS Hp Hi H. destruct (release_state2 _ _ _ _ _ _ _ _ MS RS Hp Hi H) as (r1 & [_ _ HPL] & Hrun & Hrel).
  assert (Hread : forall o, In o (all_objs sh) -> exists c, im_lookup fin o = Some c /\ ocell_cell c = mget r1 o).
  { intros o Ho. eapply released_mem; eauto. }
  assert (Hst : forall o, obj_in_shape sh o = true -> cst fin o = mst (mget r1) o).
  { intros o Ho. apply (read_st sh fin (mget r1) Hread). now apply AllObjs.all_objs_spec. }
  destruct (release_facts _ _ _ _ _ Hrun Hrel) as (_ & _ & _ & Hterm).
  destruct (HPL Hterm) as [_ Heq].
  unfold plan_consistent. rewrite (Hst OPlan eq_refl).
  destruct (status_eqb (mst (mget r1) OPlan) Completed) eqn:Ec; [|reflexivity]. simpl. apply status_eqb_eq in Ec.
  rewrite Heq in Ec. destruct (final_completed _ _ Ec) as [Hb|(Hall & Hpc & Hpd)].
  - unfold examine_bypass in Hb. apply andb_true_iff in Hb as [Hb1 Hb2].
    assert (Hpres : grp_present sh SPlan GBypass = true) by exact Hb1.
    rewrite Hpres. rewrite Hst; [now rewrite Hb2|exact Hpres].
  - apply orb_true_iff. right. apply andb_true_iff. split.
    + apply forallb_forall. intros b Hb. apply in_seq in Hb. rewrite Hst.
      * unfold all_blocks_completed in Hall. rewrite forallb_forall in Hall. apply Hall. apply in_seq. exact Hb.
      * cbn. unfold block_of. destruct (nth_error (sh_blocks sh) b) eqn:E; [reflexivity|]. apply nth_error_None in E. lia.
    + unfold plan_groups_ok. apply forallb_forall. intros g Hg.
      assert (Hor : gpresent sh g = false \/ mst (mget r1) (OChecks SPlan g) = Completed).
      { destruct Hg as [<-|[<-|[<-|[<-|[]]]]].
        - eapply examine_none; [exact Hpc|left; reflexivity].
        - eapply examine_none; [exact Hpc|right; left; reflexivity].
        - eapply examine_none; [exact Hpd|left; reflexivity].
        - eapply examine_none; [exact Hpd|right; left; reflexivity]. }
      assert (Hgp : grp_present sh SPlan g = gpresent sh g) by reflexivity.
      rewrite Hgp. destruct (gpresent sh g) eqn:Eg; [|reflexivity]. simpl. destruct Hor as [Q|Q]; [discriminate|].
      rewrite Hst; [now rewrite Q|exact Eg].
Qed.

Section Crash2.
  Variables (sh : shape) (tr1 : list event) (s1 : st) (k : nat).
  Hypothesis Hrun : run sh init tr1 = Some s1.
  Variable I : image.
  Hypothesis Hag : image_agrees (all_objs sh) (fst (crash_image sh tr1 k)) (snd (crash_image sh tr1 k)) I = true.
  Hypothesis Hpl : cst I OPlan = Running.

  Theorem crash_released_plan_consistent d tr fin r0 r :
    rinit sh (dimg_of_image I) (im_reason I) = Some r0 ->
    rrun d sh r0 (tr ++ [EvRelease fin]) = Some r -> plan_consistent sh fin = true.
  Proof.
    intros Hi H. destruct (crash_sound sh tr1 s1 k Hrun I Hag Hpl r0 Hi) as [MS RS].
    eapply released_plan_consistent; eauto. exact (crash_plan_running I Hpl).
  Qed.
End Crash2.
