From Coercion.Base Require Import Plan.
From Coercion.Engine Require Import Shape Event PlanSM Auto Accept.
From Coercion.Resume Require Import Resume MonRecover.
From Coercion.ImgWf Require Import FullProofs.
Open Scope Z_scope.
Definition sh1 : shape :=
  Build_shape (Build_groups None None None None None)
    [Build_bshape (Build_groups None (Some [0%nat]) None None (Some [0%nat])) [[0%nat]] 1 0].
Definition pre0 := AChk (SBlock 0) GPre 0.
Definition tr1 : list event :=
  [EvWrite OPlan Running 0 false FRUnknown;
   EvWrite (OBlock 0) Running 0 false FRUnknown;
   EvWrite (OAct pre0) Running 0 false FRUnknown;
   EvStart pre0; EvEnd pre0 OPerm;
   EvWrite (OAct pre0) Running 1 false FRUnknown;
   EvWrite (OAct pre0) Failed 1 false FRUnknown;
   EvWrite (OChecks (SBlock 0) GPre) Failed 0 false FRUnknown;
   EvWrite (OBlock 0) Failed 0 false FRUnknown].
Definition ok1 := match run sh1 init tr1 with Some _ => true | None => false end.
Eval vm_compute in ok1.
Definition I1 := image_of (crash_image sh1 tr1 7).
Eval vm_compute in I1.
Definition fin1 : image := IM (map (fun o => (o, match im_lookup I1 o with Some c => if obj_eqb o OPlan then OC Failed 0 false (TF false false true) else c | None => OC NotStarted 0 false (TF true true true) end)) (all_objs sh1)) FRBlock.
Definition tr2 : list event := [EvWrite OPlan Failed 0 false FRBlock; EvRelease fin1].
Eval vm_compute in (raccepts dev_none sh1 I1 tr2).
Eval vm_compute in (converges_codes dev_none sh1 I1 tr2 Failed true).
Eval vm_compute in (deferred_missing dev_none sh1 I1 fin1).
