(* EngineImg - the durable image of EVERY state the engine automaton reaches satisfies Cells.icons (C04's product
   invariant Inv1 relates every action / sequence sub-automaton to its durable cells: here it is projected on the
   image alone, keeping the "in progress" shape of a Running sequence, which C04.image_invariant does not state);
   hence every crash image (Resume.crash_image: the image after the first k writes) of every accepted trace does.
   Proofs only. *)
From Coq Require Import Lia.
From Coercion.Base Require Import Plan.
From Coercion.Engine Require Import Shape Event Action ChecksRun Seq Block Final PlanSM Auto Accept AutoLemmas.
From Coercion.C04 Require Import MonC04 Views InvDefs InvLocal InvGlobal InvHandle C04Run C04Proofs.
From Coercion.Resume Require Import Resume.
From Coercion.ImgWf Require Import CrashImage.
From Coercion.C10x Require Import Cells.

Lemma cell_eta c : c = {| c_st := c_st c; c_n := c_n c; c_ok := c_ok c |}.
Proof. destruct c; reflexivity. Qed.

Lemma settled_act_ok c : settled c -> act_ok c.
Proof.
  unfold settled. destruct (c_st c) eqn:E; intro H; try contradiction.
  - right. left. destruct H as [H1 H2]. rewrite (cell_eta c), E, H1, H2. reflexivity.
  - right. right. left. destruct H as [H1 H2]. repeat split; assumption.
  - right. right. right. destruct H as [H1 H2]. repeat split; assumption.
Qed.

Lemma arel_act_ok x c t : arel x c t -> act_ok c.
Proof.
  destruct x; simpl.
  - intros [H _]. now apply settled_act_ok.
  - intros [-> _]. left. reflexivity.
  - intros [-> _]. left. reflexivity.
  - intros [-> _]. left. reflexivity.
  - intros (_ & -> & _). left. reflexivity.
  - intros (Hn & -> & _). destruct v; [right; right; left|right; right; right]; repeat split; assumption.
Qed.

Lemma done_at_done c t : done_at c t -> done c.
Proof.
  intros (E & S & _). unfold settled in S. rewrite E in S. destruct S as [S1 S2]. repeat split; assumption.
Qed.

Lemma failed_at_failedc c t : failed_at c t -> failedc c.
Proof.
  intros (E & S & _). unfold settled in S. rewrite E in S. destruct S as [S1 S2]. repeat split; assumption.
Qed.

Lemma qfinal_true rs cf tf : qfinal rs true cf tf -> forall i, i < length rs -> done (cf i).
Proof. simpl. intros H i Hi. eapply done_at_done. apply H. exact Hi. Qed.

Lemma qfinal_false rs cf tf :
  qfinal rs false cf tf ->
  exists j, j < length rs /\ (forall i, i < j -> done (cf i)) /\ failedc (cf j) /\ (forall i, j < i -> i < length rs -> cf i = cell0).
Proof.
  simpl. intros (j & Hj & H1 & H2 & H3). exists j. split; [exact Hj|]. split; [|split].
  - intros i Hi. eapply done_at_done. now apply H1.
  - eapply failed_at_failedc. exact H2.
  - intros i Hi Hn. exact (proj1 (H3 i Hi Hn)).
Qed.

Section Engine.
Variable sh : shape.

(* one sequence, from C04's relation between its sub-automaton, its durable status and the cells of its actions *)
Lemma qinv_icons img b q rs x tf :
  qinv rs x (ist img (OSeq b q)) (qcf img b q) tf ->
  scons (iget img) b q (length rs)
  /\ (sstat (iget img) b q = Running -> run_shape (iget img) b q (length rs))
  /\ sstat (iget img) b q <> Stopped.
Proof.
  unfold scons, sstat, run_shape, acell. fold (ist img (OSeq b q)).
  change (fun i => iget img (OAct (ASeq b q i))) with (qcf img b q).
  unfold sconsf, run_shapef, all_donef, all_freshf, fail_patf.
  destruct x as [|j y|v|v]; simpl; intro H.
  - destruct H as [E H]. rewrite E. split; [|split; [discriminate|discriminate]].
    intros i Hi. exact (proj1 (H i Hi)).
  - destruct H as (E & H1 & H2 & _ & H4 & _). rewrite E. split; [exact I|]. split; [|discriminate]. intros _.
    exists j. split; [exact H4|]. split.
    + intros i Hi. eapply done_at_done. now apply H1.
    + intros i Hi Hn. exact (proj1 (H2 i Hi Hn)).
  - destruct H as [E H]. rewrite E. split; [exact I|]. split; [|discriminate]. intros _. destruct v.
    + exists (length rs). split; [lia|]. split; [exact (qfinal_true _ _ _ H)|]. intros i H1 H2. lia.
    + destruct (qfinal_false _ _ _ H) as (j & Hj & H1 & _ & H3). exists j. split; [lia|]. split; assumption.
  - destruct H as [E H]. rewrite E. destruct v; simpl.
    + split; [exact (qfinal_true _ _ _ H)|]. split; discriminate.
    + split; [exact (qfinal_false _ _ _ H)|]. split; discriminate.
Qed.

Theorem engine_image_icons tr s : run sh init tr = Some s -> icons sh (iget (s_img s)).
Proof.
  intro H. destruct (run_Inv sh _ _ H) as [I1 _].
  assert (Q : forall b q rs, seq_of sh b q = Some rs ->
            exists x tf, qinv rs x (ist (s_img s) (OSeq b q)) (qcf (s_img s) b q) tf).
  { intros b q rs Hq. unfold seq_of, block_of in Hq.
    destruct (nth_error (sh_blocks sh) b) as [bs|] eqn:Hb; [|discriminate].
    destruct (any_binv sh _ _ _ _ I1 Hb) as (b0 & _ & BL & BQ).
    destruct (nth_error (b_seqs b0) q) as [x|] eqn:Qx.
    - exists x, (qtf (m_t (mon_after tr)) b q). exact (BQ q rs x Hq Qx).
    - apply nth_error_None in Qx. apply nth_error_some_lt in Hq. lia. }
  constructor.
  - intros a Ha. destruct (act_arel sh _ _ _ I1 Ha) as [x R]. eapply arel_act_ok; eauto.
  - intros b q rs Hq. destruct (Q _ _ _ Hq) as (x & tf & R). exact (proj1 (qinv_icons _ _ _ _ _ _ R)).
  - intros b q rs Hq. destruct (Q _ _ _ Hq) as (x & tf & R). exact (proj1 (proj2 (qinv_icons _ _ _ _ _ _ R))).
  - intros b q rs Hq. destruct (Q _ _ _ Hq) as (x & tf & R). exact (proj2 (proj2 (qinv_icons _ _ _ _ _ _ R))).
Qed.

(* every write-prefix image of every accepted trace *)
Theorem crash_image_icons tr s k : run sh init tr = Some s -> icons sh (iget (fst (crash_image sh tr k))).
Proof.
  intro H. destruct (crash_image_reached _ _ _ k H) as (t1 & s1 & R1 & E).
  apply (icons_ext sh (iget (s_img s1))); [|eapply engine_image_icons; eauto].
  intros o _. symmetry. apply E.
Qed.
End Engine.
