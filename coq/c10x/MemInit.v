(* MemInit - the in-memory image of a resumed run right after the crash repair (FixMem.m0 = Resume.mem0 over
   Resume.base0) obeys the consistency rules of Cells.v whenever the crash image does: the cells of a sequence and of
   its actions are those of the sequence as the crash image shows it, or as fixSeq leaves it (never the oracle's
   execution: a sequence fixSeq leaves Running in a block that fixBlock repairs is resumed, and the resumed sequences
   are overlaid as fixSeq left them).  Proofs only. *)
From Coq Require Import Lia.
From Coercion.Base Require Import Plan.
From Coercion.Engine Require Import Shape Event Action ChecksRun Seq Block Final PlanSM Auto Accept AutoLemmas.
From Coercion.Recover Require Fix FixSpec FixProofs.
From Coercion.Resume Require Import Resume ResumeLemmas Frame NoReexec ImgWf RepairSound.
From Coercion.Resume Require FixFacts.
From Coercion.Chain Require Import FixMem.
From Coercion.C10x Require Import Cells FixCons.

(* ------------------------------------------------------------------ the encoding of a cell as an action of Fix.v *)
(* act_cell (act_of I id a): the cell of a in I, except that "last attempt ok" of an action without attempts reads false *)
Definition encc (c : cell) : cell :=
  {| c_st := c_st c; c_n := c_n c; c_ok := match c_n c with 0 => false | S _ => c_ok c end |}.

Lemma act_cell_enc I id a : act_cell (act_of I id a) = encc (iget I (OAct a)).
Proof.
  unfold act_cell, act_of, encc. cbn [F.ac_st F.ac_atts]. rewrite length_atts_of. f_equal.
  destruct (c_n (iget I (OAct a))) as [|k]; [reflexivity|]. cbn [atts_of]. rewrite rev_app_distr. cbn [rev app F.x_err].
  now rewrite Bool.negb_involutive.
Qed.

Lemma encc_done c : done c -> encc c = c.
Proof. intros (H1 & H2 & H3). destruct c as [t n ok]. unfold encc. simpl in *. destruct n; [lia|reflexivity]. Qed.

Lemma encc_failed c : failedc c -> encc c = c.
Proof. intros (H1 & H2 & H3). destruct c as [t n ok]. unfold encc. simpl in *. destruct n; [lia|reflexivity]. Qed.

Lemma encc_act_ok c : act_ok c -> act_ok (encc c).
Proof.
  intros [H|[H|[H|H]]].
  - left. exact H.
  - right. left. subst c. reflexivity.
  - right. right. left. now rewrite encc_done.
  - right. right. right. now rewrite encc_failed.
Qed.

Lemma sconsf_enc cf t n : sconsf cf t n -> sconsf (fun i => encc (cf i)) t n.
Proof.
  unfold sconsf. destruct t; auto.
  - intros H i Hi. rewrite (H i Hi). reflexivity.
  - intros H i Hi. rewrite encc_done; now apply H.
  - intros (j & Hj & H1 & H2 & H3). exists j. split; [exact Hj|]. split; [|split].
    + intros i Hi. rewrite encc_done; now apply H1.
    + now rewrite encc_failed.
    + intros i Hi Hn. rewrite (H3 i Hi Hn). reflexivity.
Qed.

Lemma run_shapef_enc cf n : run_shapef cf n -> run_shapef (fun i => encc (cf i)) n.
Proof.
  intros (j & Hj & H1 & H2). exists j. split; [exact Hj|]. split.
  - intros i Hi. rewrite encc_done; now apply H1.
  - intros i Hi Hn. rewrite (H2 i Hi Hn). reflexivity.
Qed.

(* the sequence of the crash image, as Fix.v sees it, is consistent when the image is *)
Lemma acf_img sh I b q rs i :
  i < length rs -> acf (F.sq_acts (seq_of_img sh I b q rs)) i = encc (iget I (OAct (ASeq b q i))).
Proof.
  intro Hi. rewrite <- act_cell_enc with (id := aid sh b q i). apply acf_nth. rewrite seq_img_acts_nth.
  apply Nat.ltb_lt in Hi. now rewrite Hi.
Qed.

Lemma fcons_img sh I b q rs : icons sh (iget I) -> seq_of sh b q = Some rs -> fcons (seq_of_img sh I b q rs).
Proof.
  intros [Ha Hs Hr Hn] Hq.
  assert (E : forall i, i < length rs -> acf (F.sq_acts (seq_of_img sh I b q rs)) i = encc (acell (iget I) b q i)).
  { intros i Hi. now apply acf_img. }
  constructor; rewrite ?seq_img_acts_len, ?seq_img_st.
  - intros i Hi. rewrite E by exact Hi. apply encc_act_ok. apply Ha. eapply in_shape_seq_act; eauto.
  - apply (sconsf_ext (fun i => encc (acell (iget I) b q i))); [exact E|]. apply sconsf_enc. exact (Hs _ _ _ Hq).
  - intro Hrun. apply (run_shapef_ext (fun i => encc (acell (iget I) b q i))); [exact E|]. apply run_shapef_enc.
    exact (Hr _ _ _ Hq Hrun).
  - exact (Hn _ _ _ Hq).
Qed.

(* ------------------------------------------------------------------ the overlay of the resumed sequences *)
Lemma in_ifind l o c : In (o, c) l -> ifind l o <> None.
Proof.
  induction l as [|[o' c'] l IH]; simpl; [contradiction|]. intros [H|H].
  - injection H as -> ->. rewrite (proj2 (obj_eqb_eq o o) eq_refl). discriminate.
  - destruct (obj_eqb o' o); [discriminate|auto].
Qed.

Lemma mem0_in_res p o c :
  In (o, c) (mem0 p) ->
  exists b q s0, In (b, q) (F.fp_resumed (fixed [] p)) /\ FS.get_seq p b q = Some s0
                 /\ In (o, c) (seq_objs_of b q (F.fix_seq s0)).
Proof.
  unfold mem0. intro H. apply in_flat_map in H as ([b q] & Hr & H). cbn [fst snd] in H.
  unfold resumed_seq in H. destruct (FS.get_seq p b q) as [s0|] eqn:E; [|contradiction]. simpl in H.
  exists b, q, s0. auto.
Qed.

Lemma in_indexed_nth {A} (l : list A) i x : nth_error l i = Some x -> In (i, x) (indexed l).
Proof. intro H. apply nth_error_In with (n := i). rewrite nth_indexed, H. reflexivity. Qed.

Lemma lead_completed_lt l : forall i, i < lead_completed l -> exists a, nth_error l i = Some a /\ F.ac_st a = Completed.
Proof.
  induction l as [|a l IH]; intros i Hi; simpl in Hi; [lia|].
  destruct (status_eqb (F.ac_st a) Completed) eqn:E; [|lia]. apply status_eqb_eq in E.
  destruct i; [exists a; auto|]. simpl. apply IH. lia.
Qed.

Section Init.
Variable sh : shape.
Variable I : dimg.
Hypothesis Hic : icons sh (iget I).
Hypothesis Hwf : img_wf0 sh I = true.
Hypothesis Hrun : ist I OPlan = Running.
Let p := pln_of sh I.
Notation m0 := (FixMem.m0 sh I).

Section OneSeq.
Variables (b q : nat) (bs : bshape) (rs : list nat).
Hypothesis Hb : block_of sh b = Some bs.
Hypothesis Hq : nth_error (bs_seqs bs) q = Some rs.
Let s := seq_of_img sh I b q rs.
Let blk := blk_of sh I b bs.

Lemma get_s : FS.get_seq p b q = Some s.
Proof. unfold p. rewrite (get_seq_of sh I b q bs Hb), Hq. reflexivity. Qed.

Lemma seq_of_bq : seq_of sh b q = Some rs.
Proof. unfold seq_of. now rewrite Hb. Qed.

(* what the repaired plan holds for a sequence that is not resumed: the sequence as it was (fixPlan returned before
   its loop, or the block was not Running, or fixBlock returned before its sequences), or as fixSeq left it, not
   Running *)
Lemma base_seq fl :
  ~ In (b, q) (resumed sh I) ->
  exists s', FS.get_seq (F.fp_pln (fixed fl p)) b q = Some s' /\
    ((s' = s /\ (plan_early sh I = true \/ ist I (OBlock b) <> Running
                 \/ (ist I (OBlock b) = Running /\ F.fb_full (F.fix_block (oracle []) blk) = false)))
     \/ (s' = F.fix_seq s /\ F.sq_st (F.fix_seq s) <> Running /\ plan_early sh I = false
         /\ F.fb_full (F.fix_block (oracle []) blk) = true)).
Proof.
  intro Hnr. unfold p. destruct (plan_early sh I) eqn:He.
  - destruct (early_blk sh I Hrun fl b bs Hb He) as [Hg _]. exists s. unfold FS.get_seq. rewrite Hg.
    rewrite blk_seqs_nth, Hq. split; [reflexivity|]. left. auto.
  - pose proof (fixed_blk sh I Hwf Hrun fl b bs Hb He) as Hg. unfold FS.get_seq. rewrite Hg. fold blk.
    destruct (FP.fix_block_seqs (oracle fl) (oracle_contract fl) blk) as [(Hf & Q & _)|(Hf & Hbr & Q & _)]; rewrite Q.
    + exists s. unfold blk. rewrite blk_seqs_nth, Hq. split; [reflexivity|]. left. split; [reflexivity|].
      rewrite (FF.fb_full_indep (oracle fl) (oracle [])) in Hf.
      destruct (status_eqb (ist I (OBlock b)) Running) eqn:E.
      * right. right. apply status_eqb_eq in E. auto.
      * right. left. now apply FP.status_eqb_false.
    + rewrite (FF.fb_full_indep (oracle fl) (oracle [])) in Hf.
      assert (Hnrun : F.sq_st (F.fix_seq s) <> Running).
      { intro E. apply Hnr. apply (in_resumed sh I Hwf Hrun b bs q He Hb). fold blk.
        destruct (FP.fix_block_seqs (oracle []) (oracle_contract []) blk) as [(Hf0 & _)|(_ & _ & _ & R)]; [congruence|].
        rewrite R. apply FF.running_ix_in. split; [lia|]. exists (F.fix_seq s). split; [|exact E].
        rewrite Nat.sub_0_r, nth_error_map. unfold blk. rewrite blk_seqs_nth, Hq. reflexivity. }
      exists (F.fix_seq s). rewrite nth_error_map. unfold blk. rewrite blk_seqs_nth, Hq. simpl. fold s. split.
      * f_equal. unfold FP.final_seq, F.resume_seq. destruct (status_eqb (F.sq_st (F.fix_seq s)) Running) eqn:E; [|reflexivity].
        apply status_eqb_eq in E. contradiction.
      * right. auto.
Qed.

(* the cells memory holds for the sequence and its actions right after the repair *)
Lemma m0_exact :
  exists s', (s' = s \/ s' = F.fix_seq s) /\ (In (b, q) (resumed sh I) -> s' = F.fix_seq s)
    /\ m0 (OSeq b q) = st_cell (F.sq_st s')
    /\ forall i, i < length rs -> m0 (OAct (ASeq b q i)) = acf (F.sq_acts s') i.
Proof.
  destruct (in_dec pair_dec (b, q) (resumed sh I)) as [Hin|Hnin].
  - exists (F.fix_seq s). split; [right; reflexivity|]. split; [auto|].
    assert (Hhit : forall o c, In (o, c) (seq_objs_of b q (F.fix_seq s)) -> m0 o = c).
    { intros o c Hoc. unfold FixMem.m0, over. fold p. destruct (ifind (mem0 p) o) as [c'|] eqn:E.
      - apply ifind_in, mem0_in in E as (b' & q' & s0 & Hg & Hin').
        destruct (seq_objs_in _ _ _ _ _ Hoc) as [[Eo1 Ec1]|(i & a & Eo1 & Hn & Ec1)];
          destruct (seq_objs_in _ _ _ _ _ Hin') as [[Eo Ec]|(i' & a' & Eo & Hn' & Ec)]; subst o; try discriminate.
        + injection Eo as <- <-. rewrite get_s in Hg. injection Hg as <-. congruence.
        + injection Eo as <- <- <-. rewrite get_s in Hg. injection Hg as <-. rewrite Hn in Hn'. injection Hn' as <-. congruence.
      - exfalso. eapply in_ifind; [|exact E]. unfold mem0. apply in_flat_map. exists (b, q). split; [exact Hin|].
        cbn [fst snd]. unfold resumed_seq. rewrite get_s. simpl. exact Hoc. }
    split.
    + apply Hhit. left. reflexivity.
    + intros i Hi. destruct (acf_lt (F.sq_acts (F.fix_seq s)) i) as (a & Hn & ->).
      { rewrite FP.fix_seq_length. unfold s. now rewrite seq_img_acts_len. }
      apply Hhit. right. apply in_map_iff. exists (i, a). split; [reflexivity|]. now apply in_indexed_nth.
  - destruct (base_seq [] Hnin) as (s' & Hg & Hs'). exists s'. split; [destruct Hs' as [[-> _]|[-> _]]; auto|].
    split; [intro; contradiction|].
    assert (Hmiss : forall o, (o = OSeq b q \/ exists i, o = OAct (ASeq b q i)) -> ifind (mem0 p) o = None).
    { intros o Ho. destruct (ifind (mem0 p) o) as [c|] eqn:E; [|reflexivity]. exfalso.
      apply ifind_in, mem0_in_res in E as (b' & q' & s0 & Hr & _ & Hin'). apply Hnin.
      destruct (seq_objs_in _ _ _ _ _ Hin') as [[Eo _]|(i' & a' & Eo & _)]; destruct Ho as [->|[i ->]]; try discriminate;
        injection Eo as <- <-; exact Hr. }
    split.
    + unfold FixMem.m0, over. fold p. rewrite Hmiss by (left; reflexivity). unfold base0, pl_cell. rewrite Hg. reflexivity.
    + intros i Hi. unfold FixMem.m0, over. fold p. rewrite Hmiss by (right; eauto). unfold base0, pl_cell, FS.get_act.
      rewrite Hg. reflexivity.
Qed.

Lemma fcons_s : fcons s.
Proof. apply fcons_img; [exact Hic|exact seq_of_bq]. Qed.

(* ... hence the consistency rules hold of memory for this sequence *)
Lemma m0_seq_cons :
  scons m0 b q (length rs) /\ sstat m0 b q <> Stopped /\ forall i, i < length rs -> act_ok (m0 (OAct (ASeq b q i))).
Proof.
  destruct m0_exact as (s' & Hs' & _ & Es & Ea).
  assert (Hc : fcons s') by (destruct Hs' as [-> | ->]; [exact fcons_s|apply fix_seq_fcons, fcons_s]).
  assert (Hl : length (F.sq_acts s') = length rs).
  { destruct Hs' as [-> | ->]; [|rewrite FP.fix_seq_length]; unfold s; apply seq_img_acts_len. }
  destruct Hc as [Ca Cs _ Cn]. rewrite Hl in *. split; [|split].
  - unfold scons, sstat. rewrite Es. cbn [st_cell c_st]. apply (sconsf_ext (acf (F.sq_acts s'))); [|exact Cs].
    intros i Hi. unfold acell. now apply Ea.
  - unfold sstat. rewrite Es. exact Cn.
  - intros i Hi. rewrite Ea by exact Hi. now apply Ca.
Qed.

(* a resumed sequence: Running, finished actions up to the first open one, untouched ones from there on *)
Lemma m0_resumed :
  resumable_ok p = true -> In (b, q) (resumed sh I) ->
  sstat m0 b q = Running /\ first_open p b q < length rs
  /\ (forall i, i < first_open p b q -> done (acell m0 b q i))
  /\ (forall i, first_open p b q <= i -> i < length rs -> acell m0 b q i = cell0).
Proof.
  intros Hres Hin. destruct m0_exact as (s' & _ & Hs' & Es & Ea). specialize (Hs' Hin). subst s'.
  pose proof (fix_seq_fcons s fcons_s) as [Ca _ _ _]. rewrite FP.fix_seq_length in Ca.
  assert (Hl : length (F.sq_acts s) = length rs) by (unfold s; apply seq_img_acts_len). rewrite Hl in Ca.
  assert (Hrs : resumed_seq p b q = Some (F.fix_seq s)) by (unfold resumed_seq; now rewrite get_s).
  assert (Hok : seq_resumable (F.fix_seq s) = true).
  { unfold resumable_ok in Hres. rewrite forallb_forall in Hres. specialize (Hres (b, q) Hin). cbn [fst snd] in Hres.
    now rewrite Hrs in Hres. }
  assert (Hst : F.sq_st (F.fix_seq s) = Running).
  { destruct (resumed_in sh I Hrun b q Hin) as (_ & bs' & Hb' & Hq'). rewrite Hb in Hb'. injection Hb' as <-. fold blk in Hq'.
    destruct (FP.fix_block_seqs (oracle []) (oracle_contract []) blk) as [(_ & _ & R)|(_ & _ & _ & R)]; rewrite R in Hq'; [contradiction|].
    apply FF.running_ix_in in Hq' as (_ & s1 & Hn & Hs1). rewrite Nat.sub_0_r, nth_error_map in Hn. unfold blk in Hn.
    rewrite blk_seqs_nth, Hq in Hn. simpl in Hn. injection Hn as <-. exact Hs1. }
  unfold first_open. rewrite Hrs. unfold seq_resumable in Hok. apply andb_true_iff in Hok as [Hok1 Hok2].
  apply Nat.ltb_lt in Hok2. rewrite FP.fix_seq_length, Hl in Hok2.
  split; [unfold sstat; now rewrite Es|]. split; [exact Hok2|]. split.
  - intros i Hi. unfold acell. rewrite Ea by lia. destruct (lead_completed_lt _ _ Hi) as (a & Hn & Ha).
    apply act_ok_completed; [apply Ca; lia|]. now rewrite (acf_nth _ _ _ Hn).
  - intros i Hi Hn. unfold acell. rewrite Ea by exact Hn. apply act_ok_notstarted; [now apply Ca|].
    destruct (acf_lt (F.sq_acts (F.fix_seq s)) i) as (a & Hna & ->); [rewrite FP.fix_seq_length; lia|].
    pose proof (forallb_skipn_nth _ _ _ _ _ Hok1 Hi Hna) as Q. now apply status_eqb_eq in Q.
Qed.
End OneSeq.

(* ------------------------------------------------------------------ sequences that are not resumed *)
(* in a block the state chain may still enter (not finished after the repair, the plan not finished either) a
   sequence that fixBlock did not resume is NotStarted, Completed or Failed after the repair *)
Lemma rs2_holds fl b q :
  is_terminal (pln_st sh I fl) = false -> seq_of sh b q <> None -> is_terminal (blk_st sh I fl b) = false ->
  ~ In (b, q) (resumed sh I) -> seq_st0 sh I b q = NotStarted \/ cf (seq_st0 sh I b q).
Proof.
  intros Hpl Hq Hnt Hnr. unfold seq_of in Hq. destruct (block_of sh b) as [bs|] eqn:Hb; [|contradiction].
  destruct (nth_error (bs_seqs bs) q) as [rs|] eqn:Hqs; [|contradiction].
  destruct (base_seq b q bs rs Hb Hqs [] Hnr) as (s' & Hg & Hs').
  assert (E0 : seq_st0 sh I b q = F.sq_st s').
  { unfold seq_st0, base0, pl_cell. fold p. rewrite Hg. reflexivity. }
  rewrite E0.
  assert (Hne : plan_early sh I = false).
  { destruct (plan_early sh I) eqn:He; [|reflexivity]. exfalso. rewrite <- early_iff in He.
    pose proof (FF.fix_plan_early_terminal (oracle fl) (pln_of sh I) Hrun He) as Ht.
    unfold pln_st, pl_cell, fixed in Hpl. simpl in Hpl. rewrite Ht in Hpl. discriminate. }
  pose proof (fixed_blk sh I Hwf Hrun fl b bs Hb Hne) as Hgb.
  unfold blk_st, pl_cell in Hnt. rewrite Hgb in Hnt. simpl in Hnt.
  destruct Hs' as [[-> Hc]|[-> (Hnrun & _ & _)]].
  - destruct Hc as [He|[Hbn|[Hbr Hf]]]; [congruence| |].
    + left. rewrite seq_img_st.
      assert (Hnr' : F.bk_st (blk_of sh I b bs) <> Running) by exact Hbn.
      rewrite (FP.fix_block_other _ _ Hnr') in Hnt. simpl in Hnt.
      pose proof (wf_block sh I Hwf _ _ Hb) as Hw. unfold block_wf in Hw. apply andb_true_iff in Hw as [Hw _].
      pose proof (wf_seq sh I Hwf _ _ _ _ Hb Hqs) as Hws. unfold seq_wf in Hws. apply andb_true_iff in Hws as [Hws _].
      apply andb_true_iff in Hws as [_ Hws].
      destruct (ist I (OBlock b)); try discriminate; try contradiction. simpl in Hws. now apply status_eqb_eq.
    + exfalso. rewrite (FF.fb_full_indep (oracle []) (oracle fl)) in Hf.
      assert (Hbr' : F.bk_st (blk_of sh I b bs) = Running) by exact Hbr.
      rewrite (FF.fix_block_early_terminal _ _ Hbr' Hf) in Hnt. discriminate.
  - pose proof (img_seq_not_stopped sh I Hwf _ _ _ _ Hb Hqs) as H4.
    destruct (F.sq_st (F.fix_seq (seq_of_img sh I b q rs))); try contradiction; auto; right; [left|right]; reflexivity.
Qed.

(* ------------------------------------------------------------------ check actions *)
Lemma act_cell_reset a : act_cell (F.reset_action a) = cell0.
Proof. reflexivity. Qed.

Lemma ochk_cell_ok sc gs g i c :
  (forall rs, grp_get gs g = Some rs -> i < length rs -> act_ok (iget I (OAct (AChk sc g i)))) ->
  c = ochk_of I sc gs g \/ c = F.fix_checks_opt (ochk_of I sc gs g) -> act_ok (ochk_act_cell c i).
Proof.
  intros Hok Hc. unfold ochk_of in Hc. destruct (grp_get gs g) as [rs|] eqn:G.
  2:{ destruct Hc as [-> | ->]; apply act_ok_cell0. }
  assert (Hn : nth_error (F.ck_acts (chk_of I sc g rs)) i = if i <? length rs then Some (act_of I 0 (AChk sc g i)) else None).
  { unfold chk_of. cbn [F.ck_acts]. exact (nth_map_seq (fun i => act_of I 0 (AChk sc g i)) (length rs) i). }
  assert (H1 : act_ok (ochk_act_cell (Some (chk_of I sc g rs)) i)).
  { unfold ochk_act_cell. rewrite Hn. destruct (i <? length rs) eqn:L; [|apply act_ok_cell0].
    rewrite act_cell_enc. apply encc_act_ok. apply (Hok rs eq_refl). now apply Nat.ltb_lt. }
  destruct Hc as [-> | ->]; [exact H1|]. cbn [option_map F.fix_checks_opt]. unfold F.fix_checks.
  destruct (negb (status_eqb (F.ck_st (chk_of I sc g rs)) Running)); [exact H1|].
  unfold ochk_act_cell. cbn [F.ck_acts]. rewrite nth_error_map.
  destruct (nth_error (F.ck_acts (chk_of I sc g rs)) i); [apply act_ok_cell0|apply act_ok_cell0].
Qed.

Lemma mem0_no_chk sc g i : ifind (mem0 p) (OAct (AChk sc g i)) = None.
Proof.
  destruct (ifind (mem0 p) (OAct (AChk sc g i))) as [c|] eqn:E; [|reflexivity].
  apply ifind_in, mem0_in in E as (b' & q' & s0 & _ & Hin).
  destruct (seq_objs_in _ _ _ _ _ Hin) as [[Eo _]|(i' & a' & Eo & _)]; discriminate.
Qed.

Lemma m0_chk_act sc g i : obj_in_shape sh (OAct (AChk sc g i)) = true -> act_ok (m0 (OAct (AChk sc g i))).
Proof.
  intro Hs. unfold FixMem.m0, over. fold p. rewrite mem0_no_chk. unfold base0, pl_cell.
  assert (Hok : forall gs, scope_groups sh sc = Some gs ->
            forall rs, grp_get gs g = Some rs -> i < length rs -> act_ok (iget I (OAct (AChk sc g i)))).
  { intros gs Hg rs Hr Hi. apply (ic_act sh _ Hic). exact Hs. }
  destruct sc as [|b].
  - apply (ochk_cell_ok SPlan (sh_groups sh) g i); [apply Hok; reflexivity|].
    destruct (FP.fix_plan_grp (oracle []) p g) as [E|E]; unfold fixed; rewrite E; [left|right]; destruct g; reflexivity.
  - unfold FS.get_bgrp. destruct (block_of sh b) as [bs|] eqn:Hb.
    2:{ assert (Hn : FS.get_blk (F.fp_pln (fixed [] p)) b = None).
        { unfold FS.get_blk. apply nth_error_None. unfold fixed. rewrite FP.fix_plan_nblocks.
          unfold p, pln_of. cbn [F.pl_blocks]. rewrite map_length. unfold indexed. rewrite combine_length, seq_length, Nat.min_id.
          unfold block_of in Hb. now apply nth_error_None. }
        rewrite Hn. apply act_ok_cell0. }
    assert (Hg : FS.get_blk p b = Some (blk_of sh I b bs)) by (unfold p; rewrite get_blk_of, Hb; reflexivity).
    apply (ochk_cell_ok (SBlock b) (bs_groups bs) g i).
    + apply Hok. unfold scope_groups. now rewrite Hb.
    + destruct (fixed_blk_cases [] p b _ Hg) as [E|E]; rewrite E.
      * left. destruct g; reflexivity.
      * destruct (FP.fix_block_grp (oracle []) (blk_of sh I b bs) g) as [E'|E']; rewrite E'; [left|right]; destruct g; reflexivity.
Qed.
End Init.

(* ------------------------------------------------------------------ fixPlan's loop resumes block after block *)
Fixpoint inc (lo : nat) (l : list nat) : Prop :=
  match l with [] => True | x :: r => lo <= x /\ inc (S x) r end.
Fixpoint nondec (lo : nat) (l : list (nat * nat)) : Prop :=
  match l with [] => True | (b, _) :: r => lo <= b /\ nondec b r end.

Lemma inc_weaken lo lo' l : lo <= lo' -> inc lo' l -> inc lo l.
Proof. destruct l; simpl; [auto|]. intros H [H1 H2]. split; [lia|exact H2]. Qed.

Lemma inc_nodup l : forall lo, inc lo l -> NoDup l /\ Forall (le lo) l.
Proof.
  induction l as [|x l IH]; intros lo H; [split; constructor|]. destruct H as [H1 H2].
  destruct (IH _ H2) as [N F]. split.
  - constructor; [|exact N]. intro Hin. rewrite Forall_forall in F. specialize (F _ Hin). lia.
  - constructor; [exact H1|]. eapply Forall_impl; [|exact F]. intros a Ha. lia.
Qed.

Lemma nondec_weaken lo lo' l : lo <= lo' -> nondec lo' l -> nondec lo l.
Proof. destruct l as [|[b q] l]; simpl; [auto|]. intros H [H1 H2]. split; [lia|exact H2]. Qed.

Lemma nondec_const i l l' : nondec i l' -> nondec i (map (fun j => (i, j)) l ++ l').
Proof. intro H. induction l as [|j l IH]; simpl; [exact H|]. split; [lia|exact IH]. Qed.

Lemma group_inc l : forall lo, nondec lo l -> inc lo (map fst (group_by_block l)).
Proof.
  induction l as [|[b q] l IH]; intros lo H; [exact I|]. destruct H as [H1 H2]. specialize (IH _ H2). simpl.
  destruct (group_by_block l) as [|[b' qs] r]; [simpl; auto|]. simpl in IH. destruct IH as [Hb Hr].
  destruct (Nat.eqb b b') eqn:E; simpl.
  - apply Nat.eqb_eq in E. subst b'. auto.
  - apply Nat.eqb_neq in E. split; [exact H1|]. split; [lia|exact Hr].
Qed.

Lemma fix_blocks_nondec rs bs : forall i0, nondec i0 (snd (fst (F.fix_blocks rs i0 bs))).
Proof.
  induction bs as [|b bs IH]; intro i0; [exact I|]. simpl.
  destruct (status_eqb (F.bk_st (F.fb_blk (F.fix_block rs b))) Stopped).
  - simpl. rewrite <- (app_nil_r (map _ _)). apply nondec_const. exact I.
  - specialize (IH (S i0)). destruct (F.fix_blocks rs (S i0) bs) as [[r' res'] st]. simpl in *.
    apply nondec_const. eapply nondec_weaken; [|exact IH]. lia.
Qed.

Lemma fix_plan_resumed_cases rs p :
  F.fp_resumed (F.fix_plan rs p) = [] \/ F.fp_resumed (F.fix_plan rs p) = snd (fst (F.fix_blocks rs 0 (F.pl_blocks p))).
Proof.
  unfold F.fix_plan. destruct (F.fix_blocks rs 0 (F.pl_blocks p)) as [[bs res] stop].
  repeat match goal with |- context [if ?c then _ else _] => destruct c end; simpl; auto.
Qed.

Lemma todo_nodup sh I : NoDup (map fst (group_by_block (resumed sh I))).
Proof.
  unfold resumed, fixed. destruct (fix_plan_resumed_cases (oracle []) (pln_of sh I)) as [E|E]; rewrite E; [constructor|].
  exact (proj1 (inc_nodup _ _ (group_inc _ _ (fix_blocks_nondec _ _ 0)))).
Qed.
