(* Cells - the consistency rules of C04 (DESIGN.md section 6: MonC04 clauses 7, 8; MonRecover.consistent) as predicates
   over ANY image given as a function obj -> cell: the durable image of an engine state (iget (s_img s)), a crash
   image, or the in-memory image of a resumed run (Resume.mget r).  Definitions and small facts; nothing here refers
   to an automaton. *)
From Coq Require Import Lia.
From Coercion.Base Require Import Plan.
From Coercion.Engine Require Import Shape Event.

(* an action that has finished: it has attempts and the verdict of the last one is its status *)
Definition done (c : cell) : Prop := c_st c = Completed /\ 0 < c_n c /\ c_ok c = true.
Definition failedc (c : cell) : Prop := c_st c = Failed /\ 0 < c_n c /\ c_ok c = false.
(* clause 8, with "in progress" allowed: an action is Running, untouched, or finished with the right verdict *)
Definition act_ok (c : cell) : Prop := c_st c = Running \/ c = cell0 \/ done c \/ failedc c.

Lemma act_ok_cell0 : act_ok cell0.
Proof. right. left. reflexivity. Qed.

Lemma act_ok_completed c : act_ok c -> c_st c = Completed -> done c.
Proof.
  intros [H|[H|[H|H]]] E; [congruence|subst c; discriminate|exact H|destruct H as [H _]; congruence].
Qed.

Lemma act_ok_notstarted c : act_ok c -> c_st c = NotStarted -> c = cell0.
Proof.
  intros [H|[H|[H|H]]] E; [congruence|exact H|destruct H as [H _]; congruence|destruct H as [H _]; congruence].
Qed.

Lemma act_ok_failed c : act_ok c -> c_st c = Failed -> failedc c.
Proof.
  intros [H|[H|[H|H]]] E; [congruence|subst c; discriminate|destruct H as [H _]; congruence|exact H].
Qed.

(* ---- one sequence: its status t and the cells of its n actions, cf i ---- *)
Section OneSeq.
Variable cf : nat -> cell.

Definition all_donef (n : nat) : Prop := forall i, i < n -> done (cf i).
Definition all_freshf (n : nat) : Prop := forall i, i < n -> cf i = cell0.
(* clause 7, Failed sequence: Completed actions, exactly one Failed action, untouched ones *)
Definition fail_patf (n : nat) : Prop :=
  exists j, j < n /\ (forall i, i < j -> done (cf i)) /\ failedc (cf j) /\ (forall i, j < i -> i < n -> cf i = cell0).

(* clause 7 (and the hierarchy clause for NotStarted): what the status of a sequence says about its n actions *)
Definition sconsf (t : status) (n : nat) : Prop :=
  match t with
  | NotStarted => all_freshf n
  | Completed => all_donef n
  | Failed => fail_patf n
  | _ => True
  end.

(* a sequence in progress: finished actions, the one in progress (or about to be), untouched ones *)
Definition run_shapef (n : nat) : Prop :=
  exists j, j <= n /\ (forall i, i < j -> done (cf i)) /\ (forall i, j < i -> i < n -> cf i = cell0).

Lemma all_done_run_shape n : all_donef n -> run_shapef n.
Proof. intro H. exists n. split; [lia|]. split; [exact H|]. intros i H1 H2. lia. Qed.

Lemma fail_pat_run_shape n : fail_patf n -> run_shapef n.
Proof. intros (j & Hj & H1 & _ & H3). exists j. split; [lia|]. split; assumption. Qed.
End OneSeq.

Lemma sconsf_ext cf cf' t n : (forall i, i < n -> cf' i = cf i) -> sconsf cf t n -> sconsf cf' t n.
Proof.
  intro Ha. unfold sconsf. destruct t; auto.
  - intros H i Hi. rewrite Ha by exact Hi. now apply H.
  - intros H i Hi. rewrite Ha by exact Hi. now apply H.
  - intros (j & Hj & H1 & H2 & H3). exists j. split; [exact Hj|]. split; [|split].
    + intros i Hi. rewrite Ha by lia. now apply H1.
    + rewrite Ha by exact Hj. exact H2.
    + intros i Hi Hn. rewrite Ha by exact Hn. now apply H3.
Qed.

Lemma run_shapef_ext cf cf' n : (forall i, i < n -> cf' i = cf i) -> run_shapef cf n -> run_shapef cf' n.
Proof.
  intros Ha (j & Hj & H1 & H2). exists j. split; [exact Hj|]. split.
  - intros i Hi. rewrite Ha by lia. now apply H1.
  - intros i Hi Hn. rewrite Ha by exact Hn. now apply H2.
Qed.

(* ---- read off an image ---- *)
Section Image.
Variable m : obj -> cell.
Definition acell (b q i : nat) : cell := m (OAct (ASeq b q i)).
Definition sstat (b q : nat) : status := c_st (m (OSeq b q)).
Definition scons (b q n : nat) : Prop := sconsf (acell b q) (sstat b q) n.
Definition run_shape (b q n : nat) : Prop := run_shapef (acell b q) n.
End Image.

(* the whole image: every action of the shape, every sequence of the shape *)
Record icons (sh : shape) (m : obj -> cell) : Prop := {
  ic_act : forall a, obj_in_shape sh (OAct a) = true -> act_ok (m (OAct a));
  ic_seq : forall b q rs, seq_of sh b q = Some rs -> scons m b q (length rs);
  ic_run : forall b q rs, seq_of sh b q = Some rs -> sstat m b q = Running -> run_shape m b q (length rs);
  ic_nostop : forall b q rs, seq_of sh b q = Some rs -> sstat m b q <> Stopped }.

(* the predicates read the image through the objects of the shape only *)
Lemma scons_ext m m' b q n :
  m' (OSeq b q) = m (OSeq b q) -> (forall i, i < n -> m' (OAct (ASeq b q i)) = m (OAct (ASeq b q i))) ->
  scons m b q n -> scons m' b q n.
Proof. intros Hs Ha. unfold scons, sstat. rewrite Hs. now apply sconsf_ext. Qed.

Lemma run_shape_ext m m' b q n :
  (forall i, i < n -> m' (OAct (ASeq b q i)) = m (OAct (ASeq b q i))) -> run_shape m b q n -> run_shape m' b q n.
Proof. intro Ha. now apply run_shapef_ext. Qed.

Lemma in_shape_seq_act sh b q i rs : seq_of sh b q = Some rs -> i < length rs -> obj_in_shape sh (OAct (ASeq b q i)) = true.
Proof.
  intros Hs Hi. cbn. rewrite Hs. destruct (nth_error rs i) eqn:E; [reflexivity|]. apply nth_error_None in E. lia.
Qed.

Lemma in_shape_seq sh b q rs : seq_of sh b q = Some rs -> obj_in_shape sh (OSeq b q) = true.
Proof. intro Hs. cbn. now rewrite Hs. Qed.

Lemma icons_ext sh m m' : (forall o, obj_in_shape sh o = true -> m' o = m o) -> icons sh m -> icons sh m'.
Proof.
  intros E [Ha Hs Hr Hn].
  assert (Es : forall b q rs, seq_of sh b q = Some rs -> m' (OSeq b q) = m (OSeq b q)).
  { intros b q rs H. apply E. eapply in_shape_seq; eauto. }
  assert (Ea : forall b q rs, seq_of sh b q = Some rs -> forall i, i < length rs -> m' (OAct (ASeq b q i)) = m (OAct (ASeq b q i))).
  { intros b q rs H i Hi. apply E. eapply in_shape_seq_act; eauto. }
  constructor.
  - intros a H. rewrite E by exact H. now apply Ha.
  - intros b q rs H. apply (scons_ext m m'); [exact (Es _ _ _ H)|exact (Ea _ _ _ H)|exact (Hs _ _ _ H)].
  - intros b q rs H Hrun. unfold sstat in Hrun. rewrite (Es _ _ _ H) in Hrun.
    apply (run_shape_ext m m'); [exact (Ea _ _ _ H)|exact (Hr _ _ _ H Hrun)].
  - intros b q rs H. unfold sstat. rewrite (Es _ _ _ H). eapply Hn; eauto.
Qed.
