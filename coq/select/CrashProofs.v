(* The close of an aged plan is crash-safe because the plan row is written first. *)
From Coq Require Import Lia.
From Coercion.Base Require Import Plan.
From Coercion.Select Require Import Rows RowsProofs Select SelectSpec PersistProofs SelectProofs.

Definition is_plan_row (r : row) : bool := match r with RPlan _ _ _ => true | _ => false end.

Definition head_cols (q : plan) : N * option state * reason := (pid q, p_state q, p_reason q).

Lemma write_child_keeps_head w q :
  is_plan_row w = false -> head_cols (tm_plan (g_write w) q) = head_cols q.
Proof. destruct w; intros H; try discriminate H; reflexivity. Qed.

Lemma persist_children_keeps_heads ws : forall s,
  Forall (fun w => is_plan_row w = false) ws -> map head_cols (persist s ws) = map head_cols s.
Proof.
  induction ws as [|w ws IH]; intros s H; [reflexivity|].
  apply Forall_cons_iff in H as [Hw H].
  change (persist s (w :: ws)) with (persist (apply_write s w) ws).
  rewrite IH by exact H. unfold apply_write. rewrite map_map. apply map_ext.
  intros q. now apply write_child_keeps_head.
Qed.

(* every row of a plan but the first belongs to another table *)
Lemma orows_no_plan {A} (rf : A -> list row) l :
  (forall x, Forall (fun w => is_plan_row w = false) (rf x)) ->
  Forall (fun w => is_plan_row w = false) (orows rf l).
Proof.
  intros H. destruct l as [l|]; [|constructor]. cbn [orows].
  induction l as [|[x|] l IH]; cbn [flat_map oflat]; [constructor| |exact IH].
  apply Forall_app. split; [apply H|exact IH].
Qed.

Lemma rows_action_no_plan a : Forall (fun w => is_plan_row w = false) (rows_action a).
Proof. repeat constructor. Qed.

Lemma rows_checks_no_plan c : Forall (fun w => is_plan_row w = false) (rows_checks c).
Proof. constructor; [reflexivity|]. apply orows_no_plan, rows_action_no_plan. Qed.

Lemma oflat_checks_no_plan o : Forall (fun w => is_plan_row w = false) (oflat rows_checks o).
Proof. destruct o; [apply rows_checks_no_plan|constructor]. Qed.

Lemma rows_seq_no_plan q : Forall (fun w => is_plan_row w = false) (rows_seq q).
Proof. constructor; [reflexivity|]. apply orows_no_plan, rows_action_no_plan. Qed.

Lemma rows_block_no_plan b : Forall (fun w => is_plan_row w = false) (rows_block b).
Proof.
  constructor; [reflexivity|].
  repeat (apply Forall_app; split); try apply oflat_checks_no_plan.
  apply orows_no_plan, rows_seq_no_plan.
Qed.

Lemma rows_plan_tail_no_plan p : Forall (fun w => is_plan_row w = false) (tl (rows_plan p)).
Proof.
  unfold rows_plan. cbn [tl].
  repeat (apply Forall_app; split); try apply oflat_checks_no_plan.
  apply orows_no_plan, rows_block_no_plan.
Qed.

Lemma Forall_firstn {A} (P : A -> Prop) n : forall l, Forall P l -> Forall P (firstn n l).
Proof.
  induction n as [|n IH]; intros l H; [constructor|].
  destruct l as [|a l]; [constructor|]. apply Forall_cons_iff in H as [Ha H].
  cbn [firstn]. constructor; [exact Ha|now apply IH].
Qed.

(* ---- an interrupted close: as long as the plan row has not been written (the LAST write), every row of
   the plans table is exactly as before - the plan is still durably Running with its old times, so the next
   start-up's Search finds it again ---- *)
Lemma interrupted_close_keeps_plan_rows s stamp p j :
  (j <= length (tl (rows_plan (age_out stamp p))))%nat ->
  map head_cols (persist s (firstn j (writes_aged (age_out stamp p)))) = map head_cols s.
Proof.
  intros Hj. unfold writes_aged. rewrite firstn_app.
  replace (j - length (tl (rows_plan (age_out stamp p))))%nat with 0%nat by lia.
  cbn [firstn]. rewrite app_nil_r.
  apply persist_children_keeps_heads, Forall_firstn, rows_plan_tail_no_plan.
Qed.

(* what select hands to runPlan are ids of durably Running plans of the store *)
Lemma fetch_pids s : forall ids ps, fetch_plans s ids = Some ps -> map pid ps = ids.
Proof.
  induction ids as [|id ids IH]; intros ps H; cbn [fetch_plans] in H.
  - injection H as <-. reflexivity.
  - destruct (read s id) as [q|] eqn:Er; [|discriminate].
    destruct (fetch_plans s ids) as [qs|] eqn:Ef; [|discriminate].
    injection H as <-. cbn [map]. rewrite (IH qs eq_refl). f_equal.
    unfold read in Er. apply find_some in Er as [_ E]. now apply N.eqb_eq.
Qed.

Lemma resumed_are_running now stamp maxAge recovery s id :
  In id (snd (select now stamp maxAge recovery s)) ->
  exists q, In q s /\ pid q = id /\ is_running q.
Proof.
  unfold select, select_from. destruct recovery; [|intros []].
  destruct (fetch_plans s (search_running s)) as [ps|] eqn:Ef; [|intros []].
  cbn [snd]. intros Hin. apply in_map_iff in Hin as [q0 [Hid Hq0]]. apply filter_In in Hq0 as [Hq0 _].
  assert (Hids : In id (search_running s)).
  { rewrite <- (fetch_pids s _ _ Ef). rewrite <- Hid. now apply in_map. }
  unfold search_running in Hids. apply in_map_iff in Hids as [q [Hq Hin]].
  apply filter_In in Hin as [Hin Hr]. exists q. repeat split; [exact Hin|exact Hq|now apply running_iff].
Qed.

(* all the writes of start-up recovery, uninterrupted, give the store [select] returns *)
Lemma persist_app s ws1 ws2 : persist s (ws1 ++ ws2) = persist (persist s ws1) ws2.
Proof. unfold persist. apply fold_left_app. Qed.

Lemma aged_out_is_persist stamp l : forall s,
  aged_out stamp l s = persist s (flat_map (fun p => writes_aged (age_out stamp p)) l).
Proof.
  induction l as [|p l IH]; intros s; [reflexivity|].
  rewrite aged_out_cons, IH. cbn [flat_map]. now rewrite persist_app.
Qed.

Lemma crash_after_all_writes now stamp maxAge s :
  crash_during_close (length (close_writes now stamp maxAge s)) now stamp maxAge s =
  fst (select now stamp maxAge true s).
Proof.
  unfold crash_during_close, close_writes, select, select_from. rewrite firstn_all.
  destruct (fetch_plans s (search_running s)); [|reflexivity].
  cbn [fst]. symmetry. apply aged_out_is_persist.
Qed.

(* ================= execute.New with a recovery that may fail (R8) ================= *)
Lemma execute_new_opened budget now stamp maxAge recovery s s' resumed :
  execute_new budget now stamp maxAge recovery s = Opened s' resumed ->
  (s', resumed) = select now stamp maxAge recovery s.
Proof.
  unfold execute_new. intros H.
  assert (D : forall o, o = Opened (fst (select now stamp maxAge recovery s)) (snd (select now stamp maxAge recovery s)) ->
                        o = Opened s' resumed -> (s', resumed) = select now stamp maxAge recovery s).
  { intros o -> [= <- <-]. now destruct (select now stamp maxAge recovery s). }
  destruct (negb recovery); [now apply (D _ eq_refl)|].
  destruct (fetch_plans s (search_running s)) as [plans|]; [|discriminate H].
  destruct budget as [k|]; [|now apply (D _ eq_refl)].
  destruct (Nat.leb k (length plans)); [discriminate H|].
  destruct (Nat.ltb _ _); [discriminate H|now apply (D _ eq_refl)].
Qed.

Lemma execute_new_refused budget now stamp maxAge recovery s s' :
  execute_new budget now stamp maxAge recovery s = Refused s' ->
  recovery = true /\ exists j, s' = crash_during_close j now stamp maxAge s.
Proof.
  unfold execute_new. intros H.
  destruct recovery; cbn [negb] in H; [|discriminate H]. split; [reflexivity|].
  destruct (fetch_plans s (search_running s)) as [plans|] eqn:Ef.
  - destruct budget as [k|]; [|discriminate H].
    destruct (Nat.leb k (length plans)).
    + injection H as <-. exists 0%nat. reflexivity.
    + destruct (Nat.ltb _ _); [|discriminate H]. injection H as <-. eexists. reflexivity.
  - injection H as <-. exists 0%nat. reflexivity.
Qed.

Lemma execute_new_all_succeed now stamp maxAge recovery s :
  keys_unique s ->
  execute_new None now stamp maxAge recovery s =
  Opened (fst (select now stamp maxAge recovery s)) (snd (select now stamp maxAge recovery s)).
Proof.
  intros Hk. unfold execute_new. destruct recovery; cbn [negb]; [|reflexivity].
  assert (Hnd := keys_unique_pids s Hk).
  unfold search_running. rewrite (fetch_ok s Hnd) by (intros p Hp; now apply filter_In in Hp). reflexivity.
Qed.

Lemma new_error_or_complete_recovery :
  forall (budget : option nat) (now stamp maxAge : Z) (recovery : bool) (s : list plan),
    (forall s' resumed, execute_new budget now stamp maxAge recovery s = Opened s' resumed ->
                        (s', resumed) = select now stamp maxAge recovery s) /\
    (forall s', execute_new budget now stamp maxAge recovery s = Refused s' ->
                recovery = true /\ exists j, s' = crash_during_close j now stamp maxAge s) /\
    (budget = None -> keys_unique s ->
     execute_new budget now stamp maxAge recovery s =
     Opened (fst (select now stamp maxAge recovery s)) (snd (select now stamp maxAge recovery s))).
Proof.
  intros. split; [|split].
  - intros s' r. apply execute_new_opened.
  - intros s'. apply execute_new_refused.
  - intros ->. apply execute_new_all_succeed.
Qed.
