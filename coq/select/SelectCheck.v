(* Correspondence check and property monitor for C11 (no proofs here).

   A case is one store handed to the real coercion.New:
     k_t0, k_t1   wall clock just before / just after coercion.New (the filter's time.Now() and every
                  end stamp of an aged plan lie in [k_t0, k_t1])
     k_maxage     the configured WithMaxLastUpdate (the default 30 min when the option is not passed)
     k_recovery   false = WithNoRecovery was passed
     k_store      every plan of the store as Read returned it before coercion.New
     k_obs        per plan (same order), after New returned and every resumed plan finished or hit the
                  deadline: whether everything but states/reason is identical to before (compared by the
                  harness on its own rendering), the stored reason, the State of every object in walk
                  order (harness's own traversal), the number of plugin calls carrying the plan's nonce,
                  the number of Update* calls on objects of the plan that the vault saw. *)
From Coercion.Base Require Import Plan.
From Coercion.Select Require Import Rows Select SelectSpec.

(* o_order: which rows of the plan (positions in walk order, 0 = the plan row) the Update* calls the vault
            saw for this plan rewrote, in the order of the calls (cut off after twice the plan's size) *)
Record pobs := { o_same : bool; o_reason : reason; o_states : list (option state);
                 o_calls : nat; o_writes : nat; o_order : list nat }.

(* k_vault: 0 = the Vault does not implement storage.Recovery; 1 = it does, and Recovery() was called
            before any Search / Read / Update*; 2 = it does, but it was used before Recovery() had run
            (or Recovery() was never called)
   k_stale: ids its search index lists as Running although the plan rows are terminal, until Recovery() *)
Record rcase := { k_t0 : Z; k_t1 : Z; k_maxage : Z; k_recovery : bool;
                 k_store : list plan; k_obs : list pobs; k_vault : nat; k_stale : list N;
                 k_crash : nat; k_t2 : Z; k_t3 : Z; k_ctx : nat; k_err : bool }.
(* k_ctx: the context handed to coercion.New: 0 = live, 1 = cancelled before the call, 2 = its deadline had
          passed.  k_err: coercion.New returned an error (and no Workstream). *)
(* k_crash = j > 0: "crash during the close".  A first incarnation ran coercion.New on k_store during
   [k_t0, k_t1] through a vault that let only the first j Update* calls through (the process died after
   the j-th write of start-up recovery); a second incarnation then ran coercion.New on what that left,
   normally, during [k_t2, k_t3].  k_obs is the store after the second incarnation; o_calls counts both
   incarnations, o_writes / o_order the second.  k_crash = 0: one incarnation, k_t2 = k_t0, k_t3 = k_t1. *)

Fixpoint list_eqb {A} (eqb : A -> A -> bool) (a b : list A) : bool :=
  match a, b with
  | [], [] => true
  | x :: a', y :: b' => eqb x y && list_eqb eqb a' b'
  | _, _ => false
  end.

Definition state_eqb (a b : state) : bool :=
  status_eqb (s_status a) (s_status b) && Z.eqb (s_start a) (s_start b) && Z.eqb (s_end a) (s_end b).

Definition ostate_eqb (a b : option state) : bool :=
  match a, b with
  | Some x, Some y => state_eqb x y
  | None, None => true
  | _, _ => false
  end.

(* The only clock reading start-up recovery writes is the End of the PLAN row of a plan it closes
   (plan.State.End = time.Now(); since f93b03f the closed children end at lastUpdate(plan), a stamp that
   was already in the store and is compared exactly).  An End of the plan row that lies in [k_t0, k_t1]
   and differs from the one before is represented by k_t0, which is the model's [stamp]. *)
Definition norm_end (t0 t1 : Z) (before st : option state) : option state :=
  match st with
  | Some s =>
      let same := match before with Some b => Z.eqb (s_end b) (s_end s) | None => false end in
      if Z.leb t0 (s_end s) && Z.leb (s_end s) t1 && negb same then Some (set_end t0 s) else Some s
  | None => None
  end.

(* [before], [obs]: the states of a plan in walk order; the plan row is the first *)
Definition norm_states (t0 t1 : Z) (before obs : list (option state)) : list (option state) :=
  match before, obs with
  | b :: _, o :: obs' => norm_end t0 t1 b o :: obs'
  | _, _ => obs
  end.

Definition is_in (id : N) (l : list N) : bool := existsb (N.eqb id) l.

(* ---- model = implementation?  0 = yes
     1 post-state (states / reason) of a plan that is not resumed differs from the model's
     2 plugin called for a plan the model does not resume
     3 a plan the model resumes shows no activity (no plugin call, no write)
     4 writes to a plan the model leaves untouched
     5 something other than states / reason changed in a plan that is not resumed
     6 observation list and store have different lengths
     7 a plan the model resumes was closed with reason ExceedRecovery instead
     8 the Vault implements storage.Recovery but was used before Recovery() had been called
     9 the decision differs between now = k_t0 and now = k_t1 (inconclusive: New took too long)
    10 the Update* calls that closed an aged plan are not the model's write list (every row but the plan's in
       walk order, then the plan row) *)
(* the stored reason became ExceedRecovery: only start-up recovery's agedOut writes that reason *)
Definition closed_by_recovery (p : plan) (o : pobs) : bool :=
  reason_eqb (o_reason o) FRExceedRecovery && negb (reason_eqb (p_reason p) FRExceedRecovery).

Definition head_failed (l : list (option state)) : bool :=
  match l with Some s :: _ => status_eqb (s_status s) Failed | _ => false end.

(* ... or, where the stored reason cannot be told (a tree on which Read drops it): the plan is Failed with
   no reason, no plugin ran, and the vault saw at most one write per object - a run of the engine calls
   a plugin or ends with more writes than that, and records a reason when it fails a plan *)
Definition aged_like (p : plan) (o : pobs) : bool :=
  head_failed (o_states o) && Nat.eqb (o_calls o) 0 && Nat.ltb 0 (o_writes o)
  && Nat.leb (o_writes o) (length (rows_plan p)) && reason_eqb (o_reason o) FRUnknown.

(* p0: the plan before the first incarnation; p: before the (last) incarnation that was observed;
   p': the model's plan after it *)
Definition plan_code (c : rcase) (resumed : list N) (p0 p p' : plan) (o : pobs) : nat :=
  let seen := norm_states (k_t2 c) (k_t3 c) (map row_state (rows_plan p))
                (norm_states (k_t0 c) (k_t1 c) (map row_state (rows_plan p0)) (o_states o)) in
  let touched := negb (list_eqb ostate_eqb (map row_state (rows_plan p')) (map row_state (rows_plan p))
                       && reason_eqb (p_reason p') (p_reason p)) in
  if is_in (pid p) resumed then
    (if closed_by_recovery p o || aged_like p o then 7
     else if Nat.ltb 0 (o_calls o + o_writes o) then 0 else 3)
  else if negb (o_same o) then 5
  else if negb (list_eqb ostate_eqb (map row_state (rows_plan p')) seen
                && reason_eqb (p_reason p') (o_reason o)) then 1
  else if Nat.ltb 0 (o_calls o) then 2
  else if negb touched && Nat.ltb 0 (o_writes o) then 4
  else if touched && negb (list_eqb Nat.eqb (o_order o) (seq 1 (length (rows_plan p) - 1) ++ [0])) then 10
  else 0.

Fixpoint first_code (c : rcase) (resumed : list N) (i : nat) (s0 s s' : list plan) (os : list pobs) : nat * nat :=
  match s0, s, s', os with
  | [], [], [], [] => (0, 0)
  | p0 :: s0, p :: s, p' :: s', o :: os =>
      match plan_code c resumed p0 p p' o with
      | 0 => first_code c resumed (S i) s0 s s' os
      | n => (n, i)
      end
  | _, _, _, _ => (6, i)
  end.

(* New returned an error: nothing may have been resumed, and the store must be what some prefix of the
   closes' writes left (execute_new ... = Refused (crash_during_close j ...)).
   11 = an error although the context was live and no store operation fails
   12 = an error, but the store is not a prefix of the close / something ran *)
Definition refused_code (c : rcase) : nat * nat :=
  if Nat.eqb (k_ctx c) 0 then (11, 0) else
  let ws := close_writes (k_t0 c) (k_t0 c) (k_maxage c) (k_store c) in
  if existsb (fun j => match first_code c [] 0 (k_store c) (k_store c) (persist (k_store c) (firstn j ws)) (k_obs c) with
                       | (0, _) => true | _ => false end) (seq 0 (S (length ws)))
  then (0, 0) else (12, 0).

Definition model_code (c : rcase) : nat * nat :=
  if k_err c then refused_code c else
  let impl := negb (Nat.eqb (k_vault c) 0) in
  (* the store the observed incarnation started from *)
  let s1 := match k_crash c with
            | 0 => k_store c
            | j => if k_recovery c then crash_during_close j (k_t0 c) (k_t0 c) (k_maxage c) (k_store c)
                   else k_store c
            end in
  let v := {| v_plans := s1; v_stale := k_stale c |} in
  let r0 := open_workstream (k_t2 c) (k_t2 c) (k_maxage c) (k_recovery c) impl v in
  let r1 := open_workstream (k_t3 c) (k_t2 c) (k_maxage c) (k_recovery c) impl v in
  if negb (list_eqb N.eqb (snd r0) (snd r1)) then (9, 0)
  else match first_code c (snd r0) 0 (k_store c) s1 (fst r0) (k_obs c) with
       | (0, _) => if Nat.eqb (k_vault c) 2 then (8, 0) else (0, 0)
       | r => r
       end.

(* ---- the property itself, evaluated on what the implementation did
        (Running / stale as SelectSpec defines them) ---- *)
Definition unchanged (p : plan) (o : pobs) : bool :=
  o_same o && list_eqb ostate_eqb (map row_state (rows_plan p)) (o_states o) && reason_eqb (p_reason p) (o_reason o).

Definition not_running (st : option state) : bool :=
  match st with Some s => negb (status_eqb (s_status s) Running) | None => true end.

(*   1 = the property holds of this plan, 0 = it does not
     - recovery disabled, or the plan is not durably Running: identical afterwards, no plugin call, no write
     - Running and stale (at k_t0 already): Failed / ExceedRecovery, nothing Running, no plugin call,
       nothing but states and reason changed
     - Running and live (at k_t1 still): resumed, and not closed as ExceedRecovery
     - the boundary falls inside [k_t0, k_t1]: no verdict *)
Definition last_is_0 (l : list nat) : bool := match rev l with 0 :: _ => true | _ => false end.

(*   - crash during the close (k_crash > 0): after the second incarnation the FULL clause holds: Failed /
       ExceedRecovery, nothing Running, never executed (R10) *)
Definition mon_plan (c : rcase) (p : plan) (o : pobs) : bool :=
  if k_err c && is_runningb p then Nat.eqb (o_calls o) 0      (* New refused: nothing is executed *)
  else if negb (k_recovery c) || negb (is_runningb p) then
    unchanged p o && Nat.eqb (o_calls o) 0 && Nat.eqb (o_writes o) 0
  else if is_staleb (k_t0 c) (k_maxage c) p then
    o_same o && reason_eqb (o_reason o) FRExceedRecovery && head_failed (o_states o)
    && Nat.eqb (o_calls o) 0
    && forallb not_running (o_states o)
    && (match k_crash c with
        | 0 => last_is_0 (o_order o)        (* the plan row is the last write of the close *)
        | _ => true                         (* closed by the first incarnation, the second, or both *)
        end)
  else if negb (is_staleb (k_t1 c) (k_maxage c) p) then
    Nat.ltb 0 (o_calls o + o_writes o) && negb (closed_by_recovery p o || aged_like p o)
  else true.

Fixpoint mon_all (c : rcase) (s : list plan) (os : list pobs) : bool :=
  match s, os with
  | [], [] => true
  | p :: s, o :: os => mon_plan c p o && mon_all c s os
  | _, _ => false
  end.

(* ... and a Vault that must be recovered before use was recovered before use *)
Definition monitor (c : rcase) : bool := mon_all c (k_store c) (k_obs c) && negb (Nat.eqb (k_vault c) 2).

(* [code; index of the first offending plan; 1 if the property monitor is true on the observation] *)
Definition check_rcase (c : rcase) : list nat :=
  let (n, i) := model_code c in [n; i; if monitor c then 1 else 0].

Definition rcase_ok (c : rcase) : bool :=
  let (n, _) := model_code c in (Nat.eqb n 0 || Nat.eqb n 9) && monitor c.

(* ---- what the harness hands over: one store and the runs made on (fresh copies of) it - one run for an
   ordinary store, one per crash point j for the family "crash during the close" - so that the store is
   written out once ---- *)
Record run := { r_t0 : Z; r_t1 : Z; r_obs : list pobs; r_vault : nat; r_crash : nat; r_t2 : Z; r_t3 : Z;
                r_ctx : nat; r_err : bool }.
Record case := { w_maxage : Z; w_recovery : bool; w_store : list plan; w_stale : list N; w_runs : list run }.

Definition rcase_of (c : case) (r : run) : rcase :=
  {| k_t0 := r_t0 r; k_t1 := r_t1 r; k_maxage := w_maxage c; k_recovery := w_recovery c;
     k_store := w_store c; k_obs := r_obs r; k_vault := r_vault r; k_stale := w_stale c;
     k_crash := r_crash r; k_t2 := r_t2 r; k_t3 := r_t3 r; k_ctx := r_ctx r; k_err := r_err r |}.

(* three numbers per run, in the order of the runs *)
Definition check_case (c : case) : list nat := flat_map (fun r => check_rcase (rcase_of c r)) (w_runs c).
Definition case_ok (c : case) : bool := forallb (fun r => rcase_ok (rcase_of c r)) (w_runs c).
