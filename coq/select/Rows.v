(* The durable store as the recovery code sees it (no proofs here).

   A store is a list of plans (Coercion.Base.Plan).  The sqlite and cosmosdb vaults keep one row per
   object (plans / checks / blocks / sequences / actions tables, primary key = the object's id), and the
   five Update* calls of storage.Updater each rewrite the mutable columns of ONE row, selected by id:

     UpdatePlan     reason, state_status, state_start, state_end      WHERE id = plan.ID
     UpdateChecks   state_*                                           WHERE id = checks.ID
     UpdateBlock    state_*                                           WHERE id = block.ID
     UpdateSequence state_*                                           WHERE id = sequence.ID
     UpdateAction   attempts, state_*                                 WHERE id = action.ID

   [row] is such a row image (what an Update* call carries), [rows_plan p] the rows of a plan in the
   order walk.Plan visits the objects, and [tm_plan G p] rewrites the mutable columns of every object of
   p with the per-table functions of G (a [gmap]), leaving everything else alone.  Both the in-memory
   marking done by runningToFailed and the effect of an Update* call on the store are instances of
   [tm_plan]. *)
From Coercion.Base Require Import Plan.

Definition oid (u : uid) : N := u_ix u.

Inductive row :=
| RPlan (id : N) (st : option state) (rs : reason)
| RChk (id : N) (st : option state)
| RBlk (id : N) (st : option state)
| RSeq (id : N) (st : option state)
| RAct (id : N) (att : option (list attempt)) (st : option state).

Definition row_state (r : row) : option state :=
  match r with
  | RPlan _ st _ | RChk _ st | RBlk _ st | RSeq _ st | RAct _ _ st => st
  end.

Definition row_id (r : row) : N :=
  match r with
  | RPlan id _ _ | RChk id _ | RBlk id _ | RSeq id _ | RAct id _ _ => id
  end.

(* table + primary key *)
Definition key_eqb (a b : row) : bool :=
  match a, b with
  | RPlan i _ _, RPlan j _ _ | RChk i _, RChk j _ | RBlk i _, RBlk j _
  | RSeq i _, RSeq j _ | RAct i _ _, RAct j _ _ => N.eqb i j
  | _, _ => false
  end.

Inductive table := TPlan | TChk | TBlk | TSeq | TAct.
Definition row_key (r : row) : table * N :=
  match r with
  | RPlan i _ _ => (TPlan, i) | RChk i _ => (TChk, i) | RBlk i _ => (TBlk, i)
  | RSeq i _ => (TSeq, i) | RAct i _ _ => (TAct, i)
  end.

(* ---- rebuilding a node with new mutable columns ---- *)
Definition action_with (a : action) (att : option (list attempt)) (st : option state) : action :=
  {| a_id := a_id a; a_key := a_key a; a_name := a_name a; a_descr := a_descr a; a_plugin := a_plugin a;
     a_timeout := a_timeout a; a_retries := a_retries a; a_req := a_req a;
     a_attempts := att; a_state := st; a_plugreg := a_plugreg a |}.

Definition checks_with (c : checks) (acts : option (list (option action))) (st : option state) : checks :=
  {| c_id := c_id c; c_key := c_key c; c_delay := c_delay c; c_actions := acts; c_state := st |}.

Definition seq_with (q : sequence) (acts : option (list (option action))) (st : option state) : sequence :=
  {| q_id := q_id q; q_key := q_key q; q_name := q_name q; q_descr := q_descr q;
     q_actions := acts; q_state := st |}.

Definition block_with (b : block) (by_ pre cont post def : option checks)
           (seqs : option (list (option sequence))) (st : option state) : block :=
  {| b_id := b_id b; b_key := b_key b; b_name := b_name b; b_descr := b_descr b;
     b_entrance := b_entrance b; b_exit := b_exit b;
     b_bypass := by_; b_pre := pre; b_cont := cont; b_post := post; b_deferred := def;
     b_seqs := seqs; b_conc := b_conc b; b_tol := b_tol b; b_state := st |}.

Definition plan_with (p : plan) (by_ pre cont post def : option checks)
           (blocks : option (list (option block))) (st : option state) (rs : reason) : plan :=
  {| p_id := p_id p; p_group := p_group p; p_name := p_name p; p_descr := p_descr p; p_meta := p_meta p;
     p_bypass := by_; p_pre := pre; p_cont := cont; p_post := post; p_deferred := def;
     p_blocks := blocks; p_state := st; p_submit := p_submit p; p_reason := rs |}.

(* slices: None = nil slice, element None = nil pointer (neither occurs in a plan read from a vault) *)
Definition omap_list {A} (f : A -> A) (l : option (list (option A))) : option (list (option A)) :=
  option_map (map (option_map f)) l.

Definition oflat {A} (rf : A -> list row) (x : option A) : list row :=
  match x with None => [] | Some x => rf x end.

Definition orows {A} (rf : A -> list row) (l : option (list (option A))) : list row :=
  match l with None => [] | Some l => flat_map (oflat rf) l end.

(* ---- per-table rewriting functions ---- *)
Record gmap := {
  g_plan : N -> option state * reason -> option state * reason;
  g_chk : N -> option state -> option state;
  g_blk : N -> option state -> option state;
  g_seq : N -> option state -> option state;
  g_act : N -> option (list attempt) * option state -> option (list attempt) * option state }.

Definition gid : gmap :=
  {| g_plan := fun _ x => x; g_chk := fun _ x => x; g_blk := fun _ x => x;
     g_seq := fun _ x => x; g_act := fun _ x => x |}.

Definition gcomp (F G : gmap) : gmap :=
  {| g_plan := fun i x => g_plan F i (g_plan G i x);
     g_chk := fun i x => g_chk F i (g_chk G i x);
     g_blk := fun i x => g_blk F i (g_blk G i x);
     g_seq := fun i x => g_seq F i (g_seq G i x);
     g_act := fun i x => g_act F i (g_act G i x) |}.

Definition gapp (G : gmap) (r : row) : row :=
  match r with
  | RPlan i st rs => let x := g_plan G i (st, rs) in RPlan i (fst x) (snd x)
  | RChk i st => RChk i (g_chk G i st)
  | RBlk i st => RBlk i (g_blk G i st)
  | RSeq i st => RSeq i (g_seq G i st)
  | RAct i att st => let x := g_act G i (att, st) in RAct i (fst x) (snd x)
  end.

Definition tm_action (G : gmap) (a : action) : action :=
  let x := g_act G (oid (a_id a)) (a_attempts a, a_state a) in action_with a (fst x) (snd x).

Definition tm_checks (G : gmap) (c : checks) : checks :=
  checks_with c (omap_list (tm_action G) (c_actions c)) (g_chk G (oid (c_id c)) (c_state c)).

Definition tm_seq (G : gmap) (q : sequence) : sequence :=
  seq_with q (omap_list (tm_action G) (q_actions q)) (g_seq G (oid (q_id q)) (q_state q)).

Definition tm_block (G : gmap) (b : block) : block :=
  block_with b (option_map (tm_checks G) (b_bypass b)) (option_map (tm_checks G) (b_pre b))
             (option_map (tm_checks G) (b_cont b)) (option_map (tm_checks G) (b_post b))
             (option_map (tm_checks G) (b_deferred b))
             (omap_list (tm_seq G) (b_seqs b)) (g_blk G (oid (b_id b)) (b_state b)).

Definition tm_plan (G : gmap) (p : plan) : plan :=
  let x := g_plan G (oid (p_id p)) (p_state p, p_reason p) in
  plan_with p (option_map (tm_checks G) (p_bypass p)) (option_map (tm_checks G) (p_pre p))
            (option_map (tm_checks G) (p_cont p)) (option_map (tm_checks G) (p_post p))
            (option_map (tm_checks G) (p_deferred p))
            (omap_list (tm_block G) (p_blocks p)) (fst x) (snd x).

(* ---- the rows of a plan, in the order of walk.Plan:
        plan; bypass, pre, cont; blocks; post; deferred
        block; bypass, pre, cont; sequences; post; deferred
        a group / a sequence before its actions ---- *)
Definition rows_action (a : action) : list row := [RAct (oid (a_id a)) (a_attempts a) (a_state a)].

Definition rows_checks (c : checks) : list row :=
  RChk (oid (c_id c)) (c_state c) :: orows rows_action (c_actions c).

Definition rows_seq (q : sequence) : list row :=
  RSeq (oid (q_id q)) (q_state q) :: orows rows_action (q_actions q).

Definition rows_block (b : block) : list row :=
  RBlk (oid (b_id b)) (b_state b) ::
  oflat rows_checks (b_bypass b) ++ oflat rows_checks (b_pre b) ++ oflat rows_checks (b_cont b) ++
  orows rows_seq (b_seqs b) ++ oflat rows_checks (b_post b) ++ oflat rows_checks (b_deferred b).

Definition rows_plan (p : plan) : list row :=
  RPlan (oid (p_id p)) (p_state p) (p_reason p) ::
  oflat rows_checks (p_bypass p) ++ oflat rows_checks (p_pre p) ++ oflat rows_checks (p_cont p) ++
  orows rows_block (p_blocks p) ++ oflat rows_checks (p_post p) ++ oflat rows_checks (p_deferred p).

Definition pid (p : plan) : N := oid (p_id p).

Definition store := list plan.
Definition rows_store (s : store) : list row := flat_map rows_plan s.

(* the primary keys of the store: no two rows of the same table carry the same id *)
Definition keys_unique (s : store) : Prop := NoDup (map row_key (rows_store s)).
