(* Model of internal/execute/recovery.go (recover.start / fetchPlans / filterPlans / agedOut / done,
   lastUpdate, runningToFailed) and of the part of internal/execute/execute.go that calls it
   (New: `if e.recovery { e.recover(ctx) }`; recover: runPlan for every plan the state chain left in
   req.Data.plans).  No proofs here.

   Time.  A time.Time is a Z as in Base.Plan: Unix nanoseconds, 0 = the zero time.  Go's zero time is
   January 1, year 1 (Unix second -62135596800), so comparisons go through [inst]. *)
From Coercion.Base Require Import Plan.
From Coercion.Select Require Import Rows.

Definition year1 : Z := (-62135596800000000000)%Z.
Definition inst (t : Z) : Z := if Z.eqb t 0 then year1 else t.
Definition t_after (a b : Z) : bool := Z.ltb (inst b) (inst a).      (* a.After(b) *)

(* ---- lastUpdate (since fix d8f84b2, R4):
     last := time.Time{}
     for item := range walk.Plan(p) {
        state := item.Value.(stater).GetState()
        if state.Start.After(last) { last = state.Start }
        if state.End.After(last)   { last = state.End }
        if action, ok := item.Value.( *workflow.Action ); ok {
           for _, attempt := range action.Attempts {
              if attempt.Start.After(last) { last = attempt.Start }
              if attempt.End.After(last)   { last = attempt.End } } } }
   It looks at the State of the plan, of every checks group, block, sequence and action, and at every
   attempt of every action (sequence actions and check actions).  (A nil State would panic; a plan read
   from a vault has none.) *)
Definition upd_time (last t : Z) : Z := if t_after t last then t else last.

Definition upd_last (last : Z) (st : option state) : Z :=
  match st with
  | None => last
  | Some s => upd_time (upd_time last (s_start s)) (s_end s)
  end.

Definition upd_attempt (last : Z) (a : attempt) : Z := upd_time (upd_time last (at_start a)) (at_end a).

Definition row_attempts (r : row) : list attempt :=
  match r with RAct _ (Some l) _ => l | _ => [] end.

Definition upd_row (last : Z) (r : row) : Z :=
  fold_left upd_attempt (row_attempts r) (upd_last last (row_state r)).

Definition last_update (p : plan) : Z := fold_left upd_row (rows_plan p) 0%Z.

(* filterPlans:  lastUpdate(plan).Add(r.maxAge).Before(now)   (strict) *)
Definition stale (now maxAge : Z) (p : plan) : bool :=
  Z.ltb (inst (last_update p) + maxAge) (inst now).

(* ---- runningToFailed:
     p.State.End = time.Now()
     for item := range walk.Plan(p) { state := ...GetState()
        if state.Status == workflow.Running { state.Status = workflow.Failed; state.End = time.Now() } }
   Every time.Now() taken while a plan is aged out is represented by the one value [stamp]. *)
Definition set_status (x : status) (s : state) : state :=
  {| s_status := x; s_start := s_start s; s_end := s_end s |}.
Definition set_end (t : Z) (s : state) : state :=
  {| s_status := s_status s; s_start := s_start s; s_end := t |}.

Definition fail_running (stamp : Z) (s : state) : state :=
  match s_status s with
  | Running => set_end stamp (set_status Failed s)
  | _ => s
  end.

Definition g_rtf (stamp : Z) : gmap :=
  {| g_plan := fun _ x => (option_map (fail_running stamp) (fst x), snd x);
     g_chk := fun _ st => option_map (fail_running stamp) st;
     g_blk := fun _ st => option_map (fail_running stamp) st;
     g_seq := fun _ st => option_map (fail_running stamp) st;
     g_act := fun _ x => (fst x, option_map (fail_running stamp) (snd x)) |}.

Definition plan_set (p : plan) (st : option state) (rs : reason) : plan :=
  plan_with p (p_bypass p) (p_pre p) (p_cont p) (p_post p) (p_deferred p) (p_blocks p) st rs.

(* runningToFailed(ctx, p, end): every Running object becomes Failed and ends at [end_] *)
Definition running_to_failed (end_ : Z) (p : plan) : plan := tm_plan (g_rtf end_) p.

(* agedOut, in memory (since fix f93b03f, R10):
     last := lastUpdate(ctx, plan)                       -- BEFORE anything is changed
     plan.State.Status = workflow.Failed; plan.Reason = workflow.FRExceedRecovery
     runningToFailed(ctx, plan, last)                    -- the interrupted objects end at [last], not now
     plan.State.End = time.Now()
   [stamp] is that time.Now(). *)
Definition age_out (stamp : Z) (p : plan) : plan :=
  let last := last_update p in
  let p := plan_set p (option_map (set_status Failed) (p_state p)) (p_reason p) in
  let p := plan_set p (p_state p) FRExceedRecovery in
  let p := running_to_failed last p in
  plan_set p (option_map (set_end stamp) (p_state p)) (p_reason p).

(* ---- the store: Update* rewrites the row with the same table and id ---- *)
Definition g_write (w : row) : gmap :=
  match w with
  | RPlan id st rs => {| g_plan := fun i x => if N.eqb i id then (st, rs) else x;
                         g_chk := fun _ x => x; g_blk := fun _ x => x; g_seq := fun _ x => x;
                         g_act := fun _ x => x |}
  | RChk id st => {| g_plan := fun _ x => x; g_chk := fun i x => if N.eqb i id then st else x;
                     g_blk := fun _ x => x; g_seq := fun _ x => x; g_act := fun _ x => x |}
  | RBlk id st => {| g_plan := fun _ x => x; g_chk := fun _ x => x;
                     g_blk := fun i x => if N.eqb i id then st else x;
                     g_seq := fun _ x => x; g_act := fun _ x => x |}
  | RSeq id st => {| g_plan := fun _ x => x; g_chk := fun _ x => x; g_blk := fun _ x => x;
                     g_seq := fun i x => if N.eqb i id then st else x; g_act := fun _ x => x |}
  | RAct id att st => {| g_plan := fun _ x => x; g_chk := fun _ x => x; g_blk := fun _ x => x;
                         g_seq := fun _ x => x;
                         g_act := fun i x => if N.eqb i id then (att, st) else x |}
  end.

Definition apply_write (s : store) (w : row) : store := map (tm_plan (g_write w)) s.
Definition persist (s : store) (ws : list row) : store := fold_left apply_write ws s.

(* agedOut, durable part (since fix f93b03f, R10):
     for item := range walk.Plan(plan) { switch type: Block -> UpdateBlock, Check -> UpdateChecks,
                                         Sequence -> UpdateSequence, Action -> UpdateAction }
     r.store.UpdatePlan(plan)
   i.e. the row of every object but the plan in walk order (the plan item of the walk has no case in the
   switch), and the plan row LAST: as long as the plan row is Running the next start-up finds the plan
   again, finds it stale again (the closed objects end at its last recorded activity) and repeats the
   close.  Before that fix the plan row came first ([writes_plan_first]); before 7ff23c2 it was the plan
   row alone ([writes_plan_only]). *)
Definition plan_row (pm : plan) : row := RPlan (oid (p_id pm)) (p_state pm) (p_reason pm).

Definition writes_aged (pm : plan) : list row := tl (rows_plan pm) ++ [plan_row pm].

Definition writes_plan_first (pm : plan) : list row := rows_plan pm.

Definition writes_plan_only (pm : plan) : list row := [plan_row pm].

Definition aged_out (stamp : Z) (aged : list plan) (s : store) : store :=
  fold_left (fun s p => persist s (writes_aged (age_out stamp p))) aged s.

(* ---- start: Search(ByStatus: Running) -> ids; fetchPlans: Read(id) for each ---- *)
Definition durably_running (p : plan) : bool :=
  match p_state p with Some s => status_eqb (s_status s) Running | None => false end.

Definition search_running (s : store) : list N := map pid (filter durably_running s).

Definition read (s : store) (id : N) : option plan := find (fun p => N.eqb (pid p) id) s.

Fixpoint fetch_plans (s : store) (ids : list N) : option (list plan) :=
  match ids with
  | [] => Some []
  | id :: r => match read s id, fetch_plans s r with
               | Some p, Some ps => Some (p :: ps)
               | _, _ => None             (* req.Err: the state chain stops, recover returns the error *)
               end
  end.

(* ---- execute.New with its options, as far as C11 is concerned:
     recovery = false (WithNoRecovery): recover is not called.
     Otherwise: start, fetchPlans, filterPlans (split by [stale]), agedOut, done; then
     `for _, plan := range req.Data.plans { e.runPlan(ctx, plan) }`: the result's second component is the
     list of ids handed to runPlan (each gets a waiter, which is how Wait learns the id, and is run from
     sm.Recovery because its status is Running). *)
(* the state chain from fetchPlans on, for the ids Search returned *)
Definition select_from (now stamp maxAge : Z) (s : store) (ids : list N) : store * list N :=
  match fetch_plans s ids with
  | None => (s, [])
  | Some plans =>
      let aged := filter (stale now maxAge) plans in
      let live := filter (fun p => negb (stale now maxAge p)) plans in
      (aged_out stamp aged s, map pid live)
  end.

Definition select (now stamp maxAge : Z) (recovery : bool) (s : store) : store * list N :=
  if recovery then select_from now stamp maxAge s (search_running s) else (s, []).

(* ---- back ends with a separate search index (storage.Recovery) ----
   A Vault may keep a search index that is not written atomically with the plan rows (cosmosdb): after a
   crash the index can still list as Running a plan whose row is already terminal.  Such a Vault
   implements storage.Recovery, "a Vault that must do some recovery operation before it can be used after
   a failure"; its Recovery() repairs the index.  coercion.New:
       if r, ok := store.(storage.Recovery); ok { r.Recovery(ctx) }      -- FIRST
       ... exec, err := execute.New(ctx, store, reg, ws.execOptions...)   -- recovery of plans
   [v_stale] are the ids of such stale index entries; Search(Running) on the unrepaired Vault returns them
   after the genuinely Running plans.  filterPlans / agedOut / runPlan do not look at the status of what
   Search returned: an entry that gets that far is aged out or run (from sm.Start, its status not being
   Running). *)
Record vault := { v_plans : store; v_stale : list N }.

Definition repair_index (v : vault) : vault := {| v_plans := v_plans v; v_stale := [] |}.

Definition search_index (v : vault) : list N := search_running (v_plans v) ++ v_stale v.

Definition select_vault (now stamp maxAge : Z) (recovery : bool) (v : vault) : store * list N :=
  if recovery then select_from now stamp maxAge (v_plans v) (search_index v) else (v_plans v, []).

(* coercion.New on a Vault; [implements] = the Vault implements storage.Recovery *)
Definition open_workstream (now stamp maxAge : Z) (recovery implements : bool) (v : vault) : store * list N :=
  select_vault now stamp maxAge recovery (if implements then repair_index v else v).

(* the seeded change C11-d: Recovery() only after execute.New *)
Definition open_workstream_late (now stamp maxAge : Z) (recovery : bool) (v : vault) : store * list N :=
  select_vault now stamp maxAge recovery v.

(* ---- a crash during the close ----
   The Update* calls start-up recovery makes, in order: for every aged plan (in the order of the state
   chain) its close, plan row last.  [crash_during_close j] is the durable store a process leaves that
   dies after the j-th of them; the next incarnation runs [select] on it. *)
Definition close_writes (now stamp maxAge : Z) (s : store) : list row :=
  match fetch_plans s (search_running s) with
  | None => []
  | Some plans => flat_map (fun p => writes_aged (age_out stamp p)) (filter (stale now maxAge) plans)
  end.

Definition crash_during_close (j : nat) (now stamp maxAge : Z) (s : store) : store :=
  persist s (firstn j (close_writes now stamp maxAge s)).

(* ---- execute.New and a recovery that fails (since fix 2c25a0f, R8) ----
       if e.recovery { if err := e.recover(ctx); err != nil { return nil, err } }
   recover's state chain stops at the first store operation that returns an error (Search, a Read, an
   Update* of the close - or all of them when the context handed to New is already done): New then returns
   the error and NO executor, so nothing is resumed by this process; what it leaves in the store is what
   the Update* calls made so far wrote.  [budget] = how many store operations of recovery succeed before
   one fails (None: all succeed): 1 Search, one Read per Running plan, then the writes of the closes. *)
Inductive outcome :=
| Opened (s' : store) (resumed : list N)      (* nil error: a Workstream exists, these ids were handed to runPlan *)
| Refused (s' : store).                        (* error: no Workstream, nothing resumed *)

Definition execute_new (budget : option nat) (now stamp maxAge : Z) (recovery : bool) (s : store) : outcome :=
  let done := Opened (fst (select now stamp maxAge recovery s)) (snd (select now stamp maxAge recovery s)) in
  if negb recovery then done else
  match fetch_plans s (search_running s) with
  | None => Refused s
  | Some plans =>
      match budget with
      | None => done
      | Some k =>
          if Nat.leb k (length plans) then Refused s                      (* Search or a Read failed *)
          else let j := (k - 1 - length plans)%nat in
               if Nat.ltb j (length (close_writes now stamp maxAge s))
               then Refused (crash_during_close j now stamp maxAge s)      (* the (j+1)-th write of a close failed *)
               else done
      end
  end.

(* ---- candidate R9 (not repaired): a search index that does NOT list a durably Running plan ----
   cosmosdb UpdatePlan patches the plan item and then replaces the search entry; torn between the two on
   the first write of a run (NotStarted -> Running) the item is Running and the entry still NotStarted.
   Vault.Recovery only looks at entries that say Running, so it does not repair this; [missing] are the
   ids of such plans. *)
Definition search_index_torn (missing : list N) (v : vault) : list N :=
  filter (fun id => negb (existsb (N.eqb id) missing)) (search_running (v_plans v)) ++ v_stale v.

Definition open_workstream_torn (missing : list N) (now stamp maxAge : Z) (v : vault) : store * list N :=
  select_from now stamp maxAge (v_plans v) (search_index_torn missing (repair_index v)).
