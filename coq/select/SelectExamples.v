(* Concrete stores: the hypotheses of the C11 theorems are satisfiable on non-trivial inputs, and the
   model computes what the property says.  Everything here is closed by vm_compute. *)
From Coercion.Base Require Import Plan.
From Coercion.Select Require Import Rows Select SelectSpec SelectProofs CrashProofs.

Definition tk (n : N) : tok := {| t_blank := false; t_empty := false; t_ix := n |}.
Definition ui (n : N) : uid := {| u_ix := n; u_v7 := true |}.
Definition bl (n : N) : blob := {| bl_nil := false; bl_enc := true; bl_ty := 1%N; bl_ix := n |}.
Definition st (x : status) (a b : Z) : option state := Some {| s_status := x; s_start := a; s_end := b |}.

Definition mk_act (id : N) (att : option (list attempt)) (s : option state) : option action :=
  Some {| a_id := ui id; a_key := ui 0; a_name := tk 1; a_descr := tk 2; a_plugin := tk 3;
          a_timeout := 5; a_retries := 1; a_req := bl id; a_attempts := att; a_state := s;
          a_plugreg := Some (false, true) |}.
Definition mk_chk (id : N) (s : option state) (acts : list (option action)) : option checks :=
  Some {| c_id := ui id; c_key := ui 0; c_delay := 0; c_actions := Some acts; c_state := s |}.
Definition mk_seq (id : N) (s : option state) (acts : list (option action)) : option sequence :=
  Some {| q_id := ui id; q_key := ui 0; q_name := tk 4; q_descr := tk 5; q_actions := Some acts; q_state := s |}.
Definition mk_blk (id : N) (s : option state) (pre cont : option checks) (seqs : list (option sequence)) : option block :=
  Some {| b_id := ui id; b_key := ui 0; b_name := tk 6; b_descr := tk 7; b_entrance := 0; b_exit := 0;
          b_bypass := None; b_pre := pre; b_cont := cont; b_post := None; b_deferred := None;
          b_seqs := Some seqs; b_conc := 1; b_tol := 0; b_state := s |}.
Definition mk_plan (id : N) (s : option state) (rs : reason) (pre deferred : option checks)
           (blocks : list (option block)) : plan :=
  {| p_id := ui id; p_group := ui 0; p_name := tk 8; p_descr := tk 9; p_meta := bl 0;
     p_bypass := None; p_pre := pre; p_cont := None; p_post := None; p_deferred := deferred;
     p_blocks := Some blocks; p_state := s; p_submit := 1; p_reason := rs |}.

(* now = 10000, maxAge = 1000: activity at 9000 is exactly maxAge old *)
Definition ex_now : Z := 10000.
Definition ex_stamp : Z := 10001.
Definition ex_maxage : Z := 1000.

(* never started *)
Definition ex_fresh : plan :=
  mk_plan 10 (st NotStarted 0 0) FRUnknown None None
    [mk_blk 11 (st NotStarted 0 0) None None [mk_seq 12 (st NotStarted 0 0) [mk_act 13 None (st NotStarted 0 0)]]].

(* terminal, with a stray Running child (an inconsistent image: still none of recovery's business) *)
Definition ex_done : plan :=
  mk_plan 20 (st Completed 100 200) FRUnknown None None
    [mk_blk 21 (st Completed 100 200) None None
       [mk_seq 22 (st Running 100 0) [mk_act 23 None (st Completed 100 150)]]].

(* Running, last activity at 8999 = one tick older than maxAge: a Running block, sequence, action,
   continuous-check group and check action; a pre-check group already Completed; an old failed attempt *)
Definition ex_aged : plan :=
  mk_plan 30 (st Running 5000 0) FRUnknown
    (mk_chk 31 (st Completed 5000 5100) [mk_act 32 None (st Completed 5000 5100)]) None
    [mk_blk 33 (st Running 5200 0) None
       (mk_chk 34 (st Running 5300 0) [mk_act 35 None (st Running 8999 0)])
       [mk_seq 36 (st Running 5400 0)
          [mk_act 37 (Some [{| at_resp := bl 0; at_err := Some (PErr 1 1 false None); at_start := 5600; at_end := 5700 |}])
                  (st Running 5500 0);
           mk_act 38 None (st NotStarted 0 0)]]].

(* Running, last activity exactly maxAge old (9000, the End of a Completed action): live *)
Definition ex_live : plan :=
  mk_plan 40 (st Running 7000 0) FRUnknown None None
    [mk_blk 41 (st Running 7100 0) None None
       [mk_seq 42 (st Running 7200 0) [mk_act 43 None (st Completed 7300 9000); mk_act 44 None (st Running 8000 0)]]].

(* Running with no recorded time at all: the zero time is older than anything *)
Definition ex_zero : plan :=
  mk_plan 50 (st Running 0 0) FRUnknown None None [mk_blk 51 (st Running 0 0) None None []].

(* Running; every State is older than maxAge, the only recent record is the END OF AN ATTEMPT of an
   action that is being retried (9990): recorded activity, so the plan is live (R4, fixed by d8f84b2) *)
Definition ex_retry : plan :=
  mk_plan 60 (st Running 5000 0) FRUnknown None None
    [mk_blk 61 (st Running 5100 0) None None
       [mk_seq 62 (st Running 5200 0)
          [mk_act 63 (Some [{| at_resp := bl 0; at_err := Some (PErr 1 1 false None); at_start := 9980; at_end := 9990 |}])
                  (st Running 5300 0)]]].

Definition ex_store : list plan := [ex_fresh; ex_done; ex_aged; ex_live; ex_zero; ex_retry].

Fixpoint nodupb (l : list (table * N)) : bool :=
  match l with
  | [] => true
  | (t, i) :: r =>
      negb (existsb (fun k => match t, fst k with
                              | TPlan, TPlan | TChk, TChk | TBlk, TBlk | TSeq, TSeq | TAct, TAct => N.eqb i (snd k)
                              | _, _ => false end) r) && nodupb r
  end.

Lemma nodupb_sound l : nodupb l = true -> NoDup l.
Proof.
  induction l as [|[t i] r IH]; intros H; [constructor|].
  cbn [nodupb] in H. apply andb_true_iff in H as [H1 H2]. constructor; [|now apply IH].
  intros Hin. apply negb_true_iff in H1.
  assert (E : existsb (fun k => match t, fst k with
                              | TPlan, TPlan | TChk, TChk | TBlk, TBlk | TSeq, TSeq | TAct, TAct => N.eqb i (snd k)
                              | _, _ => false end) r = true).
  { apply existsb_exists. exists (t, i). split; [exact Hin|]. destruct t; apply N.eqb_refl. }
  congruence.
Qed.

Example ex_keys_unique : keys_unique ex_store.
Proof. apply nodupb_sound. vm_compute. reflexivity. Qed.

(* the three clauses on one store: the aged plans (30, 50) are closed, the live one (40) is the only one
   resumed, the never-started and the terminal plan are identical afterwards *)
Example ex_select_resumed : snd (select ex_now ex_stamp ex_maxage true ex_store) = [40%N; 60%N].
Proof. vm_compute. reflexivity. Qed.

Example ex_select_store :
  fst (select ex_now ex_stamp ex_maxage true ex_store) =
  [ex_fresh; ex_done; close_of ex_stamp ex_aged; ex_live; close_of ex_stamp ex_zero; ex_retry].
Proof. vm_compute. reflexivity. Qed.

Example ex_aged_rows_after :
  map row_state (rows_plan (close_of ex_stamp ex_aged)) =
  [st Failed 5000 10001;                                  (* plan: Failed, ends at the stamp *)
   st Completed 5000 5100; st Completed 5000 5100;        (* finished pre-checks: untouched *)
   st Failed 5200 8999;                                   (* block: ends at the plan's last activity *)
   st Failed 5300 8999; st Failed 8999 8999;              (* continuous group and its action *)
   st Failed 5400 8999; st Failed 5500 8999;              (* sequence, running action *)
   st NotStarted 0 0].                                    (* never started: stays NotStarted *)
Proof. vm_compute. reflexivity. Qed.

Example ex_aged_reason : p_reason (close_of ex_stamp ex_aged) = FRExceedRecovery.
Proof. reflexivity. Qed.

(* the boundary is strict: 9000 + 1000 < 10000 is false, 8999 + 1000 < 10000 is true;
   one tick later the live plan is stale too *)
Example ex_boundary :
  stale ex_now ex_maxage ex_live = false /\ stale ex_now ex_maxage ex_aged = true /\
  stale (ex_now + 1) ex_maxage ex_live = true /\ last_update ex_live = 9000%Z /\ last_update ex_aged = 8999%Z.
Proof. vm_compute. repeat split. Qed.

Example ex_zero_time_is_stale : stale ex_now ex_maxage ex_zero = true /\ last_update ex_zero = 0%Z.
Proof. vm_compute. split; reflexivity. Qed.

Example ex_is_running : is_running ex_aged /\ is_running ex_live /\ ~ is_running ex_done /\ ~ is_running ex_fresh.
Proof. repeat split; try reflexivity; intros H; discriminate H. Qed.

Example ex_is_stale : is_stale ex_now ex_maxage ex_aged /\ ~ is_stale ex_now ex_maxage ex_live.
Proof.
  split.
  - apply stale_iff. vm_compute. reflexivity.
  - intros H. apply stale_iff in H. vm_compute in H. discriminate H.
Qed.

Example ex_attempts_are_activity :
  last_update ex_retry = 9990%Z /\ stale ex_now ex_maxage ex_retry = false /\ latest ex_retry = 9990%Z.
Proof. vm_compute. repeat split. Qed.

(* recovery disabled *)
Example ex_no_recovery : select ex_now ex_stamp ex_maxage false ex_store = (ex_store, []).
Proof. reflexivity. Qed.

(* R1 (fixed by 7ff23c2): persisting the plan row alone leaves the children Running in the store *)
Definition running_rows (s : store) : nat :=
  length (filter (fun r => match row_state r with Some x => status_eqb (s_status x) Running | None => false end)
                 (rows_store s)).

Example ex_r1_plan_row_only_leaves_running :
  running_rows (persist [ex_aged] (writes_plan_only (age_out ex_stamp ex_aged))) = 5 /\
  running_rows (persist [ex_aged] (writes_aged (age_out ex_stamp ex_aged))) = 0.
Proof. vm_compute. split; reflexivity. Qed.

(* a Vault whose search index still lists two finished plans as Running (storage.Recovery contract):
   ex_done (finished long ago) and ex_done_recent (finished 500 ticks ago) *)
Definition ex_done_recent : plan :=
  mk_plan 70 (st Completed 9000 9500) FRUnknown None None
    [mk_blk 71 (st Completed 9000 9500) None None [mk_seq 72 (st Completed 9000 9500) [mk_act 73 None (st Completed 9000 9500)]]].

Definition ex_vault : vault := {| v_plans := ex_store ++ [ex_done_recent]; v_stale := [20%N; 70%N] |}.

Example ex_vault_keys : keys_unique (v_plans ex_vault).
Proof. apply nodupb_sound. vm_compute. reflexivity. Qed.

(* coercion.New repairs the index first: the finished plans are neither candidates nor touched *)
Example ex_vault_repaired_first :
  open_workstream ex_now ex_stamp ex_maxage true true ex_vault =
  ([ex_fresh; ex_done; close_of ex_stamp ex_aged; ex_live; close_of ex_stamp ex_zero; ex_retry; ex_done_recent],
   [40%N; 60%N]).
Proof. vm_compute. reflexivity. Qed.

(* C11-d (Recovery() only after execute.New): the finished plans reach the state chain; the old one is
   rewritten Failed / ExceedRecovery, the recent one is handed to runPlan and executed again *)
Example ex_vault_unrepaired_refutes :
  snd (open_workstream_late ex_now ex_stamp ex_maxage true ex_vault) = [40%N; 60%N; 70%N] /\
  nth 1 (fst (open_workstream_late ex_now ex_stamp ex_maxage true ex_vault)) ex_fresh = close_of ex_stamp ex_done /\
  close_of ex_stamp ex_done <> ex_done.
Proof. vm_compute. repeat split. discriminate. Qed.

Definition st_eqb (a b : option state) : bool :=
  match a, b with
  | Some x, Some y => status_eqb (s_status x) (s_status y) && Z.eqb (s_start x) (s_start y) && Z.eqb (s_end x) (s_end y)
  | None, None => true | _, _ => false end.
Fixpoint list_eq_states (a b : list (option state)) : bool :=
  match a, b with [], [] => true | x :: a, y :: b => st_eqb x y && list_eq_states a b | _, _ => false end.

(* ---- a crash during the close of ex_aged (9 rows; stamp 10001), next start-up at 10100 ---- *)
Definition ex_restart (s : store) : store * list N := select 10100 10101 ex_maxage true s.

(* the code's order (children first, ending at the plan's last activity 8999; plan row last): whatever the
   crash point j (0..9), the next start-up finds the plan still Running and still stale, repeats the close
   and leaves exactly the closed plan (its own stamp on the plan row; for j = 9 nothing is left to do and the
   first incarnation's stamp stays); nothing is resumed, nothing is left Running *)
Example ex_interrupted_close_is_completed_every_j :
  forallb (fun j =>
             let r := ex_restart (crash_during_close j ex_now ex_stamp ex_maxage [ex_aged]) in
             match snd r with [] => true | _ => false end &&
             Nat.eqb (running_rows (fst r)) 0 &&
             match fst r with
             | [q] => list_eq_states (map row_state (rows_plan q))
                        (map row_state (rows_plan (close_plan 8999 (if Nat.ltb j 9 then 10101 else ex_stamp) ex_aged)))
                      && reason_eqb (p_reason q) FRExceedRecovery
             | _ => false
             end) (seq 0 10) = true.
Proof. vm_compute. reflexivity. Qed.

Example ex_last_update_unchanged_by_prefix :
  forallb (fun j => match crash_during_close j ex_now ex_stamp ex_maxage [ex_aged] with
                    | [q] => Z.eqb (last_update q) (if Nat.ltb j 9 then 8999 else 10001)
                    | _ => false end) (seq 0 10) = true.
Proof. vm_compute. reflexivity. Qed.

(* the order before fix f93b03f (plan row first, children ending now): dying after the first write leaves
   5 rows Running inside a Failed plan that no later start-up looks at again (R10) *)
Definition age_out_pre (stamp : Z) (p : plan) : plan := close_plan stamp stamp p.
Example ex_plan_row_first_refuted :
  running_rows (fst (ex_restart (persist [ex_aged] (firstn 1 (writes_plan_first (age_out_pre ex_stamp ex_aged)))))) = 5 /\
  snd (ex_restart (persist [ex_aged] (firstn 1 (writes_plan_first (age_out_pre ex_stamp ex_aged))))) = [].
Proof. vm_compute. split; reflexivity. Qed.

(* C11-e as it was seeded (children first but ending NOW): after 3 writes the block carries a fresh End
   stamp while the plan is still Running: the next incarnation takes the plan for live and resumes it *)
Example ex_fresh_stamp_refuted :
  snd (ex_restart (persist [ex_aged] (firstn 3 (writes_aged (age_out_pre ex_stamp ex_aged))))) = [30%N] /\
  snd (ex_restart (persist [ex_aged] (firstn 3 (writes_aged (age_out ex_stamp ex_aged))))) = [].
Proof. vm_compute. split; reflexivity. Qed.

(* R8: recovery that fails: Search fails (budget 0) / the 3rd write of the close of ex_aged fails *)
Example ex_new_refused :
  execute_new (Some 0%nat) ex_now ex_stamp ex_maxage true ex_store = Refused ex_store /\
  execute_new (Some (1 + 4 + 2)%nat) ex_now ex_stamp ex_maxage true ex_store =
    Refused (crash_during_close 2 ex_now ex_stamp ex_maxage ex_store) /\
  execute_new None ex_now ex_stamp ex_maxage true ex_store =
    Opened (fst (select ex_now ex_stamp ex_maxage true ex_store)) [40%N; 60%N].
Proof. vm_compute. repeat split. Qed.

(* R9 (candidate, not repaired): the search entry of the live Running plan 40 still says NotStarted (torn
   first UpdatePlan): Vault.Recovery does not repair it and the plan is not resumed although it is durably
   Running and live *)
Example ex_torn_first_write_refuted :
  snd (open_workstream_torn [40%N] ex_now ex_stamp ex_maxage ex_vault) = [60%N] /\
  is_running ex_live /\ stale ex_now ex_maxage ex_live = false.
Proof. vm_compute. repeat split. Qed.

(* the executable twins used by the monitor *)
Example ex_monitor_twins :
  is_staleb ex_now ex_maxage ex_aged = true /\ is_staleb ex_now ex_maxage ex_live = false /\
  is_runningb ex_done = false /\ latest ex_live = 9000%Z.
Proof. vm_compute. repeat split. Qed.
