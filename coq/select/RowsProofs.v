(* Facts about the row view of a plan (Rows.v): rewriting with a gmap acts row by row, composes,
   depends only on the rows of the plan, and is the identity for [gid]. *)
From Coq Require Import Lia.
From Coercion.Base Require Import Plan.
From Coercion.Select Require Import Rows.

(* ---- slices ---- *)
Definition omem {A} (x : A) (l : option (list (option A))) : Prop :=
  match l with Some l' => In (Some x) l' | None => False end.

Lemma omap_list_ext_in {A} (f g : A -> A) l :
  (forall x, omem x l -> f x = g x) -> omap_list f l = omap_list g l.
Proof.
  destruct l as [l|]; simpl; [|reflexivity]. intros H. f_equal.
  induction l as [|[x|] l IH]; simpl; [reflexivity| |].
  - f_equal; [f_equal; apply H; now left|]. apply IH. intros y Hy. apply H. now right.
  - f_equal. apply IH. intros y Hy. apply H. now right.
Qed.

Lemma omap_list_fuse {A} (f g : A -> A) l :
  omap_list f (omap_list g l) = omap_list (fun x => f (g x)) l.
Proof.
  destruct l as [l|]; simpl; [|reflexivity]. f_equal. rewrite map_map.
  apply map_ext. intros [x|]; reflexivity.
Qed.

Lemma omap_list_id_in {A} (f : A -> A) l :
  (forall x, omem x l -> f x = x) -> omap_list f l = l.
Proof.
  destruct l as [l|]; simpl; [|reflexivity]. intros H. f_equal.
  induction l as [|[x|] l IH]; simpl; [reflexivity| |].
  - f_equal; [f_equal; apply H; now left|]. apply IH. intros y Hy. apply H. now right.
  - f_equal. apply IH. intros y Hy. apply H. now right.
Qed.

Lemma orows_omap {A} (rf : A -> list row) (f : A -> A) (h : row -> row) l :
  (forall x, rf (f x) = map h (rf x)) -> orows rf (omap_list f l) = map h (orows rf l).
Proof.
  intros H. destruct l as [l|]; simpl; [|reflexivity].
  induction l as [|[x|] l IH]; simpl; [reflexivity| |].
  - rewrite map_app, H, IH. reflexivity.
  - exact IH.
Qed.

Lemma in_orows {A} (rf : A -> list row) l r :
  In r (orows rf l) <-> exists x, omem x l /\ In r (rf x).
Proof.
  destruct l as [l|]; simpl.
  - rewrite in_flat_map. split.
    + intros [[x|] [Hx Hr]]; simpl in Hr; [|contradiction]. now exists x.
    + intros [x [Hx Hr]]. exists (Some x). now split.
  - split; [contradiction|]. intros [x [[] _]].
Qed.

Lemma oflat_omap {A} (rf : A -> list row) (f : A -> A) (h : row -> row) o :
  (forall x, rf (f x) = map h (rf x)) -> oflat rf (option_map f o) = map h (oflat rf o).
Proof. intros H. destruct o; simpl; [apply H|reflexivity]. Qed.

(* ---- (a) rewriting acts row by row ---- *)
Lemma rows_tm_action G a : rows_action (tm_action G a) = map (gapp G) (rows_action a).
Proof. reflexivity. Qed.

Lemma rows_tm_checks G c : rows_checks (tm_checks G c) = map (gapp G) (rows_checks c).
Proof.
  unfold rows_checks, tm_checks. simpl. f_equal.
  apply orows_omap. apply rows_tm_action.
Qed.

Lemma rows_tm_seq G q : rows_seq (tm_seq G q) = map (gapp G) (rows_seq q).
Proof.
  unfold rows_seq, tm_seq. simpl. f_equal.
  apply orows_omap. apply rows_tm_action.
Qed.

Lemma rows_tm_block G b : rows_block (tm_block G b) = map (gapp G) (rows_block b).
Proof.
  unfold rows_block, tm_block. simpl. f_equal.
  rewrite !map_app.
  rewrite !(oflat_omap rows_checks (tm_checks G) (gapp G)) by apply rows_tm_checks.
  rewrite (orows_omap rows_seq (tm_seq G) (gapp G)) by apply rows_tm_seq.
  reflexivity.
Qed.

Lemma rows_tm_plan G p : rows_plan (tm_plan G p) = map (gapp G) (rows_plan p).
Proof.
  unfold rows_plan, tm_plan. simpl. f_equal.
  rewrite !map_app.
  rewrite !(oflat_omap rows_checks (tm_checks G) (gapp G)) by apply rows_tm_checks.
  rewrite (orows_omap rows_block (tm_block G) (gapp G)) by apply rows_tm_block.
  reflexivity.
Qed.

(* ---- (b) composition ---- *)
Lemma tm_action_fuse F G a : tm_action F (tm_action G a) = tm_action (gcomp F G) a.
Proof.
  unfold tm_action, action_with; simpl.
  destruct (g_act G (oid (a_id a)) (a_attempts a, a_state a)) as [att st]; simpl. reflexivity.
Qed.

Lemma omap_tm_action_fuse F G l :
  omap_list (tm_action F) (omap_list (tm_action G) l) = omap_list (tm_action (gcomp F G)) l.
Proof.
  rewrite omap_list_fuse. apply omap_list_ext_in. intros x _. apply tm_action_fuse.
Qed.

Lemma tm_checks_fuse F G c : tm_checks F (tm_checks G c) = tm_checks (gcomp F G) c.
Proof.
  unfold tm_checks, checks_with; simpl. rewrite omap_tm_action_fuse. reflexivity.
Qed.

Lemma tm_ochecks_fuse F G o :
  option_map (tm_checks F) (option_map (tm_checks G) o) = option_map (tm_checks (gcomp F G)) o.
Proof. destruct o; simpl; [now rewrite tm_checks_fuse|reflexivity]. Qed.

Lemma tm_seq_fuse F G q : tm_seq F (tm_seq G q) = tm_seq (gcomp F G) q.
Proof.
  unfold tm_seq, seq_with; simpl. rewrite omap_tm_action_fuse. reflexivity.
Qed.

Lemma tm_block_fuse F G b : tm_block F (tm_block G b) = tm_block (gcomp F G) b.
Proof.
  unfold tm_block, block_with; simpl. rewrite !tm_ochecks_fuse.
  rewrite omap_list_fuse.
  rewrite (omap_list_ext_in (fun x => tm_seq F (tm_seq G x)) (tm_seq (gcomp F G)))
    by (intros x _; apply tm_seq_fuse).
  reflexivity.
Qed.

Lemma tm_plan_fuse F G p : tm_plan F (tm_plan G p) = tm_plan (gcomp F G) p.
Proof.
  unfold tm_plan, plan_with; simpl. rewrite !tm_ochecks_fuse.
  rewrite omap_list_fuse.
  rewrite (omap_list_ext_in (fun x => tm_block F (tm_block G x)) (tm_block (gcomp F G)))
    by (intros x _; apply tm_block_fuse).
  destruct (g_plan G (oid (p_id p)) (p_state p, p_reason p)) as [st rs]; simpl. reflexivity.
Qed.

(* ---- (c) the result depends only on what the gmap does to the rows of the plan ---- *)
Lemma tm_action_ext F G a :
  (forall r, In r (rows_action a) -> gapp F r = gapp G r) -> tm_action F a = tm_action G a.
Proof.
  intros H. specialize (H _ (or_introl eq_refl)). simpl in H.
  unfold tm_action. injection H as H1 H2. now rewrite H1, H2.
Qed.

Lemma omap_tm_action_ext F G l :
  (forall r, In r (orows rows_action l) -> gapp F r = gapp G r) ->
  omap_list (tm_action F) l = omap_list (tm_action G) l.
Proof.
  intros H. apply omap_list_ext_in. intros x Hx. apply tm_action_ext.
  intros r Hr. apply H. apply in_orows. now exists x.
Qed.

Lemma tm_checks_ext F G c :
  (forall r, In r (rows_checks c) -> gapp F r = gapp G r) -> tm_checks F c = tm_checks G c.
Proof.
  intros H. unfold tm_checks.
  rewrite (omap_tm_action_ext F G) by (intros r Hr; apply H; now right).
  specialize (H _ (or_introl eq_refl)). simpl in H. injection H as H. now rewrite H.
Qed.

Lemma tm_ochecks_ext F G o :
  (forall r, In r (oflat rows_checks o) -> gapp F r = gapp G r) ->
  option_map (tm_checks F) o = option_map (tm_checks G) o.
Proof. destruct o; simpl; intros H; [f_equal; now apply tm_checks_ext|reflexivity]. Qed.

Lemma tm_seq_ext F G q :
  (forall r, In r (rows_seq q) -> gapp F r = gapp G r) -> tm_seq F q = tm_seq G q.
Proof.
  intros H. unfold tm_seq.
  rewrite (omap_tm_action_ext F G) by (intros r Hr; apply H; now right).
  specialize (H _ (or_introl eq_refl)). simpl in H. injection H as H. now rewrite H.
Qed.

Lemma tm_block_ext F G b :
  (forall r, In r (rows_block b) -> gapp F r = gapp G r) -> tm_block F b = tm_block G b.
Proof.
  intros H. unfold tm_block.
  assert (Hin : forall r, In r (oflat rows_checks (b_bypass b) ++ oflat rows_checks (b_pre b) ++
                                 oflat rows_checks (b_cont b) ++ orows rows_seq (b_seqs b) ++
                                 oflat rows_checks (b_post b) ++ oflat rows_checks (b_deferred b)) ->
                          gapp F r = gapp G r) by (intros r Hr; apply H; now right).
  rewrite (tm_ochecks_ext F G (b_bypass b)) by (intros r Hr; apply Hin; rewrite !in_app_iff; tauto).
  rewrite (tm_ochecks_ext F G (b_pre b)) by (intros r Hr; apply Hin; rewrite !in_app_iff; tauto).
  rewrite (tm_ochecks_ext F G (b_cont b)) by (intros r Hr; apply Hin; rewrite !in_app_iff; tauto).
  rewrite (tm_ochecks_ext F G (b_post b)) by (intros r Hr; apply Hin; rewrite !in_app_iff; tauto).
  rewrite (tm_ochecks_ext F G (b_deferred b)) by (intros r Hr; apply Hin; rewrite !in_app_iff; tauto).
  rewrite (omap_list_ext_in (tm_seq F) (tm_seq G) (b_seqs b)).
  2:{ intros x Hx. apply tm_seq_ext. intros r Hr. apply Hin. rewrite !in_app_iff.
      right; right; right; left. apply in_orows. now exists x. }
  specialize (H _ (or_introl eq_refl)). simpl in H. injection H as H. now rewrite H.
Qed.

Lemma tm_plan_ext F G p :
  (forall r, In r (rows_plan p) -> gapp F r = gapp G r) -> tm_plan F p = tm_plan G p.
Proof.
  intros H. unfold tm_plan.
  assert (Hin : forall r, In r (oflat rows_checks (p_bypass p) ++ oflat rows_checks (p_pre p) ++
                                 oflat rows_checks (p_cont p) ++ orows rows_block (p_blocks p) ++
                                 oflat rows_checks (p_post p) ++ oflat rows_checks (p_deferred p)) ->
                          gapp F r = gapp G r) by (intros r Hr; apply H; now right).
  rewrite (tm_ochecks_ext F G (p_bypass p)) by (intros r Hr; apply Hin; rewrite !in_app_iff; tauto).
  rewrite (tm_ochecks_ext F G (p_pre p)) by (intros r Hr; apply Hin; rewrite !in_app_iff; tauto).
  rewrite (tm_ochecks_ext F G (p_cont p)) by (intros r Hr; apply Hin; rewrite !in_app_iff; tauto).
  rewrite (tm_ochecks_ext F G (p_post p)) by (intros r Hr; apply Hin; rewrite !in_app_iff; tauto).
  rewrite (tm_ochecks_ext F G (p_deferred p)) by (intros r Hr; apply Hin; rewrite !in_app_iff; tauto).
  rewrite (omap_list_ext_in (tm_block F) (tm_block G) (p_blocks p)).
  2:{ intros x Hx. apply tm_block_ext. intros r Hr. apply Hin. rewrite !in_app_iff.
      right; right; right; left. apply in_orows. now exists x. }
  specialize (H _ (or_introl eq_refl)). simpl in H. injection H as H1 H2. now rewrite H1, H2.
Qed.

(* ---- (d) identity ---- *)
Lemma tm_action_gid a : tm_action gid a = a.
Proof. destruct a; reflexivity. Qed.

Lemma tm_checks_gid c : tm_checks gid c = c.
Proof.
  unfold tm_checks. rewrite omap_list_id_in by (intros x _; apply tm_action_gid). destruct c; reflexivity.
Qed.

Lemma tm_ochecks_gid o : option_map (tm_checks gid) o = o.
Proof. destruct o; simpl; [now rewrite tm_checks_gid|reflexivity]. Qed.

Lemma tm_seq_gid q : tm_seq gid q = q.
Proof.
  unfold tm_seq. rewrite omap_list_id_in by (intros x _; apply tm_action_gid). destruct q; reflexivity.
Qed.

Lemma tm_block_gid b : tm_block gid b = b.
Proof.
  unfold tm_block. rewrite !tm_ochecks_gid.
  rewrite omap_list_id_in by (intros x _; apply tm_seq_gid). destruct b; reflexivity.
Qed.

Lemma tm_plan_gid p : tm_plan gid p = p.
Proof.
  unfold tm_plan. rewrite !tm_ochecks_gid.
  rewrite omap_list_id_in by (intros x _; apply tm_block_gid). destruct p; reflexivity.
Qed.

(* ---- keys ---- *)
Lemma gapp_key G r : row_key (gapp G r) = row_key r.
Proof. destruct r; reflexivity. Qed.

Lemma gapp_gcomp F G r : gapp (gcomp F G) r = gapp F (gapp G r).
Proof.
  destruct r; simpl; try reflexivity.
  - destruct (g_plan G id (st, rs)); reflexivity.
  - destruct (g_act G id (att, st)); reflexivity.
Qed.

Lemma gapp_gid r : gapp gid r = r.
Proof. destruct r; reflexivity. Qed.

Lemma keys_tm_plan G p : map row_key (rows_plan (tm_plan G p)) = map row_key (rows_plan p).
Proof. rewrite rows_tm_plan, map_map. apply map_ext. intros r. apply gapp_key. Qed.

Lemma pid_tm_plan G p : pid (tm_plan G p) = pid p.
Proof. reflexivity. Qed.

Lemma key_eqb_spec a b : key_eqb a b = true <-> row_key a = row_key b.
Proof.
  destruct a, b; simpl; split; intro H; try discriminate H;
    try (apply N.eqb_eq in H; now subst);
    try (injection H as H; now apply N.eqb_eq).
Qed.
