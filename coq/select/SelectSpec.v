(* Specification side of C11, written directly over the plan tree, without the row / write machinery
   of Rows.v and without reference to the state chain of Select.v.  No proofs here. *)
From Coercion.Base Require Import Plan.

(* ---- every object of a plan (any order) ---- *)
Definition olist {A} (l : option (list (option A))) : list A :=
  match l with
  | None => []
  | Some l => flat_map (fun x => match x with Some x => [x] | None => [] end) l
  end.
Definition oone {A} (x : option A) : list A := match x with Some x => [x] | None => [] end.

Definition block_groups (b : block) : list checks :=
  oone (b_bypass b) ++ oone (b_pre b) ++ oone (b_cont b) ++ oone (b_post b) ++ oone (b_deferred b).
Definition plan_groups (p : plan) : list checks :=
  oone (p_bypass p) ++ oone (p_pre p) ++ oone (p_cont p) ++ oone (p_post p) ++ oone (p_deferred p).

Definition checks_states (c : checks) : list (option state) :=
  c_state c :: map a_state (olist (c_actions c)).
Definition seq_states (q : sequence) : list (option state) :=
  q_state q :: map a_state (olist (q_actions q)).
Definition block_states (b : block) : list (option state) :=
  b_state b :: flat_map checks_states (block_groups b) ++ flat_map seq_states (olist (b_seqs b)).

(* the State of the plan, of every checks group, block, sequence and action in it *)
Definition plan_states (p : plan) : list (option state) :=
  p_state p :: flat_map checks_states (plan_groups p) ++ flat_map block_states (olist (p_blocks p)).

(* ---- time: Unix nanoseconds, 0 = Go's zero time = January 1 of year 1 ---- *)
Definition zero_time : Z := (-62135596800000000000)%Z.
Definition instant (t : Z) : Z := if Z.eqb t 0 then zero_time else t.

(* ---- every attempt of every action of the plan (sequence actions and check actions) ---- *)
Definition action_attempts (a : action) : list attempt :=
  match a_attempts a with Some l => l | None => [] end.
Definition checks_attempts (c : checks) : list attempt := flat_map action_attempts (olist (c_actions c)).
Definition seq_attempts (q : sequence) : list attempt := flat_map action_attempts (olist (q_actions q)).
Definition block_attempts (b : block) : list attempt :=
  flat_map checks_attempts (block_groups b) ++ flat_map seq_attempts (olist (b_seqs b)).
Definition plan_attempts (p : plan) : list attempt :=
  flat_map checks_attempts (plan_groups p) ++ flat_map block_attempts (olist (p_blocks p)).

(* every recorded time of the plan: start / end of every object and of every attempt *)
Definition plan_times (p : plan) : list Z :=
  flat_map (fun st => match st with Some s => [instant (s_start s); instant (s_end s)] | None => [] end)
           (plan_states p) ++
  flat_map (fun a => [instant (at_start a); instant (at_end a)]) (plan_attempts p).

(* [m] is the most recent recorded activity of [p]: the latest of its recorded times, the zero time
   if it has none *)
Definition latest_activity (p : plan) (m : Z) : Prop :=
  (zero_time <= m)%Z /\ (forall t, In t (plan_times p) -> (t <= m)%Z) /\
  (m = zero_time \/ In m (plan_times p)).

Definition status_of (st : option state) : option status := option_map s_status st.

Definition is_running (p : plan) : Prop := status_of (p_state p) = Some Running.

(* the plan's most recent activity is older than maxAge at [now] (strictly) *)
Definition is_stale (now maxAge : Z) (p : plan) : Prop :=
  exists m, latest_activity p m /\ (m + maxAge < instant now)%Z.

(* executable twins, used by the monitor of the correspondence check *)
Definition latest (p : plan) : Z := fold_right Z.max zero_time (plan_times p).
Definition is_runningb (p : plan) : bool :=
  match p_state p with Some s => status_eqb (s_status s) Running | None => false end.
Definition is_staleb (now maxAge : Z) (p : plan) : bool := Z.ltb (latest p + maxAge) (instant now).

(* ---- what "closed" means: a Running object becomes Failed and ends at [last], the plan's most recent
        recorded activity (so that a half-closed plan looks exactly as stale as before); the plan itself
        becomes Failed / ExceedRecovery and ends at [stamp]; nothing else changes ---- *)
Definition close_state (stamp : Z) (s : state) : state :=
  match s_status s with
  | Running => {| s_status := Failed; s_start := s_start s; s_end := stamp |}
  | _ => s
  end.

Definition close_action (stamp : Z) (a : action) : action :=
  {| a_id := a_id a; a_key := a_key a; a_name := a_name a; a_descr := a_descr a; a_plugin := a_plugin a;
     a_timeout := a_timeout a; a_retries := a_retries a; a_req := a_req a; a_attempts := a_attempts a;
     a_state := option_map (close_state stamp) (a_state a); a_plugreg := a_plugreg a |}.

Definition close_list {A} (f : A -> A) (l : option (list (option A))) : option (list (option A)) :=
  option_map (map (option_map f)) l.

Definition close_checks (stamp : Z) (c : checks) : checks :=
  {| c_id := c_id c; c_key := c_key c; c_delay := c_delay c;
     c_actions := close_list (close_action stamp) (c_actions c);
     c_state := option_map (close_state stamp) (c_state c) |}.

Definition close_seq (stamp : Z) (q : sequence) : sequence :=
  {| q_id := q_id q; q_key := q_key q; q_name := q_name q; q_descr := q_descr q;
     q_actions := close_list (close_action stamp) (q_actions q);
     q_state := option_map (close_state stamp) (q_state q) |}.

Definition close_block (stamp : Z) (b : block) : block :=
  {| b_id := b_id b; b_key := b_key b; b_name := b_name b; b_descr := b_descr b;
     b_entrance := b_entrance b; b_exit := b_exit b;
     b_bypass := option_map (close_checks stamp) (b_bypass b);
     b_pre := option_map (close_checks stamp) (b_pre b);
     b_cont := option_map (close_checks stamp) (b_cont b);
     b_post := option_map (close_checks stamp) (b_post b);
     b_deferred := option_map (close_checks stamp) (b_deferred b);
     b_seqs := close_list (close_seq stamp) (b_seqs b);
     b_conc := b_conc b; b_tol := b_tol b;
     b_state := option_map (close_state stamp) (b_state b) |}.

Definition close_plan (last stamp : Z) (p : plan) : plan :=
  {| p_id := p_id p; p_group := p_group p; p_name := p_name p; p_descr := p_descr p; p_meta := p_meta p;
     p_bypass := option_map (close_checks last) (p_bypass p);
     p_pre := option_map (close_checks last) (p_pre p);
     p_cont := option_map (close_checks last) (p_cont p);
     p_post := option_map (close_checks last) (p_post p);
     p_deferred := option_map (close_checks last) (p_deferred p);
     p_blocks := close_list (close_block last) (p_blocks p);
     p_state := option_map (fun s => {| s_status := Failed; s_start := s_start s; s_end := stamp |}) (p_state p);
     p_submit := p_submit p;
     p_reason := FRExceedRecovery |}.

(* nothing in the plan is Running *)
Definition nothing_running (p : plan) : Prop :=
  forall st, In st (plan_states p) -> status_of st <> Some Running.
