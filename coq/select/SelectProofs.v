(* Proofs about the model of start-up recovery (Select.v) against its specification (SelectSpec.v). *)
From Coq Require Import Lia.
From Coercion.Base Require Import Plan.
From Coercion.Select Require Import Rows RowsProofs Select SelectSpec PersistProofs.

(* ================= A. ageing out in memory = closing the plan ================= *)

Definition g_age (last stamp : Z) : gmap :=
  {| g_plan := fun _ x => (option_map (fun s => {| s_status := Failed; s_start := s_start s; s_end := stamp |}) (fst x),
                           FRExceedRecovery);
     g_chk := g_chk (g_rtf last); g_blk := g_blk (g_rtf last);
     g_seq := g_seq (g_rtf last); g_act := g_act (g_rtf last) |}.

Lemma age_out_tm stamp p : age_out stamp p = tm_plan (g_age (last_update p) stamp) p.
Proof.
  unfold age_out. generalize (last_update p). intros L.
  unfold running_to_failed, plan_set, tm_plan, plan_with. simpl.
  destruct (p_state p) as [s|]; simpl; reflexivity.
Qed.

Lemma fail_running_close last s : fail_running last s = close_state last s.
Proof. unfold fail_running, close_state. destruct s as [[] a b]; reflexivity. Qed.

Lemma ofail_running_close last st :
  option_map (fail_running last) st = option_map (close_state last) st.
Proof. destruct st; simpl; [now rewrite fail_running_close|reflexivity]. Qed.

Lemma tm_action_close last stamp a : tm_action (g_age last stamp) a = close_action last a.
Proof.
  unfold tm_action, close_action, action_with. simpl. now rewrite ofail_running_close.
Qed.

Lemma omap_list_close {A} (f g : A -> A) l :
  (forall x, f x = g x) -> omap_list f l = close_list g l.
Proof. intros H. unfold close_list. apply omap_list_ext_in. intros x _. apply H. Qed.

Lemma tm_checks_close last stamp c : tm_checks (g_age last stamp) c = close_checks last c.
Proof.
  unfold tm_checks, close_checks, checks_with. simpl.
  rewrite (omap_list_close _ (close_action last)) by apply tm_action_close.
  now rewrite ofail_running_close.
Qed.

Lemma tm_ochecks_close last stamp o :
  option_map (tm_checks (g_age last stamp)) o = option_map (close_checks last) o.
Proof. destruct o; simpl; [now rewrite tm_checks_close|reflexivity]. Qed.

Lemma tm_seq_close last stamp q : tm_seq (g_age last stamp) q = close_seq last q.
Proof.
  unfold tm_seq, close_seq, seq_with. simpl.
  rewrite (omap_list_close _ (close_action last)) by apply tm_action_close.
  now rewrite ofail_running_close.
Qed.

Lemma tm_block_close last stamp b : tm_block (g_age last stamp) b = close_block last b.
Proof.
  unfold tm_block, close_block, block_with. simpl.
  rewrite !tm_ochecks_close.
  rewrite (omap_list_close _ (close_seq last)) by apply tm_seq_close.
  now rewrite ofail_running_close.
Qed.

Lemma tm_plan_close last stamp p : tm_plan (g_age last stamp) p = close_plan last stamp p.
Proof.
  unfold tm_plan, close_plan, plan_with. simpl.
  rewrite !tm_ochecks_close.
  rewrite (omap_list_close _ (close_block last)) by apply tm_block_close.
  reflexivity.
Qed.

(* the post-state of a closed plan: its interrupted objects end at its last recorded activity *)
Definition close_of (stamp : Z) (p : plan) : plan := close_plan (last_update p) stamp p.

Lemma age_out_close stamp p : age_out stamp p = close_of stamp p.
Proof. unfold close_of. now rewrite age_out_tm, tm_plan_close. Qed.

(* the close's writes are the rows of the closed plan, the plan row moved to the end *)
Lemma writes_aged_nodup pm : NoDup (map row_key (rows_plan pm)) -> NoDup (map row_key (writes_aged pm)).
Proof.
  intros H. unfold writes_aged. rewrite map_app. cbn [map]. apply rotate_nodup. exact H.
Qed.

Lemma writes_aged_in pm w : In w (writes_aged pm) <-> In w (rows_plan pm).
Proof. unfold writes_aged. rewrite rotate_in. reflexivity. Qed.

(* ================= B. the store after every aged plan was persisted ================= *)

Definition pid_in (l : list plan) (q : plan) : bool := existsb (fun p => N.eqb (pid p) (pid q)) l.

Lemma aged_out_cons stamp p l s :
  aged_out stamp (p :: l) s = aged_out stamp l (persist s (writes_aged (age_out stamp p))).
Proof. reflexivity. Qed.

Lemma aged_out_fold stamp : forall l s,
  keys_unique s -> NoDup (map pid l) -> (forall p, In p l -> In p s) ->
  aged_out stamp l s = map (fun q => if pid_in l q then close_of stamp q else q) s.
Proof.
  induction l as [|p l IH]; intros s Hk Hnd Hin.
  - simpl. rewrite <- (map_id s) at 1. apply map_ext. reflexivity.
  - rewrite aged_out_cons, age_out_tm.
    destruct (in_split p s (Hin p (or_introl eq_refl))) as [s1 [s2 ->]].
    rewrite (persist_split (g_age (last_update p) stamp)).
    2: exact Hk.
    2:{ apply writes_aged_nodup. rewrite keys_tm_plan. unfold keys_unique in Hk.
        change (p :: s2) with ([p] ++ s2) in Hk. rewrite !rows_store_app, !map_app, rows_store_single in Hk.
        apply NoDup_app_r in Hk. now apply NoDup_app_l in Hk. }
    2: apply writes_aged_in.
    cbn [map] in Hnd. apply NoDup_cons_iff in Hnd as [Hp Hnd].
    assert (Hpids := keys_unique_pids _ Hk).
    rewrite map_app in Hpids. cbn [map] in Hpids.
    assert (H1 : forall q, In q s1 -> pid q <> pid p).
    { intros q Hq E. apply (NoDup_app_disj _ _ Hpids (pid q)); [now apply in_map|]. left. now rewrite E. }
    assert (H2 : forall q, In q s2 -> pid q <> pid p).
    { intros q Hq E. apply NoDup_app_r in Hpids. apply NoDup_cons_iff in Hpids as [Hn _].
      apply Hn. rewrite <- E. now apply in_map. }
    rewrite IH.
    + rewrite !map_app. cbn [map]. f_equal; [|f_equal].
      * apply map_ext_in. intros q Hq. unfold pid_in. cbn [existsb].
        destruct (N.eqb (pid p) (pid q)) eqn:E; [|reflexivity].
        apply N.eqb_eq in E. exfalso. now apply (H1 q Hq).
      * unfold pid_in. cbn [existsb]. rewrite pid_tm_plan, N.eqb_refl. cbn [orb].
        destruct (existsb (fun p0 => N.eqb (pid p0) (pid p)) l) eqn:E.
        -- apply existsb_exists in E as [p' [Hp' E]]. apply N.eqb_eq in E.
           exfalso. apply Hp. rewrite <- E. now apply in_map.
        -- unfold close_of. apply tm_plan_close.
      * apply map_ext_in. intros q Hq. unfold pid_in. cbn [existsb].
        destruct (N.eqb (pid p) (pid q)) eqn:E; [|reflexivity].
        apply N.eqb_eq in E. exfalso. now apply (H2 q Hq).
    + now apply keys_unique_tm.
    + exact Hnd.
    + intros p' Hp'. assert (Hs := Hin p' (or_intror Hp')).
      apply in_app_or in Hs as [Hs|[Hs|Hs]].
      * apply in_or_app. now left.
      * subst p'. exfalso. apply Hp. now apply in_map.
      * apply in_or_app. right. now right.
Qed.

(* ================= C. Search + Read return the Running plans themselves ================= *)

Lemma read_in s : NoDup (map pid s) -> forall p, In p s -> read s (pid p) = Some p.
Proof.
  unfold read. induction s as [|a s IH]; intros Hnd p Hin; [contradiction|].
  cbn [map] in Hnd. apply NoDup_cons_iff in Hnd as [Hn Hnd]. cbn [find].
  destruct (N.eqb (pid a) (pid p)) eqn:E.
  - destruct Hin as [->|Hin]; [reflexivity|].
    apply N.eqb_eq in E. exfalso. apply Hn. rewrite E. now apply in_map.
  - destruct Hin as [->|Hin]; [now rewrite N.eqb_refl in E|]. now apply IH.
Qed.

Lemma fetch_ok s : NoDup (map pid s) -> forall l, (forall p, In p l -> In p s) ->
  fetch_plans s (map pid l) = Some l.
Proof.
  intros Hnd. induction l as [|p l IH]; intros Hin; [reflexivity|].
  cbn [map fetch_plans]. rewrite (read_in s Hnd p) by (apply Hin; now left).
  rewrite IH by (intros q Hq; apply Hin; now right). reflexivity.
Qed.

Lemma NoDup_map_filter {A B} (f : A -> B) (g : A -> bool) l :
  NoDup (map f l) -> NoDup (map f (filter g l)).
Proof.
  induction l as [|a l IH]; simpl; intros Hnd; [constructor|].
  apply NoDup_cons_iff in Hnd as [Hn Hnd]. destruct (g a); [|now apply IH].
  simpl. constructor; [|now apply IH].
  intros H. apply Hn. apply in_map_iff in H as [x [Hx Hin]]. apply filter_In in Hin as [Hin _].
  rewrite <- Hx. now apply in_map.
Qed.

Lemma pid_in_filter s g q :
  NoDup (map pid s) -> In q s -> pid_in (filter g s) q = g q.
Proof.
  intros Hnd Hq. unfold pid_in. destruct (g q) eqn:Eg.
  - apply existsb_exists. exists q. split; [apply filter_In; now split|apply N.eqb_refl].
  - destruct (existsb _ _) eqn:E; [|reflexivity].
    apply existsb_exists in E as [p [Hp E]]. apply N.eqb_eq in E.
    apply filter_In in Hp as [Hp Hg].
    assert (p = q).
    { assert (R1 := read_in s Hnd p Hp). assert (R2 := read_in s Hnd q Hq).
      rewrite E in R1. congruence. }
    congruence.
Qed.

(* the state chain as a whole, for a store with unique keys *)
Definition aged_now (now maxAge : Z) (p : plan) : bool := durably_running p && stale now maxAge p.
Definition live_now (now maxAge : Z) (p : plan) : bool := durably_running p && negb (stale now maxAge p).

Lemma filter_filter {A} (f g : A -> bool) l :
  filter g (filter f l) = filter (fun x => f x && g x) l.
Proof.
  induction l as [|a l IH]; simpl; [reflexivity|].
  destruct (f a); simpl; [destruct (g a); now rewrite IH|exact IH].
Qed.

Lemma select_on now stamp maxAge s :
  keys_unique s ->
  select now stamp maxAge true s =
  (map (fun q => if aged_now now maxAge q then close_of stamp q else q) s,
   map pid (filter (live_now now maxAge) s)).
Proof.
  intros Hk. assert (Hnd := keys_unique_pids s Hk).
  unfold select, select_from, search_running.
  rewrite (fetch_ok s Hnd) by (intros p Hp; now apply filter_In in Hp).
  rewrite !filter_filter. f_equal.
  rewrite aged_out_fold.
  - apply map_ext_in. intros q Hq.
    now rewrite (pid_in_filter s (fun x => durably_running x && stale now maxAge x) q Hnd Hq).
  - exact Hk.
  - now apply NoDup_map_filter.
  - intros p Hp. now apply filter_In in Hp.
Qed.

(* ================= D. lastUpdate is the most recent activity ================= *)

Lemma inst_instant t : inst t = instant t.
Proof. reflexivity. Qed.

Lemma upd_time_max last t : inst (upd_time last t) = Z.max (inst last) (inst t).
Proof.
  unfold upd_time, t_after. destruct (Z.ltb (inst last) (inst t)) eqn:E.
  - apply Z.ltb_lt in E. lia.
  - apply Z.ltb_ge in E. lia.
Qed.

(* a step that only ever raises [last] to one of the times of its argument; folding such a step over a
   list yields the latest of the initial value and all the times *)
Definition raises {X} (step : Z -> X -> Z) (times : X -> list Z) : Prop :=
  forall a x, (inst a <= inst (step a x))%Z /\
              (forall t, In t (times x) -> (t <= inst (step a x))%Z) /\
              (inst (step a x) = inst a \/ In (inst (step a x)) (times x)).

Lemma fold_raises {X} (step : Z -> X -> Z) (times : X -> list Z) :
  raises step times -> raises (fun a l => fold_left step l a) (flat_map times).
Proof.
  intros H a l. revert a. induction l as [|x l IH]; intros a; cbn [fold_left flat_map].
  - repeat split; [lia|contradiction|now left].
  - destruct (IH (step a x)) as [I1 [I2 I3]]. destruct (H a x) as [S1 [S2 S3]].
    repeat split.
    + lia.
    + intros t Ht. apply in_app_or in Ht as [Ht|Ht]; [specialize (S2 _ Ht); lia|now apply I2].
    + destruct I3 as [I3|I3]; [|right; apply in_or_app; now right].
      rewrite I3. destruct S3 as [S3|S3]; [now left|right; apply in_or_app; now left].
Qed.

Definition state_times (st : option state) : list Z :=
  match st with Some s => [instant (s_start s); instant (s_end s)] | None => [] end.
Definition attempt_times (a : attempt) : list Z := [instant (at_start a); instant (at_end a)].
Definition row_times (r : row) : list Z :=
  state_times (row_state r) ++ flat_map attempt_times (row_attempts r).

Lemma two_times_raise a t1 t2 :
  let m := inst (upd_time (upd_time a t1) t2) in
  (inst a <= m)%Z /\ (forall t, In t [instant t1; instant t2] -> (t <= m)%Z) /\
  (m = inst a \/ In m [instant t1; instant t2]).
Proof.
  cbv zeta. rewrite !upd_time_max. change instant with inst. repeat split.
  - lia.
  - intros t [<-|[<-|[]]]; lia.
  - cbn [In].
    destruct (Z.max_spec (Z.max (inst a) (inst t1)) (inst t2)) as [[_ E]|[_ E]]; [right; right; left; lia|].
    destruct (Z.max_spec (inst a) (inst t1)) as [[_ E']|[_ E']]; [right; left; lia|left; lia].
Qed.

Lemma upd_last_raises : raises upd_last state_times.
Proof.
  intros a [s|]; cbn [upd_last state_times].
  - apply two_times_raise.
  - repeat split; [lia|contradiction|now left].
Qed.

Lemma upd_attempt_raises : raises upd_attempt attempt_times.
Proof. intros a x. apply two_times_raise. Qed.

Lemma upd_row_raises : raises upd_row row_times.
Proof.
  intros a r. unfold upd_row, row_times.
  destruct (upd_last_raises a (row_state r)) as [S1 [S2 S3]].
  destruct (fold_raises _ _ upd_attempt_raises (upd_last a (row_state r)) (row_attempts r)) as [I1 [I2 I3]].
  repeat split.
  - lia.
  - intros t Ht. apply in_app_or in Ht as [Ht|Ht]; [specialize (S2 _ Ht); lia|now apply I2].
  - destruct I3 as [I3|I3]; [|right; apply in_or_app; now right].
    rewrite I3. destruct S3 as [S3|S3]; [now left|right; apply in_or_app; now left].
Qed.

Definition times_of (l : list (option state)) : list Z := flat_map state_times l.

(* ================= E. the states of a plan: specification order vs walk order ================= *)

Lemma states_orows_action l :
  map row_state (orows rows_action l) = map a_state (olist l).
Proof.
  destruct l as [l|]; [|reflexivity]. cbn [orows olist].
  induction l as [|[a|] l IH]; cbn [flat_map oflat]; [reflexivity| |exact IH].
  cbn [app map rows_action row_state]. now rewrite IH.
Qed.

Lemma states_rows_checks c : map row_state (rows_checks c) = checks_states c.
Proof. unfold rows_checks, checks_states. cbn [map row_state]. now rewrite states_orows_action. Qed.

Lemma states_rows_seq q : map row_state (rows_seq q) = seq_states q.
Proof. unfold rows_seq, seq_states. cbn [map row_state]. now rewrite states_orows_action. Qed.

Lemma states_oflat_checks o :
  map row_state (oflat rows_checks o) = flat_map checks_states (oone o).
Proof. destruct o; cbn; [rewrite app_nil_r; apply states_rows_checks|reflexivity]. Qed.

Lemma in_states_orows {A} (rf : A -> list row) (sf : A -> list (option state)) l st :
  (forall x, map row_state (rf x) = sf x) ->
  In st (map row_state (orows rf l)) <-> In st (flat_map sf (olist l)).
Proof.
  intros H. destruct l as [l|]; [|reflexivity]. cbn [orows olist].
  induction l as [|[x|] l IH]; cbn [flat_map oflat app]; [reflexivity| |exact IH].
  rewrite map_app, !in_app_iff, IH, H. reflexivity.
Qed.

Lemma in_block_states b st :
  In st (map row_state (rows_block b)) <-> In st (block_states b).
Proof.
  unfold rows_block, block_states, block_groups. cbn [map row_state In].
  rewrite !map_app, !flat_map_app, !in_app_iff, !states_oflat_checks.
  rewrite (in_states_orows rows_seq seq_states) by apply states_rows_seq. tauto.
Qed.

Lemma in_blocks_states l st :
  In st (map row_state (orows rows_block l)) <-> In st (flat_map block_states (olist l)).
Proof.
  destruct l as [l|]; [|reflexivity]. cbn [orows olist].
  induction l as [|[x|] l IH]; cbn [flat_map oflat app]; [reflexivity| |exact IH].
  rewrite map_app, !in_app_iff, IH, in_block_states. reflexivity.
Qed.

Lemma in_plan_states p st :
  In st (map row_state (rows_plan p)) <-> In st (plan_states p).
Proof.
  unfold rows_plan, plan_states, plan_groups. cbn [map row_state In].
  rewrite !map_app, !flat_map_app, !in_app_iff, !states_oflat_checks, in_blocks_states. tauto.
Qed.

Lemma in_times_of l l' :
  (forall st, In st l <-> In st l') -> forall t, In t (times_of l) <-> In t (times_of l').
Proof.
  intros H t. unfold times_of. rewrite !in_flat_map.
  split; intros [st [Hst Ht]]; exists st; (split; [now apply H|exact Ht]).
Qed.

(* the attempts of a plan: specification order vs walk order *)
Lemma atts_orows_action l :
  flat_map row_attempts (orows rows_action l) = flat_map action_attempts (olist l).
Proof.
  destruct l as [l|]; [|reflexivity]. cbn [orows olist].
  induction l as [|[a|] l IH]; cbn [flat_map oflat]; [reflexivity| |exact IH].
  rewrite flat_map_app, IH. cbn [app flat_map rows_action row_attempts].
  unfold action_attempts. destruct (a_attempts a); cbn [row_attempts app]; rewrite ?app_nil_r; reflexivity.
Qed.

Lemma atts_rows_checks c : flat_map row_attempts (rows_checks c) = checks_attempts c.
Proof. unfold rows_checks, checks_attempts. cbn [flat_map row_attempts app]. apply atts_orows_action. Qed.

Lemma atts_rows_seq q : flat_map row_attempts (rows_seq q) = seq_attempts q.
Proof. unfold rows_seq, seq_attempts. cbn [flat_map row_attempts app]. apply atts_orows_action. Qed.

Lemma atts_oflat_checks o :
  flat_map row_attempts (oflat rows_checks o) = flat_map checks_attempts (oone o).
Proof. destruct o; cbn; [rewrite app_nil_r; apply atts_rows_checks|reflexivity]. Qed.

Lemma in_atts_orows {A} (rf : A -> list row) (sf : A -> list attempt) l x :
  (forall y z, In z (flat_map row_attempts (rf y)) <-> In z (sf y)) ->
  In x (flat_map row_attempts (orows rf l)) <-> In x (flat_map sf (olist l)).
Proof.
  intros H. destruct l as [l|]; [|reflexivity]. cbn [orows olist].
  induction l as [|[y|] l IH]; cbn [flat_map oflat app]; [reflexivity| |exact IH].
  rewrite flat_map_app, !in_app_iff, IH, H. reflexivity.
Qed.

Lemma in_block_attempts b x :
  In x (flat_map row_attempts (rows_block b)) <-> In x (block_attempts b).
Proof.
  unfold rows_block, block_attempts, block_groups. cbn [flat_map row_attempts app].
  rewrite !flat_map_app, !in_app_iff, !atts_oflat_checks.
  rewrite (in_atts_orows rows_seq seq_attempts) by (intros y z; now rewrite atts_rows_seq). tauto.
Qed.

Lemma in_plan_attempts p x :
  In x (flat_map row_attempts (rows_plan p)) <-> In x (plan_attempts p).
Proof.
  unfold rows_plan, plan_attempts, plan_groups. cbn [flat_map row_attempts app].
  rewrite !flat_map_app, !in_app_iff, !atts_oflat_checks.
  rewrite (in_atts_orows rows_block block_attempts) by (intros y z; apply in_block_attempts). tauto.
Qed.

Lemma in_row_times l t :
  In t (flat_map row_times l) <->
  In t (times_of (map row_state l)) \/ In t (flat_map attempt_times (flat_map row_attempts l)).
Proof.
  induction l as [|r l IH]; cbn [flat_map map times_of]; [tauto|].
  unfold row_times at 1. fold (times_of (map row_state l)).
  rewrite flat_map_app, !in_app_iff, IH. tauto.
Qed.

Lemma in_plan_times p t : In t (flat_map row_times (rows_plan p)) <-> In t (plan_times p).
Proof.
  rewrite in_row_times. unfold plan_times. rewrite in_app_iff.
  fold state_times. fold (times_of (plan_states p)). fold attempt_times.
  rewrite (in_times_of _ _ (in_plan_states p) t).
  rewrite !in_flat_map. split; (intros [H|[a [Ha Ht]]]; [now left|right; exists a; split; [|exact Ht]]);
    now apply in_plan_attempts.
Qed.

Lemma last_update_latest p : latest_activity p (inst (last_update p)).
Proof.
  unfold latest_activity, last_update.
  destruct (fold_raises _ _ upd_row_raises 0%Z (rows_plan p)) as [I1 [I2 I3]].
  repeat split.
  - exact I1.
  - intros t Ht. apply I2. now apply in_plan_times.
  - destruct I3 as [I3|I3]; [left; exact I3|right; now apply in_plan_times].
Qed.

Lemma latest_activity_unique p m1 m2 : latest_activity p m1 -> latest_activity p m2 -> m1 = m2.
Proof.
  intros [A1 [A2 A3]] [B1 [B2 B3]].
  destruct A3 as [->|A3], B3 as [->|B3].
  - reflexivity.
  - specialize (A2 _ B3). lia.
  - specialize (B2 _ A3). lia.
  - specialize (A2 _ B3). specialize (B2 _ A3). lia.
Qed.

Lemma stale_iff now maxAge p : stale now maxAge p = true <-> is_stale now maxAge p.
Proof.
  unfold stale, is_stale. rewrite Z.ltb_lt. split.
  - intros H. exists (inst (last_update p)). split; [apply last_update_latest|exact H].
  - intros [m [Hm H]]. now rewrite (latest_activity_unique p _ _ (last_update_latest p) Hm).
Qed.

Lemma running_iff p : durably_running p = true <-> is_running p.
Proof.
  unfold durably_running, is_running, status_of. destruct (p_state p) as [s|]; simpl.
  - rewrite status_eqb_eq. split; [now intros ->|now intros [= ->]].
  - split; discriminate.
Qed.

(* the executable twins used by the monitor agree with the specification *)
Lemma latest_is_latest p : latest_activity p (latest p).
Proof.
  unfold latest_activity, latest. generalize (plan_times p). intros l.
  induction l as [|t l [I1 [I2 I3]]]; cbn [fold_right].
  - repeat split; [lia|contradiction|now left].
  - repeat split.
    + lia.
    + intros x [<-|Hx]; [lia|]. specialize (I2 _ Hx). lia.
    + destruct (Z.max_spec t (fold_right Z.max zero_time l)) as [[_ E]|[_ E]]; rewrite E.
      * destruct I3 as [I3|I3]; [now left|right; now right].
      * right. now left.
Qed.

Lemma is_staleb_iff now maxAge p : is_staleb now maxAge p = true <-> is_stale now maxAge p.
Proof.
  unfold is_staleb, is_stale. rewrite Z.ltb_lt. split.
  - intros H. exists (latest p). split; [apply latest_is_latest|exact H].
  - intros [m [Hm H]]. now rewrite (latest_activity_unique p _ _ (latest_is_latest p) Hm).
Qed.

Lemma monitor_predicates now maxAge p :
  (is_staleb now maxAge p = true <-> is_stale now maxAge p) /\
  (stale now maxAge p = true <-> is_stale now maxAge p) /\
  (durably_running p = true <-> is_running p).
Proof. split; [apply is_staleb_iff|split; [apply stale_iff|apply running_iff]]. Qed.

(* ================= F. nothing is left Running in a closed plan ================= *)

Lemma close_state_not_running stamp s : s_status (close_state stamp s) <> Running.
Proof. unfold close_state. destruct s as [[] a b]; simpl; discriminate. Qed.

Lemma close_plan_nothing_running last stamp p : nothing_running (close_plan last stamp p).
Proof.
  intros st Hst. apply in_plan_states in Hst.
  rewrite <- (tm_plan_close last stamp), rows_tm_plan, map_map in Hst.
  apply in_map_iff in Hst as [r [<- _]].
  destruct r as [id [s|] rs|id [s|]|id [s|]|id [s|]|id att [s|]]; cbn; try discriminate;
    try rewrite fail_running_close; intros [= H]; revert H; apply close_state_not_running.
Qed.

(* ================= G. the property ================= *)

Lemma Forall2_map_r {A B} (R : A -> B -> Prop) (f : A -> B) l :
  (forall x, In x l -> R x (f x)) -> Forall2 R l (map f l).
Proof.
  induction l as [|a l IH]; intros H; simpl; constructor.
  - apply H. now left.
  - apply IH. intros x Hx. apply H. now right.
Qed.

Lemma Forall2_impl {A B} (R R' : A -> B -> Prop) l l' :
  (forall a b, R a b -> R' a b) -> Forall2 R l l' -> Forall2 R' l l'.
Proof. intros H HF. induction HF; constructor; auto. Qed.

Lemma resume_selection :
  forall (s : list plan) (now stamp maxAge : Z) (recovery : bool),
    keys_unique s ->
    let s' := fst (select now stamp maxAge recovery s) in
    let resumed := snd (select now stamp maxAge recovery s) in
    (recovery = false -> s' = s /\ resumed = []) /\
    (recovery = true ->
       (forall id, In id resumed <->
                   exists p, In p s /\ pid p = id /\ is_running p /\ ~ is_stale now maxAge p) /\
       NoDup resumed /\
       Forall2 (fun p p' =>
                  (is_running p /\ is_stale now maxAge p ->
                     p' = close_plan (last_update p) stamp p /\ nothing_running p' /\
                     status_of (p_state p') = Some Failed /\ p_reason p' = FRExceedRecovery /\
                     ~ In (pid p) resumed) /\
                  (~ (is_running p /\ is_stale now maxAge p) -> p' = p) /\
                  (~ is_running p -> ~ In (pid p) resumed) /\
                  (is_running p /\ ~ is_stale now maxAge p -> In (pid p) resumed)) s s').
Proof.
  intros s now stamp maxAge recovery Hk. cbv zeta. split.
  - intros ->. now split.
  - intros ->. rewrite (select_on now stamp maxAge s Hk). cbn [fst snd].
    assert (Hnd := keys_unique_pids s Hk).
    assert (Hres : forall id, In id (map pid (filter (live_now now maxAge) s)) <->
                   exists p, In p s /\ pid p = id /\ is_running p /\ ~ is_stale now maxAge p).
    { intros id. rewrite in_map_iff. split.
      - intros [p [Hid Hp]]. apply filter_In in Hp as [Hp Hl]. unfold live_now in Hl.
        apply andb_true_iff in Hl as [Hr Hs]. exists p. repeat split; [exact Hp|exact Hid|now apply running_iff|].
        intros H. apply stale_iff in H. rewrite H in Hs. discriminate.
      - intros [p [Hp [Hid [Hr Hs]]]]. exists p. split; [exact Hid|]. apply filter_In. split; [exact Hp|].
        unfold live_now. apply andb_true_iff. split; [now apply running_iff|].
        destruct (stale now maxAge p) eqn:E; [|reflexivity]. exfalso. apply Hs. now apply stale_iff. }
    split; [exact Hres|]. split; [now apply NoDup_map_filter|].
    apply Forall2_map_r. intros p Hp. split.
    + intros [Hr Hs]. unfold aged_now.
      rewrite (proj2 (running_iff p) Hr), (proj2 (stale_iff now maxAge p) Hs). cbn [andb].
      split; [reflexivity|]. split; [apply close_plan_nothing_running|].
      split; [|split; [reflexivity|]].
      * unfold is_running, status_of in Hr. unfold close_of, close_plan, status_of. cbn [p_state].
        destruct (p_state p); [reflexivity|discriminate].
      * intros Hin. apply Hres in Hin as [q [Hq [Hid [_ Hns]]]].
        assert (q = p).
        { assert (R1 := read_in s Hnd q Hq). assert (R2 := read_in s Hnd p Hp).
          rewrite Hid in R1. congruence. }
        subst q. now apply Hns.
    + split; [|split].
      * intros Hn. unfold aged_now.
        destruct (durably_running p) eqn:Er; [|reflexivity].
        destruct (stale now maxAge p) eqn:Es; [|reflexivity].
        exfalso. apply Hn. split; [now apply running_iff|now apply stale_iff].
      * intros Hn Hin. apply Hres in Hin as [q [Hq [Hid [Hr _]]]].
        assert (q = p).
        { assert (R1 := read_in s Hnd q Hq). assert (R2 := read_in s Hnd p Hp).
          rewrite Hid in R1. congruence. }
        subst q. now apply Hn.
      * intros [Hr Hs]. apply Hres. exists p. now repeat split.
Qed.

(* ---- the same, clause by clause, in the words of the property ---- *)
Lemma no_recovery_nothing_happens :
  forall (s : list plan) (now stamp maxAge : Z),
    select now stamp maxAge false s = (s, []).
Proof. reflexivity. Qed.

Lemma non_running_untouched :
  forall (s : list plan) (now stamp maxAge : Z) (recovery : bool),
    keys_unique s ->
    Forall2 (fun p p' => ~ is_running p ->
                         p' = p /\ ~ In (pid p) (snd (select now stamp maxAge recovery s)))
            s (fst (select now stamp maxAge recovery s)).
Proof.
  intros s now stamp maxAge recovery Hk.
  destruct (resume_selection s now stamp maxAge recovery Hk) as [Hoff Hon].
  destruct recovery.
  - destruct (Hon eq_refl) as [_ [_ HF]].
    revert HF. apply Forall2_impl. intros p p' [_ [H2 [H3 _]]] Hn. split.
    + apply H2. tauto.
    + now apply H3.
  - destruct (Hoff eq_refl) as [E1 E2]. rewrite E1, E2.
    rewrite <- (map_id s) at 2. apply Forall2_map_r. intros p _ _. split; [reflexivity|intros []].
Qed.

Lemma stale_running_closed :
  forall (s : list plan) (now stamp maxAge : Z),
    keys_unique s ->
    Forall2 (fun p p' => is_running p -> is_stale now maxAge p ->
                         p' = close_plan (last_update p) stamp p /\ nothing_running p' /\
                         status_of (p_state p') = Some Failed /\ p_reason p' = FRExceedRecovery /\
                         ~ In (pid p) (snd (select now stamp maxAge true s)))
            s (fst (select now stamp maxAge true s)).
Proof.
  intros s now stamp maxAge Hk.
  destruct (resume_selection s now stamp maxAge true Hk) as [_ Hon].
  destruct (Hon eq_refl) as [_ [_ HF]].
  revert HF. apply Forall2_impl. intros p p' [H1 _] Hr Hs. now apply H1.
Qed.

Lemma live_running_resumed :
  forall (s : list plan) (now stamp maxAge : Z) (p : plan),
    keys_unique s -> In p s -> is_running p -> ~ is_stale now maxAge p ->
    In (pid p) (snd (select now stamp maxAge true s)).
Proof.
  intros s now stamp maxAge p Hk Hp Hr Hs.
  destruct (resume_selection s now stamp maxAge true Hk) as [_ Hon].
  destruct (Hon eq_refl) as [Hres _]. apply Hres. exists p. now repeat split.
Qed.

(* a Vault with a search index: coercion.New repairs the index first, so stale entries never reach the
   state chain and everything proved about [select] holds of the plan rows whatever the index said *)
Lemma open_workstream_repairs_first now stamp maxAge recovery v :
  open_workstream now stamp maxAge recovery true v = select now stamp maxAge recovery (v_plans v).
Proof.
  unfold open_workstream, select_vault, select, search_index, repair_index. cbn [v_plans v_stale].
  now rewrite app_nil_r.
Qed.

Lemma open_workstream_no_index now stamp maxAge recovery implements s :
  open_workstream now stamp maxAge recovery implements {| v_plans := s; v_stale := [] |} =
  select now stamp maxAge recovery s.
Proof.
  unfold open_workstream, select_vault, select, search_index, repair_index.
  destruct implements; cbn [v_plans v_stale]; now rewrite app_nil_r.
Qed.

(* the boundary: a plan whose most recent activity is exactly maxAge old is NOT stale (Before is strict) *)
Lemma boundary_is_live now maxAge p m :
  latest_activity p m -> (m + maxAge = instant now)%Z -> ~ is_stale now maxAge p.
Proof.
  intros Hm E [m' [Hm' H]]. rewrite (latest_activity_unique p _ _ Hm' Hm) in H. lia.
Qed.


