(* What a list of Update* calls does to a store whose primary keys are unique. *)
From Coq Require Import Lia Permutation.
From Coercion.Base Require Import Plan.
From Coercion.Select Require Import Rows RowsProofs Select.

(* the rewriting accumulated by a list of writes *)
Definition g_writes (ws : list row) (G0 : gmap) : gmap :=
  fold_left (fun G w => gcomp (g_write w) G) ws G0.

Lemma persist_map ws : forall s G,
  persist (map (tm_plan G) s) ws = map (tm_plan (g_writes ws G)) s.
Proof.
  induction ws as [|w ws IH]; intros s G; simpl; [reflexivity|].
  change (persist (apply_write (map (tm_plan G) s) w) ws = map (tm_plan (g_writes ws (gcomp (g_write w) G))) s).
  unfold apply_write. rewrite map_map.
  rewrite (map_ext _ (tm_plan (gcomp (g_write w) G))) by (intro; apply tm_plan_fuse).
  apply IH.
Qed.

Lemma persist_map0 s ws : persist s ws = map (tm_plan (g_writes ws gid)) s.
Proof.
  rewrite <- persist_map. f_equal.
  rewrite (map_ext _ (fun p => p)) by (intro; apply tm_plan_gid). symmetry. apply map_id.
Qed.

(* one write on one row: the row is replaced when table and id match *)
Definition wstep (acc w : row) : row := if key_eqb w acc then w else acc.

Lemma gapp_g_write w r : gapp (g_write w) r = wstep r w.
Proof.
  unfold wstep.
  destruct w, r; simpl; try reflexivity; rewrite (N.eqb_sym id0 id);
    destruct (N.eqb id id0) eqn:E; try reflexivity; apply N.eqb_eq in E; now subst.
Qed.

Lemma gapp_g_writes ws : forall G r, gapp (g_writes ws G) r = fold_left wstep ws (gapp G r).
Proof.
  induction ws as [|w ws IH]; intros G r; simpl; [reflexivity|].
  unfold g_writes in *. simpl. rewrite IH, gapp_gcomp, gapp_g_write. reflexivity.
Qed.

Lemma wstep_key acc w : row_key (wstep acc w) = row_key acc.
Proof.
  unfold wstep. destruct (key_eqb w acc) eqn:E; [|reflexivity]. now apply key_eqb_spec.
Qed.

Lemma fold_wstep_none ws : forall r,
  (forall w, In w ws -> row_key w <> row_key r) -> fold_left wstep ws r = r.
Proof.
  induction ws as [|w ws IH]; intros r H; simpl; [reflexivity|].
  assert (Hw : wstep r w = r).
  { unfold wstep. destruct (key_eqb w r) eqn:E; [|reflexivity].
    apply key_eqb_spec in E. exfalso. apply (H w); [now left|exact E]. }
  rewrite Hw. apply IH. intros w' Hw'. apply H. now right.
Qed.

Lemma fold_wstep_hit ws : forall r w0,
  NoDup (map row_key ws) -> In w0 ws -> row_key w0 = row_key r -> fold_left wstep ws r = w0.
Proof.
  induction ws as [|w ws IH]; intros r w0 Hnd Hin Hk; simpl; [contradiction|].
  simpl in Hnd. apply NoDup_cons_iff in Hnd as [Hnotin Hnd].
  destruct Hin as [->|Hin].
  - assert (Hw : wstep r w0 = w0).
    { unfold wstep. destruct (key_eqb w0 r) eqn:E; [reflexivity|].
      assert (key_eqb w0 r = true) by now apply key_eqb_spec. congruence. }
    rewrite Hw. apply fold_wstep_none. intros w Hw' Heq. apply Hnotin.
    rewrite <- Heq. now apply in_map.
  - assert (Hw : wstep r w = r).
    { unfold wstep. destruct (key_eqb w r) eqn:E; [|reflexivity].
      apply key_eqb_spec in E. exfalso. apply Hnotin. rewrite E, <- Hk. now apply in_map. }
    rewrite Hw. now apply IH.
Qed.

(* a plan none of whose rows is written stays as it is *)
Lemma writes_other ws q :
  (forall w r, In w ws -> In r (rows_plan q) -> row_key w <> row_key r) ->
  tm_plan (g_writes ws gid) q = q.
Proof.
  intros H. rewrite <- (tm_plan_gid q) at 2. apply tm_plan_ext. intros r Hr.
  rewrite gapp_g_writes, gapp_gid. apply fold_wstep_none. intros w Hw. now apply H.
Qed.

(* writing every row of the rewritten in-memory plan [tm_plan M p], in ANY order, over the stored [p]
   stores it *)
Lemma writes_self M p ws :
  NoDup (map row_key ws) -> (forall w, In w ws <-> In w (rows_plan (tm_plan M p))) ->
  tm_plan (g_writes ws gid) p = tm_plan M p.
Proof.
  intros Hnd Hiff. apply tm_plan_ext. intros r Hr.
  rewrite gapp_g_writes, gapp_gid. apply fold_wstep_hit.
  - exact Hnd.
  - apply Hiff. rewrite rows_tm_plan. now apply in_map.
  - apply gapp_key.
Qed.

(* ---- NoDup helpers ---- *)
Lemma NoDup_app_disj {A} (l1 l2 : list A) :
  NoDup (l1 ++ l2) -> forall x, In x l1 -> ~ In x l2.
Proof.
  induction l1 as [|a l1 IH]; simpl; intros Hnd x Hx; [contradiction|].
  apply NoDup_cons_iff in Hnd as [Hn Hnd]. destruct Hx as [->|Hx].
  - intros H2. apply Hn. apply in_or_app. now right.
  - now apply IH.
Qed.

Lemma NoDup_app_l {A} (l1 l2 : list A) : NoDup (l1 ++ l2) -> NoDup l1.
Proof.
  induction l1 as [|a l1 IH]; simpl; intros Hnd; [constructor|].
  apply NoDup_cons_iff in Hnd as [Hn Hnd]. constructor; [|now apply IH].
  intros H. apply Hn. apply in_or_app. now left.
Qed.

Lemma NoDup_app_r {A} (l1 l2 : list A) : NoDup (l1 ++ l2) -> NoDup l2.
Proof.
  induction l1 as [|a l1 IH]; simpl; intros Hnd; [exact Hnd|].
  apply NoDup_cons_iff in Hnd as [_ Hnd]. now apply IH.
Qed.

Lemma rows_store_app s1 s2 : rows_store (s1 ++ s2) = rows_store s1 ++ rows_store s2.
Proof. unfold rows_store. apply flat_map_app. Qed.

Lemma rows_store_single p : rows_store [p] = rows_plan p.
Proof. unfold rows_store. cbn [flat_map]. apply app_nil_r. Qed.

Lemma in_rows_store r s : In r (rows_store s) <-> exists q, In q s /\ In r (rows_plan q).
Proof. unfold rows_store. apply in_flat_map. Qed.

(* ---- one aged plan: the store after its writes ---- *)
Lemma persist_split M s1 p s2 ws :
  keys_unique (s1 ++ p :: s2) ->
  NoDup (map row_key ws) -> (forall w, In w ws <-> In w (rows_plan (tm_plan M p))) ->
  persist (s1 ++ p :: s2) ws = s1 ++ tm_plan M p :: s2.
Proof.
  unfold keys_unique. intros Hnd Hws Hiff.
  change (p :: s2) with ([p] ++ s2) in Hnd.
  rewrite !rows_store_app, !map_app in Hnd.
  rewrite rows_store_single in Hnd.
  assert (Hkw : forall w, In w ws -> In (row_key w) (map row_key (rows_plan p))).
  { intros w Hw. rewrite <- (keys_tm_plan M p). apply in_map. now apply Hiff. }
  rewrite persist_map0, map_app. cbn [map]. f_equal; [|f_equal].
  - rewrite <- (map_id s1) at 2. apply map_ext_in. intros q Hq. apply writes_other.
    intros w r Hw Hr Heq.
    apply (NoDup_app_disj _ _ Hnd (row_key r)).
    + apply in_map. apply in_rows_store. now exists q.
    + apply in_or_app. left. rewrite <- Heq. now apply Hkw.
  - now apply writes_self.
  - rewrite <- (map_id s2) at 2. apply map_ext_in. intros q Hq. apply writes_other.
    intros w r Hw Hr Heq.
    apply NoDup_app_r in Hnd.
    apply (NoDup_app_disj _ _ Hnd (row_key w)).
    + now apply Hkw.
    + rewrite Heq. apply in_map. apply in_rows_store. now exists q.
Qed.

(* the plan row moved to the end of the list *)
Lemma rotate_in {A} (a : A) l x : In x (l ++ [a]) <-> In x (a :: l).
Proof. rewrite in_app_iff. simpl. tauto. Qed.

Lemma rotate_nodup {A} (a : A) l : NoDup (a :: l) -> NoDup (l ++ [a]).
Proof. apply Permutation_NoDup. apply Permutation_cons_append. Qed.

Lemma keys_unique_pids s : keys_unique s -> NoDup (map pid s).
Proof.
  unfold keys_unique. induction s as [|q s IH]; intros Hnd; [constructor|].
  change (q :: s) with ([q] ++ s) in Hnd.
  rewrite rows_store_app, rows_store_single, map_app in Hnd.
  cbn [map]. constructor.
  - intros Hin. apply in_map_iff in Hin as [q' [Hpid Hq']].
    apply (NoDup_app_disj _ _ Hnd (TPlan, pid q)).
    + apply in_map_iff. exists (RPlan (oid (p_id q)) (p_state q) (p_reason q)).
      split; [reflexivity|]. unfold rows_plan. now left.
    + apply in_map_iff. exists (RPlan (oid (p_id q')) (p_state q') (p_reason q')). split.
      * cbn [row_key]. unfold pid in Hpid. now rewrite Hpid.
      * apply in_rows_store. exists q'. split; [exact Hq'|]. unfold rows_plan. now left.
  - apply IH. now apply NoDup_app_r in Hnd.
Qed.

Lemma keys_unique_tm M s1 p s2 :
  keys_unique (s1 ++ p :: s2) -> keys_unique (s1 ++ tm_plan M p :: s2).
Proof.
  unfold keys_unique. intros H.
  change (p :: s2) with ([p] ++ s2) in H. change (tm_plan M p :: s2) with ([tm_plan M p] ++ s2).
  rewrite !rows_store_app, !map_app in *.
  assert (E : map row_key (rows_store [tm_plan M p]) = map row_key (rows_store [p])).
  { rewrite !rows_store_single. apply keys_tm_plan. }
  now rewrite E.
Qed.
