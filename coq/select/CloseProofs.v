(* An interrupted close, repeated by the next start-up, is the close (R10). *)
From Coq Require Import Lia.
From Coercion.Base Require Import Plan.
From Coercion.Select Require Import Rows RowsProofs Select SelectSpec PersistProofs SelectProofs CrashProofs.

(* ---- raw values of lastUpdate: the zero time, or an instant after it ---- *)
Definition raw_ok (x : Z) : Prop := x = 0%Z \/ (year1 < inst x)%Z.

Lemma upd_time_raw a t : raw_ok a -> raw_ok (upd_time a t).
Proof.
  unfold upd_time, t_after. intros Ha. destruct (Z.ltb (inst a) (inst t)) eqn:E; [|exact Ha].
  apply Z.ltb_lt in E. right.
  assert (year1 <= inst a)%Z by (destruct Ha as [->|Ha]; [unfold inst; simpl; lia|lia]). lia.
Qed.

Lemma upd_row_raw a r : raw_ok a -> raw_ok (upd_row a r).
Proof.
  unfold upd_row. intros Ha.
  assert (H1 : raw_ok (upd_last a (row_state r))).
  { unfold upd_last. destruct (row_state r); [now apply upd_time_raw, upd_time_raw|exact Ha]. }
  revert H1. generalize (upd_last a (row_state r)). induction (row_attempts r) as [|x l IH]; intros b Hb; [exact Hb|].
  cbn [fold_left]. apply IH. unfold upd_attempt. now apply upd_time_raw, upd_time_raw.
Qed.

Lemma last_update_raw p : raw_ok (last_update p).
Proof.
  unfold last_update. assert (H : raw_ok 0%Z) by now left. revert H. generalize 0%Z.
  induction (rows_plan p) as [|r l IH]; intros a Ha; [exact Ha|]. cbn [fold_left]. apply IH. now apply upd_row_raw.
Qed.

Lemma raw_inst_inj a b : raw_ok a -> raw_ok b -> inst a = inst b -> a = b.
Proof.
  intros [->|Ha] [->|Hb] E; try reflexivity.
  - exfalso. rewrite <- E in Hb. unfold inst in Hb. simpl in Hb. lia.
  - exfalso. rewrite E in Ha. unfold inst in Ha. simpl in Ha. lia.
  - assert (a <> 0%Z) by (intros ->; unfold inst in Ha; simpl in Ha; lia).
    assert (b <> 0%Z) by (intros ->; unfold inst in Hb; simpl in Hb; lia).
    unfold inst in E. destruct (Z.eqb_spec a 0); [contradiction|]. destruct (Z.eqb_spec b 0); [contradiction|]. exact E.
Qed.

(* ---- closing one row ---- *)
Lemma key_plan_row a b : row_key a = row_key b -> is_plan_row a = is_plan_row b.
Proof. destruct a, b; simpl; intros H; try reflexivity; discriminate H. Qed.

(* times of a closed child row: the old ones, or the plan's last activity *)
Lemma closed_row_times L stamp r t :
  is_plan_row r = false -> In t (row_times (gapp (g_age L stamp) r)) -> In t (row_times r) \/ instant L = t.
Proof.
  destruct r as [id st rs|id [s|]|id [s|]|id [s|]|id att [s|]]; intros Hp; try discriminate Hp; cbn; try tauto;
    unfold fail_running; destruct (s_status s); cbn; intuition.
Qed.

Lemma closed_row_keeps L stamp r :
  is_plan_row r = false -> In (instant L) (row_times r) -> In (instant L) (row_times (gapp (g_age L stamp) r)).
Proof.
  destruct r as [id st rs|id [s|]|id [s|]|id [s|]|id att [s|]]; intros Hp; try discriminate Hp; cbn; try tauto;
    unfold fail_running; destruct (s_status s); cbn; intuition.
Qed.

Lemma fail_running_idem L s : fail_running L (fail_running L s) = fail_running L s.
Proof. unfold fail_running. destruct s as [[] a b]; reflexivity. Qed.

Lemma closed_row_idem L a b r :
  is_plan_row r = false -> gapp (g_age L a) (gapp (g_age L b) r) = gapp (g_age L a) r.
Proof.
  destruct r as [id st rs|id [s|]|id [s|]|id [s|]|id att [s|]]; intros Hp; try discriminate Hp; cbn;
    try reflexivity; now rewrite fail_running_idem.
Qed.

(* ---- a partially closed plan: some child rows already closed, the plan row untouched ---- *)
Definition pclose (L stamp : Z) (G : gmap) (p : plan) : Prop :=
  forall r, In r (rows_plan p) ->
            gapp G r = r \/ (is_plan_row r = false /\ gapp G r = gapp (g_age L stamp) r).

Lemma pclose_last_update stamp G p :
  pclose (last_update p) stamp G p -> last_update (tm_plan G p) = last_update p.
Proof.
  intros H. apply raw_inst_inj; try apply last_update_raw.
  apply (latest_activity_unique (tm_plan G p)); [apply last_update_latest|].
  destruct (last_update_latest p) as [A1 [A2 A3]]. set (L := last_update p) in *.
  assert (Hin : forall t, In t (plan_times (tm_plan G p)) <->
                          exists r, In r (rows_plan p) /\ In t (row_times (gapp G r))).
  { intros t. rewrite <- in_plan_times, rows_tm_plan, in_flat_map. split.
    - intros [r' [Hr' Ht]]. apply in_map_iff in Hr' as [r [<- Hr]]. now exists r.
    - intros [r [Hr Ht]]. exists (gapp G r). split; [now apply in_map|exact Ht]. }
  assert (Hp : forall t, In t (plan_times p) <-> exists r, In r (rows_plan p) /\ In t (row_times r)).
  { intros t. rewrite <- in_plan_times, in_flat_map. reflexivity. }
  repeat split.
  - exact A1.
  - intros t Ht. apply Hin in Ht as [r [Hr Ht]]. destruct (H r Hr) as [E|[Hn E]]; rewrite E in Ht.
    + apply A2. apply Hp. now exists r.
    + apply closed_row_times in Ht; [|exact Hn]. destruct Ht as [Ht|<-].
      * apply A2. apply Hp. now exists r.
      * change (instant L) with (inst L). lia.
  - destruct A3 as [A3|A3]; [now left|right].
    apply Hp in A3 as [r [Hr Ht]]. apply Hin. exists r. split; [exact Hr|].
    destruct (H r Hr) as [E|[Hn E]]; rewrite E; [exact Ht|].
    change (inst L) with (instant L) in *. now apply closed_row_keeps.
Qed.

Lemma pclose_idem L a b G p :
  pclose L b G p -> tm_plan (g_age L a) (tm_plan G p) = tm_plan (g_age L a) p.
Proof.
  intros H. rewrite tm_plan_fuse. apply tm_plan_ext. intros r Hr. rewrite gapp_gcomp.
  destruct (H r Hr) as [E|[Hn E]]; rewrite E; [reflexivity|now apply closed_row_idem].
Qed.

Lemma pclose_running L stamp G p : pclose L stamp G p -> durably_running (tm_plan G p) = durably_running p.
Proof.
  intros H. assert (Hr : In (RPlan (oid (p_id p)) (p_state p) (p_reason p)) (rows_plan p)) by (unfold rows_plan; now left).
  destruct (H _ Hr) as [E|[Hn _]]; [|discriminate Hn].
  cbn [gapp] in E. injection E as E1 E2.
  unfold durably_running, tm_plan, plan_with. cbn [p_state]. now rewrite E1.
Qed.

(* ---- the rewriting done by a prefix of the close's writes ---- *)
Lemma nodup_key_inj (l : list row) a b :
  NoDup (map row_key l) -> In a l -> In b l -> row_key a = row_key b -> a = b.
Proof.
  induction l as [|x l IH]; intros Hnd Ha Hb E; [contradiction|].
  cbn [map] in Hnd. apply NoDup_cons_iff in Hnd as [Hn Hnd].
  destruct Ha as [->|Ha], Hb as [->|Hb]; try reflexivity.
  - exfalso. apply Hn. rewrite E. now apply in_map.
  - exfalso. apply Hn. rewrite <- E. now apply in_map.
  - now apply IH.
Qed.

Lemma in_firstn {A} (x : A) n l : In x (firstn n l) -> In x l.
Proof. intros H. rewrite <- (firstn_skipn n l). apply in_or_app. now left. Qed.

Lemma NoDup_firstn {A} n (l : list A) : NoDup l -> NoDup (firstn n l).
Proof. intros H. rewrite <- (firstn_skipn n l) in H. now apply NoDup_app_l in H. Qed.

Lemma prefix_pclose L stamp p j :
  NoDup (map row_key (rows_plan p)) ->
  (j <= length (tl (rows_plan (tm_plan (g_age L stamp) p))))%nat ->
  pclose L stamp (g_writes (firstn j (writes_aged (tm_plan (g_age L stamp) p))) gid) p.
Proof.
  intros Hnd Hj r Hr. set (M := g_age L stamp) in *. set (pm := tm_plan M p) in *.
  unfold writes_aged. rewrite firstn_app.
  replace (j - length (tl (rows_plan pm)))%nat with 0%nat by lia. cbn [firstn]. rewrite app_nil_r.
  set (pre := firstn j (tl (rows_plan pm))).
  rewrite gapp_g_writes, gapp_gid.
  assert (Hkeys : NoDup (map row_key (rows_plan pm))) by (unfold pm; now rewrite keys_tm_plan).
  assert (Hpre_nd : NoDup (map row_key pre)).
  { unfold pre. rewrite <- firstn_map. apply NoDup_firstn.
    assert (E : map row_key (rows_plan pm) = row_key (plan_row pm) :: map row_key (tl (rows_plan pm))) by reflexivity.
    rewrite E in Hkeys. now apply NoDup_cons_iff in Hkeys. }
  assert (Hpre_in : forall w, In w pre -> is_plan_row w = false /\ exists r', In r' (rows_plan p) /\ w = gapp M r').
  { intros w Hw. apply in_firstn in Hw. split.
    - assert (F := rows_plan_tail_no_plan pm). rewrite Forall_forall in F. now apply F.
    - assert (Hw' : In w (rows_plan pm)) by (unfold rows_plan; right; exact Hw).
      unfold pm in Hw'. rewrite rows_tm_plan in Hw'. apply in_map_iff in Hw' as [r' [<- Hr']]. now exists r'. }
  destruct (existsb (fun w => key_eqb w r) pre) eqn:Ex.
  - apply existsb_exists in Ex as [w [Hw Ek]]. apply key_eqb_spec in Ek.
    right. destruct (Hpre_in w Hw) as [Hnp [r' [Hr' ->]]].
    assert (r' = r).
    { apply (nodup_key_inj (rows_plan p)); try assumption. now rewrite <- Ek, gapp_key. }
    subst r'. split.
    + rewrite <- (key_plan_row _ _ Ek). exact Hnp.
    + now apply fold_wstep_hit.
  - left. apply fold_wstep_none. intros w Hw Ek.
    assert (key_eqb w r = true) by now apply key_eqb_spec.
    assert (existsb (fun w => key_eqb w r) pre = true) by (apply existsb_exists; now exists w). congruence.
Qed.

Lemma full_close M p j :
  NoDup (map row_key (rows_plan p)) ->
  (length (writes_aged (tm_plan M p)) <= j)%nat ->
  tm_plan (g_writes (firstn j (writes_aged (tm_plan M p))) gid) p = tm_plan M p.
Proof.
  intros Hnd Hj. rewrite firstn_all2 by exact Hj. apply writes_self.
  - apply writes_aged_nodup. now rewrite keys_tm_plan.
  - apply writes_aged_in.
Qed.

(* ---- stores ---- *)
Lemma keys_map_tm G s : map row_key (rows_store (map (tm_plan G) s)) = map row_key (rows_store s).
Proof.
  induction s as [|q s IH]; [reflexivity|].
  change (q :: s) with ([q] ++ s). rewrite map_app, !rows_store_app, !map_app, IH.
  cbn [map]. rewrite !rows_store_single, keys_tm_plan. reflexivity.
Qed.

Lemma keys_unique_map_tm G s : keys_unique s -> keys_unique (map (tm_plan G) s).
Proof. unfold keys_unique. now rewrite keys_map_tm. Qed.

Lemma keys_unique_in s p : keys_unique s -> In p s -> NoDup (map row_key (rows_plan p)).
Proof.
  unfold keys_unique. intros Hk Hp. destruct (in_split p s Hp) as [s1 [s2 ->]].
  change (p :: s2) with ([p] ++ s2) in Hk. rewrite !rows_store_app, !map_app, rows_store_single in Hk.
  apply NoDup_app_r in Hk. now apply NoDup_app_l in Hk.
Qed.

Lemma same_pid_same_plan s p q : keys_unique s -> In p s -> In q s -> pid q = pid p -> q = p.
Proof.
  intros Hk Hp Hq E. assert (Hnd := keys_unique_pids s Hk).
  assert (R1 := read_in s Hnd q Hq). assert (R2 := read_in s Hnd p Hp). rewrite E in R1. congruence.
Qed.

Lemma is_stale_later now now' maxAge p :
  is_stale now maxAge p -> (instant now <= instant now')%Z -> is_stale now' maxAge p.
Proof. intros [m [Hm H]] Hle. exists m. split; [exact Hm|lia]. Qed.

(* ================= interrupted close + repeated close = close ================= *)
Lemma interrupted_close_then_restart_closes :
  forall (s : list plan) (stamp : Z) (p : plan) (j : nat) (now' stamp' maxAge : Z),
    keys_unique s -> In p s -> is_running p -> is_stale now' maxAge p ->
    let s1 := persist s (firstn j (writes_aged (age_out stamp p))) in
    let r := select now' stamp' maxAge true s1 in
    Forall2 (fun q q' =>
               pid q = pid p ->
               q' = close_plan (last_update p)
                               (if Nat.ltb j (length (writes_aged (age_out stamp p))) then stamp' else stamp) p /\
               nothing_running q' /\ status_of (p_state q') = Some Failed /\ p_reason q' = FRExceedRecovery)
            s (fst r) /\
    ~ In (pid p) (snd r).
Proof.
  intros s stamp p j now' stamp' maxAge Hk Hp Hr Hs. cbv zeta.
  rewrite age_out_tm. set (L := last_update p). set (M := g_age L stamp).
  set (ws := writes_aged (tm_plan M p)). set (G := g_writes (firstn j ws) gid).
  rewrite persist_map0. fold G.
  rewrite (select_on now' stamp' maxAge _ (keys_unique_map_tm G s Hk)). cbn [fst snd].
  assert (Hnd := keys_unique_in s p Hk Hp).
  assert (Hlen : length ws = S (length (tl (rows_plan (tm_plan M p))))).
  { unfold ws, writes_aged. rewrite app_length. cbn [length]. lia. }
  assert (Hrun : p_state p <> None) by (unfold is_running, status_of in Hr; destruct (p_state p); [discriminate|discriminate Hr]).
  (* what the next start-up makes of p's row *)
  assert (Hcore : (if aged_now now' maxAge (tm_plan G p) then close_of stamp' (tm_plan G p) else tm_plan G p) =
                  close_plan L (if Nat.ltb j (length ws) then stamp' else stamp) p /\
                  live_now now' maxAge (tm_plan G p) = false).
  { destruct (Nat.ltb j (length ws)) eqn:Ej.
    - apply Nat.ltb_lt in Ej.
      assert (Hpc : pclose L stamp G p) by (apply prefix_pclose; [exact Hnd|fold M; lia]).
      assert (El : last_update (tm_plan G p) = L) by (apply (pclose_last_update stamp); exact Hpc).
      assert (Est : stale now' maxAge (tm_plan G p) = true).
      { unfold stale. rewrite El. fold L. apply stale_iff in Hs. exact Hs. }
      assert (Erun : durably_running (tm_plan G p) = true).
      { rewrite (pclose_running L stamp G p Hpc). now apply running_iff. }
      unfold aged_now, live_now. rewrite Erun, Est. cbn [andb negb]. split; [|reflexivity].
      unfold close_of. rewrite El, <- (tm_plan_close L stamp'), (pclose_idem L stamp' stamp G p Hpc).
      apply tm_plan_close.
    - apply Nat.ltb_ge in Ej.
      assert (E : tm_plan G p = close_plan L stamp p).
      { unfold G, ws. rewrite full_close by (try exact Hnd; exact Ej). apply tm_plan_close. }
      assert (Erun : durably_running (tm_plan G p) = false).
      { rewrite E. unfold durably_running, close_plan. cbn [p_state]. destruct (p_state p); reflexivity. }
      unfold aged_now, live_now. rewrite Erun. cbn [andb]. split; [exact E|reflexivity]. }
  destruct Hcore as [Hc1 Hc2]. split.
  - rewrite map_map. apply Forall2_map_r. intros q Hq Hid.
    rewrite (same_pid_same_plan s p q Hk Hp Hq Hid). rewrite Hc1.
    split; [reflexivity|]. split; [apply close_plan_nothing_running|]. split; [|reflexivity].
    unfold close_plan, status_of. cbn [p_state]. destruct (p_state p); [reflexivity|contradiction].
  - intros Hin. apply in_map_iff in Hin as [q1 [Hid Hq1]]. apply filter_In in Hq1 as [Hq1 Hlive].
    apply in_map_iff in Hq1 as [q [<- Hq]]. rewrite pid_tm_plan in Hid.
    rewrite (same_pid_same_plan s p q Hk Hp Hq Hid) in Hlive. congruence.
Qed.
