(* C11 - Only live Running plans are resumed; stale ones closed, others untouched.

   "On start-up exactly the plans durably in Running state are considered: plans never started stay
    untouched and terminal plans are never executed or modified again.  A Running plan whose most recent
    recorded activity is older than the configured maximum is not resumed but closed as Failed with
    reason ExceedRecovery, with no plugin invoked and nothing in it left Running; with recovery disabled
    nothing is resumed or modified."

   Model (Coercion.Select.Select, a transcription of internal/execute/recovery.go and of the recovery
   part of execute.New): [select now stamp maxAge recovery store] returns the durable store afterwards
   and the ids handed to runPlan (a plugin can only be invoked for, and Wait only learns, those ids).
   [now] is the time.Now() of filterPlans, [stamp] stands for the time.Now() readings taken while
   ageing out.  The store is a list of plans; Update* calls rewrite the row with the same table and id
   (Rows.v), and the aged plan is persisted as the list of Update* calls the code makes.

   Specification (Coercion.Select.SelectSpec, written over the plan tree without the row machinery):
   [is_running], [latest_activity] (the latest start / end of any object and of any attempt of any
   action) / [is_stale] (strict, as time.Before), [close_plan] (the exact
   post-state of a closed plan), [nothing_running].

   Premise [keys_unique]: no two rows of the same table of the store carry the same id (the primary
   keys of the sqlite tables / cosmos items).  Nothing else is assumed: every store, every now, stamp
   and maxAge (also zero or negative), both values of the flag. *)
From Coercion.Base Require Import Plan.
From Coercion.Select Require Import Rows Select SelectSpec SelectProofs CrashProofs CloseProofs SelectExamples.

Theorem c11_resume_selection :
  forall (s : list plan) (now stamp maxAge : Z) (recovery : bool),
    keys_unique s ->
    let s' := fst (select now stamp maxAge recovery s) in
    let resumed := snd (select now stamp maxAge recovery s) in
    (* recovery disabled: the store is unchanged and nothing is resumed *)
    (recovery = false -> s' = s /\ resumed = []) /\
    (recovery = true ->
       (* exactly the Running plans that are not stale are resumed, each once *)
       (forall id, In id resumed <->
                   exists p, In p s /\ pid p = id /\ is_running p /\ ~ is_stale now maxAge p) /\
       NoDup resumed /\
       (* the store afterwards, plan by plan (same positions) *)
       Forall2 (fun p p' =>
                  (* Running and stale: closed, exactly [close_plan]; nothing Running; not resumed *)
                  (is_running p /\ is_stale now maxAge p ->
                     p' = close_plan (last_update p) stamp p /\ nothing_running p' /\
                     status_of (p_state p') = Some Failed /\ p_reason p' = FRExceedRecovery /\
                     ~ In (pid p) resumed) /\
                  (* everything else is identical afterwards *)
                  (~ (is_running p /\ is_stale now maxAge p) -> p' = p) /\
                  (* NotStarted / Completed / Failed / Stopped plans are never executed *)
                  (~ is_running p -> ~ In (pid p) resumed) /\
                  (* live Running plans are resumed *)
                  (is_running p /\ ~ is_stale now maxAge p -> In (pid p) resumed)) s s').
Proof. exact resume_selection. Qed.
Print Assumptions c11_resume_selection.

(* the clauses of the property one by one *)
Theorem c11_recovery_disabled :
  forall (s : list plan) (now stamp maxAge : Z),
    select now stamp maxAge false s = (s, []).
Proof. exact no_recovery_nothing_happens. Qed.
Print Assumptions c11_recovery_disabled.

Theorem c11_non_running_untouched :
  forall (s : list plan) (now stamp maxAge : Z) (recovery : bool),
    keys_unique s ->
    Forall2 (fun p p' => ~ is_running p ->
                         p' = p /\ ~ In (pid p) (snd (select now stamp maxAge recovery s)))
            s (fst (select now stamp maxAge recovery s)).
Proof. exact non_running_untouched. Qed.
Print Assumptions c11_non_running_untouched.

Theorem c11_stale_running_closed :
  forall (s : list plan) (now stamp maxAge : Z),
    keys_unique s ->
    Forall2 (fun p p' => is_running p -> is_stale now maxAge p ->
                         p' = close_plan (last_update p) stamp p /\ nothing_running p' /\
                         status_of (p_state p') = Some Failed /\ p_reason p' = FRExceedRecovery /\
                         ~ In (pid p) (snd (select now stamp maxAge true s)))
            s (fst (select now stamp maxAge true s)).
Proof. exact stale_running_closed. Qed.
Print Assumptions c11_stale_running_closed.

Theorem c11_live_running_resumed :
  forall (s : list plan) (now stamp maxAge : Z) (p : plan),
    keys_unique s -> In p s -> is_running p -> ~ is_stale now maxAge p ->
    In (pid p) (snd (select now stamp maxAge true s)).
Proof. exact live_running_resumed. Qed.
Print Assumptions c11_live_running_resumed.

(* what the specification's words mean, tied to what the code computes *)
Theorem c11_last_update_is_latest_activity :
  forall p : plan, latest_activity p (inst (last_update p)).
Proof. exact last_update_latest. Qed.
Print Assumptions c11_last_update_is_latest_activity.

Theorem c11_closed_plan_has_nothing_running :
  forall (last stamp : Z) (p : plan), nothing_running (close_plan last stamp p).
Proof. exact close_plan_nothing_running. Qed.
Print Assumptions c11_closed_plan_has_nothing_running.

(* the boundary: activity exactly maxAge old is not stale (time.Before is strict) *)
Theorem c11_boundary_is_live :
  forall (now maxAge : Z) (p : plan) (m : Z),
    latest_activity p m -> (m + maxAge = instant now)%Z -> ~ is_stale now maxAge p.
Proof. exact boundary_is_live. Qed.
Print Assumptions c11_boundary_is_live.

(* back ends with a separate search index (storage.Recovery, e.g. cosmosdb): coercion.New calls the
   Vault's Recovery() before execute.New, so whatever stale entries the index held ([v_stale]: finished
   plans still listed as Running), the outcome is that of [select] on the plan rows - to which every
   theorem above applies: such a plan is not a candidate, is not executed and is not modified *)
Theorem c11_storage_recovery_first :
  forall (now stamp maxAge : Z) (recovery : bool) (v : vault),
    open_workstream now stamp maxAge recovery true v = select now stamp maxAge recovery (v_plans v).
Proof. exact open_workstream_repairs_first. Qed.
Print Assumptions c11_storage_recovery_first.

(* An interrupted close (R10, fix f93b03f: children first, ending at the plan's last recorded activity;
   plan row LAST), repeated by the next start-up, is the close.

   For EVERY j: the store after the first j writes of the close of a Running plan p (a process that died,
   or whose (j+1)-th Update* failed, anywhere in the close), opened again by ANY later start-up at which p
   is stale ([is_stale now' maxAge p]: by c11_stale_is_monotone any later clock with the same maxAge), gives
   for p's row exactly the closed plan - [close_plan (last_update p) stamp' p], the plan row carrying the
   stamp of the start-up that finished the close (for j = all writes nothing is left to do and it is the
   first one's) - with nothing Running, Failed / ExceedRecovery, and p is not handed to runPlan (so no
   plugin runs).  Proof: a prefix of the close's writes leaves the plan row and [last_update] unchanged
   (every closed object ends at last_update p, which the maximum already ranges over), so p is found
   again, is stale again, and closing it again is idempotent (only Running objects are touched). *)
Theorem c11_interrupted_close_then_restart_closes :
  forall (s : list plan) (stamp : Z) (p : plan) (j : nat) (now' stamp' maxAge : Z),
    keys_unique s -> In p s -> is_running p -> is_stale now' maxAge p ->
    let s1 := persist s (firstn j (writes_aged (age_out stamp p))) in
    let r := select now' stamp' maxAge true s1 in
    Forall2 (fun q q' =>
               pid q = pid p ->
               q' = close_plan (last_update p)
                               (if Nat.ltb j (length (writes_aged (age_out stamp p))) then stamp' else stamp) p /\
               nothing_running q' /\ status_of (p_state q') = Some Failed /\ p_reason q' = FRExceedRecovery)
            s (fst r) /\
    ~ In (pid p) (snd r).
Proof. exact interrupted_close_then_restart_closes. Qed.
Print Assumptions c11_interrupted_close_then_restart_closes.

Theorem c11_stale_is_monotone :
  forall (now now' maxAge : Z) (p : plan),
    is_stale now maxAge p -> (instant now <= instant now')%Z -> is_stale now' maxAge p.
Proof. exact is_stale_later. Qed.
Print Assumptions c11_stale_is_monotone.

(* a prefix of the close does not change what lastUpdate returns *)
Theorem c11_close_prefix_keeps_last_update :
  forall (stamp : Z) (G : gmap) (p : plan),
    pclose (last_update p) stamp G p -> last_update (tm_plan G p) = last_update p.
Proof. exact pclose_last_update. Qed.
Print Assumptions c11_close_prefix_keeps_last_update.

(* one ingredient, kept as a statement of its own: as long as the last write (the plan row) has not been
   made, every row of the plans table is exactly as before *)
Theorem c11_interrupted_close_keeps_plan_rows_partial :
  forall (s : list plan) (stamp : Z) (p : plan) (j : nat),
    (j <= length (tl (rows_plan (age_out stamp p))))%nat ->
    map head_cols (persist s (firstn j (writes_aged (age_out stamp p)))) = map head_cols s.
Proof. exact interrupted_close_keeps_plan_rows. Qed.
Print Assumptions c11_interrupted_close_keeps_plan_rows_partial.

(* [crash_during_close] with all the writes let through is the store [select] returns *)
Theorem c11_crash_after_all_writes :
  forall (now stamp maxAge : Z) (s : list plan),
    crash_during_close (length (close_writes now stamp maxAge s)) now stamp maxAge s =
    fst (select now stamp maxAge true s).
Proof. exact crash_after_all_writes. Qed.
Print Assumptions c11_crash_after_all_writes.

(* execute.New with a recovery that may fail (R8, fix 2c25a0f).  [budget] = how many store operations of
   recovery succeed before one fails (None = all; 0 also stands for a context that is already done).
   nil error (Opened): exactly the outcome of [select] - every Running non-stale plan was resumed, every
   stale one closed (c11_resume_selection).  Error (Refused): there is no executor, so nothing was resumed
   by this process, and the store is what a prefix of the closes' writes left (to which
   c11_close_is_crash_safe applies). *)
Theorem c11_new_error_or_complete_recovery :
  forall (budget : option nat) (now stamp maxAge : Z) (recovery : bool) (s : list plan),
    (forall s' resumed, execute_new budget now stamp maxAge recovery s = Opened s' resumed ->
                        (s', resumed) = select now stamp maxAge recovery s) /\
    (forall s', execute_new budget now stamp maxAge recovery s = Refused s' ->
                recovery = true /\ exists j, s' = crash_during_close j now stamp maxAge s) /\
    (budget = None -> keys_unique s ->
     execute_new budget now stamp maxAge recovery s =
     Opened (fst (select now stamp maxAge recovery s)) (snd (select now stamp maxAge recovery s))).
Proof. exact new_error_or_complete_recovery. Qed.
Print Assumptions c11_new_error_or_complete_recovery.

(* the monitor of the correspondence check decides the specification's predicates *)
Theorem c11_monitor_predicates :
  forall (now maxAge : Z) (p : plan),
    (is_staleb now maxAge p = true <-> is_stale now maxAge p) /\
    (stale now maxAge p = true <-> is_stale now maxAge p) /\
    (durably_running p = true <-> is_running p).
Proof. exact monitor_predicates. Qed.
Print Assumptions c11_monitor_predicates.

(* ---- not vacuous: a store of six plans (never started; terminal with a stray Running child; Running
   and one tick too old, with Running block / sequence / action / check group / check action; Running
   and exactly maxAge old; Running with no recorded time; Running with old states and a recent attempt) ---- *)
Example c11_ex_keys : keys_unique ex_store.
Proof. exact ex_keys_unique. Qed.
Example c11_ex_resumed : snd (select ex_now ex_stamp ex_maxage true ex_store) = [40%N; 60%N].
Proof. vm_compute. reflexivity. Qed.
Example c11_ex_store_after :
  fst (select ex_now ex_stamp ex_maxage true ex_store) =
  [ex_fresh; ex_done; close_of ex_stamp ex_aged; ex_live; close_of ex_stamp ex_zero; ex_retry].
Proof. vm_compute. reflexivity. Qed.
Example c11_ex_boundary :
  stale ex_now ex_maxage ex_live = false /\ stale (ex_now + 1) ex_maxage ex_live = true.
Proof. vm_compute. split; reflexivity. Qed.
Example c11_ex_attempts_are_activity :
  last_update ex_retry = 9990%Z /\ stale ex_now ex_maxage ex_retry = false.
Proof. vm_compute. split; reflexivity. Qed.
(* without the repair (seeded change C11-d) a finished plan listed by the stale index is executed again
   (70) or rewritten as Failed / ExceedRecovery (20) *)
Example c11_ex_unrepaired_index_refutes :
  snd (open_workstream_late ex_now ex_stamp ex_maxage true ex_vault) = [40%N; 60%N; 70%N] /\
  nth 1 (fst (open_workstream_late ex_now ex_stamp ex_maxage true ex_vault)) ex_fresh = close_of ex_stamp ex_done /\
  close_of ex_stamp ex_done <> ex_done.
Proof. exact ex_vault_unrepaired_refutes. Qed.
(* every crash point j = 0..9 of the close of the example plan: the next start-up completes the close *)
Example c11_ex_interrupted_close_is_completed_every_j :
  forallb (fun j =>
             let r := ex_restart (crash_during_close j ex_now ex_stamp ex_maxage [ex_aged]) in
             match snd r with [] => true | _ => false end &&
             Nat.eqb (running_rows (fst r)) 0 &&
             match fst r with
             | [q] => list_eq_states (map row_state (rows_plan q))
                        (map row_state (rows_plan (close_plan 8999 (if Nat.ltb j 9 then 10101 else ex_stamp) ex_aged)))
                      && reason_eqb (p_reason q) FRExceedRecovery
             | _ => false
             end) (seq 0 10) = true.
Proof. exact ex_interrupted_close_is_completed_every_j. Qed.
Example c11_ex_last_update_unchanged_by_prefix :
  forallb (fun j => match crash_during_close j ex_now ex_stamp ex_maxage [ex_aged] with
                    | [q] => Z.eqb (last_update q) (if Nat.ltb j 9 then 8999 else 10001)
                    | _ => false end) (seq 0 10) = true.
Proof. exact ex_last_update_unchanged_by_prefix. Qed.
(* refuted orders: plan row first (before f93b03f, R10): 5 rows stay Running for good; children first but
   ending NOW (seeded C11-e): the half-closed plan looks live and is resumed *)
Example c11_ex_plan_row_first_refuted :
  running_rows (fst (ex_restart (persist [ex_aged] (firstn 1 (writes_plan_first (age_out_pre ex_stamp ex_aged)))))) = 5 /\
  snd (ex_restart (persist [ex_aged] (firstn 1 (writes_plan_first (age_out_pre ex_stamp ex_aged))))) = [].
Proof. exact ex_plan_row_first_refuted. Qed.
Example c11_ex_fresh_stamp_refuted :
  snd (ex_restart (persist [ex_aged] (firstn 3 (writes_aged (age_out_pre ex_stamp ex_aged))))) = [30%N] /\
  snd (ex_restart (persist [ex_aged] (firstn 3 (writes_aged (age_out ex_stamp ex_aged))))) = [].
Proof. exact ex_fresh_stamp_refuted. Qed.
Example c11_ex_r1_plan_row_only_leaves_running :
  running_rows (persist [ex_aged] (writes_plan_only (age_out ex_stamp ex_aged))) = 5 /\
  running_rows (persist [ex_aged] (writes_aged (age_out ex_stamp ex_aged))) = 0.
Proof. exact ex_r1_plan_row_only_leaves_running. Qed.
