(* findSecrets reports an error exactly when a field with a secret-looking name and neither tag is in reach of
   struct / pointer nesting; and the path it reports leads to such a field. *)
From Coercion.Secure Require Import GoVal Registry.

(* the field loop of find_secrets, named *)
Fixpoint fields_loop (i : nat) (l : list (tmeta * ty)) : option (list nat) :=
  match l with
  | [] => None
  | p :: r =>
      if offending (fst p) then Some [i]
      else match find_secrets (snd p) with
           | Some path => Some (i :: path)
           | None => fields_loop (S i) r
           end
  end.

Lemma find_secrets_struct : forall fs, find_secrets (TyStruct fs) = fields_loop 0 fs.
Proof.
  intros fs. simpl. generalize 0. induction fs as [|p r IH]; intros i; simpl; [reflexivity|].
  destruct (offending (fst p)); [reflexivity|].
  destruct (find_secrets (snd p)); [reflexivity|]. apply IH.
Qed.

Lemma fields_loop_none : forall l i, fields_loop i l = None <->
  (forall p, In p l -> offending (fst p) = false /\ find_secrets (snd p) = None).
Proof.
  induction l as [|p r IH]; intros i; simpl.
  - split; [intros _ q [] | reflexivity].
  - destruct (offending (fst p)) eqn:O.
    + split; [discriminate|]. intros H. destruct (H p (or_introl eq_refl)) as [H1 _]. congruence.
    + destruct (find_secrets (snd p)) eqn:F.
      * split; [discriminate|]. intros H. destruct (H p (or_introl eq_refl)) as [_ H2]. congruence.
      * rewrite IH. split.
        -- intros H q [<-|Hq]; [split; assumption | apply H; assumption].
        -- intros H q Hq. apply H. right. assumption.
Qed.

Theorem find_secrets_none : forall t,
  find_secrets t = None <-> (forall m, reach t m -> offending m = false).
Proof.
  induction t as [| | | | |fs IH|t IH|t IH|k t IHk IHt|t IH] using ty_ind';
    try (split; [intros _ m R; inversion R | reflexivity]).
  - (* struct *)
    rewrite find_secrets_struct, fields_loop_none. rewrite Forall_forall in IH. split.
    + intros H m R. inversion R as [fs' m' t Hin | fs' m0 t m' Hin Rt | | | | |]; subst.
      * destruct (H (m, t) Hin) as [H1 _]. exact H1.
      * destruct (H (m0, t) Hin) as [_ H2]. apply (proj1 (IH (m0, t) Hin) H2 m Rt).
    + intros H [m t] Hin. simpl. split.
      * apply H. eapply R_here. eassumption.
      * apply (IH (m, t) Hin). intros m' R. apply H. eapply R_field; eassumption.
  - (* pointer *)
    simpl. rewrite IH. split; intros H m R.
    + inversion R; subst. apply H. assumption.
    + apply H. constructor. assumption.
  - (* slice *)
    simpl. rewrite IH. split; intros H m R.
    + inversion R; subst. apply H. assumption.
    + apply H. constructor. assumption.
  - (* map *)
    simpl. destruct (find_secrets k) eqn:Fk.
    + split; [discriminate|]. intros H.
      assert (Hk : Some l = None) by (apply IHk; intros m R; apply H; apply R_map_key; exact R).
      discriminate.
    + rewrite IHt. split; intros H m R.
      * inversion R; subst; [apply (proj1 IHk eq_refl); assumption | apply H; assumption].
      * apply H. apply R_map_elem. assumption.
  - (* array *)
    simpl. rewrite IH. split; intros H m R.
    + inversion R; subst. apply H. assumption.
    + apply H. constructor. assumption.
Qed.

(* C17, registry: an error <-> some field reachable through struct fields and pointers (at any depth; NOT through
   slices, maps, arrays or interfaces, which the code does not follow) has a secret-looking name and neither tag *)
Theorem find_secrets_error_iff : forall t,
  find_secrets t <> None <-> exists m, reach t m /\ offending m = true.
Proof.
  intros t. split.
  - intros H. destruct (find_secrets t) eqn:F; [|congruence]. clear H.
    (* by contradiction-free search: decide over the finite type *)
    revert l F. induction t as [| | | | |fs IH|t IH|t IH|k t IHk IHt|t IH] using ty_ind'; intros path F; try discriminate.
    + rewrite find_secrets_struct in F. rewrite Forall_forall in IH.
      assert (G : forall l i path, (forall p, In p l -> In p fs) -> fields_loop i l = Some path ->
                                   exists m, reach (TyStruct fs) m /\ offending m = true).
      { induction l as [|p r IHl]; intros i pa Sub Fl; simpl in Fl; [discriminate|].
        destruct (offending (fst p)) eqn:O.
        - exists (fst p). split; [|assumption]. destruct p as [m t]. eapply R_here. apply Sub. left. reflexivity.
        - destruct (find_secrets (snd p)) as [pp|] eqn:Fp.
          + destruct p as [m t]. destruct (IH (m, t) (Sub _ (or_introl eq_refl)) pp Fp) as [m' [R Om]].
            exists m'. split; [|assumption]. eapply R_field; [apply Sub; left; reflexivity | exact R].
          + apply (IHl (S i) pa); [intros q Hq; apply Sub; right; assumption | assumption]. }
      apply (G fs 0 path (fun p H => H) F).
    + simpl in F. destruct (IH path F) as [m [R O]]. exists m. split; [constructor; assumption | assumption].
    + simpl in F. destruct (IH path F) as [m [R O]]. exists m. split; [constructor; assumption | assumption].
    + simpl in F. destruct (find_secrets k) as [pk|] eqn:Fk.
      * destruct (IHk pk eq_refl) as [m [R O]]. exists m. split; [apply R_map_key; assumption | assumption].
      * destruct (IHt path F) as [m [R O]]. exists m. split; [apply R_map_elem; assumption | assumption].
    + simpl in F. destruct (IH path F) as [m [R O]]. exists m. split; [constructor; assumption | assumption].
  - intros [m [R O]] F. rewrite find_secrets_none in F. rewrite (F m R) in O. discriminate.
Qed.

Theorem register_ok_iff : forall req resp,
  register_ok req resp = true <->
  (forall m, reach req m \/ reach resp m -> offending m = false).
Proof.
  intros req resp. unfold register_ok. split.
  - destruct (find_secrets req) eqn:F1; [discriminate|]. destruct (find_secrets resp) eqn:F2; [discriminate|].
    intros _ m [R|R]; [apply (proj1 (find_secrets_none req) F1 m R) | apply (proj1 (find_secrets_none resp) F2 m R)].
  - intros H.
    assert (F1 : find_secrets req = None) by (apply find_secrets_none; intros m R; apply H; left; assumption).
    assert (F2 : find_secrets resp = None) by (apply find_secrets_none; intros m R; apply H; right; assumption).
    rewrite F1, F2. reflexivity.
Qed.
