(* Proofs about the model of clone.Secure: it computes SecureSpec.scrub (so it never panics and never runs
   out of levels), and scrub hides every exposed secure-tagged field and changes nothing else. *)
From Coq Require Import Lia.
From Coercion.Secure Require Import GoVal SecureModel SecureSpec.

(* ---------- generic ---------- *)
Lemma mapM_ok_map : forall {A B} (f : A -> res B) (g : A -> B) l,
  (forall a, In a l -> f a = Ok (g a)) -> mapM f l = Ok (map g l).
Proof.
  induction l as [|a r IH]; intros H; simpl; [reflexivity|].
  rewrite (H a (or_introl eq_refl)). simpl.
  rewrite IH by (intros; apply H; right; assumption). reflexivity.
Qed.

Lemma fold_max_ge : forall {A} (f : A -> nat) l a,
  In a l -> f a <= fold_right (fun x m => Nat.max (f x) m) 0 l.
Proof.
  induction l as [|b r IH]; intros a H; simpl in *; [contradiction|].
  destruct H as [H|H].
  - subst. lia.
  - specialize (IH a H). lia.
Qed.

Lemma fold_max_le : forall {A} (f g : A -> nat) l,
  (forall a, In a l -> f a <= g a) ->
  fold_right (fun x m => Nat.max (f x) m) 0 l <= fold_right (fun x m => Nat.max (g x) m) 0 l.
Proof.
  induction l as [|b r IH]; intros H; simpl; [lia|].
  specialize (H b (or_introl eq_refl)) as Hb.
  assert (Hr : forall a, In a r -> f a <= g a) by (intros; apply H; right; assumption).
  specialize (IH Hr). lia.
Qed.

(* ---------- depth of children ---------- *)
Lemma depth_field : forall fs m x, In (m, x) fs -> depth x < depth (VStruct fs).
Proof.
  intros fs m x H. simpl.
  pose proof (fold_max_ge (fun p : fmeta * gv => depth (snd p)) fs (m, x) H) as G. simpl in G. lia.
Qed.

Lemma depth_slice_elem : forall l x, In x l -> depth x < depth (VSlice (Some l)).
Proof. intros l x H. simpl. pose proof (fold_max_ge depth l x H). lia. Qed.

Lemma depth_map_elem : forall l k x, In (k, x) l -> depth x < depth (VMap (Some l)).
Proof.
  intros l k x H. simpl.
  pose proof (fold_max_ge (fun p : N * gv => depth (snd p)) l (k, x) H) as G. simpl in G. lia.
Qed.

(* ---------- wf of children ---------- *)
Lemma wf_field : forall fs m x, wf (VStruct fs) = true -> In (m, x) fs -> wf x = true.
Proof. intros fs m x W H. simpl in W. rewrite forallb_forall in W. exact (W (m, x) H). Qed.

Lemma wf_slice_elem : forall l x, wf (VSlice (Some l)) = true -> In x l -> wf x = true.
Proof. intros l x W H. simpl in W. rewrite forallb_forall in W. exact (W x H). Qed.

Lemma wf_map_elem : forall l k x, wf (VMap (Some l)) = true -> In (k, x) l -> wf x = true.
Proof. intros l k x W H. simpl in W. rewrite forallb_forall in W. exact (W (k, x) H). Qed.

Lemma wf_iface_elem : forall x, wf (VIface (Some x)) = true -> wf x = true /\ kind_of x <> KIface.
Proof. intros x W. simpl in W. destruct x; try discriminate; split; try assumption; simpl; discriminate. Qed.

(* ---------- zero ---------- *)
Lemma is_zero_zero : forall v, is_zero (zero v) = true.
Proof.
  induction v using gv_ind'; simpl; try reflexivity.
  - unfold map_snd. rewrite forallb_forall. intros p Hp. apply in_map_iff in Hp. destruct Hp as [q [<- Hq]].
    simpl. rewrite Forall_forall in H. apply H. assumption.
  - rewrite forallb_forall. intros x Hx. apply in_map_iff in Hx. destruct Hx as [y [<- Hy]].
    rewrite Forall_forall in H. apply H. assumption.
Qed.

Lemma depth_zero : forall v, depth (zero v) <= depth v.
Proof.
  induction v using gv_ind'; simpl; try lia.
  - unfold map_snd. apply le_n_S. rewrite Forall_forall in H.
    induction fs as [|p r IH]; simpl; [lia|].
    assert (Hp : depth (zero (snd p)) <= depth (snd p)) by (apply H; left; reflexivity).
    assert (Hr : forall x, In x r -> depth (zero (snd x)) <= depth (snd x)) by (intros; apply H; right; assumption).
    specialize (IH Hr). lia.
  - apply le_n_S. rewrite Forall_forall in H.
    induction l as [|p r IH]; simpl; [lia|].
    assert (Hp : depth (zero p) <= depth p) by (apply H; left; reflexivity).
    assert (Hr : forall x, In x r -> depth (zero x) <= depth x) by (intros; apply H; right; assumption).
    specialize (IH Hr). lia.
Qed.

Lemma wf_zero : forall v, wf (zero v) = true.
Proof.
  induction v using gv_ind'; simpl; try reflexivity.
  - unfold map_snd. rewrite forallb_forall. intros p Hp. apply in_map_iff in Hp. destruct Hp as [q [<- Hq]].
    simpl. rewrite Forall_forall in H. apply H. assumption.
  - rewrite forallb_forall. intros x Hx. apply in_map_iff in Hx. destruct Hx as [y [<- Hy]].
    rewrite Forall_forall in H. apply H. assumption.
Qed.

(* ---------- one level of the dispatch computes scrub ---------- *)
Definition nilable (v : gv) : bool :=
  match kind_of v with KPtr | KSlice | KMap | KIface => true | _ => false end.

Lemma depth_ptr_elem : forall y, depth y < depth (VPtr (Some y)).
Proof. intros y. simpl. lia. Qed.

Section LevelCorrect.
  Variables (rp rs : gv -> res gv) (n : nat).
  Hypothesis Hrp : forall v, wf v = true -> depth v < n -> nilable v = true -> rp v = Ok (scrub v).
  Hypothesis Hrs : forall s, wf s = true -> depth s < n -> kind_of s = KStruct ->
                             rs (VPtr (Some s)) = Ok (VPtr (Some (scrub s))).

  Definition field_spec (p : fmeta * gv) : fmeta * gv :=
    (fst p,
     if negb (f_exported (fst p)) then
       (if f_embedded (fst p) then
          if has_secure (f_tag (fst p)) then wipe_embedded (snd p) else
          match snd p with
          | VStruct _ | VTime _ => scrub (snd p)
          | VPtr (Some y) => match kind_of y with KStruct => VPtr (Some (scrub y)) | _ => snd p end
          | _ => snd p
          end
        else snd p)
     else if has_secure (f_tag (fst p)) then hide (snd p)
     else scrub (snd p)).

  Lemma secure_field_ok : forall p, wf (snd p) = true -> depth (snd p) < n ->
    secure_field rp rs p = Ok (field_spec p).
  Proof.
    intros [m x] W D. unfold secure_field, field_spec. simpl fst. simpl snd. simpl in W, D.
    destruct (f_exported m); simpl negb; cbv iota.
    - destruct (has_secure (f_tag m)).
      + destruct x; reflexivity.
      + destruct x as [s|z|b|t|fs|o|o|o|o|l]; simpl; try reflexivity.
        * rewrite (Hrs (VStruct fs) W D eq_refl). reflexivity.
        * rewrite (Hrp (VPtr o) W D eq_refl). reflexivity.
        * rewrite (Hrp (VSlice o) W D eq_refl). reflexivity.
        * rewrite (Hrp (VMap o) W D eq_refl). reflexivity.
        * rewrite (Hrp (VIface o) W D eq_refl). reflexivity.
    - destruct (f_embedded m); [|reflexivity].
      destruct (has_secure (f_tag m)); [reflexivity|].
      destruct x as [s|z|b|t|fs|o|o|o|o|l]; try reflexivity.
      + rewrite (Hrs (VTime t) W D eq_refl). reflexivity.
      + rewrite (Hrs (VStruct fs) W D eq_refl). reflexivity.
      + destruct o as [y|]; [|reflexivity].
        destruct (kind_of y) eqn:K; try reflexivity.
        assert (Dy : depth y < n) by (pose proof (depth_ptr_elem y); lia).
        rewrite (Hrs y W Dy K). reflexivity.
  Qed.

  Lemma secure_struct_ok : forall s, wf s = true -> depth s <= n -> kind_of s = KStruct ->
    secure_struct rp rs (VPtr (Some s)) = Ok (VPtr (Some (scrub s))).
  Proof.
    intros s W D K. destruct s as [s|z|b|t|fs|o|o|o|o|l]; try discriminate; simpl secure_struct; [reflexivity|].
    rewrite (mapM_ok_map (secure_field rp rs) field_spec).
    - reflexivity.
    - intros [m x] Hin. apply secure_field_ok; simpl.
      + eapply wf_field; eassumption.
      + pose proof (depth_field fs m x Hin). lia.
  Qed.

  Lemma secure_struct_elem_ok : forall e, wf e = true -> depth e < n -> kind_of e = KStruct ->
    secure_struct_elem rs e = Ok (scrub e).
  Proof.
    intros e W D K. unfold secure_struct_elem.
    destruct e as [s|z|b|t|fs|o|o|o|o|l]; try discriminate; simpl; [reflexivity|].
    rewrite (Hrs (VStruct fs) W D eq_refl). reflexivity.
  Qed.

  (* an element of a slice / a map value *)
  Lemma elem_ok : forall e, wf e = true -> depth e < n ->
    match kind_of e with
    | KPtr | KMap | KSlice | KIface => rp e
    | KStruct => secure_struct_elem rs e
    | KString | KOther | KArray => Ok e
    end = Ok (scrub e).
  Proof.
    intros e W D. destruct e as [s|z|b|t|fs|o|o|o|o|l]; try reflexivity.
    - apply (secure_struct_elem_ok (VStruct fs) W D eq_refl).
    - simpl kind_of. cbv iota. rewrite (Hrp (VPtr o) W D eq_refl). reflexivity.
    - simpl kind_of. cbv iota. rewrite (Hrp (VSlice o) W D eq_refl). reflexivity.
    - simpl kind_of. cbv iota. rewrite (Hrp (VMap o) W D eq_refl). reflexivity.
    - simpl kind_of. cbv iota. rewrite (Hrp (VIface o) W D eq_refl). reflexivity.
  Qed.

  Lemma secure_slice_ok : forall o, wf (VSlice o) = true -> depth (VSlice o) <= n ->
    secure_slice rp rs (VSlice o) = Ok (scrub (VSlice o)).
  Proof.
    intros [l|] W D; [|reflexivity]. simpl secure_slice.
    rewrite (mapM_ok_map _ scrub); [reflexivity|].
    intros e Hin. apply elem_ok.
    - eapply wf_slice_elem; eassumption.
    - pose proof (depth_slice_elem l e Hin). lia.
  Qed.

  Lemma secure_map_ok : forall o, wf (VMap o) = true -> depth (VMap o) <= n ->
    secure_map rp rs (VMap o) = Ok (scrub (VMap o)).
  Proof.
    intros [l|] W D; [|reflexivity]. simpl secure_map.
    rewrite (mapM_ok_map _ (fun p => (fst p, scrub (snd p)))); [reflexivity|].
    intros [k e] Hin. simpl.
    assert (We : wf e = true) by (eapply wf_map_elem; eassumption).
    assert (De : depth e < n) by (pose proof (depth_map_elem l k e Hin); lia).
    pose proof (elem_ok e We De) as E.
    destruct e; simpl in *; try reflexivity; rewrite E; reflexivity.
  Qed.

  Lemma secure_iface_ok : forall o, wf (VIface o) = true -> depth (VIface o) <= n ->
    secure_iface rp rs (VIface o) = Ok (scrub (VIface o)).
  Proof.
    intros [x|] W D; [|reflexivity].
    destruct (wf_iface_elem x W) as [Wx Kx].
    assert (Dx : depth x < n) by (simpl in D; lia).
    pose proof (elem_ok x Wx Dx) as E. simpl secure_iface.
    destruct x; simpl in *; try reflexivity; try (rewrite E; reflexivity).
    exfalso. apply Kx. reflexivity.
  Qed.

  Lemma secure_ptr_ok : forall o, wf (VPtr o) = true -> depth (VPtr o) <= n ->
    secure_ptr rp rs (VPtr o) = Ok (scrub (VPtr o)).
  Proof.
    intros [x|] W D; [|reflexivity].
    assert (Wx : wf x = true) by exact W.
    assert (Dx : depth x < n) by (simpl in D; lia).
    destruct x as [s|z|b|t|fs|o|o|o|o|l]; try reflexivity.
    - apply (secure_struct_ok (VStruct fs) Wx); [lia | reflexivity].
    - simpl. rewrite (Hrp (VPtr o) Wx Dx eq_refl). reflexivity.
    - simpl. rewrite (Hrp (VSlice o) Wx Dx eq_refl). reflexivity.
    - simpl. rewrite (Hrp (VMap o) Wx Dx eq_refl). reflexivity.
    - simpl. rewrite (Hrp (VIface o) Wx Dx eq_refl). reflexivity.
  Qed.

  Lemma secure_ptr_or_ref_ok : forall v, wf v = true -> depth v <= n -> nilable v = true ->
    secure_ptr_or_ref rp rs v = Ok (scrub v).
  Proof.
    intros v W D N. destruct v; try discriminate.
    - destruct o; [apply secure_ptr_ok; assumption | reflexivity].
    - destruct o; [apply secure_slice_ok; assumption | reflexivity].
    - destruct o; [apply secure_map_ok; assumption | reflexivity].
    - destruct o; [apply secure_iface_ok; assumption | reflexivity].
  Qed.
End LevelCorrect.

Theorem level_correct : forall n,
  (forall v, wf v = true -> depth v < n -> nilable v = true -> ptr_or_ref_at n v = Ok (scrub v)) /\
  (forall s, wf s = true -> depth s < n -> kind_of s = KStruct ->
             struct_at n (VPtr (Some s)) = Ok (VPtr (Some (scrub s)))).
Proof.
  induction n as [|n [IHp IHs]].
  - split; intros; lia.
  - split.
    + intros v W D N. unfold ptr_or_ref_at. simpl.
      apply (secure_ptr_or_ref_ok _ _ n IHp IHs v W); [lia | assumption].
    + intros s W D K. unfold struct_at. simpl.
      apply (secure_struct_ok _ _ n IHp IHs s W); [lia | assumption].
Qed.

(* ---------- the specification hides every exposed secure-tagged field and changes nothing else ---------- *)
Lemma hide_hidden : forall x, hidden (hide x).
Proof. intros x. destruct x; try (right; apply (is_zero_zero _)). left. reflexivity. Qed.

(* sec_at below a struct-kind value that is a time.Time: nothing *)
Lemma sec_at_time : forall t x, ~ sec_at (VTime t) x.
Proof. intros t x S. inversion S. Qed.


Lemma hiddenb_spec : forall x, hiddenb x = true <-> hidden x.
Proof.
  intros x. unfold hidden. destruct x as [s|z|b|t|fs|o|o|o|o|l]; simpl;
    try (split; [intros H; right; exact H | intros [H|H]; [discriminate | exact H]]).
  rewrite orb_true_iff, !N.eqb_eq. split.
  - intros [H|H]; [left; subst; reflexivity | right; assumption].
  - intros [H|H]; [left; inversion H; reflexivity | right; assumption].
Qed.

(* ---------- wipeEmbedded ---------- *)
(* statements about a value and, when it is a non-nil pointer, about its pointee (an embedded *struct) *)
Definition and_pointee (Q : gv -> Prop) (v : gv) : Prop :=
  Q v /\ match v with VPtr (Some x) => Q x | _ => True end.

Lemma and_pointee_ind : forall Q : gv -> Prop,
  (forall v, (forall fs, v <> VStruct fs) -> Q v) ->
  (forall fs, Forall (fun p => and_pointee Q (snd p)) fs -> Q (VStruct fs)) ->
  forall v, and_pointee Q v.
Proof.
  intros Q Hleaf Hstruct.
  induction v as [s|z|b|t|fs IH| |x IH| |l IH| |l IH| |x IH|l IH] using gv_ind';
    try (split; [apply Hleaf; intros fs0; discriminate | exact I]).
  - split; [apply Hstruct; exact IH | exact I].
  - split; [apply Hleaf; intros fs0; discriminate | exact (proj1 IH)].
Qed.

Lemma wipe_promoted_hidden' : forall v, and_pointee (fun v => forall y, promoted (wipe v) y -> hidden y) v.
Proof.
  apply and_pointee_ind.
  - intros v Hv y P. destruct v; simpl in P; try (inversion P; fail). exfalso. apply (Hv fs). reflexivity.
  - intros fs IH y P. simpl in P. rewrite Forall_forall in IH.
    inversion P as [fs' m y' Hin He | fs' m x y' Hin He Hm Px | fs' m x y' Hin He Hm Px]; subst;
      apply in_map_iff in Hin; destruct Hin as [[mq xq] [Hq Hin]]; simpl in Hq;
      injection Hq as Hq1 Hq2; subst mq; rewrite He in Hq2; destruct (IH (m, xq) Hin) as [IHq IHp]; simpl in IHq, IHp.
    + subst. apply hide_hidden.
    + rewrite Hm in Hq2. destruct xq as [s|z0|b|t|fs0|o|o|o|o|l]; subst x; try (apply IHq; exact Px).
      destruct o as [y0|]; [|apply IHq; exact Px]. inversion Px.
    + rewrite Hm in Hq2. destruct xq as [s|z0|b|t|fs0|o|o|o|o|l]; try (simpl in Hq2; discriminate).
      destruct o as [y0|]; [|simpl in Hq2; discriminate].
      injection Hq2 as Hq2. subst x. apply IHp. exact Px.
Qed.

Lemma wipe_promoted_hidden : forall v y, promoted (wipe v) y -> hidden y.
Proof. intros v. exact (proj1 (wipe_promoted_hidden' v)). Qed.

Lemma blank_wipe' : forall v, and_pointee (fun v => blank (wipe v) = blank v) v.
Proof.
  apply and_pointee_ind.
  - intros v Hv. destruct v; try reflexivity. exfalso. apply (Hv fs). reflexivity.
  - intros fs IH. simpl. f_equal. rewrite map_map. apply map_ext_in. intros [m x] Hin. simpl.
    rewrite Forall_forall in IH. destruct (IH (m, x) Hin) as [IHx IHp]. simpl in IHx, IHp.
    destruct (f_exported m); [reflexivity|]. destruct (f_embedded m); [|reflexivity].
    destruct x as [s|z0|b|t|fs0|o|o|o|o|l0]; try (f_equal; exact IHx); try reflexivity.
    destruct o as [y0|]; [|reflexivity]. rewrite IHp. reflexivity.
Qed.

Lemma blank_wipe : forall v, blank (wipe v) = blank v.
Proof. intros v. exact (proj1 (blank_wipe' v)). Qed.

Lemma blank_wipe_embedded : forall x, blank_embedded (wipe_embedded x) = blank_embedded x.
Proof.
  intros x. destruct x as [s|z0|b|t|fs0|o|o|o|o|l0]; try reflexivity.
  - apply (blank_wipe (VStruct fs0)).
  - destruct o as [y|]; [|reflexivity]. simpl. rewrite blank_wipe. reflexivity.
Qed.

Lemma promoted_wipe_embedded : forall x y,
  (promoted (wipe_embedded x) y \/ exists x', wipe_embedded x = VPtr (Some x') /\ promoted x' y) -> hidden y.
Proof.
  intros x y [P|[x' [E P]]].
  - destruct x as [s|z0|b|t|fs0|o|o|o|o|l0]; simpl in P; try (inversion P; fail).
    + apply (wipe_promoted_hidden (VStruct fs0) y P).
    + destruct o; inversion P.
  - destruct x as [s|z0|b|t|fs0|o|o|o|o|l0]; simpl in E; try discriminate.
    destruct o as [y0|]; [|discriminate]. injection E as E. subst x'. apply (wipe_promoted_hidden y0 y P).
Qed.

Lemma wipedb_spec' : forall v, and_pointee (fun v => wipedb v = true <-> (forall y, promoted v y -> hidden y)) v.
Proof.
  apply and_pointee_ind.
  - intros v Hv. destruct v; try (split; [intros _ y P; inversion P | reflexivity]). exfalso. apply (Hv fs). reflexivity.
  - intros fs IH. rewrite Forall_forall in IH. simpl. rewrite forallb_forall. split.
    + intros B y P.
      inversion P as [fs' m y' Hin He | fs' m x y' Hin He Hm Px | fs' m x y' Hin He Hm Px]; subst;
        pose proof (B _ Hin) as B'; simpl in B'; rewrite He in B'; destruct (IH _ Hin) as [IHq IHp]; simpl in IHq, IHp.
      * apply hiddenb_spec. exact B'.
      * rewrite Hm in B'. destruct x as [s|z0|b|t|fs0|o|o|o|o|l]; try (inversion Px; fail).
        apply (proj1 IHq B' y Px).
      * rewrite Hm in B'. apply (proj1 IHp B' y Px).
    + intros H [m x] Hin. simpl. destruct (IH (m, x) Hin) as [IHq IHp]. simpl in IHq, IHp.
      destruct (f_exported m) eqn:He.
      * apply hiddenb_spec. apply H. eapply P_here; eassumption.
      * destruct (f_embedded m) eqn:Hm; [|reflexivity].
        destruct x as [s|z0|b|t|fs0|o|o|o|o|l]; try reflexivity.
        -- apply IHq. intros y P. apply H. eapply P_embed; eassumption.
        -- destruct o as [y0|]; [|reflexivity]. apply IHp. intros y P. apply H. eapply P_embed_ptr; eassumption.
Qed.

Lemma wipedb_spec : forall v, wipedb v = true <-> (forall y, promoted v y -> hidden y).
Proof. intros v. exact (proj1 (wipedb_spec' v)). Qed.

Lemma scrub_sec_hidden : forall v x, sec_at (scrub v) x -> hidden x.
Proof.
  induction v as [s|z|b|t|fs IH| |y IH| |l IH| |l IH| |y IH|l IH] using gv_ind'; intros x S; simpl in S;
    try (inversion S; fail).
  - (* struct *)
    rewrite Forall_forall in IH.
    inversion S as [fs' m y Hin He Hs | fs' m y z Hin He Hs Hz | fs' m y z Hin He Hm Hs Hk Hz
                    | fs' m y z Hin He Hm Hs Hk Hz | fs' m y z Hin He Hm Hs Hp | fs' m y z Hin He Hm Hs Hp | | | |]; subst;
      apply in_map_iff in Hin; destruct Hin as [[mq xq] [Hq Hin]]; simpl in Hq;
      injection Hq as Hq1 Hq2; subst mq; rewrite He in Hq2; simpl in Hq2;
      pose proof (IH (m, xq) Hin) as IHq; simpl in IHq.
    + rewrite Hs in Hq2. subst. apply hide_hidden.
    + rewrite Hs in Hq2. subst. apply IHq. assumption.
    + rewrite Hm, Hs in Hq2.
      destruct xq as [s|z0|b|t|fs0|o|o|o|o|l]; subst y; try (simpl in Hk; discriminate).
      * apply IHq. exact Hz.
      * apply IHq. exact Hz.
      * destruct o as [y0|]; [|discriminate]. destruct (kind_of y0); discriminate.
    + rewrite Hm, Hs in Hq2.
      destruct xq as [s|z0|b|t|fs0|o|o|o|o|l]; try discriminate.
      destruct o as [y0|]; [|discriminate].
      destruct (kind_of y0) eqn:K0; try (injection Hq2 as Hq2; subst; rewrite K0 in Hk; discriminate).
      injection Hq2 as Hq2. subst y. apply IHq. simpl. constructor. exact Hz.
    + rewrite Hm, Hs in Hq2. apply (promoted_wipe_embedded xq x). left. rewrite Hq2. exact Hp.
    + rewrite Hm, Hs in Hq2. apply (promoted_wipe_embedded xq x). right. exists y. split; assumption.
  - inversion S; subst. eapply IH; eassumption.
  - rewrite Forall_forall in IH. inversion S as [| | | | | | |l' y z Hin Hz| |]; subst.
    apply in_map_iff in Hin. destruct Hin as [q [<- Hin]]. eapply IH; eassumption.
  - rewrite Forall_forall in IH. inversion S as [| | | | | | | |l' k y z Hin Hz|]; subst.
    unfold map_snd in Hin. apply in_map_iff in Hin. destruct Hin as [q [Hq Hin]]. inversion Hq; subst.
    eapply IH; eassumption.
  - inversion S; subst. eapply IH; eassumption.
Qed.

Lemma erase_scrub : forall v, erase (scrub v) = erase v.
Proof.
  induction v as [s|z|b|t|fs IH| |y IH| |l IH| |l IH| |y IH|l IH] using gv_ind'; simpl; try reflexivity.
  - f_equal. rewrite map_map. apply map_ext_in. intros [m x] Hin. simpl.
    rewrite Forall_forall in IH. pose proof (IH (m, x) Hin) as IHx. simpl in IHx.
    destruct (f_exported m); simpl.
    + destruct (has_secure (f_tag m)); [reflexivity|]. f_equal. exact IHx.
    + destruct (f_embedded m); [|reflexivity].
      destruct (has_secure (f_tag m)); [rewrite blank_wipe_embedded; reflexivity|].
      destruct x as [s|z0|b|t|fs0|o|o|o|o|l0]; try reflexivity.
      * f_equal. exact IHx.
      * destruct o as [y0|]; [|reflexivity]. destruct (kind_of y0) eqn:K; try (rewrite K; reflexivity).
        (* scrub keeps the kind *)
        assert (K' : kind_of (scrub y0) = KStruct) by (destruct y0; try discriminate; reflexivity).
        rewrite K'. simpl in IHx. injection IHx as IHx. rewrite IHx. reflexivity.
  - rewrite IH. reflexivity.
  - f_equal. f_equal. rewrite map_map. apply map_ext_in. intros x Hin.
    rewrite Forall_forall in IH. apply IH. assumption.
  - f_equal. f_equal. unfold map_snd. rewrite map_map. apply map_ext_in. intros [k x] Hin. simpl.
    rewrite Forall_forall in IH. f_equal. apply (IH (k, x) Hin).
  - rewrite IH. reflexivity.
Qed.

(* ---------- the boolean monitor is the declarative statement ---------- *)

Lemma scrubbedb_sound : forall v, scrubbedb v = true -> forall x, sec_at v x -> hidden x.
Proof.
  induction v as [s|z|b|t|fs IH| |y IH| |l IH| |l IH| |y IH|l IH] using gv_ind'; intros B x S; simpl in B;
    try (inversion S; fail).
  - rewrite Forall_forall in IH. rewrite forallb_forall in B.
    inversion S as [fs' m y Hin He Hs | fs' m y z Hin He Hs Hz | fs' m y z Hin He Hm Hs Hk Hz
                    | fs' m y z Hin He Hm Hs Hk Hz | fs' m y z Hin He Hm Hs Hp | fs' m y z Hin He Hm Hs Hp | | | |]; subst;
      pose proof (B _ Hin) as B'; simpl in B'; rewrite He in B'; simpl in B'; pose proof (IH _ Hin) as IHq; simpl in IHq.
    + rewrite Hs in B'. apply hiddenb_spec. assumption.
    + rewrite Hs in B'. apply (IHq B' x Hz).
    + rewrite Hm, Hs in B'. destruct y as [s|z0|b|t|fs0|o|o|o|o|l0]; try discriminate.
      * inversion Hz.
      * apply (IHq B' x Hz).
    + rewrite Hm, Hs, Hk in B'. apply IHq; [exact B' | constructor; exact Hz].
    + rewrite Hm, Hs in B'. destruct y as [s|z0|b|t|fs0|o|o|o|o|l0]; try (inversion Hp; fail).
      apply (proj1 (wipedb_spec (VStruct fs0)) B' x Hp).
    + rewrite Hm, Hs in B'. simpl in B'. apply (proj1 (wipedb_spec y) B' x Hp).
  - inversion S; subst. apply IH; assumption.
  - rewrite Forall_forall in IH. rewrite forallb_forall in B. inversion S as [| | | | | | |l' y z Hin Hz| |]; subst.
    apply (IH y Hin (B y Hin) x Hz).
  - rewrite Forall_forall in IH. rewrite forallb_forall in B. inversion S as [| | | | | | | |l' k y z Hin Hz|]; subst.
    apply (IH (k, y) Hin (B (k, y) Hin) x Hz).
  - inversion S; subst. apply IH; assumption.
Qed.

Lemma scrubbedb_complete : forall v, (forall x, sec_at v x -> hidden x) -> scrubbedb v = true.
Proof.
  induction v as [s|z|b|t|fs IH| |y IH| |l IH| |l IH| |y IH|l IH] using gv_ind'; intros H; simpl; try reflexivity.
  - rewrite Forall_forall in IH. rewrite forallb_forall. intros [m x] Hin. simpl.
    pose proof (IH (m, x) Hin) as IHx. simpl in IHx.
    destruct (f_exported m) eqn:He; simpl.
    + destruct (has_secure (f_tag m)) eqn:Hs.
      * apply hiddenb_spec. apply H. eapply SA_here; eassumption.
      * apply IHx. intros y Hy. apply H. eapply SA_field; eassumption.
    + destruct (f_embedded m) eqn:Hm; [|reflexivity].
      destruct (has_secure (f_tag m)) eqn:Hs.
      * destruct x as [s|z0|b|t|fs0|o|o|o|o|l0]; try reflexivity.
        -- apply (proj2 (wipedb_spec (VStruct fs0))). intros y Hy. apply H. eapply SA_embed_tagged; eassumption.
        -- destruct o as [y0|]; [|reflexivity]. simpl. apply (proj2 (wipedb_spec y0)). intros y Hy. apply H.
           eapply SA_embed_tagged_ptr; eassumption.
      * destruct x as [s|z0|b|t|fs0|o|o|o|o|l0]; try reflexivity.
        -- apply IHx. intros y Hy. apply H. eapply SA_embed; try eassumption. reflexivity.
        -- destruct o as [y0|]; [|reflexivity]. destruct (kind_of y0) eqn:K; try reflexivity.
           simpl in IHx. apply IHx. intros y Hy. inversion Hy; subst. apply H. eapply SA_embed_ptr; eassumption.
  - apply IH. intros x Hx. apply H. constructor. assumption.
  - rewrite Forall_forall in IH. rewrite forallb_forall. intros x Hin. apply (IH x Hin).
    intros y Hy. apply H. eapply SA_slice; eassumption.
  - rewrite Forall_forall in IH. rewrite forallb_forall. intros [k x] Hin. apply (IH (k, x) Hin).
    intros y Hy. apply H. eapply SA_map; eassumption.
  - apply IH. intros x Hx. apply H. constructor. assumption.
Qed.

Theorem scrubbedb_spec : forall v, scrubbedb v = true <-> (forall x, sec_at v x -> hidden x).
Proof. intros v. split; [apply scrubbedb_sound | apply scrubbedb_complete]. Qed.

(* ---------- Secure(v) ---------- *)
Definition struct_ptr (v : gv) : bool :=
  match v with VPtr (Some x) => match kind_of x with KStruct => true | _ => false end | _ => false end.

Theorem secure_computes_scrub : forall v, wf v = true ->
  secure v = match v with
             | VPtr None => OOk v
             | _ => if struct_ptr v then OOk (scrub v) else OErr
             end.
Proof.
  intros v W. destruct v as [s|z|b|t|fs|o|o|o|o|l]; try reflexivity.
  destruct o as [x|]; [|reflexivity]. unfold secure, struct_ptr.
  destruct (kind_of x) eqn:K; try reflexivity.
  destruct (level_correct (S (depth x))) as [_ Hs].
  rewrite (Hs x W (Nat.lt_succ_diag_r _) K). reflexivity.
Qed.

(* what the struct holding an `any` field (Action.Req, Attempt.Resp) gets back for it *)
Theorem secure_iface_field_computes_scrub : forall v, wf v = true -> nilable v = true ->
  secure_iface_field v = Ok (scrub v).
Proof.
  intros v W N. unfold secure_iface_field.
  destruct (level_correct (S (depth v))) as [Hp _]. apply Hp; [assumption | lia | assumption].
Qed.

(* C17, scrubbing: for EVERY well-formed Go value (any nesting of structs, pointers, slices, maps, interfaces,
   arrays, any tags, exported or not, embedded or not), clone.Secure neither panics nor runs out of levels; on a
   pointer to a struct it returns a value in which every exposed secure-tagged field is "[secret hidden]"/zero
   and which differs from the argument at most inside exposed secure-tagged fields; on anything else but a nil
   pointer it returns the error and touches nothing. *)
Theorem secure_scrubbed : forall v, wf v = true ->
  match secure v with
  | OOk v' => (forall x, sec_at v' x -> hidden x) /\ erase v' = erase v /\ (struct_ptr v = true \/ v = VPtr None)
  | OErr => struct_ptr v = false /\ v <> VPtr None
  | OPanic _ | OFuel => False
  end.
Proof.
  intros v W. rewrite (secure_computes_scrub v W).
  destruct v as [s|z|b|t|fs|o|o|o|o|l]; simpl; try (split; [reflexivity | discriminate]).
  destruct o as [x|].
  - destruct (kind_of x) eqn:K; simpl; try (split; [reflexivity | discriminate]).
    split; [|split].
    + intros y Hy. apply (scrub_sec_hidden (VPtr (Some x)) y). exact Hy.
    + apply (erase_scrub (VPtr (Some x))).
    + left. reflexivity.
  - split; [|split].
    + intros y Hy. inversion Hy.
    + reflexivity.
    + right. reflexivity.
Qed.
