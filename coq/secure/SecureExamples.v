(* Concrete, non-trivial instances (by vm_compute): the hypotheses of the C17 theorems are satisfiable, the
   conclusions are not vacuous, and the documented exclusions are visible. *)
From Coercion.Secure Require Import GoVal SecureModel SecureSpec Registry Surfaces.

Notation "x |> f" := (f x) (at level 50, only parsing).
Definition fld (n : N) (t : tag) (v : gv) : fmeta * gv := ({| f_name := n; f_exported := true; f_embedded := false; f_tag := t |}, v).
Definition ufld (n : N) (v : gv) : fmeta * gv := ({| f_name := n; f_exported := false; f_embedded := false; f_tag := TNone |}, v).

Definition creds (u p : N) : gv := VStruct [fld 1001 TNone (VStr u); fld 1002 TSecure (VStr p)].

(* *struct{ Name string; Any any = []any{ map[string]any{"k": creds} }; PP **creds; PS *[]creds; Times []time.Time;
            Limit int `secure`; Arr [1]creds; hidden creds (unexported) } *)
Definition ex_value : gv :=
  VPtr (Some (VStruct
    [fld 1003 TNone (VStr 10);
     fld 1004 TNone (VIface (Some (VSlice (Some [VIface (Some (VMap (Some [(20%N, VIface (Some (creds 11 12)))])))]))));
     fld 1005 TNone (VPtr (Some (VPtr (Some (creds 13 14)))));
     fld 1006 TNone (VPtr (Some (VSlice (Some [creds 15 16; creds 17 18]))));
     fld 1007 TNone (VSlice (Some [VTime 100; VTime 101]));
     fld 1008 TSecure (VNum 77);
     fld 1009 TNone (VArray [creds 19 21]);
     ufld 1010 (creds 22 23)])).

Definition ex_scrubbed : gv :=
  VPtr (Some (VStruct
    [fld 1003 TNone (VStr 10);
     fld 1004 TNone (VIface (Some (VSlice (Some [VIface (Some (VMap (Some [(20%N, VIface (Some (creds 11 1)))])))]))));
     fld 1005 TNone (VPtr (Some (VPtr (Some (creds 13 1)))));
     fld 1006 TNone (VPtr (Some (VSlice (Some [creds 15 1; creds 17 1]))));
     fld 1007 TNone (VSlice (Some [VTime 100; VTime 101]));
     fld 1008 TSecure (VNum 0);
     fld 1009 TNone (VArray [creds 19 21]);           (* below an array: documented exclusion, untouched *)
     ufld 1010 (creds 22 23)])).                       (* unexported field: documented exclusion, untouched *)

Example ex_wf : wf ex_value = true. Proof. vm_compute. reflexivity. Qed.
Example ex_secure : secure ex_value = OOk ex_scrubbed. Proof. vm_compute. reflexivity. Qed.
Example ex_input_exposes_secrets : scrubbedb ex_value = false. Proof. vm_compute. reflexivity. Qed.
Example ex_output_scrubbed : scrubbedb ex_scrubbed = true. Proof. vm_compute. reflexivity. Qed.
Example ex_erase : gv_eqb (erase ex_scrubbed) (erase ex_value) = true. Proof. vm_compute. reflexivity. Qed.
Example ex_sec_at : sec_at ex_value (VStr 14).
Proof.
  unfold ex_value. apply SA_ptr. eapply SA_field with (m := fst (fld 1005 TNone (VStr 0))); try reflexivity.
  - simpl. right. right. left. reflexivity.
  - apply SA_ptr. apply SA_ptr. eapply SA_here with (m := fst (fld 1002 TSecure (VStr 0))); try reflexivity.
    simpl. right. left. reflexivity.
Qed.

(* Secure on something that is not a pointer to a struct: the error, not a panic *)
Example ex_err : secure (VPtr (Some (VSlice (Some [creds 1 2])))) = OErr. Proof. reflexivity. Qed.
Example ex_nil : secure (VPtr None) = OOk (VPtr None). Proof. reflexivity. Qed.

(* a struct with an unexported field as element of a slice: the copy keeps it (since commit d415afb) *)
Example ex_copy_keeps_unexported :
  secure (VPtr (Some (VStruct [fld 1 TNone (VSlice (Some [VStruct [fld 2 TNone (VStr 5); ufld 3 (VStr 6)]]))])))
  = OOk (VPtr (Some (VStruct [fld 1 TNone (VSlice (Some [VStruct [fld 2 TNone (VStr 5); ufld 3 (VStr 6)]]))]))).
Proof. vm_compute. reflexivity. Qed.

(* embedded struct / *struct of an unexported type: `type base struct{ Password string `coerce:"secure"`; Region string }`,
   `type Req struct{ base; *more; Name string }`: the promoted secure field is hidden, the promoted plain field kept,
   by pointer, by value in an `any`, in a slice and as a map value alike *)
Definition emb (n : N) (v : gv) : fmeta * gv := ({| f_name := n; f_exported := false; f_embedded := true; f_tag := TNone |}, v).
Definition base_v (p r : N) : gv := VStruct [fld 1002 TSecure (VStr p); fld 1011 TNone (VStr r)].
Definition req_emb (p r p2 r2 : N) : gv :=
  VStruct [emb 1012 (base_v p r); emb 1013 (VPtr (Some (base_v p2 r2))); fld 1003 TNone (VStr 10)].
Example ex_embedded :
  secure (VPtr (Some (VStruct
            [fld 1 TNone (VPtr (Some (req_emb 40 41 42 43)));
             fld 2 TNone (VIface (Some (req_emb 44 45 46 47)));
             fld 3 TNone (VSlice (Some [req_emb 48 49 50 51]));
             fld 4 TNone (VMap (Some [(20%N, req_emb 52 53 54 55)]))])))
  = OOk (VPtr (Some (VStruct
            [fld 1 TNone (VPtr (Some (req_emb 1 41 1 43)));
             fld 2 TNone (VIface (Some (req_emb 1 45 1 47)));
             fld 3 TNone (VSlice (Some [req_emb 1 49 1 51]));
             fld 4 TNone (VMap (Some [(20%N, req_emb 1 53 1 55)]))]))).
Proof. vm_compute. reflexivity. Qed.
Example ex_embedded_exposed : sec_at (req_emb 40 41 42 43) (VStr 42).
Proof.
  unfold req_emb. eapply SA_embed_ptr with (m := fst (emb 1013 (VStr 0))) (x := base_v 42 43); try reflexivity.
  - simpl. right. left. reflexivity.
  - eapply SA_here with (m := fst (fld 1002 TSecure (VStr 0))); try reflexivity. simpl. left. reflexivity.
Qed.

(* ---- registry ---- *)
Definition tf (n : N) (secretish : bool) (t : tag) (ty0 : ty) : tmeta * ty :=
  ({| t_name := n; t_secretish := secretish; t_tag := t |}, ty0).

(* struct{ Name string; F **struct{ Password string } }: refused, path F.Password *)
Example reg_nested_ptr :
  find_secrets (TyStruct [tf 1 false TNone TyStr; tf 2 false TNone (TyPtr (TyPtr (TyStruct [tf 3 true TNone TyStr])))])
  = Some [1; 0].
Proof. reflexivity. Qed.
Example reg_tagged_ok :
  find_secrets (TyStruct [tf 3 true TSecure TyStr; tf 4 true TIgnore TyStr; tf 5 true TBoth TyStr]) = None.
Proof. reflexivity. Qed.
(* a secure-tagged field is still descended into *)
Example reg_descends_below_tagged :
  find_secrets (TyStruct [tf 3 true TSecure (TyStruct [tf 6 true TNone TyStr])]) = Some [0; 0].
Proof. reflexivity. Qed.
(* since commit 3e0a32d the walk also looks through slices, arrays and maps (keys and elements) *)
Example reg_below_slice :
  find_secrets (TyStruct [tf 2 false TNone (TySlice (TyStruct [tf 3 true TNone TyStr]))]) = Some [0; 0].
Proof. reflexivity. Qed.
Example reg_below_map_elem :
  find_secrets (TyStruct [tf 2 false TNone (TyMap TyStr (TyPtr (TyStruct [tf 3 true TNone TyStr])))]) = Some [0; 0].
Proof. reflexivity. Qed.
Example reg_below_map_key :
  find_secrets (TyMap (TyStruct [tf 3 true TNone TyStr]) TyBool) = Some [0].
Proof. reflexivity. Qed.
Example reg_below_array_of_slices :
  find_secrets (TySlice (TyArray (TySlice (TyStruct [tf 1 false TNone TyStr; tf 3 true TNone TyStr])))) = Some [1].
Proof. reflexivity. Qed.
(* the pre-fix walk (pointers only) accepted these: X7 *)
Fixpoint find_secrets_x7 (t : ty) : bool :=
  match t with
  | TyPtr t' => find_secrets_x7 t'
  | TyStruct fs => existsb (fun p => offending (fst p) || find_secrets_x7 (snd p)) fs
  | _ => false
  end.
Example x7_refuted :
  find_secrets_x7 (TyStruct [tf 2 false TNone (TySlice (TyStruct [tf 3 true TNone TyStr]))]) = false /\
  exists m, reach (TyStruct [tf 2 false TNone (TySlice (TyStruct [tf 3 true TNone TyStr]))]) m /\ offending m = true.
Proof.
  split; [reflexivity|]. exists (fst (tf 3 true TNone TyStr)). split; [|reflexivity].
  eapply R_field; [left; reflexivity|]. apply R_slice. eapply R_here. left. reflexivity.
Qed.

(* embedded struct of unexported type that is ITSELF tagged secure (commit ea18f48): every promoted field is hidden,
   also two levels deep and behind a pointer; a nil embedded pointer stays nil *)
Definition emb_t (n : N) (t : tag) (v : gv) : fmeta * gv := ({| f_name := n; f_exported := false; f_embedded := true; f_tag := t |}, v).
Definition inner2 (a b : N) : gv := VStruct [fld 1020 TNone (VStr a); emb 1021 (VStruct [fld 1022 TNone (VStr b); fld 1023 TNone (VNum 5)])].
Example ex_embedded_tagged :
  secure (VPtr (Some (VStruct [emb_t 1012 TSecure (inner2 60 61); emb_t 1013 TSecure (VPtr (Some (inner2 62 63)));
                               emb_t 1014 TSecure (VPtr None); emb_t 1015 TIgnore (inner2 64 65); fld 1003 TNone (VStr 10)])))
  = OOk (VPtr (Some (VStruct [emb_t 1012 TSecure (inner2 1 1 |> fun v => match v with VStruct [a; (m, VStruct [b; _])] => VStruct [a; (m, VStruct [b; fld 1023 TNone (VNum 0)])] | _ => v end);
                              emb_t 1013 TSecure (VPtr (Some (VStruct [fld 1020 TNone (VStr 1); emb 1021 (VStruct [fld 1022 TNone (VStr 1); fld 1023 TNone (VNum 0)])])));
                              emb_t 1014 TSecure (VPtr None); emb_t 1015 TIgnore (inner2 64 65); fld 1003 TNone (VStr 10)]))).
Proof. vm_compute. reflexivity. Qed.
Example ex_embedded_tagged_exposed :
  sec_at (VStruct [emb_t 1013 TSecure (VPtr (Some (inner2 62 63)))]) (VStr 63).
Proof.
  eapply SA_embed_tagged_ptr with (m := fst (emb_t 1013 TSecure (VStr 0))) (x := inner2 62 63); try reflexivity.
  - left. reflexivity.
  - unfold inner2. eapply P_embed with (m := fst (emb 1021 (VStr 0))); try reflexivity.
    + right. left. reflexivity.
    + eapply P_here with (m := fst (fld 1022 TNone (VStr 0))); [left; reflexivity | reflexivity].
Qed.
(* the pre-fix behaviour (the tag on the embedded field ignored: descend as for an untagged one) leaves it exposed: X6 *)
Example x6_refuted :
  scrubbedb (VStruct [emb_t 1013 TSecure (VPtr (Some (inner2 62 63)))]) = false.
Proof. vm_compute. reflexivity. Qed.

(* ---- a plan: one check action, one block with one sequence of two actions, attempts with responses ---- *)
Definition req1 : gv := VIface (Some (VPtr (Some (creds 30 31)))).
Definition req2 : gv := VIface (Some (VMap (Some [(20%N, VIface (Some (creds 32 33)))]))).
Definition resp1 : gv := VIface (Some (creds 34 35)).
Definition act (r : gv) (resps : list gv) : action_sk :=
  {| a_req := r; a_attempts := Some (map (fun x => {| k_resp := x; k_err := false |}) resps) |}.
Definition ex_plan : plan_sk :=
  {| p_bypass := None; p_pre := Some [act req1 []]; p_cont := None; p_post := None; p_deferred := None;
     p_blocks := [ {| b_bypass := None; b_pre := None; b_cont := None; b_post := Some [act req2 [resp1]]; b_deferred := None;
                      b_seqs := [[act req1 [resp1; resp1]; act req2 []]; []] |} ] |}.

Example ex_plan_wf : plan_wf ex_plan = true. Proof. vm_compute. reflexivity. Qed.

Definition scrub1 := scrub.
Example ex_clone_default :
  match entry_plan (fun v => v) false false ex_plan with
  | OOk v' => collect nReq v' = [scrub1 req1; scrub1 req2; scrub1 req1; scrub1 req2] /\ collect nResp v' = []
  | _ => False
  end.
Proof. vm_compute. split; reflexivity. Qed.

Example ex_clone_keep_state :
  match entry_plan (fun v => v) false true ex_plan with
  | OOk v' => collect nResp v' = [scrub1 resp1; scrub1 resp1; scrub1 resp1] /\ scrubbedb v' = true
  | _ => False
  end.
Proof. vm_compute. split; reflexivity. Qed.

(* the plan, its two sequences (one of them empty) and its four actions reach the templates *)
Example ex_render :
  match render ex_plan with
  | Ok inputs => length inputs = 7 /\ forallb scrubbedb inputs = true
  | _ => False
  end.
Proof. vm_compute. split; reflexivity. Qed.
