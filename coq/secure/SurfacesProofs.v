(* Proofs about the clone entry points and reports.Render (Surfaces.v). *)
From Coq Require Import Lia.
From Coercion.Secure Require Import GoVal SecureModel SecureSpec SecureProofs Surfaces.

(* ---------- scrub commutes with the embedding of the workflow structs ---------- *)
Lemma scrub_attempt_gv : forall k, scrub (attempt_gv k) = attempt_gv (scrub_attempt k).
Proof. intros [r e]. destruct e; reflexivity. Qed.

Lemma scrub_attempts_gv : forall o,
  scrub (attempts_gv o) = attempts_gv (match o with None => None | Some l => Some (map scrub_attempt l) end).
Proof.
  intros [l|]; [|reflexivity]. unfold attempts_gv. simpl. f_equal. f_equal.
  rewrite !map_map. apply map_ext. intros k. rewrite <- scrub_attempt_gv. reflexivity.
Qed.

Lemma scrub_action_gv : forall a, scrub (action_gv a) = action_gv (scrub_action a).
Proof.
  intros [r o]. unfold action_gv, scrub_action. simpl a_req. simpl a_attempts.
  rewrite <- scrub_attempts_gv. reflexivity.
Qed.

Lemma scrub_actions_gv : forall l, scrub (actions_gv l) = actions_gv (map scrub_action l).
Proof.
  intros l. unfold actions_gv. simpl. f_equal. f_equal. rewrite !map_map. apply map_ext.
  intros a. rewrite <- scrub_action_gv. reflexivity.
Qed.

Lemma scrub_checks_gv : forall c, scrub (checks_gv c) = checks_gv (map scrub_action c).
Proof. intros c. unfold checks_gv. rewrite <- scrub_actions_gv. reflexivity. Qed.

Lemma scrub_checks_opt_gv : forall o, scrub (checks_opt_gv o) = checks_opt_gv (scrub_checks_opt o).
Proof. intros [c|]; [|reflexivity]. unfold checks_opt_gv, scrub_checks_opt. rewrite <- scrub_checks_gv. reflexivity. Qed.

Lemma scrub_seq_gv : forall s, scrub (seq_gv s) = seq_gv (map scrub_action s).
Proof. intros s. unfold seq_gv. rewrite <- scrub_actions_gv. reflexivity. Qed.

Lemma scrub_block_gv : forall b, scrub (block_gv b) = block_gv (scrub_block b).
Proof.
  intros b. unfold block_gv, scrub_block. simpl b_bypass. simpl b_pre. simpl b_cont. simpl b_post. simpl b_deferred. simpl b_seqs.
  rewrite <- !scrub_checks_opt_gv.
  replace (VSlice (Some (map (fun s => ptr_to (seq_gv s)) (map (map scrub_action) (b_seqs b)))))
    with (scrub (VSlice (Some (map (fun s => ptr_to (seq_gv s)) (b_seqs b))))).
  - reflexivity.
  - simpl. f_equal. f_equal. rewrite !map_map. apply map_ext. intros s. rewrite <- scrub_seq_gv. reflexivity.
Qed.

Lemma scrub_plan_gv : forall p, scrub (plan_gv p) = plan_gv (scrub_plan p).
Proof.
  intros p. unfold plan_gv, scrub_plan. simpl p_bypass. simpl p_pre. simpl p_cont. simpl p_post. simpl p_deferred. simpl p_blocks.
  rewrite <- !scrub_checks_opt_gv.
  replace (VSlice (Some (map (fun b => ptr_to (block_gv b)) (map scrub_block (p_blocks p)))))
    with (scrub (VSlice (Some (map (fun b => ptr_to (block_gv b)) (p_blocks p))))).
  - reflexivity.
  - simpl. f_equal. f_equal. rewrite !map_map. apply map_ext. intros b. rewrite <- scrub_block_gv. reflexivity.
Qed.

(* ---------- reading the payloads back out of the embedding ---------- *)
Definition pn (req : bool) : N := if req then nReq else nResp.
Definition pf (req : bool) : action_sk -> list gv := if req then action_reqs else action_resps.

Lemma collect_attempts : forall l,
  flat_map (collect nResp) (map (fun k => ptr_to (attempt_gv k)) l) = map k_resp l.
Proof.
  induction l as [|[r e] l IH]; [reflexivity|]. simpl map. simpl flat_map. rewrite IH.
  destruct e; reflexivity.
Qed.

Lemma collect_attempts_req : forall l,
  flat_map (collect nReq) (map (fun k => ptr_to (attempt_gv k)) l) = [].
Proof.
  induction l as [|[r e] l IH]; [reflexivity|]. simpl map. simpl flat_map. rewrite IH.
  destruct e; reflexivity.
Qed.

Lemma collect_action : forall w a, collect (pn w) (action_gv a) = pf w a.
Proof.
  intros w [r [l|]]; destruct w; unfold pn, pf, action_reqs, action_resps; simpl a_req; simpl a_attempts.
  - unfold action_gv. simpl a_req. simpl a_attempts. unfold attempts_gv.
    remember (map (fun k => ptr_to (attempt_gv k)) l) as L. simpl. subst L. rewrite collect_attempts_req. reflexivity.
  - unfold action_gv. simpl a_req. simpl a_attempts. unfold attempts_gv.
    remember (map (fun k => ptr_to (attempt_gv k)) l) as L. simpl. subst L. rewrite collect_attempts, app_nil_r. reflexivity.
  - reflexivity.
  - reflexivity.
Qed.

Lemma pn_cases : forall w, pn w = nReq \/ pn w = nResp.
Proof. intros [|]; [left|right]; reflexivity. Qed.

Lemma collect_actions : forall w l, collect (pn w) (actions_gv l) = flat_map (pf w) l.
Proof.
  intros w l. unfold actions_gv. simpl collect.
  induction l as [|a l IH]; [reflexivity|]. simpl map. simpl flat_map. rewrite IH. f_equal.
  apply (collect_action w a).
Qed.

Lemma collect_checks : forall w c, collect (pn w) (checks_gv c) = flat_map (pf w) c.
Proof.
  intros w c. unfold checks_gv. remember (actions_gv c) as A.
  destruct w; simpl; subst A.
  - rewrite (collect_actions true c : collect nReq (actions_gv c) = flat_map action_reqs c), app_nil_r. reflexivity.
  - rewrite (collect_actions false c : collect nResp (actions_gv c) = flat_map action_resps c), app_nil_r. reflexivity.
Qed.

Lemma collect_checks_opt : forall w o, collect (pn w) (checks_opt_gv o) = checks_opt_map (pf w) o.
Proof. intros w [c|]; [|reflexivity]. apply (collect_checks w c). Qed.


Lemma collect_checks_opt_req : forall o, collect nReq (checks_opt_gv o) = checks_opt_map action_reqs o.
Proof. exact (collect_checks_opt true). Qed.
Lemma collect_checks_opt_resp : forall o, collect nResp (checks_opt_gv o) = checks_opt_map action_resps o.
Proof. exact (collect_checks_opt false). Qed.

Lemma collect_seq : forall w s, collect (pn w) (seq_gv s) = flat_map (pf w) s.
Proof.
  intros w s. unfold seq_gv. remember (actions_gv s) as A.
  destruct w; simpl; subst A.
  - rewrite (collect_actions true s : collect nReq (actions_gv s) = flat_map action_reqs s), app_nil_r. reflexivity.
  - rewrite (collect_actions false s : collect nResp (actions_gv s) = flat_map action_resps s), app_nil_r. reflexivity.
Qed.

Lemma collect_seqs : forall w l,
  flat_map (collect (pn w)) (map (fun s => ptr_to (seq_gv s)) l) = flat_map (fun s => flat_map (pf w) s) l.
Proof.
  intros w l. induction l as [|s l IH]; [reflexivity|]. simpl map. simpl flat_map. rewrite IH. f_equal.
  apply (collect_seq w s).
Qed.


Lemma collect_seqs_req : forall l,
  flat_map (collect nReq) (map (fun s => ptr_to (seq_gv s)) l) = flat_map (fun s => flat_map action_reqs s) l.
Proof. exact (collect_seqs true). Qed.
Lemma collect_seqs_resp : forall l,
  flat_map (collect nResp) (map (fun s => ptr_to (seq_gv s)) l) = flat_map (fun s => flat_map action_resps s) l.
Proof. exact (collect_seqs false). Qed.

Lemma collect_block : forall w b, collect (pn w) (block_gv b) = block_map (pf w) b.
Proof.
  intros w b. unfold block_gv, block_map.
  remember (checks_opt_gv (b_bypass b)) as C1. remember (checks_opt_gv (b_pre b)) as C2.
  remember (checks_opt_gv (b_cont b)) as C3. remember (checks_opt_gv (b_post b)) as C4.
  remember (checks_opt_gv (b_deferred b)) as C5.
  remember (map (fun s => ptr_to (seq_gv s)) (b_seqs b)) as S.
  destruct w; simpl; subst.
  - rewrite !collect_checks_opt_req, collect_seqs_req, !app_nil_r. reflexivity.
  - rewrite !collect_checks_opt_resp, collect_seqs_resp, !app_nil_r. reflexivity.
Qed.

Lemma collect_blocks : forall w l,
  flat_map (collect (pn w)) (map (fun b => ptr_to (block_gv b)) l) = flat_map (block_map (pf w)) l.
Proof.
  intros w l. induction l as [|b l IH]; [reflexivity|]. simpl map. simpl flat_map. rewrite IH. f_equal.
  apply (collect_block w b).
Qed.


Lemma collect_blocks_req : forall l,
  flat_map (collect nReq) (map (fun b => ptr_to (block_gv b)) l) = flat_map (block_map action_reqs) l.
Proof. exact (collect_blocks true). Qed.
Lemma collect_blocks_resp : forall l,
  flat_map (collect nResp) (map (fun b => ptr_to (block_gv b)) l) = flat_map (block_map action_resps) l.
Proof. exact (collect_blocks false). Qed.

Lemma collect_plan : forall w p, collect (pn w) (plan_gv p) = plan_map (pf w) p.
Proof.
  intros w p. unfold plan_gv, plan_map.
  remember (checks_opt_gv (p_bypass p)) as C1. remember (checks_opt_gv (p_pre p)) as C2.
  remember (checks_opt_gv (p_cont p)) as C3. remember (checks_opt_gv (p_post p)) as C4.
  remember (checks_opt_gv (p_deferred p)) as C5.
  remember (map (fun b => ptr_to (block_gv b)) (p_blocks p)) as S.
  destruct w; simpl; subst.
  - rewrite !collect_checks_opt_req, collect_blocks_req, !app_nil_r. reflexivity.
  - rewrite !collect_checks_opt_resp, collect_blocks_resp, !app_nil_r. reflexivity.
Qed.

(* the payloads of a scrubbed skeleton are the scrubbed payloads *)
Lemma pf_scrub_action : forall w a, pf w (scrub_action a) = map (scrub) (pf w a).
Proof.
  intros w [r [l|]]; destruct w; unfold pf, action_reqs, action_resps; simpl; try reflexivity.
  rewrite !map_map. reflexivity.
Qed.

Lemma flat_map_map_comm : forall {A B} (f : A -> list B) (g : B -> B) (h : A -> A) l,
  (forall a, f (h a) = map g (f a)) -> flat_map f (map h l) = map g (flat_map f l).
Proof.
  intros A B f g h l H. induction l as [|a l IH]; [reflexivity|]. simpl. rewrite map_app, IH, H. reflexivity.
Qed.

Lemma pf_scrub_actions : forall w l, flat_map (pf w) (map scrub_action l) = map (scrub) (flat_map (pf w) l).
Proof. intros w l. apply flat_map_map_comm. apply pf_scrub_action. Qed.

Lemma pf_scrub_checks_opt : forall w o, checks_opt_map (pf w) (scrub_checks_opt o) = map (scrub) (checks_opt_map (pf w) o).
Proof. intros w [c|]; [|reflexivity]. apply pf_scrub_actions. Qed.

Lemma pf_scrub_block : forall w b, block_map (pf w) (scrub_block b) = map (scrub) (block_map (pf w) b).
Proof.
  intros w b. unfold block_map, scrub_block. simpl. rewrite !map_app, !pf_scrub_checks_opt.
  do 5 f_equal. apply flat_map_map_comm. intros s. apply pf_scrub_actions.
Qed.

Lemma pf_scrub_plan : forall w p, plan_map (pf w) (scrub_plan p) = map (scrub) (plan_map (pf w) p).
Proof.
  intros w p. unfold plan_map, scrub_plan. simpl. rewrite !map_app, !pf_scrub_checks_opt.
  do 5 f_equal. apply flat_map_map_comm. intros b. apply pf_scrub_block.
Qed.

(* ---------- well-formedness of the embedding ---------- *)
Lemma forallb_map : forall {A B} (f : B -> bool) (g : A -> B) l, forallb f (map g l) = forallb (fun a => f (g a)) l.
Proof. induction l as [|a l IH]; [reflexivity|]. simpl. rewrite IH. reflexivity. Qed.

Lemma wf_attempt_gv : forall k, wf (k_resp k) = true -> wf (attempt_gv k) = true.
Proof. intros [r e] W. simpl in W. destruct e; simpl; rewrite W; reflexivity. Qed.

Lemma wf_action_gv : forall a, action_wf a = true -> wf (action_gv a) = true.
Proof.
  intros [r o] W. unfold action_wf, iface_wf in W. simpl in W. apply andb_true_iff in W. destruct W as [Wr Wo].
  unfold action_gv. simpl a_req. simpl a_attempts.
  assert (Wa : wf (attempts_gv o) = true).
  { destruct o as [l|]; [|reflexivity]. simpl. rewrite forallb_map. rewrite forallb_forall in *.
    intros k Hk. simpl. apply wf_attempt_gv. apply Wo. assumption. }
  remember (attempts_gv o) as A. simpl. rewrite Wr, Wa. reflexivity.
Qed.

Lemma wf_actions_gv : forall l, forallb action_wf l = true -> wf (actions_gv l) = true.
Proof.
  intros l W. unfold actions_gv. simpl. rewrite forallb_map. rewrite forallb_forall in *.
  intros a Ha. apply (wf_action_gv a (W a Ha)).
Qed.

Lemma wf_checks_gv : forall c, forallb action_wf c = true -> wf (checks_gv c) = true.
Proof.
  intros c W. unfold checks_gv. pose proof (wf_actions_gv c W) as Wa.
  remember (actions_gv c) as A. simpl. rewrite Wa. reflexivity.
Qed.

Lemma wf_checks_opt_gv : forall o, checks_opt_wf o = true -> wf (checks_opt_gv o) = true.
Proof. intros [c|] W; [|reflexivity]. apply (wf_checks_gv c W). Qed.

Lemma wf_seq_gv : forall s, forallb action_wf s = true -> wf (seq_gv s) = true.
Proof.
  intros s W. unfold seq_gv. pose proof (wf_actions_gv s W) as Wa.
  remember (actions_gv s) as A. simpl. rewrite Wa. reflexivity.
Qed.

Lemma wf_block_gv : forall b, block_wf b = true -> wf (block_gv b) = true.
Proof.
  intros b W. unfold block_wf in W. repeat (apply andb_true_iff in W; destruct W as [W ?]).
  unfold block_gv.
  pose proof (wf_checks_opt_gv _ W) as W1. pose proof (wf_checks_opt_gv _ H3) as W2.
  pose proof (wf_checks_opt_gv _ H2) as W3. pose proof (wf_checks_opt_gv _ H1) as W4.
  pose proof (wf_checks_opt_gv _ H0) as W5.
  assert (W6 : forallb wf (map (fun s => ptr_to (seq_gv s)) (b_seqs b)) = true).
  { rewrite forallb_map. rewrite forallb_forall in *. intros s Hs. apply (wf_seq_gv s (H s Hs)). }
  remember (checks_opt_gv (b_bypass b)) as C1. remember (checks_opt_gv (b_pre b)) as C2.
  remember (checks_opt_gv (b_cont b)) as C3. remember (checks_opt_gv (b_post b)) as C4.
  remember (checks_opt_gv (b_deferred b)) as C5.
  remember (map (fun s => ptr_to (seq_gv s)) (b_seqs b)) as S.
  simpl. rewrite W1, W2, W3, W4, W5, W6. reflexivity.
Qed.

Lemma wf_plan_gv : forall p, plan_wf p = true -> wf (plan_gv p) = true.
Proof.
  intros p W. unfold plan_wf in W. repeat (apply andb_true_iff in W; destruct W as [W ?]).
  unfold plan_gv.
  pose proof (wf_checks_opt_gv _ W) as W1. pose proof (wf_checks_opt_gv _ H3) as W2.
  pose proof (wf_checks_opt_gv _ H2) as W3. pose proof (wf_checks_opt_gv _ H1) as W4.
  pose proof (wf_checks_opt_gv _ H0) as W5.
  assert (W6 : forallb wf (map (fun b => ptr_to (block_gv b)) (p_blocks p)) = true).
  { rewrite forallb_map. rewrite forallb_forall in *. intros b Hb. apply (wf_block_gv b (H b Hb)). }
  remember (checks_opt_gv (p_bypass p)) as C1. remember (checks_opt_gv (p_pre p)) as C2.
  remember (checks_opt_gv (p_cont p)) as C3. remember (checks_opt_gv (p_post p)) as C4.
  remember (checks_opt_gv (p_deferred p)) as C5.
  remember (map (fun b => ptr_to (block_gv b)) (p_blocks p)) as S.
  simpl. rewrite W1, W2, W3, W4, W5, W6. reflexivity.
Qed.

(* ---------- a collected object exposes nothing its root does not ---------- *)
Lemma collect_sec_at : forall n v s x, In s (collect n v) -> sec_at s x -> sec_at v x.
Proof.
  intros n. induction v as [s0|z|b|t|fs IH| |y IH| |l IH| |l IH| |y IH|l IH] using gv_ind';
    intros s x Hin S; simpl in Hin; try contradiction.
  - rewrite Forall_forall in IH. apply in_flat_map in Hin. destruct Hin as [[m y] [Hp Hs]]. simpl in Hs.
    destruct (f_exported m) eqn:He; simpl in Hs; [|contradiction].
    destruct (has_secure (f_tag m)) eqn:Ht; [contradiction|].
    destruct (N.eqb (f_name m) n).
    + destruct Hs as [<-|[]]. eapply SA_field; eassumption.
    + destruct (is_payload (f_name m)); [contradiction|].
      eapply SA_field; try eassumption. apply (IH (m, y) Hp s x Hs S).
  - constructor. eapply IH; eassumption.
  - rewrite Forall_forall in IH. apply in_flat_map in Hin. destruct Hin as [y [Hy Hs]].
    eapply SA_slice; [eassumption|]. eapply IH; eassumption.
  - rewrite Forall_forall in IH. apply in_flat_map in Hin. destruct Hin as [[k y] [Hy Hs]].
    eapply SA_map; [eassumption|]. apply (IH (k, y) Hy s x Hs S).
  - constructor. eapply IH; eassumption.
Qed.

Lemma elems_sec_at : forall s e x, In e (elems s) -> sec_at e x -> sec_at s x.
Proof.
  intros s e x Hin S. destruct s as [| | | | | |[l|]| | |]; simpl in Hin; try contradiction.
  eapply SA_slice; eassumption.
Qed.

(* ---------- clone.go: what the copies carry ---------- *)
Section CloneFacts.
  Variable dc : gv -> gv.
  Hypothesis Hdc : forall v, dc v = v.

  Lemma clone_action_reqs : forall ks a, action_reqs (clone_action dc ks a) = action_reqs a.
  Proof. intros ks a. unfold action_reqs, clone_action. simpl. rewrite Hdc. reflexivity. Qed.

  Lemma clone_attempts_resps : forall o,
    match clone_attempts dc o with None => [] | Some l => map k_resp l end =
    match o with None => [] | Some l => map k_resp l end.
  Proof.
    intros [[|k l]|]; try reflexivity. unfold clone_attempts. rewrite map_map. apply map_ext.
    intros k'. simpl. apply Hdc.
  Qed.

  Lemma clone_action_resps : forall ks a,
    action_resps (clone_action dc ks a) = if ks then action_resps a else [].
  Proof.
    intros ks a. unfold action_resps, clone_action. simpl. destruct ks; [|reflexivity].
    apply clone_attempts_resps.
  Qed.

  Lemma clone_action_wf : forall ks a, action_wf a = true -> action_wf (clone_action dc ks a) = true.
  Proof.
    intros ks [r o] W. unfold action_wf, iface_wf in *. simpl in *. apply andb_true_iff in W. destruct W as [Wr Wo].
    rewrite Hdc, Wr. simpl. destruct ks; [|reflexivity].
    destruct o as [[|k l]|]; try reflexivity. unfold clone_attempts. rewrite forallb_map.
    rewrite forallb_forall in *. intros k' Hk'. simpl. rewrite Hdc. apply Wo. assumption.
  Qed.

  (* payload lists: [sel ks] is what survives of a list of payloads *)
  Definition keep (req ks : bool) (l : list gv) : list gv := if req then l else if ks then l else [].

  Lemma clone_action_pf : forall w ks a, pf w (clone_action dc ks a) = keep w ks (pf w a).
  Proof.
    intros w ks a. destruct w; unfold pf, keep.
    - apply clone_action_reqs.
    - rewrite clone_action_resps. destruct ks; reflexivity.
  Qed.

  Lemma keep_app : forall w ks a b, keep w ks (a ++ b) = keep w ks a ++ keep w ks b.
  Proof. intros [|] [|] a b; reflexivity. Qed.

  Lemma keep_nil : forall w ks, keep w ks [] = [].
  Proof. intros [|] [|]; reflexivity. Qed.

  Lemma clone_actions_pf : forall w ks l,
    flat_map (pf w) (map (clone_action dc ks) l) = keep w ks (flat_map (pf w) l).
  Proof.
    intros w ks l. induction l as [|a l IH]; simpl; [symmetry; apply keep_nil|].
    rewrite IH, clone_action_pf, keep_app. reflexivity.
  Qed.

  Lemma clone_checks_opt_pf : forall w ks o,
    checks_opt_map (pf w) (clone_checks_opt dc ks o) = keep w ks (checks_opt_map (pf w) o).
  Proof. intros w ks [c|]; simpl; [apply clone_actions_pf | symmetry; apply keep_nil]. Qed.

  Lemma clone_seqs_pf : forall w ks l,
    flat_map (fun s => flat_map (pf w) s) (clone_seqs dc ks l) = keep w ks (flat_map (fun s => flat_map (pf w) s) l).
  Proof.
    intros w ks l. induction l as [|s l IH]; [symmetry; apply keep_nil|].
    change (clone_seqs dc ks (s :: l))
      with ((match clone_seq dc ks s with None => [] | Some s' => [s'] end) ++ clone_seqs dc ks l).
    rewrite flat_map_app.
    change (flat_map (fun s0 => flat_map (pf w) s0) (s :: l))
      with (flat_map (pf w) s ++ flat_map (fun s0 => flat_map (pf w) s0) l).
    rewrite keep_app. f_equal; [|exact IH].
    destruct s as [|a s]; [symmetry; apply keep_nil|].
    unfold clone_seq. simpl flat_map at 1. rewrite app_nil_r.
    apply (clone_actions_pf w ks (a :: s)).
  Qed.

  Lemma clone_block_pf : forall w ks b, block_map (pf w) (clone_block dc ks b) = keep w ks (block_map (pf w) b).
  Proof.
    intros w ks b. unfold block_map, clone_block. simpl.
    rewrite !clone_checks_opt_pf, clone_seqs_pf, !keep_app. reflexivity.
  Qed.

  Lemma clone_plan_pf : forall w ks p, plan_map (pf w) (clone_plan dc ks p) = keep w ks (plan_map (pf w) p).
  Proof.
    intros w ks p. unfold plan_map, clone_plan. simpl.
    rewrite !clone_checks_opt_pf, !keep_app. do 5 f_equal.
    induction (p_blocks p) as [|b l IH]; simpl; [symmetry; apply keep_nil|].
    rewrite IH, clone_block_pf, keep_app. reflexivity.
  Qed.

  Lemma clone_checks_wf : forall ks c, forallb action_wf c = true -> forallb action_wf (clone_checks dc ks c) = true.
  Proof.
    intros ks c W. unfold clone_checks. rewrite forallb_map. rewrite forallb_forall in *.
    intros a Ha. apply clone_action_wf. apply W. assumption.
  Qed.

  Lemma clone_checks_opt_wf : forall ks o, checks_opt_wf o = true -> checks_opt_wf (clone_checks_opt dc ks o) = true.
  Proof. intros ks [c|] W; [|reflexivity]. apply (clone_checks_wf ks c W). Qed.

  Lemma clone_seqs_wf : forall ks l, forallb (forallb action_wf) l = true -> forallb (forallb action_wf) (clone_seqs dc ks l) = true.
  Proof.
    intros ks l W. induction l as [|s l IH]; [reflexivity|].
    simpl in W. apply andb_true_iff in W. destruct W as [Ws Wl].
    change (clone_seqs dc ks (s :: l))
      with ((match clone_seq dc ks s with None => [] | Some s' => [s'] end) ++ clone_seqs dc ks l).
    rewrite forallb_app. apply andb_true_iff. split; [|exact (IH Wl)].
    destruct s as [|a s]; [reflexivity|]. unfold clone_seq. simpl forallb at 1. rewrite andb_true_r.
    apply (clone_checks_wf ks (a :: s) Ws).
  Qed.

  Lemma clone_block_wf : forall ks b, block_wf b = true -> block_wf (clone_block dc ks b) = true.
  Proof.
    intros ks b W. unfold block_wf in *. repeat (apply andb_true_iff in W; destruct W as [W ?]). simpl.
    rewrite !clone_checks_opt_wf, clone_seqs_wf by assumption. reflexivity.
  Qed.

  Lemma clone_plan_wf : forall ks p, plan_wf p = true -> plan_wf (clone_plan dc ks p) = true.
  Proof.
    intros ks p W. unfold plan_wf in *. repeat (apply andb_true_iff in W; destruct W as [W ?]). simpl.
    rewrite !clone_checks_opt_wf by assumption. simpl. rewrite forallb_map. rewrite forallb_forall in *.
    intros b Hb. apply clone_block_wf. apply H. assumption.
  Qed.
End CloneFacts.

(* ---------- the theorems about the surfaces ---------- *)
(* r' is r with every exposed secure-tagged field hidden and nothing else changed *)
Definition scrubbed_copy_of (r' r : gv) : Prop :=
  (forall x, sec_at r' x -> hidden x) /\ erase r' = erase r.

Lemma Forall2_map_scrub : forall l, Forall2 scrubbed_copy_of (map (scrub) l) l.
Proof.
  induction l as [|r l IH]; simpl; constructor; [|assumption].
  split; [intros x; apply scrub_sec_hidden | apply erase_scrub].
Qed.

Lemma finish_struct : forall fs, wf (VStruct fs) = true ->
  finish false (VStruct fs) = OOk (ptr_to (scrub (VStruct fs))).
Proof. intros fs W. unfold finish, ptr_to. rewrite secure_computes_scrub by exact W. reflexivity. Qed.

Lemma sec_at_scrub_root : forall v x, sec_at (ptr_to (scrub v)) x -> hidden x.
Proof. intros v x S. apply (scrub_sec_hidden (VPtr (Some v)) x). exact S. Qed.

Lemma collect_ptr_to : forall n v, collect n (ptr_to v) = collect n v.
Proof. reflexivity. Qed.

Section Entries.
  Variable dc : gv -> gv.
  Hypothesis Hdc : forall v, dc v = v.

  Definition surfaces_ok (o : outcome) (ks : bool) (reqs resps : list gv) : Prop :=
    exists v', o = OOk v' /\
      (forall x, sec_at v' x -> hidden x) /\
      Forall2 scrubbed_copy_of (collect nReq v') reqs /\
      Forall2 scrubbed_copy_of (collect nResp v') (if ks then resps else []).

  Lemma keep_resp : forall ks l, keep false ks l = if ks then l else [].
  Proof. intros [|] l; reflexivity. Qed.

  Theorem entry_plan_surfaces : forall ks p, plan_wf p = true ->
    surfaces_ok (entry_plan dc false ks p) ks (plan_map action_reqs p) (plan_map action_resps p).
  Proof.
    intros ks p W. pose proof (wf_plan_gv _ (clone_plan_wf dc Hdc ks p W)) as Wg.
    unfold entry_plan. unfold plan_gv in Wg |- * at 1. rewrite (finish_struct _ Wg). fold (plan_gv (clone_plan dc ks p)).
    eexists. split; [reflexivity|]. split; [apply sec_at_scrub_root|].
    rewrite scrub_plan_gv. rewrite !collect_ptr_to. change nReq with (pn true). change nResp with (pn false).
    rewrite (collect_plan true), (collect_plan false), !pf_scrub_plan, !(clone_plan_pf dc Hdc).
    rewrite keep_resp. split; apply Forall2_map_scrub.
  Qed.

  Theorem entry_block_surfaces : forall ks b, block_wf b = true ->
    surfaces_ok (entry_block dc false ks b) ks (block_map action_reqs b) (block_map action_resps b).
  Proof.
    intros ks b W. pose proof (wf_block_gv _ (clone_block_wf dc Hdc ks b W)) as Wg.
    unfold entry_block. unfold block_gv in Wg |- * at 1. rewrite (finish_struct _ Wg). fold (block_gv (clone_block dc ks b)).
    eexists. split; [reflexivity|]. split; [apply sec_at_scrub_root|].
    rewrite scrub_block_gv. rewrite !collect_ptr_to. change nReq with (pn true). change nResp with (pn false).
    rewrite (collect_block true), (collect_block false), !pf_scrub_block, !(clone_block_pf dc Hdc).
    rewrite keep_resp. split; apply Forall2_map_scrub.
  Qed.

  Theorem entry_checks_surfaces : forall ks c, forallb action_wf c = true ->
    surfaces_ok (entry_checks dc false ks c) ks (flat_map action_reqs c) (flat_map action_resps c).
  Proof.
    intros ks c W. pose proof (wf_checks_gv _ (clone_checks_wf dc Hdc ks c W)) as Wg.
    unfold entry_checks. unfold checks_gv in Wg |- * at 1. rewrite (finish_struct _ Wg). fold (checks_gv (clone_checks dc ks c)).
    eexists. split; [reflexivity|]. split; [apply sec_at_scrub_root|].
    rewrite scrub_checks_gv. rewrite !collect_ptr_to. change nReq with (pn true). change nResp with (pn false).
    rewrite (collect_checks true), (collect_checks false), !pf_scrub_actions. unfold clone_checks.
    rewrite !(clone_actions_pf dc Hdc).
    rewrite keep_resp. split; apply Forall2_map_scrub.
  Qed.

  (* Sequence returns nil for a sequence without actions; otherwise as above *)
  Theorem entry_seq_surfaces : forall ks s, forallb action_wf s = true ->
    match entry_seq dc false ks s with
    | None => s = []
    | Some o => surfaces_ok o ks (flat_map action_reqs s) (flat_map action_resps s)
    end.
  Proof.
    intros ks s W. unfold entry_seq. destruct s as [|a s]; [reflexivity|].
    unfold clone_seq. pose proof (wf_seq_gv _ (clone_checks_wf dc Hdc ks (a :: s) W)) as Wg.
    unfold clone_checks in Wg. unfold seq_gv in Wg |- * at 1. rewrite (finish_struct _ Wg).
    fold (seq_gv (map (clone_action dc ks) (a :: s))).
    eexists. split; [reflexivity|]. split; [apply sec_at_scrub_root|].
    rewrite scrub_seq_gv. rewrite !collect_ptr_to. change nReq with (pn true). change nResp with (pn false).
    rewrite (collect_seq true), (collect_seq false), !pf_scrub_actions, !(clone_actions_pf dc Hdc).
    rewrite keep_resp. split; apply Forall2_map_scrub.
  Qed.

  Theorem entry_action_surfaces : forall ks a, action_wf a = true ->
    surfaces_ok (entry_action dc false ks a) ks (action_reqs a) (action_resps a).
  Proof.
    intros ks a W. pose proof (wf_action_gv _ (clone_action_wf dc Hdc ks a W)) as Wg.
    unfold entry_action. unfold action_gv in Wg |- * at 1. rewrite (finish_struct _ Wg). fold (action_gv (clone_action dc ks a)).
    eexists. split; [reflexivity|]. split; [apply sec_at_scrub_root|].
    rewrite scrub_action_gv. rewrite !collect_ptr_to. change nReq with (pn true). change nResp with (pn false).
    rewrite (collect_action true), (collect_action false), !pf_scrub_action, !(clone_action_pf dc Hdc).
    rewrite keep_resp. split; apply Forall2_map_scrub.
  Qed.

  (* with WithKeepSecrets nothing is scrubbed: the copy is returned as built *)
  Theorem entry_keep_secrets : forall ks p,
    entry_plan dc true ks p = OOk (ptr_to (plan_gv (clone_plan dc ks p))).
  Proof. reflexivity. Qed.
End Entries.

(* reports.Render: no exposed secure-tagged field of any template input holds anything but "[secret hidden]"/zero *)
Theorem render_hides : forall p, plan_wf p = true ->
  exists v', secure (ptr_to (plan_gv p)) = OOk v' /\
             render p = Ok (template_inputs v') /\
             forall i, In i (template_inputs v') -> forall x, sec_at i x -> hidden x.
Proof.
  intros p W. pose proof (wf_plan_gv p W) as Wg.
  pose proof (secure_scrubbed (ptr_to (plan_gv p)) Wg) as S.
  unfold render. destruct (secure (ptr_to (plan_gv p))) as [v'| | |] eqn:E.
  - destruct S as [Sh _]. exists v'. split; [reflexivity|]. split; [reflexivity|].
    intros i Hi x Sx. unfold template_inputs in Hi. destruct Hi as [<-|Hi]; [apply Sh; assumption|].
    apply in_app_or in Hi. apply Sh.
    destruct Hi as [Hi|Hi]; apply in_flat_map in Hi; destruct Hi as [s [Hs He]];
      eapply collect_sec_at; try eassumption; eapply elems_sec_at; eassumption.
  - destruct S as [S _]. discriminate.
  - contradiction.
  - contradiction.
Qed.

(* Whatever plan the clone functions have put together when they reach `Secure(np)` - in particular the plan that
   WithRemoveCompletedSequences leaves after dropping completed actions, sequences and blocks (since commit c724518 that
   branch no longer returns before the Secure call) - every request and response it still holds comes back scrubbed. *)
Theorem finish_any_plan : forall q, plan_wf q = true ->
  exists v', finish false (plan_gv q) = OOk v' /\
    (forall x, sec_at v' x -> hidden x) /\
    Forall2 scrubbed_copy_of (collect nReq v') (plan_map action_reqs q) /\
    Forall2 scrubbed_copy_of (collect nResp v') (plan_map action_resps q).
Proof.
  intros q W. pose proof (wf_plan_gv _ W) as Wg.
  unfold plan_gv in Wg |- * at 1. rewrite (finish_struct _ Wg). fold (plan_gv q).
  eexists. split; [reflexivity|]. split; [apply sec_at_scrub_root|].
  rewrite scrub_plan_gv. rewrite !collect_ptr_to. change nReq with (pn true). change nResp with (pn false).
  rewrite (collect_plan true), (collect_plan false), !pf_scrub_plan.
  split; apply Forall2_map_scrub.
Qed.

(* all five entry points at once (the statement of C17.c17_clone_surfaces) *)
Theorem clone_surfaces_all :
  forall dc : gv -> gv, (forall v, dc v = v) ->
  forall ks : bool,
    (forall p, plan_wf p = true ->
       surfaces_ok (entry_plan dc false ks p) ks (plan_map action_reqs p) (plan_map action_resps p)) /\
    (forall b, block_wf b = true ->
       surfaces_ok (entry_block dc false ks b) ks (block_map action_reqs b) (block_map action_resps b)) /\
    (forall c, forallb action_wf c = true ->
       surfaces_ok (entry_checks dc false ks c) ks (flat_map action_reqs c) (flat_map action_resps c)) /\
    (forall s, forallb action_wf s = true ->
       match entry_seq dc false ks s with
       | None => s = []
       | Some o => surfaces_ok o ks (flat_map action_reqs s) (flat_map action_resps s)
       end) /\
    (forall a, action_wf a = true ->
       surfaces_ok (entry_action dc false ks a) ks (action_reqs a) (action_resps a)).
Proof.
  intros dc Hdc ks. repeat split.
  - intros p W. exact (entry_plan_surfaces dc Hdc ks p W).
  - intros b W. exact (entry_block_surfaces dc Hdc ks b W).
  - intros c W. exact (entry_checks_surfaces dc Hdc ks c W).
  - intros s W. exact (entry_seq_surfaces dc Hdc ks s W).
  - intros a W. exact (entry_action_surfaces dc Hdc ks a W).
Qed.
