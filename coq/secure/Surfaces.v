(* Where clone.Secure is applied: the clone entry points (workflow/utils/clone/clone.go) and
   reports.Render (workflow/utils/html/reports/reports.go).  No proofs in this file.

   The plan is modelled minimally: only what decides WHICH request / response values reach Secure and
   through which Go nesting (Plan -> *Checks / []*Block -> []*Sequence -> []*Action -> Req any,
   []*Attempt -> Resp any).  The other fields of the workflow structs are present with their kinds
   (uuid arrays, strings, *State with time.Time fields, the unexported planID / register) but fixed
   dummy contents: none of them carries a coerce tag. *)
From Coercion.Secure Require Import GoVal SecureModel SecureSpec.

(* ---- skeleton ---- *)
Record attempt_sk := { k_resp : gv;            (* the `any` field: VIface o *)
                       k_err : bool }.         (* Err != nil *)
Record action_sk := { a_req : gv;              (* the `any` field: VIface o *)
                      a_attempts : option (list attempt_sk) }.   (* None = nil slice *)
Definition checks_sk := list action_sk.
Definition seq_sk := list action_sk.
Record block_sk := { b_bypass : option checks_sk; b_pre : option checks_sk; b_cont : option checks_sk;
                     b_post : option checks_sk; b_deferred : option checks_sk;
                     b_seqs : list seq_sk }.
Record plan_sk := { p_bypass : option checks_sk; p_pre : option checks_sk; p_cont : option checks_sk;
                    p_post : option checks_sk; p_deferred : option checks_sk;
                    p_blocks : list block_sk }.

(* ---- field names (indices below 1000 are reserved for the workflow structs) ---- *)
Definition nReq : N := 100.       Definition nAttempts : N := 101.  Definition nResp : N := 102.
Definition nErr : N := 103.       Definition nActions : N := 104.   Definition nSequences : N := 105.
Definition nBlocks : N := 106.    Definition nBypass : N := 107.    Definition nPre : N := 108.
Definition nCont : N := 109.      Definition nPost : N := 110.      Definition nDeferred : N := 111.
Definition nState : N := 112.     Definition nID : N := 113.        Definition nName : N := 114.
Definition nStart : N := 115.     Definition nEnd : N := 116.       Definition nStatus : N := 117.
Definition nPlanID : N := 118.    Definition nRegister : N := 119.  Definition nMeta : N := 120.
Definition nSubmit : N := 121.    Definition nCode : N := 122.

Definition ex (n : N) (v : gv) : fmeta * gv := ({| f_name := n; f_exported := true; f_embedded := false; f_tag := TNone |}, v).
Definition unex (n : N) (v : gv) : fmeta * gv := ({| f_name := n; f_exported := false; f_embedded := false; f_tag := TNone |}, v).

Definition uuid_gv : gv := VArray [VNum 7; VNum 7].
Definition state_gv : gv :=
  VPtr (Some (VStruct [ex nStatus (VNum 3); ex nStart (VTime 11); ex nEnd (VTime 12); ex nName (VStr 2)])).
Definition err_gv (b : bool) : gv :=
  if b then VPtr (Some (VStruct [ex nCode (VNum 1); ex nName (VStr 2); ex nErr (VPtr None)])) else VPtr None.

Definition attempt_gv (k : attempt_sk) : gv :=
  VStruct [ex nResp (k_resp k); ex nErr (err_gv (k_err k)); ex nStart (VTime 13); ex nEnd (VTime 14)].

Definition ptr_to (v : gv) : gv := VPtr (Some v).

Definition attempts_gv (o : option (list attempt_sk)) : gv :=
  VSlice (match o with None => None | Some l => Some (map (fun k => ptr_to (attempt_gv k)) l) end).

Definition action_gv (a : action_sk) : gv :=
  VStruct [ex nID uuid_gv; ex nName (VStr 2); ex nReq (a_req a); ex nAttempts (attempts_gv (a_attempts a));
           ex nState state_gv; unex nPlanID uuid_gv; unex nRegister (VPtr None)].

Definition actions_gv (l : list action_sk) : gv := VSlice (Some (map (fun a => ptr_to (action_gv a)) l)).

Definition checks_gv (c : checks_sk) : gv :=
  VStruct [ex nID uuid_gv; ex nActions (actions_gv c); ex nState state_gv; unex nPlanID uuid_gv].

Definition checks_opt_gv (o : option checks_sk) : gv :=
  VPtr (match o with None => None | Some c => Some (checks_gv c) end).

Definition seq_gv (s : seq_sk) : gv :=
  VStruct [ex nID uuid_gv; ex nName (VStr 2); ex nActions (actions_gv s); ex nState state_gv; unex nPlanID uuid_gv].

Definition block_gv (b : block_sk) : gv :=
  VStruct [ex nID uuid_gv; ex nName (VStr 2);
           ex nBypass (checks_opt_gv (b_bypass b)); ex nPre (checks_opt_gv (b_pre b));
           ex nCont (checks_opt_gv (b_cont b)); ex nPost (checks_opt_gv (b_post b));
           ex nDeferred (checks_opt_gv (b_deferred b));
           ex nSequences (VSlice (Some (map (fun s => ptr_to (seq_gv s)) (b_seqs b))));
           ex nState state_gv; unex nPlanID uuid_gv].

Definition plan_gv (p : plan_sk) : gv :=
  VStruct [ex nID uuid_gv; ex nName (VStr 2); ex nMeta (VSlice (Some [VNum 1; VNum 2]));
           ex nBypass (checks_opt_gv (p_bypass p)); ex nPre (checks_opt_gv (p_pre p));
           ex nCont (checks_opt_gv (p_cont p)); ex nPost (checks_opt_gv (p_post p));
           ex nDeferred (checks_opt_gv (p_deferred p));
           ex nBlocks (VSlice (Some (map (fun b => ptr_to (block_gv b)) (p_blocks p))));
           ex nState state_gv; ex nSubmit (VTime 15); ex nStatus (VNum 0)].

(* ---- the request / response values of a skeleton, in the field order of the structs ---- *)
Definition action_reqs (a : action_sk) : list gv := [a_req a].
Definition action_resps (a : action_sk) : list gv :=
  match a_attempts a with None => [] | Some l => map k_resp l end.
Definition checks_opt_map {A} (f : action_sk -> list A) (o : option checks_sk) : list A :=
  match o with None => [] | Some c => flat_map f c end.
Definition block_map {A} (f : action_sk -> list A) (b : block_sk) : list A :=
  checks_opt_map f (b_bypass b) ++ checks_opt_map f (b_pre b) ++ checks_opt_map f (b_cont b) ++
  checks_opt_map f (b_post b) ++ checks_opt_map f (b_deferred b) ++
  flat_map (fun s => flat_map f s) (b_seqs b).
Definition plan_map {A} (f : action_sk -> list A) (p : plan_sk) : list A :=
  checks_opt_map f (p_bypass p) ++ checks_opt_map f (p_pre p) ++ checks_opt_map f (p_cont p) ++
  checks_opt_map f (p_post p) ++ checks_opt_map f (p_deferred p) ++
  flat_map (block_map f) (p_blocks p).

(* ---- reading objects back out of a Go value ----
   [collect n v]: the values of the exported, not secure-tagged fields named n, found by walking v through
   exported untagged fields, pointers, slices, map values and interface values - not below a found field and
   not into the request / response payloads (fields Req and Resp), whose own field names are arbitrary. *)
Definition is_payload (name : N) : bool := N.eqb name nReq || N.eqb name nResp.

Fixpoint collect (n : N) (v : gv) : list gv :=
  match v with
  | VStr _ | VNum _ | VBool _ | VTime _ | VArray _ => []
  | VStruct fs =>
      flat_map (fun p => if negb (f_exported (fst p)) || has_secure (f_tag (fst p)) then []
                         else if N.eqb (f_name (fst p)) n then [snd p]
                         else if is_payload (f_name (fst p)) then []
                         else collect n (snd p)) fs
  | VPtr o => match o with None => [] | Some x => collect n x end
  | VSlice o => match o with None => [] | Some l => flat_map (collect n) l end
  | VMap o => match o with None => [] | Some l => flat_map (fun p => collect n (snd p)) l end
  | VIface o => match o with None => [] | Some x => collect n x end
  end.

Definition elems (v : gv) : list gv := match v with VSlice (Some l) => l | _ => [] end.

(* ---- clone.go ---- *)
Section Clone.
  (* brunoga/deep MustCopy, on tree values: an equal value (freshness of locations is not expressible here;
     C18 models locations) *)
  Variable deepcopy : gv -> gv.

  Definition clone_attempts (o : option (list attempt_sk)) : option (list attempt_sk) :=
    match o with
    | None | Some [] => None                                  (* len(attempts) == 0: return nil *)
    | Some l => Some (map (fun k => {| k_resp := deepcopy (k_resp k); k_err := k_err k |}) l)
    end.

  Definition clone_action (keep_state : bool) (a : action_sk) : action_sk :=
    {| a_req := deepcopy (a_req a);
       a_attempts := if keep_state then clone_attempts (a_attempts a) else None |}.

  Definition clone_checks (ks : bool) (c : checks_sk) : checks_sk := map (clone_action ks) c.
  Definition clone_checks_opt (ks : bool) (o : option checks_sk) : option checks_sk :=
    match o with None => None | Some c => Some (clone_checks ks c) end.

  (* Sequence returns nil for a sequence without actions, and Block drops nil sequences *)
  Definition clone_seq (ks : bool) (s : seq_sk) : option seq_sk :=
    match s with [] => None | _ => Some (map (clone_action ks) s) end.

  Definition clone_seqs (ks : bool) (l : list seq_sk) : list seq_sk :=
    flat_map (fun s => match clone_seq ks s with None => [] | Some s' => [s'] end) l.

  Definition clone_block (ks : bool) (b : block_sk) : block_sk :=
    {| b_bypass := clone_checks_opt ks (b_bypass b); b_pre := clone_checks_opt ks (b_pre b);
       b_cont := clone_checks_opt ks (b_cont b); b_post := clone_checks_opt ks (b_post b);
       b_deferred := clone_checks_opt ks (b_deferred b); b_seqs := clone_seqs ks (b_seqs b) |}.

  Definition clone_plan (ks : bool) (p : plan_sk) : plan_sk :=
    {| p_bypass := clone_checks_opt ks (p_bypass p); p_pre := clone_checks_opt ks (p_pre p);
       p_cont := clone_checks_opt ks (p_cont p); p_post := clone_checks_opt ks (p_post p);
       p_deferred := clone_checks_opt ks (p_deferred p); p_blocks := map (clone_block ks) (p_blocks p) |}.

  (* the five exported entry points: callNum = 1, so `if !opts.keepSecrets && opts.callNum == 1 { Secure(n) }`
     runs here and only here; the error result of Secure is ignored by the code (it cannot occur: the
     argument is a non-nil pointer to a struct) *)
  Definition finish (keep_secrets : bool) (root : gv) : outcome :=
    if keep_secrets then OOk (ptr_to root) else secure (ptr_to root).

  Definition entry_plan (keep_secrets ks : bool) (p : plan_sk) : outcome :=
    finish keep_secrets (plan_gv (clone_plan ks p)).
  Definition entry_block (keep_secrets ks : bool) (b : block_sk) : outcome :=
    finish keep_secrets (block_gv (clone_block ks b)).
  Definition entry_checks (keep_secrets ks : bool) (c : checks_sk) : outcome :=
    finish keep_secrets (checks_gv (clone_checks ks c)).
  Definition entry_seq (keep_secrets ks : bool) (s : seq_sk) : option outcome :=
    match clone_seq ks s with None => None | Some s' => Some (finish keep_secrets (seq_gv s')) end.
  Definition entry_action (keep_secrets ks : bool) (a : action_sk) : outcome :=
    finish keep_secrets (action_gv (clone_action ks a)).
End Clone.

(* ---- reports.Render: clone.Secure(plan) on the plan itself (the caller's plan is altered, as documented),
   then plan.tmpl gets the plan, sequence.tmpl every sequence and action.tmpl every action of walk.Plan(plan) ---- *)
Definition template_inputs (v' : gv) : list gv :=
  v' :: flat_map elems (collect nSequences v') ++ flat_map elems (collect nActions v').

Definition render (p : plan_sk) : res (list gv) :=
  match secure (ptr_to (plan_gv p)) with
  | OOk v' => Ok (template_inputs v')
  | OErr => Ok []                       (* Render returns the error; nothing is rendered *)
  | OPanic q => Panic q
  | OFuel => Fuel
  end.

(* ---- what the clone entry points are supposed to return: the same skeleton with every payload scrubbed ---- *)
Definition scrub_attempt (k : attempt_sk) : attempt_sk := {| k_resp := scrub (k_resp k); k_err := k_err k |}.
Definition scrub_action (a : action_sk) : action_sk :=
  {| a_req := scrub (a_req a);
     a_attempts := match a_attempts a with None => None | Some l => Some (map scrub_attempt l) end |}.
Definition scrub_checks_opt (o : option checks_sk) : option checks_sk :=
  match o with None => None | Some c => Some (map scrub_action c) end.
Definition scrub_block (b : block_sk) : block_sk :=
  {| b_bypass := scrub_checks_opt (b_bypass b); b_pre := scrub_checks_opt (b_pre b); b_cont := scrub_checks_opt (b_cont b);
     b_post := scrub_checks_opt (b_post b); b_deferred := scrub_checks_opt (b_deferred b);
     b_seqs := map (map scrub_action) (b_seqs b) |}.
Definition scrub_plan (p : plan_sk) : plan_sk :=
  {| p_bypass := scrub_checks_opt (p_bypass p); p_pre := scrub_checks_opt (p_pre p); p_cont := scrub_checks_opt (p_cont p);
     p_post := scrub_checks_opt (p_post p); p_deferred := scrub_checks_opt (p_deferred p);
     p_blocks := map scrub_block (p_blocks p) |}.

(* well-formedness of the payloads of a skeleton (the Go invariant GoVal.wf) *)
Definition iface_wf (v : gv) : bool := wf v.
Definition action_wf (a : action_sk) : bool :=
  iface_wf (a_req a) && match a_attempts a with None => true | Some l => forallb (fun k => iface_wf (k_resp k)) l end.
Definition checks_opt_wf (o : option checks_sk) : bool :=
  match o with None => true | Some c => forallb action_wf c end.
Definition block_wf (b : block_sk) : bool :=
  checks_opt_wf (b_bypass b) && checks_opt_wf (b_pre b) && checks_opt_wf (b_cont b) &&
  checks_opt_wf (b_post b) && checks_opt_wf (b_deferred b) && forallb (forallb action_wf) (b_seqs b).
Definition plan_wf (p : plan_sk) : bool :=
  checks_opt_wf (p_bypass p) && checks_opt_wf (p_pre p) && checks_opt_wf (p_cont p) &&
  checks_opt_wf (p_post p) && checks_opt_wf (p_deferred p) && forallb block_wf (p_blocks p).
