(* A universe of Go values, as far as clone.Secure (workflow/utils/clone/secure.go), reports.Render and
   the registry's findSecrets can tell them apart (DESIGN.md section 6, C17).

   Abstraction done by the harness (harness/cmd/c17, with reflect only, independent of the code under test):
   - a string is [VStr id]: 0 = "", 1 = "[secret hidden]" (clone.SecureStr), any other string its index
     (>= 2) among the distinct strings of the case;
   - every numeric kind is [VNum z] (its value); bool is [VBool];
   - a time.Time is [VTime z]: 0 = the zero time, otherwise its Unix seconds (the generator uses
     distinct positive seconds).  reflect.Kind of a time.Time is Struct; the code special-cases it;
   - a struct is the list of its fields in declaration order, each with name index, exportedness, whether it
     is embedded (anonymous) and the coerce tag; pointer / slice / map / interface carry [None] for nil; a map is the list of its
     (key index, value) pairs sorted by key; an array is the list of its elements.
   The model is over trees: values with sharing are not expressible (scrubbing through a shared pointer
   can only scrub more). *)
From Coq Require Export List ZArith NArith Bool.
Export ListNotations.

(* the `coerce:"..."` tag, as getTags/hasTag read it: a set that may hold "secure" and "ignore" *)
Inductive tag := TNone | TSecure | TIgnore | TBoth.

Definition has_secure (t : tag) : bool := match t with TSecure | TBoth => true | _ => false end.
Definition has_ignore (t : tag) : bool := match t with TIgnore | TBoth => true | _ => false end.

(* f_embedded: an anonymous (embedded) field.  An embedded struct (or *struct) of an UNEXPORTED type is an
   unexported field whose exported fields are nevertheless promoted and serialised by the JSON encoders. *)
Record fmeta := { f_name : N; f_exported : bool; f_embedded : bool; f_tag : tag }.

Inductive gv : Type :=
| VStr (s : N)
| VNum (z : Z)
| VBool (b : bool)
| VTime (t : Z)
| VStruct (fs : list (fmeta * gv))
| VPtr (o : option gv)
| VSlice (o : option (list gv))
| VMap (o : option (list (N * gv)))
| VIface (o : option gv)
| VArray (l : list gv).

Definition hidden_str : N := 1%N.      (* clone.SecureStr = "[secret hidden]" *)

(* reflect.Kind, as far as the dispatch distinguishes it *)
Inductive kind := KString | KOther | KStruct | KPtr | KSlice | KMap | KIface | KArray.

Definition kind_of (v : gv) : kind :=
  match v with
  | VStr _ => KString
  | VNum _ | VBool _ => KOther
  | VTime _ | VStruct _ => KStruct
  | VPtr _ => KPtr
  | VSlice _ => KSlice
  | VMap _ => KMap
  | VIface _ => KIface
  | VArray _ => KArray
  end.

Definition is_time (v : gv) : bool := match v with VTime _ => true | _ => false end.

(* ---- the nested induction principle, stated once ---- *)
Section GvInd.
  Variable P : gv -> Prop.
  Hypothesis HStr : forall s, P (VStr s).
  Hypothesis HNum : forall z, P (VNum z).
  Hypothesis HBool : forall b, P (VBool b).
  Hypothesis HTime : forall t, P (VTime t).
  Hypothesis HStruct : forall fs, Forall (fun p => P (snd p)) fs -> P (VStruct fs).
  Hypothesis HPtrN : P (VPtr None).
  Hypothesis HPtr : forall x, P x -> P (VPtr (Some x)).
  Hypothesis HSliceN : P (VSlice None).
  Hypothesis HSlice : forall l, Forall P l -> P (VSlice (Some l)).
  Hypothesis HMapN : P (VMap None).
  Hypothesis HMap : forall l, Forall (fun p => P (snd p)) l -> P (VMap (Some l)).
  Hypothesis HIfaceN : P (VIface None).
  Hypothesis HIface : forall x, P x -> P (VIface (Some x)).
  Hypothesis HArray : forall l, Forall P l -> P (VArray l).

  Fixpoint gv_ind' (v : gv) : P v :=
    match v with
    | VStr s => HStr s
    | VNum z => HNum z
    | VBool b => HBool b
    | VTime t => HTime t
    | VStruct fs =>
        HStruct fs ((fix go (l : list (fmeta * gv)) : Forall (fun p => P (snd p)) l :=
                       match l with
                       | [] => Forall_nil _
                       | p :: r => Forall_cons p (gv_ind' (snd p)) (go r)
                       end) fs)
    | VPtr None => HPtrN
    | VPtr (Some x) => HPtr x (gv_ind' x)
    | VSlice None => HSliceN
    | VSlice (Some l) =>
        HSlice l ((fix go (l : list gv) : Forall P l :=
                     match l with
                     | [] => Forall_nil _
                     | x :: r => Forall_cons x (gv_ind' x) (go r)
                     end) l)
    | VMap None => HMapN
    | VMap (Some l) =>
        HMap l ((fix go (l : list (N * gv)) : Forall (fun p => P (snd p)) l :=
                   match l with
                   | [] => Forall_nil _
                   | p :: r => Forall_cons p (gv_ind' (snd p)) (go r)
                   end) l)
    | VIface None => HIfaceN
    | VIface (Some x) => HIface x (gv_ind' x)
    | VArray l =>
        HArray l ((fix go (l : list gv) : Forall P l :=
                     match l with
                     | [] => Forall_nil _
                     | x :: r => Forall_cons x (gv_ind' x) (go r)
                     end) l)
    end.
End GvInd.

(* map over the second component of a pair list (fields, map entries) *)
Definition map_snd {A B C} (f : B -> C) (l : list (A * B)) : list (A * C) :=
  map (fun p => (fst p, f (snd p))) l.

(* reflect.Zero(v.Type()): the zero value of v's type (computable from v: a struct's zero is the struct of
   its fields' zeros, an array's likewise; everything nil-able is nil) *)
Fixpoint zero (v : gv) : gv :=
  match v with
  | VStr _ => VStr 0%N
  | VNum _ => VNum 0%Z
  | VBool _ => VBool false
  | VTime _ => VTime 0%Z
  | VStruct fs => VStruct (map_snd zero fs)
  | VPtr _ => VPtr None
  | VSlice _ => VSlice None
  | VMap _ => VMap None
  | VIface _ => VIface None
  | VArray l => VArray (map zero l)
  end.

(* what a wiped field holds: "[secret hidden]" for a string, the zero value for everything else *)
Definition hide (x : gv) : gv := match x with VStr _ => VStr hidden_str | _ => zero x end.

(* wipeEmbedded on a struct value (secure.go, since commit ea18f48): every exported field is hidden, unexported
   ANONYMOUS fields (struct or non-nil *struct) are wiped in turn, other unexported fields are left; anything that is
   not a struct is left as it is (time.Time has no exported field) *)
Fixpoint wipe (v : gv) : gv :=
  match v with
  | VStruct fs =>
      VStruct (map (fun p => (fst p,
                              if f_exported (fst p) then hide (snd p)
                              else if f_embedded (fst p) then
                                     match snd p with
                                     | VPtr (Some y) => VPtr (Some (wipe y))
                                     | _ => wipe (snd p)
                                     end
                              else snd p)) fs)
  | _ => v
  end.

(* wipeEmbedded(val): through one pointer, if any *)
Definition wipe_embedded (val : gv) : gv :=
  match val with VPtr (Some y) => VPtr (Some (wipe y)) | x => wipe x end.

Fixpoint is_zero (v : gv) : bool :=
  match v with
  | VStr s => N.eqb s 0
  | VNum z => Z.eqb z 0
  | VBool b => negb b
  | VTime t => Z.eqb t 0
  | VStruct fs => forallb (fun p => is_zero (snd p)) fs
  | VPtr o => match o with None => true | Some _ => false end
  | VSlice o => match o with None => true | Some _ => false end
  | VMap o => match o with None => true | Some _ => false end
  | VIface o => match o with None => true | Some _ => false end
  | VArray l => forallb is_zero l
  end.

(* nesting depth: leaves 0 *)
Fixpoint depth (v : gv) : nat :=
  match v with
  | VStr _ | VNum _ | VBool _ | VTime _ => 0
  | VStruct fs => S (fold_right (fun p m => Nat.max (depth (snd p)) m) 0 fs)
  | VPtr o => match o with None => 1 | Some x => S (depth x) end
  | VSlice o => match o with None => 1 | Some l => S (fold_right (fun x m => Nat.max (depth x) m) 0 l) end
  | VMap o => match o with None => 1 | Some l => S (fold_right (fun p m => Nat.max (depth (snd p)) m) 0 l) end
  | VIface o => match o with None => 1 | Some x => S (depth x) end
  | VArray l => S (fold_right (fun x m => Nat.max (depth x) m) 0 l)
  end.

(* Go invariant: the dynamic value of an interface is never itself an interface value *)
Fixpoint wf (v : gv) : bool :=
  match v with
  | VStr _ | VNum _ | VBool _ | VTime _ => true
  | VStruct fs => forallb (fun p => wf (snd p)) fs
  | VPtr o => match o with None => true | Some x => wf x end
  | VSlice o => match o with None => true | Some l => forallb wf l end
  | VMap o => match o with None => true | Some l => forallb (fun p => wf (snd p)) l end
  | VIface o => match o with
                | None => true
                | Some x => match x with VIface _ => false | _ => wf x end
                end
  | VArray l => forallb wf l
  end.

(* ---- boolean equality (for the executable comparisons of the correspondence check) ---- *)
Definition tag_eqb (a b : tag) : bool :=
  match a, b with
  | TNone, TNone | TSecure, TSecure | TIgnore, TIgnore | TBoth, TBoth => true
  | _, _ => false
  end.

Definition fmeta_eqb (a b : fmeta) : bool :=
  N.eqb (f_name a) (f_name b) && Bool.eqb (f_exported a) (f_exported b) && Bool.eqb (f_embedded a) (f_embedded b) &&
  tag_eqb (f_tag a) (f_tag b).

Fixpoint gv_eqb (a b : gv) {struct a} : bool :=
  match a, b with
  | VStr x, VStr y => N.eqb x y
  | VNum x, VNum y => Z.eqb x y
  | VBool x, VBool y => Bool.eqb x y
  | VTime x, VTime y => Z.eqb x y
  | VStruct fa, VStruct fb =>
      (fix go (l : list (fmeta * gv)) (m : list (fmeta * gv)) {struct l} : bool :=
         match l, m with
         | [], [] => true
         | p :: l', q :: m' => fmeta_eqb (fst p) (fst q) && gv_eqb (snd p) (snd q) && go l' m'
         | _, _ => false
         end) fa fb
  | VPtr None, VPtr None => true
  | VPtr (Some x), VPtr (Some y) => gv_eqb x y
  | VSlice None, VSlice None => true
  | VSlice (Some la), VSlice (Some lb) =>
      (fix go (l : list gv) (m : list gv) {struct l} : bool :=
         match l, m with
         | [], [] => true
         | x :: l', y :: m' => gv_eqb x y && go l' m'
         | _, _ => false
         end) la lb
  | VMap None, VMap None => true
  | VMap (Some la), VMap (Some lb) =>
      (fix go (l : list (N * gv)) (m : list (N * gv)) {struct l} : bool :=
         match l, m with
         | [], [] => true
         | p :: l', q :: m' => N.eqb (fst p) (fst q) && gv_eqb (snd p) (snd q) && go l' m'
         | _, _ => false
         end) la lb
  | VIface None, VIface None => true
  | VIface (Some x), VIface (Some y) => gv_eqb x y
  | VArray la, VArray lb =>
      (fix go (l : list gv) (m : list gv) {struct l} : bool :=
         match l, m with
         | [], [] => true
         | x :: l', y :: m' => gv_eqb x y && go l' m'
         | _, _ => false
         end) la lb
  | _, _ => false
  end.
