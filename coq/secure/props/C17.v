(* C17 - Secure-tagged values never leak through clones or HTML reports; the registry refuses secret-looking
   untagged fields.  Statements only; proofs in SecureProofs.v, SurfacesProofs.v, RegistryProofs.v.

   Vocabulary (GoVal.v, SecureSpec.v, Registry.v, Surfaces.v):
     gv          Go values: strings, numbers, bools, time.Time, structs (fields with name, exportedness, coerce tag),
                 pointers, slices, maps, interfaces (nil or not), arrays;  wf v = the Go invariant that an interface
                 never directly holds an interface.
     secure      the model of clone.Secure (SecureModel.v, function by function, with the code's panic sites).
     sec_at v x  x is the value of an exported field tagged coerce:"secure" reachable in v through exported untagged
                 struct fields, embedded structs / non-nil *structs of unexported types (their fields are promoted and
                 serialised), pointers, slices, map values and interface values; or of ANY exported field promoted
                 ([promoted]) through an embedded struct / *struct of unexported type that is itself tagged secure: a leaf
                 is secret if any field on its path, embedded ones included, carries the tag.  NOT through arrays and NOT
                 through ordinary unexported fields: the two documented exclusions of clone.Secure.
     hidden x    x = "[secret hidden]" or x is the zero value of its type.
     erase v     v with the values of the exposed secure-tagged fields blanked; equal erasures = same shape, same field
                 metadata, same map keys, same nil-ness, same untagged data (unexported fields and whole arrays included).
     scrub       the one-screen functional specification of Secure (SecureSpec.v). *)
From Coercion.Secure Require Import GoVal SecureModel SecureSpec SecureProofs Registry RegistryProofs Surfaces SurfacesProofs.

(* clone.Secure on EVERY value (any depth, any nesting of the constructors, any tags, nil anywhere, time.Time anywhere):
   never a panic (none of the code's panic statements / reflect misuse is reachable) and never out of recursion levels;
   on a pointer to a struct (or a nil pointer) the result has no exposed secure-tagged field that is not hidden and is
   otherwise unchanged; on anything else Secure returns its error and changes nothing. *)
Theorem c17_scrubbed : forall v : gv, wf v = true ->
  match secure v with
  | OOk v' => (forall x, sec_at v' x -> hidden x) /\ erase v' = erase v /\ (struct_ptr v = true \/ v = VPtr None)
  | OErr => struct_ptr v = false /\ v <> VPtr None
  | OPanic _ | OFuel => False
  end.
Proof. exact secure_scrubbed. Qed.
Print Assumptions c17_scrubbed.

(* ... in fact the dispatch computes exactly the specification (a complete functional description: this is why any
   disagreement between the implementation and the model is a violation with that input) *)
Theorem c17_secure_is_scrub : forall v : gv, wf v = true ->
  secure v = match v with
             | VPtr None => OOk v
             | _ => if struct_ptr v then OOk (scrub v) else OErr
             end.
Proof. exact secure_computes_scrub. Qed.
Print Assumptions c17_secure_is_scrub.

(* the boolean monitor evaluated on the implementation's outputs IS the declarative statement *)
Theorem c17_monitor : forall v : gv, scrubbedb v = true <-> (forall x, sec_at v x -> hidden x).
Proof. exact scrubbedb_spec. Qed.
Print Assumptions c17_monitor.

(* The five clone entry points without WithKeepSecrets (Plan, Block, Checks, Sequence, Action; with or without
   WithKeepState), for every plan skeleton whose payloads are well-formed: the result v' exposes no secure-tagged value
   anywhere; its requests are, one for one and in order, the original's requests with the secure-tagged fields hidden
   and nothing else changed; its attempt responses likewise when state is kept, and there are none otherwise.
   deepcopy (brunoga/deep MustCopy) is a premise: value-equal copy.  The original is an immutable value of the model:
   that the Go original is untouched is observed by the correspondence check (and is C18's c18_no_sharing). *)
(* WithRemoveCompletedSequences only DROPS objects (completed actions, sequences, blocks) before the same final
   Secure(np) (since commit c724518 that branch no longer returns early): for whatever plan q is left, every request and
   response still in it comes back scrubbed.  Which objects are dropped is outside C17 and not modelled. *)
Theorem c17_clone_any_kept_subset : forall q : plan_sk, plan_wf q = true ->
  exists v', finish false (plan_gv q) = OOk v' /\
    (forall x, sec_at v' x -> hidden x) /\
    Forall2 (fun r' r => (forall x, sec_at r' x -> hidden x) /\ erase r' = erase r) (collect nReq v') (plan_map action_reqs q) /\
    Forall2 (fun r' r => (forall x, sec_at r' x -> hidden x) /\ erase r' = erase r) (collect nResp v') (plan_map action_resps q).
Proof. exact finish_any_plan. Qed.
Print Assumptions c17_clone_any_kept_subset.

Theorem c17_clone_surfaces :
  forall deepcopy : gv -> gv, (forall v, deepcopy v = v) ->
  forall keep_state : bool,
    (forall p, plan_wf p = true ->
       exists v', entry_plan deepcopy false keep_state p = OOk v' /\
         (forall x, sec_at v' x -> hidden x) /\
         Forall2 (fun r' r => (forall x, sec_at r' x -> hidden x) /\ erase r' = erase r)
                 (collect nReq v') (plan_map action_reqs p) /\
         Forall2 (fun r' r => (forall x, sec_at r' x -> hidden x) /\ erase r' = erase r)
                 (collect nResp v') (if keep_state then plan_map action_resps p else [])) /\
    (forall b, block_wf b = true ->
       exists v', entry_block deepcopy false keep_state b = OOk v' /\
         (forall x, sec_at v' x -> hidden x) /\
         Forall2 (fun r' r => (forall x, sec_at r' x -> hidden x) /\ erase r' = erase r)
                 (collect nReq v') (block_map action_reqs b) /\
         Forall2 (fun r' r => (forall x, sec_at r' x -> hidden x) /\ erase r' = erase r)
                 (collect nResp v') (if keep_state then block_map action_resps b else [])) /\
    (forall c, forallb action_wf c = true ->
       exists v', entry_checks deepcopy false keep_state c = OOk v' /\
         (forall x, sec_at v' x -> hidden x) /\
         Forall2 (fun r' r => (forall x, sec_at r' x -> hidden x) /\ erase r' = erase r)
                 (collect nReq v') (flat_map action_reqs c) /\
         Forall2 (fun r' r => (forall x, sec_at r' x -> hidden x) /\ erase r' = erase r)
                 (collect nResp v') (if keep_state then flat_map action_resps c else [])) /\
    (forall s, forallb action_wf s = true ->
       match entry_seq deepcopy false keep_state s with
       | None => s = []
       | Some o =>
           exists v', o = OOk v' /\
             (forall x, sec_at v' x -> hidden x) /\
             Forall2 (fun r' r => (forall x, sec_at r' x -> hidden x) /\ erase r' = erase r)
                     (collect nReq v') (flat_map action_reqs s) /\
             Forall2 (fun r' r => (forall x, sec_at r' x -> hidden x) /\ erase r' = erase r)
                     (collect nResp v') (if keep_state then flat_map action_resps s else [])
       end) /\
    (forall a, action_wf a = true ->
       exists v', entry_action deepcopy false keep_state a = OOk v' /\
         (forall x, sec_at v' x -> hidden x) /\
         Forall2 (fun r' r => (forall x, sec_at r' x -> hidden x) /\ erase r' = erase r)
                 (collect nReq v') (action_reqs a) /\
         Forall2 (fun r' r => (forall x, sec_at r' x -> hidden x) /\ erase r' = erase r)
                 (collect nResp v') (if keep_state then action_resps a else [])).
Proof. exact clone_surfaces_all. Qed.
Print Assumptions c17_clone_surfaces.

(* reports.Render: Secure runs on the plan itself, the templates get the plan, every sequence and every action of the
   scrubbed plan; none of these inputs exposes a secure-tagged value that is not hidden; Render does not panic. *)
Theorem c17_report : forall p : plan_sk, plan_wf p = true ->
  exists v', secure (ptr_to (plan_gv p)) = OOk v' /\
             render p = Ok (template_inputs v') /\
             forall i, In i (template_inputs v') -> forall x, sec_at i x -> hidden x.
Proof. exact render_hides. Qed.
Print Assumptions c17_report.

(* The registry: findSecrets returns an error exactly when some field - exported or not - reachable through struct
   fields, pointers, slices, arrays and maps (keys and elements), at any depth ([reach]; an interface has no static
   fields) has a secret-looking name and neither the secure nor the ignore tag; Register accepts exactly when neither the
   request nor the response type has such a field. *)
Theorem c17_registry :
  (forall t : ty, find_secrets t <> None <-> exists m, reach t m /\ offending m = true) /\
  (forall req resp : ty, register_ok req resp = true <->
                         (forall m, reach req m \/ reach resp m -> offending m = false)).
Proof. split; [exact find_secrets_error_iff | exact register_ok_iff]. Qed.
Print Assumptions c17_registry.
