(* placeholder until SecureProofs.v lands *)
From Coercion.Secure Require Import GoVal SecureModel.
Theorem c17_placeholder : True. Proof. exact I. Qed.
Print Assumptions c17_placeholder.
