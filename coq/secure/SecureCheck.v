(* Correspondence checker for C17 (no proofs).  The harness (harness/cmd/c17) hands over, per case, the
   abstracted input and the abstracted observation of what the real code did; [check_case] evaluates the
   model on the input, compares, and evaluates the property monitors on the OBSERVATION.

   check_case c = [code; detail]:  code 0 = agrees and all monitors true.
     clone.Secure on one value      1 model <> implementation (monitors true)   2 secure-tagged value survived
                                    3 untagged data / shape changed             4 panic     5 error-ness differs
     clone entry points            11 model <> implementation                  12 secure-tagged value survived in the clone
                                   13 untagged data / shape changed            14 panic    16 the original changed
                                   17 a secure canary is in the clone's JSON / an expected plain canary is not
     reports.Render                21 an expected plain canary was not rendered 22 a rendered canary is not in any template input of the model
                                   24 panic / error
     registry                      31 Register's verdict differs from find_secrets (the specification is complete: a violation) *)
From Coercion.Secure Require Import GoVal SecureModel SecureSpec Registry Surfaces.

Inductive leaf := LS (s : N) | LN (z : Z) | LT (t : Z).

Definition leaf_eqb (a b : leaf) : bool :=
  match a, b with
  | LS x, LS y => N.eqb x y
  | LN x, LN y => Z.eqb x y
  | LT x, LT y => Z.eqb x y
  | _, _ => false
  end.

(* every string / number / time anywhere in v (a superset of what any encoder can show) *)
Fixpoint leaves (v : gv) : list leaf :=
  match v with
  | VStr s => [LS s]
  | VNum z => [LN z]
  | VBool _ => []
  | VTime t => [LT t]
  | VStruct fs => flat_map (fun p => leaves (snd p)) fs
  | VPtr o => match o with None => [] | Some x => leaves x end
  | VSlice o => match o with None => [] | Some l => flat_map leaves l end
  | VMap o => match o with None => [] | Some l => flat_map (fun p => leaves (snd p)) l end
  | VIface o => match o with None => [] | Some x => leaves x end
  | VArray l => flat_map leaves l
  end.

Definition memb (x : leaf) (l : list leaf) : bool := existsb (leaf_eqb x) l.
Definition subsetb (a b : list leaf) : bool := forallb (fun x => memb x b) a.

Fixpoint list_eqb {A} (eqb : A -> A -> bool) (a b : list A) : bool :=
  match a, b with
  | [], [] => true
  | x :: a', y :: b' => eqb x y && list_eqb eqb a' b'
  | _, _ => false
  end.

Inductive obs := ObsOk (v : gv) | ObsErr | ObsPanic.

Inductive root := RPlan (p : plan_sk) | RBlock (b : block_sk) | RChecks (c : checks_sk)
                | RSeq (s : seq_sk) | RAction (a : action_sk).

(* what the harness reads off a clone with its own loops over the workflow structs *)
Inductive clone_obs :=
| CloneNil                                          (* the entry point returned nil *)
| ClonePanic
| CloneOk (reqs resps : list gv)                    (* every Action.Req / Attempt.Resp of the clone, in struct order *)
          (orig_reqs orig_resps : list gv)          (* the same of the ORIGINAL, read after the call *)
          (found : list leaf)                       (* canaries byte-found in the JSON of the clone *)
          (secret plain : list leaf).               (* harness labels: canaries planted under / outside secure-tagged fields
                                                       of what this entry point copies *)

Inductive case :=
| CSecure (input : gv) (o : obs)
| CClone (keep_state : bool) (r : root) (o : clone_obs)
| CKept (kept : list (gv * gv))             (* clone.Plan with WithRemoveCompletedSequences: (value in the clone, the original's) for
                                               every request / response the clone still holds *)
        (found secret plain : list leaf)
| CRender (p : plan_sk) (ok : bool) (found : list leaf) (expect : list leaf)
| CReg (req resp : ty) (registered : bool).

Definition root_reqs (r : root) : list gv :=
  match r with
  | RPlan p => plan_map action_reqs p | RBlock b => block_map action_reqs b
  | RChecks c => flat_map action_reqs c | RSeq s => flat_map action_reqs s | RAction a => action_reqs a
  end.
Definition root_resps (r : root) : list gv :=
  match r with
  | RPlan p => plan_map action_resps p | RBlock b => block_map action_resps b
  | RChecks c => flat_map action_resps c | RSeq s => flat_map action_resps s | RAction a => action_resps a
  end.

(* the model's clone of a root: None = nil result *)
Definition model_entry (ks : bool) (r : root) : option outcome :=
  let dc := fun v : gv => v in
  match r with
  | RPlan p => Some (entry_plan dc false ks p)
  | RBlock b => Some (entry_block dc false ks b)
  | RChecks c => Some (entry_checks dc false ks c)
  | RSeq s => entry_seq dc false ks s
  | RAction a => Some (entry_action dc false ks a)
  end.

(* the clone's requests / responses paired with the original's: same count, and each pair erase-equal *)
Fixpoint erase_pairs (a b : list gv) : bool :=
  match a, b with
  | [], [] => true
  | x :: a', y :: b' => gv_eqb (erase x) (erase y) && erase_pairs a' b'
  | _, _ => false
  end.

Definition check_case (c : case) : list nat :=
  match c with
  | CSecure v o =>
      match o with
      | ObsPanic => [4; 0]
      | ObsErr => match secure v with OErr => [0; 0] | _ => [5; 0] end
      | ObsOk v' =>
          if negb (scrubbedb v') then [2; 0]
          else if negb (gv_eqb (erase v') (erase v)) then [3; 0]
          else match secure v with
               | OOk m => if gv_eqb m v' then [0; 0] else [1; 0]
               | OErr => [5; 1]
               | _ => [1; 1]
               end
      end
  | CClone ks r o =>
      match o with
      | ClonePanic => [14; 0]
      | CloneNil => match model_entry ks r with None => [0; 0] | Some _ => [11; 1] end
      | CloneOk reqs resps oreqs oresps found secret plain =>
          if negb (forallb scrubbedb reqs && forallb scrubbedb resps) then [12; 0]
          else if negb (list_eqb gv_eqb oreqs (root_reqs r) && list_eqb gv_eqb oresps (root_resps r)) then [16; 0]
          else if negb (erase_pairs reqs (root_reqs r)) then [13; 0]
          else if negb (if ks then erase_pairs resps (root_resps r) else match resps with [] => true | _ => false end) then [13; 1]
          else if existsb (fun x => memb x found) secret then [17; 0]
          else if negb (subsetb plain found) then [17; 1]
          else match model_entry ks r with
               | Some (OOk m) =>
                   if negb (list_eqb gv_eqb (collect nReq m) reqs) then [11; 2]
                   else if negb (list_eqb gv_eqb (collect nResp m) resps) then [11; 3]
                   else if negb (subsetb found (leaves m)) then [11; 4]
                   else [0; 0]
               | _ => [11; 5]
               end
      end
  | CKept kept found secret plain =>
      if negb (forallb (fun kv => scrubbedb (fst kv)) kept) then [12; 9]
      else if existsb (fun x => memb x found) secret then [17; 9]
      else if negb (subsetb plain found) then [17; 8]
      else if negb (forallb (fun kv => gv_eqb (fst kv) (scrub (snd kv))) kept) then [11; 9]
      else [0; 0]
  | CRender p ok found expect =>
      if negb ok then [24; 0]
      else match render p with
           | Ok inputs =>
               let shown := flat_map leaves inputs in
               if negb (subsetb found shown) then [22; 0]
               else if negb (subsetb expect found) then [21; 0]
               else if negb (subsetb expect shown) then [21; 1]
               else [0; 0]
           | _ => [24; 1]
           end
  | CReg req resp registered =>
      if Bool.eqb (register_ok req resp) registered then [0; 0] else [31; 0]
  end.

Definition case_ok (c : case) : bool :=
  match check_case c with 0 :: _ => true | _ => false end.
