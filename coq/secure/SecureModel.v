(* Model of workflow/utils/clone/secure.go, function by function (no proofs in this file).

   The Go code mutates through reflect.Value handles and returns handles; the model is purely functional
   over trees: every function returns the value its argument has after the call *as the caller sees it*.
   Why the caller sees it is noted at each call site (in place through a pointer / addressable slice
   element / map header, or stored back with Set / SetMapIndex).

   Every `panic(...)` statement of the code, and every reflect operation that would panic on the wrong
   kind (Elem, IsNil), is a [Panic] result here; that none of them is reachable is a theorem
   (SecureProofs.secure_no_panic), not a modelling decision.

   Recursion: a call on a strictly smaller value (a field, a pointee, an element, a dynamic value) goes to
   the functions of the previous level [rec_*]; calls on the same value (securePtrOrRef -> securePtr ->
   secureStruct) stay inside the level.  [level n] is adequate for values of depth <= n (proved). *)
From Coercion.Secure Require Import GoVal.

Inductive panic :=
| PStructArg      (* secureStruct: "value must be a pointer to a struct" *)
| PSliceArg       (* secureSlice: "val must be a slice" *)
| PMapArg         (* secureMap: "val must be a map" *)
| PIfaceArg       (* secureInterface: "val must be an interface" *)
| PNoAddrArg      (* noAddrStruct: "orig must be a struct" *)
| PReflect.       (* reflect itself: IsNil / Elem on a kind that has none *)

Inductive res (A : Type) :=
| Ok (a : A)
| Panic (p : panic)
| Fuel.                (* recursion level exhausted: excluded by SecureProofs.level_enough *)
Arguments Ok {A} a.
Arguments Panic {A} p.
Arguments Fuel {A}.

Definition bind {A B} (r : res A) (f : A -> res B) : res B :=
  match r with Ok a => f a | Panic p => Panic p | Fuel => Fuel end.
Notation "x <- r ;; k" := (bind r (fun x => k)) (at level 61, r at next level, right associativity).

Fixpoint mapM {A B} (f : A -> res B) (l : list A) : res (list B) :=
  match l with
  | [] => Ok []
  | a :: r => b <- f a ;; bs <- mapM f r ;; Ok (b :: bs)
  end.

(* ptr.Elem() of a pointer value *)
Definition deref (p : gv) : res gv :=
  match p with VPtr (Some s) => Ok s | _ => Panic PReflect end.

(* noAddrStruct(orig): a pointer to a fresh struct holding a copy of the WHOLE value (`ptr.Elem().Set(orig)`,
   since commit d415afb: unexported and promoted fields are kept) *)
Definition no_addr_struct (orig : gv) : res gv :=
  match orig with
  | VStruct _ | VTime _ => Ok (VPtr (Some orig))
  | _ => Panic PNoAddrArg
  end.

Section Level.
  (* securePtrOrRef and secureStruct of the previous level, for strictly smaller values *)
  Variable rec_ptr_or_ref : gv -> res gv.
  Variable rec_struct : gv -> res gv.

  (* one iteration of secureStruct's field loop: the new value of field (m, x) *)
  Definition secure_field (p : fmeta * gv) : res (fmeta * gv) :=
    let m := fst p in
    let x := snd p in
    if negb (f_exported m) then
      (* !IsExported(): continue - except that an embedded struct / non-nil *struct of an unexported type is
         entered, because its exported fields are promoted and serialised (since commit d415afb); a secure tag on
         the embedded field itself wipes every promoted field (since commit ea18f48) *)
      if f_embedded m then
        if has_secure (f_tag m) then Ok (m, wipe_embedded x)       (* wipeEmbedded(val.Field(i)): the embedded field cannot be set, its promoted fields can *)
        else
        match x with
        | VStruct _ | VTime _ => q <- rec_struct (VPtr (Some x)) ;; s <- deref q ;; Ok (m, s)   (* secureStruct(val.Field(i).Addr()) *)
        | VPtr (Some y) =>
            match kind_of y with
            | KStruct => q <- rec_struct x ;; Ok (m, q)                                          (* secureStruct(val.Field(i)) *)
            | _ => Ok p
            end
        | _ => Ok p
        end
      else Ok p
    else if has_secure (f_tag m) then
      match x with
      | VStr _ => Ok (m, VStr hidden_str)                              (* field.SetString("[secret hidden]") *)
      | _ => Ok (m, zero x)                                            (* field.Set(reflect.Zero(field.Type())) *)
      end
    else
      match kind_of x with
      | KStruct =>
          if is_time x then Ok p                                       (* field is a time.Time: continue *)
          else                                                         (* val = ptr.Elem() is addressable: secureStruct(field.Addr()), in place *)
            q <- rec_struct (VPtr (Some x)) ;; s <- deref q ;; Ok (m, s)
      | KPtr | KIface | KSlice | KMap =>
          y <- rec_ptr_or_ref x ;; Ok (m, y)                           (* val.Field(i).Set(securePtrOrRef(field)) *)
      | KString | KOther | KArray => Ok p                              (* no case: untouched (arrays documented) *)
      end.

  (* secureStruct(ptr) *)
  Definition secure_struct (ptr : gv) : res gv :=
    match ptr with
    | VPtr (Some (VTime _)) => Ok ptr                                  (* "Don't mess with time.Time." *)
    | VPtr (Some (VStruct fs)) => fs' <- mapM secure_field fs ;; Ok (VPtr (Some (VStruct fs')))
    | _ => Panic PStructArg                                            (* kind check precedes the IsNil test: a nil pointer panics too *)
    end.

  (* the element cases shared by secureSlice / secureMap / secureInterface for a struct-kind element:
     time.Time is skipped (since commit 3ba5b82 the test looks at the element), any other struct is copied
     (whole) with noAddrStruct, scrubbed through the pointer to the copy, and the copy is stored back *)
  Definition secure_struct_elem (e : gv) : res gv :=
    if is_time e then Ok e
    else p <- no_addr_struct e ;; q <- rec_struct p ;; deref q.

  (* secureSlice(val) *)
  Definition secure_slice (val : gv) : res gv :=
    match val with
    | VSlice None => Ok val
    | VSlice (Some l) =>
        l' <- mapM (fun e =>
                      match kind_of e with
                      | KPtr | KMap | KSlice | KIface => rec_ptr_or_ref e   (* result discarded, but val.Index(i) is addressable:
                                                                                pointee / map / backing array / interface slot change in place *)
                      | KStruct => secure_struct_elem e                     (* val.Index(i).Set(ptr.Elem()) *)
                      | KString | KOther | KArray => Ok e
                      end) l ;;
        Ok (VSlice (Some l'))
    | _ => Panic PSliceArg
    end.

  (* secureMap(val): keys are not looked at *)
  Definition secure_map (val : gv) : res gv :=
    match val with
    | VMap None => Ok val
    | VMap (Some l) =>
        l' <- mapM (fun p =>
                      let e := snd p in
                      match kind_of e with
                      | KPtr | KMap | KSlice => y <- rec_ptr_or_ref e ;; Ok (fst p, y)   (* SetMapIndex(key, securePtrOrRef(elem)) *)
                      | KIface => y <- rec_ptr_or_ref e ;; Ok (fst p, y)                 (* settable copy n, SetMapIndex(key, securePtrOrRef(n)) *)
                      | KStruct => y <- secure_struct_elem e ;; Ok (fst p, y)            (* SetMapIndex(key, ptr.Elem()) *)
                      | KString | KOther | KArray => Ok p
                      end) l ;;
        Ok (VMap (Some l'))
    | _ => Panic PMapArg
    end.

  (* secureInterface(val) *)
  Definition secure_iface (val : gv) : res gv :=
    match val with
    | VIface None => Ok val
    | VIface (Some x) =>
        match kind_of x with
        | KPtr | KMap | KSlice => y <- rec_ptr_or_ref x ;; Ok (VIface (Some y))          (* val.Set(securePtrOrRef(elem)) *)
        | KStruct => y <- secure_struct_elem x ;; Ok (VIface (Some y))                   (* val.Set(ptr.Elem()) *)
        | KString | KOther | KArray | KIface => Ok val
        end
    | _ => Panic PIfaceArg
    end.

  (* securePtr(val) *)
  Definition secure_ptr (val : gv) : res gv :=
    match val with
    | VPtr None => Ok val                                             (* Elem() of a nil pointer has Kind Invalid: no case *)
    | VPtr (Some x) =>
        match kind_of x with
        | KStruct => secure_struct val
        | KSlice | KMap | KIface | KPtr =>
            y <- rec_ptr_or_ref x ;; Ok (VPtr (Some y))                (* val.Elem().Set(securePtrOrRef(val.Elem())) *)
        | KString | KOther | KArray => Ok val
        end
    | _ => Panic PReflect
    end.

  (* securePtrOrRef(val) *)
  Definition secure_ptr_or_ref (val : gv) : res gv :=
    match val with
    | VPtr None | VSlice None | VMap None | VIface None => Ok val      (* val.IsNil() || val.IsZero() *)
    | VPtr (Some _) => secure_ptr val
    | VSlice (Some _) => secure_slice val
    | VMap (Some _) => secure_map val
    | VIface (Some _) => secure_iface val
    | _ => Panic PReflect                                              (* IsNil on a kind that cannot be nil *)
    end.
End Level.

(* (securePtrOrRef, secureStruct) adequate for values of depth <= n *)
Fixpoint level (n : nat) : (gv -> res gv) * (gv -> res gv) :=
  match n with
  | 0 => (fun _ => Fuel, fun _ => Fuel)
  | S n' => let r := level n' in (secure_ptr_or_ref (fst r) (snd r), secure_struct (fst r) (snd r))
  end.

Definition ptr_or_ref_at (n : nat) : gv -> res gv := fst (level n).
Definition struct_at (n : nat) : gv -> res gv := snd (level n).

(* Secure(v any): v is the dynamic value handed over *)
Inductive outcome :=
| OOk (v : gv)            (* nil error; v = the argument after the call *)
| OErr                    (* "value must be a pointer to a struct"; argument untouched *)
| OPanic (p : panic)
| OFuel.

Definition secure (v : gv) : outcome :=
  match v with
  | VPtr None => OOk v                                                 (* val.IsNil(): return nil *)
  | VPtr (Some x) =>
      match kind_of x with
      | KStruct =>
          match struct_at (S (depth x)) v with
          | Ok v' => OOk v'
          | Panic p => OPanic p
          | Fuel => OFuel
          end
      | _ => OErr
      end
  | _ => OErr                                                          (* val.Kind() != reflect.Ptr *)
  end.

(* what a caller holding an `any` field sees (Action.Req, Attempt.Resp are scrubbed as fields of their struct) *)
Definition secure_iface_field (v : gv) : res gv := ptr_or_ref_at (S (depth v)) v.
