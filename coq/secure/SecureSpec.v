(* Declarative side of C17 (independent of the dispatch in SecureModel.v; no proofs in this file).

   - [sec_at v x]: x is the value of an EXPORTED field tagged coerce:"secure" that can be reached in v
     through structs (exported, not secure-tagged fields; embedded structs / *structs of unexported types,
     whose fields are promoted), pointers, slices, map values and interface values.  Arrays and ordinary
     unexported fields are not crossed: both are documented exclusions of clone.Secure ("It does not
     handle arrays", "private fields are not handled").
   - [hidden x]: x is "[secret hidden]" or the zero value of its type.
   - [erase v]: v with the value of every such field replaced by a fixed placeholder; everything else -
     shape, field metadata, map keys, nil-ness, untagged leaves, unexported fields, whole arrays - kept.
     [erase v' = erase v] says v' differs from v at most inside exposed secure-tagged fields.
   - [scrub]: the one-screen functional specification of what clone.Secure is supposed to compute. *)
From Coercion.Secure Require Import GoVal.

Inductive sec_at : gv -> gv -> Prop :=
| SA_here : forall fs m x,
    In (m, x) fs -> f_exported m = true -> has_secure (f_tag m) = true -> sec_at (VStruct fs) x
| SA_field : forall fs m x y,
    In (m, x) fs -> f_exported m = true -> has_secure (f_tag m) = false -> sec_at x y -> sec_at (VStruct fs) y
| SA_embed : forall fs m x y,           (* embedded struct of an unexported type: its fields are promoted *)
    In (m, x) fs -> f_exported m = false -> f_embedded m = true -> kind_of x = KStruct ->
    sec_at x y -> sec_at (VStruct fs) y
| SA_embed_ptr : forall fs m x y,       (* embedded non-nil *struct of an unexported type *)
    In (m, VPtr (Some x)) fs -> f_exported m = false -> f_embedded m = true -> kind_of x = KStruct ->
    sec_at x y -> sec_at (VStruct fs) y
| SA_ptr : forall x y, sec_at x y -> sec_at (VPtr (Some x)) y
| SA_slice : forall l x y, In x l -> sec_at x y -> sec_at (VSlice (Some l)) y
| SA_map : forall l k x y, In (k, x) l -> sec_at x y -> sec_at (VMap (Some l)) y
| SA_iface : forall x y, sec_at x y -> sec_at (VIface (Some x)) y.

Definition hidden (x : gv) : Prop := x = VStr hidden_str \/ is_zero x = true.

Definition hiddenb (x : gv) : bool :=
  match x with VStr s => N.eqb s hidden_str || N.eqb s 0 | _ => is_zero x end.

Definition placeholder : gv := VBool false.

Fixpoint erase (v : gv) : gv :=
  match v with
  | VStr _ | VNum _ | VBool _ | VTime _ => v
  | VStruct fs =>
      VStruct (map (fun p => (fst p,
                              if negb (f_exported (fst p)) then
                                (if f_embedded (fst p) then
                                   match snd p with
                                   | VStruct _ | VTime _ => erase (snd p)
                                   | VPtr (Some y) => match kind_of y with KStruct => VPtr (Some (erase y)) | _ => snd p end
                                   | _ => snd p
                                   end
                                 else snd p)
                              else if has_secure (f_tag (fst p)) then placeholder
                              else erase (snd p))) fs)
  | VPtr o => VPtr (match o with None => None | Some x => Some (erase x) end)
  | VSlice o => VSlice (match o with None => None | Some l => Some (map erase l) end)
  | VMap o => VMap (match o with None => None | Some l => Some (map_snd erase l) end)
  | VIface o => VIface (match o with None => None | Some x => Some (erase x) end)
  | VArray _ => v
  end.

(* "[secret hidden]" for a string, the zero value for everything else *)
Definition hide (x : gv) : gv := match x with VStr _ => VStr hidden_str | _ => zero x end.

Fixpoint scrub (v : gv) : gv :=
  match v with
  | VStr _ | VNum _ | VBool _ | VTime _ => v
  | VStruct fs =>
      VStruct (map (fun p => (fst p,
                              if negb (f_exported (fst p)) then
                                (if f_embedded (fst p) then
                                   match snd p with
                                   | VStruct _ | VTime _ => scrub (snd p)
                                   | VPtr (Some y) => match kind_of y with KStruct => VPtr (Some (scrub y)) | _ => snd p end
                                   | _ => snd p
                                   end
                                 else snd p)
                              else if has_secure (f_tag (fst p)) then hide (snd p)
                              else scrub (snd p))) fs)
  | VPtr o => VPtr (match o with None => None | Some x => Some (scrub x) end)
  | VSlice o => VSlice (match o with None => None | Some l => Some (map scrub l) end)
  | VMap o => VMap (match o with None => None | Some l => Some (map_snd scrub l) end)
  | VIface o => VIface (match o with None => None | Some x => Some (scrub x) end)
  | VArray _ => v
  end.

(* boolean monitor: no exposed secure-tagged field of v holds anything but "[secret hidden]" / zero.
   It is the executable form of [forall x, sec_at v x -> hidden x] (SecureProofs.scrubbedb_spec) and is
   evaluated on what the implementation returned. *)
Fixpoint scrubbedb (v : gv) : bool :=
  match v with
  | VStr _ | VNum _ | VBool _ | VTime _ => true
  | VStruct fs =>
      forallb (fun p => if negb (f_exported (fst p)) then
                          (if f_embedded (fst p) then
                             match snd p with
                             | VStruct _ | VTime _ => scrubbedb (snd p)
                             | VPtr (Some y) => match kind_of y with KStruct => scrubbedb y | _ => true end
                             | _ => true
                             end
                           else true)
                        else if has_secure (f_tag (fst p)) then hiddenb (snd p)
                        else scrubbedb (snd p)) fs
  | VPtr o => match o with None => true | Some x => scrubbedb x end
  | VSlice o => match o with None => true | Some l => forallb scrubbedb l end
  | VMap o => match o with None => true | Some l => forallb (fun p => scrubbedb (snd p)) l end
  | VIface o => match o with None => true | Some x => scrubbedb x end
  | VArray _ => true
  end.

