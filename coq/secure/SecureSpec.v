(* Declarative side of C17 (independent of the dispatch in SecureModel.v; no proofs in this file).

   - [sec_at v x]: x is the value of an EXPORTED field tagged coerce:"secure" that can be reached in v
     through structs (exported, not secure-tagged fields), pointers, slices, map values and interface
     values.  Arrays and unexported fields are not crossed: both are documented exclusions of clone.Secure
     ("It does not handle arrays", "private fields are not handled").
   - [hidden x]: x is "[secret hidden]" or the zero value of its type.
   - [erase v]: v with the value of every such field (and of every unexported field) replaced by a fixed
     placeholder; everything else - shape, field metadata, map keys, nil-ness, untagged leaves, whole
     arrays - kept.  [erase v' = erase v] says v' differs from v at most inside secure-tagged (or
     unexported) fields.
   - [scrub]: the one-screen functional specification of what clone.Secure is supposed to compute. *)
From Coercion.Secure Require Import GoVal.

Inductive sec_at : gv -> gv -> Prop :=
| SA_here : forall fs m x,
    In (m, x) fs -> f_exported m = true -> has_secure (f_tag m) = true -> sec_at (VStruct fs) x
| SA_field : forall fs m x y,
    In (m, x) fs -> f_exported m = true -> has_secure (f_tag m) = false -> sec_at x y -> sec_at (VStruct fs) y
| SA_ptr : forall x y, sec_at x y -> sec_at (VPtr (Some x)) y
| SA_slice : forall l x y, In x l -> sec_at x y -> sec_at (VSlice (Some l)) y
| SA_map : forall l k x y, In (k, x) l -> sec_at x y -> sec_at (VMap (Some l)) y
| SA_iface : forall x y, sec_at x y -> sec_at (VIface (Some x)) y.

Definition hidden (x : gv) : Prop := x = VStr hidden_str \/ is_zero x = true.

Definition hiddenb (x : gv) : bool :=
  match x with VStr s => N.eqb s hidden_str || N.eqb s 0 | _ => is_zero x end.

Definition placeholder : gv := VBool false.

Fixpoint erase (v : gv) : gv :=
  match v with
  | VStr _ | VNum _ | VBool _ | VTime _ => v
  | VStruct fs =>
      VStruct (map (fun p => (fst p,
                              if negb (f_exported (fst p)) || has_secure (f_tag (fst p)) then placeholder
                              else erase (snd p))) fs)
  | VPtr o => VPtr (match o with None => None | Some x => Some (erase x) end)
  | VSlice o => VSlice (match o with None => None | Some l => Some (map erase l) end)
  | VMap o => VMap (match o with None => None | Some l => Some (map_snd erase l) end)
  | VIface o => VIface (match o with None => None | Some x => Some (erase x) end)
  | VArray _ => v
  end.

(* "[secret hidden]" for a string, the zero value for everything else *)
Definition hide (x : gv) : gv := match x with VStr _ => VStr hidden_str | _ => zero x end.

(* [copied]: v is a struct that the code had to copy (element of a slice, map value, dynamic value of an
   interface); the copy keeps exported fields only, so unexported fields come back zero *)
Fixpoint scrub (copied : bool) (v : gv) : gv :=
  match v with
  | VStr _ | VNum _ | VBool _ | VTime _ => v
  | VStruct fs =>
      VStruct (map (fun p => (fst p,
                              if negb (f_exported (fst p)) then (if copied then zero (snd p) else snd p)
                              else if has_secure (f_tag (fst p)) then hide (snd p)
                              else scrub false (snd p))) fs)
  | VPtr o => VPtr (match o with None => None | Some x => Some (scrub false x) end)
  | VSlice o => VSlice (match o with None => None | Some l => Some (map (scrub true) l) end)
  | VMap o => VMap (match o with None => None | Some l => Some (map_snd (scrub true) l) end)
  | VIface o => VIface (match o with None => None | Some x => Some (scrub true x) end)
  | VArray _ => v
  end.

(* boolean monitor: no exposed secure-tagged field of v holds anything but "[secret hidden]" / zero.
   It is the executable form of [forall x, sec_at v x -> hidden x] (SecureProofs.scrubbedb_spec) and is
   evaluated on what the implementation returned. *)
Fixpoint scrubbedb (v : gv) : bool :=
  match v with
  | VStr _ | VNum _ | VBool _ | VTime _ => true
  | VStruct fs =>
      forallb (fun p => if negb (f_exported (fst p)) then true
                        else if has_secure (f_tag (fst p)) then hiddenb (snd p)
                        else scrubbedb (snd p)) fs
  | VPtr o => match o with None => true | Some x => scrubbedb x end
  | VSlice o => match o with None => true | Some l => forallb scrubbedb l end
  | VMap o => match o with None => true | Some l => forallb (fun p => scrubbedb (snd p)) l end
  | VIface o => match o with None => true | Some x => scrubbedb x end
  | VArray _ => true
  end.

(* every field of every struct exported (what reflect.StructOf builds); then [scrub true = scrub false] *)
Fixpoint all_exported (v : gv) : bool :=
  match v with
  | VStr _ | VNum _ | VBool _ | VTime _ => true
  | VStruct fs => forallb (fun p => f_exported (fst p) && all_exported (snd p)) fs
  | VPtr o => match o with None => true | Some x => all_exported x end
  | VSlice o => match o with None => true | Some l => forallb all_exported l end
  | VMap o => match o with None => true | Some l => forallb (fun p => all_exported (snd p)) l end
  | VIface o => match o with None => true | Some x => all_exported x end
  | VArray l => forallb all_exported l
  end.
