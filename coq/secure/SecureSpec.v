(* Declarative side of C17 (independent of the dispatch in SecureModel.v; no proofs in this file).

   - [sec_at v x]: x is the value of an EXPORTED field tagged coerce:"secure" that can be reached in v
     through structs (exported, not secure-tagged fields; embedded structs / *structs of unexported types,
     whose fields are promoted), pointers, slices, map values and interface values - or of ANY exported
     field promoted through an embedded struct / *struct of unexported type that is itself tagged secure:
     a leaf is secret if any field on its path, embedded ones included, carries the tag.  Arrays and ordinary
     unexported fields are not crossed: both are documented exclusions of clone.Secure ("It does not
     handle arrays", "private fields are not handled").
   - [hidden x]: x is "[secret hidden]" or the zero value of its type.
   - [erase v]: v with the value of every such field replaced by a fixed placeholder; everything else -
     shape, field metadata, map keys, nil-ness, untagged leaves, unexported fields, whole arrays - kept.
     [erase v' = erase v] says v' differs from v at most inside exposed secure-tagged fields.
   - [scrub]: the one-screen functional specification of what clone.Secure is supposed to compute. *)
From Coercion.Secure Require Import GoVal.

(* [promoted v y]: y is the value of an exported field of the struct v, or of a struct / *struct embedded in it
   through unexported anonymous fields: the fields the JSON encoders emit as fields of the embedding struct *)
Inductive promoted : gv -> gv -> Prop :=
| P_here : forall fs m y, In (m, y) fs -> f_exported m = true -> promoted (VStruct fs) y
| P_embed : forall fs m x y,
    In (m, x) fs -> f_exported m = false -> f_embedded m = true -> promoted x y -> promoted (VStruct fs) y
| P_embed_ptr : forall fs m x y,
    In (m, VPtr (Some x)) fs -> f_exported m = false -> f_embedded m = true -> promoted x y -> promoted (VStruct fs) y.

Inductive sec_at : gv -> gv -> Prop :=
| SA_here : forall fs m x,
    In (m, x) fs -> f_exported m = true -> has_secure (f_tag m) = true -> sec_at (VStruct fs) x
| SA_field : forall fs m x y,
    In (m, x) fs -> f_exported m = true -> has_secure (f_tag m) = false -> sec_at x y -> sec_at (VStruct fs) y
| SA_embed : forall fs m x y,           (* embedded struct of an unexported type: its fields are promoted *)
    In (m, x) fs -> f_exported m = false -> f_embedded m = true -> has_secure (f_tag m) = false ->
    kind_of x = KStruct -> sec_at x y -> sec_at (VStruct fs) y
| SA_embed_ptr : forall fs m x y,       (* embedded non-nil *struct of an unexported type *)
    In (m, VPtr (Some x)) fs -> f_exported m = false -> f_embedded m = true -> has_secure (f_tag m) = false ->
    kind_of x = KStruct -> sec_at x y -> sec_at (VStruct fs) y
| SA_embed_tagged : forall fs m x y,    (* the embedded field itself is tagged secure: every promoted field is secret *)
    In (m, x) fs -> f_exported m = false -> f_embedded m = true -> has_secure (f_tag m) = true ->
    promoted x y -> sec_at (VStruct fs) y
| SA_embed_tagged_ptr : forall fs m x y,
    In (m, VPtr (Some x)) fs -> f_exported m = false -> f_embedded m = true -> has_secure (f_tag m) = true ->
    promoted x y -> sec_at (VStruct fs) y
| SA_ptr : forall x y, sec_at x y -> sec_at (VPtr (Some x)) y
| SA_slice : forall l x y, In x l -> sec_at x y -> sec_at (VSlice (Some l)) y
| SA_map : forall l k x y, In (k, x) l -> sec_at x y -> sec_at (VMap (Some l)) y
| SA_iface : forall x y, sec_at x y -> sec_at (VIface (Some x)) y.

Definition hidden (x : gv) : Prop := x = VStr hidden_str \/ is_zero x = true.

Definition hiddenb (x : gv) : bool :=
  match x with VStr s => N.eqb s hidden_str || N.eqb s 0 | _ => is_zero x end.

Definition placeholder : gv := VBool false.

(* [blank v]: v with every promoted field blanked (what erase does below a secure-tagged embedded field) *)
Fixpoint blank (v : gv) : gv :=
  match v with
  | VStruct fs =>
      VStruct (map (fun p => (fst p,
                              if f_exported (fst p) then placeholder
                              else if f_embedded (fst p) then
                                     match snd p with
                                     | VPtr (Some y) => VPtr (Some (blank y))
                                     | _ => blank (snd p)
                                     end
                              else snd p)) fs)
  | _ => v
  end.
Definition blank_embedded (val : gv) : gv :=
  match val with VPtr (Some y) => VPtr (Some (blank y)) | x => blank x end.

(* every promoted field hidden *)
Fixpoint wipedb (v : gv) : bool :=
  match v with
  | VStruct fs =>
      forallb (fun p => if f_exported (fst p) then hiddenb (snd p)
                        else if f_embedded (fst p) then
                               match snd p with
                               | VPtr (Some y) => wipedb y
                               | _ => wipedb (snd p)
                               end
                        else true) fs
  | _ => true
  end.
Definition wipedb_embedded (val : gv) : bool :=
  match val with VPtr (Some y) => wipedb y | x => wipedb x end.

Fixpoint erase (v : gv) : gv :=
  match v with
  | VStr _ | VNum _ | VBool _ | VTime _ => v
  | VStruct fs =>
      VStruct (map (fun p => (fst p,
                              if negb (f_exported (fst p)) then
                                (if f_embedded (fst p) then
                                   if has_secure (f_tag (fst p)) then blank_embedded (snd p) else
                                   match snd p with
                                   | VStruct _ | VTime _ => erase (snd p)
                                   | VPtr (Some y) => match kind_of y with KStruct => VPtr (Some (erase y)) | _ => snd p end
                                   | _ => snd p
                                   end
                                 else snd p)
                              else if has_secure (f_tag (fst p)) then placeholder
                              else erase (snd p))) fs)
  | VPtr o => VPtr (match o with None => None | Some x => Some (erase x) end)
  | VSlice o => VSlice (match o with None => None | Some l => Some (map erase l) end)
  | VMap o => VMap (match o with None => None | Some l => Some (map_snd erase l) end)
  | VIface o => VIface (match o with None => None | Some x => Some (erase x) end)
  | VArray _ => v
  end.

Fixpoint scrub (v : gv) : gv :=
  match v with
  | VStr _ | VNum _ | VBool _ | VTime _ => v
  | VStruct fs =>
      VStruct (map (fun p => (fst p,
                              if negb (f_exported (fst p)) then
                                (if f_embedded (fst p) then
                                   if has_secure (f_tag (fst p)) then wipe_embedded (snd p) else
                                   match snd p with
                                   | VStruct _ | VTime _ => scrub (snd p)
                                   | VPtr (Some y) => match kind_of y with KStruct => VPtr (Some (scrub y)) | _ => snd p end
                                   | _ => snd p
                                   end
                                 else snd p)
                              else if has_secure (f_tag (fst p)) then hide (snd p)
                              else scrub (snd p))) fs)
  | VPtr o => VPtr (match o with None => None | Some x => Some (scrub x) end)
  | VSlice o => VSlice (match o with None => None | Some l => Some (map scrub l) end)
  | VMap o => VMap (match o with None => None | Some l => Some (map_snd scrub l) end)
  | VIface o => VIface (match o with None => None | Some x => Some (scrub x) end)
  | VArray _ => v
  end.

(* boolean monitor: no exposed secure-tagged field of v holds anything but "[secret hidden]" / zero.
   It is the executable form of [forall x, sec_at v x -> hidden x] (SecureProofs.scrubbedb_spec) and is
   evaluated on what the implementation returned. *)
Fixpoint scrubbedb (v : gv) : bool :=
  match v with
  | VStr _ | VNum _ | VBool _ | VTime _ => true
  | VStruct fs =>
      forallb (fun p => if negb (f_exported (fst p)) then
                          (if f_embedded (fst p) then
                             if has_secure (f_tag (fst p)) then wipedb_embedded (snd p) else
                             match snd p with
                             | VStruct _ | VTime _ => scrubbedb (snd p)
                             | VPtr (Some y) => match kind_of y with KStruct => scrubbedb y | _ => true end
                             | _ => true
                             end
                           else true)
                        else if has_secure (f_tag (fst p)) then hiddenb (snd p)
                        else scrubbedb (snd p)) fs
  | VPtr o => match o with None => true | Some x => scrubbedb x end
  | VSlice o => match o with None => true | Some l => forallb scrubbedb l end
  | VMap o => match o with None => true | Some l => forallb (fun p => scrubbedb (snd p)) l end
  | VIface o => match o with None => true | Some x => scrubbedb x end
  | VArray _ => true
  end.

