(* Model of plugins/registry/registry.go: findSecrets / findSecretsType, over TYPES (no proofs here).

   A Go type as far as the walk can tell: a struct is the list of its fields (ALL fields, exported or
   not: the code does not test exportedness) with the name's index, whether the name matches
   secretRE = (?i)(token|pass|jwt|hash|secret|bearer|cred|secure|signing|cert|code|key)
   (computed by the harness with strings.Contains on the lower-cased name, not with the regexp), and the
   coerce tag.  Types are finite trees.  For a tree-shaped type the code's [seen] set only skips a struct type
   whose first complete visit returned nil, and so does not change the result.  A recursive type
   (type T struct{ Next *T }) is handed over by the harness unfolded along each path until a struct type
   repeats, the repeat cut to a field-less type: the code visits every struct type reachable through
   struct / pointer nesting exactly once and errs iff one of them has an offending field, and each of them
   is expanded at least once in that unfolding, so the verdicts coincide. *)
From Coercion.Secure Require Import GoVal.

Record tmeta := { t_name : N; t_secretish : bool; t_tag : tag }.

Inductive ty : Type :=
| TyStr | TyNum | TyBool | TyIface
| TyTime                                 (* time.Time: a struct whose (unexported) field names are not secret-looking *)
| TyStruct (fs : list (tmeta * ty))
| TyPtr (t : ty)
| TySlice (t : ty)
| TyMap (k t : ty)                       (* map[k]t *)
| TyArray (t : ty).

Section TyInd.
  Variable P : ty -> Prop.
  Hypothesis HStr : P TyStr.
  Hypothesis HNum : P TyNum.
  Hypothesis HBool : P TyBool.
  Hypothesis HIface : P TyIface.
  Hypothesis HTime : P TyTime.
  Hypothesis HStruct : forall fs, Forall (fun p => P (snd p)) fs -> P (TyStruct fs).
  Hypothesis HPtr : forall t, P t -> P (TyPtr t).
  Hypothesis HSlice : forall t, P t -> P (TySlice t).
  Hypothesis HMap : forall k t, P k -> P t -> P (TyMap k t).
  Hypothesis HArray : forall t, P t -> P (TyArray t).

  Fixpoint ty_ind' (t : ty) : P t :=
    match t with
    | TyStr => HStr | TyNum => HNum | TyBool => HBool | TyIface => HIface | TyTime => HTime
    | TyStruct fs =>
        HStruct fs ((fix go (l : list (tmeta * ty)) : Forall (fun p => P (snd p)) l :=
                       match l with
                       | [] => Forall_nil _
                       | p :: r => Forall_cons p (ty_ind' (snd p)) (go r)
                       end) fs)
    | TyPtr t => HPtr t (ty_ind' t)
    | TySlice t => HSlice t (ty_ind' t)
    | TyMap k t => HMap k t (ty_ind' k) (ty_ind' t)
    | TyArray t => HArray t (ty_ind' t)
    end.
End TyInd.

(* the field that findSecretsType complains about: name matches, neither tag *)
Definition offending (m : tmeta) : bool :=
  t_secretish m && negb (has_secure (t_tag m)) && negb (has_ignore (t_tag m)).

(* findSecretsType(t, path, seen): Some path = the error (path of field indices of the field reported,
   the first one in the code's depth-first order); None = nil.
     for { Ptr, Slice, Array: t = t.Elem(); Map: findSecretsType(t.Key()) first, then t = t.Elem() }
                                                      -> the TyPtr / TySlice / TyArray / TyMap cases (since commit 3e0a32d)
     if t.Kind() != Struct { return nil }             -> every other non-struct case
     for each field: name matches and neither tag -> error; else recurse into the field's type
   (the recursion happens whatever the field's own tag is). *)
Fixpoint find_secrets (t : ty) : option (list nat) :=
  match t with
  | TyPtr t' | TySlice t' | TyArray t' => find_secrets t'
  | TyMap k t' => match find_secrets k with Some path => Some path | None => find_secrets t' end
  | TyStruct fs =>
      (fix fields (i : nat) (l : list (tmeta * ty)) : option (list nat) :=
         match l with
         | [] => None
         | p :: r =>
             if offending (fst p) then Some [i]
             else match find_secrets (snd p) with
                  | Some path => Some (i :: path)
                  | None => fields (S i) r
                  end
         end) 0 fs
  | _ => None
  end.

(* Register(p): request first, then response (policy and name checks are outside C17) *)
Definition register_ok (req resp : ty) : bool :=
  match find_secrets req with
  | Some _ => false
  | None => match find_secrets resp with Some _ => false | None => true end
  end.

(* ---- specification: which fields are in reach of the walk ---- *)
Inductive reach : ty -> tmeta -> Prop :=
| R_here : forall fs m t, In (m, t) fs -> reach (TyStruct fs) m
| R_field : forall fs m t m', In (m, t) fs -> reach t m' -> reach (TyStruct fs) m'
| R_ptr : forall t m, reach t m -> reach (TyPtr t) m
| R_slice : forall t m, reach t m -> reach (TySlice t) m
| R_array : forall t m, reach t m -> reach (TyArray t) m
| R_map_key : forall k t m, reach k m -> reach (TyMap k t) m
| R_map_elem : forall k t m, reach t m -> reach (TyMap k t) m.
