(* ChainProofs - C09 for any number of crashes with no well-formedness premise left: the images a crashed RECOVERY
   leaves behind are well-formed (ResumedInv.resumed_wf + ResumedImg.crash_from_reached), so the hypothesis chain_wf0
   of coq/resume's C09Proofs.crash_chain_noreexec0 holds along every accepted chain.  Proofs only. *)
From Coq Require Import Lia.
From Coercion.Base Require Import Plan.
From Coercion.Engine Require Import Shape Event Action ChecksRun Seq Block Final PlanSM Auto Accept AutoLemmas.
From Coercion.Resume Require Import Resume MonRecover ResumeLemmas ReleaseProofs Frame NoReexec ImgWf C09Proofs.
From Coercion.ImgWf Require Import EngineInv EngineWf CrashImage.
From Coercion.Chain Require Import ResumedInv ResumedImg.

(* every durable image of a recovery that starts on a well-formed image is well-formed until the terminal plan write;
   any deviation flag set (the flags only enter the release guard) *)
Theorem resumed_images_wf d sh I rs r0 tr r :
  img_wf0 sh I = true -> rinit sh I rs = Some r0 -> rrun d sh r0 tr = Some r ->
  is_terminal (ist (s_img (r_s r)) OPlan) = false -> img_wf0 sh (s_img (r_s r)) = true.
Proof.
  intros Hwf Hi Hr Hp. destruct (status_eqb (ist I OPlan) Running) eqn:E.
  - apply status_eqb_eq in E. eapply (resumed_wf sh I Hwf E); eauto. eapply rinit_resumable; eauto.
  - (* not resumed: nothing is written *)
    assert (Hidle : idle r0) by (eapply rinit_idle; eauto).
    pose proof (rrun_writes d sh tr r0 r (I, rs) Hr) as Hw. rewrite (rinit_img _ _ _ _ Hi) in Hw.
    specialize (Hw (fun o => eq_refl)). rewrite (no_activity_no_writes tr (idle_run d sh tr r0 r Hidle Hr)) in Hw.
    simpl in Hw. rewrite (img_wf0_ext sh _ I); [exact Hwf|]. intros o _. apply Hw.
Qed.

(* ... hence every crash image of the recovery (the image after the first k writes of its trace, any k) *)
Theorem resumed_crash_images_wf d sh I rs r0 tr r k :
  img_wf0 sh I = true -> rinit sh I rs = Some r0 -> rrun d sh r0 tr = Some r ->
  is_terminal (ist (fst (crash_from I rs tr k)) OPlan) = false -> img_wf0 sh (fst (crash_from I rs tr k)) = true.
Proof.
  intros Hwf Hi Hr Hp. destruct (crash_from_reached d sh I rs r0 tr r k Hi Hr) as (t1 & r1 & R1 & E).
  rewrite <- (img_wf0_ext sh (img r1)); [|intros o _; apply E].
  eapply resumed_images_wf; eauto. unfold ist, img in *. now rewrite (E OPlan).
Qed.

Lemma status_running_dec t : t = Running \/ t <> Running.
Proof. destruct t; [right; discriminate|now left|right; discriminate..]. Qed.

(* the hypothesis of the chain theorem holds along every accepted chain that starts on a well-formed image *)
Lemma chain_wf0_holds d sh steps : forall im rs,
  (ist im OPlan = Running -> img_wf0 sh im = true) -> chain_accepted d sh im rs steps -> chain_wf0 sh im rs steps.
Proof.
  induction steps as [|[tr k] rest IH]; intros im rs Hwf Ha; simpl in *; [exact Logic.I|].
  destruct Ha as [(r0 & r & Hi & Hr) Ha]. split; [exact Hwf|]. apply IH; [|exact Ha].
  intro Hrun'. destruct (status_running_dec (ist im OPlan)) as [Hrun|Hn].
  - eapply resumed_crash_images_wf; eauto. now rewrite Hrun'.
  - rewrite (unresumed_crash_from d sh im rs r0 tr r k Hn Hi Hr) in Hrun'. contradiction.
Qed.

Theorem chain_from_wf d sh steps im rs :
  (ist im OPlan = Running -> img_wf0 sh im = true) -> chain_accepted d sh im rs steps -> chain_noreexec sh im rs steps.
Proof. intros Hwf Ha. apply (crash_chain_noreexec0 d); [exact Ha|]. now apply (chain_wf0_holds d). Qed.

Theorem chain_unconditional d sh tr1 s1 k steps :
  run sh init tr1 = Some s1 ->
  let ci := crash_image sh tr1 k in
  chain_accepted d sh (fst ci) (snd ci) steps -> chain_noreexec sh (fst ci) (snd ci) steps.
Proof.
  intros Hrun ci Ha. apply (chain_from_wf d); [|exact Ha]. intros _. apply img_wf_wf0.
  eapply engine_crash_image_wf; eauto.
Qed.
