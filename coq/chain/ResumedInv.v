(* ResumedInv - the invariant of the RESUMED automaton (coq/resume/Resume.v) that makes every durable image it
   writes well-formed (ImgWf.img_wf0) as long as the plan has not been written terminal: the analogue, for a recovery,
   of coq/imgwf's EngineInv.hinv.  Proofs only.

     K r  :=  NoReexec.Inv r  /\  ( plan durably terminal and the state chain at End
                                  \/ plan not terminal /\ D (durable image) (memory) /\ C (durable image) (engine state) )

   D (ImgInv.v) is about image and memory; C relates the block / sequence sub-automata to the image: once the current
   block has left its entry phase it is durably started; a sequence sub-automaton that is executing belongs to a
   durably started sequence of a durably started block.  Kept by the epsilon-moves (reps), every handler (rhandle)
   and the flush rule - for every deviation flag set (the flags only enter the release guard). *)
From Coq Require Import Lia.
From Coercion.Base Require Import Plan.
From Coercion.Engine Require Import Shape Event Action ChecksRun Seq Block Final PlanSM Auto Accept AutoLemmas.
From Coercion.Resume Require Import Resume ResumeLemmas ReleaseProofs Frame NoReexec ImgWf RepairSound.
From Coercion.ImgWf Require Import EngineInv EngineWf CrashImage.
From Coercion.Chain Require Import FixMem ImgInv.

Definition active (x : sst) : Prop := match x with SRun _ _ | SPend _ => True | _ => False end.

Record C (J : dimg) (s : st) : Prop := {
  c_cur : b_ph (s_b s) <> BEnter -> ist J (OBlock (s_cb s)) <> NotStarted;
  c_act : forall q x, nth_error (seqs_of s) q = Some x -> active x ->
            ist J (OSeq (s_cb s) q) <> NotStarted /\ ist J (OBlock (s_cb s)) <> NotStarted }.

Definition mono (J J' : dimg) : Prop := forall o, ist J o <> NotStarted -> ist J' o <> NotStarted.

Lemma mono_refl J : mono J J.
Proof. intros o H. exact H. Qed.

Lemma C_step J J' s s' :
  C J s -> mono J J' -> s_cb s' = s_cb s ->
  (b_ph (s_b s') <> BEnter -> b_ph (s_b s) <> BEnter \/ ist J' (OBlock (s_cb s)) <> NotStarted) ->
  (forall q x, nth_error (seqs_of s') q = Some x -> active x ->
     (exists y, nth_error (seqs_of s) q = Some y /\ active y)
     \/ (ist J' (OSeq (s_cb s) q) <> NotStarted /\ ist J' (OBlock (s_cb s)) <> NotStarted)) ->
  C J' s'.
Proof.
  intros [Hc Ha] Hm Ecb Hph Hsq. constructor; rewrite Ecb.
  - intro Hb. destruct (Hph Hb) as [H|H]; [apply Hm; auto|exact H].
  - intros q x Hx Hax. destruct (Hsq q x Hx Hax) as [(y & Hy & Hay)|H]; [|exact H].
    destruct (Ha q y Hy Hay) as [H1 H2]. split; apply Hm; assumption.
Qed.

Lemma C_fresh J s :
  b_ph (s_b s) = BEnter -> (forall q x, nth_error (seqs_of s) q = Some x -> ~ active x) -> C J s.
Proof.
  intros Hb Hs. constructor.
  - intro H. contradiction.
  - intros q x Hx Hax. exfalso. eapply Hs; eauto.
Qed.

(* the state only moved inside the control part the clause does not read *)
Lemma C_keeps J J' s s' : C J s -> mono J J' -> keeps_seqs s s' -> C J' s'.
Proof.
  intros HC Hm ((_ & Ecb & Eph & _) & Es). eapply C_step; eauto.
  - intro H. left. congruence.
  - intros q x Hx Hax. left. rewrite Es in Hx. eauto.
Qed.

Lemma moves_old s s' q x y :
  moves s s' q x y -> active x ->
  forall q' z, nth_error (seqs_of s') q' = Some z -> active z -> exists y0, nth_error (seqs_of s) q' = Some y0 /\ active y0.
Proof.
  intros (_ & Hx & Es) Hax q' z Hz Haz. rewrite Es in Hz.
  destruct (nth_upd_cases _ _ _ _ _ Hz) as [[-> _]|[_ Hz']]; eauto.
Qed.

(* a sequence sub-automaton that was executing moves on *)
Lemma C_moves J J' s s' q x y : C J s -> mono J J' -> moves s s' q x y -> active x -> C J' s'.
Proof.
  intros HC Hm Hmv Hax. pose proof Hmv as ((_ & Ecb & Eph & _) & _). eapply C_step; eauto.
  - intro H. left. congruence.
  - intros q' z Hz Haz. left. eapply moves_old; eauto.
Qed.

(* a sequence is launched: it and its block are durably started afterwards *)
Lemma C_launch J J' s s' q y :
  C J s -> mono J J' -> moves s s' q SIdle y ->
  ist J' (OSeq (s_cb s) q) <> NotStarted -> ist J' (OBlock (s_cb s)) <> NotStarted -> C J' s'.
Proof.
  intros HC Hm Hmv H1 H2. pose proof Hmv as ((_ & Ecb & Eph & _) & Hx & Es). eapply C_step; eauto.
  intros q' z Hz Haz. rewrite Es in Hz.
  destruct (nth_upd_cases _ _ _ _ _ Hz) as [[-> _]|[_ Hz']]; [right; auto|left; eauto].
Qed.

(* ------------------------------------------------------------------ handled writes *)
Lemma h_write_status sh s o stt n ok r s' :
  h_write sh s o stt n ok r = Some s' -> stt <> NotStarted /\ (o <> OPlan -> stt <> Stopped).
Proof.
  intro H. unfold h_write in H. destruct (negb (obj_in_shape sh o)); [discriminate|].
  assert (G : forall x, h_write_obj sh s o stt n ok r = Some x -> stt <> NotStarted /\ (o <> OPlan -> stt <> Stopped)).
  { clear H. intros x H. unfold h_write_obj in H. destruct o as [|sc g|b|b q|a].
    - unfold p_write in H. destruct (s_ph s); try discriminate.
      + destruct stt; try discriminate. split; [discriminate|congruence].
      + destruct stt; try discriminate; split; try discriminate; congruence.
    - destruct sc; destruct stt; try discriminate; split; discriminate.
    - destruct (cur_block sh s b); [|discriminate]. unfold b_write in H.
      destruct stt; try discriminate; split; discriminate.
    - destruct (cur_block sh s b); [|discriminate]. destruct stt; try discriminate; split; discriminate.
    - unfold h_write_act in H. destruct stt; try discriminate; split; discriminate. }
  destruct o; try (destruct n; [destruct ok|]; try discriminate);
    destruct (h_write_obj sh s _ stt _ _ r) eqn:E; try discriminate; eapply G; eauto.
Qed.

(* a handled write of the plan: the first write of Start, or the terminal write over a plan that is not terminal *)
Lemma h_write_plan sh s stt n ok r s' :
  h_write sh s OPlan stt n ok r = Some s' ->
  (s_ph s = PStart /\ stt = Running)
  \/ (s_ph s = PEnd /\ is_terminal stt = true /\ is_terminal (ist (s_img s) OPlan) = false).
Proof.
  unfold h_write. destruct (negb (obj_in_shape sh OPlan)); [discriminate|].
  destruct n; [|discriminate]. destruct ok; [discriminate|]. unfold h_write_obj. intro H.
  apply option_map_some in H as (s1 & H & _). apply option_map_some in H as (s2 & H & _). unfold p_write in H.
  destruct (s_ph s); try discriminate.
  - left. destruct stt; try discriminate. auto.
  - right. split; [reflexivity|]. destruct (is_terminal stt); [|discriminate]. split; [reflexivity|].
    destruct (is_terminal (ist (s_img s) OPlan)); [|reflexivity]. discriminate.
Qed.

Lemma write_effect_ctl sh s s' o stt : write_effect sh s s' o stt -> same_ctl s s'.
Proof.
  unfold write_effect. destruct o as [|[|b] g|b|b q|[[|b] g i|b q i]]; intro H.
  - apply H.
  - apply H.
  - apply H.
  - apply H.
  - destruct H as [_ H]. destruct stt; try contradiction; [apply H|apply H|apply H].
  - apply H.
  - apply H.
  - destruct H as (_ & a & y & H & _). apply H.
Qed.

Lemma over_iset mm base o c o' : over (iset mm o c) base o' = if obj_eqb o o' then c else over mm base o'.
Proof. unfold over, iset. simpl. destruct (obj_eqb o o'); reflexivity. Qed.

Lemma iget_put s o stt n ok o' :
  iget (s_img (put s o stt n ok)) o' = if obj_eqb o o' then wcell stt n ok else iget (s_img s) o'.
Proof. reflexivity. Qed.

Lemma mono_iset J o c : (c_st c = NotStarted -> ist J o = NotStarted) -> mono J (iset J o c).
Proof.
  intros H o' Ho'. unfold ist. rewrite iget_iset. destruct (obj_eqb o o') eqn:E; [|exact Ho'].
  apply obj_eqb_eq in E. subst o'. intro Q. apply Ho'. now apply H.
Qed.

Lemma active_dec x : active x \/ ~ active x.
Proof. destruct x; simpl; auto. Qed.

Section ResumedInv.
Variable sh : shape.
Variable I : dimg.
Hypothesis Hwf : img_wf0 sh I = true.
Hypothesis Hrun : ist I OPlan = Running.
Hypothesis Hres : resumable_ok (pln_of sh I) = true.

Lemma RS : repair_sound sh I.
Proof. now apply repair_sound_holds. Qed.

Definition img (r : rst) : dimg := s_img (r_s r).
Definition pterm (r : rst) : bool := is_terminal (ist (img r) OPlan).

Definition W (r : rst) : Prop := D sh I (img r) (mget r) /\ C (img r) (r_s r).

Definition K (r : rst) : Prop :=
  Inv sh I r /\ ((pterm r = true /\ ended r) \/ (pterm r = false /\ W r)).

(* ---- the terminal plan write and the other writes of the plan ---- *)
Lemma r_write_plan r stt n ok rs r' :
  r_write sh r OPlan stt n ok rs = Some r' ->
  (exists s', h_write sh (r_s r) OPlan stt n ok rs = Some s'
              /\ r' = with_mem (with_s r s') (iset (r_mem r) OPlan (wcell stt n ok)))
  \/ (s_ph (r_s r) = PEnd /\ is_terminal stt = true /\ pterm r = false
      /\ r' = commit (with_s r (with_reason (r_s r) rs)) OPlan stt n ok).
Proof.
  unfold r_write. destruct (released (r_s r) || negb (obj_in_shape sh OPlan)); [discriminate|]. intro H.
  assert (Hgen : option_map (fun s' => with_mem (with_s r s') (iset (r_mem r) OPlan (wcell stt n ok)))
                            (h_write sh (r_s r) OPlan stt n ok rs) = Some r' ->
                 exists s', h_write sh (r_s r) OPlan stt n ok rs = Some s'
                            /\ r' = with_mem (with_s r s') (iset (r_mem r) OPlan (wcell stt n ok))).
  { intro E. apply option_map_some in E as (s' & E & ->). eauto. }
  destruct n; [destruct ok|]; try (left; now apply Hgen).
  destruct (in_plan_end r) eqn:Ee; [|left; now apply Hgen].
  apply option_map_some in H as (r1 & E & ->). right. unfold r_plan_final in E. unfold in_plan_end in Ee.
  destruct (pphase_eqb (s_ph (r_s r)) PEnd && is_terminal stt && negb (is_terminal (ist (s_img (r_s r)) OPlan))
            && status_eqb stt (fst (final sh (mst (mget r)))) && reason_eqb rs (snd (final sh (mst (mget r))))) eqn:Ec;
    [|discriminate].
  injection E as <-. apply andb_true_iff in Ec as [Ec _]. apply andb_true_iff in Ec as [Ec _].
  apply andb_true_iff in Ec as [Ec E3]. apply andb_true_iff in Ec as [_ E2].
  split; [destruct (s_ph (r_s r)); try discriminate; reflexivity|]. split; [exact E2|]. split; [|reflexivity].
  unfold pterm, img. now apply negb_true_iff in E3.
Qed.

(* ---- memory after the repair is finished ---- *)
Lemma finished_act r a : finished_mem sh r (OAct a) = mget r (OAct a).
Proof.
  unfold finished_mem, finish_mem, mget, over. simpl.
  rewrite ifind_app, ifind_blocks_seq; [reflexivity|]. intros b' E. discriminate.
Qed.

Lemma D_take_entry r J : r_pl r = pln_of sh I -> D sh I J (mget r) -> D sh I J (mget (take_entry sh r)).
Proof.
  intros Hpl HD. change (mget (take_entry sh r)) with (finished_mem sh r). eapply D_mem; [exact HD|..].
  - intros b Hb. unfold mst. rewrite finished_block by exact Hb. rewrite Hpl.
    exact (fixed_block_not_stopped sh I Hwf (r_fails r) b Hb).
  - intros b q. apply finished_seq.
  - intro a. apply finished_act.
Qed.

Lemma rec_block_fresh J s b qs : s_b s = rec_block sh b qs -> C J s.
Proof.
  intro E. apply C_fresh; rewrite ?E; [reflexivity|]. intros q x Hx. unfold seqs_of in Hx. rewrite E in Hx.
  destruct (rec_block_nth _ _ _ _ _ Hx) as [[_ ->]|[_ ->]]; simpl; auto.
Qed.

Lemma W_start_recover r todo :
  r_pl r = pln_of sh I -> D sh I (img r) (mget r) -> W (start_recover sh r todo) /\ img (start_recover sh r todo) = img r.
Proof.
  intros Hpl HD. destruct todo as [|[b qs] rest]; simpl.
  - split; [|reflexivity]. split; [now apply D_take_entry|]. apply C_fresh; [reflexivity|].
    intros [|q] x Hx; discriminate Hx.
  - split; [|reflexivity]. split; [exact HD|]. eapply rec_block_fresh. reflexivity.
Qed.

Lemma r_enter_fresh J m s cb : C J (r_enter sh m s cb).
Proof.
  destruct (r_enter_spec sh m s cb) as (cb' & -> & _). apply C_fresh.
  - simpl. destruct (block_of sh cb'); reflexivity.
  - intros q x Hx. unfold seqs_of in Hx. simpl in Hx. destruct (block_of sh cb') as [bs|].
    + simpl in Hx. apply seq_init_nth in Hx as [-> _]. unfold seq_init. destruct (mst m (OSeq cb' q)); simpl; auto.
    + destruct q; discriminate Hx.
Qed.

Lemma r_enter_img m s cb : s_img (r_enter sh m s cb) = s_img s.
Proof. destruct (r_enter_spec sh m s cb) as (cb' & -> & _). reflexivity. Qed.

(* ------------------------------------------------------------------ epsilon-moves *)
Lemma not_ended_right r : K r -> ~ ended r -> Inv sh I r /\ pterm r = false /\ W r.
Proof. intros [Hi [[_ He]|[Hp Hw]]] Hn; [contradiction|auto]. Qed.

Lemma K_reps r r1 : K r -> reps sh r = Some r1 -> K r1.
Proof.
  intros HK H. pose proof HK as [Hi _]. split; [eapply (reps_inv sh I RS); eauto|]. right.
  unfold reps in H. destruct (r_ph r) as [| [|[b qs] todo] |] eqn:Ep; try discriminate.
  - (* fixBlock's g.Wait returned for this block *)
    destruct (forallb s_done (b_seqs (s_b (r_s r)))); [|discriminate]. injection H as <-.
    destruct (i_rec _ _ _ Hi _ Ep) as ((b0 & qs0 & rest & _ & [Hph _] & _) & _).
    destruct (not_ended_right r HK) as (_ & Hp & [HD HC]).
    { unfold ended. rewrite Hph. intros [E|E]; discriminate. }
    destruct (i_const _ _ _ Hi) as [_ Hpl].
    match goal with |- context [start_recover sh ?r0 todo] =>
      destruct (W_start_recover r0 todo Hpl HD) as [HW Ei] end.
    split; [|exact HW]. unfold pterm. rewrite Ei. exact Hp.
  - (* a phase move of the state chain *)
    apply option_map_some in H as (s2 & H & ->). unfold rp_eps in H.
    destruct (p_eps sh (r_s r)) as [s'|] eqn:Ee; [|discriminate]. injection H as <-.
    destruct (not_ended_right r HK) as (_ & Hp & [HD HC]).
    { destruct (p_eps_not_ended _ _ _ Ee) as [A B]. intros [E|E]; contradiction. }
    destruct (eps_kinds _ _ _ Ee) as [Ei Kd].
    destruct (entered (r_s r) s') eqn:Een.
    + split; [unfold pterm, img; simpl; now rewrite r_enter_img, Ei|].
      split; [unfold img; simpl; now rewrite r_enter_img, Ei|]. unfold img. simpl. apply r_enter_fresh.
    + split; [unfold pterm, img; simpl; now rewrite Ei|].
      split; [unfold img; simpl; now rewrite Ei|]. unfold img in *. simpl. rewrite Ei.
      destruct Kd as [Cb Eb Np Hc|bs b' Ph Ph' Cb Hbs He Eb|Ph' Eb Hc].
      * constructor; unfold seqs_of; rewrite ?Cb, ?Eb; apply HC.
      * destruct (Frame.b_eps_stay _ _ _ _ _ _ He) as [Es Nb]. eapply C_step; [exact HC|apply mono_refl|exact Cb| |].
        -- intros _. destruct (b_ph (s_b (r_s r))) eqn:Q; try (left; discriminate).
           right. rewrite (b_eps_enter _ _ _ _ _ _ He Q). discriminate.
        -- intros q x Hx Hax. left. unfold seqs_of in *. rewrite Eb, Es in Hx. eauto.
      * apply C_fresh; [rewrite Eb; apply fresh_bst_ph|]. intros q x Hx. unfold seqs_of in Hx. rewrite Eb in Hx.
        apply fresh_bst_idle in Hx. subst x. simpl. auto.
Qed.

(* ------------------------------------------------------------------ events that write nothing *)
Lemma K_state r s' :
  K r -> Inv sh I (with_s r s') -> s_img s' = s_img (r_s r) -> s_ph s' = s_ph (r_s r) ->
  (C (img r) (r_s r) -> C (img r) s') -> K (with_s r s').
Proof.
  intros [_ HK] Hi Ei Eph HC. split; [exact Hi|]. destruct HK as [[Hp He]|[Hp [HD HC0]]].
  - left. split; [unfold pterm, img; simpl; now rewrite Ei|]. unfold ended. simpl. now rewrite Eph.
  - right. split; [unfold pterm, img; simpl; now rewrite Ei|]. split; unfold img; simpl; rewrite Ei; [exact HD|now apply HC].
Qed.

Lemma live_handle d r e r' :
  Inv sh I r -> rhandle d sh r e = Some r' ->
  match e with
  | EvWrite o stt n ok rs => r_write sh r o stt n ok rs = Some r'
  | EvRelease fin => r_release d sh r fin = Some r'
  | _ => option_map (with_s r) (handle sh (r_s r) e) = Some r'
  end.
Proof.
  intros Hi H. pose proof (i_live _ _ _ Hi) as Hl. unfold rhandle in H.
  destruct (r_ph r); [contradiction| |]; destruct e; exact H.
Qed.

Lemma K_start d r a r' : K r -> rhandle d sh r (EvStart a) = Some r' -> K r'.
Proof.
  intros HK H. pose proof HK as [Hi _]. pose proof (proj1 (handle_inv sh I RS d r _ r' Hi H)) as Hi'.
  apply (live_handle d r _ r' Hi) in H. apply option_map_some in H as (s' & H & ->). simpl in H.
  destruct (released (r_s r)); [discriminate|]. destruct (h_start_spec _ _ _ _ H) as [Ei Hs].
  destruct a as [[|b] g i|b q i].
  - apply K_state; auto; [apply Hs|]. intro HC. eapply C_keeps; eauto. apply mono_refl.
  - destruct Hs as [_ Hs]. apply K_state; auto; [apply Hs|]. intro HC. eapply C_keeps; eauto. apply mono_refl.
  - destruct Hs as [_ (k & Hm)]. apply K_state; auto; [apply Hm|]. intro HC.
    eapply C_moves; eauto; [apply mono_refl|exact Logic.I].
Qed.

Lemma K_end d r a o r' : K r -> rhandle d sh r (EvEnd a o) = Some r' -> K r'.
Proof.
  intros HK H. pose proof HK as [Hi _]. pose proof (proj1 (handle_inv sh I RS d r _ r' Hi H)) as Hi'.
  apply (live_handle d r _ r' Hi) in H. apply option_map_some in H as (s' & H & ->). simpl in H.
  destruct (h_end_spec _ _ _ _ _ H) as [Ei [Hk|(b & q & i & k & -> & _ & Hm)]].
  - apply K_state; auto; [apply Hk|]. intro HC. eapply C_keeps; eauto. apply mono_refl.
  - apply K_state; auto; [apply Hm|]. intro HC. eapply C_moves; eauto; [apply mono_refl|exact Logic.I].
Qed.

Lemma K_read d r snap r' : K r -> rhandle d sh r (EvRead snap) = Some r' -> K r'.
Proof.
  intros HK H. pose proof HK as [Hi _]. pose proof (proj1 (handle_inv sh I RS d r _ r' Hi H)) as Hi'.
  apply (live_handle d r _ r' Hi) in H. apply option_map_some in H as (s' & H & ->). simpl in H. unfold h_read in H.
  assert (s' = r_s r) as ->.
  { destruct (s_fin (r_s r)); [destruct (images_agree _ _ _); [|discriminate]|]; now injection H as <-. }
  apply K_state; auto.
Qed.

Lemma K_release d r fin r' : K r -> rhandle d sh r (EvRelease fin) = Some r' -> K r'.
Proof.
  intros HK H. pose proof HK as [Hi _]. pose proof (proj1 (handle_inv sh I RS d r _ r' Hi H)) as Hi'.
  apply (live_handle d r _ r' Hi) in H. split; [exact Hi'|]. left.
  unfold r_release in H. destruct (r_ph r) eqn:Ep; [exfalso; exact (i_live _ _ _ Hi Ep)|discriminate|].
  destruct (all_flushed sh r && quiet d sh (r_I r) (mget r)); [|discriminate].
  apply option_map_some in H as (s' & H & ->). unfold h_release in H.
  destruct (pphase_eqb (s_ph (r_s r)) PEnd && is_terminal (ist (s_img (r_s r)) OPlan)
            && image_agrees (all_objs sh) (s_img (r_s r)) (s_reason (r_s r)) fin) eqn:Ec; [|discriminate].
  injection H as <-. apply andb_true_iff in Ec as [Ec _]. apply andb_true_iff in Ec as [_ Ec].
  split; [exact Ec|]. right. reflexivity.
Qed.

(* ------------------------------------------------------------------ the flush rule *)
Lemma in_shape_block b : obj_in_shape sh (OBlock b) = true -> block_of sh b <> None.
Proof. cbn. destruct (block_of sh b); [discriminate|discriminate]. Qed.

Lemma in_shape_seq b q : obj_in_shape sh (OSeq b q) = true -> seq_of sh b q <> None.
Proof. cbn. destruct (seq_of sh b q); [discriminate|discriminate]. Qed.

Lemma D_flush J m o :
  D sh I J m -> obj_in_shape sh o = true -> (c_st (m o) = NotStarted -> ist J o = NotStarted) ->
  D sh I (iset J o (m o)) m.
Proof.
  intros HD Ho Hns. apply D_write with (J := J) (m := m) (o := o) (c := m o); [exact HD|..].
  - intro o'. apply iget_iset.
  - intro o'. destruct (obj_eqb o o') eqn:E; [apply obj_eqb_eq in E; now subst|reflexivity].
  - destruct o as [|sc g|b|b q|[sc g i|b q i]]; try discriminate; intros _.
    + apply (d_mblk _ _ _ _ HD). now apply in_shape_block.
    + apply (d_mseq _ _ _ _ HD). now apply in_shape_seq.
    + apply (d_mact _ _ _ _ HD b q i Ho).
  - exact Hns.
  - intros b q i -> Hc. apply (d_mact _ _ _ _ HD b q i Ho). exact Hc.
  - intros b q -> Hc Hb. apply Hc. apply (d_mseq _ _ _ _ HD b q); [now apply in_shape_seq|exact Hb].
  - intros b q i -> Hc Hq. apply Hc. apply (d_mact _ _ _ _ HD b q i Ho). exact Hq.
Qed.

Lemma flush_spec r e r' :
  flush sh r e = Some r' ->
  exists o stt n ok rs, e = EvWrite o stt n ok rs /\ o <> OPlan /\ obj_in_shape sh o = true
    /\ mget r o = wcell stt n ok
    /\ (stt <> NotStarted \/ ist (img r) o = NotStarted \/ pterm r = true)
    /\ r' = with_s r (put (r_s r) o stt n ok).
Proof.
  unfold flush. intro H.
  assert (G : forall o stt n ok,
            (if negb (released (r_s r)) && obj_in_shape sh o && cell_eqb (mget r o) (wcell stt n ok)
                && (negb (status_eqb stt NotStarted) || status_eqb (ist (s_img (r_s r)) o) NotStarted
                    || is_terminal (ist (s_img (r_s r)) OPlan))
             then Some (with_s r (put (r_s r) o stt n ok)) else None) = Some r' ->
            obj_in_shape sh o = true /\ mget r o = wcell stt n ok
            /\ (stt <> NotStarted \/ ist (img r) o = NotStarted \/ pterm r = true)
            /\ r' = with_s r (put (r_s r) o stt n ok)).
  { intros o stt n ok E.
    match type of E with (if ?c then _ else _) = _ => destruct c eqn:Ec; [|discriminate] end. injection E as <-.
    apply andb_true_iff in Ec as [Ec E4]. apply andb_true_iff in Ec as [Ec E3]. apply andb_true_iff in Ec as [_ E2].
    split; [exact E2|]. split; [now apply cell_eqb_eq|]. split; [|reflexivity].
    apply orb_true_iff in E4 as [E4|E4]; [apply orb_true_iff in E4 as [E4|E4]|].
    - left. intro Q. subst stt. discriminate.
    - right. left. now apply status_eqb_eq.
    - right. right. exact E4. }
  destruct (r_ph r); [discriminate| |]; destruct e as [a|a o|o stt n ok rs|snap|fin]; try discriminate;
    destruct o; try discriminate; apply G in H as (H1 & H2 & H3 & H4);
    (eexists _, stt, n, ok, rs; split; [reflexivity|]; split; [discriminate|auto]).
Qed.

Lemma K_flush r e r' : K r -> flush sh r e = Some r' -> K r'.
Proof.
  intros HK H. pose proof HK as [Hi HK']. pose proof (proj1 (flush_inv sh I r e r' Hi H)) as Hi'.
  destruct (flush_spec _ _ _ H) as (o & stt & n & ok & rs & -> & Hno & Ho & Hm & Hcond & ->).
  split; [exact Hi'|].
  assert (Epl : ist (img (with_s r (put (r_s r) o stt n ok))) OPlan = ist (img r) OPlan).
  { unfold img. simpl. apply ist_iset_other. exact Hno. }
  destruct HK' as [[Hp He]|[Hp [HD HC]]].
  - left. split; [unfold pterm; now rewrite Epl|exact He].
  - right. split; [unfold pterm; now rewrite Epl|].
    assert (Hns : c_st (mget r o) = NotStarted -> ist (img r) o = NotStarted).
    { rewrite Hm. simpl. intro Q. destruct Hcond as [A|[A|A]]; [contradiction|exact A|congruence]. }
    split.
    + unfold img at 1. simpl. change (mget (with_s r (put (r_s r) o stt n ok))) with (mget r).
      change {| c_st := stt; c_n := n; c_ok := ok |} with (wcell stt n ok). rewrite <- Hm. now apply D_flush.
    + unfold img at 1. simpl. eapply C_keeps; [exact HC| |split; [unfold same_ctl; simpl; auto|reflexivity]].
      apply mono_iset. simpl. rewrite Hm in Hns. exact Hns.
Qed.

(* ------------------------------------------------------------------ handled writes *)
(* the data part after a write that a handler took (never NotStarted, never Stopped below the plan) *)
Lemma D_handled J m J' m' o c :
  D sh I J m -> J' = iset J o c -> (forall o', m' o' = if obj_eqb o o' then c else m o') ->
  c_st c <> NotStarted -> (seqlevel_obj o = true -> c_st c <> Stopped) ->
  (forall b q, o = OSeq b q -> ist J (OBlock b) <> NotStarted) ->
  (forall b q i, o = OAct (ASeq b q i) -> ist J (OSeq b q) <> NotStarted) ->
  D sh I J' m'.
Proof.
  intros HD -> Hm Nns Nst H1 H2. apply D_write with (J := J) (m := m) (o := o) (c := c); [exact HD|..].
  - intro o'. apply iget_iset.
  - exact Hm.
  - exact Nst.
  - intro Q. contradiction.
  - intros b q i _ Q. contradiction.
  - intros b q E _. eapply H1; eauto.
  - intros b q i E _. eapply H2; eauto.
Qed.

Lemma K_write_plan r stt n ok rs r' :
  K r -> Inv sh I r' -> r_write sh r OPlan stt n ok rs = Some r' -> K r'.
Proof.
  intros [Hi HK] Hi' H. split; [exact Hi'|].
  destruct (r_write_plan _ _ _ _ _ _ H) as [(s' & Hw & ->)|(Hph & Ht & Hp0 & ->)].
  - destruct (h_write_spec _ _ _ _ _ _ _ _ Hw) as (_ & Eimg & He). cbn [write_effect] in He.
    pose proof He as ((Eph & _) & _).
    destruct (h_write_plan _ _ _ _ _ _ _ Hw) as [[Hps ->]|(Hpe & Ht & Hnt)].
    + destruct HK as [[_ [E|E]]|[Hp [HD HC]]]; try congruence. right.
      split; [unfold pterm, img; simpl; rewrite Eimg; reflexivity|]. split.
      * eapply D_handled with (o := OPlan) (c := wcell Running n ok); [exact HD|exact Eimg|intro; apply over_iset|..];
          try discriminate.
      * unfold img at 1. simpl. rewrite Eimg. eapply C_keeps; [exact HC| |exact He]. apply mono_iset. discriminate.
    + left. split; [unfold pterm, img; simpl; rewrite Eimg; exact Ht|]. left. simpl. congruence.
  - left. split; [exact Ht|]. left. exact Hph.
Qed.

Lemma K_write d r o stt n ok rs r' : K r -> rhandle d sh r (EvWrite o stt n ok rs) = Some r' -> K r'.
Proof.
  intros HK H. pose proof HK as [Hi HK']. pose proof (proj1 (handle_inv sh I RS d r _ r' Hi H)) as Hi'.
  apply (live_handle d r _ r' Hi) in H.
  destruct (obj_dec o OPlan) as [->|Hno]; [eapply K_write_plan; eauto|]. split; [exact Hi'|].
  destruct (r_write_cases sh r o stt n ok rs r' H)
    as [Hshape [(s' & Hw & ->)|[(b & q & b1 & qs & rest & -> & -> & Hph & Hq & Hu & ->)|[-> _]]]]; [| |contradiction].
  - (* a write the engine's handlers take *)
    destruct (h_write_spec _ _ _ _ _ _ _ _ Hw) as (_ & Eimg & He).
    destruct (h_write_status _ _ _ _ _ _ _ _ Hw) as [Nns Nst]. specialize (Nst Hno).
    pose proof (write_effect_ctl _ _ _ _ _ He) as (Eph & Ecb & _).
    set (r1 := with_mem (with_s r s') (iset (r_mem r) o (wcell stt n ok))).
    assert (Ei : img r1 = iset (img r) o (wcell stt n ok)) by exact Eimg.
    assert (Epl : ist (img r1) OPlan = ist (img r) OPlan) by (rewrite Ei; apply ist_iset_other; exact Hno).
    assert (Em : forall o', mget r1 o' = if obj_eqb o o' then wcell stt n ok else mget r o') by (intro; apply over_iset).
    destruct HK' as [[Hp He']|[Hp [HD HC]]].
    { left. split; [unfold pterm; now rewrite Epl|]. unfold ended in *. change (s_ph (r_s r1)) with (s_ph s'). now rewrite Eph. }
    right. split; [unfold pterm; now rewrite Epl|].
    assert (Hmono : mono (img r) (img r1)) by (rewrite Ei; apply mono_iset; intro Q; contradiction).
    assert (HDgen : (forall b q, o = OSeq b q -> ist (img r) (OBlock b) <> NotStarted) ->
                    (forall b q i, o = OAct (ASeq b q i) -> ist (img r) (OSeq b q) <> NotStarted) ->
                    D sh I (img r1) (mget r1)).
    { intros H1 H2. eapply D_handled with (o := o) (c := wcell stt n ok); eauto. }
    change (r_s r1) with s'. unfold write_effect in He.
    destruct o as [|[|b] g|b|b q|[[|b] g i|b q i]]; [contradiction| | | | | | |].
    + split; [apply HDgen; intros; discriminate|eapply C_keeps; eauto].
    + split; [apply HDgen; intros; discriminate|eapply C_keeps; eauto; apply He].
    + split; [apply HDgen; intros; discriminate|eapply C_keeps; eauto; apply He].
    + (* OSeq *)
      destruct He as ((bs & Hc) & He). destruct (cur_block_some _ _ _ _ Hc) as (_ & -> & _).
      destruct stt; try contradiction.
      * destruct He as [Hbs Hm]. assert (Hblk : ist (img r) (OBlock (s_cb (r_s r))) <> NotStarted).
        { apply (c_cur _ _ HC). rewrite Hbs. discriminate. }
        split; [apply HDgen; [intros b0 q0 E; injection E as <- <-; exact Hblk|intros; discriminate]|].
        eapply C_launch; [exact HC|exact Hmono|exact Hm| |now apply Hmono].
        rewrite Ei, ist_iset_same. discriminate.
      * pose proof He as (_ & Hx & _). destruct (c_act _ _ HC q _ Hx Logic.I) as [_ Hblk].
        split; [apply HDgen; [intros b0 q0 E; injection E as <- <-; exact Hblk|intros; discriminate]|].
        eapply C_moves; eauto. exact Logic.I.
      * pose proof He as (_ & Hx & _). destruct (c_act _ _ HC q _ Hx Logic.I) as [_ Hblk].
        split; [apply HDgen; [intros b0 q0 E; injection E as <- <-; exact Hblk|intros; discriminate]|].
        eapply C_moves; eauto. exact Logic.I.
    + split; [apply HDgen; intros; discriminate|eapply C_keeps; eauto].
    + split; [apply HDgen; intros; discriminate|eapply C_keeps; eauto; apply He].
    + (* a sequence action *)
      destruct He as ((bs & Hc) & a & y & Hm & Hmv & _). destruct (cur_block_some _ _ _ _ Hc) as (_ & -> & _).
      pose proof Hm as (_ & Hx & _). destruct (c_act _ _ HC q _ Hx Logic.I) as [Hsq _].
      split; [apply HDgen; [intros; discriminate|intros b0 q0 i0 E; injection E as <- <- <-; exact Hsq]|].
      eapply C_moves; eauto. exact Logic.I.
  - (* execSeq of a resumed sequence (fixBlock) *)
    rewrite commit_eq.
    destruct (b_seq_upd_spec _ _ _ _ Hu) as (x & y & Hx & Hf & ->). destruct x; try discriminate. injection Hf as <-.
    destruct (i_rec _ _ _ Hi _ Hph) as ((b0 & qs0 & rest0 & E & [Hpb Hcb] & _) & Hsub & _). injection E as <- <- <-.
    assert (Hrb : ist I (OBlock b) = Running).
    { apply (rs_resumed _ _ RS b q). eapply Hsub; [left; reflexivity|exact Hq]. }
    set (s1 := put (with_b (r_s r) (b_with_seqs (s_b (r_s r)) (upd (b_seqs (s_b (r_s r))) q (SRun (first_open (r_pl r) b q) AIdle))))
                   (OSeq b q) Running n ok).
    set (r1 := with_mem (with_s r s1) (iset (r_mem r) (OSeq b q) (wcell Running n ok))).
    assert (Ei : img r1 = iset (img r) (OSeq b q) (wcell Running n ok)) by reflexivity.
    assert (Epl : ist (img r1) OPlan = ist (img r) OPlan) by (rewrite Ei; apply ist_iset_other; discriminate).
    destruct HK' as [[_ [E|E]]|[Hp [HD HC]]]; try congruence.
    right. split; [unfold pterm; now rewrite Epl|].
    assert (Hblk : ist (img r) (OBlock b) <> NotStarted).
    { apply (d_started _ _ _ _ HD). rewrite Hrb. discriminate. }
    assert (Hmono : mono (img r) (img r1)) by (rewrite Ei; apply mono_iset; intro Q; discriminate Q).
    split.
    + eapply D_handled with (o := OSeq b q) (c := wcell Running n ok); [exact HD|exact Ei|intro; apply over_iset|..];
        try discriminate.
      intros b0 q0 E. injection E as <- <-. exact Hblk.
    + change (r_s r1) with s1.
      assert (Hm : moves (r_s r) s1 q SIdle (SRun (first_open (r_pl r) b q) AIdle)).
      { split; [unfold same_ctl; simpl; auto|]. split; [exact Hx|reflexivity]. }
      eapply C_launch; [exact HC|exact Hmono|exact Hm|rewrite Hcb, Ei, ist_iset_same; discriminate|].
      rewrite Hcb. now apply Hmono.
Qed.

(* ------------------------------------------------------------------ every step *)
Lemma K_handle d r e r' : K r -> rhandle d sh r e = Some r' -> K r'.
Proof.
  intros HK H. destruct e.
  - eapply K_start; eauto.
  - eapply K_end; eauto.
  - eapply K_write; eauto.
  - eapply K_read; eauto.
  - eapply K_release; eauto.
Qed.

Lemma K_step d r e r' : K r -> rstep d sh r e = Some r' -> K r'.
Proof. apply (rstep_inv K d sh); [apply K_reps|apply K_handle|apply K_flush]. Qed.

Lemma K_run d tr r r' : K r -> rrun d sh r tr = Some r' -> K r'.
Proof. apply (rrun_inv K d sh). apply K_step. Qed.

(* ------------------------------------------------------------------ the initial state *)
Lemma mem0_no_block b : ifind (mem0 (pln_of sh I)) (OBlock b) = None.
Proof.
  destruct (ifind (mem0 (pln_of sh I)) (OBlock b)) as [c|] eqn:E; [|reflexivity].
  apply ifind_in, mem0_in in E as (b' & q' & s0 & _ & Hin).
  destruct (seq_objs_in _ _ _ _ _ Hin) as [[Eo _]|(i & a & Eo & _)]; discriminate.
Qed.

Lemma D_init : D sh I I (m0 sh I).
Proof.
  pose proof (wfP_of_bool sh I Hwf) as [Wb Ws Wa]. constructor; [now apply wfP_of_bool|auto|..].
  - intros b Hb. unfold mst, m0, over. rewrite mem0_no_block.
    exact (fixed_block_not_stopped sh I Hwf [] b Hb).
  - intros b q Hq. destruct (seq_of sh b q) as [rs|] eqn:Es; [|contradiction].
    destruct (seq_of_parts _ _ _ _ Es) as (bs & Eb & Eq).
    destruct (m0_seq_facts sh I Hwf b q bs rs Eb Eq) as [M1 M2]. split; [exact M1|]. intro Hblk.
    assert (Q : ist I (OSeq b q) = NotStarted) by (apply Ws; [rewrite Es; discriminate|exact Hblk]).
    rewrite M2; [exact Q|]. rewrite Q. discriminate.
  - intros b q i Hi. pose proof Hi as Hi'. apply in_act_spec in Hi' as (rs & Es & Hlt).
    destruct (seq_of_parts _ _ _ _ Es) as (bs & Eb & Eq).
    destruct (m0_act_facts sh I Hwf b q bs rs Eb Eq i Hlt) as (M1 & M2 & M3). split; [exact M1|]. split; [exact M2|].
    intro Q. rewrite M3; [|rewrite Q; discriminate]. destruct (Wa b q i Hi) as (_ & _ & A3). exact (A3 Q).
Qed.

Lemma K_init rs r0 : rinit sh I rs = Some r0 -> K r0.
Proof.
  intro H. split; [exact (rinit_inv sh I RS rs r0 Hrun H)|]. right.
  unfold rinit in H. rewrite Hrun in H. simpl in H. rewrite Hres in H. simpl in H. injection H as <-.
  match goal with |- context [start_recover sh ?r00 ?todo] =>
    destruct (W_start_recover r00 todo eq_refl D_init) as [HW Ei] end.
  split; [|exact HW]. unfold pterm. rewrite Ei. unfold img. simpl. now rewrite Hrun.
Qed.

(* every durable image of a recovery, until the terminal plan write, is well-formed *)
Lemma resumed_wf d rs r0 tr r :
  rinit sh I rs = Some r0 -> rrun d sh r0 tr = Some r -> pterm r = false -> img_wf0 sh (img r) = true.
Proof.
  intros Hi Hr Hp. pose proof (K_run d tr r0 r (K_init rs r0 Hi) Hr) as [_ [[Hp' _]|[_ [HD _]]]]; [congruence|].
  apply bool_of_wfP. exact (d_wf _ _ _ _ HD).
Qed.
End ResumedInv.
