(* ResumedImg - the durable image along a resumed run is the fold of the writes of the trace (up to stutters), so the
   crash images of a recovery (Resume.crash_from: the image after the first k writes) are durable images of the
   resumed automaton's run of a prefix of the trace; a recovery that is not resumed (plan not Running) writes
   nothing; img_wf0 only reads the objects of the shape.  The analogue of coq/imgwf/CrashImage.v.  Proofs only. *)
From Coq Require Import Lia.
From Coercion.Base Require Import Plan.
From Coercion.Engine Require Import Shape Event Action ChecksRun Seq Block Final PlanSM Auto Accept AutoLemmas.
From Coercion.Resume Require Import Resume ResumeLemmas ReleaseProofs Frame NoReexec ImgWf.
From Coercion.C06 Require Import Steps.
From Coercion.ImgWf Require Import EngineInv EngineWf CrashImage.
From Coercion.Chain Require Import ResumedInv.

Lemma img_wf0_ext sh I J : same_on sh I J -> img_wf0 sh I = img_wf0 sh J.
Proof.
  intro E. unfold img_wf0. apply forallb_ext_in. intros [b bs] Hin. apply in_indexed in Hin. now apply (block_wf_ext sh I J E).
Qed.

(* ------------------------------------------------------------------ the image after one step *)
Lemma start_recover_img sh r todo : img (start_recover sh r todo) = img r.
Proof. destruct todo as [|[b qs] rest]; reflexivity. Qed.

Lemma reps_img sh r r1 : reps sh r = Some r1 -> img r1 = img r.
Proof.
  unfold reps. intro H. destruct (r_ph r) as [| [|[b qs] todo] |]; try discriminate.
  - destruct (forallb s_done (b_seqs (s_b (r_s r)))); [|discriminate]. injection H as <-. now rewrite start_recover_img.
  - apply option_map_some in H as (s2 & H & ->). unfold rp_eps in H.
    destruct (p_eps sh (r_s r)) as [s'|] eqn:Ee; [|discriminate]. injection H as <-.
    destruct (eps_kinds _ _ _ Ee) as [Ei _]. unfold img. simpl. destruct (entered (r_s r) s'); [|exact Ei].
    now rewrite r_enter_img.
Qed.

Lemma reps_star_img sh r r0 : reps_star sh r r0 -> img r0 = img r.
Proof. induction 1 as [|r r1 r2 H _ IH]; [reflexivity|]. rewrite IH. eapply reps_img; eauto. Qed.

Lemma r_release_img d sh r fin r' : r_release d sh r fin = Some r' -> img r' = img r.
Proof.
  unfold r_release. intro H. destruct (r_ph r).
  - destruct (negb (released (r_s r)) && _); [|discriminate]. now injection H as <-.
  - discriminate.
  - destruct (all_flushed sh r && _); [|discriminate]. apply option_map_some in H as (s' & H & ->).
    unfold h_release in H. destruct (pphase_eqb _ _ && _ && _); [|discriminate]. now injection H as <-.
Qed.

Lemma h_read_same sh s snap s' : h_read sh s snap = Some s' -> s' = s.
Proof. unfold h_read. destruct (s_fin s); [destruct (images_agree _ _ _); [|discriminate]|]; intro H; now injection H. Qed.

Lemma rhandle_img d sh r e r' : rhandle d sh r e = Some r' -> img r' = ev_img e (img r).
Proof.
  intro H.
  assert (G : forall e0, (forall o stt n ok rs, e0 <> EvWrite o stt n ok rs) -> (forall fin, e0 <> EvRelease fin) ->
              option_map (with_s r) (handle sh (r_s r) e0) = Some r' -> img r' = ev_img e0 (img r)).
  { intros e0 N1 N2 E. apply option_map_some in E as (s' & E & ->). unfold img. simpl.
    destruct e0 as [a|a o|o stt n ok rs|snap|fin]; simpl in *.
    - destruct (released (r_s r)); [discriminate|]. exact (proj1 (h_start_spec _ _ _ _ E)).
    - exact (proj1 (h_end_spec _ _ _ _ _ E)).
    - exfalso. eapply N1; eauto.
    - now rewrite (h_read_same _ _ _ _ E).
    - exfalso. eapply N2; eauto. }
  assert (W : forall o stt n ok rs, r_write sh r o stt n ok rs = Some r' ->
              img r' = iset (img r) o {| c_st := stt; c_n := n; c_ok := ok |}).
  { intros o stt n ok rs E. destruct (r_write_cases sh r o stt n ok rs r' E)
      as [_ [(s' & Hw & ->)|[(b & q & b1 & qs & rest & -> & -> & _ & _ & _ & ->)|[-> ->]]]]; [|reflexivity|reflexivity].
    exact (proj1 (proj2 (h_write_spec _ _ _ _ _ _ _ _ Hw))). }
  unfold rhandle in H. destruct (r_ph r); destruct e as [a|a o|o stt n ok rs|snap|fin]; try discriminate;
    try (now apply W in H); try (now apply r_release_img in H);
    try (apply G in H; [exact H|intros; discriminate|intros; discriminate]).
  apply (G (EvRead snap)); [intros; discriminate|intros; discriminate|exact H].
Qed.

Lemma rstep_img d sh r e r' : rstep d sh r e = Some r' -> ieq (img r') (ev_img e (img r)).
Proof.
  intro H. destruct (rstep_spec _ _ _ _ _ H) as [(r0 & Hs & Hh)|[[-> St]|Hf]].
  - rewrite (rhandle_img _ _ _ _ _ Hh), (reps_star_img _ _ _ Hs). intro; reflexivity.
  - unfold rstutter in St. destruct (r_ph r); [discriminate| |];
      (destruct e as [a|a o|o stt n ok rs|snap|fin]; try discriminate St; cbn [ev_img]; cbn [stutter] in St;
       apply andb_true_iff in St as [St _]; apply andb_true_iff in St as [_ St]; apply cell_eqb_eq in St;
       intro o'; rewrite iget_iset; destruct (obj_eqb o o') eqn:Q; [|reflexivity];
       apply obj_eqb_eq in Q; subst o'; exact St).
  - destruct (flush_spec _ _ _ _ Hf) as (o & stt & n & ok & rs & -> & _ & _ & _ & _ & ->). intro; reflexivity.
Qed.

Lemma rrun_writes d sh tr : forall r r' ir,
  rrun d sh r tr = Some r' -> ieq (img r) (fst ir) -> ieq (img r') (fst (fold_left apply_write (writes_of tr) ir)).
Proof.
  induction tr as [|e tr IH]; intros r r' ir H Hi; simpl in H.
  - injection H as <-. exact Hi.
  - destruct (rstep d sh r e) as [r1|] eqn:St; [|discriminate].
    assert (H1 : ieq (img r1) (ev_img e (fst ir))).
    { intro o. rewrite (rstep_img _ _ _ _ _ St o). now apply ieq_ev_img. }
    cbn [writes_of]. destruct e as [a|a o|o stt n ok rs|snap|fin]; cbn [write_of fold_left]; eapply IH; eauto.
Qed.

Lemma rinit_img sh im rs r0 : rinit sh im rs = Some r0 -> img r0 = im.
Proof.
  unfold rinit. destruct (negb (status_eqb (ist im OPlan) Running)); [intro H; now injection H as <-|].
  destruct (negb (resumable_ok (pln_of sh im))); [discriminate|]. intro H. injection H as <-.
  now rewrite start_recover_img.
Qed.

(* every crash image of an accepted recovery trace is the durable image of a reachable state, object by object *)
Lemma crash_from_reached d sh im rs r0 tr r k :
  rinit sh im rs = Some r0 -> rrun d sh r0 tr = Some r ->
  exists tr1 r1, rrun d sh r0 tr1 = Some r1 /\ ieq (img r1) (fst (crash_from im rs tr k)).
Proof.
  intros Hi H. destruct (crash_prefix tr k) as (t1 & t2 & -> & Hf). rewrite rrun_app in H.
  destruct (rrun d sh r0 t1) as [r1|] eqn:R1; [|discriminate]. exists t1, r1. split; [exact R1|].
  unfold crash_from. rewrite Hf. apply (rrun_writes _ _ _ _ _ _ R1). rewrite (rinit_img _ _ _ _ Hi). intro; reflexivity.
Qed.

(* a recovery that finds the plan not Running writes nothing *)
Lemma no_activity_no_writes tr : Forall no_activity tr -> writes_of tr = [].
Proof.
  induction 1 as [|e tr He _ IH]; [reflexivity|]. destruct e; try contradiction; exact IH.
Qed.

Lemma unresumed_crash_from d sh im rs r0 tr r k :
  ist im OPlan <> Running -> rinit sh im rs = Some r0 -> rrun d sh r0 tr = Some r -> crash_from im rs tr k = (im, rs).
Proof.
  intros Hn Hi H. assert (Hidle : idle r0).
  { eapply rinit_idle; [|exact Hi]. destruct (status_eqb (ist im OPlan) Running) eqn:E; [|reflexivity].
    apply status_eqb_eq in E. contradiction. }
  unfold crash_from. rewrite (no_activity_no_writes tr (idle_run d sh tr r0 r Hidle H)). now destruct k.
Qed.
