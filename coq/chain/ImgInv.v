(* ImgInv - the part of the resumed automaton's invariant that only talks about the durable image J and the in-memory
   image m (no automaton state): J is well-formed (ImgWf.img_wf0, in Prop form on the objects of the shape), memory has
   nothing Stopped and no NotStarted action with attempts, what is NotStarted durably is NotStarted in memory one level
   down, and a block that was started in the crash image I stays started.  [D_write]: the rule for one write.
   Proofs only. *)
From Coq Require Import Lia.
From Coercion.Base Require Import Plan.
From Coercion.Engine Require Import Shape Event Action ChecksRun Seq Block Final PlanSM Auto Accept AutoLemmas.
From Coercion.Resume Require Import Resume ImgWf RepairSound.
From Coercion.ImgWf Require Import EngineInv EngineWf CrashImage.

Definition seqlevel_obj (o : obj) : bool :=
  match o with OBlock _ | OSeq _ _ | OAct (ASeq _ _ _) => true | _ => false end.

Section ImgInv.
Variable sh : shape.

Definition in_act (b q i : nat) : Prop := obj_in_shape sh (OAct (ASeq b q i)) = true.

(* ImgWf.img_wf0 on the objects of the shape *)
Record wfP (J : dimg) : Prop := {
  wp_blk : forall b, block_of sh b <> None -> ist J (OBlock b) <> Stopped;
  wp_seq : forall b q, seq_of sh b q <> None ->
             ist J (OSeq b q) <> Stopped /\ (ist J (OBlock b) = NotStarted -> ist J (OSeq b q) = NotStarted);
  wp_act : forall b q i, in_act b q i ->
             ist J (OAct (ASeq b q i)) <> Stopped
             /\ (ist J (OAct (ASeq b q i)) = NotStarted -> c_n (iget J (OAct (ASeq b q i))) = 0)
             /\ (ist J (OSeq b q) = NotStarted -> ist J (OAct (ASeq b q i)) = NotStarted) }.

Lemma in_act_spec b q i : in_act b q i <-> exists rs, seq_of sh b q = Some rs /\ i < length rs.
Proof.
  unfold in_act. cbn. destruct (seq_of sh b q) as [rs|]; [|split; [discriminate|intros (rs & E & _); discriminate]].
  split.
  - intro H. exists rs. split; [reflexivity|]. destruct (nth_error rs i) eqn:E; [|discriminate].
    eapply nth_error_some_lt; eauto.
  - intros (rs' & E & Hi). injection E as <-. destruct (nth_error rs i) eqn:E; [reflexivity|].
    apply nth_error_None in E. lia.
Qed.

Lemma seq_of_parts b q rs : seq_of sh b q = Some rs -> exists bs, block_of sh b = Some bs /\ nth_error (bs_seqs bs) q = Some rs.
Proof. unfold seq_of. destruct (block_of sh b) as [bs|]; [|discriminate]. eauto. Qed.

Lemma wfP_of_bool J : img_wf0 sh J = true -> wfP J.
Proof.
  intro H. constructor.
  - intros b Hb. destruct (block_of sh b) as [bs|] eqn:Eb; [|contradiction].
    pose proof (wf_block sh J H _ _ Eb) as Hw. unfold block_wf in Hw. apply andb_true_iff in Hw as [Hw _].
    intro Q. rewrite Q in Hw. discriminate.
  - intros b q Hq. destruct (seq_of sh b q) as [rs|] eqn:Es; [|contradiction].
    destruct (seq_of_parts _ _ _ Es) as (bs & Eb & Eq).
    pose proof (wf_seq sh J H _ _ _ _ Eb Eq) as Hw. unfold seq_wf in Hw. apply andb_true_iff in Hw as [Hw _].
    apply andb_true_iff in Hw as [H1 H2]. split.
    + intro Q. rewrite Q in H1. discriminate.
    + intro Q. rewrite Q in H2. simpl in H2. now apply status_eqb_eq.
  - intros b q i Hi. apply in_act_spec in Hi as (rs & Es & Hi). destruct (seq_of_parts _ _ _ Es) as (bs & Eb & Eq).
    pose proof (wf_act sh J H _ _ _ _ i Eb Eq Hi) as Hw. unfold act_wf in Hw. apply andb_true_iff in Hw as [Hw H3].
    apply andb_true_iff in Hw as [H1 H2]. unfold ist in *. split; [|split].
    + intro Q. rewrite Q in H1. discriminate.
    + intro Q. rewrite Q in H2. simpl in H2. now apply Nat.eqb_eq.
    + intro Q. rewrite Q in H3. simpl in H3. unfold fresh_cell in H3. apply andb_true_iff in H3 as [H3 _].
      now apply status_eqb_eq.
Qed.

Lemma negb_eqb_of_neq t u : t <> u -> negb (status_eqb t u) = true.
Proof.
  intro H. destruct (status_eqb t u) eqn:E; [|reflexivity]. apply status_eqb_eq in E. contradiction.
Qed.

Lemma bool_of_wfP J : wfP J -> img_wf0 sh J = true.
Proof.
  intros [Hb Hs Ha]. unfold img_wf0. apply forallb_forall. intros [b bs] Hin. apply in_indexed in Hin. cbn [fst snd].
  assert (Eb : block_of sh b = Some bs) by exact Hin.
  unfold block_wf. apply andb_true_iff. split.
  - apply negb_eqb_of_neq. apply Hb. rewrite Eb. discriminate.
  - apply forallb_forall. intros [q rs] Hq. apply in_indexed in Hq. cbn [fst snd].
    assert (Es : seq_of sh b q = Some rs) by (unfold seq_of; now rewrite Eb).
    destruct (Hs b q) as [S1 S2]; [rewrite Es; discriminate|].
    unfold seq_wf. apply andb_true_iff. split; [apply andb_true_iff; split|].
    + now apply negb_eqb_of_neq.
    + destruct (status_eqb (ist J (OBlock b)) NotStarted) eqn:E; [|reflexivity]. apply status_eqb_eq in E.
      rewrite (S2 E). reflexivity.
    + apply forallb_forall. intros i Hi. apply in_seq in Hi.
      destruct (Ha b q i) as (A1 & A2 & A3); [apply in_act_spec; exists rs; split; [exact Es|lia]|].
      unfold ist in A1, A2, A3. unfold act_wf, fresh_cell. apply andb_true_iff. split; [apply andb_true_iff; split|].
      * now apply negb_eqb_of_neq.
      * destruct (status_eqb (c_st (iget J (OAct (ASeq b q i)))) NotStarted) eqn:E; [|reflexivity].
        apply status_eqb_eq in E. rewrite (A2 E). reflexivity.
      * destruct (status_eqb (ist J (OSeq b q)) NotStarted) eqn:E; [|reflexivity]. apply status_eqb_eq in E.
        pose proof (A3 E) as Q. rewrite Q, (A2 Q). reflexivity.
Qed.

(* ------------------------------------------------------------------ durable image + memory *)
Variable I : dimg.       (* the crash image the recovery started from *)

Record D (J : dimg) (m : memory) : Prop := {
  d_wf : wfP J;
  d_started : forall b, ist I (OBlock b) <> NotStarted -> ist J (OBlock b) <> NotStarted;
  d_mblk : forall b, block_of sh b <> None -> mst m (OBlock b) <> Stopped;
  d_mseq : forall b q, seq_of sh b q <> None ->
             mst m (OSeq b q) <> Stopped /\ (ist J (OBlock b) = NotStarted -> mst m (OSeq b q) = NotStarted);
  d_mact : forall b q i, in_act b q i ->
             mst m (OAct (ASeq b q i)) <> Stopped
             /\ (mst m (OAct (ASeq b q i)) = NotStarted -> c_n (m (OAct (ASeq b q i))) = 0)
             /\ (ist J (OSeq b q) = NotStarted -> mst m (OAct (ASeq b q i)) = NotStarted) }.

Lemma eqb_same o : obj_eqb o o = true.
Proof. now apply obj_eqb_eq. Qed.

Lemma st_dec (t : status) : t = NotStarted \/ t <> NotStarted.
Proof. destruct t; [now left|right; discriminate..]. Qed.

(* one write of cell c to object o, into the durable image and (if it is not already there) into memory *)
Lemma D_write J m J' m' o c :
  D J m ->
  (forall o', iget J' o' = if obj_eqb o o' then c else iget J o') ->
  (forall o', m' o' = if obj_eqb o o' then c else m o') ->
  (seqlevel_obj o = true -> c_st c <> Stopped) ->
  (c_st c = NotStarted -> ist J o = NotStarted) ->
  (forall b q i, o = OAct (ASeq b q i) -> c_st c = NotStarted -> c_n c = 0) ->
  (forall b q, o = OSeq b q -> c_st c <> NotStarted -> ist J (OBlock b) <> NotStarted) ->
  (forall b q i, o = OAct (ASeq b q i) -> c_st c <> NotStarted -> ist J (OSeq b q) <> NotStarted) ->
  D J' m'.
Proof.
  intros [[Wb Ws Wa] Dst Mb Ms Ma] HJ Hm Hstop Hns Hn0 Hseq Hact.
  assert (Hs : forall o', ist J' o' = if obj_eqb o o' then c_st c else ist J o').
  { intro o'. unfold ist. rewrite HJ. now destruct (obj_eqb o o'). }
  assert (Hms : forall o', mst m' o' = if obj_eqb o o' then c_st c else mst m o').
  { intro o'. unfold mst. rewrite Hm. now destruct (obj_eqb o o'). }
  constructor; [constructor|..].
  - (* wp_blk *)
    intros b Hb. rewrite Hs. destruct (obj_eqb o (OBlock b)) eqn:E; [|now apply Wb].
    apply obj_eqb_eq in E. subst o. now apply Hstop.
  - (* wp_seq *)
    intros b q Hq. destruct (Ws b q Hq) as [S1 S2]. rewrite !Hs.
    destruct (obj_eqb o (OSeq b q)) eqn:E1; destruct (obj_eqb o (OBlock b)) eqn:E2.
    + apply obj_eqb_eq in E1, E2. congruence.
    + apply obj_eqb_eq in E1. split; [apply Hstop; subst o; reflexivity|]. intro Hb.
      destruct (st_dec (c_st c)) as [Q|Q]; [exact Q|]. exfalso. exact (Hseq b q E1 Q Hb).
    + apply obj_eqb_eq in E2. split; [exact S1|]. intro Hc. apply S2. subst o. now apply Hns.
    + split; assumption.
  - (* wp_act *)
    intros b q i Hi. destruct (Wa b q i Hi) as (A1 & A2 & A3). rewrite !Hs. rewrite HJ.
    destruct (obj_eqb o (OAct (ASeq b q i))) eqn:E1; destruct (obj_eqb o (OSeq b q)) eqn:E2.
    + apply obj_eqb_eq in E1, E2. congruence.
    + apply obj_eqb_eq in E1. split; [apply Hstop; subst o; reflexivity|]. split; [now apply (Hn0 _ _ _ E1)|].
      intro Hq. destruct (st_dec (c_st c)) as [Q|Q]; [exact Q|]. exfalso. exact (Hact b q i E1 Q Hq).
    + apply obj_eqb_eq in E2. split; [exact A1|]. split; [exact A2|]. intro Hc. apply A3. subst o. now apply Hns.
    + auto.
  - (* d_started *)
    intros b Hb. rewrite Hs. destruct (obj_eqb o (OBlock b)) eqn:E; [|now apply Dst].
    apply obj_eqb_eq in E. intro Hc. apply (Dst b Hb). subst o. now apply Hns.
  - (* d_mblk *)
    intros b Hb. rewrite Hms. destruct (obj_eqb o (OBlock b)) eqn:E; [|now apply Mb].
    apply obj_eqb_eq in E. subst o. now apply Hstop.
  - (* d_mseq *)
    intros b q Hq. destruct (Ms b q Hq) as [S1 S2]. rewrite Hms, Hs.
    destruct (obj_eqb o (OSeq b q)) eqn:E1; destruct (obj_eqb o (OBlock b)) eqn:E2.
    + apply obj_eqb_eq in E1, E2. congruence.
    + apply obj_eqb_eq in E1. split; [apply Hstop; subst o; reflexivity|]. intro Hb.
      destruct (st_dec (c_st c)) as [Q|Q]; [exact Q|]. exfalso. exact (Hseq b q E1 Q Hb).
    + apply obj_eqb_eq in E2. split; [exact S1|]. intro Hc. apply S2. subst o. now apply Hns.
    + split; assumption.
  - (* d_mact *)
    intros b q i Hi. destruct (Ma b q i Hi) as (A1 & A2 & A3). rewrite Hms, Hs, Hm.
    destruct (obj_eqb o (OAct (ASeq b q i))) eqn:E1; destruct (obj_eqb o (OSeq b q)) eqn:E2.
    + apply obj_eqb_eq in E1, E2. congruence.
    + apply obj_eqb_eq in E1. split; [apply Hstop; subst o; reflexivity|]. split; [now apply (Hn0 _ _ _ E1)|].
      intro Hq. destruct (st_dec (c_st c)) as [Q|Q]; [exact Q|]. exfalso. exact (Hact b q i E1 Q Hq).
    + apply obj_eqb_eq in E2. split; [exact A1|]. split; [exact A2|]. intro Hc. apply A3. subst o. now apply Hns.
    + auto.
Qed.

(* memory alone changes (the repair is finished: plan and block statuses), blocks stay un-Stopped *)
Lemma D_mem J m m' :
  D J m ->
  (forall b, block_of sh b <> None -> mst m' (OBlock b) <> Stopped) ->
  (forall b q, m' (OSeq b q) = m (OSeq b q)) ->
  (forall a, m' (OAct a) = m (OAct a)) ->
  D J m'.
Proof.
  intros [W Dst Mb Ms Ma] Hb Hs Ha. constructor; auto.
  - intros b q Hq. unfold mst. rewrite Hs. now apply Ms.
  - intros b q i Hi. unfold mst. rewrite Ha. now apply Ma.
Qed.
End ImgInv.
