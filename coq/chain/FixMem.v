(* FixMem - what the in-memory image of a resumed run looks like right after the crash repair, object by object:
   the cell of a sequence (of a sequence action) is the cell of the sequence as the crash image shows it, as fixSeq
   leaves it, or as fixSeq + the execution of the resumed sequences leave it.  In all three cases: nothing is
   Stopped, a NotStarted action has no attempt, and a sequence that is not Running in the crash image is untouched
   together with its actions.  Derived from the transcription Fix.v of recovery.go and the lemmas of coq/recover.
   Proofs only. *)
From Coq Require Import Lia.
From Coercion.Base Require Import Plan.
From Coercion.Engine Require Import Shape Event Action ChecksRun Seq Block Final PlanSM Auto Accept AutoLemmas.
From Coercion.Recover Require Fix FixSpec FixProofs.
From Coercion.Resume Require Import Resume ResumeLemmas Frame NoReexec ImgWf RepairSound.
From Coercion.Resume Require FixFacts.

(* ------------------------------------------------------------------ level of Fix.v *)
Definition act_good (a : F.act) : Prop :=
  F.ac_st a <> Stopped /\ (F.ac_st a = NotStarted -> F.ac_atts a = []).
Definition seq_good (s : F.seq) : Prop := F.sq_st s <> Stopped /\ Forall act_good (F.sq_acts s).

Lemma fix_action_good a : act_good a -> act_good (F.fix_action a).
Proof.
  intros [H1 H2]. unfold F.fix_action. destruct (negb (status_eqb (F.ac_st a) Running)); [split; assumption|].
  destruct (F.strip_open (rev (F.ac_atts a))) as [|x r']; simpl.
  - split; [discriminate|reflexivity].
  - split; destruct (F.x_err x); discriminate.
Qed.

Lemma good_not_stopped l : Forall act_good l -> Forall (fun a => F.ac_st a <> Stopped) l.
Proof. intro H. eapply Forall_impl; [|exact H]. intros a [Ha _]. exact Ha. Qed.

Lemma map_fix_good l : Forall act_good l -> Forall act_good (map F.fix_action l).
Proof. intro H. apply Forall_map. eapply Forall_impl; [|exact H]. apply fix_action_good. Qed.

Lemma fix_seq_good s : seq_good s -> seq_good (F.fix_seq s).
Proof.
  intros [H1 H2]. split; [apply FF.fix_seq_not_stopped; [exact H1|now apply good_not_stopped]|].
  unfold F.fix_seq. destruct (negb (status_eqb (F.sq_st s) Running)); [exact H2|].
  rewrite (FF.count_zero_of_forall F.ac_st Stopped (F.sq_acts s)) by (now apply good_not_stopped). simpl.
  pose proof (map_fix_good _ H2) as G.
  repeat match goal with |- context [if ?c then _ else _] => destruct c end; exact G.
Qed.

Lemma forall_nth {A} (P : A -> Prop) l : (forall k x, nth_error l k = Some x -> P x) -> Forall P l.
Proof.
  intro H. apply Forall_forall. intros x Hx. apply In_nth_error in Hx as [k Hk]. eauto.
Qed.

Lemma run_good fl s : FS.resumable s -> seq_good s -> seq_good (oracle fl s).
Proof.
  intros Hr [H1 H2]. destruct (oracle_contract fl s Hr) as (f & Hran & Hst). split.
  - rewrite Hst. destruct f; discriminate.
  - apply forall_nth. intros k a' Hk. destruct (FP.ran_each _ _ _ Hran k a' Hk) as [Hu|(a & _ & _ & Hc)].
    + rewrite Forall_forall in H2. apply H2. eapply nth_error_In; eauto.
    + split; destruct Hc as [E|E]; rewrite E; discriminate.
Qed.

Lemma final_seq_good fl s : seq_good s -> seq_good (FP.final_seq (oracle fl) s).
Proof.
  intro H. unfold FP.final_seq, F.resume_seq. pose proof (fix_seq_good s H) as G.
  destruct (status_eqb (F.sq_st (F.fix_seq s)) Running) eqn:E; [|exact G].
  apply status_eqb_eq in E. apply run_good; [now apply FP.fix_seq_resumable|exact G].
Qed.

(* the three things the repaired memory can hold for a sequence s of the crash image *)
Definition alt (s s' : F.seq) : Prop := s' = s \/ s' = F.fix_seq s \/ exists fl, s' = FP.final_seq (oracle fl) s.

Lemma alt_good s s' : seq_good s -> alt s s' -> seq_good s'.
Proof.
  intros H [->|[->|[fl ->]]]; [exact H|now apply fix_seq_good|now apply final_seq_good].
Qed.

Lemma alt_other s s' : F.sq_st s <> Running -> alt s s' -> s' = s.
Proof.
  intros H [->|[->|[fl ->]]]; [reflexivity|now apply FP.fix_seq_other|now apply FP.final_seq_other].
Qed.

Lemma alt_length s s' : alt s s' -> length (F.sq_acts s') = length (F.sq_acts s).
Proof.
  intros [->|[->|[fl ->]]]; [reflexivity|apply FP.fix_seq_length|apply FP.final_seq_length, oracle_contract].
Qed.

(* every block of the repaired plan is the block of the crash image or what fixBlock makes of it *)
Lemma fixed_blk_cases fl p b blk :
  FS.get_blk p b = Some blk ->
  FS.get_blk (F.fp_pln (fixed fl p)) b = Some blk
  \/ FS.get_blk (F.fp_pln (fixed fl p)) b = Some (F.fb_blk (F.fix_block (oracle fl) blk)).
Proof.
  unfold FS.get_blk, fixed. intro H. destruct (FP.fix_plan_blocks (oracle fl) p) as [E|E]; rewrite E; [now left|].
  apply FP.fix_blocks_nth. exact H.
Qed.

Lemma fixed_seq_cases fl p b q s :
  FS.get_seq p b q = Some s ->
  exists s', FS.get_seq (F.fp_pln (fixed fl p)) b q = Some s' /\ (s' = s \/ s' = FP.final_seq (oracle fl) s).
Proof.
  unfold FS.get_seq. destruct (FS.get_blk p b) as [blk|] eqn:Hb; [|discriminate]. intro Hs.
  destruct (fixed_blk_cases fl p b blk Hb) as [E|E]; rewrite E.
  - exists s. auto.
  - destruct (FP.fix_block_seqs (oracle fl) (oracle_contract fl) blk) as [(_ & Q & _)|(_ & _ & Q & _)]; rewrite Q.
    + exists s. auto.
    + exists (FP.final_seq (oracle fl) s). split; [|now right]. now rewrite nth_error_map, Hs.
Qed.

(* ------------------------------------------------------------------ level of cells *)
Lemma ifind_in l o c : ifind l o = Some c -> In (o, c) l.
Proof.
  induction l as [|[o' c'] l IH]; simpl; [discriminate|]. destruct (obj_eqb o' o) eqn:E.
  - intro H. injection H as ->. apply obj_eqb_eq in E. subst. now left.
  - intro H. right. now apply IH.
Qed.

Lemma in_indexed {A} (l : list A) i x : In (i, x) (indexed l) -> nth_error l i = Some x.
Proof.
  intro H. apply In_nth_error in H as [n Hn]. rewrite nth_indexed in Hn.
  destruct (nth_error l n) eqn:E; [|discriminate]. simpl in Hn. injection Hn as <- <-. exact E.
Qed.

Lemma seq_objs_in b q s o c :
  In (o, c) (seq_objs_of b q s) ->
  (o = OSeq b q /\ c = st_cell (F.sq_st s))
  \/ exists i a, o = OAct (ASeq b q i) /\ nth_error (F.sq_acts s) i = Some a /\ c = act_cell a.
Proof.
  unfold seq_objs_of. intros [H|H].
  - injection H as <- <-. now left.
  - right. apply in_map_iff in H as ([i a] & E & Hin). injection E as <- <-. apply in_indexed in Hin. eauto.
Qed.

Lemma mem0_in p o c :
  In (o, c) (mem0 p) -> exists b q s0, FS.get_seq p b q = Some s0 /\ In (o, c) (seq_objs_of b q (F.fix_seq s0)).
Proof.
  unfold mem0. intro H. apply in_flat_map in H as ([b q] & _ & H). cbn [fst snd] in H.
  unfold resumed_seq in H. destruct (FS.get_seq p b q) as [s0|] eqn:E; [|contradiction]. simpl in H. eauto.
Qed.

Lemma length_atts_of n ok : length (atts_of n ok) = n.
Proof. destruct n; simpl; [reflexivity|]. rewrite app_length, repeat_length. simpl. lia. Qed.

Section Cells.
Variable sh : shape.
Variable I : dimg.
Hypothesis Hwf : img_wf0 sh I = true.
Let p := pln_of sh I.

Definition m0 : memory := over (mem0 p) (base0 p).

Section OneSeq.
Variables (b q : nat) (bs : bshape) (rs : list nat).
Hypothesis Hb : block_of sh b = Some bs.
Hypothesis Hq : nth_error (bs_seqs bs) q = Some rs.
Let s := seq_of_img sh I b q rs.

Lemma get_seq_s : FS.get_seq p b q = Some s.
Proof. unfold p. rewrite (get_seq_of sh I b q bs Hb), Hq. reflexivity. Qed.

Lemma img_seq_good : seq_good s.
Proof.
  pose proof (wf_seq sh I Hwf _ _ _ _ Hb Hq) as Hw. unfold seq_wf in Hw.
  apply andb_true_iff in Hw as [Hw _]. apply andb_true_iff in Hw as [Hw _]. split.
  - unfold s. rewrite seq_img_st. intro E. rewrite E in Hw. discriminate.
  - unfold s, seq_of_img. simpl. apply Forall_map. apply Forall_forall. intros i Hi. apply in_seq in Hi.
    pose proof (wf_act sh I Hwf _ _ _ _ i Hb Hq ltac:(lia)) as Ha. unfold act_wf in Ha.
    apply andb_true_iff in Ha as [Ha _]. apply andb_true_iff in Ha as [Ha1 Ha2]. split.
    + rewrite act_of_st. intro E. rewrite E in Ha1. discriminate.
    + rewrite act_of_st, act_of_atts. intro E. rewrite E in Ha2. simpl in Ha2. apply Nat.eqb_eq in Ha2.
      rewrite Ha2. reflexivity.
Qed.

Lemma m0_seq : exists s', alt s s' /\ m0 (OSeq b q) = st_cell (F.sq_st s').
Proof.
  unfold m0, over. destruct (ifind (mem0 p) (OSeq b q)) as [c|] eqn:E.
  - apply ifind_in, mem0_in in E as (b' & q' & s0 & Hg & Hin).
    destruct (seq_objs_in _ _ _ _ _ Hin) as [[Eo ->]|(i & a & Eo & _)]; [|discriminate].
    injection Eo as <- <-. rewrite get_seq_s in Hg. injection Hg as <-.
    exists (F.fix_seq s). split; [right; now left|reflexivity].
  - unfold base0, pl_cell. destruct (fixed_seq_cases [] p b q s get_seq_s) as (s' & -> & Hs').
    exists s'. split; [|reflexivity]. destruct Hs' as [-> | ->]; [now left|right; right; eauto].
Qed.

Lemma m0_act i : i < length rs ->
  exists s' a', alt s s' /\ nth_error (F.sq_acts s') i = Some a' /\ m0 (OAct (ASeq b q i)) = act_cell a'.
Proof.
  intro Hi. unfold m0, over. destruct (ifind (mem0 p) (OAct (ASeq b q i))) as [c|] eqn:E.
  - apply ifind_in, mem0_in in E as (b' & q' & s0 & Hg & Hin).
    destruct (seq_objs_in _ _ _ _ _ Hin) as [[Eo _]|(i' & a & Eo & Hn & ->)]; [discriminate|].
    injection Eo as <- <- <-. rewrite get_seq_s in Hg. injection Hg as <-.
    exists (F.fix_seq s), a. split; [right; now left|auto].
  - unfold base0, pl_cell, FS.get_act. destruct (fixed_seq_cases [] p b q s get_seq_s) as (s' & -> & Hs').
    assert (Ha : alt s s') by (destruct Hs' as [-> | ->]; [now left|right; right; eauto]).
    assert (Hl : i < length (F.sq_acts s')).
    { rewrite (alt_length _ _ Ha). unfold s. now rewrite seq_img_acts_len. }
    destruct (nth_error (F.sq_acts s') i) as [a'|] eqn:En; [|apply nth_error_None in En; lia].
    exists s', a'. auto.
Qed.

(* the facts the invariant of the resumed run needs *)
Lemma m0_seq_facts :
  mst m0 (OSeq b q) <> Stopped /\ (ist I (OSeq b q) <> Running -> mst m0 (OSeq b q) = ist I (OSeq b q)).
Proof.
  destruct m0_seq as (s' & Ha & E). unfold mst. rewrite E. simpl. split.
  - exact (proj1 (alt_good _ _ img_seq_good Ha)).
  - intro Hn. rewrite (alt_other s s'); [reflexivity| |exact Ha]. exact Hn.
Qed.

Lemma m0_act_facts i : i < length rs ->
  mst m0 (OAct (ASeq b q i)) <> Stopped
  /\ (mst m0 (OAct (ASeq b q i)) = NotStarted -> c_n (m0 (OAct (ASeq b q i))) = 0)
  /\ (ist I (OSeq b q) <> Running -> mst m0 (OAct (ASeq b q i)) = c_st (iget I (OAct (ASeq b q i)))).
Proof.
  intro Hi. destruct (m0_act i Hi) as (s' & a' & Ha & Hn & E). unfold mst. rewrite E. simpl.
  pose proof (alt_good _ _ img_seq_good Ha) as [_ G]. rewrite Forall_forall in G.
  destruct (G a' (nth_error_In _ _ Hn)) as [G1 G2]. split; [exact G1|]. split.
  - intro Hs. now rewrite (G2 Hs).
  - intro Hnr. rewrite (alt_other s s' Hnr Ha) in Hn. unfold s in Hn. rewrite seq_img_acts_nth in Hn.
    apply Nat.ltb_lt in Hi. rewrite Hi in Hn. injection Hn as <-. apply act_of_st.
Qed.
End OneSeq.

(* a block never comes back Stopped from the repair, whatever the resumed sequences did *)
Lemma fixed_block_not_stopped fl b : block_of sh b <> None -> blk_st sh I fl b <> Stopped.
Proof.
  intro Hb. destruct (block_of sh b) as [bs|] eqn:Eb; [|contradiction]. unfold blk_st, pl_cell.
  assert (Hg : FS.get_blk (pln_of sh I) b = Some (blk_of sh I b bs)) by (rewrite get_blk_of, Eb; reflexivity).
  destruct (fixed_blk_cases fl _ _ _ Hg) as [E|E]; rewrite E; simpl.
  - pose proof (wf_block sh I Hwf _ _ Eb) as Hw. unfold block_wf in Hw. apply andb_true_iff in Hw as [Hw _].
    intro Q. rewrite Q in Hw. discriminate.
  - now apply img_block_not_stopped.
Qed.
End Cells.
