(* C09 - After a crash, durably finished work is never executed again: ANY NUMBER OF CRASHES, no premise left.

   coq/resume/props/C09.v proves the property for one recovery from a well-formed crash image (ImgWf.img_wf0) and the
   chain of crashes under the hypothesis that every crash image along the chain is well-formed; coq/imgwf/props/C09.v
   discharges the hypothesis for the image left by the UNINTERRUPTED run (an invariant of coq/engine's automaton).
   Here the hypothesis is discharged for the images left by crashed RECOVERIES (third and later process): an invariant
   of the RESUMED automaton (ResumedInv.K: NoReexec.Inv + the hierarchy of the durable image against memory and the
   block / sequence sub-automata), for every deviation flag set - the flags R2/R3/R5/R6 only enter the release guard,
   none of them can make a recovery write an ill-formed image.  No shape_wf, no bound on shapes, traces, crash
   points, number of crashes. *)
From Coercion.Base Require Import Plan.
From Coercion.Engine Require Import Shape Event PlanSM Auto Accept.
From Coercion.Resume Require Import Resume MonRecover ImgWf C09Proofs.
From Coercion.Chain Require Import ChainProofs Examples.

(* every durable image a recovery writes, from any well-formed image, is well-formed - until the terminal plan write *)
Theorem c09_resumed_images_wellformed :
  forall (d : devs) (sh : shape) (I : dimg) (rs : reason) (r0 : rst) (tr : list event) (r : rst),
    img_wf0 sh I = true ->
    rinit sh I rs = Some r0 ->
    rrun d sh r0 tr = Some r ->
    is_terminal (ist (s_img (r_s r)) OPlan) = false ->
    img_wf0 sh (s_img (r_s r)) = true.
Proof. exact resumed_images_wf. Qed.
Print Assumptions c09_resumed_images_wellformed.

(* ... hence every crash image of the recovery (the image after the first k writes of its trace, any k) on which the
   plan is not terminal - in particular every image from which a further recovery resumes (plan Running) *)
Theorem c09_resumed_crash_images_wellformed :
  forall (d : devs) (sh : shape) (I : dimg) (rs : reason) (r0 : rst) (tr : list event) (r : rst) (k : nat),
    img_wf0 sh I = true ->
    rinit sh I rs = Some r0 ->
    rrun d sh r0 tr = Some r ->
    is_terminal (ist (fst (crash_from I rs tr k)) OPlan) = false ->
    img_wf0 sh (fst (crash_from I rs tr k)) = true.
Proof. exact resumed_crash_images_wf. Qed.
Print Assumptions c09_resumed_crash_images_wellformed.

(* the premise about the plan cannot be dropped: after the terminal plan write End's writeEverything writes the
   repaired memory top-down, a sequence reset to NotStarted before its action; a crash in between leaves an image that
   is not well-formed - with a terminal plan, which no process resumes (c09_finished_plan_runs_nothing) *)
Theorem c09_wellformedness_ends_with_the_plan :
  exists (sh : shape) (tr1 : list event) (s1 : st) (k : nat) (tr2 : list event) (k2 : nat),
    run sh init tr1 = Some s1 /\
    chain_accepted dev_none sh (fst (crash_image sh tr1 k)) (snd (crash_image sh tr1 k)) [(tr2, k2)] /\
    let c2 := crash_from (fst (crash_image sh tr1 k)) (snd (crash_image sh tr1 k)) tr2 k2 in
    is_terminal (ist (fst c2) OPlan) = true /\ img_wf0 sh (fst c2) = false.
Proof. exact premise_needed. Qed.
Print Assumptions c09_wellformedness_ends_with_the_plan.

(* c09_crash_chain_unconditional.  Process 1 is an uninterrupted run that crashes after k writes of tr1; every process
   of [steps] = (trace, number of its writes that became durable) restarts on the image its predecessor left
   (Resume.crash_from) and is accepted by the resumed automaton (C09Proofs.chain_accepted), under any deviation flags.
   Then every EvStart of every process is of work that the image THAT process restarted on shows unfinished
   (C09Proofs.chain_noreexec: plan Running, block and sequence not finished, action not finished and without a
   durable attempt).  No hypothesis on any image. *)
Theorem c09_crash_chain_unconditional :
  forall (d : devs) (sh : shape) (tr1 : list event) (s1 : st) (k : nat) (steps : list (list event * nat)),
    run sh init tr1 = Some s1 ->
    let ci := crash_image sh tr1 k in
    chain_accepted d sh (fst ci) (snd ci) steps ->
    chain_noreexec sh (fst ci) (snd ci) steps.
Proof. exact chain_unconditional. Qed.
Print Assumptions c09_crash_chain_unconditional.

(* the same from ANY image that is well-formed if its plan is Running (e.g. a store written by other means) *)
Theorem c09_crash_chain_from_wellformed :
  forall (d : devs) (sh : shape) (steps : list (list event * nat)) (im : dimg) (rs : reason),
    (ist im OPlan = Running -> img_wf0 sh im = true) ->
    chain_accepted d sh im rs steps ->
    chain_noreexec sh im rs steps.
Proof. exact chain_from_wf. Qed.
Print Assumptions c09_crash_chain_from_wellformed.
