(* Examples (all by vm_compute): the chain theorem applies, non-vacuously, to a three-process chain in which the second
   process (a recovery) invokes a plugin and crashes, and the premise "the plan has not been written terminal" of
   resumed_images_wf cannot be dropped (End's writeEverything writes the repaired memory top-down). *)
From Coercion.Base Require Import Plan.
From Coercion.Engine Require Import Shape Event Action ChecksRun Seq Block Final PlanSM Auto Accept.
From Coercion.Resume Require Import Resume MonRecover ImgWf C09Proofs.
From Coercion.Chain Require Import ChainProofs.
Import ListNotations.

(* a boolean form of C09Proofs.chain_accepted (vm_compute on the Prop form would have to build states) *)
Fixpoint chain_accb (d : devs) (sh : shape) (im : dimg) (rs : reason) (steps : list (list event * nat)) : bool :=
  match steps with
  | [] => true
  | (tr, k) :: rest =>
      match rinit sh im rs with
      | Some r0 => match rrun d sh r0 tr with
                   | Some _ => chain_accb d sh (fst (crash_from im rs tr k)) (snd (crash_from im rs tr k)) rest
                   | None => false end
      | None => false
      end
  end.

Lemma chain_accb_sound d sh steps : forall im rs, chain_accb d sh im rs steps = true -> chain_accepted d sh im rs steps.
Proof.
  induction steps as [|[tr k] rest IH]; intros im rs H; simpl in *; [exact Logic.I|].
  destruct (rinit sh im rs) as [r0|] eqn:Hi; [|discriminate]. destruct (rrun d sh r0 tr) as [r|] eqn:Hr; [|discriminate].
  split; [eauto|]. now apply IH.
Qed.

Definition w (o : obj) (t : status) (n : nat) (ok : bool) : event := EvWrite o t n ok FRUnknown.

(* ---- 1. three processes: one block, one sequence of two actions ---- *)
Definition sh6 : shape :=
  {| sh_groups := no_groups;
     sh_blocks := [ {| bs_groups := no_groups; bs_seqs := [[0; 0]]; bs_conc := 1; bs_tol := 0%Z |} ] |}.
Definition a00 := ASeq 0 0 0.
Definition a01 := ASeq 0 0 1.
(* process 1 (uninterrupted run): the first action completes, the second is marked Running; crash *)
Definition p1 : list event :=
  [ w OPlan Running 0 false; w (OBlock 0) Running 0 false; w (OSeq 0 0) Running 0 false;
    w (OAct a00) Running 0 false; EvStart a00; EvEnd a00 OOk; w (OAct a00) Running 1 true; w (OAct a00) Completed 1 true;
    w (OAct a01) Running 0 false ].
(* process 2 (recovery): fixBlock resumes the sequence at its second action, the plugin answers, the attempt is
   recorded; crash before the action is written Completed *)
Definition p2 : list event :=
  [ w (OSeq 0 0) Running 0 false; w (OAct a01) Running 0 false; EvStart a01; EvEnd a01 OOk; w (OAct a01) Running 1 true;
    w (OAct a01) Completed 1 true ].
(* process 3 (recovery of the recovery): the repair finds the recorded successful attempt; nothing runs *)
Definition p3 : list event :=
  [ w (OAct a01) Completed 1 true; w (OSeq 0 0) Completed 0 false; w (OBlock 0) Completed 0 false;
    w OPlan Completed 0 false ].
Definition L1 := crash_image sh6 p1 7.
Definition L2 := crash_from (fst L1) (snd L1) p2 3.

Example process1_accepted : exists s, run sh6 init p1 = Some s. Proof. vm_compute. eauto. Qed.
Example chain_is_accepted : chain_accb dev_none sh6 (fst L1) (snd L1) [(p2, 3); (p3, 4)] = true.
Proof. vm_compute. reflexivity. Qed.
(* the image the crashed recovery leaves: plan Running, the second action (Running, 1 attempt, ok) - well-formed *)
Example middle_image :
  ist (fst L2) OPlan = Running /\ iget (fst L2) (OAct a01) = {| c_st := Running; c_n := 1; c_ok := true |}
  /\ img_wf0 sh6 (fst L2) = true.
Proof. vm_compute. auto. Qed.
(* the unconditional chain theorem, instantiated *)
Example chain_noreexec_instance : chain_noreexec sh6 (fst L1) (snd L1) [(p2, 3); (p3, 4)].
Proof.
  destruct process1_accepted as [s1 H1]. apply (chain_unconditional dev_none sh6 p1 s1 7 _ H1).
  apply chain_accb_sound. exact chain_is_accepted.
Qed.
(* teeth: the third process may not invoke the second action again - with any flags *)
Example process3_may_not_rerun :
  chain_accb dev_all sh6 (fst L2) (snd L2) [([w (OAct a01) Running 0 false], 0)] = false
  /\ chain_accb dev_all sh6 (fst L2) (snd L2) [([EvStart a01], 0)] = false.
Proof. vm_compute. auto. Qed.

(* ---- 2. after the terminal plan write the image may be ill-formed (and it does not matter: a plan that is not
        Running is not resumed).  Two sequences run concurrently; the first fails, the second has its action marked;
        crash.  The recovery resets the second sequence and its action to NotStarted in memory, fails the block and
        the plan (tolerance 0), and End's writeEverything writes memory top-down: sequence before action. ---- *)
Definition sh5 : shape :=
  {| sh_groups := no_groups;
     sh_blocks := [ {| bs_groups := no_groups; bs_seqs := [[0]; [0]]; bs_conc := 2; bs_tol := 0%Z |} ] |}.
Definition a10 := ASeq 0 1 0.
Definition t1 : list event :=
  [ w OPlan Running 0 false; w (OBlock 0) Running 0 false; w (OSeq 0 0) Running 0 false; w (OSeq 0 1) Running 0 false;
    w (OAct a00) Running 0 false; w (OAct a10) Running 0 false; EvStart a00; EvEnd a00 OErr;
    w (OAct a00) Running 1 false; w (OAct a00) Failed 1 false; w (OSeq 0 0) Failed 0 false ].
Definition t2 : list event :=
  [ w (OBlock 0) Failed 0 false; EvWrite OPlan Failed 0 false FRBlock; w (OSeq 0 1) NotStarted 0 false ].
Definition K1 := crash_image sh5 t1 9.
Definition K2 := crash_from (fst K1) (snd K1) t2 3.

Example t1_accepted : exists s, run sh5 init t1 = Some s. Proof. vm_compute. eauto. Qed.
Example t2_accepted : chain_accb dev_none sh5 (fst K1) (snd K1) [(t2, 3)] = true. Proof. vm_compute. reflexivity. Qed.
Example terminal_plan_premise_needed :
  ist (fst K2) OPlan = Failed /\ ist (fst K2) (OSeq 0 1) = NotStarted /\ ist (fst K2) (OAct a10) = Running
  /\ img_wf0 sh5 (fst K2) = false.
Proof. vm_compute. auto. Qed.
(* the same write BEFORE the terminal plan write is rejected (Resume.flush) *)
Example not_before_the_terminal_write :
  chain_accb dev_all sh5 (fst K1) (snd K1) [([w (OBlock 0) Failed 0 false; w (OSeq 0 1) NotStarted 0 false], 0)] = false.
Proof. vm_compute. reflexivity. Qed.

Lemma premise_needed :
  exists (sh : shape) (tr1 : list event) (s1 : st) (k : nat) (tr2 : list event) (k2 : nat),
    run sh init tr1 = Some s1 /\
    chain_accepted dev_none sh (fst (crash_image sh tr1 k)) (snd (crash_image sh tr1 k)) [(tr2, k2)] /\
    let c2 := crash_from (fst (crash_image sh tr1 k)) (snd (crash_image sh tr1 k)) tr2 k2 in
    is_terminal (ist (fst c2) OPlan) = true /\ img_wf0 sh (fst c2) = false.
Proof.
  destruct t1_accepted as [s1 H1]. exists sh5, t1, s1, 9, t2, 3. split; [exact H1|]. split.
  - apply chain_accb_sound. exact t2_accepted.
  - vm_compute. auto.
Qed.
