(* More facts about the transcription Fix.v of recovery.go, as RepairSound.v needs them.  Proofs only. *)
From Coq Require Import Lia.
From Coercion.Base Require Import Plan.
From Coercion.Recover Require Import Fix FixSpec FixProofs.

Lemma count_zero_of_forall {A} (st : A -> status) t l : Forall (fun x => st x <> t) l -> count_st st t l = 0.
Proof.
  unfold count_st. induction 1 as [|x l Hx _ IH]; simpl; [reflexivity|].
  now rewrite (status_eqb_neq _ _ Hx).
Qed.

Lemma count_pos_exists {A} (st : A -> status) t l : count_st st t l <> 0 -> exists x, In x l /\ st x = t.
Proof.
  unfold count_st. induction l as [|x l IH]; simpl; [contradiction|].
  destruct (status_eqb (st x) t) eqn:E; simpl; intro H.
  - exists x. split; [left; reflexivity|now apply status_eqb_eq].
  - destruct (IH H) as (y & Hy & Ey). exists y. split; [right; exact Hy|exact Ey].
Qed.

(* ---- fixSeq ---- *)
Lemma fix_seq_not_stopped s :
  sq_st s <> Stopped -> Forall (fun a => ac_st a <> Stopped) (sq_acts s) -> sq_st (fix_seq s) <> Stopped.
Proof.
  intros Hs Ha. unfold fix_seq. destruct (status_eqb (sq_st s) Running) eqn:Er; simpl; [|exact Hs].
  rewrite (count_zero_of_forall _ _ _ Ha). simpl.
  assert (H0 : count_st ac_st Stopped (map fix_action (sq_acts s)) = 0).
  { apply count_zero_of_forall. apply Forall_map. eapply Forall_impl; [|exact Ha]. intros a. apply fix_action_not_stopped. }
  rewrite H0. simpl.
  destruct (Nat.ltb 0 (count_st ac_st Failed (map fix_action (sq_acts s)))); simpl; [discriminate|].
  destruct (Nat.eqb (count_st ac_st Completed (map fix_action (sq_acts s))) 0 && Nat.eqb (count_st ac_st Running (map fix_action (sq_acts s))) 0);
    simpl; [discriminate|].
  destruct (Nat.eqb (count_st ac_st Completed (map fix_action (sq_acts s))) (length (map fix_action (sq_acts s)))); simpl; [discriminate|].
  apply status_eqb_eq in Er. rewrite Er. discriminate.
Qed.

(* a Running sequence that fixSeq turns back into NotStarted: every action is NotStarted after fixAction *)
Lemma fix_seq_notstarted_acts s :
  sq_st s = Running -> Forall (fun a => ac_st a <> Stopped) (sq_acts s) -> sq_st (fix_seq s) = NotStarted ->
  Forall (fun a => ac_st (fix_action a) = NotStarted) (sq_acts s).
Proof.
  intros Hr Ha. unfold fix_seq. rewrite Hr. simpl.
  rewrite (count_zero_of_forall _ _ _ Ha). simpl.
  set (acts := map fix_action (sq_acts s)).
  assert (H0 : count_st ac_st Stopped acts = 0).
  { apply count_zero_of_forall. apply Forall_map. eapply Forall_impl; [|exact Ha]. intros a. apply fix_action_not_stopped. }
  rewrite H0. simpl.
  destruct (Nat.ltb 0 (count_st ac_st Failed acts)) eqn:Ef; simpl; [discriminate|].
  destruct (Nat.eqb (count_st ac_st Completed acts) 0 && Nat.eqb (count_st ac_st Running acts) 0) eqn:Ec; simpl.
  - intros _. apply andb_true_iff in Ec as [Ec1 Ec2]. apply Nat.eqb_eq in Ec1, Ec2. apply ltb0_false in Ef.
    pose proof (count_st_zero _ _ _ Ec1) as F1. pose proof (count_st_zero _ _ _ Ec2) as F2.
    pose proof (count_st_zero _ _ _ Ef) as F3. pose proof (count_st_zero _ _ _ H0) as F4.
    unfold acts in *. rewrite Forall_map in F1, F2, F3, F4. rewrite Forall_forall in *.
    intros a Hin. specialize (F1 a Hin). specialize (F2 a Hin). specialize (F3 a Hin). specialize (F4 a Hin).
    destruct (ac_st (fix_action a)); try reflexivity; contradiction.
  - destruct (Nat.eqb (count_st ac_st Completed acts) (length acts)); simpl; discriminate.
Qed.

(* ---- fixBlock ---- *)
Lemma fix_block_not_stopped run_seq b :
  bk_st b <> Stopped -> Forall (fun s => sq_st (fix_seq s) <> Stopped) (bk_seqs b) ->
  bk_st (fb_blk (fix_block run_seq b)) <> Stopped.
Proof.
  intros Hb Hs. unfold fix_block. destruct (status_eqb (bk_st b) Running) eqn:Er; simpl; [|exact Hb].
  destruct (chk_is Completed (fix_checks_opt (bk_bypass b))); simpl; [discriminate|].
  destruct (chk_is Failed (bk_pre b)); simpl; [discriminate|].
  destruct (chk_is Failed (bk_cont b)); simpl; [discriminate|].
  destruct (chk_is Failed (bk_post b)); simpl; [discriminate|].
  assert (H0 : count_st sq_st Stopped (map fix_seq (bk_seqs b)) = 0).
  { apply count_zero_of_forall. now apply Forall_map. }
  rewrite H0. simpl.
  match goal with |- context [if ?c then _ else _] => destruct c end; simpl; [discriminate|].
  apply status_eqb_eq in Er. rewrite Er. discriminate.
Qed.

(* an early return of fixBlock leaves the block Completed or Failed *)
Lemma fix_block_early_terminal run_seq b :
  bk_st b = Running -> fb_full (fix_block run_seq b) = false -> is_terminal (bk_st (fb_blk (fix_block run_seq b))) = true.
Proof.
  intro Hr. unfold fix_block. rewrite Hr. simpl.
  destruct (chk_is Completed (fix_checks_opt (bk_bypass b))); simpl; [reflexivity|].
  destruct (chk_is Failed (bk_pre b)); simpl; [reflexivity|].
  destruct (chk_is Failed (bk_cont b)); simpl; [reflexivity|].
  destruct (chk_is Failed (bk_post b)); simpl; [reflexivity|].
  repeat match goal with |- context [if ?c then _ else _] => destruct c end; simpl; discriminate.
Qed.

Lemma fb_full_indep rs1 rs2 b : fb_full (fix_block rs1 b) = fb_full (fix_block rs2 b).
Proof.
  unfold fix_block. destruct (status_eqb (bk_st b) Running); simpl; [|reflexivity].
  destruct (chk_is Completed (fix_checks_opt (bk_bypass b))); simpl; [reflexivity|].
  destruct (chk_is Failed (bk_pre b)); simpl; [reflexivity|].
  destruct (chk_is Failed (bk_cont b)); simpl; [reflexivity|].
  destruct (chk_is Failed (bk_post b)); simpl; [reflexivity|].
  repeat match goal with |- context [if ?c then _ else _] => destruct c end; reflexivity.
Qed.

Lemma running_ix_in l : forall k j,
  In j (running_ix k l) <-> (k <= j /\ exists s, nth_error l (j - k) = Some s /\ sq_st s = Running).
Proof.
  induction l as [|s l IH]; intros k j; simpl.
  - split; [contradiction|]. intros (_ & s & H & _). destruct (j - k); discriminate.
  - destruct (status_eqb (sq_st s) Running) eqn:E; simpl; rewrite ?IH; split.
    + intros [<-|(Hk & s' & Hn & Hs)].
      * split; [lia|]. exists s. rewrite Nat.sub_diag. split; [reflexivity|now apply status_eqb_eq].
      * split; [lia|]. exists s'. replace (j - k) with (S (j - S k)) by lia. simpl. auto.
    + intros (Hk & s' & Hn & Hs). destruct (Nat.eq_dec j k) as [->|Hne]; [left; reflexivity|right].
      split; [lia|]. exists s'. replace (j - k) with (S (j - S k)) in Hn by lia. simpl in Hn. auto.
    + intros (Hk & s' & Hn & Hs). split; [lia|]. exists s'. replace (j - k) with (S (j - S k)) by lia. simpl. auto.
    + intros (Hk & s' & Hn & Hs). destruct (Nat.eq_dec j k) as [->|Hne].
      * rewrite Nat.sub_diag in Hn. simpl in Hn. injection Hn as <-. rewrite Hs in E. discriminate.
      * split; [lia|]. exists s'. replace (j - k) with (S (j - S k)) in Hn by lia. simpl in Hn. auto.
Qed.

(* ---- fixPlan's loop: which sequences are resumed ---- *)
Lemma fix_blocks_res_in run_seq bs : forall i0 i j,
  In (i, j) (snd (fst (fix_blocks run_seq i0 bs))) ->
  exists k b, i = i0 + k /\ nth_error bs k = Some b /\ In j (fb_resumed (fix_block run_seq b)).
Proof.
  induction bs as [|b0 bs IH]; intros i0 i j H; simpl in H; [contradiction|].
  destruct (status_eqb (bk_st (fb_blk (fix_block run_seq b0))) Stopped).
  - simpl in H. apply in_map_iff in H as (j' & E & Hj). injection E as <- <-.
    exists 0, b0. split; [lia|]. split; [reflexivity|exact Hj].
  - specialize (IH (S i0)). destruct (fix_blocks run_seq (S i0) bs) as [[r' res'] st]. simpl in *.
    apply in_app_iff in H as [H|H].
    + apply in_map_iff in H as (j' & E & Hj). injection E as <- <-.
      exists 0, b0. split; [lia|]. split; [reflexivity|exact Hj].
    + destruct (IH _ _ H) as (k & b & -> & Hn & Hj). exists (S k), b. split; [lia|]. split; [exact Hn|exact Hj].
Qed.

Lemma fix_blocks_in_res run_seq bs : forall i0 k b j,
  nth_error bs k = Some b ->
  (forall k' b', k' < k -> nth_error bs k' = Some b' -> bk_st (fb_blk (fix_block run_seq b')) <> Stopped) ->
  In j (fb_resumed (fix_block run_seq b)) ->
  In (i0 + k, j) (snd (fst (fix_blocks run_seq i0 bs))).
Proof.
  induction bs as [|b0 bs IH]; intros i0 k b j Hn Hp Hj; [destruct k; discriminate|]. simpl.
  destruct k as [|k]; simpl in Hn.
  - injection Hn as ->. rewrite Nat.add_0_r.
    destruct (status_eqb (bk_st (fb_blk (fix_block run_seq b))) Stopped); simpl.
    + apply in_map_iff. eauto.
    + destruct (fix_blocks run_seq (S i0) bs) as [[r' res'] st]. simpl. apply in_app_iff. left. apply in_map_iff. eauto.
  - assert (H0 : bk_st (fb_blk (fix_block run_seq b0)) <> Stopped) by (apply (Hp 0 b0); [lia|reflexivity]).
    rewrite (status_eqb_neq _ _ H0).
    specialize (IH (S i0) k b j Hn). destruct (fix_blocks run_seq (S i0) bs) as [[r' res'] st]. simpl in *.
    apply in_app_iff. right. replace (i0 + S k) with (S i0 + k) by lia. apply IH; [|exact Hj].
    intros k' b' Hk Hb. apply (Hp (S k') b'); [lia|exact Hb].
Qed.

(* fixPlan returns before the loop over the blocks *)
Definition plan_returns_early (p : pln) : bool :=
  chk_is Completed (fix_checks_opt (pl_bypass p)) || checks_failed (pl_pre p) || checks_failed (pl_post p).

Lemma fix_plan_early run_seq p :
  pl_st p = Running -> plan_returns_early p = true ->
  pl_blocks (fp_pln (fix_plan run_seq p)) = pl_blocks p /\ fp_resumed (fix_plan run_seq p) = [].
Proof.
  intros Hr He. unfold fix_plan. rewrite Hr. simpl. unfold plan_returns_early in He.
  destruct (chk_is Completed (fix_checks_opt (pl_bypass p))); simpl; [auto|].
  destruct (checks_failed (pl_pre p)); simpl; [auto|].
  destruct (checks_failed (pl_post p)); simpl; [auto|]. discriminate.
Qed.

Lemma fix_plan_resumed run_seq p :
  pl_st p = Running -> plan_returns_early p = false ->
  fp_resumed (fix_plan run_seq p) = snd (fst (fix_blocks run_seq 0 (pl_blocks p))).
Proof.
  intros Hr He. unfold fix_plan. rewrite Hr. simpl. unfold plan_returns_early in He.
  apply orb_false_iff in He as [He He3]. apply orb_false_iff in He as [He1 He2]. rewrite He1, He2, He3. simpl.
  destruct (fix_blocks run_seq 0 (pl_blocks p)) as [[bs res] stop]. simpl.
  repeat match goal with |- context [if ?c then _ else _] => destruct c end; reflexivity.
Qed.

(* ... and then the plan is Completed or Failed: Recovery goes straight to End *)
Lemma fix_plan_early_terminal run_seq p :
  pl_st p = Running -> plan_returns_early p = true -> is_terminal (pl_st (fp_pln (fix_plan run_seq p))) = true.
Proof.
  intros Hr He. unfold fix_plan. rewrite Hr. simpl. unfold plan_returns_early in He.
  destruct (chk_is Completed (fix_checks_opt (pl_bypass p))); simpl; [reflexivity|].
  destruct (checks_failed (pl_pre p)); simpl; [reflexivity|].
  destruct (checks_failed (pl_post p)); simpl; [reflexivity|]. discriminate.
Qed.
