(* The refutation lemmas of the deviation flags (vm_compute on the recorded recoveries of Witnesses.v). *)
From Coercion.Base Require Import Plan.
From Coercion.Engine Require Import Shape Event.
From Coercion.Resume Require Import Resume MonRecover ResumeCheck Witnesses.

(* the witness is accepted by the resumed automaton with flag d only, rejected without flags, and the property
   monitor (no flags) is false on it *)
Definition refutes (d : devs) (c : rcase) : bool :=
  match c with
  | CRec sh im tr verdict determined _ =>
      raccepts d sh im tr && negb (raccepts dev_none sh im tr)
      && mon_noreexec im tr && negb (mon_converges dev_none sh im tr verdict determined)
      && mon_converges d sh im tr verdict determined
  | CRun _ _ _ => false
  end.

Lemma dev_R2_refutes : refutes only_R2 witness_R2 = true.
Proof. vm_compute. reflexivity. Qed.

Lemma dev_R3_refutes : refutes only_R3 witness_R3 = true.
Proof. vm_compute. reflexivity. Qed.

Lemma dev_R5_refutes : refutes only_R5 witness_R5 = true.
Proof. vm_compute. reflexivity. Qed.

Lemma dev_R6_refutes : refutes only_R6 witness_R6 = true.
Proof. vm_compute. reflexivity. Qed.

(* the pre-fix behaviour of R7 is neither accepted by the resumed automaton (whatever the flags) nor by the monitor *)
Definition caught (c : rcase) : bool :=
  match c with
  | CRec sh im tr verdict determined _ =>
      negb (raccepts dev_all sh im tr) && determined && negb (mon_converges dev_all sh im tr verdict determined)
  | CRun _ _ _ => false
  end.

Lemma R7_before_fix_is_caught : caught witness_R7_before_fix = true.
Proof. vm_compute. reflexivity. Qed.
