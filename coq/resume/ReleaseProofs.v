(* What an accepted EvRelease guarantees (C10, release side), and what a plan that is not resumed may do (nothing).
   Proofs only. *)
From Coq Require Import Lia.
From Coercion.Base Require Import Plan.
From Coercion.Engine Require Import Shape Event Action ChecksRun Seq Block Final PlanSM Auto Accept AutoLemmas.
From Coercion.Resume Require Import Resume MonRecover ResumeLemmas.

(* ------------------------------------------------------------------ reading images *)
Lemma iget_dimg_of_cells cs o :
  iget (map (fun oc => (fst oc, ocell_cell (snd oc))) cs) o
  = match im_find cs o with Some c => ocell_cell c | None => cell0 end.
Proof.
  induction cs as [|[o' c] cs IH]; simpl; auto. destruct (obj_eqb o' o); auto.
Qed.

Lemma ist_dimg_of_image I o : ist (dimg_of_image I) o = cst I o.
Proof.
  unfold ist, dimg_of_image, cst, im_lookup. rewrite iget_dimg_of_cells.
  destruct (im_find (im_cells I) o) as [c|]; reflexivity.
Qed.

Lemma cn_dimg_of_image I o : c_n (iget (dimg_of_image I) o) = cn I o.
Proof.
  unfold dimg_of_image, cn, im_lookup. rewrite iget_dimg_of_cells.
  destruct (im_find (im_cells I) o) as [c|]; reflexivity.
Qed.

Lemma cok_dimg_of_image I o : c_ok (iget (dimg_of_image I) o) = cok I o.
Proof.
  unfold dimg_of_image, cok, im_lookup. rewrite iget_dimg_of_cells.
  destruct (im_find (im_cells I) o) as [c|]; reflexivity.
Qed.

(* ------------------------------------------------------------------ a plan that is not resumed *)
Definition idle (r : rst) : Prop := r_ph r = RIdle.

Lemma idle_reps sh r r1 : idle r -> reps sh r = Some r1 -> idle r1.
Proof. unfold idle, reps. intros -> H. discriminate. Qed.

Definition no_activity (e : event) : Prop :=
  match e with EvStart _ | EvEnd _ _ | EvWrite _ _ _ _ _ => False | _ => True end.

Lemma idle_rhandle d sh r e r' : idle r -> rhandle d sh r e = Some r' -> idle r' /\ no_activity e.
Proof.
  unfold idle, rhandle. intros Hi H. rewrite Hi in H.
  destruct e; try discriminate.
  - destruct (h_read sh (r_s r) snap); [|discriminate]. injection H as <-. simpl. auto.
  - unfold r_release in H. rewrite Hi in H.
    destruct (negb (released (r_s r)) && image_agrees (all_objs sh) (s_img (r_s r)) (s_reason (r_s r)) fin); [|discriminate].
    injection H as <-. simpl. auto.
Qed.

Lemma idle_flush sh r e r' : idle r -> flush sh r e = Some r' -> idle r' /\ no_activity e.
Proof. unfold idle, flush. intros -> H. discriminate. Qed.

Lemma idle_stutter sh r e : idle r -> rstutter sh r e = true -> no_activity e.
Proof. unfold idle, rstutter. intros -> H. discriminate. Qed.

Lemma idle_run d sh tr r r' : idle r -> rrun d sh r tr = Some r' -> Forall no_activity tr.
Proof.
  intros Hi H.
  exact (proj2 (rrun_events idle no_activity d sh (idle_reps sh) (idle_rhandle d sh) (idle_flush sh) (idle_stutter sh) tr r r' Hi H)).
Qed.

Lemma rinit_idle sh im rs r0 :
  status_eqb (ist im OPlan) Running = false -> rinit sh im rs = Some r0 -> idle r0.
Proof. unfold rinit. intros -> H. simpl in H. injection H as <-. reflexivity. Qed.

(* ------------------------------------------------------------------ the release *)
(* the state in which the release was taken *)
Lemma rstep_release d sh r fin r' :
  rstep d sh r (EvRelease fin) = Some r' ->
  exists r0, reps_star sh r r0 /\ r_release d sh r0 fin = Some r'.
Proof.
  intro H. destruct (rstep_spec _ _ _ _ _ H) as [(r0 & Hs & H0)|[[_ S]|H0]].
  - exists r0. split; [assumption|]. unfold rhandle in H0. destruct (r_ph r0); assumption.
  - unfold rstutter in S. destruct (r_ph r); [discriminate|simpl in S; discriminate..].
  - unfold flush in H0. destruct (r_ph r); discriminate.
Qed.

Lemma forallb_In {A} (p : A -> bool) l x : forallb p l = true -> In x l -> p x = true.
Proof. intros H Hx. rewrite forallb_forall in H. auto. Qed.

Lemma image_agrees_obj objs im r fin o :
  image_agrees objs im r fin = true -> In o objs ->
  exists c, im_lookup fin o = Some c /\ cell_eqb (iget im o) (ocell_cell c) = true.
Proof.
  unfold image_agrees. intros H Hin. apply andb_true_iff in H as [_ H].
  pose proof (forallb_In _ _ _ H Hin) as Ho. simpl in Ho.
  destruct (im_lookup fin o) as [c|]; [|discriminate]. eauto.
Qed.

Lemma cell_eqb_st a b : cell_eqb a b = true -> c_st a = c_st b.
Proof.
  unfold cell_eqb. intro H. apply andb_true_iff in H as [H _]. apply andb_true_iff in H as [H _].
  now apply status_eqb_eq.
Qed.

(* Wait returned in a resumed run: the plan it returned equals the in-memory image on every object, nothing the
   flags do not excuse is Running in it, its status is what finalStates computed, and it is terminal *)
Lemma release_facts d sh r fin r' :
  r_ph r = RRun -> r_release d sh r fin = Some r' ->
  all_flushed sh r = true /\ quiet d sh (r_I r) (mget r) = true
  /\ image_agrees (all_objs sh) (s_img (r_s r)) (s_reason (r_s r)) fin = true
  /\ is_terminal (ist (s_img (r_s r)) OPlan) = true.
Proof.
  unfold r_release. intros -> H.
  destruct (all_flushed sh r) eqn:E1; [|discriminate]. destruct (quiet d sh (r_I r) (mget r)) eqn:E2; [|discriminate].
  simpl in H. unfold h_release in H.
  destruct (pphase_eqb (s_ph (r_s r)) PEnd && is_terminal (ist (s_img (r_s r)) OPlan)
            && image_agrees (all_objs sh) (s_img (r_s r)) (s_reason (r_s r)) fin) eqn:E3; [|discriminate].
  apply andb_true_iff in E3 as [E3 E4]. apply andb_true_iff in E3 as [_ E3]. auto.
Qed.

(* with no deviation flag, nothing is Running in the released plan *)
Lemma released_nothing_running sh r fin r' o :
  r_ph r = RRun -> r_release dev_none sh r fin = Some r' -> In o (all_objs sh) -> cst fin o <> Running.
Proof.
  intros Hp H Hin. destruct (release_facts _ _ _ _ _ Hp H) as (Hfl & Hq & Hag & _).
  destruct (image_agrees_obj _ _ _ _ _ Hag Hin) as (c & Hc & Heq).
  unfold cst. rewrite Hc. apply cell_eqb_st in Heq. simpl in Heq. rewrite <- Heq.
  unfold all_flushed in Hfl. pose proof (forallb_In _ _ _ Hfl Hin) as Hf. simpl in Hf. apply cell_eqb_st in Hf.
  unfold ist in *. rewrite Hf.
  unfold quiet in Hq. pose proof (forallb_In _ _ _ Hq Hin) as Hqo. simpl in Hqo.
  assert (Hex : excused dev_none sh (r_I r) o = false).
  { unfold excused. destruct (is_check_action o); [reflexivity|]. destruct (block_of_obj o); reflexivity. }
  rewrite Hex, orb_false_r in Hqo. unfold mst, mget in *. intro Hr. rewrite Hr in Hqo. discriminate.
Qed.

(* ------------------------------------------------------------------ a resumed run never becomes idle *)
Definition live (r : rst) : Prop := r_ph r <> RIdle.

Lemma start_recover_live sh r todo : live (start_recover sh r todo).
Proof. unfold live, start_recover, take_entry. destruct todo as [|[b qs] todo]; simpl; discriminate. Qed.

Lemma live_reps sh r r1 : live r -> reps sh r = Some r1 -> live r1.
Proof.
  unfold live, reps. intros Hl H. destruct (r_ph r) as [| [|[b qs] todo] |] eqn:E; try discriminate; try contradiction.
  - destruct (forallb s_done (b_seqs (s_b (r_s r)))); [|discriminate]. injection H as <-. apply start_recover_live.
  - destruct (rp_eps sh (mget r) (r_s r)); [|discriminate]. injection H as <-. simpl. rewrite E. discriminate.
Qed.

Lemma r_launch_ph r b q r1 : r_launch r b q = Some r1 -> r_ph r1 = r_ph r.
Proof.
  unfold r_launch. intro E.
  destruct (r_ph r) as [| [|[b' qs] todo] |] eqn:Ep; try discriminate.
  destruct (Nat.eqb b b' && existsb (Nat.eqb q) qs); [|discriminate].
  destruct (b_seq_upd _ _ _); [|discriminate]. injection E as <-. simpl. auto.
Qed.

Lemma r_plan_final_ph sh r stt rs r1 : r_plan_final sh r stt rs = Some r1 -> r_ph r1 = r_ph r.
Proof.
  unfold r_plan_final. intro E.
  match type of E with (if ?c then _ else _) = _ => destruct c; [|discriminate] end.
  injection E as <-. reflexivity.
Qed.

Ltac break_in H :=
  repeat match type of H with
         | context [match ?x with _ => _ end] => destruct x eqn:?; try discriminate
         end.

Lemma r_write_ph sh r o stt n lastok rs r' : r_write sh r o stt n lastok rs = Some r' -> r_ph r' = r_ph r.
Proof.
  unfold r_write. intro H.
  assert (Hgen : forall x, option_map (fun s' => with_mem (with_s r s') (iset (r_mem r) o (wcell stt n lastok))) x = Some r' -> r_ph r' = r_ph r).
  { intros [s'|] Hx; [|discriminate]. injection Hx as <-. reflexivity. }
  assert (Hfin : forall x, option_map (fun r1 => commit r1 o stt n lastok) x = Some r' ->
                           (forall r1, x = Some r1 -> r_ph r1 = r_ph r) -> r_ph r' = r_ph r).
  { intros [r1|] Hx Hy; [|discriminate]. injection Hx as <-. simpl. auto. }
  destruct (released (r_s r) || negb (obj_in_shape sh o)); [discriminate|].
  destruct o.
  - (* OPlan *)
    destruct n; [destruct lastok|]; try (now apply Hgen in H).
    destruct (in_plan_end r); [|now apply Hgen in H].
    eapply Hfin; [exact H|]. intros r1 E. eapply r_plan_final_ph; eauto.
  - now apply Hgen in H.
  - now apply Hgen in H.
  - (* OSeq *)
    destruct stt; try (now apply Hgen in H).
    destruct n; [destruct lastok|]; try (now apply Hgen in H).
    destruct (r_launch r b s) as [r1|] eqn:E; [|now apply Hgen in H].
    injection H as <-. simpl. eapply r_launch_ph; eauto.
  - now apply Hgen in H.
Qed.

Lemma rhandle_ph d sh r e r' : rhandle d sh r e = Some r' -> r_ph r' = r_ph r.
Proof.
  unfold rhandle. intro H.
  assert (Hw : forall x, option_map (with_s r) x = Some r' -> r_ph r' = r_ph r).
  { intros [s'|] Hx; [|discriminate]. injection Hx as <-. reflexivity. }
  assert (Hrel : forall fin, r_release d sh r fin = Some r' -> r_ph r' = r_ph r).
  { intros fin Hx. unfold r_release in Hx. destruct (r_ph r) eqn:Ep; try discriminate.
    - destruct (negb (released (r_s r)) && image_agrees (all_objs sh) (s_img (r_s r)) (s_reason (r_s r)) fin); [|discriminate].
      injection Hx as <-. simpl. auto.
    - destruct (all_flushed sh r && quiet d sh (r_I r) (mget r)); [|discriminate]. apply Hw in Hx. congruence. }
  destruct (r_ph r) eqn:Ep; destruct e; try discriminate; eauto using r_write_ph.
  all: try (rewrite <- Ep; eauto using r_write_ph).
Qed.

Lemma flush_ph sh r e r' : flush sh r e = Some r' -> r_ph r' = r_ph r.
Proof.
  unfold flush. intro H. destruct (r_ph r) eqn:Ep; [discriminate| |];
    (destruct e; try discriminate; destruct o; try discriminate;
     match type of H with (if ?c then _ else _) = _ => destruct c; [|discriminate] end; injection H as <-; simpl; auto).
Qed.

Lemma live_run d sh tr r r' : live r -> rrun d sh r tr = Some r' -> live r'.
Proof.
  apply rrun_inv. apply rstep_inv.
  - apply live_reps.
  - intros r0 e r1 Hl H. unfold live. rewrite (rhandle_ph _ _ _ _ _ H). exact Hl.
  - intros r0 e r1 Hl H. unfold live. rewrite (flush_ph _ _ _ _ H). exact Hl.
Qed.

Lemma rinit_live sh im rs r0 :
  status_eqb (ist im OPlan) Running = true -> rinit sh im rs = Some r0 -> live r0.
Proof.
  unfold rinit. intros -> H. simpl in H. destruct (negb (resumable_ok (pln_of sh im))); [discriminate|].
  injection H as <-. apply start_recover_live.
Qed.

(* the release of a resumed run is taken in RRun *)
Lemma live_release_run d sh r fin r' : live r -> r_release d sh r fin = Some r' -> r_ph r = RRun.
Proof. unfold live, r_release. intros Hl H. destruct (r_ph r); [contradiction|discriminate|reflexivity]. Qed.

(* C10, release side: whatever the resumed automaton (no deviation flag) accepts up to an EvRelease ends with a
   plan that is Completed, Failed or Stopped and in which nothing is Running *)
Lemma resumed_release_quiescent sh I tr fin r0 r :
  rinit sh (dimg_of_image I) (im_reason I) = Some r0 ->
  cst I OPlan = Running ->
  rrun dev_none sh r0 (tr ++ [EvRelease fin]) = Some r ->
  is_terminal (cst fin OPlan) = true /\ forall o, In o (all_objs sh) -> cst fin o <> Running.
Proof.
  intros Hi Hp H. rewrite rrun_app in H. destruct (rrun dev_none sh r0 tr) as [r1|] eqn:E1; [|discriminate].
  simpl in H. destruct (rstep dev_none sh r1 (EvRelease fin)) as [r2|] eqn:E2; [|discriminate].
  assert (Hl0 : live r0).
  { eapply rinit_live; eauto. rewrite ist_dimg_of_image, Hp. reflexivity. }
  pose proof (live_run _ _ _ _ _ Hl0 E1) as Hl1.
  destruct (rstep_release _ _ _ _ _ E2) as (r1' & Hs & Hr).
  assert (Hl1' : live r1') by (exact (reps_star_inv live sh (live_reps sh) _ _ Hs Hl1)).
  pose proof (live_release_run _ _ _ _ _ Hl1' Hr) as Hrun.
  split.
  - destruct (release_facts _ _ _ _ _ Hrun Hr) as (_ & _ & Hag & Ht).
    assert (Hin : In OPlan (all_objs sh)) by (unfold all_objs; left; reflexivity).
    destruct (image_agrees_obj _ _ _ _ _ Hag Hin) as (c & Hc & Heq).
    unfold cst. rewrite Hc. apply cell_eqb_st in Heq. simpl in Heq. rewrite <- Heq. exact Ht.
  - intros o Hin. eapply released_nothing_running; eauto.
Qed.

(* C09 / C11 side: a plan that is not durably Running is not resumed - the process that restarts on its image runs
   no plugin and writes nothing *)
Lemma unresumed_plan_runs_nothing d sh I tr r0 r :
  rinit sh (dimg_of_image I) (im_reason I) = Some r0 ->
  cst I OPlan <> Running ->
  rrun d sh r0 tr = Some r ->
  Forall no_activity tr.
Proof.
  intros Hi Hp H. eapply idle_run; [|exact H]. eapply rinit_idle; [|exact Hi].
  rewrite ist_dimg_of_image. destruct (status_eqb (cst I OPlan) Running) eqn:E; [|reflexivity].
  apply status_eqb_eq in E. contradiction.
Qed.
